#!/usr/bin/env python3
"""Design-phase scouting only (not part of the verification framework).

Regenerates the hand-crafted inputs with which defects D1-D12 of DESIGN.md section 8 were
reproduced against the pinned tree.  Usage: make_cases.py <outdir>
Streams ending in .deflate are raw DEFLATE (feed to decompress_deflate_stream / recompress);
everything else is a file for expand_zlib_chunks / recreated_zlib_chunks.
"""
import os, random, struct, sys, zlib

out = sys.argv[1] if len(sys.argv) > 1 else "cases"
os.makedirs(out, exist_ok=True)
def save(name, data):
    open(os.path.join(out, name), "wb").write(data)

class BW:
    def __init__(s): s.bits = []
    def put(s, v, n):            # integer, LSB first
        for i in range(n): s.bits.append((v >> i) & 1)
    def code(s, c, n):           # Huffman code, MSB first
        for i in range(n - 1, -1, -1): s.bits.append((c >> i) & 1)
    def bytes(s, padbit=0):
        b = s.bits[:]
        while len(b) % 8: b.append(padbit)
        return bytes(sum(b[i + j] << j for j in range(8)) for i in range(0, len(b), 8))

LB=[0,1,2,3,4,5,6,7,8,10,12,14,16,20,24,28,32,40,48,56,64,80,96,112,128,160,192,224,255]
LE=[0,0,0,0,0,0,0,0,1,1,1,1,2,2,2,2,3,3,3,3,4,4,4,4,5,5,5,5,0]
DB=[0,1,2,3,4,6,8,12,16,24,32,48,64,96,128,192,256,384,512,768,1024,1536,2048,3072,4096,6144,8192,12288,16384,24576]
DE=[0,0,0,0,1,1,2,2,3,3,4,4,5,5,6,6,7,7,8,8,9,9,10,10,11,11,12,12,13,13]
ORDER=[16,17,18,0,8,7,9,6,10,5,11,4,12,3,13,2,14,1,15]

def fixlit(bw, sym):
    if sym < 144: bw.code(0x30 + sym, 8)
    elif sym < 256: bw.code(0x190 + sym - 144, 9)
    elif sym < 280: bw.code(sym - 256, 7)
    else: bw.code(0xC0 + sym - 280, 8)

def fixref(bw, l, d):
    lc = 28 if l == 258 else max(i for i in range(28) if LB[i] <= l - 3)
    fixlit(bw, 257 + lc); bw.put(l - 3 - LB[lc], LE[lc])
    dc = max(i for i in range(30) if DB[i] <= d - 1)
    bw.code(dc, 5); bw.put(d - 1 - DB[dc], DE[dc])

def canon(lens):
    maxb = max(lens); bl = [0] * (maxb + 2)
    for l in lens: bl[l] += 1
    bl[0] = 0; code = 0; nc = [0] * (maxb + 2)
    for b in range(1, maxb + 1):
        code = (code + bl[b - 1]) << 1; nc[b] = code
    res = [None] * len(lens)
    for i, l in enumerate(lens):
        if l: res[i] = nc[l]; nc[l] += 1
    return res

def chunk(t, data):
    return struct.pack(">I", len(data)) + t + data + struct.pack(">I", zlib.crc32(t + data) & 0xffffffff)

rnd = random.Random(7)
words = [bytes(rnd.choice(b'abcdefghijklmnopqrstuvwxyz') for _ in range(rnd.randint(2, 9))) for _ in range(400)]
text = b" ".join(rnd.choice(words) for _ in range(4000))
text2 = b" ".join(rnd.choice(words) for _ in range(2000))

# D1: Z_HUFFMAN_ONLY output that also contains a stored block
r5 = random.Random(5)
noise = bytes(r5.getrandbits(8) for _ in range(3000))
c = zlib.compressobj(6, zlib.DEFLATED, -15, 8, zlib.Z_HUFFMAN_ONLY)
save("d01_huffonly_stored.deflate", c.compress(noise) + c.flush(zlib.Z_FULL_FLUSH) + c.compress(text[:9000]) + c.flush())

# D2-D5: PNG / IDAT
z = zlib.compress(text, 6)
H = b"\x89PNG\r\n\x1a\n" + chunk(b"IHDR", b"\0" * 13)
save("ok.png", H + chunk(b"IDAT", z[:3000]) + chunk(b"IDAT", z[3000:]) + chunk(b"IEND", b""))
save("d02_short_tail.png", H + chunk(b"IDAT", z) + b"\0\0\0")
save("d03_tiny_idat.bin", b"12345678" + chunk(b"IDAT", b"abcd") + b"x" * 20)
save("d04_zero_idat.png", H + chunk(b"IDAT", z[:3000]) + chunk(b"IDAT", b"") + chunk(b"IDAT", z[3000:]) + chunk(b"IEND", b""))
save("d05_junk_before_adler.png", H + chunk(b"IDAT", z[:-4] + b"JUNK" + z[-4:]) + chunk(b"IEND", b""))

# D6: ZIP local header whose extra field runs past EOF
hdr = struct.pack("<IHHHHHIIIHH", 0x04034b50, 20, 0, 8, 0, 0, 0, 10, 10, 4, 60000) + b"name"
save("d06_zip_extra_eof.bin", b"junk" + hdr + b"abc")

# D7: length 258 coded as symbol 284 + extra 31 (fixed block)
bw = BW(); bw.put(1, 1); bw.put(1, 2)
for i in range(1500): fixlit(bw, ord('a') + (i * 7) % 26)
fixlit(bw, ord('z'))
fixlit(bw, 284); bw.put(31, 5); bw.code(0, 5)
for i in range(10): fixlit(bw, ord('q'))
fixlit(bw, 256)
d = bw.bytes(); assert zlib.decompressobj(-15).decompress(d)
save("d07_irregular258.deflate", d)

# D8: add-policy limit 256 (a later match points into the interior of a 256-byte match)
r11 = random.Random(11)
bw = BW(); bw.put(1, 1); bw.put(1, 2)
for ch in bytes(r11.randrange(97, 123) for _ in range(320)): fixlit(bw, ch)
fixref(bw, 256, 320); fixlit(bw, ord('Z')); fixref(bw, 10, 177)
for ch in b"tail of the stream": fixlit(bw, ch)
fixlit(bw, 256)
d = bw.bytes(); assert len(zlib.decompressobj(-15).decompress(d)) == 605
save("d08_addfirst256.deflate", d)

# D9: dynamic header whose code-length alphabet uses only symbols 0, 1, 8
bw = BW(); bw.put(1, 1); bw.put(2, 2); bw.put(0, 5); bw.put(1, 5); bw.put(18 - 4, 4)
cl = [0] * 19; cl[0] = 2; cl[1] = 2; cl[8] = 1
for i in range(18): bw.put(cl[ORDER[i]], 3)
clc = canon(cl)
lens = [8] * 255 + [0] + [8]
for l in lens + [1, 1]: bw.code(clc[l], cl[l])
lc = canon(lens); r3 = random.Random(3)
for i in range(3000): bw.code(lc[r3.randrange(255)], 8)
bw.code(lc[256], 8)
d = bw.bytes(); assert len(zlib.decompressobj(-15).decompress(d)) == 3000
save("d09_cl_upto8.deflate", d)

# D11: IDAT look-back starts inside a stream that was already accepted
c = zlib.compressobj(6, zlib.DEFLATED, -15)
s1 = c.compress(text2) + c.flush(zlib.Z_FULL_FLUSH)
z2 = zlib.compress(text[:12000], 6)
s1 += b"\x01\x04\x00\xfb\xff" + struct.pack(">I", len(z2))
save("d11_idat_lookback.bin", b"\x78\x9c" + s1 + b"IDAT" + z2 +
     struct.pack(">I", zlib.crc32(b"IDAT" + z2) & 0xffffffff) + b"trailing-bytes-12345")

# D12: 70000 equal literals in one dynamic block (u16 frequency counter)
bw = BW(); bw.put(1, 1); bw.put(2, 2); bw.put(0, 5); bw.put(1, 5); bw.put(18 - 4, 4)
cl = [0] * 19; cl[0] = 1; cl[1] = 1
for i in range(18): bw.put(cl[ORDER[i]], 3)
lens = [0] * 257; lens[97] = 1; lens[256] = 1
for l in lens + [1, 1]: bw.code(l, 1)
for i in range(70000): bw.code(0, 1)
bw.code(1, 1)
d = bw.bytes(); assert len(zlib.decompressobj(-15).decompress(d)) == 70000
save("d12_freq_overflow.deflate", d)
print("wrote", len(os.listdir(out)), "files to", out)
