/-! scout: token-level mirror theorem, parametric in the predictor -/

structure Ref where
  len : Nat
  dist : Nat
  irr : Bool
deriving DecidableEq, Repr

inductive Tok where
  | lit (b : Nat)
  | ref (r : Ref)
deriving DecidableEq, Repr

inductive Op where
  | mis (ctx : Nat) (b : Bool)
  | cor (ctx : Nat) (v : Nat)
deriving DecidableEq, Repr

def encDiff (p a : Nat) : Nat := if p ≥ a then (p - a) * 2 else (a - p) * 2 + 1
def decDiff (p e : Nat) : Nat := if e % 2 = 0 then p - e / 2 else p + e / 2

theorem decDiff_encDiff (p a : Nat) : decDiff p (encDiff p a) = a := by
  unfold decDiff encDiff
  split <;> split <;> omega

/-- everything the token coder asks of the predictor; `S` is the whole predictor state
(hash chains, pending reference, input cursor). -/
structure Pred (S : Type) where
  predict : S → Tok × S
  repredict : S → Option (Ref × S)
  hops : S → Ref → Option Nat
  hopMatch : S → Nat → Nat → Option Nat
  commit : S → Tok → S
  cur : S → Nat
  hops_inv : ∀ s r h, hops s r = some h → h ≠ 0 ∧ hopMatch s r.len h = some r.dist

variable {S : Type} (P : Pred S)

def LITWRONG := 1
def REFWRONG := 2
def IRR := 3
def LEN := 3
def DISTONLY := 4
def DISTAFTER := 5

def encRefTail (s : S) (p t : Ref) : Option (List Op) :=
  let lenOp := Op.cor LEN (encDiff p.len t.len)
  let irrOp := if t.len = 258 then [Op.mis IRR t.irr] else []
  if p.len ≠ t.len then
    (P.hops s t).map fun h => lenOp :: Op.cor DISTAFTER h :: irrOp
  else if t.dist ≠ p.dist then
    (P.hops s t).map fun h => lenOp :: Op.cor DISTONLY h :: irrOp
  else some (lenOp :: Op.cor DISTONLY 0 :: irrOp)

def encTok (s : S) (t : Tok) : Option (List Op × S) :=
  let (pt, s1) := P.predict s
  match t, pt with
  | .lit _, .lit _ => some ([Op.mis LITWRONG false], P.commit s1 t)
  | .lit _, .ref _ => some ([Op.mis REFWRONG true], P.commit s1 t)
  | .ref tr, .lit _ =>
    match P.repredict s1 with
    | none => none
    | some (pr, s2) => (encRefTail P s2 pr tr).map fun ops => (Op.mis LITWRONG true :: ops, P.commit s2 t)
  | .ref tr, .ref pr => (encRefTail P s1 pr tr).map fun ops => (Op.mis REFWRONG false :: ops, P.commit s1 t)

def decRefTail (s : S) (p : Ref) : List Op → Option (Ref × List Op)
  | Op.cor c e :: rest =>
    if c ≠ LEN then none else
    let newLen := decDiff p.len e
    let step : Option (Ref × List Op) :=
      if newLen ≠ p.len then
        match rest with
        | Op.cor c2 h :: rest2 =>
          if c2 ≠ DISTAFTER then none else
          (P.hopMatch s newLen h).map fun d => (⟨newLen, d, false⟩, rest2)
        | _ => none
      else
        match rest with
        | Op.cor c2 h :: rest2 =>
          if c2 ≠ DISTONLY then none else
          if h ≠ 0 then (P.hopMatch s p.len h).map fun d => (⟨newLen, d, false⟩, rest2)
          else some (p, rest2)
        | _ => none
    match step with
    | none => none
    | some (r, rest2) =>
      if r.len = 258 then
        match rest2 with
        | Op.mis c3 b :: rest3 => if c3 ≠ IRR then none else some ({ r with irr := r.irr || b }, rest3)
        | _ => none
      else some (r, rest2)
  | _ => none

def decTok (s : S) (ops : List Op) : Option (Tok × List Op × S) :=
  let (pt, s1) := P.predict s
  match pt, ops with
  | .lit l, Op.mis c b :: rest =>
    if c ≠ LITWRONG then none else
    if !b then some (.lit l, rest, P.commit s1 (.lit l)) else
    match P.repredict s1 with
    | none => none
    | some (pr, s2) =>
      (decRefTail P s2 pr rest).map fun (r, rest') => (.ref r, rest', P.commit s2 (.ref r))
  | .ref pr, Op.mis c b :: rest =>
    if c ≠ REFWRONG then none else
    if b then some (.lit (P.cur s1), rest, P.commit s1 (.lit (P.cur s1))) else
      (decRefTail P s1 pr rest).map fun (r, rest') => (.ref r, rest', P.commit s1 (.ref r))
  | _, _ => none

/-- well-formedness of the target w.r.t. the predictor's view:
predicted refs never carry the irregular flag; irregular flag only on len 258 -/
def RefOK (t : Ref) : Prop := t.irr = true → t.len = 258

theorem decRefTail_encRefTail (s : S) (p t : Ref) (ops rest : List Op)
    (hp : p.irr = false) (ht : RefOK t)
    (h : encRefTail P s p t = some ops) :
    decRefTail P s p (ops ++ rest) = some (t, rest) := by
  unfold encRefTail at h
  simp only at h
  split at h
  · -- len differs
    rename_i hne
    cases hh : P.hops s t with
    | none => simp [hh] at h
    | some hv =>
      simp [hh] at h
      subst h
      have ⟨_, hm⟩ := P.hops_inv s t hv hh
      simp [decRefTail, decDiff_encDiff, Ne.symm hne, hm, LEN, DISTAFTER]
      by_cases h258 : t.len = 258
      · simp [h258, IRR]
      · simp [h258]
        have : t.irr = false := by
          cases hi : t.irr with
          | false => rfl
          | true => exact absurd (ht hi) h258
        cases t; simp_all
  · rename_i heq
    have heq : p.len = t.len := by
      rcases Nat.lt_or_ge p.len t.len with h1 | h1
      · exact absurd rfl (fun _ => heq (by omega))
      · by_cases h2 : p.len = t.len
        · exact h2
        · exact absurd h2 (by simpa using heq)
    split at h
    · rename_i hd
      cases hh : P.hops s t with
      | none => simp [hh] at h
      | some hv =>
        simp [hh] at h
        subst h
        have ⟨hnz, hm⟩ := P.hops_inv s t hv hh
        simp [decRefTail, decDiff_encDiff, heq, hm, hnz, LEN, DISTONLY]
        by_cases h258 : t.len = 258
        · simp [h258, IRR]
        · simp [h258]
          have : t.irr = false := by
            cases hi : t.irr with
            | false => rfl
            | true => exact absurd (ht hi) h258
          cases t; simp_all
    · rename_i hd
      have hd : t.dist = p.dist := by simpa using hd
      simp at h
      subst h
      simp [decRefTail, decDiff_encDiff, heq, LEN, DISTONLY]
      by_cases h258 : t.len = 258
      · simp [h258, IRR, hp]
        cases p; cases t; simp_all
      · simp [h258]
        have : t.irr = false := by
          cases hi : t.irr with
          | false => rfl
          | true => exact absurd (ht hi) h258
        cases p; cases t; simp_all
