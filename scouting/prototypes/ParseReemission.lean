/-! scout: re-emission lemmas for a bit-level parser -/

abbrev Bits := List Bool

/-- LSB-first value of n bits -/
def bitsOf : (n : Nat) → (v : Nat) → Bits
  | 0, _ => []
  | n+1, v => (v % 2 == 1) :: bitsOf n (v / 2)

def readBits : (n : Nat) → Bits → Option (Nat × Bits)
  | 0, bs => some (0, bs)
  | _+1, [] => none
  | n+1, b :: bs => (readBits n bs).map fun (v, r) => ((if b then 1 else 0) + 2 * v, r)

theorem readBits_emit : ∀ n bs v rest, readBits n bs = some (v, rest) →
    bs = bitsOf n v ++ rest ∧ v < 2^n
  | 0, bs, v, rest, h => by
    simp [readBits] at h; obtain ⟨rfl, rfl⟩ := h; simp [bitsOf]
  | n+1, [], v, rest, h => by simp [readBits] at h
  | n+1, b :: bs, v, rest, h => by
    simp [readBits] at h
    obtain ⟨v', hr, rfl⟩ := h
    have ⟨ih1, ih2⟩ := readBits_emit n bs v' _ hr
    subst ih1
    constructor
    · cases b <;> simp [bitsOf] <;> omega
    · cases b <;> simp [Nat.pow_succ] <;> omega

/-- a code table: symbol i has (len, code) with code given MSB-first as a bit list -/
abbrev Codes := List (Option Bits)

/-- shortest-first matching decode: try prefixes of growing length -/
def matchSym (codes : Codes) (pre : Bits) : Option Nat :=
  codes.findIdx? (fun c => c == some pre)

def decodeSymAux (codes : Codes) : (fuel : Nat) → (pre : Bits) → Bits → Option (Nat × Bits)
  | 0, _, _ => none
  | _+1, _, [] => none
  | f+1, pre, b :: bs =>
    let pre' := pre ++ [b]
    match matchSym codes pre' with
    | some s => some (s, bs)
    | none => decodeSymAux codes f pre' bs

def decodeSym (codes : Codes) (bs : Bits) : Option (Nat × Bits) := decodeSymAux codes 15 [] bs

theorem matchSym_spec (codes : Codes) (pre : Bits) (s : Nat) (h : matchSym codes pre = some s) :
    codes[s]? = some (some pre) := by
  unfold matchSym at h
  have := List.findIdx?_eq_some_iff_getElem.mp h
  obtain ⟨hlt, hp, _⟩ := this
  simp at hp
  simp [List.getElem?_eq_getElem hlt, hp]

theorem decodeSymAux_emit (codes : Codes) : ∀ fuel pre bs s rest,
    decodeSymAux codes fuel pre bs = some (s, rest) →
    ∃ c, codes[s]? = some (some c) ∧ pre ++ bs = c ++ rest
  | 0, _, _, _, _, h => by simp [decodeSymAux] at h
  | _+1, _, [], _, _, h => by simp [decodeSymAux] at h
  | f+1, pre, b :: bs, s, rest, h => by
    simp only [decodeSymAux] at h
    split at h
    · rename_i s' hm
      simp at h; obtain ⟨rfl, rfl⟩ := h
      exact ⟨pre ++ [b], matchSym_spec _ _ _ hm, by simp⟩
    · have ⟨c, hc, he⟩ := decodeSymAux_emit codes f (pre ++ [b]) bs s rest h
      exact ⟨c, hc, by simpa using he⟩

theorem decodeSym_emit (codes : Codes) (bs : Bits) (s : Nat) (rest : Bits)
    (h : decodeSym codes bs = some (s, rest)) :
    ∃ c, codes[s]? = some (some c) ∧ bs = c ++ rest := by
  simpa using decodeSymAux_emit codes 15 [] bs s rest h

theorem decodeSymAux_shorter (codes : Codes) : ∀ fuel pre bs s rest,
    decodeSymAux codes fuel pre bs = some (s, rest) → rest.length < bs.length
  | 0, _, _, _, _, h => by simp [decodeSymAux] at h
  | _+1, _, [], _, _, h => by simp [decodeSymAux] at h
  | f+1, pre, b :: bs, s, rest, h => by
    simp only [decodeSymAux] at h
    split at h
    · simp at h; obtain ⟨_, rfl⟩ := h; simp
    · have := decodeSymAux_shorter codes f _ bs s rest h
      simp; omega

/-- toy token loop: symbols < 256 literals, 256 = end; well-founded on remaining bits -/
def parseLits (codes : Codes) (bs : Bits) : Option (List Nat × Bits) :=
  match h : decodeSym codes bs with
  | none => none
  | some (s, rest) =>
    if s = 256 then some ([], rest)
    else if s < 256 then
      have : rest.length < bs.length := decodeSymAux_shorter codes 15 [] bs s rest h
      (parseLits codes rest).map fun (ls, r) => (s :: ls, r)
    else none
termination_by bs.length

def codeOf (codes : Codes) (s : Nat) : Bits := ((codes[s]?).getD none).getD []

def writeLits (codes : Codes) : List Nat → Bits
  | [] => codeOf codes 256
  | s :: ls => codeOf codes s ++ writeLits codes ls

theorem write_parseLits (codes : Codes) (bs : Bits) (ls : List Nat) (rest : Bits)
    (h : parseLits codes bs = some (ls, rest)) : bs = writeLits codes ls ++ rest := by
  induction bs using (measure (fun (b : Bits) => b.length)).wf.induction generalizing ls rest with
  | _ bs ih =>
    unfold parseLits at h
    split at h
    · simp at h
    · rename_i s r hd
      have ⟨c, hc, he⟩ := decodeSym_emit codes bs s r hd
      split at h
      · rename_i h256
        simp at h; obtain ⟨rfl, rfl⟩ := h
        subst h256
        simp [writeLits, codeOf, hc, he]
      · split at h
        · simp at h
          obtain ⟨ls', hp, rfl⟩ := h
          have hlt : r.length < bs.length := decodeSymAux_shorter codes 15 [] bs s r hd
          have := ih r hlt ls' rest hp
          simp [writeLits, codeOf, hc, he, this]
        · simp at h
