/-! scout: codec layer model -/

inductive Ev where
  | ctx (fam : Nat) (idx : Nat) (bit : Bool)
  | byp (bit : Bool)
deriving Repr, DecidableEq

def bitLength (v : Nat) : Nat := if v = 0 then 0 else Nat.log2 v + 1

/-- unary: for i in 0..=v: bit = (v != i); stop after false -/
def putUnary (fam n : Nat) (v : Nat) (i : Nat := 0) : List Ev :=
  match v with
  | 0 => [Ev.ctx fam (min (n-1) i) false]
  | v+1 => Ev.ctx fam (min (n-1) i) true :: putUnary fam n v (i+1)

def getUnary (fam n : Nat) : List Ev → (i : Nat := 0) → Option (Nat × List Ev)
  | [], _ => none
  | Ev.ctx f idx b :: rest, i =>
    if f = fam ∧ idx = min (n-1) i then
      if b then (getUnary fam n rest (i+1)).map (fun (v, r) => (v+1, r))
      else some (0, rest)
    else none
  | Ev.byp _ :: _, _ => none

theorem getUnary_putUnary (fam n v i : Nat) (rest : List Ev) :
    getUnary fam n (putUnary fam n v i ++ rest) i = some (v, rest) := by
  induction v generalizing i with
  | zero => simp [putUnary, getUnary]
  | succ v ih => simp [putUnary, getUnary, ih]

/-- put num bits (num-1 .. 0) of `bits` -/
def putNBits (fam n : Nat) (bits : Nat) : (num : Nat) → List Ev
  | 0 => []
  | k+1 => Ev.ctx fam (min (n-1) k) (bits.testBit k) :: putNBits fam n bits k

def getNBits (fam n : Nat) : (num : Nat) → List Ev → Option (Nat × List Ev)
  | 0, evs => some (0, evs)
  | k+1, Ev.ctx f idx b :: rest =>
    if f = fam ∧ idx = min (n-1) k then
      (getNBits fam n k rest).map (fun (v, r) => (v + (if b then 2^k else 0), r))
    else none
  | _+1, _ => none

theorem getNBits_putNBits (fam n bits num : Nat) (rest : List Ev) :
    getNBits fam n num (putNBits fam n bits num ++ rest) = some (bits % 2^num, rest) := by
  induction num with
  | zero => simp [putNBits, getNBits, Nat.mod_one]
  | succ k ih =>
    simp [putNBits, getNBits, ih]
    rw [Nat.mod_pow_succ]
    cases h : bits.testBit k
    · simp [Nat.testBit_eq_decide_div_mod_eq] at h
      have : bits / 2^k % 2 = 0 := by omega
      simp [this]
    · simp [Nat.testBit_eq_decide_div_mod_eq] at h
      simp [h]
