#!/bin/bash
# usage: muttest.sh <patch.diff> <PROP>...   — apply a seeded change to /repo, run the checks, undo.
# Evidence written under a seeded change is not evidence: the evidence directory is put back as it was.
patch=$(realpath "$1"); shift
cd /repo && git status --short | grep -q . && { echo "/repo not clean"; exit 2; }
keep=$(mktemp -d /tmp/evkeep.XXXXXX)
cp -a /verif/evidence/. "$keep"/
git apply "$patch" || exit 2
for p in "$@"; do
  ( cd /verif && timeout 3000 ./vcheck $p 2>&1 | tail -3 )
done
git -C /repo checkout -- .
mkdir -p /verif/evidence/last-seeded-replays && cp -a /verif/evidence/replays/. /verif/evidence/last-seeded-replays/ 2>/dev/null
for f in "$keep"/C*.json; do cp -a "$f" /verif/evidence/; done
rm -rf "$keep"
git -C /verif checkout -- lean/Preflate/Gen   # regenerated under the seeded change
git -C /repo status --short | head -3
