#!/bin/bash
# usage: muttest.sh <patch.diff> <PROP>...   — apply a seeded change to /repo, run the checks, undo
patch=$1; shift
cd /repo && git status --short | grep -q . && { echo "/repo not clean"; exit 2; }
git apply "$patch" || exit 2
for p in "$@"; do
  ( cd /verif && timeout 3000 ./vcheck $p 2>&1 | tail -3 )
done
git -C /repo checkout -- . 
git -C /verif checkout -- evidence   # evidence written under a seeded change is not evidence
git -C /repo status --short | head -3
