#!/usr/bin/env python3
"""writes /verif/MANIFEST.json from the table below (single source of truth for what is claimed)"""
import json
CLAIMS = {
 # id: (category, text, design_ref, level_note, technique)
 "C10": ("proof",
   "Lean 4 theorem `decode_encode`: for EVERY sequence of well-formed operations the model encoder does not hit the `1 << bit_length` overflow and the model decoder, asked for the same kinds, returns exactly the sequence, consumes exactly the emitted decisions and asks for the same adaptive context at every step; `default_count_le_one`; `contexts_match_source` re-checked against the regenerated enum orders and context array sizes. The model is tied to cabac_codec.rs on every run by executing both on the same seeded operation sequences (bytes from the real VP8 coder vs the transcribed one, event traces, decoded operations) and by the implementation's own round-trip oracle.",
   "DESIGN.md §7 C10",
   "Kernel-checked over the model of cabac_codec.rs/statistical_codec.rs and cabac::traits default methods. The VP8 bool coder's arithmetic (external crate) is transcribed and compared byte for byte, not proved. Model-to-code tie is differential (seeded, measured in the evidence).",
   "Lean 4 proof (induction over the operation list with the pending-default invariant) + model/implementation correspondence check"),
}
NA = {
 "C09": "statistical aggregate (acceptance within 1%, correction size within 3%) over four external compressors relative to a frozen binary: no for-all statement whose Lean proof would decide it; a sampled comparison is not this technique (DESIGN.md §7 C09)",
}
PENDING = "check under construction in this round (model and theorems being built); not claimed yet"
props = [json.loads(l)["id"] for l in open("/verif/properties.jsonl")]
checks = []
for p in props:
    if p in CLAIMS:
        cat, text, ref, note, tech = CLAIMS[p]
        checks.append(dict(property_id=p, quick_cmd=f"./vcheck {p} --tier quick", thorough_cmd=f"./vcheck {p} --tier thorough",
                           evidence_file=f"/verif/evidence/{p}.json", replay_cmd_template=f"./vcheck {p} --replay {{path}}",
                           engine="vcheck", level_claimed=dict(category=cat, text=text, design_ref=ref), level_note=note, technique=tech))
na = [dict(property_id=p, reason=NA.get(p, PENDING)) for p in props if p not in CLAIMS]
m = dict(version=1,
  setup_cmd="cd /verif/lean && lake build Preflate pfmodel && cd /verif/harness && CARGO_NET_OFFLINE=true cargo build --offline",
  hooks=dict(guard="cargo feature `verif-hooks` (default off)", enable="/verif/harness depends on preflate-rs = { path = \"/repo\", features = [\"verif-hooks\"] }",
             baseline_off_cmd="cd /repo && cargo nextest run --workspace --no-fail-fast --offline",
             source_commits=["1748777", "a3f2b2e"], add_only=True),
  engines=[dict(name="vcheck", path="/verif/vcheck", serves_properties=sorted(CLAIMS), kind_free_text="orchestrator: translator (tools/extract.py) -> lake build of the property's theorems + axiom audit -> Rust harness (harness/, oracle on the implementation + requests) -> native Lean model driver (lean/Main.lean) -> line-by-line comparison -> verdict/evidence")],
  checks=checks, not_applicable=na,
  notes="Technique: machine-checked proof in Lean 4 over a hand-written executable model, tied to /repo on every run by a translator for constants/layouts (tools/extract.py -> lean/Preflate/Gen) and by a model/implementation correspondence check. Known findings: /verif/known_findings.json. See DESIGN.md.")
json.dump(m, open("/verif/MANIFEST.json", "w"), indent=1)
print("claimed:", sorted(CLAIMS))
