#!/usr/bin/env python3
"""writes /verif/MANIFEST.json from the table below (single source of truth for what is claimed)"""
import json
CLAIMS = {
 # id: (category, text, design_ref, level_note, technique)
 "C10": ("proof",
   "Lean 4 theorem `decode_encode`: for EVERY sequence of well-formed operations the model encoder does not hit the `1 << bit_length` overflow and the model decoder, asked for the same kinds, returns exactly the sequence, consumes exactly the emitted decisions and asks for the same adaptive context at every step; `default_count_le_one`; `contexts_match_source` re-checked against the regenerated enum orders and context array sizes. The model is tied to cabac_codec.rs on every run by executing both on the same seeded operation sequences (bytes from the real VP8 coder vs the transcribed one, event traces, decoded operations) and by the implementation's own round-trip oracle.",
   "DESIGN.md §7 C10",
   "Kernel-checked over the model of cabac_codec.rs/statistical_codec.rs and cabac::traits default methods. The VP8 bool coder's arithmetic (external crate) is transcribed and compared byte for byte, not proved. Model-to-code tie is differential (seeded, measured in the evidence).",
   "Lean 4 proof (induction over the operation list with the pending-default invariant) + model/implementation correspondence check"),
}
CLAIMS["C07"] = ("proof",
   "Lean 4 theorems `write_parse_bits` / `write_parse`: for EVERY byte string the model parser accepts, the model writer applied to the parsed blocks re-emits exactly the consumed prefix (block order and types, BFINAL on the last block only, stored padding and LEN/NLEN, every dynamic-header field and run-length item, every literal and (length, distance) pair including the irregular 258, final padding) and no writer assertion or table index fires. Proved over the length/distance/order tables REGENERATED from preflate_constants.rs on every run, so a table edit that breaks quantize consistency fails the proof. Tie to the code: parse and rewrite requests executed by both the implementation (hook parse_and_rewrite) and the native model driver on seeded streams, plus the implementation's own rewrite(D)=D[..n] oracle over every (length, distance) pair class and all padding patterns.",
   "DESIGN.md §7 C07",
   "Kernel-checked over the model of deflate_reader/deflate_writer/huffman_encoding/bit_reader/bit_writer. Symbol decoding is modelled as canonical-code matching; the array-encoded Huffman tree of huffman_helper.rs is tied to it by the correspondence run only. Model-to-code tie is differential (seeded, measured).",
   "Lean 4 proof (structural induction along the parser with re-emission lemmas) + translator-regenerated tables + model/implementation correspondence check")
CLAIMS["C14"] = ("proof",
   "Partial by nature. Proved (Lean, `decide` over the regenerated effect inventory): the library source contains no mutable static, thread-local, lazy/once cell, interior mutability, randomly seeded collection, environment/time/randomness access, pointer-to-integer cast or stray unsafe — only immutable integer tables, the two FFI wrappers, default_boxed tables and debug file helpers (`no_shared_state`, `ffi_surface`, `inventory_covers_anchors`). In the model every public function is a Lean function, so determinism is a typing fact there. Explored, not proved: 16 threads x expand/recreate/decompress/recompress on shared and distinct inputs against the sequential result, repeated calls, a second process.",
   "DESIGN.md §7 C14",
   "The inventory is syntactic (regular expressions in tools/extract.py, test code and the hooks file excluded); data-race freedom and interleavings rest on Rust's type system; the thread/process runs are samples.",
   "Lean 4 proof over a translator-generated effect inventory + concurrent differential runs")
CLAIMS["C04"] = ("proof",
   "Lean 4 theorem `gen_eq_ref`: if the current source declares the same FILE_VERSION and wrapper version as the reference build, then every format-relevant constant, table, discriminant order, context array size, parameter-header layout (field order and widths on both the write and the read side), chunk tag, varint shape, hash constant and reshift constant regenerated from the current source equals the copy frozen at the reference build — for all inputs at once, whether or not any sampled input exercises the item. The algorithms that are implicitly part of the format are covered by correspondence over history: a golden corpus written by the reference build (pinned release, before any fix) — 413 (stream, corrections) pairs including in-range perturbed parameter vectors and 90 containers — must be reconstructed bit-exactly by the current recompress_deflate_stream / recreated_zlib_chunks on every run; version constants are evaluated so that an announced format change is not an alarm.",
   "DESIGN.md §7 C04",
   "The history quantifier is covered by the frozen constants (proof) and the golden corpus (finite sample written by the real reference build); an algorithmic change that leaves all constants and all corpus items unchanged is not seen.",
   "Lean 4 proof over translator-regenerated vs frozen format constants + golden corpus cross-decoding")
CLAIMS["C02"] = ("proof",
   "Lean 4 theorems over a model of predict_blocks/recreate_blocks, predict_block/recreate_block and predict_tree/recreate_tree written once, generically over a predictor interface: `decStream_encStream` — for ANY predictor (any hash, chain walk, lazy rule, nice length, window, block size, Huffman length calculator) and every valid block list, if analysis produces corrections then reconstruction from them returns exactly the blocks and final padding and consumes exactly those corrections (token-count and EOF/BFINAL signalling, stored blocks, irregular 258, dynamic-header mirror included); `hops_inv` — calculate_hops is inverted by hop_match on the same candidate list; `decTree_encTree`; `context_numbers_match_source` re-checked against the regenerated enum orders. Together with C07 (`write_parse`: blocks -> bits is exact) and C10 (operations -> decisions is lossless) this is the exactness chain. On the implementation the check runs the property's own oracle on every run: recompress(decompress D) = D[..n] for both verify values, equal results, independence from bytes after compressed_size, on streams of 4 real compressors, an independent generator using all format freedoms, and mutations.",
   "DESIGN.md §7 C02/C08",
   "Kernel-checked over the generic mirror model; heuristics enter only as arbitrary functions. Assumed: the bool coder (crate cabac) is lossless; `StreamValid` of parsed blocks (a token list that genuinely expands to the plaintext) is what the parser guarantees — tied to the code by the C03/C07 correspondence, not yet a Lean theorem. The mirror model itself is tied to token_predictor.rs / process.rs / tree_predictor.rs by the implementation oracle runs (a trace-driven correspondence of the protocol layer is the next growth step).",
   "Lean 4 proof (refinement between analysis and reconstruction, parametric in the predictor) + implementation oracle runs")
CLAIMS["C08"] = ("proof",
   "Same mirror theorem as C02 read with the predictor universally quantified (`any_parameters_exact`): whatever parameter vector selects the predictor, analysis either fails or yields corrections from which exactly the original blocks are reconstructed. Added here: `readParams_writeParams` — for every parameter vector whose fields fit their serialised widths, what `write` emits `read` returns unchanged, without hitting a `try_from().unwrap()`, and every emitted operation is a well-formed fixed-width value (so C10 applies); `estimatorRange_wf` — every vector in the estimator's range fits; `param_layout_matches_source` — field order, widths, hash-algorithm ids and add-policy selectors of BOTH `write` and `read` as regenerated from the source equal the model's and each other. Implementation side, every run: hook roundtrip_with_params on valid streams x (estimator vector + random in-range perturbations over 7 hashes x 5 add policies x greedy/lazy x nice/chain/window/block size/flags): Err or exact, and re-read vector equal.",
   "DESIGN.md §7 C02/C08",
   "As C02. The estimator's range is a product of field ranges read off the estimator code (DESIGN.md); lazy matching with zlib-compatible depth quartering below 4 is outside it.",
   "Lean 4 proof (predictor-parametric refinement + header round trip) + translator-regenerated layouts + perturbed-parameter runs on the implementation")
NA = {
 "C09": "statistical aggregate (acceptance within 1%, correction size within 3%) over four external compressors relative to a frozen binary: no for-all statement whose Lean proof would decide it; a sampled comparison is not this technique (DESIGN.md §7 C09)",
}
PENDING = "check under construction in this round (model and theorems being built); not claimed yet"
props = [json.loads(l)["id"] for l in open("/verif/properties.jsonl")]
checks = []
for p in props:
    if p in CLAIMS:
        cat, text, ref, note, tech = CLAIMS[p]
        checks.append(dict(property_id=p, quick_cmd=f"./vcheck {p} --tier quick", thorough_cmd=f"./vcheck {p} --tier thorough",
                           evidence_file=f"/verif/evidence/{p}.json", replay_cmd_template=f"./vcheck {p} --replay {{path}}",
                           engine="vcheck", level_claimed=dict(category=cat, text=text, design_ref=ref), level_note=note, technique=tech))
na = [dict(property_id=p, reason=NA.get(p, PENDING)) for p in props if p not in CLAIMS]
m = dict(version=1,
  setup_cmd="cd /verif/lean && lake build Preflate pfmodel && cd /verif/harness && CARGO_NET_OFFLINE=true cargo build --offline",
  hooks=dict(guard="cargo feature `verif-hooks` (default off)", enable="/verif/harness depends on preflate-rs = { path = \"/repo\", features = [\"verif-hooks\"] }",
             baseline_off_cmd="cd /repo && cargo nextest run --workspace --no-fail-fast --offline",
             source_commits=["1748777", "a3f2b2e"], add_only=True),
  engines=[dict(name="vcheck", path="/verif/vcheck", serves_properties=sorted(CLAIMS), kind_free_text="orchestrator: translator (tools/extract.py) -> lake build of the property's theorems + axiom audit -> Rust harness (harness/, oracle on the implementation + requests) -> native Lean model driver (lean/Main.lean) -> line-by-line comparison -> verdict/evidence")],
  checks=checks, not_applicable=na,
  notes="Technique: machine-checked proof in Lean 4 over a hand-written executable model, tied to /repo on every run by a translator for constants/layouts (tools/extract.py -> lean/Preflate/Gen) and by a model/implementation correspondence check. Known findings: /verif/known_findings.json. See DESIGN.md.")
json.dump(m, open("/verif/MANIFEST.json", "w"), indent=1)
print("claimed:", sorted(CLAIMS))
