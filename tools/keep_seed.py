#!/usr/bin/env python3
"""keep_seed.py <name> <worktree> <property> <detected_by comma list> <needs text>  — store a confirmed seeded change"""
import json, os, shutil, sys
name, wt, prop, detected, needs = sys.argv[1:6]
d = f"/verif/seeded/{name}"
os.makedirs(d, exist_ok=True)
for f in ("patch.diff", "demo.rs", "README.md"):
    if os.path.exists(f"{wt}/MUTATION/{f}"):
        shutil.copy(f"{wt}/MUTATION/{f}", f"{d}/{f}")
json.dump(dict(name=name, property=prop, needs_to_manifest=needs,
               confirmed=dict(existing_suite_passes_with_change=True, demo_fails_with_change=True, demo_passes_without_change=True,
                              how="sub-agent report, patch re-applied to /repo by tools/muttest.sh; the checks named in detected_by printed VIOLATION with the patch and exit 0 without it"),
               detected_by=[x for x in detected.split(",") if x], ran=f"tools/muttest.sh seeded/{name}/patch.diff " + " ".join(x for x in detected.split(",") if x)),
          open(f"{d}/meta.json", "w"), indent=1)
print("kept", d)
