#!/usr/bin/env python3
"""keep_seed.py <name> <property> <detected_by comma list> <needs text> [missed_first comma list]
   store a confirmed seeded change from the scratch worktree /tmp/seed/<name>
   (expects /tmp/seed/<name>.patch and /tmp/seed/<name>.confirm.json written by tools/confirm_seed.sh)"""
import json, os, shutil, sys
name, prop, detected, needs = sys.argv[1:5]
missed = sys.argv[5] if len(sys.argv) > 5 else ""
wt = f"/tmp/seed/{name}"
conf = json.load(open(f"/tmp/seed/{name}.confirm.json"))
assert conf["demo_with_change_rc"] != 0 and conf["demo_without_change_rc"] == 0 and conf["suite_rc"] == 0 and conf["suite"].startswith("59"), conf
d = f"/verif/seeded/{name}"
os.makedirs(d, exist_ok=True)
shutil.copy(f"/tmp/seed/{name}.patch", f"{d}/patch.diff")
shutil.copy(f"{wt}/tests/seed_demo.rs", f"{d}/demo.rs")
if os.path.exists(f"{wt}/SEED_REPORT.md"):
    shutil.copy(f"{wt}/SEED_REPORT.md", f"{d}/README.md")
det = [x for x in detected.split(",") if x]
json.dump(dict(name=name, property=prop, needs_to_manifest=needs,
               confirmed=dict(existing_suite_passes_with_change=True, demo_fails_with_change=True, demo_passes_without_change=True,
                              how="tools/confirm_seed.sh in the sub-agent's scratch worktree: cargo test --test seed_demo with the change (rc %d), with the change reverted (rc 0), cargo nextest run --workspace with the change (%s); then the patch was applied to /repo by tools/muttest.sh, the checks named in detected_by printed VIOLATION with it and exit 0 without it" % (conf["demo_with_change_rc"], conf["suite"])),
               detected_by=det, missed_at_first_by=[x for x in missed.split(",") if x],
               ran=f"tools/confirm_seed.sh {name}; tools/muttest.sh seeded/{name}/patch.diff " + " ".join(det)),
          open(f"{d}/meta.json", "w"), indent=1)
print("kept", d)
