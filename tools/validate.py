#!/usr/bin/env python3
"""validate MANIFEST.json and evidence/*.json against the schemas (uses the tooling venv's jsonschema)"""
import json, sys, glob, jsonschema
ok = True
m = json.load(open('/verif/MANIFEST.json')); jsonschema.validate(m, json.load(open('/root/.vp/MANIFEST.schema.json')))
print('MANIFEST ok:', len(m['checks']), 'checks,', len(m.get('not_applicable', [])), 'n/a')
s = json.load(open('/root/.vp/EVIDENCE.schema.json'))
for f in sorted(glob.glob('/verif/evidence/C*.json')):
    try:
        jsonschema.validate(json.load(open(f)), s); print(f, 'ok')
    except Exception as e:
        ok = False; print(f, 'INVALID', str(e)[:300])
sys.exit(0 if ok else 1)
