#!/usr/bin/env python3
"""Translator: regenerates /verif/lean/Preflate/Gen/*.lean from the current Rust source in /repo.

Every constant, table, enum order and serialisation layout that the Lean theorems mention is
copied from the source text here (regular-expression level). A missing item is an extraction
failure: it is reported on stderr, recorded in Gen/Status.lean's companion JSON, and the process
exits 3 so that the check treats it as a broken obligation.

Also produces the effect inventory for C14 and function fingerprints (DESIGN.md 4.2).
Usage: extract.py [--repo /repo] [--out /verif/lean/Preflate/Gen] [--json file]
"""
import hashlib, json, os, re, sys

REPO = "/repo"
OUT = "/verif/lean/Preflate/Gen"
JSON_OUT = None
args = sys.argv[1:]
while args:
    a = args.pop(0)
    if a == "--repo": REPO = args.pop(0)
    elif a == "--out": OUT = args.pop(0)
    elif a == "--json": JSON_OUT = args.pop(0)

failures = []
GROUP = ["general"]
class _F(list):
    def append(self, x):
        list.append(self, f"[{GROUP[0]}] {x}")
failures = _F()
# definitions of Gen/Consts.lean whose extraction failed: name -> reason. They are emitted with the value of
# the frozen reference (Ref/Consts.lean) and reported as `degraded`: for them the model-to-code tie of
# this run is the correspondence check alone (DESIGN.md 4.1).
FAILED_DEFS = {}
def fail(msg, defs=()):
    failures.append(msg)
    for d in defs:
        FAILED_DEFS.setdefault(d, f"[{GROUP[0]}] {msg}")

def src(name):
    p = os.path.join(REPO, "src", name)
    try:
        return open(p).read()
    except OSError:
        failures.append(f"{name}: file missing")
        return ""

def strip_comments(s):
    s = re.sub(r"/\*.*?\*/", " ", s, flags=re.S)
    s = re.sub(r"//[^\n]*", " ", s)
    return s

def num(tok):
    tok = tok.strip().replace("_", "")
    tok = re.sub(r"(u8|u16|u32|u64|usize|i32|i64)$", "", tok)
    if tok.lower().startswith("0x"):
        return int(tok, 16)
    return int(tok)

def need(pattern, text, what, flags=re.S, defs=()):
    m = re.search(pattern, text, flags)
    if not m:
        fail(f"not found: {what}", defs)
        return None
    return m

def const_eval(text, expr, depth=0):
    expr = expr.strip()
    if depth > 8:
        return None
    if re.fullmatch(r"0[xX][0-9A-Fa-f_]+|[0-9_]+", expr):
        return num(expr)
    mm = re.fullmatch(r"(?:u16|u32)::from_le_bytes\(\s*\[(.+?),(.+?)\]\s*\)", expr, re.S)
    if mm:
        a, b = const_eval(text, mm.group(1), depth + 1), const_eval(text, mm.group(2), depth + 1)
        return None if a is None or b is None else a + 256 * b
    mm = re.fullmatch(r'(?:u16|u32)::from_le_bytes\(\s*\*b"(..)"\s*\)', expr, re.S)
    if mm:
        return ord(mm.group(1)[0]) + 256 * ord(mm.group(1)[1])
    mm = re.fullmatch(r"(?:Self::)?([A-Za-z_][A-Za-z0-9_]*)", expr)
    if mm:
        d = re.search(r"\b(?:const|static)\s+" + mm.group(1) + r"\s*:\s*[\w:]+\s*=\s*(.+?);", text, re.S)
        return const_eval(text, d.group(1), depth + 1) if d else None
    # integer arithmetic over literals and named constants: + - * << >> | & parentheses, `as T` casts
    e = re.sub(r"\bas\s+(?:u8|u16|u32|u64|usize|i32|i64)\b", " ", expr)
    if not re.fullmatch(r"[A-Za-z0-9_:\s+\-*()<>|&]+", e) or not re.search(r"[+\-*<>|&(]", e):
        return None
    def sub(m):
        v = const_eval(text, m.group(0), depth + 1)
        if v is None:
            raise ValueError
        return str(v)
    try:
        py = re.sub(r"0[xX][0-9A-Fa-f_]+(?:u8|u16|u32|u64|usize|i32|i64)?|\d[\d_]*(?:u8|u16|u32|u64|usize|i32|i64)?|(?:Self::)?[A-Za-z_][A-Za-z0-9_]*", sub, e)
        v = eval(py, {"__builtins__": {}}, {})
        return v if isinstance(v, int) and v >= 0 else None
    except Exception:
        return None


def const_num(text, name, what=None, defs=None):
    m = re.search(r"\bconst\s+" + name + r"\s*:\s*\w+\s*=\s*(.+?);", text, re.S)
    v = const_eval(text, m.group(1)) if m else None
    if v is None:
        fail(f"not found: {what or name}", [name] if defs is None else defs)
        return 0
    return v

def const_array(text, name, what=None):
    m = need(r"\b(?:const|static)\s+" + name + r"\s*:\s*\[[^\]]*\]\s*=\s*\[(.*?)\]\s*;", text, what or name, defs=[name])
    if not m:
        return []
    return [num(t) for t in m.group(1).replace("\n", " ").split(",") if t.strip()]

def enum_variants(text, name, defs=()):
    m = need(r"\benum\s+" + name + r"\s*\{(.*?)\n\}", text, f"enum {name}", defs=defs)
    if not m:
        return []
    out = []
    nxt = 0
    body = m.group(1)
    # remove struct-like variant bodies
    body = re.sub(r"\{[^}]*\}", "", body)
    body = re.sub(r"\([^)]*\)", "", body)
    body = re.sub(r"#\[[^\]]*\]", "", body)
    for part in body.split(","):
        part = part.strip()
        if not part:
            continue
        mm = re.match(r"(\w+)\s*(?:=\s*([0-9a-fA-Fx_]+))?$", part)
        if not mm:
            fail(f"enum {name}: cannot parse variant {part!r}", defs)
            continue
        if mm.group(2):
            nxt = num(mm.group(2))
        out.append((mm.group(1), nxt))
        nxt += 1
    return out

def lean_list(xs):
    s = ", ".join(str(x) for x in xs)
    # wrap long lines
    out, line = [], ""
    for tok in s.split(", "):
        if len(line) + len(tok) > 96:
            out.append(line)
            line = ""
        line += tok + ", "
    out.append(line.rstrip(", "))
    return "[" + "\n   ".join(out) + "]"

def lean_str_list(xs):
    return "[" + ", ".join('"' + x + '"' for x in xs) + "]"

# ----------------------------------------------------------------------------- constants
GROUP[0] = "deflate"
pc = strip_comments(src("preflate_constants.rs"))
C = {}
for n in ["LITERAL_COUNT", "LEN_CODE_COUNT", "DIST_CODE_COUNT", "CODETREE_CODE_COUNT", "MIN_MATCH", "MAX_MATCH"]:
    C[n] = const_num(pc, n)
# derived counts are expressions in the source; check their shape and recompute
need(r"NONLEN_CODE_COUNT\s*:\s*usize\s*=\s*LITERAL_COUNT\s*\+\s*1\s*;", pc, "NONLEN_CODE_COUNT = LITERAL_COUNT + 1", defs=["NONLEN_CODE_COUNT", "LITLEN_CODE_COUNT"])
need(r"LITLEN_CODE_COUNT\s*:\s*usize\s*=\s*NONLEN_CODE_COUNT\s*\+\s*LEN_CODE_COUNT\s*;", pc, "LITLEN_CODE_COUNT", defs=["LITLEN_CODE_COUNT"])
need(r"MIN_LOOKAHEAD\s*:\s*u32\s*=\s*MAX_MATCH\s*\+\s*MIN_MATCH\s*\+\s*1\s*;", pc, "MIN_LOOKAHEAD", defs=["MIN_LOOKAHEAD"])
if "LITERAL_COUNT" in FAILED_DEFS: FAILED_DEFS.setdefault("NONLEN_CODE_COUNT", FAILED_DEFS["LITERAL_COUNT"]); FAILED_DEFS.setdefault("LITLEN_CODE_COUNT", FAILED_DEFS["LITERAL_COUNT"])
if "LEN_CODE_COUNT" in FAILED_DEFS: FAILED_DEFS.setdefault("LITLEN_CODE_COUNT", FAILED_DEFS["LEN_CODE_COUNT"])
if "MAX_MATCH" in FAILED_DEFS or "MIN_MATCH" in FAILED_DEFS: FAILED_DEFS.setdefault("MIN_LOOKAHEAD", "[deflate] MIN_MATCH / MAX_MATCH not found")
C["NONLEN_CODE_COUNT"] = C["LITERAL_COUNT"] + 1
C["LITLEN_CODE_COUNT"] = C["NONLEN_CODE_COUNT"] + C["LEN_CODE_COUNT"]
C["MIN_LOOKAHEAD"] = C["MAX_MATCH"] + C["MIN_MATCH"] + 1
T = {}
for n in ["DIST_CODE_TABLE", "LENGTH_CODE_TABLE", "LENGTH_BASE_TABLE", "DIST_BASE_TABLE", "LENGTH_EXTRA_TABLE", "DIST_EXTRA_TABLE", "TREE_CODE_ORDER_TABLE"]:
    T[n] = const_array(pc, n)
# quantize_distance: the two index regimes. Only C04's frozen-constant comparison uses the SHAPE of the
# two quantize functions (their behaviour is tied by the exhaustive token-alphabet correspondence of
# C07/C03), so a rewrite of these functions is attributed to C04 alone.
GROUP[0] = "shape04"
qd = need(r"fn quantize_distance\(dist: u32\) -> usize \{\s*DIST_CODE_TABLE\[if dist <= (\d+) \{\s*dist - (\d+)\s*\} else \{\s*(\d+) \+ \(\(dist - (\d+)\) >> (\d+)\)\s*\} as usize\]", pc, "quantize_distance shape", defs=["QUANTIZE_DISTANCE_SHAPE"])
QD = [num(qd.group(i)) for i in range(1, 6)] if qd else [0] * 5
need(r"fn quantize_length\(len: u32\) -> usize \{\s*LENGTH_CODE_TABLE\[len as usize - MIN_MATCH as usize\]", pc, "quantize_length shape")
GROUP[0] = "deflate"

GROUP[0] = "deflate"
he = strip_comments(src("huffman_encoding.rs"))
tree_code = enum_variants(he, "TreeCodeType", defs=["TREE_CODE_NAMES", "TREE_CODE_VALUES"])
adj = {}
for v in ["Repeat", "ZeroShort", "ZeroLong"]:
    m = need(r"TreeCodeType::" + v + r"\s*=>\s*\((\d+),\s*(\d+)\)", he, f"tree code adjustment {v}", defs=["TREE_CODE_ADJUST"])
    adj[v] = (num(m.group(1)), num(m.group(2))) if m else (0, 0)
fx = need(r"for i in 0\.\.(\d+) \{\s*let mut wbits: u8 = (\d+);\s*if \((\d+)\.\.=(\d+)\)\.contains\(&i\) \{\s*wbits = (\d+);\s*\} else if \((\d+)\.\.=(\d+)\)\.contains\(&i\) \{\s*wbits = (\d+);", he, "fixed literal code lengths", defs=["FIXED_LIT_SHAPE"])
FX = [num(fx.group(i)) for i in range(1, 9)] if fx else [0] * 8
fd = need(r"\(lit_code_lengths, vec!\[(\d+); (\d+)\]\)", he, "fixed distance code lengths", defs=["FIXED_DIST_WIDTH", "FIXED_DIST_COUNT"])
FD = (num(fd.group(1)), num(fd.group(2))) if fd else (0, 0)
hdr_bits = []
for nm, pat in [("hlit", r"let hlit = bit_reader\.get\((\d+)\)\? as usize \+ (\d+);"), ("hdist", r"let hdist = bit_reader\.get\((\d+)\)\? as usize \+ (\d+);"), ("hclen", r"let hclen = bit_reader\.get\((\d+)\)\? as usize \+ (\d+);")]:
    m = need(pat, he, f"header field {nm}", defs=["HEADER_FIELDS"])
    hdr_bits.append((num(m.group(1)), num(m.group(2))) if m else (0, 0))
m = need(r"= bit_reader\.get\((\d+)\)\? as u8;\s*\}\s*let code_length_huff_code_tree", he, "code length width", defs=["CODE_LENGTH_BITS"])
CLBITS = num(m.group(1)) if m else 0

GROUP[0] = "deflate"
pt = strip_comments(src("preflate_token.rs"))
block_type = enum_variants(pt, "BlockType", defs=["BLOCK_TYPE_NAMES", "BLOCK_TYPE_VALUES"])

GROUP[0] = "deflate"
dr = strip_comments(src("deflate_reader.rs"))
modes = re.findall(r"\n\s*(\d+) => \{\s*blk = PreflateTokenBlock::new\(BlockType::(\w+)\)", dr)
if len(modes) != 3:
    fail("deflate_reader: block mode arms", ["BLOCK_MODE_NAMES", "BLOCK_MODE_VALUES"])
m = need(r"\(len \^ ilen\) != (0x[0-9a-fA-F]+)", dr, "stored LEN/NLEN check", defs=["STORED_NLEN_MASK"])
NLEN_MASK = num(m.group(1)) if m else 0

GROUP[0] = "codec"
sc = strip_comments(src("statistical_codec.rs"))
mis = enum_variants(sc, "CodecMisprediction", defs=["MISPREDICTION_NAMES", "MISPREDICTION_VALUES"])
corr = enum_variants(sc, "CodecCorrection", defs=["CORRECTION_NAMES", "CORRECTION_VALUES"])
cc = strip_comments(src("cabac_codec.rs"))
# context arrays of PredictionCabacContext, by TYPE and position (field names are free to change):
# two `[CTX; n]` arrays followed by two `[[CTX; n]; CodecCorrection::MAX as usize]` arrays
CTXN = [0] * 4
m = need(r"struct\s+PredictionCabacContext\s*<\s*CTX\s*>\s*\{(.*?)\n\}", cc, "codec context struct", defs=["CODEC_CONTEXT_SIZES"])
if m:
    flat = [num(x) for x in re.findall(r":\s*\[CTX;\s*(\d+)\]\s*,", m.group(1))]
    nested = [num(x) for x in re.findall(r":\s*\[\[CTX;\s*(\d+)\];\s*CodecCorrection::MAX as usize\]\s*,", m.group(1))]
    if len(flat) == 2 and len(nested) == 2:
        CTXN = flat + nested
    else:
        fail("not found: codec context array sizes", ["CODEC_CONTEXT_SIZES"])

GROUP[0] = "params"
pe = strip_comments(src("preflate_parameter_estimator.rs"))
FILE_VERSION = const_num(pe, "FILE_VERSION")
hash_ids = {}
for n in ["NONE", "ZLIB", "MINIZ_FAST", "LIBDEFLATE4", "LIBDEFLATE4_FAST", "ZLIBNG", "RANDOMVECTOR", "CRC32C"]:
    hash_ids[n] = const_num(pe, "HASH_ALGORITHM_" + n, defs=["HASH_ALGORITHM_IDS"])
strategy = enum_variants(pe, "PreflateStrategy", defs=["STRATEGY_NAMES", "STRATEGY_VALUES"])
huff_strategy = enum_variants(pe, "PreflateHuffStrategy", defs=["HUFF_STRATEGY_NAMES", "HUFF_STRATEGY_VALUES"])
# layout of read / write, structured: prefix, hash-algorithm arms, middle, add-policy arms
def widths_in(body):
    return [(re.sub(r"\s+", " ", a.strip()), num(b)) for a, b in re.findall(r"encoder\.encode_value\(\s*(.*?),\s*(\d+)\s*\)\s*[;,]?", body, re.S)]
def balanced(text, start):
    depth, j = 0, start
    while j < len(text):
        if text[j] == "{": depth += 1
        elif text[j] == "}":
            depth -= 1
            if depth == 0: return j
        j += 1
    return len(text) - 1
mwrite = need(r"pub fn write<E: PredictionEncoder>\(&self, encoder: &mut E\) \{", pe, "PreflateParameters::write", defs=["PARAM_WRITE_PREFIX", "PARAM_WRITE_HASH_ARMS", "PARAM_WRITE_MIDDLE", "PARAM_WRITE_POLICY_ARMS"])
W_PREFIX, W_HASH, W_MIDDLE, W_POLICY = [], [], [], []
if mwrite:
    b0 = pe.find("{", mwrite.start())
    body = pe[b0:balanced(pe, b0) + 1]
    mh = re.search(r"match self\.predictor\.hash_algorithm \{", body)
    mp = re.search(r"match self\.predictor\.add_policy \{", body)
    if not mh or not mp:
        fail("write: match on hash_algorithm / add_policy not found", ["PARAM_WRITE_PREFIX", "PARAM_WRITE_HASH_ARMS", "PARAM_WRITE_MIDDLE", "PARAM_WRITE_POLICY_ARMS"])
    else:
        hb0 = body.find("{", mh.start()); hb1 = balanced(body, hb0)
        pb0 = body.find("{", mp.start()); pb1 = balanced(body, pb0)
        W_PREFIX = widths_in(body[:mh.start()])
        W_MIDDLE = widths_in(body[hb1:mp.start()])
        for am in re.finditer(r"HashAlgorithm::(\w+)\s*(?:\{[^}]*\})?\s*=>\s*\{(.*?)\}", body[hb0 + 1:hb1], re.S):
            W_HASH.append((am.group(1), widths_in(am.group(2))))
        for am in re.finditer(r"DictionaryAddPolicy::(\w+)(?:\(\w+\))?\s*=>\s*(\{.*?\}|encoder\.encode_value\([^)]*\),?)", body[pb0 + 1:pb1], re.S):
            W_POLICY.append((am.group(1), widths_in(am.group(2))))
        if widths_in(body[pb1:]):
            fail("write: fields after the add policy", ["PARAM_WRITE_PREFIX", "PARAM_WRITE_HASH_ARMS", "PARAM_WRITE_MIDDLE", "PARAM_WRITE_POLICY_ARMS"])
mread = need(r"pub fn read\(decoder: &mut impl PredictionDecoder\)[^{]*\{", pe, "PreflateParameters::read", defs=["PARAM_READ_PREFIX", "PARAM_READ_ZLIB_EXTRA", "PARAM_READ_MIDDLE", "PARAM_READ_POLICY_SELECT", "PARAM_READ_POLICY_ARMS", "PARAM_READ_HASH_MAP"])
R_PREFIX, R_ZLIB, R_MIDDLE, R_POLICY, R_SELECT = [], [], [], [], 0
def rwidths(body):
    out = []
    for mm in re.finditer(r"(?:let (\w+) = |(\w+) = |assert_eq!\((\w+), )?decoder\.decode_value\((\d+)\)", body):
        out.append((mm.group(1) or mm.group(2) or mm.group(3) or "?", num(mm.group(4))))
    return out
if mread:
    b0 = pe.find("{", mread.end() - 1)
    body = pe[b0:balanced(pe, b0) + 1]
    mz = re.search(r"if hash_algorithm == HASH_ALGORITHM_ZLIB \{", body)
    mp = re.search(r"let add_policy = match decoder\.decode_value\((\d+)\) \{", body)
    if not mz or not mp:
        fail("read: zlib branch / add policy match not found", ["PARAM_READ_PREFIX", "PARAM_READ_ZLIB_EXTRA", "PARAM_READ_MIDDLE", "PARAM_READ_POLICY_SELECT", "PARAM_READ_POLICY_ARMS", "PARAM_READ_HASH_MAP"])
    else:
        zb0 = body.find("{", mz.start()); zb1 = balanced(body, zb0)
        pb0 = body.find("{", mp.start()); pb1 = balanced(body, pb0)
        R_PREFIX = rwidths(body[:mz.start()])
        R_ZLIB = rwidths(body[zb0:zb1])
        R_MIDDLE = rwidths(body[zb1:mp.start()])
        R_SELECT = num(mp.group(1))
        for am in re.finditer(r"(\d+) => DictionaryAddPolicy::(\w+)(\(decoder\.decode_value\((\d+)\)\))?", body[pb0:pb1]):
            R_POLICY.append((num(am.group(1)), am.group(2), [num(am.group(4))] if am.group(4) else []))
        if rwidths(body[pb1:]):
            fail("read: fields after the add policy", ["PARAM_READ_PREFIX", "PARAM_READ_ZLIB_EXTRA", "PARAM_READ_MIDDLE", "PARAM_READ_POLICY_SELECT", "PARAM_READ_POLICY_ARMS", "PARAM_READ_HASH_MAP"])
    # which constant each hash id maps to on the read side
    R_HASH = re.findall(r"HASH_ALGORITHM_(\w+) => HashAlgorithm::(\w+)", body)
else:
    R_HASH = []
m = need(r"max_token_count: (\d+),\s*zlib_compatible: true,\s*max_dist_3_matches: 0,\s*matching_type: MatchingType::Greedy,\s*max_chain: 0,\s*min_len: 0,\s*hash_algorithm: HashAlgorithm::None", pe, "no-dictionary parameter block", defs=["NO_DICTIONARY_TOKEN_COUNT"])
NODICT_TOKENS = num(m.group(1)) if m else 0

GROUP[0] = "container"
pcn = strip_comments(src("preflate_container.rs"))
WRAPPER_VERSION = const_num(pcn, "COMPRESSED_WRAPPER_VERSION_1", defs=["WRAPPER_VERSION"])
TAGS = [const_num(pcn, n, defs=["CHUNK_TAGS"]) for n in ["LITERAL_CHUNK", "DEFLATE_STREAM", "PNG_COMPRESSED"]]
m = need(r"let mut buffer = \[0(?:u8)?; (\w+)\];\s*let amount_to_read", pcn, "literal staging buffer size", defs=["LITERAL_STAGING"])
STAGING = (const_eval(pcn, m.group(1)) or 0) if m else 0
if m and not STAGING: fail("literal staging buffer size: not a constant expression", ["LITERAL_STAGING"])
m = need(r"\(value & (0x[0-9A-Fa-f]+)\) as u8;\s*value >>= (\d+);\s*if value != 0 \{\s*byte \|= (0x[0-9A-Fa-f]+);", pcn, "write_varint shape", defs=["VARINT_SHAPE"])
VARINT = [num(m.group(i)) for i in range(1, 4)] if m else [0, 0, 0]

GROUP[0] = "scan"
sd = strip_comments(src("scan_deflate.rs"))
MIN_BLOCKSIZE = const_num(sd, "MIN_BLOCKSIZE")
ZIP_SIG = const_num(sd, "ZIP_LOCAL_FILE_HEADER_SIGNATURE")
# the signature table: match arms `<pattern> => [Some(]Signature::X[(n)][)]` where the pattern is a hex
# literal or a named constant; named constants are evaluated (literals, other constants,
# `u16::from_le_bytes([a, b])`, `u16::from_le_bytes(*b"XY")`). The arms are disjoint, so their textual
# order is irrelevant: the table is emitted sorted by (kind, level, value) in the order the theorems use.
sigs = []
for mm in re.finditer(r"(0x[0-9A-Fa-f]{4}|[A-Z][A-Z0-9_]*)\s*=>\s*(?:Some\(\s*)?Signature::(\w+)(?:\((\d+)\))?", sd):
    v = const_eval(sd, mm.group(1))
    if v is not None:
        sigs.append((v, mm.group(2), num(mm.group(3)) if mm.group(3) else 0))
_kind_order = {"Zlib": 0, "ZipLocalFileHeader": 1, "Gzip": 2, "IDAT": 3}
sigs = sorted(set(sigs), key=lambda t: (_kind_order.get(t[1], 9), t[2], t[0]))
if not sigs:
    fail("scan_deflate: signature table", ["SIGNATURES"])
gz = []
for mm in re.finditer(r"if buffer\[3\] & (0x[0-9A-Fa-f]+|\w+) != 0", sd):
    v = const_eval(sd, mm.group(1))
    if v is not None:
        gz.append(v)
m = need(r"let mut buffer = \[0; (\d+)\];\s*reader\.read_exact\(&mut buffer\)\?;\s*if buffer\[2\] != (\d+)", sd, "gzip fixed header", defs=["GZIP_FIXED_HEADER", "GZIP_METHOD"])
GZ_FIXED = (num(m.group(1)), num(m.group(2))) if m else (0, 0)
m = need(r"compression_method == (\d+)", sd, "zip method", defs=["ZIP_METHOD_DEFLATE"])
ZIP_METHOD = num(m.group(1)) if m else 0
m = need(r"if index >= (\d+)[^{]*\{\s*let real_start = index - (\d+);", sd, "IDAT look-back", defs=["IDAT_LOOKBACK"])
IDAT_BACK = (num(m.group(1)), num(m.group(2))) if m else (0, 0)

GROUP[0] = "wrapper"
lib = strip_comments(src("lib.rs"))
# the bound WrapperDecompressZip puts on the expanded (intermediate) form: C12 quantifies over files whose
# expanded form is at most 128 MiB
m = need(r"zstd::bulk::decompress\(\s*\w+\s*,\s*([^)]+?)\s*\)", lib, "wrapper intermediate limit", defs=["WRAPPER_INTERMEDIATE_LIMIT"])
WRAP_LIMIT = (const_eval(lib, m.group(1)) or 0) if m else 0
if m and not WRAP_LIMIT: fail("wrapper intermediate limit: not a constant expression", ["WRAPPER_INTERMEDIATE_LIMIT"])

GROUP[0] = "hash"
ha = strip_comments(src("hash_algorithm.rs"))
MINIZ_MASK = const_num(ha, "MINIZ_LEVEL1_HASH_SIZE_MASK")
CRC_TABLE = const_array(ha, "CRC32C_TABLE")
RANDOM_VECTOR = const_array(ha, "RANDOM_VECTOR")
muls = [(const_eval(ha, a), const_eval(ha, b)) for a, b in re.findall(r"hash\.wrapping_mul\((0x[0-9A-Fa-f]+|\w+)\) >> (\w+)\)", ha)]
if any(a is None or b is None for a, b in muls):
    fail("hash multipliers: not constant expressions", ["HASH_MULTIPLIERS"]); muls = []
m = need(r"\(\(hash \^ \(hash >> (\d+)\)\) & u32::from\(MINIZ_LEVEL1_HASH_SIZE_MASK\)\)", ha, "miniz hash shape", defs=["MINIZ_HASH_SHIFT"])
MINIZ_SHIFT = num(m.group(1)) if m else 0
hc = strip_comments(src("hash_chain.rs"))
MAX_BATCH = const_num(hc, "MAX_UPDATE_HASH_BATCH")
# reshift constants, whatever they are called: the generic argument of every `reshift::<X>()` call and
# the right-hand side of every `pos as i32 - [self.]total_shift >= X` test, evaluated
deltas = sorted(set(v for v in (const_eval(hc, x) for x in re.findall(r"reshift::<\s*(\w+)\s*>\s*\(", hc)) if v is not None))
limits = sorted(set(v for v in (const_eval(hc, x) for x in re.findall(r"pos as i32 - (?:self\.)?total_shift >= (0x[0-9a-fA-F]+|\w+)", hc)) if v is not None))
if not deltas or not limits:
    fail("not found: reshift constants", ["RESHIFT_DELTAS", "RESHIFT_LIMITS"])
shifts = sorted(set(int(x) for x in re.findall(r"total_shift: (-?\d+),", hc)))

GROUP[0] = "levels"
cfg = strip_comments(src("preflate_parse_config.rs"))
def parse_levels(name):
    ldef = ["FAST_LEVELS"] if name.startswith("ZLIB") else ["SLOW_LEVELS"]
    m = need(r"const " + name + r": \[PreflateParserConfig; (\d+)\] = \[(.*?)\n\];", cfg, name, defs=ldef)
    out = []
    if m:
        for blk in re.findall(r"PreflateParserConfig \{(.*?)\n    \}", m.group(2), re.S):
            mt = re.search(r"match_type: MatchingType::(Greedy|Lazy \{\s*good_length: (\d+),\s*max_lazy: (\d+),?\s*\})", blk)
            nl = re.search(r"nice_length: (\d+)", blk)
            mc = re.search(r"max_chain: (\d+)", blk)
            if not (mt and nl and mc):
                fail(name + ": entry", ldef)
                continue
            out.append((0, 0, num(nl.group(1)), num(mc.group(1))) if mt.group(1) == "Greedy" else (num(mt.group(2)), num(mt.group(3)), num(nl.group(1)), num(mc.group(1))))
    return out
FAST_LEVELS = parse_levels("ZLIB_PREFLATE_PARSER_SETTINGS")
SLOW_LEVELS = parse_levels("SLOW_PREFLATE_PARSER_SETTINGS")

GROUP[0] = "effects"
# ----------------------------------------------------------------------------- effect inventory (C14)
EFFECT_PATTERNS = [
    ("static_mut", r"\bstatic\s+mut\b"),
    ("thread_local", r"\bthread_local!"),
    ("lazy_cell", r"\b(OnceLock|OnceCell|LazyLock|LazyCell|lazy_static!|Lazy::new|Once::new)\b"),
    ("interior_mutability", r"\b(RefCell|Cell<|UnsafeCell|Mutex|RwLock|Atomic[A-Z]\w*)\b"),
    ("hash_collection", r"\b(HashMap|HashSet|RandomState|DefaultHasher)\b"),
    ("environment", r"\bstd::env\b|\benv::var\b"),
    ("time", r"\b(std::time|Instant::now|SystemTime)\b"),
    ("randomness", r"\b(rand::|thread_rng|getrandom)\b"),
    ("ptr_to_int", r"as \*const [^;]*? as usize|\.as_ptr\(\) as (usize|u64)|\baddr\(\)"),
    ("unsafe", r"\bunsafe\b"),
    ("static_item", r"^\s*(?:pub(?:\([^)]*\))?\s+)?static\s+(?!mut\b)\w+"),
    ("file_io", r"\bstd::fs\b|\bFile::(open|create)\b"),
    ("global_alloc", r"#\[global_allocator\]"),
    # identity of the executing thread / process, threads started by the library itself, leaked or shared
    # allocations, allocation addresses used as data: each can make a result depend on who calls, or when
    ("thread_identity", r"\bthread::current\b|\bThreadId\b|\bprocess::id\b|\bavailable_parallelism\b"),
    ("spawned_thread", r"\bthread::(spawn|scope|Builder)\b|\brayon\b|\.par_iter\b"),
    ("shared_ownership", r"\bArc<|\bArc::new\b|\bRc<|\bRc::new\b|\bBox::leak\b|\bmem::forget\b"),
    ("address_as_data", r"\baddr_of!|\bptr::addr_of\b|\bas \*const \(\) as|\{:p\}|\.as_ptr\(\)\s*as\s+\w*int|\bexpose_addr\b|\bexpose_provenance\b"),
]
effects = []
files = sorted(f for f in os.listdir(os.path.join(REPO, "src")) if f.endswith(".rs"))
for f in files:
    if f in ("verif_hooks.rs",):
        continue
    raw = open(os.path.join(REPO, "src", f)).read()
    text = strip_comments(raw)
    # drop test-only items: #[cfg(test)] fn/mod/struct/impl ... and #[test] fn ...
    lines = text.split("\n")
    depth = 0
    skip_until_depth = None
    pending_test = False
    kept = []
    for ln, line in enumerate(lines, 1):
        s = line.strip()
        if skip_until_depth is None and re.match(r"#\[(cfg\(test\)|test)\]", s):
            pending_test = True
            kept.append((ln, ""))
            continue
        if pending_test and skip_until_depth is None:
            if s.startswith("#["):
                kept.append((ln, ""))
                continue
            if "{" in line:
                skip_until_depth = depth
                pending_test = False
            elif s.endswith(";"):
                pending_test = False
                kept.append((ln, ""))
                depth += line.count("{") - line.count("}")
                continue
        opens, closes = line.count("{"), line.count("}")
        if skip_until_depth is not None:
            depth += opens - closes
            kept.append((ln, ""))
            if depth <= skip_until_depth:
                skip_until_depth = None
            continue
        depth += opens - closes
        kept.append((ln, line))
    for ln, line in kept:
        for kind, pat in EFFECT_PATTERNS:
            if re.search(pat, line):
                k = kind
                if kind == "static_item":
                    # immutable static of plain integers is data, anything else is not classified as benign
                    k = "static_pod" if re.search(r"static\s+\w+\s*:\s*\[\s*(u8|u16|u32|u64|i32|usize)\s*;\s*\d+\s*\]\s*=", line) else "static_other"
                if kind == "unsafe":
                    k = "unsafe_ffi_wrapper" if (f == "lib.rs" and re.search(r"pub unsafe extern \"C\" fn Wrapper(Compress|Decompress)Zip\(", line)) else "unsafe_other"
                effects.append((f, ln, k, line.strip()[:100].replace('"', "'").replace("\\", "/")))
        if re.search(r"\bDefaultBoxed\b|default_boxed\(\)", line) and not re.search(r"^\s*use\b", line):
            effects.append((f, ln, "default_boxed", line.strip()[:100].replace('"', "'").replace("\\", "/")))

# ----------------------------------------------------------------------------- fingerprints
def fn_fingerprints(fname):
    text = strip_comments(src(fname))
    out = {}
    for m in re.finditer(r"\bfn\s+(\w+)\s*(?:<[^>]*>)?\s*\(", text):
        start = m.start()
        i = text.find("{", m.end())
        semi = text.find(";", m.end())
        if i < 0 or (0 <= semi < i):
            continue
        depth, j = 0, i
        while j < len(text):
            if text[j] == "{": depth += 1
            elif text[j] == "}":
                depth -= 1
                if depth == 0: break
            j += 1
        body = re.sub(r"\s+", "", text[start:j + 1])
        key = m.group(1)
        if key in out:
            key = f"{key}#{len([k for k in out if k.split('#')[0] == m.group(1)])}"
        out[key] = hashlib.sha256(body.encode()).hexdigest()[:16]
    return out
fingerprints = {f: fn_fingerprints(f) for f in files if f != "verif_hooks.rs"}

# ----------------------------------------------------------------------------- write Lean
os.makedirs(OUT, exist_ok=True)
def emit(name, text):
    p = os.path.join(OUT, name)
    old = None
    try: old = open(p).read()
    except OSError: pass
    if old != text:
        open(p, "w").write(text)

L = []
A = L.append
A("/- GENERATED by /verif/tools/extract.py from /repo/src — do not edit. -/")
A("namespace Preflate.Gen\n")
for k in ["LITERAL_COUNT", "NONLEN_CODE_COUNT", "LEN_CODE_COUNT", "LITLEN_CODE_COUNT", "DIST_CODE_COUNT", "CODETREE_CODE_COUNT", "MIN_MATCH", "MAX_MATCH", "MIN_LOOKAHEAD"]:
    A(f"def {k} : Nat := {C[k]}")
A("")
for k in ["LENGTH_BASE_TABLE", "LENGTH_EXTRA_TABLE", "DIST_BASE_TABLE", "DIST_EXTRA_TABLE", "TREE_CODE_ORDER_TABLE", "LENGTH_CODE_TABLE", "DIST_CODE_TABLE"]:
    A(f"def {k} : List Nat :=\n  {lean_list(T[k])}\n")
A("/-- quantize_distance: `if dist <= a then table[dist - b] else table[c + ((dist - d) >>> e)]` -/")
A(f"def QUANTIZE_DISTANCE_SHAPE : List Nat := {lean_list(QD)}\n")
A("/-- TreeCodeType discriminants, in declaration order -/")
A(f"def TREE_CODE_NAMES : List String := {lean_str_list([n for n, _ in tree_code])}")
A(f"def TREE_CODE_VALUES : List Nat := {lean_list([v for _, v in tree_code])}")
A("/-- get_tree_code_adjustment: (amount to subtract, bits) for Repeat, ZeroShort, ZeroLong -/")
A(f"def TREE_CODE_ADJUST : List (Nat × Nat) := [{', '.join(f'({a}, {b})' for a, b in [adj['Repeat'], adj['ZeroShort'], adj['ZeroLong']])}]\n")
A("/-- fixed literal/length code: count, default width, (lo, hi, width), (lo, hi, width) -/")
A(f"def FIXED_LIT_SHAPE : List Nat := {lean_list(FX)}")
A(f"def FIXED_DIST_WIDTH : Nat := {FD[0]}\ndef FIXED_DIST_COUNT : Nat := {FD[1]}\n")
A("/-- dynamic header fields (bits, offset) for HLIT, HDIST, HCLEN; width of one code length -/")
A(f"def HEADER_FIELDS : List (Nat × Nat) := [{', '.join(f'({a}, {b})' for a, b in hdr_bits)}]")
A(f"def CODE_LENGTH_BITS : Nat := {CLBITS}\n")
A("/-- BlockType discriminants in declaration order; block mode (the two header bits) per reader arm -/")
A(f"def BLOCK_TYPE_NAMES : List String := {lean_str_list([n for n, _ in block_type])}")
A(f"def BLOCK_TYPE_VALUES : List Nat := {lean_list([v for _, v in block_type])}")
A(f"def BLOCK_MODE_NAMES : List String := {lean_str_list([n for _, n in modes])}")
A(f"def BLOCK_MODE_VALUES : List Nat := {lean_list([int(v) for v, _ in modes])}")
A(f"def STORED_NLEN_MASK : Nat := {NLEN_MASK}\n")
A("/-- codec context enums in declaration order (MAX included) and context array sizes -/")
A(f"def MISPREDICTION_NAMES : List String := {lean_str_list([n for n, _ in mis])}")
A(f"def MISPREDICTION_VALUES : List Nat := {lean_list([v for _, v in mis])}")
A(f"def CORRECTION_NAMES : List String := {lean_str_list([n for n, _ in corr])}")
A(f"def CORRECTION_VALUES : List Nat := {lean_list([v for _, v in corr])}")
A(f"def CODEC_CONTEXT_SIZES : List Nat := {lean_list(CTXN)}\n")
A(f"def FILE_VERSION : Nat := {FILE_VERSION}")
A(f"def HASH_ALGORITHM_IDS : List Nat := {lean_list([hash_ids[n] for n in ['NONE', 'ZLIB', 'MINIZ_FAST', 'LIBDEFLATE4', 'LIBDEFLATE4_FAST', 'ZLIBNG', 'RANDOMVECTOR', 'CRC32C']])}")
A(f"def STRATEGY_NAMES : List String := {lean_str_list([n for n, _ in strategy])}")
A(f"def STRATEGY_VALUES : List Nat := {lean_list([v for _, v in strategy])}")
A(f"def HUFF_STRATEGY_NAMES : List String := {lean_str_list([n for n, _ in huff_strategy])}")
A(f"def HUFF_STRATEGY_VALUES : List Nat := {lean_list([v for _, v in huff_strategy])}")
def pairs(xs):
    return "[" + ", ".join(f'("{a.replace(chr(34), chr(39))}", {b})' for a, b in xs) + "]"
A("/-- parameter header as `write` emits it: (expression, width) lists -/")
A(f"def PARAM_WRITE_PREFIX : List (String × Nat) := {pairs(W_PREFIX)}")
A("def PARAM_WRITE_HASH_ARMS : List (String × List (String × Nat)) := [" + ", ".join(f'("{n}", {pairs(w)})' for n, w in W_HASH) + "]")
A(f"def PARAM_WRITE_MIDDLE : List (String × Nat) := {pairs(W_MIDDLE)}")
A("def PARAM_WRITE_POLICY_ARMS : List (String × List (String × Nat)) := [" + ", ".join(f'("{n}", {pairs(w)})' for n, w in W_POLICY) + "]")
A("/-- parameter header as `read` consumes it -/")
A(f"def PARAM_READ_PREFIX : List (String × Nat) := {pairs(R_PREFIX)}")
A(f"def PARAM_READ_ZLIB_EXTRA : List (String × Nat) := {pairs(R_ZLIB)}")
A(f"def PARAM_READ_MIDDLE : List (String × Nat) := {pairs(R_MIDDLE)}")
A(f"def PARAM_READ_POLICY_SELECT : Nat := {R_SELECT}")
A("def PARAM_READ_POLICY_ARMS : List (Nat × String × List Nat) := [" + ", ".join(f'({i}, "{n}", {lean_list(w)})' for i, n, w in R_POLICY) + "]")
A("def PARAM_READ_HASH_MAP : List (String × String) := [" + ", ".join(f'("{a}", "{b}")' for a, b in R_HASH) + "]")
A(f"def NO_DICTIONARY_TOKEN_COUNT : Nat := {NODICT_TOKENS}\n")
A(f"def WRAPPER_VERSION : Nat := {WRAPPER_VERSION}")
A(f"def CHUNK_TAGS : List Nat := {lean_list(TAGS)}")
A(f"def LITERAL_STAGING : Nat := {STAGING}")
A(f"def VARINT_SHAPE : List Nat := {lean_list(VARINT)}")
A(f"def WRAPPER_INTERMEDIATE_LIMIT : Nat := {WRAP_LIMIT}")
A(f"def MIN_BLOCKSIZE : Nat := {MIN_BLOCKSIZE}")
A(f"def ZIP_LOCAL_FILE_HEADER_SIGNATURE : Nat := {ZIP_SIG}")
A(f"def ZIP_METHOD_DEFLATE : Nat := {ZIP_METHOD}")
A("/-- (little-endian u16 of the two signature bytes, kind, zlib level hint) -/")
A(f"def SIGNATURES : List (Nat × String × Nat) := [{', '.join(f'({a}, {chr(34)}{b}{chr(34)}, {c})' for a, b, c in sigs)}]")
A(f"def GZIP_FLAG_MASKS : List Nat := {lean_list(gz)}")
A(f"def GZIP_FIXED_HEADER : Nat := {GZ_FIXED[0]}\ndef GZIP_METHOD : Nat := {GZ_FIXED[1]}")
A(f"def IDAT_LOOKBACK : Nat := {IDAT_BACK[1]}\n")
A(f"def MINIZ_LEVEL1_HASH_SIZE_MASK : Nat := {MINIZ_MASK}")
A(f"def MINIZ_HASH_SHIFT : Nat := {MINIZ_SHIFT}")
A(f"def HASH_MULTIPLIERS : List (Nat × Nat) := [{', '.join(f'({a}, {b})' for a, b in muls)}]")
A(f"def MAX_UPDATE_HASH_BATCH : Nat := {MAX_BATCH}")
A(f"def RESHIFT_DELTAS : List Nat := {lean_list(deltas)}")
A(f"def RESHIFT_LIMITS : List Nat := {lean_list(limits)}")
A(f"def INITIAL_TOTAL_SHIFTS : List Int := [{', '.join(str(x) for x in shifts)}]\n")
A(f"def CRC32C_TABLE : List Nat :=\n  {lean_list(CRC_TABLE)}\n")
A(f"def RANDOM_VECTOR : List Nat :=\n  {lean_list(RANDOM_VECTOR)}\n")
A("/-- estimator-only level tables: (good_length, max_lazy, nice_length, max_chain); (0,0,..) = greedy -/")
A(f"def FAST_LEVELS : List (Nat × Nat × Nat × Nat) := [{', '.join(str(t) for t in FAST_LEVELS)}]")
A(f"def SLOW_LEVELS : List (Nat × Nat × Nat × Nat) := [{', '.join(str(t) for t in SLOW_LEVELS)}]")
A("\nend Preflate.Gen")

def def_chunks(text):
    """split a Consts.lean text at `def NAME`: [(name or None, chunk)] (doc comments stay with the chunk before)"""
    parts = re.split(r"(?m)^(?=def \w+ )", text)
    out = []
    for part in parts:
        m = re.match(r"def (\w+) ", part)
        out.append((m.group(1) if m else None, part))
    return out

def split_trailer(c):
    m = re.search(r"\n((?:[ \t]*\n)*(?:/--(?:(?!-/).)*-/[ \t]*\n)?)\Z", c, re.S)
    return (c[:m.start() + 1], m.group(1)) if m else (c, "")

# lists found by counting syntactic occurrences: FEWER entries than the frozen reference means that some
# occurrences no longer have the literal shape (a partial match), which is an extraction failure
OCCURRENCE_LISTS = ["GZIP_FLAG_MASKS", "HASH_MULTIPLIERS", "RESHIFT_DELTAS", "RESHIFT_LIMITS", "INITIAL_TOTAL_SHIFTS",
                    "PARAM_WRITE_PREFIX", "PARAM_WRITE_HASH_ARMS", "PARAM_WRITE_MIDDLE", "PARAM_WRITE_POLICY_ARMS",
                    "PARAM_READ_PREFIX", "PARAM_READ_ZLIB_EXTRA", "PARAM_READ_MIDDLE", "PARAM_READ_POLICY_ARMS", "PARAM_READ_HASH_MAP"]
gen_text = "\n".join(L) + "\n"
ref_path = os.path.join(os.path.dirname(os.path.abspath(OUT)), "Ref", "Consts.lean")
if not os.path.exists(ref_path):
    ref_path = os.path.join(os.path.dirname(os.path.abspath(__file__)), "..", "lean", "Preflate", "Ref", "Consts.lean")
degraded = []
try:
    ref_chunks = {n: c for n, c in def_chunks(open(ref_path).read()) if n}
except OSError:
    ref_chunks = {}
chunks = def_chunks(gen_text)
for n, c in chunks:
    if n in OCCURRENCE_LISTS and n in ref_chunks and n not in FAILED_DEFS:
        body = lambda t: t.split(":=", 1)[1]
        if body(c).count(",") < body(ref_chunks[n]).count(",") or ("[]" in body(c).replace(" ", "") and "[]" not in body(ref_chunks[n]).replace(" ", "")):
            GROUP[0] = {"GZIP_FLAG_MASKS": "scan", "HASH_MULTIPLIERS": "hash", "RESHIFT_DELTAS": "hash", "RESHIFT_LIMITS": "hash", "INITIAL_TOTAL_SHIFTS": "hash"}.get(n, "params")
            fail(f"{n}: fewer syntactic occurrences found than in the reference (partial match)", [n])
hard = []
if FAILED_DEFS:
    new = []
    for n, c in chunks:
        if n in FAILED_DEFS:
            if n in ref_chunks:
                # the reference's definition, followed by the generated chunk's own trailer (blank lines and
                # the doc comment of the NEXT definition)
                rc = split_trailer(ref_chunks[n])[0] + split_trailer(c)[1]
                new.append((n, rc))
                degraded.append({"def": n, "reason": FAILED_DEFS[n]})
            else:
                hard.append(f"{n}: extraction failed and the frozen reference has no such definition")
                new.append((n, c))
        else:
            new.append((n, c))
    gen_text = "".join(c for _, c in new)
# failures that name no definition (shape guards) rest on the correspondence run as well
for f in failures:
    if not any(d["reason"] == f for d in degraded) and not any(f.endswith(h) for h in hard):
        degraded.append({"def": "(shape guard)", "reason": f})
emit("Consts.lean", gen_text)

E = []
E.append("/- GENERATED by /verif/tools/extract.py from /repo/src — do not edit. -/")
E.append("namespace Preflate.Gen\n")
E.append("/-- one syntactic occurrence of something that could make a public function differ from a\n    pure function of its arguments (tests and the verification hooks file excluded) -/")
E.append("structure Effect where\n  file : String\n  line : Nat\n  kind : String\n  text : String\nderiving Repr, DecidableEq\n")
E.append("def EFFECTS : List Effect := [")
E.append(",\n".join(f'  ⟨"{f}", {ln}, "{k}", "{t}"⟩' for f, ln, k, t in effects))
E.append("]\n")
E.append(f"def SOURCE_FILES : List String := {lean_str_list(files)}")
E.append("\nend Preflate.Gen")
emit("Effects.lean", "\n".join(E) + "\n")

status = {
    "failures": hard,
    "degraded": degraded,
    "fingerprints": fingerprints,
    "counts": {"effects": len(effects), "signatures": len(sigs)},
}
if JSON_OUT:
    json.dump(status, open(JSON_OUT, "w"), indent=1, sort_keys=True)
for f in hard:
    print("EXTRACTION FAILURE:", f, file=sys.stderr)
for d in degraded:
    print(f"EXTRACTION DEGRADED: {d['def']} taken from the frozen reference: {d['reason']}", file=sys.stderr)
sys.exit(3 if hard else 0)
