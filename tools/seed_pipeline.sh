#!/bin/bash
# usage: seed_pipeline.sh <name> <features|-> <PROP>...  — confirm a sub-agent's seeded change, then run the checks against it
name=$1; feat=$2; shift 2
[ "$feat" = "-" ] && feat=""
/verif/tools/confirm_seed.sh $name $feat > /tmp/seed/$name.pipeline.log 2>&1
cat /tmp/seed/$name.confirm.json
/verif/tools/muttest.sh /tmp/seed/$name.patch "$@" 2>&1 | tee -a /tmp/seed/$name.pipeline.log | grep -E "VIOLATION|tier="
