#!/bin/bash
# usage: confirm_seed.sh <name> [cargo features for the demo]
# Confirms, in the scratch worktree /tmp/seed/<name> a sub-agent left behind, that
#  (1) the demo fails with the change, (2) passes without it, (3) the existing suite passes with it.
# Writes /tmp/seed/<name>.confirm.json and /tmp/seed/<name>.patch
name=$1; feat=${2:+--features $2}
wt=/tmp/seed/$name
cd $wt || exit 2
export CARGO_NET_OFFLINE=true
git diff -- src Cargo.toml > /tmp/seed/$name.patch
[ -s /tmp/seed/$name.patch ] || { echo "no change in src"; exit 2; }
cargo test --offline $feat --test seed_demo > /tmp/seed/$name.demo_with.log 2>&1; rc_with=$?
git apply -R /tmp/seed/$name.patch   # (git stash is shared between worktrees: not used)
cargo test --offline $feat --test seed_demo > /tmp/seed/$name.demo_without.log 2>&1; rc_without=$?
git apply /tmp/seed/$name.patch
mkdir -p /tmp/seed/hold; mv tests/seed_demo.rs /tmp/seed/hold/$name.seed_demo.rs
cargo nextest run --workspace --no-fail-fast --offline > /tmp/seed/$name.suite.log 2>&1; rc_suite=$?
mv /tmp/seed/hold/$name.seed_demo.rs tests/seed_demo.rs
passed=$(grep -o '[0-9]* passed' /tmp/seed/$name.suite.log | tail -1)
echo "{\"name\":\"$name\",\"demo_with_change_rc\":$rc_with,\"demo_without_change_rc\":$rc_without,\"suite_rc\":$rc_suite,\"suite\":\"$passed\"}" | tee /tmp/seed/$name.confirm.json
