#!/bin/bash
# usage: seed_regression.sh [jobs] [name-glob]  — re-runs every kept seeded change (seeded/<name>/patch.diff) against the
# check of the property it was written for (meta.json "property"), JOBS at a time, each in its own scratch
# copy (tools/pmut.sh: neither /repo nor /verif is touched). Harmless controls (property "none…") are run
# against the checks their meta.json names in "checks" or, by default, C04 and the files' own properties.
# Prints one line per seed: DETECTED(with input) / DETECTED(no-failing-input-found) / MISSED / (controls) QUIET / ALARM.
jobs=${1:-4}; glob=${2:-*}
out=/tmp/pv/regression; mkdir -p $out
run_one() {
  d=$1; name=$(basename $d)
  prop=$(python3 -c "import json,sys; m=json.load(open('$d/meta.json')); p=m.get('property','none'); print(' '.join(m.get('checks', [])) if p.startswith('none') else p)")
  [ -z "$prop" ] && prop="C04"
  /verif/tools/pmut.sh $name $d/patch.diff $prop > $out/$name.log 2>&1
  if grep -q "patch does not apply" $out/$name.log; then echo "$name [$prop]: STALE (patch no longer applies to HEAD; see meta.json)"; return; fi
  v=$(grep -c "VIOLATION" $out/$name.log); n=$(grep "VIOLATION" $out/$name.log | grep -vc "no-failing-input-found")
  if python3 -c "import json; exit(0 if json.load(open('$d/meta.json')).get('property','none').startswith('none') else 1)"; then
    [ "$v" = 0 ] && echo "$name [$prop]: QUIET" || echo "$name [$prop]: ALARM ($v, with input $n)"
  else
    if [ "$n" != 0 ]; then echo "$name [$prop]: DETECTED (with input)"; elif [ "$v" != 0 ]; then echo "$name [$prop]: DETECTED (no-failing-input-found)"; else echo "$name [$prop]: MISSED $(grep -c tier= $out/$name.log)"; fi
  fi
}
export -f run_one; export out
ls -d /verif/seeded/$glob | xargs -P $jobs -I{} bash -c 'run_one {}'
