#!/usr/bin/env python3
"""make_bomb.py <out> <plain_bytes>  — a raw DEFLATE stream of about plain_bytes/1000 bytes that expands
to a little more than <plain_bytes> zero bytes (one literal, then length-258 distance-1 matches at two
bits each in one dynamic block). Used for D13 (positions are i32 in the analysis: a 2 MB stream
expanding past 2 GiB panicked in preflate_input.rs before fix 7f983e5)."""
import sys

class BW:
    def __init__(s): s.acc = 0; s.n = 0; s.out = bytearray()
    def bits(s, v, l):
        s.acc |= v << s.n; s.n += l
        while s.n >= 8: s.out.append(s.acc & 255); s.acc >>= 8; s.n -= 8
    def code(s, c, l):
        for i in range(l - 1, -1, -1): s.bits((c >> i) & 1, 1)
    def done(s):
        if s.n: s.out.append(s.acc & 255)
        return bytes(s.out)

def bomb(nmatch):
    w = BW()
    w.bits(1, 1); w.bits(2, 2)                     # BFINAL, dynamic
    w.bits(286 - 257, 5); w.bits(2 - 1, 5)         # HLIT 286, HDIST 2
    order = [16, 17, 18, 0, 8, 7, 9, 6, 10, 5, 11, 4, 12, 3, 13, 2, 14, 1, 15]
    cl = {0: 2, 1: 2, 2: 2, 18: 2}                 # complete code-length code: 00 01 10 11
    w.bits(19 - 4, 4)
    for o in order: w.bits(cl.get(o, 0), 3)
    clcode = {0: 0, 1: 1, 2: 2, 18: 3}
    put = lambda sym: w.code(clcode[sym], 2)
    put(2)                                          # literal 0: 2 bits
    put(18); w.bits(138 - 11, 7); put(18); w.bits(117 - 11, 7)
    put(2)                                          # 256 (end of block): 2 bits
    put(18); w.bits(28 - 11, 7)
    put(1)                                          # 285 (length 258): 1 bit
    put(1); put(1)                                  # distance codes 0 and 1: 1 bit each (complete)
    w.code(2, 2)                                    # literal 0
    full = nmatch // 4
    w.out_extend = None
    for _ in range(full): w.bits(0, 8)              # four matches per byte
    for _ in range(nmatch - 4 * full): w.bits(0, 2)
    w.code(3, 2)                                    # end of block
    return w.done()

if __name__ == "__main__":
    out, target = sys.argv[1], int(sys.argv[2])
    n = target // 258 + 1
    open(out, "wb").write(bomb(n))
    print(f"{out}: {1 + 258 * n} plaintext bytes")
