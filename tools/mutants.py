#!/usr/bin/env python3
"""Syntactic mutation run (a measurement, not a registered check; DESIGN.md §14c).

  mutants.py gen  <n> <seed> <outdir>     sample n single-site mutants of /repo/src (library code only) -> outdir/<id>.diff + index.json
  mutants.py filter <outdir> <jobs>       keep the mutants that compile AND pass the repository's own 59 tests
                                           (scratch worktrees and target dirs under /tmp/mut, removed at the end)
  mutants.py check <outdir> <jobs>        run tools/pmut.sh for every surviving mutant against the checks of the
                                           properties whose anchored files contain the mutated line; writes results.json

Operators: relational boundary (< <= > >=), equality flip (== !=), arithmetic +1/-1 dropped or doubled,
integer literal +-1, && <-> ||, `+` <-> `-`. One site per mutant. Test modules, the hooks file, main.rs,
diagnostics (println!/format!/debug strings) and comments are never mutated.
"""
import json, os, random, re, subprocess, sys, shutil
from concurrent.futures import ThreadPoolExecutor

REPO = "/repo"
SKIP_FILES = {"verif_hooks.rs", "main.rs", "preflate_info.rs"}
# property -> files (the anchors the checks are built around); used to choose which checks to run for a mutant
PROP_FILES = {
    "C01": ["preflate_container.rs", "scan_deflate.rs", "idat_parse.rs"],
    "C02": ["token_predictor.rs", "tree_predictor.rs", "process.rs", "hash_chain_holder.rs", "hash_chain.rs", "hash_algorithm.rs", "huffman_calc.rs",
            "add_policy_estimator.rs", "complevel_estimator.rs", "depth_estimator.rs", "preflate_stream_info.rs", "preflate_parse_config.rs",
            "preflate_parameter_estimator.rs", "preflate_input.rs", "bit_helper.rs"],
    "C03": ["deflate_reader.rs", "huffman_encoding.rs", "huffman_helper.rs", "bit_reader.rs", "preflate_constants.rs"],
    "C04": ["hash_algorithm.rs", "hash_chain.rs", "huffman_calc.rs", "tree_predictor.rs", "token_predictor.rs", "hash_chain_holder.rs", "add_policy_estimator.rs",
            "cabac_codec.rs", "statistical_codec.rs", "preflate_parameter_estimator.rs", "preflate_container.rs", "idat_parse.rs", "preflate_token.rs", "process.rs"],
    "C05": ["deflate_reader.rs", "huffman_helper.rs", "complevel_estimator.rs", "depth_estimator.rs", "preflate_stream_info.rs", "add_policy_estimator.rs",
            "preflate_parameter_estimator.rs", "hash_chain.rs", "preflate_token.rs"],
    "C06": ["scan_deflate.rs", "idat_parse.rs"],
    "C07": ["deflate_reader.rs", "deflate_writer.rs", "huffman_encoding.rs", "huffman_helper.rs", "bit_reader.rs", "bit_writer.rs", "preflate_token.rs", "preflate_constants.rs"],
    "C08": ["preflate_parameter_estimator.rs", "token_predictor.rs", "hash_chain_holder.rs"],
    "C10": ["cabac_codec.rs", "statistical_codec.rs"],
    "C11": ["preflate_container.rs", "preflate_error.rs"],
    "C12": ["lib.rs"],
    "C13": ["preflate_container.rs", "idat_parse.rs", "preflate_error.rs"],
}

def library_lines(path):
    """(line number, text) of non-test, non-comment code lines"""
    out, depth, skip_depth, pending = [], 0, None, False
    in_block_comment = False
    for ln, line in enumerate(open(path).read().split("\n"), 1):
        s = line.strip()
        code = line
        if in_block_comment:
            if "*/" in code: in_block_comment = False
            continue
        if s.startswith("/*"):
            if "*/" not in s: in_block_comment = True
            continue
        code = re.sub(r"//.*", "", code)
        if skip_depth is None and re.match(r"#\[(cfg\(test\)|test)\]", s):
            pending = True
            continue
        opens, closes = code.count("{"), code.count("}")
        if pending and skip_depth is None:
            if "{" in code:
                skip_depth = depth; pending = False
            elif s.endswith(";"):
                pending = False
                continue
            else:
                continue
        if skip_depth is not None:
            depth += opens - closes
            if depth <= skip_depth: skip_depth = None
            continue
        depth += opens - closes
        if re.search(r"println!|eprintln!|format!|panic!|unimplemented!|unreachable!|assert|err_exit_code|PreflateError::new|#\[|^\s*use |^\s*(pub )?(const|static) \w+: \[|\".*\"", code):
            continue
        out.append((ln, code))
    return out

OPS = [
    (r"(?<![<>=!-])<=(?!=)", ["<"]), (r"(?<![<>=!-])>=(?!=)", [">"]),
    (r"(?<![<>=!&|-])\s<\s(?![<=])", [" <= "]), (r"(?<![<>=!-])\s>\s(?![>=])", [" >= "]),
    (r"==", ["!="]), (r"!=", ["=="]),
    (r"&&", ["||"]), (r"\|\|", ["&&"]),
    (r"\s\+ 1\b", ["", " + 2"]), (r"\s- 1\b", ["", " - 2"]),
    (r"(?<![\w.])(\d+)(?![\w.])", ["+1", "-1"]),
    (r"(?<=\w|\))\s\+\s(?=\w|\()", [" - "]), (r"(?<=\w|\))\s-\s(?=\w|\()", [" + "]),
]

def sites(fname):
    path = os.path.join(REPO, "src", fname)
    res = []
    for ln, code in library_lines(path):
        for pat, repls in OPS:
            for m in re.finditer(pat, code):
                for r in repls:
                    if r in ("+1", "-1"):
                        v = int(m.group(1))
                        nv = v + 1 if r == "+1" else v - 1
                        if nv < 0: continue
                        new = code[:m.start(1)] + str(nv) + code[m.end(1):]
                    else:
                        new = code[:m.start()] + r + code[m.end():]
                    res.append((fname, ln, code, new, f"{m.group(0).strip()} -> {r.strip() or '(dropped)'}"))
    return res

def gen(n, seed, outdir):
    os.makedirs(outdir, exist_ok=True)
    files = sorted(f for f in os.listdir(os.path.join(REPO, "src")) if f.endswith(".rs") and f not in SKIP_FILES)
    if os.environ.get("MUT_FILES"):      # restrict to the named files (space separated)
        files = [f for f in files if f in os.environ["MUT_FILES"].split()]
    rnd = random.Random(seed)
    per_file = {f: sites(f) for f in files}
    per_file = {f: s for f, s in per_file.items() if s}
    index = []
    names = sorted(per_file)
    k = 0
    seen = set()
    while len(index) < n and k < 50 * n:
        k += 1
        f = names[rnd.randrange(len(names))]           # stratified: files first, then a site in the file
        fname, ln, old, new, what = per_file[f][rnd.randrange(len(per_file[f]))]
        if (fname, ln, new) in seen: continue
        seen.add((fname, ln, new))
        path = os.path.join(REPO, "src", fname)
        lines = open(path).read().split("\n")
        full_old = lines[ln - 1]
        comment = ""
        mm = re.search(r"//.*", full_old)
        if mm: comment = mm.group(0)
        full_new = new + comment if comment and not new.endswith(comment) else new
        mid = f"m{len(index):03d}"
        import difflib
        new_lines = list(lines); new_lines[ln - 1] = full_new
        diff = "".join(difflib.unified_diff([l + "\n" for l in lines], [l + "\n" for l in new_lines], f"a/src/{fname}", f"b/src/{fname}", n=3))
        if lines and lines[-1] == "":   # the file ends with a newline: drop the artificial last empty line from both sides
            pass
        open(os.path.join(outdir, mid + ".diff"), "w").write(diff)
        index.append(dict(id=mid, file=fname, line=ln, what=what, old=full_old.strip(), new=full_new.strip()))
    json.dump(index, open(os.path.join(outdir, "index.json"), "w"), indent=1)
    print(f"{len(index)} mutants in {outdir}")

def sh(cmd, cwd=None, env=None, timeout=None):
    e = dict(os.environ, CARGO_NET_OFFLINE="true")
    if env: e.update(env)
    try:
        p = subprocess.run(cmd, cwd=cwd, shell=True, stdout=subprocess.PIPE, stderr=subprocess.STDOUT, text=True, env=e, timeout=timeout)
        return p.returncode, p.stdout
    except subprocess.TimeoutExpired:
        return 124, "timeout"

def filter_(outdir, jobs):
    index = json.load(open(os.path.join(outdir, "index.json")))
    base = "/tmp/mut"
    os.makedirs(base, exist_ok=True)
    sh("git -C /repo worktree prune")
    workers = []
    for w in range(jobs):
        wt = f"{base}/w{w}"
        if not os.path.exists(wt):
            rc, out = sh(f"git -C /repo worktree add -q --detach {wt} HEAD")
            assert rc == 0, out
        workers.append(wt)
    todo = [m for m in index if "survives" not in m]
    def work(arg):
        w, ms = arg
        wt = workers[w]
        env = {"CARGO_TARGET_DIR": f"{base}/t{w}"}
        for m in ms:
            sh("git checkout -q -- . ", cwd=wt)
            rc, out = sh(f"git apply --whitespace=nowarn {outdir}/{m['id']}.diff", cwd=wt)
            if rc != 0:
                m["survives"] = False; m["why"] = "does not apply"; continue
            rc, out = sh("cargo build --offline 2>&1 | tail -3", cwd=wt, env=env, timeout=1200)
            # a mutant may allocate without bound: cap the address space of the test processes (12 GB)
            rc, out = sh("ulimit -v 12000000; cargo nextest run --workspace --no-fail-fast --offline --test-threads 4 2>&1 | tail -5", cwd=wt, env=env, timeout=1800)
            mm = re.search(r"(\d+) passed", out)
            failed = re.search(r"(\d+) failed", out) or re.search(r"(\d+) timed out", out)
            if mm and int(mm.group(1)) == 59 and not failed:
                m["survives"] = True
            else:
                m["survives"] = False
                m["why"] = "tests fail" if mm else "does not build / run"
            print(m["id"], m["file"], m["line"], m["what"], "SURVIVES" if m["survives"] else m.get("why"), flush=True)
        sh("git checkout -q -- . ", cwd=wt)
    chunks = [(w, todo[w::jobs]) for w in range(jobs)]
    with ThreadPoolExecutor(jobs) as ex:
        list(ex.map(work, chunks))
    json.dump(index, open(os.path.join(outdir, "index.json"), "w"), indent=1)
    for w in range(jobs):
        sh(f"git -C /repo worktree remove --force {base}/w{w}")
        shutil.rmtree(f"{base}/t{w}", ignore_errors=True)
    sh("git -C /repo worktree prune")
    print(sum(1 for m in index if m.get("survives")), "of", len(index), "survive the repository's tests")

def check(outdir, jobs):
    index = json.load(open(os.path.join(outdir, "index.json")))
    todo = [m for m in index if m.get("survives") and "verdict" not in m]
    def work(m):
        props = [p for p, fs in PROP_FILES.items() if m["file"] in fs] or ["C02", "C04"]
        rc, out = sh(f"/verif/tools/pmut.sh {m['id']} {outdir}/{m['id']}.diff {' '.join(props)}", timeout=6 * 3600)
        viol = [l for l in out.splitlines() if "VIOLATION" in l]
        with_input = [l for l in viol if "no-failing-input-found" not in l]
        m["checks"] = props
        m["violations"] = sorted(set(re.search(r"property=(C\d+)", l).group(1) + ("" if "no-failing" not in l else "(nfi)") for l in viol))
        m["verdict"] = "detected-with-input" if with_input else ("detected-no-input" if viol else "not-detected")
        m["lines"] = [l for l in out.splitlines() if "tier=" in l]
        print(m["id"], m["file"], m["line"], m["what"], m["verdict"], m["violations"], flush=True)
        json.dump(index, open(os.path.join(outdir, "index.json"), "w"), indent=1)
    with ThreadPoolExecutor(jobs) as ex:
        list(ex.map(work, todo))
    json.dump(index, open(os.path.join(outdir, "index.json"), "w"), indent=1)
    s = [m for m in index if m.get("survives")]
    print(len(s), "survivors:", {v: sum(1 for m in s if m.get("verdict") == v) for v in ("detected-with-input", "detected-no-input", "not-detected")})

if __name__ == "__main__":
    a = sys.argv[1:]
    if a[0] == "gen": gen(int(a[1]), int(a[2]), a[3])
    elif a[0] == "filter": filter_(a[1], int(a[2]))
    elif a[0] == "check": check(a[1], int(a[2]))
