#!/bin/bash
# usage: pmut.sh <name> <patch.diff> <PROP>...   — like muttest.sh, but in a scratch copy of /verif run against
# a scratch worktree of /repo with the patch applied, so that several seeded changes can be tried at once
# and neither /repo nor /verif is touched. Prints the VIOLATION / summary lines; removes the scratch copy.
name=$1; patch=$(realpath "$2"); shift 2
D=/tmp/pv/$name
rm -rf $D; mkdir -p $D
git -C /repo worktree prune
git -C /repo worktree add -q --detach $D/repo HEAD || exit 2
( cd $D/repo && git apply "$patch" ) || { echo "$name: patch does not apply"; git -C /repo worktree remove --force $D/repo; rm -rf $D; exit 2; }
rsync -a --exclude '.git' --exclude 'evidence/run-*' --exclude 'evidence/last-seeded-replays' /verif/ $D/verif/
rm -rf $D/verif/evidence/replays/* /tmp/pv/replays/$name   # replays of earlier runs are not this run's
sed -i "s#path = \"/repo\"#path = \"$D/repo\"#" $D/verif/harness/Cargo.toml
for p in "$@"; do
  ( cd $D/verif && VERIF_REPO=$D/repo timeout 3000 ./vcheck $p 2>&1 | grep -E "VIOLATION|KNOWN|tier=" | sed "s#^#$name: #" )
  mkdir -p /tmp/pv/replays/$name && cp -a $D/verif/evidence/replays/$p-* /tmp/pv/replays/$name/ 2>/dev/null
done
git -C /repo worktree remove --force $D/repo
rm -rf $D
