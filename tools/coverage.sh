#!/bin/bash
# usage: coverage.sh [tier]   — measures which lines of /repo/src the correspondence harness executes.
# Not a check (nothing here is registered in MANIFEST.json): a measurement of generator quality, whose
# result is quoted in DESIGN.md §10. Builds an instrumented copy of the harness with the nightly toolchain
# (-C instrument-coverage; llvm-profdata / llvm-cov from its llvm-tools), runs `vh <ID>` for every property
# and prints per-file line coverage plus every never-executed line. Scratch under /tmp, removed at the end.
set -e
tier=${1:-quick}
S=$(mktemp -d /tmp/vcov.XXXXXX)
B=$(dirname "$(rustup +nightly which rustc)")/../lib/rustlib/x86_64-unknown-linux-gnu/bin
git -C /repo worktree add -q --detach $S/repo HEAD
rsync -a --exclude target /verif/harness/ $S/h/
sed -i "s#path = \"/repo\"#path = \"$S/repo\"#" $S/h/Cargo.toml
( cd $S/h && CARGO_NET_OFFLINE=true CARGO_TARGET_DIR=$S/t RUSTFLAGS="-C instrument-coverage" cargo +nightly build --offline 2>&1 | tail -1 )
for p in C01 C02 C03 C04 C05 C06 C07 C08 C10 C11 C12 C13 C14; do
  ( LLVM_PROFILE_FILE=$S/prof-$p-%p.profraw timeout 3000 $S/t/debug/vh $p --tier $tier --seed ${VERIF_SEED:-1} --out $S/run-$p --boost 1 > $S/$p.log 2>&1 ) &
done
wait
$B/llvm-profdata merge -sparse $S/prof-*.profraw -o $S/all.profdata
$B/llvm-cov report $S/t/debug/vh -instr-profile=$S/all.profdata --ignore-filename-regex='(registry|rustc|/h/src/)' 2>/dev/null \
  | awk 'NF>=13 {printf "%-46s lines %6s missed %6s %8s\n", substr($1, length($1)-44), $8, $9, $10}'
echo "--- never executed (diagnostics, Debug impls and test-only codecs included):"
for f in $S/repo/src/*.rs; do
  $B/llvm-cov show $S/t/debug/vh -instr-profile=$S/all.profdata $f --show-instantiations=false 2>/dev/null \
    | grep -E "^\s+[0-9]+\|\s+0\|" | sed "s#^#$(basename $f):#" | cut -c1-160
done
git -C /repo worktree remove --force $S/repo
rm -rf $S
