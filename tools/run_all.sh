#!/bin/bash
# run every claimed check (tier $1, default quick) on the current /repo and report
tier=${1:-quick}
cd "$(dirname "$0")/.."
rc=0
for p in $(python3 -c "import json;print(' '.join(c['property_id'] for c in json.load(open('MANIFEST.json'))['checks']))"); do
  ./vcheck $p --tier $tier | tail -3 || rc=1
done
python3-vt tools/validate.py | grep -v " ok$"
exit $rc
