//! C10: the correction codec is lossless for every operation sequence.
use crate::util::{fnv64, guarded, panic_signature, Fnv, Rng, Run};
use crate::wire::{self, CaseOut, Failure, Summary};
use crate::{merge, run_cases, Ctx};
use preflate_rs::verif_hooks as vh;

pub fn random_value(r: &mut Rng) -> u32 {
    // all bit lengths 0..31 equally likely
    let bl = r.below(32) as u32;
    if bl == 0 {
        0
    } else {
        let lo = 1u32 << (bl - 1);
        lo | (r.next() as u32 & (lo - 1))
    }
}

pub fn random_ops(r: &mut Rng, maxlen: usize) -> Vec<vh::Op> {
    let n = r.below(maxlen as u64 + 1) as usize;
    let style = r.below(4);
    let mut ops = Vec::with_capacity(n);
    while ops.len() < n {
        let k = r.below(100);
        let default_pct = match style {
            0 => 10,
            1 => 50,
            2 => 95,
            _ => 99,
        };
        if k < 15 {
            let bits = r.range(1, 16) as u8;
            let value = (r.next() as u32 & ((1u32 << bits) - 1)) as u16;
            ops.push(vh::Op::Value { value, bits });
        } else if k < 50 {
            let ctx = r.below(vh::MISPREDICTION_CONTEXTS as u64) as u8;
            ops.push(vh::Op::Mis { ctx, flag: r.below(100) >= default_pct });
        } else {
            let ctx = r.below(vh::CORRECTION_CONTEXTS as u64) as u8;
            let value = if r.below(100) < default_pct { 0 } else if r.chance(1, 2) { 1 + r.below(6) as u32 } else { random_value(r) };
            ops.push(vh::Op::Corr { ctx, value });
        }
        if style == 3 && r.chance(1, 50) {
            // long default run
            let run = r.below(400);
            for _ in 0..run {
                if ops.len() < n {
                    ops.push(vh::Op::Mis { ctx: 1, flag: false });
                }
            }
        }
    }
    ops
}

pub fn events_fnv(ev: &[vh::Event]) -> u64 {
    let mut f = Fnv::new();
    for e in ev {
        f.num(e.ctx.map(|c| c as u64).unwrap_or(0));
        f.num(e.bit as u64);
    }
    f.0
}

pub fn case(ops: &[vh::Op], label: &str, with_requests: bool) -> CaseOut {
    let mut out = CaseOut::default();
    let replay = format!("codec {}", wire::ops_str(ops));
    crate::util::in_flight(&replay);
    let fail = |sig: String, detail: String| Failure { kind: "oracle".into(), signature: sig, detail: format!("{detail} [{label}]"), replay: replay.clone() };
    match guarded(|| {
        let bytes = vh::cabac_encode(ops);
        let dec = vh::cabac_decode(&bytes, ops);
        (bytes, dec)
    }) {
        Run::Panic(p) => {
            out.failures.push(fail(format!("panic {}", panic_signature(&p)), format!("codec round trip panicked: {p}")));
            if with_requests {
                out.requests.push((replay.clone(), "panic".into()));
            }
        }
        Run::Done((bytes, dec)) => {
            if dec != ops {
                let at = dec.iter().zip(ops.iter()).position(|(a, b)| a != b);
                out.failures.push(fail("decoded-differs".into(), format!("decoded sequence differs at op {at:?} of {}", ops.len())));
            }
            if with_requests {
                out.requests.push((replay.clone(), format!("ok {} {} {}", bytes.len(), fnv64(&bytes), wire::ops_fnv(&dec))));
            }
        }
    }
    // event level: the decoder must ask the same contexts in the same order
    if let Run::Done((ev, asked, dec)) = guarded(|| vh::cabac_events(ops)) {
        let enc_ctx: Vec<Option<usize>> = ev.iter().map(|e| e.ctx).collect();
        if asked.len() < enc_ctx.len() || asked[..enc_ctx.len().min(asked.len())] != enc_ctx[..enc_ctx.len().min(asked.len())] || dec != ops {
            out.failures.push(fail("context-sequence-differs".into(), "decoder queried a different context sequence than the encoder used".into()));
        }
        if with_requests {
            out.requests.push((format!("events {}", wire::ops_str(ops)), format!("ok {} {}", ev.len(), events_fnv(&ev))));
        }
    }
    let nondefault = ops.iter().any(|o| match o {
        vh::Op::Value { .. } => true,
        vh::Op::Mis { flag, .. } => *flag,
        vh::Op::Corr { value, .. } => *value != 0,
    });
    if nondefault {
        out.nontrivial = Some(wire::ops_fnv(ops));
    }
    out.tags.push(format!("len<{}", match ops.len() { 0..=1 => 2, 2..=9 => 10, 10..=99 => 100, 100..=999 => 1000, _ => 100000 }));
    if ops.len() <= 12 {
        out.sample = Some(wire::ops_str(ops));
    }
    out
}

pub fn run(ctx: &Ctx) -> Summary {
    let seed = ctx.seed;
    let mut s = Summary::default();
    // corpus of past failures
    let dir = concat!(env!("CARGO_MANIFEST_DIR"), "/../corpus/ops");
    if let Ok(rd) = std::fs::read_dir(dir) {
        let mut names: Vec<_> = rd.filter_map(|e| e.ok()).map(|e| e.path()).collect();
        names.sort();
        for p in names {
            let t = std::fs::read_to_string(&p).unwrap();
            for l in t.lines().filter(|l| !l.starts_with('#') && !l.trim().is_empty()) {
                let ops = parse_ops(l.trim_start_matches("codec").trim());
                s.absorb(case(&ops, "corpus", true));
            }
        }
    }
    let n = ctx.n(6000, 240000);
    merge(&mut s, run_cases(ctx, n, |i| {
        let mut r = Rng::new(seed ^ 0x10 ^ (i << 16));
        let maxlen = *r.pick(&[3usize, 10, 40, 200, 1000, 5000]);
        let ops = random_ops(&mut r, maxlen);
        case(&ops, "random", ops.len() <= 300)
    }));
    // exhaustive single operations
    let lim: u64 = if ctx.thorough() { 1 << 17 } else { 1 << 12 };
    let nctx = vh::CORRECTION_CONTEXTS as u64;
    let mut t = run_cases(ctx, lim * nctx, |i| {
        let ctxi = (i / lim) as u8;
        let v = (i % lim) as u32;
        let mut c = case(&[vh::Op::Corr { ctx: ctxi, value: v }], "single-correction", i % 257 == 0);
        c.sample = None;
        c.tags = vec!["single-op".into()];
        c
    });
    t.samples.clear();
    merge(&mut s, t);
    // single corrections at the top of the range and values of every width
    let mut edge = Vec::new();
    for bl in 0..=31u32 {
        for v in [1u64 << bl, (1u64 << bl) - 1, (1u64 << bl) + 1] {
            if v < (1u64 << 31) {
                edge.push(v as u32);
            }
        }
    }
    edge.push((1u32 << 31) - 1);
    for &v in &edge {
        for c in 0..vh::CORRECTION_CONTEXTS {
            s.absorb(case(&[vh::Op::Corr { ctx: c, value: v }], "edge-correction", true));
        }
    }
    for bits in 1..=16u8 {
        for value in [0u16, 1, ((1u32 << bits) - 1) as u16, ((1u32 << bits) / 2) as u16] {
            s.absorb(case(&[vh::Op::Value { value, bits }], "edge-value", true));
        }
    }
    s
}

pub fn parse_ops(s: &str) -> Vec<vh::Op> {
    if s == "-" || s.is_empty() {
        return Vec::new();
    }
    s.split(' ')
        .map(|t| {
            let p: Vec<&str> = t.split(':').collect();
            match p[0] {
                "v" => vh::Op::Value { bits: p[1].parse().unwrap(), value: p[2].parse().unwrap() },
                "m" => vh::Op::Mis { ctx: p[1].parse().unwrap(), flag: p[2] == "1" },
                _ => vh::Op::Corr { ctx: p[1].parse().unwrap(), value: p[2].parse().unwrap() },
            }
        })
        .collect()
}
