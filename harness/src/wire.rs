//! Wire format shared with the Lean model driver (DESIGN.md appendix A) and result plumbing.
use crate::util::{hex, Fnv};
use preflate_rs::verif_hooks as vh;
use std::collections::BTreeMap;
use std::fmt::Write as _;

pub fn tok_fnv(tokens: &[vh::Tok]) -> u64 {
    let mut f = Fnv::new();
    for t in tokens {
        match *t {
            vh::Tok::Lit(b) => {
                f.num(0);
                f.num(b as u64);
            }
            vh::Tok::Ref {
                len,
                dist,
                irregular258,
            } => {
                f.num(1);
                f.num(len as u64);
                f.num(dist as u64);
                f.num(irregular258 as u64);
            }
        }
    }
    f.0
}

pub fn bytes_fnv_num(b: &[u8]) -> u64 {
    let mut f = Fnv::new();
    for &x in b {
        f.num(x as u64);
    }
    f.0
}

pub fn header_fnv(h: &vh::Header) -> u64 {
    let mut f = Fnv::new();
    f.num(h.num_literals as u64);
    f.num(h.num_dist as u64);
    f.num(h.num_code_lengths as u64);
    for &c in h.code_lengths.iter() {
        f.num(c as u64);
    }
    for &(k, d) in &h.lengths {
        f.num(k as u64);
        f.num(d as u64);
    }
    f.0
}

/// response line for a `parse` request as the implementation sees it
pub fn parse_response(p: &vh::Parsed) -> String {
    let mut s = String::new();
    write!(
        s,
        "ok {} {} {} {}",
        p.consumed,
        p.eof_padding,
        crate::util::fnv64(&p.plain_text),
        p.blocks.len()
    )
    .unwrap();
    for b in &p.blocks {
        match b.block_type {
            1 => write!(
                s,
                " 1 {} {} {} 0",
                b.padding_bits,
                b.uncompressed.len(),
                bytes_fnv_num(&b.uncompressed)
            )
            .unwrap(),
            t => write!(
                s,
                " {} {} {} {} {}",
                t,
                b.padding_bits,
                b.tokens.len(),
                tok_fnv(&b.tokens),
                b.header.as_ref().map(header_fnv).unwrap_or(0)
            )
            .unwrap(),
        }
    }
    s
}

pub fn op_str(o: &vh::Op) -> String {
    match *o {
        vh::Op::Value { value, bits } => format!("v:{bits}:{value}"),
        vh::Op::Mis { ctx, flag } => format!("m:{ctx}:{}", flag as u8),
        vh::Op::Corr { ctx, value } => format!("c:{ctx}:{value}"),
    }
}

pub fn ops_str(ops: &[vh::Op]) -> String {
    if ops.is_empty() {
        return "-".into();
    }
    ops.iter().map(op_str).collect::<Vec<_>>().join(" ")
}

pub fn ops_fnv(ops: &[vh::Op]) -> u64 {
    let mut f = Fnv::new();
    for o in ops {
        match *o {
            vh::Op::Value { value, bits } => {
                f.num(0);
                f.num(bits as u64);
                f.num(value as u64);
            }
            vh::Op::Mis { ctx, flag } => {
                f.num(1);
                f.num(ctx as u64);
                f.num(flag as u64);
            }
            vh::Op::Corr { ctx, value } => {
                f.num(2);
                f.num(ctx as u64);
                f.num(value as u64);
            }
        }
    }
    f.0
}

#[derive(Clone, Debug)]
pub struct Failure {
    /// "oracle" (implementation breaks the property) or "internal" (harness problem)
    pub kind: String,
    /// stable identification of the failing call site / input class
    pub signature: String,
    pub detail: String,
    /// the input, as wire text (one or more lines) sufficient to replay
    pub replay: String,
}

#[derive(Default)]
pub struct CaseOut {
    /// (request line, implementation's response line) pairs for the model driver
    pub requests: Vec<(String, String)>,
    pub failures: Vec<Failure>,
    /// key identifying a distinct non-trivial case (None = trivial)
    pub nontrivial: Option<u64>,
    pub tags: Vec<String>,
    pub sample: Option<String>,
}

#[derive(Default)]
pub struct Summary {
    pub evaluations: u64,
    pub nontrivial_keys: std::collections::BTreeSet<u64>,
    pub tags: BTreeMap<String, u64>,
    pub failures: Vec<Failure>,
    pub samples: Vec<String>,
    pub requests: Vec<(String, String)>,
    /// requests are thinned progressively so that a deep run does not hold millions of them in
    /// memory: only every `req_stride`-th request (in generation order) is kept; when the kept ones
    /// exceed the bound every other one is dropped and the stride doubles (deterministic)
    pub req_seen: u64,
    pub req_stride: u64,
    pub req_bytes: usize,
}

pub const REQ_KEEP_MAX: usize = 400_000;
pub const REQ_KEEP_BYTES: usize = 3_000_000_000;

impl Summary {
    pub fn absorb(&mut self, c: CaseOut) {
        self.evaluations += 1;
        if let Some(k) = c.nontrivial {
            self.nontrivial_keys.insert(k);
        }
        for t in c.tags {
            *self.tags.entry(t).or_insert(0) += 1;
        }
        self.failures.extend(c.failures);
        if let Some(s) = c.sample {
            if self.samples.len() < 6 {
                self.samples.push(s);
            }
        }
        for r in c.requests {
            self.push_request(r);
        }
    }

    pub fn push_request(&mut self, r: (String, String)) {
        if self.req_stride == 0 {
            self.req_stride = 1;
        }
        let i = self.req_seen;
        self.req_seen += 1;
        if i % self.req_stride != 0 {
            return;
        }
        self.req_bytes += r.0.len() + r.1.len();
        self.requests.push(r);
        while self.requests.len() > REQ_KEEP_MAX || self.req_bytes > REQ_KEEP_BYTES {
            let old = std::mem::take(&mut self.requests);
            self.req_bytes = 0;
            for (k, x) in old.into_iter().enumerate() {
                if k % 2 == 0 {
                    self.req_bytes += x.0.len() + x.1.len();
                    self.requests.push(x);
                }
            }
            self.req_stride *= 2;
        }
    }
}

pub fn json_str(s: &str) -> String {
    let mut o = String::from("\"");
    for c in s.chars() {
        match c {
            '"' => o.push_str("\\\""),
            '\\' => o.push_str("\\\\"),
            '\n' => o.push_str("\\n"),
            '\r' => o.push_str("\\r"),
            '\t' => o.push_str("\\t"),
            c if (c as u32) < 0x20 => write!(o, "\\u{:04x}", c as u32).unwrap(),
            c => o.push(c),
        }
    }
    o.push('"');
    o
}

pub fn short_hex(b: &[u8]) -> String {
    if b.len() <= 48 {
        hex(b)
    } else {
        format!("{}…({} bytes)", hex(&b[..48]), b.len())
    }
}
