//! Container-level properties: C01, C04, C06, C11, C12, C13, C14.
use crate::gen::{self, Freedom};
use crate::streams;
use crate::util::{fnv64, guarded, hex, panic_signature, unhex, Rng, Run};
use crate::wire::{self, CaseOut, Failure, Summary};
use crate::{merge, run_cases, Ctx};
use preflate_rs::verif_hooks as vh;
use preflate_rs::{compress_zstd, decompress_zstd, expand_zlib_chunks, recreated_zlib_chunks};
use std::io::{Cursor, Read, Write};

pub fn env_u32(name: &str, default: u32) -> u32 {
    std::env::var(name).ok().and_then(|s| s.parse().ok()).unwrap_or(default)
}

pub fn adler32(b: &[u8]) -> u32 {
    let (mut a, mut s) = (1u32, 0u32);
    for &x in b {
        a = (a + x as u32) % 65521;
        s = (s + a) % 65521;
    }
    (s << 16) | a
}

pub const ZLIB_HEADERS: [[u8; 2]; 4] = [[0x78, 0x01], [0x78, 0x5E], [0x78, 0x9C], [0x78, 0xDA]];

pub fn zlib_wrap(hdr: [u8; 2], s: &[u8], plain: &[u8]) -> Vec<u8> {
    let mut v = hdr.to_vec();
    v.extend_from_slice(s);
    v.extend_from_slice(&adler32(plain).to_be_bytes());
    v
}

pub fn gzip_wrap(r: &mut Rng, flags: u8, s: &[u8], plain: &[u8]) -> Vec<u8> {
    let mut v = vec![0x1f, 0x8b, 8, flags];
    v.extend_from_slice(&(r.next() as u32).to_le_bytes());
    v.push(*r.pick(&[0u8, 2, 4]));
    v.push(*r.pick(&[0u8, 3, 255]));
    if flags & 4 != 0 {
        let n = *r.pick(&[0usize, 1, 5, 40, 300]);
        v.extend_from_slice(&(n as u16).to_le_bytes());
        for _ in 0..n {
            // FEXTRA may contain zero bytes
            v.push(if r.chance(1, 4) { 0 } else { r.next() as u8 });
        }
    }
    if flags & 8 != 0 {
        let n = r.below(20);
        for _ in 0..n {
            v.push(r.range(1, 255) as u8);
        }
        v.push(0);
    }
    if flags & 16 != 0 {
        let n = r.below(30);
        for _ in 0..n {
            v.push(r.range(1, 255) as u8);
        }
        v.push(0);
    }
    if flags & 2 != 0 {
        v.extend_from_slice(&(r.next() as u16).to_le_bytes());
    }
    v.extend_from_slice(s);
    v.extend_from_slice(&crc32fast::hash(plain).to_le_bytes());
    v.extend_from_slice(&(plain.len() as u32).to_le_bytes());
    v
}

/// ZIP local file header (APPNOTE 4.3.7) in front of the stream. Every field the scanner has no
/// business looking at is varied: version needed (10 / 20 / 45 / anything), general-purpose flags
/// (data descriptor bit 3 with zeroed sizes, UTF-8 bit 11, anything), CRC and sizes (real, zero,
/// the Zip64 sentinel 0xFFFFFFFF with the real sizes in extra field 0x0001, anything), name and
/// extra lengths 0..300 — the property quantifies over all of them (`found_zip`: any `ZipFields`).
pub fn zip_wrap(r: &mut Rng, s: &[u8], plain: &[u8], method: u16) -> Vec<u8> {
    let nlen = *r.pick(&[0usize, 1, 8, 30, 255, 256, 300]);
    let mut xlen = *r.pick(&[0usize, 0, 4, 28, 300]);
    let style = r.below(8);
    let version: u16 = match style { 0 | 1 | 2 => 20, 3 => 10, 4 => 45, 5 => 63, _ => r.next() as u16 };
    let mut flags: u16 = match r.below(6) { 0 => 8, 1 => 0x800, 2 => 0x808, 3 => r.next() as u16, _ => 0 };
    let (mut crc, mut csize, mut usize_) = (crc32fast::hash(plain), s.len() as u32, plain.len() as u32);
    let mut zip64_extra: Vec<u8> = Vec::new();
    match style {
        4 => {
            // Zip64: sentinel sizes, real ones in the extra field
            csize = 0xFFFF_FFFF;
            usize_ = 0xFFFF_FFFF;
            flags &= !8;
            zip64_extra.extend_from_slice(&1u16.to_le_bytes());
            zip64_extra.extend_from_slice(&16u16.to_le_bytes());
            zip64_extra.extend_from_slice(&(plain.len() as u64).to_le_bytes());
            zip64_extra.extend_from_slice(&(s.len() as u64).to_le_bytes());
            xlen = xlen.max(zip64_extra.len());
        }
        5 => {
            crc = r.next() as u32;
            csize = r.next() as u32;
            usize_ = r.next() as u32;
        }
        _ => {}
    }
    if flags & 8 != 0 && r.chance(2, 3) {
        // streamed entry: sizes and CRC follow the data in a data descriptor
        crc = 0;
        csize = 0;
        usize_ = 0;
    }
    let mut v = vec![0x50, 0x4b, 3, 4];
    v.extend_from_slice(&version.to_le_bytes());
    v.extend_from_slice(&flags.to_le_bytes());
    v.extend_from_slice(&method.to_le_bytes());
    v.extend_from_slice(&(r.next() as u16).to_le_bytes());
    v.extend_from_slice(&(r.next() as u16).to_le_bytes());
    v.extend_from_slice(&crc.to_le_bytes());
    v.extend_from_slice(&csize.to_le_bytes());
    v.extend_from_slice(&usize_.to_le_bytes());
    v.extend_from_slice(&(nlen as u16).to_le_bytes());
    v.extend_from_slice(&(xlen as u16).to_le_bytes());
    for _ in 0..nlen {
        v.push(b'a' + r.below(26) as u8);
    }
    let mut extra = zip64_extra;
    while extra.len() < xlen {
        extra.push(r.next() as u8);
    }
    v.extend_from_slice(&extra);
    v.extend_from_slice(s);
    if flags & 8 != 0 && csize == 0 && r.chance(1, 2) {
        // data descriptor (with its optional signature)
        v.extend_from_slice(&[0x50, 0x4b, 7, 8]);
        v.extend_from_slice(&crc32fast::hash(plain).to_le_bytes());
        v.extend_from_slice(&(s.len() as u32).to_le_bytes());
        v.extend_from_slice(&(plain.len() as u32).to_le_bytes());
    }
    v
}

pub fn png_chunk(kind: &[u8; 4], payload: &[u8]) -> Vec<u8> {
    let mut v = (payload.len() as u32).to_be_bytes().to_vec();
    v.extend_from_slice(kind);
    v.extend_from_slice(payload);
    let mut h = crc32fast::Hasher::new();
    h.update(kind);
    h.update(payload);
    v.extend_from_slice(&h.finalize().to_be_bytes());
    v
}

/// consecutive IDAT chunks over zlib-wrapped `s`; chunking: 0 = one chunk, 1 = equal split,
/// 2 = random, 3 = tiny chunks
pub fn idat_wrap(r: &mut Rng, hdr: [u8; 2], s: &[u8], plain: &[u8], chunking: u64) -> Vec<u8> {
    let z = zlib_wrap(hdr, s, plain);
    let mut cuts = vec![0usize];
    match chunking {
        0 => {}
        1 => {
            let k = 2 + r.below(4) as usize;
            for i in 1..k {
                cuts.push(z.len() * i / k);
            }
        }
        2 => {
            let k = r.below(6);
            for _ in 0..k {
                cuts.push(r.below(z.len() as u64 + 1) as usize);
            }
        }
        _ => {
            let step = 1 + r.below(3) as usize;
            let mut p = step;
            while p < z.len() && cuts.len() < 4000 {
                cuts.push(p);
                p += step;
            }
        }
    }
    cuts.push(z.len());
    cuts.sort();
    cuts.dedup();
    let mut v = Vec::new();
    for w in cuts.windows(2) {
        v.extend_from_slice(&png_chunk(b"IDAT", &z[w[0]..w[1]]));
    }
    v
}

pub fn junk(r: &mut Rng, maxn: usize) -> Vec<u8> {
    let n = r.below(maxn as u64 + 1) as usize;
    let mut v: Vec<u8> = match r.below(3) {
        0 => (0..n).map(|_| r.next() as u8).collect(),
        1 => gen::plain_sized(r, n),
        _ => vec![0; n],
    };
    // sprinkle signature look-alikes
    let k = r.below(4);
    for _ in 0..k {
        if v.len() < 8 {
            break;
        }
        let i = r.below(v.len() as u64 - 6) as usize;
        let sig: &[u8] = *r.pick(&[&b"PK"[..], &[0x1f, 0x8b][..], &[0x78, 0x9c][..], &[0x78, 0x01][..], &b"IDAT"[..], &b"PK\x03\x04"[..], &[0x1f, 0x8b, 8, 0][..], &[0x78, 0xda][..], &[0x78, 0x5e][..], &b"ID"[..]]);
        for (j, &b) in sig.iter().enumerate() {
            v[i + j] = b;
        }
    }
    v
}

/// a valid stream with known plaintext, ending exactly at the end of its bytes
pub fn clean_stream(r: &mut Rng, min_plain: usize, max_plain: usize) -> (Vec<u8>, Vec<u8>, String) {
    let n = r.range(min_plain as u64, max_plain as u64) as usize;
    let p = gen::plain_sized(r, n);
    if r.chance(1, 2) {
        let c = gen::real_stream_of(r, p.clone());
        (c.bytes, p, c.label)
    } else {
        let mut f = Freedom::random(r);
        f.trailing_garbage = false;
        let (b, _, feat) = gen::build_stream(r, &p, &f);
        (b, p, format!("own {:?}", feat))
    }
}

pub struct FileCase {
    pub bytes: Vec<u8>,
    pub label: String,
}

pub fn file_case(seed: u64, idx: u64, max_plain: usize) -> FileCase {
    let mut r = Rng::new(seed.wrapping_mul(0x2545F4914F6CDD1D) ^ idx.wrapping_mul(0x9E3779B97F4A7C15));
    let mut v = Vec::new();
    let mut label = String::new();
    let parts = r.below(4) + 1;
    if r.chance(1, 6) {
        // PNG-like framing
        v.extend_from_slice(&[0x89, b'P', b'N', b'G', 13, 10, 26, 10]);
        v.extend_from_slice(&png_chunk(b"IHDR", &[0, 0, 0, 1, 0, 0, 0, 1, 8, 0, 0, 0, 0]));
        label.push_str("png ");
    }
    for _ in 0..parts {
        v.extend_from_slice(&junk(&mut r, 300));
        let (s, p, l) = clean_stream(&mut r, 0, max_plain);
        match r.below(6) {
            0 => {
                let mut w = zlib_wrap(*r.pick(&ZLIB_HEADERS), &s, &p);
                if r.chance(1, 4) {
                    // no Adler-32: the wrapper ends exactly where the stream ends
                    w.truncate(w.len() - 4);
                }
                v.extend_from_slice(&w);
                label.push_str(&format!("zlib({l}) "));
            }
            1 => {
                let flags = (r.below(16) as u8) << 1;
                v.extend_from_slice(&gzip_wrap(&mut r, flags & 0x1e, &s, &p));
                label.push_str(&format!("gzip({l}) "));
            }
            2 => {
                let method = if r.chance(1, 6) { 0 } else { 8 };
                v.extend_from_slice(&zip_wrap(&mut r, &s, &p, method));
                label.push_str(&format!("zip({l}) "));
            }
            3 => {
                let ch = r.below(4);
                let zh = *r.pick(&ZLIB_HEADERS);
                v.extend_from_slice(&idat_wrap(&mut r, zh, &s, &p, ch));
                if r.chance(1, 2) {
                    v.extend_from_slice(&png_chunk(b"IEND", &[]));
                }
                label.push_str(&format!("idat{ch}({l}) "));
            }
            4 => {
                v.extend_from_slice(&s);
                label.push_str("raw ");
            }
            _ => {
                label.push_str("junk ");
            }
        }
    }
    if r.chance(2, 3) {
        v.extend_from_slice(&junk(&mut r, 100));
    }
    // damage
    match r.below(10) {
        0 | 1 => {
            let k = r.below(v.len() as u64 + 1) as usize;
            v.truncate(k);
            label.push_str("truncated");
        }
        2 => {
            if !v.is_empty() {
                let i = r.below(v.len() as u64) as usize;
                v[i] ^= 1 << r.below(8);
                label.push_str("bitflip");
            }
        }
        3 => {
            let other = junk(&mut r, 50);
            v = gen::mutate(&mut r, &v, &other);
            label.push_str("mutated");
        }
        _ => {}
    }
    FileCase { bytes: v, label }
}

pub fn recreate_plain(c: &[u8]) -> Run<Result<Vec<u8>, String>> {
    guarded(|| {
        let mut out = Vec::new();
        recreated_zlib_chunks(&mut Cursor::new(c), &mut out)
            .map(|_| out)
            .map_err(|e| format!("{:?}", e.exit_code()))
    })
}

// ---------------------------------------------------------------------------------------
// C01

/// `scan` request for the model driver: the file, and what every stream analysis the scanner made
/// returned (the model's oracle), with the implementation's container and round trip as answer
pub fn scan_request(f: &[u8]) -> Option<(String, String)> {
    let (res, tape) = match guarded(|| vh::expand_with_tape(f)) {
        Run::Done(x) => x,
        Run::Panic(_) => return Some((format!("scan {} 0", hex(f)), "panic".into())),
    };
    let mut req = format!("scan {} {}", hex(f), tape.len());
    for p in &tape {
        match p.accepted {
            None => req.push_str(&format!(" {}:{}:rej", p.input_len, p.digest)),
            Some((size, _, _)) => {
                let r = match guarded(|| preflate_rs::decompress_deflate_stream(&p.input, true, 0)) {
                    Run::Done(Ok(r)) => r,
                    _ => return None,
                };
                if r.compressed_size != size || size > p.input.len() {
                    return None;
                }
                req.push_str(&format!(
                    " {}:{}:{}:{}:{}:{}",
                    p.input_len,
                    p.digest,
                    size,
                    hex(&r.plain_text),
                    hex(&r.prediction_corrections),
                    hex(&p.input[..size])
                ));
            }
        }
    }
    let resp = match res {
        Err(_) => "err".to_string(),
        Ok(c) => {
            let back = match recreate_plain(&c) {
                Run::Done(Ok(g)) => format!("{}", fnv64(&g)),
                Run::Done(Err(_)) => "err".into(),
                Run::Panic(_) => "panic".into(),
            };
            format!("ok {} {} {}", c.len(), fnv64(&c), back)
        }
    };
    Some((req, resp))
}

/// oracle entries (as in `scan` requests) for every stream analysis `expand` makes on `f`
pub fn oracle_entries(f: &[u8]) -> Option<String> {
    let (_, tape) = match guarded(|| vh::expand_with_tape(f)) {
        Run::Done(x) => x,
        Run::Panic(_) => return None,
    };
    let mut req = format!("{}", tape.len());
    for p in &tape {
        match p.accepted {
            None => req.push_str(&format!(" {}:{}:rej", p.input_len, p.digest)),
            Some((size, _, _)) => {
                let r = match guarded(|| preflate_rs::decompress_deflate_stream(&p.input, true, 0)) {
                    Run::Done(Ok(r)) => r,
                    _ => return None,
                };
                if r.compressed_size != size || size > p.input.len() {
                    return None;
                }
                req.push_str(&format!(" {}:{}:{}:{}:{}:{}", p.input_len, p.digest, size, hex(&r.plain_text), hex(&r.prediction_corrections), hex(&p.input[..size])));
            }
        }
    }
    Some(req)
}

pub fn c01_bytes(f: &[u8], label: &str, with_zstd: bool) -> CaseOut {
    crate::util::in_flight(&format!("file {}", hex(f)));
    let mut out = CaseOut::default();
    if f.len() <= 6000 && (f.len() > 3 || with_zstd) {
        if let Some(rq) = scan_request(f) {
            // the same file through the model of the WHOLE library (concrete stream functions, no
            // recorded answers): same expected answer as the tape-driven `scan` request
            if f.len() <= 3000 {
                out.requests.push((format!("library {}", hex(f)), rq.1.clone()));
            }
            out.requests.push(rq);
        }
    }
    let replay = format!("file {}", hex(f));
    let fail = |sig: String, detail: String| Failure { kind: "oracle".into(), signature: sig, detail: format!("{detail} [{label}]"), replay: replay.clone() };
    match guarded(|| expand_zlib_chunks(f, 0)) {
        Run::Panic(p) => out.failures.push(fail(format!("expand-panic {}", panic_signature(&p)), format!("expand_zlib_chunks panicked: {p}"))),
        Run::Done(Err(e)) => out.failures.push(fail("expand-err".into(), format!("expand_zlib_chunks returned Err({:?})", e.exit_code()))),
        Run::Done(Ok(c)) => {
            let expanded = c.len() > f.len() + 16;
            if expanded {
                out.nontrivial = Some(fnv64(f));
                out.tags.push("expanded".into());
            } else {
                out.tags.push("literal-only".into());
                if f.len() > 4 {
                    out.nontrivial = Some(fnv64(f) ^ 1);
                }
            }
            match recreate_plain(&c) {
                Run::Panic(p) => out.failures.push(fail(format!("recreate-panic {}", panic_signature(&p)), format!("recreated_zlib_chunks panicked: {p}"))),
                Run::Done(Err(e)) => out.failures.push(fail(format!("recreate-err {e}"), format!("expand Ok, recreated_zlib_chunks returned Err({e})"))),
                Run::Done(Ok(g)) => {
                    if g != f {
                        let at = g.iter().zip(f.iter()).position(|(a, b)| a != b).unwrap_or(g.len().min(f.len()));
                        out.failures.push(fail("roundtrip-differs".into(), format!("recreated {} bytes vs {} original, first difference at {at}", g.len(), f.len())));
                    }
                }
            }
            if with_zstd {
                match guarded(|| compress_zstd(f, 0).and_then(|z| decompress_zstd(&z, c.len() + 64))) {
                    Run::Panic(p) => out.failures.push(fail(format!("zstd-panic {}", panic_signature(&p)), format!("zstd path panicked: {p}"))),
                    Run::Done(Err(e)) => out.failures.push(fail("zstd-err".into(), format!("zstd path returned Err({:?})", e.exit_code()))),
                    Run::Done(Ok(g)) => {
                        if g != f {
                            out.failures.push(fail("zstd-roundtrip-differs".into(), "decompress_zstd(compress_zstd(F)) != F".into()));
                        }
                    }
                }
                out.tags.push("zstd-checked".into());
            }
            if out.sample.is_none() && f.len() > 0 {
                out.sample = Some(format!("{label}: {} -> container {} bytes", wire::short_hex(f), c.len()));
            }
        }
    }
    out
}

fn corpus_files() -> Vec<(Vec<u8>, String)> {
    let mut v = Vec::new();
    let dir = concat!(env!("CARGO_MANIFEST_DIR"), "/../corpus/files");
    if let Ok(rd) = std::fs::read_dir(dir) {
        let mut names: Vec<_> = rd.filter_map(|e| e.ok()).map(|e| e.path()).collect();
        names.sort();
        for p in names {
            if p.extension().map(|e| e == "hex").unwrap_or(false) {
                let t = std::fs::read_to_string(&p).unwrap();
                let h: String = t.lines().filter(|l| !l.starts_with('#')).collect::<Vec<_>>().join("");
                v.push((unhex(h.trim()), format!("corpus/{}", p.file_name().unwrap().to_string_lossy())));
            }
        }
    }
    v
}

fn exhaustive_short(ctx: &Ctx, maxlen: u32, f: impl Fn(&[u8]) -> CaseOut + Sync) -> Summary {
    let mut total = 0u64;
    for l in 0..=maxlen {
        total += 256u64.pow(l);
    }
    let mut t = run_cases(ctx, total, |i| {
        let (mut l, mut k) = (0u32, i);
        while k >= 256u64.pow(l) {
            k -= 256u64.pow(l);
            l += 1;
        }
        let d: Vec<u8> = (0..l).map(|j| (k >> (8 * j)) as u8).collect();
        let mut c = f(&d);
        c.sample = None;
        c.tags = vec!["exhaustive-short".into()];
        c.nontrivial = None;
        c
    });
    t.samples.clear();
    t
}

// ---------------------------------------------------------------------------------------
// C06

pub fn find_sub(h: &[u8], n: &[u8]) -> bool {
    if n.is_empty() {
        return true;
    }
    if h.len() < n.len() {
        return false;
    }
    let first = n[0];
    let mut i = 0;
    while i + n.len() <= h.len() {
        match h[i..=h.len() - n.len()].iter().position(|&b| b == first) {
            None => return false,
            Some(p) => {
                i += p;
                if &h[i..i + n.len()] == n {
                    return true;
                }
                i += 1;
            }
        }
    }
    false
}

pub fn c06_case(seed: u64, idx: u64) -> CaseOut {
    let mut r = Rng::new(seed.wrapping_mul(0xA24BAED4963EE407) ^ idx.wrapping_mul(0x9FB21C651E98DF25));
    let mut out = CaseOut::default();
    let maxp = *r.pick(&[1100usize, 3000, 20000, 70000]);
    let (s, p, slabel) = clean_stream(&mut r, 1025, maxp);
    // S must be accepted on its own, completely
    match streams::decompress(&s, true) {
        streams::Outcome::Ok(d) if d.size == s.len() && d.plain == p => {}
        _ => {
            out.tags.push("stream-not-accepted".into());
            return out;
        }
    }
    let kind = idx % 4;
    let (w, wl) = match kind {
        0 => {
            let h = ZLIB_HEADERS[(idx / 4 % 4) as usize];
            (zlib_wrap(h, &s, &p), format!("zlib {:02x}{:02x}", h[0], h[1]))
        }
        1 => {
            let flags = (((idx / 4) % 16) as u8) << 1;
            (gzip_wrap(&mut r, flags, &s, &p), format!("gzip flags={flags:#x}"))
        }
        2 => (zip_wrap(&mut r, &s, &p, 8), "zip".to_string()),
        _ => {
            let ch = (idx / 4) % 4;
            let zh = *r.pick(&ZLIB_HEADERS);
            let w = idat_wrap(&mut r, zh, &s, &p, ch);
            (w, format!("idat chunking={ch}"))
        }
    };
    if kind == 3 && w.len() <= 1024 {
        out.tags.push("idat-too-small".into());
        return out;
    }
    let pre = match r.below(4) {
        0 => Vec::new(),
        _ => junk(&mut r, 400),
    };
    let mut suf = match r.below(3) {
        0 => Vec::new(),
        _ => junk(&mut r, 200),
    };
    if kind == 3 && r.chance(1, 2) {
        // D15: what follows the run looks like an IDAT chunk but is not one of the run
        // (empty, CRC mismatch, length past the end) or is the usual IEND
        let mut head: Vec<u8> = Vec::new();
        match r.below(4) {
            0 => {
                head.extend_from_slice(&0u32.to_be_bytes());
                head.extend_from_slice(b"IDAT");
                let crc = if r.chance(1, 2) { crc32fast::hash(b"IDAT") } else { r.next() as u32 };
                head.extend_from_slice(&crc.to_be_bytes());
            }
            1 => {
                let body = junk(&mut r, 40);
                head.extend_from_slice(&(body.len() as u32).to_be_bytes());
                head.extend_from_slice(b"IDAT");
                head.extend_from_slice(&body);
                let mut h = crc32fast::Hasher::new();
                h.update(b"IDAT");
                h.update(&body);
                head.extend_from_slice(&(h.finalize() ^ (1 << r.below(32))).to_be_bytes());
            }
            2 => {
                head.extend_from_slice(&(r.range(1000, 100000) as u32).to_be_bytes());
                head.extend_from_slice(b"IDAT");
                suf.truncate(100);
            }
            _ => {
                head.extend_from_slice(&0u32.to_be_bytes());
                head.extend_from_slice(b"IEND");
                head.extend_from_slice(&crc32fast::hash(b"IEND").to_be_bytes());
            }
        }
        head.extend_from_slice(&suf);
        suf = head;
    }
    let mut f = pre.clone();
    f.extend_from_slice(&w);
    f.extend_from_slice(&suf);
    let label = format!("{wl} pre={} suf={} S=({slabel})", pre.len(), suf.len());
    crate::util::in_flight(&format!("file {}", hex(&f)));
    if f.len() <= 8000 {
        if let Some(rq) = scan_request(&f) {
            out.requests.push(rq);
        }
    }
    let replay = format!("file {}", hex(&f));
    let (res, tape) = match guarded(|| vh::expand_with_tape(&f)) {
        Run::Done(x) => x,
        Run::Panic(p) => {
            out.failures.push(Failure { kind: "oracle".into(), signature: format!("expand-panic {}", panic_signature(&p)), detail: format!("expand panicked: {p} [{label}]"), replay });
            return out;
        }
    };
    let c = match res {
        Ok(c) => c,
        Err(e) => {
            out.failures.push(Failure { kind: "oracle".into(), signature: "expand-err".into(), detail: format!("expand returned Err: {e} [{label}]"), replay });
            return out;
        }
    };
    // the "no other acceptable stream overlapping it" premise, evaluated on the scanner's probes
    let others = tape
        .iter()
        .filter(|pr| match pr.accepted {
            Some((cs, pl, _)) => (pl > 1024 || cs > 1000) && !(pl == p.len() && cs == s.len()),
            None => false,
        })
        .count();
    if others > 0 {
        out.tags.push("premise-failed-other-stream-accepted".into());
        return out;
    }
    out.tags.push(format!("wrapper-{}", ["zlib", "gzip", "zip", "idat"][kind as usize]));
    out.nontrivial = Some(fnv64(&f));
    if !find_sub(&c, &p) {
        out.failures.push(Failure {
            kind: "oracle".into(),
            signature: format!("not-expanded {}", ["zlib", "gzip", "zip", "idat"][kind as usize]),
            detail: format!("plaintext of the embedded stream ({} bytes) does not appear in the container ({} bytes for a {} byte file) [{label}]", p.len(), c.len(), f.len()),
            replay,
        });
    }
    out.sample = Some(format!("{label}: file {} bytes -> container {} bytes", f.len(), c.len()));
    out
}

// ---------------------------------------------------------------------------------------
// C13: fragmented I/O and injected errors

#[derive(Clone, Copy, Debug, PartialEq)]
pub enum Io {
    Short(usize),
    Interrupted,
    Error,
    Zero,
}

/// injected hard errors cycle through kinds a real source can report (never Interrupted)
pub fn error_kind(n: usize) -> std::io::ErrorKind {
    use std::io::ErrorKind::*;
    [Other, UnexpectedEof, BrokenPipe, TimedOut, ConnectionReset, InvalidData, WouldBlock, PermissionDenied][n % 8]
}

pub struct SchedReader<'a> {
    pub data: &'a [u8],
    pub pos: usize,
    pub sched: Vec<Io>,
    pub at: usize,
    pub calls: usize,
    pub hard_error_delivered: bool,
    pub interrupted_delivered: bool,
    /// inject a hard error when the read position reaches this offset
    pub fail_at: Option<usize>,
}

impl<'a> Read for SchedReader<'a> {
    fn read(&mut self, buf: &mut [u8]) -> std::io::Result<usize> {
        self.calls += 1;
        if let Some(o) = self.fail_at {
            if self.pos >= o {
                self.hard_error_delivered = true;
                return Err(std::io::Error::new(error_kind(self.pos + self.calls), "injected read error"));
            }
        }
        let item = if self.at < self.sched.len() {
            self.at += 1;
            self.sched[self.at - 1]
        } else {
            Io::Short(usize::MAX)
        };
        match item {
            Io::Short(k) => {
                let mut n = k.max(1).min(buf.len()).min(self.data.len() - self.pos);
                if let Some(o) = self.fail_at {
                    n = n.min(o - self.pos);
                }
                buf[..n].copy_from_slice(&self.data[self.pos..self.pos + n]);
                self.pos += n;
                Ok(n)
            }
            Io::Interrupted => {
                self.interrupted_delivered = true;
                Err(std::io::Error::new(std::io::ErrorKind::Interrupted, "injected interrupt"))
            }
            Io::Error => {
                self.hard_error_delivered = true;
                Err(std::io::Error::new(error_kind(self.pos + self.calls), "injected read error"))
            }
            Io::Zero => {
                // a source that reports end of data early is a truncated source: hard fault
                self.hard_error_delivered = true;
                Ok(0)
            }
        }
    }
}

pub struct SchedWriter {
    pub out: Vec<u8>,
    pub sched: Vec<Io>,
    pub at: usize,
    pub calls: usize,
    pub hard_error_delivered: bool,
    pub interrupted_delivered: bool,
    pub fail_at: Option<usize>,
}

impl Write for SchedWriter {
    fn write(&mut self, buf: &[u8]) -> std::io::Result<usize> {
        self.calls += 1;
        if let Some(o) = self.fail_at {
            if self.out.len() >= o {
                self.hard_error_delivered = true;
                return Err(std::io::Error::new(error_kind(self.out.len() + self.calls), "injected write error"));
            }
        }
        let item = if self.at < self.sched.len() {
            self.at += 1;
            self.sched[self.at - 1]
        } else {
            Io::Short(usize::MAX)
        };
        match item {
            Io::Short(k) => {
                let mut n = k.max(1).min(buf.len());
                if let Some(o) = self.fail_at {
                    n = n.min(o - self.out.len());
                }
                self.out.extend_from_slice(&buf[..n]);
                Ok(n)
            }
            Io::Zero => {
                if buf.is_empty() {
                    Ok(0)
                } else {
                    // write_all turns Ok(0) into ErrorKind::WriteZero
                    self.hard_error_delivered = true;
                    Ok(0)
                }
            }
            Io::Interrupted => {
                self.interrupted_delivered = true;
                Err(std::io::Error::new(std::io::ErrorKind::Interrupted, "injected interrupt"))
            }
            Io::Error => {
                self.hard_error_delivered = true;
                Err(std::io::Error::new(error_kind(self.out.len() + self.calls), "injected write error"))
            }
        }
    }
    fn flush(&mut self) -> std::io::Result<()> {
        Ok(())
    }
}

pub fn sched_str(s: &[Io]) -> String {
    if s.is_empty() {
        return "-".into();
    }
    s.iter()
        .map(|i| match i {
            Io::Short(k) => format!("s{k}"),
            Io::Interrupted => "i".into(),
            Io::Error => "e".into(),
            Io::Zero => "z".into(),
        })
        .collect::<Vec<_>>()
        .join(",")
}

pub fn parse_sched(s: &str) -> Vec<Io> {
    if s == "-" || s.is_empty() {
        return Vec::new();
    }
    s.split(',')
        .map(|t| match t.as_bytes()[0] {
            b's' => Io::Short(t[1..].parse().unwrap()),
            b'i' => Io::Interrupted,
            b'e' => Io::Error,
            _ => Io::Zero,
        })
        .collect()
}

fn opt_str(o: Option<usize>) -> String {
    o.map(|x| x.to_string()).unwrap_or_else(|| "-".into())
}

pub struct IoRun {
    pub result: Run<Result<(), String>>,
    pub sink: Vec<u8>,
    pub hard: bool,
    pub interrupted: bool,
    pub reads: usize,
    pub writes: usize,
}

pub fn recreate_io(c: &[u8], rs: &[Io], ws: &[Io], rfail: Option<usize>, wfail: Option<usize>) -> IoRun {
    let mut rd = SchedReader { data: c, pos: 0, sched: rs.to_vec(), at: 0, calls: 0, hard_error_delivered: false, interrupted_delivered: false, fail_at: rfail };
    let mut wr = SchedWriter { out: Vec::new(), sched: ws.to_vec(), at: 0, calls: 0, hard_error_delivered: false, interrupted_delivered: false, fail_at: wfail };
    let result = guarded(|| recreated_zlib_chunks(&mut rd, &mut wr).map_err(|e| format!("{:?}", e.exit_code())));
    IoRun {
        result,
        hard: rd.hard_error_delivered || wr.hard_error_delivered,
        interrupted: rd.interrupted_delivered || wr.interrupted_delivered,
        reads: rd.calls,
        writes: wr.calls,
        sink: wr.out,
    }
}

fn random_sched(r: &mut Rng, n: usize, style: u64) -> Vec<Io> {
    (0..n)
        .map(|_| match style {
            0 => Io::Short(1),
            1 => Io::Short(1 + r.below(7) as usize),
            2 => Io::Short(1 + r.below(70000) as usize),
            _ => {
                if r.chance(1, 6) {
                    Io::Interrupted
                } else {
                    Io::Short(1 + r.below(300) as usize)
                }
            }
        })
        .collect()
}

pub fn c13_check(f: &[u8], c: &[u8], rs: &[Io], ws: &[Io], rfail: Option<usize>, wfail: Option<usize>, label: &str) -> CaseOut {
    c13_check_o(f, c, rs, ws, rfail, wfail, label, None)
}

pub fn c13_check_o(f: &[u8], c: &[u8], rs: &[Io], ws: &[Io], rfail: Option<usize>, wfail: Option<usize>, label: &str, entries: Option<&str>) -> CaseOut {
    let mut out = CaseOut::default();
    let replay = format!("recreate {} {} {} {} {}\nfile {}", hex(c), sched_str(rs), sched_str(ws), opt_str(rfail), opt_str(wfail), hex(f));
    crate::util::in_flight(&replay);
    let fail = |sig: String, detail: String| Failure { kind: "oracle".into(), signature: sig, detail: format!("{detail} [{label}]"), replay: replay.clone() };
    let run = recreate_io(c, rs, ws, rfail, wfail);
    if let (Some(e), None, None) = (entries, rfail, wfail) {
        let word = match &run.result {
            Run::Panic(_) => "panic",
            Run::Done(Ok(())) => "ok",
            Run::Done(Err(_)) => "err",
        };
        out.requests.push((
            format!("recreateio {} {} {} {}", hex(c), sched_str(rs), sched_str(ws), e),
            format!("{} {} {}", word, run.sink.len(), fnv64(&run.sink)),
        ));
        // the same schedule through the model of the WHOLE library (concrete stream functions,
        // nothing recorded from the code)
        if c.len() <= 2500 {
            out.requests.push((
                format!("libraryio {} {} {}", hex(c), sched_str(rs), sched_str(ws)),
                format!("{} {} {}", word, run.sink.len(), fnv64(&run.sink)),
            ));
        }
    }
    let is_prefix = run.sink.len() <= f.len() && run.sink[..] == f[..run.sink.len()];
    match &run.result {
        Run::Panic(p) => out.failures.push(fail(format!("panic {}", panic_signature(p)), format!("recreated_zlib_chunks panicked under I/O schedule: {p}"))),
        Run::Done(Ok(())) => {
            if run.hard {
                out.failures.push(fail("error-swallowed".into(), "an I/O error was delivered but the call returned Ok".into()));
            } else if run.sink != f {
                out.failures.push(fail("fragmentation-changes-output".into(), format!("output {} bytes differs from the original {} bytes", run.sink.len(), f.len())));
            }
        }
        Run::Done(Err(e)) => {
            if !run.hard && !run.interrupted {
                out.failures.push(fail("spurious-error".into(), format!("no I/O error was delivered but the call returned Err({e}); sink {} of {} bytes", run.sink.len(), f.len())));
            }
            if !is_prefix {
                out.failures.push(fail("written-bytes-not-a-prefix".into(), format!("after Err({e}) the sink holds {} bytes that are not a prefix of the original", run.sink.len())));
            }
        }
    }
    out.tags.push(
        if run.hard {
            "hard-error"
        } else if run.interrupted {
            "interrupted"
        } else {
            "fragmented-only"
        }
        .into(),
    );
    let mut key = fnv64(c);
    key ^= fnv64(sched_str(rs).as_bytes()).rotate_left(7) ^ fnv64(sched_str(ws).as_bytes()).rotate_left(13) ^ (rfail.unwrap_or(0) as u64) << 1 ^ (wfail.unwrap_or(0) as u64) << 33;
    if c.len() > 1 {
        out.nontrivial = Some(key);
    }
    out.sample = Some(format!("{label}: container {} bytes, reads {}, writes {}, rsched {} wsched {} rfail {:?} wfail {:?}", c.len(), run.reads, run.writes, wire::short_hex(sched_str(rs).as_bytes()).len(), ws.len(), rfail, wfail));
    out.sample = Some(format!("{label}: container {}B rsched=[{}] wsched=[{}] rfail={} wfail={} -> reads={} writes={}", c.len(), trunc(&sched_str(rs)), trunc(&sched_str(ws)), opt_str(rfail), opt_str(wfail), run.reads, run.writes));
    out
}

fn trunc(s: &str) -> String {
    if s.len() > 40 {
        format!("{}…", &s[..40])
    } else {
        s.to_string()
    }
}

/// files whose literal runs have exactly the sizes at which the reader's staging changes regime:
/// multiples of the 64 KiB literal staging buffer and their neighbours — as a whole file without
/// deflate content, in front of an accepted stream (counted up to and including the wrapper header),
/// and behind the last stream
pub fn literal_run_files(r: &mut Rng, thorough: bool) -> Vec<FileCase> {
    let mut out = Vec::new();
    let filler = |n: usize, salt: u8| -> Vec<u8> { (0..n).map(|i| b'A' + ((i as u8) ^ salt) % 7).collect() };
    let mut sizes: Vec<usize> = vec![65535, 65536, 65537, 131072];
    if thorough {
        sizes.extend([131071, 131073, 196608, 262144, 65536 * 3 + 1]);
    }
    for &n in &sizes {
        out.push(FileCase { bytes: filler(n, 0), label: format!("literal-run whole-file {n}") });
        let (s, p, l) = clean_stream(r, 1500, 4000);
        // in front of a zlib stream: the literal run is the filler plus the two header bytes
        for delta in [0usize, 1, 2, 3] {
            if n < delta + 2 { continue; }
            let mut v = filler(n - delta, 1);
            v.extend_from_slice(&zlib_wrap([0x78, 0x9c], &s, &p));
            out.push(FileCase { bytes: v, label: format!("literal-run {n}-{delta} then zlib({l})") });
        }
        // behind the last stream (the Adler-32 belongs to the trailing literal run)
        for delta in [0usize, 4, 5] {
            if n < delta { continue; }
            let mut v = vec![b'x'; 10];
            v.extend_from_slice(&zlib_wrap([0x78, 0x9c], &s, &p));
            v.extend_from_slice(&filler(n - delta, 2));
            out.push(FileCase { bytes: v, label: format!("zlib({l}) then literal-run {n}-{delta}") });
        }
    }
    out
}

pub fn c13_case(seed: u64, idx: u64, thorough: bool) -> Vec<CaseOut> {
    let mut r = Rng::new(seed ^ 0x13 ^ idx.wrapping_mul(0x9E3779B97F4A7C15));
    let fc = file_case(seed ^ 0x1313, idx, 6000);
    let f = fc.bytes;
    let c = match guarded(|| expand_zlib_chunks(&f, 0)) {
        Run::Done(Ok(c)) => c,
        _ => return Vec::new(), // C01's business
    };
    // only containers that recreate correctly without faults are in scope
    match recreate_plain(&c) {
        Run::Done(Ok(g)) if g == f => {}
        _ => return Vec::new(),
    }
    let mut outs = Vec::new();
    let label = fc.label;
    let entries = if c.len() <= 4000 { oracle_entries(&f) } else { None };
    for style in 0..4 {
        let rs = random_sched(&mut r, (c.len() + 8).min(3000), style);
        let ws = random_sched(&mut r, (f.len() + 8).min(3000), (style + 1) % 4);
        outs.push(c13_check_o(&f, &c, &rs, &ws, None, None, &label, entries.as_deref()));
    }
    // error at source / sink offsets
    let noffs = if thorough { 24 } else { 6 };
    if c.len() <= 64 {
        for o in 0..=c.len() {
            outs.push(c13_check(&f, &c, &[], &[], Some(o), None, &label));
        }
    } else {
        for _ in 0..noffs {
            let o = r.below(c.len() as u64 + 1) as usize;
            let st = 1 + r.below(2);
            let rs = random_sched(&mut r, 200, st);
            outs.push(c13_check(&f, &c, &rs, &[], Some(o), None, &label));
        }
    }
    if f.len() <= 64 {
        for o in 0..f.len() {
            outs.push(c13_check(&f, &c, &[], &[], None, Some(o), &label));
        }
    } else {
        for _ in 0..noffs {
            let o = r.below(f.len() as u64) as usize;
            let st = 1 + r.below(2);
            let ws = random_sched(&mut r, 200, st);
            outs.push(c13_check(&f, &c, &[], &ws, None, Some(o), &label));
        }
    }
    // scheduled error / zero-write items
    for _ in 0..3 {
        let mut rs = random_sched(&mut r, 40, 1);
        let mut ws = random_sched(&mut r, 40, 1);
        if r.chance(1, 2) {
            let i = r.below(rs.len() as u64) as usize;
            rs[i] = Io::Error;
        } else {
            let i = r.below(ws.len() as u64) as usize;
            ws[i] = *r.pick(&[Io::Error, Io::Zero]);
        }
        outs.push(c13_check_o(&f, &c, &rs, &ws, None, None, &label, entries.as_deref()));
    }
    outs
}

// ---------------------------------------------------------------------------------------
// C11: zstd wrappers

fn rd_varint(c: &[u8], p: &mut usize) -> Option<usize> {
    let (mut v, mut sh) = (0usize, 0);
    loop {
        let b = *c.get(*p)?;
        *p += 1;
        v |= ((b & 0x7f) as usize) << sh;
        sh += 7;
        if b & 0x80 == 0 || sh > 35 {
            return Some(v);
        }
    }
}

/// offsets in a container at which a chunk ends (harness-side walk of the chunk structure)
pub fn container_boundaries(c: &[u8]) -> Vec<usize> {
    let mut out = vec![1usize];
    let mut p = 1usize;
    while p < c.len() {
        let tag = c[p];
        p += 1;
        let ok = (|| -> Option<()> {
            match tag {
                0 => {
                    let n = rd_varint(c, &mut p)?;
                    p += n;
                }
                1 | 2 => {
                    if tag == 2 {
                        while rd_varint(c, &mut p)? != 0 {}
                        p += 6;
                    }
                    let n = rd_varint(c, &mut p)?;
                    p += n;
                    let m = rd_varint(c, &mut p)?;
                    p += m;
                }
                _ => return None,
            }
            Some(())
        })();
        if ok.is_none() || p > c.len() {
            break;
        }
        out.push(p);
    }
    out
}

pub fn c11_case(seed: u64, idx: u64) -> CaseOut {
    let r = Rng::new(seed ^ 0x11 ^ idx.wrapping_mul(0x9E3779B97F4A7C15));
    let fc = file_case(seed ^ 0x1111, idx, 20000);
    c11_file(fc.bytes, fc.label, r)
}

/// the C11 oracle on one file (also what `--replay` runs for a recorded C11 failure)
pub fn c11_file(f: Vec<u8>, label: String, mut r: Rng) -> CaseOut {
    let mut out = CaseOut::default();
    let replay = format!("file {}", hex(&f));
    crate::util::in_flight(&replay);
    let fail = |sig: String, detail: String| Failure { kind: "oracle".into(), signature: sig, detail: format!("{detail} [{label}]"), replay: replay.clone() };
    let size = match guarded(|| expand_zlib_chunks(&f, 0)) {
        Run::Done(Ok(c)) => {
            // in scope only if the plain container path round-trips (otherwise C01 reports it)
            match recreate_plain(&c) {
                Run::Done(Ok(g)) if g == f => c.len(),
                _ => return out,
            }
        }
        _ => return out,
    };
    let z = match guarded(|| compress_zstd(&f, 0)) {
        Run::Done(Ok(z)) => z,
        Run::Done(Err(e)) => {
            out.failures.push(fail("compress-err".into(), format!("compress_zstd returned Err({:?})", e.exit_code())));
            return out;
        }
        Run::Panic(p) => {
            out.failures.push(fail(format!("compress-panic {}", panic_signature(&p)), format!("compress_zstd panicked: {p}")));
            return out;
        }
    };
    let mut caps = vec![size, size + 1, size + 1 + r.below(100000) as usize];
    let mut small = vec![0usize, 1];
    // every chunk boundary of the expanded form: a prefix cut there is itself a well-formed container
    if let Run::Done(Ok(c)) = guarded(|| expand_zlib_chunks(&f, 0)) {
        small.extend(container_boundaries(&c).into_iter().filter(|&b| b < size));
    }
    if size > 0 {
        small.push(size - 1);
        small.push(r.below(size as u64) as usize);
    }
    caps.dedup();
    for cap in caps {
        match guarded(|| decompress_zstd(&z, cap)) {
            Run::Panic(p) => out.failures.push(fail(format!("decompress-panic {}", panic_signature(&p)), format!("decompress_zstd(cap={cap}) panicked: {p}"))),
            Run::Done(Err(e)) => out.failures.push(fail("sufficient-capacity-err".into(), format!("decompress_zstd with capacity {cap} >= expanded size {size} returned Err({:?})", e.exit_code()))),
            Run::Done(Ok(g)) => {
                if g != f {
                    out.failures.push(fail("roundtrip-differs".into(), format!("decompress_zstd(compress_zstd(F), {cap}) != F")));
                }
            }
        }
    }
    small.retain(|&c| c < size); // e.g. the empty file: its expanded form is the version byte alone, capacity 1 suffices
    small.sort();
    small.dedup();
    for cap in small {
        match guarded(|| decompress_zstd(&z, cap)) {
            Run::Panic(p) => out.failures.push(fail(format!("decompress-panic {}", panic_signature(&p)), format!("decompress_zstd(cap={cap}) panicked: {p}"))),
            Run::Done(Err(_)) => {}
            Run::Done(Ok(g)) => out.failures.push(fail("small-capacity-ok".into(), format!("decompress_zstd with capacity {cap} < expanded size {size} returned Ok({} bytes, equal to F: {})", g.len(), g == f))),
        }
    }
    // not a zstd frame
    let mut bad: Vec<Vec<u8>> = vec![f.clone(), Vec::new(), z[..z.len() / 2].to_vec(), (0..r.below(64)).map(|_| r.next() as u8).collect()];
    let mut flipped = z.clone();
    if !flipped.is_empty() {
        flipped[0] ^= 0x10;
    }
    bad.push(flipped);
    for b in bad {
        // a byte string that happens to be a valid frame is out of scope: ask zstd itself
        if zstd::bulk::decompress(&b, size + 1024).is_ok() {
            continue;
        }
        match guarded(|| decompress_zstd(&b, size + 1024)) {
            Run::Panic(p) => out.failures.push(fail(format!("nonframe-panic {}", panic_signature(&p)), format!("decompress_zstd on a non-frame panicked: {p}"))),
            Run::Done(Ok(_)) => out.failures.push(fail("nonframe-ok".into(), "decompress_zstd accepted input that zstd rejects".into())),
            Run::Done(Err(_)) => {}
        }
    }
    out.nontrivial = Some(fnv64(&f));
    out.tags.push(if size > f.len() + 16 { "expanded".into() } else { "literal-only".into() });
    out.sample = Some(format!("{label}: file {}B expanded {}B zstd {}B", f.len(), size, z.len()));
    out
}

// ---------------------------------------------------------------------------------------
// C12: C ABI wrappers

const GUARD: usize = 64;

fn call_compress(input: &[u8], cap: usize) -> (i32, u64, bool, Vec<u8>) {
    let mut buf = vec![0xA5u8; cap + 2 * GUARD];
    let mut rs: u64 = u64::MAX;
    let rc = unsafe {
        preflate_rs::WrapperCompressZip(input.as_ptr(), input.len() as u64, buf[GUARD..].as_mut_ptr(), cap as u64, &mut rs as *mut u64)
    };
    let guards = buf[..GUARD].iter().all(|&b| b == 0xA5) && buf[GUARD + cap..].iter().all(|&b| b == 0xA5);
    let n = if rc == 0 && (rs as usize) <= cap { rs as usize } else { 0 };
    (rc, rs, guards, buf[GUARD..GUARD + n].to_vec())
}

fn call_decompress(input: &[u8], cap: usize) -> (i32, u64, bool, Vec<u8>) {
    let mut buf = vec![0x5Au8; cap + 2 * GUARD];
    let mut rs: u64 = u64::MAX;
    let rc = unsafe {
        preflate_rs::WrapperDecompressZip(input.as_ptr(), input.len() as u64, buf[GUARD..].as_mut_ptr(), cap as u64, &mut rs as *mut u64)
    };
    let guards = buf[..GUARD].iter().all(|&b| b == 0x5A) && buf[GUARD + cap..].iter().all(|&b| b == 0x5A);
    let n = if rc == 0 && (rs as usize) <= cap { rs as usize } else { 0 };
    (rc, rs, guards, buf[GUARD..GUARD + n].to_vec())
}

pub fn c12_case(seed: u64, idx: u64) -> CaseOut {
    let r = Rng::new(seed ^ 0x12 ^ idx.wrapping_mul(0x9E3779B97F4A7C15));
    let fc = file_case(seed ^ 0x1212, idx, 8000);
    c12_file(fc.bytes, fc.label, r)
}

/// the C12 oracle on one file (also what `--replay` runs for a recorded C12 failure)
pub fn c12_file(f: Vec<u8>, label: String, mut r: Rng) -> CaseOut {
    let mut out = CaseOut::default();
    let replay = format!("file {}", hex(&f));
    crate::util::in_flight(&replay);
    let fail = |sig: String, detail: String| Failure { kind: "oracle".into(), signature: sig, detail: format!("{detail} [{label}]"), replay: replay.clone() };
    // what the library itself does with this file (C01 reports defects there)
    let lib_ok = matches!(guarded(|| expand_zlib_chunks(&f, 0)), Run::Done(Ok(ref c)) if matches!(recreate_plain(c), Run::Done(Ok(ref g)) if *g == f));
    let big = f.len() + f.len() / 2 + 4096;
    let (rc, rs, guards, z) = call_compress(&f, big);
    if !guards {
        out.failures.push(fail("compress-guard-damaged".into(), "WrapperCompressZip wrote outside the output buffer".into()));
    }
    if rc == 0 && rs as usize > big {
        out.failures.push(fail("compress-size-out-of-range".into(), format!("status 0 with result_size {rs} > capacity {big}")));
    }
    if rc != 0 {
        if lib_ok {
            out.failures.push(fail("compress-status".into(), format!("WrapperCompressZip returned {rc} with a {big}-byte buffer for a file the library handles")));
        }
        out.tags.push(format!("compress-rc{rc}"));
        return out;
    }
    let need = z.len();
    // capacities around the needed size
    let mut caps: Vec<usize> = vec![0, 1, need.saturating_sub(1), need, need + 1];
    if need <= 48 {
        caps.extend(0..=need + 2);
    } else {
        for _ in 0..3 {
            caps.push(r.below(need as u64) as usize);
        }
    }
    caps.sort();
    caps.dedup();
    for cap in caps {
        let (rc2, rs2, g2, z2) = call_compress(&f, cap);
        if !g2 {
            out.failures.push(fail("compress-guard-damaged".into(), format!("WrapperCompressZip wrote outside a {cap}-byte buffer")));
        }
        if rc2 == 0 {
            if rs2 as usize > cap {
                out.failures.push(fail("compress-size-out-of-range".into(), format!("status 0 with result_size {rs2} > capacity {cap}")));
            } else {
                // whatever it reports as valid must decode to the file
                match guarded(|| decompress_zstd(&z2, 1 << 27)) {
                    Run::Done(Ok(g)) if g == f => {}
                    _ => {
                        if lib_ok {
                            out.failures.push(fail("compress-output-invalid".into(), format!("status 0 at capacity {cap} but the {rs2} reported bytes do not decode to the file")));
                        }
                    }
                }
            }
        } else if rc2 > 0 {
            out.failures.push(fail("compress-status-positive".into(), format!("status {rc2}")));
        }
        if cap < need && rc2 == 0 && (rs2 as usize) == need {
            out.failures.push(fail("compress-undersized-ok".into(), format!("capacity {cap} < needed {need} reported success")));
        }
    }
    // decompress side
    let want = f.len();
    let mut dcaps: Vec<usize> = vec![0, want.saturating_sub(1), want, want + 1, want + 1000];
    if want <= 48 {
        dcaps.extend(0..=want + 2);
    } else {
        for _ in 0..3 {
            dcaps.push(r.below(want as u64) as usize);
        }
    }
    dcaps.sort();
    dcaps.dedup();
    for cap in dcaps {
        let (rc3, rs3, g3, o3) = call_decompress(&z, cap);
        if !g3 {
            out.failures.push(fail("decompress-guard-damaged".into(), format!("WrapperDecompressZip wrote outside a {cap}-byte buffer")));
        }
        if rc3 == 0 {
            if rs3 as usize > cap {
                out.failures.push(fail("decompress-size-out-of-range".into(), format!("status 0 with result_size {rs3} > capacity {cap}")));
            } else if cap >= want && lib_ok && o3 != f {
                out.failures.push(fail("wrapper-roundtrip-differs".into(), format!("capacity {cap}: output {} bytes differs from the {}-byte file", o3.len(), f.len())));
            } else if cap < want {
                out.failures.push(fail("decompress-undersized-ok".into(), format!("capacity {cap} < file size {want} reported success with {rs3} bytes")));
            }
        } else {
            if rc3 > 0 {
                out.failures.push(fail("decompress-status-positive".into(), format!("status {rc3}")));
            }
            if cap >= want && lib_ok {
                out.failures.push(fail("decompress-status".into(), format!("capacity {cap} >= file size {want} returned {rc3}")));
            }
        }
    }
    // arbitrary (non-container) bytes as decompress input
    for _ in 0..2 {
        let junk: Vec<u8> = (0..r.below(200)).map(|_| r.next() as u8).collect();
        let (rc4, rs4, g4, _) = call_decompress(&junk, 256);
        if !g4 {
            out.failures.push(fail("decompress-guard-damaged".into(), "junk input: wrote outside the buffer".into()));
        }
        if rc4 == 0 && rs4 as usize > 256 {
            out.failures.push(fail("decompress-size-out-of-range".into(), "junk input".into()));
        }
    }
    // call sequences: a zstd frame around a DAMAGED container makes the library fail inside the wrapper — with Err, or
    // with an internal panic that the wrapper must catch and map to a negative status (an empty corrections field
    // trips a hard assertion on the parameter header's version) — and the next valid call in the same process must
    // behave as if the failed one had never happened. Only damage of the container STRUCTURE is used (truncation,
    // version byte, chunk tag, empty corrections): damaged correction CONTENT can make the reconstruction loop
    // (known_findings.json, observations), which C12 does not speak about.
    if let Run::Done(Ok(c)) = guarded(|| expand_zlib_chunks(&f, 0)) {
        let mut damaged: Vec<(&str, Vec<u8>)> = vec![("empty-corrections", vec![1, 1, 0, 0])];
        if c.len() > 2 {
            let cut = 1 + r.below(c.len() as u64 - 1) as usize;
            damaged.push(("truncated", c[..cut].to_vec()));
            let mut v = c.clone();
            v[0] = v[0].wrapping_add(1 + r.below(254) as u8);
            damaged.push(("version", v));
            let mut t = c.clone();
            t[1] = 3 + r.below(250) as u8;
            damaged.push(("tag", t));
        }
        for (what, d) in damaged {
            let frame = match zstd::bulk::compress(&d, 1) {
                Ok(z) => z,
                Err(_) => continue,
            };
            let cap = want + 1000;
            let (rc5, rs5, g5, _) = call_decompress(&frame, cap);
            if !g5 {
                out.failures.push(fail("decompress-guard-damaged".into(), format!("damaged container ({what}): wrote outside the buffer")));
            }
            if rc5 > 0 || (rc5 == 0 && rs5 as usize > cap) {
                out.failures.push(fail("decompress-status-positive".into(), format!("damaged container ({what}): status {rc5}, result_size {rs5}")));
            }
            out.tags.push(format!("damaged-{what}-rc{rc5}"));
            let (rc6, _, g6, o6) = call_decompress(&z, want + 1);
            if !g6 {
                out.failures.push(fail("decompress-guard-damaged".into(), format!("valid call after a failed one ({what}): wrote outside the buffer")));
            }
            if lib_ok && (rc6 != 0 || o6 != f) {
                out.failures.push(fail(
                    "wrapper-call-after-failure".into(),
                    format!("after WrapperDecompressZip returned {rc5} for a damaged container ({what}), the valid frame returned {rc6} ({} of {} bytes equal)", o6.iter().zip(f.iter()).take_while(|(a, b)| a == b).count(), f.len()),
                ));
            }
        }
    }
    out.nontrivial = Some(fnv64(&f));
    out.sample = Some(format!("{label}: file {}B compressed {}B", f.len(), need));
    out
}

/// C12 quantifies over "every file whose expanded form is at most 128 MiB": one file of 128 MiB - 4096 zero bytes
/// (no signature inside, so the expanded form is the version byte and literal chunks: a few bytes more than the file)
/// through both wrappers. A bound below 128 MiB anywhere on that path makes this fail.
pub fn c12_limit_probe() -> CaseOut {
    let mut out = CaseOut::default();
    let n = 128 * 1024 * 1024 - 4096;
    let f = vec![0u8; n];
    let replay = format!("zeros {n}");
    crate::util::in_flight(&replay);
    let fail = |sig: &str, detail: String| Failure { kind: "oracle".into(), signature: sig.into(), detail, replay: replay.clone() };
    let expanded = match guarded(|| expand_zlib_chunks(&f, 0)) {
        Run::Done(Ok(c)) => c.len(),
        _ => 0,
    };
    out.tags.push("limit-probe".into());
    if expanded == 0 || expanded > 128 * 1024 * 1024 {
        // not a file the property speaks about (cannot happen for zeros unless the container format changes)
        out.tags.push("limit-probe-skipped".into());
        return out;
    }
    let (rc, rs, guards, z) = call_compress(&f, 1 << 20);
    if !guards || rc != 0 {
        out.failures.push(fail("limit-compress-status", format!("WrapperCompressZip returned {rc} (result_size {rs}, guards intact: {guards}) for {n} zero bytes, expanded form {expanded} bytes <= 128 MiB")));
        return out;
    }
    let (rc2, rs2, g2, o2) = call_decompress(&z, n);
    if !g2 || rc2 != 0 || o2 != f {
        out.failures.push(fail(
            "limit-roundtrip",
            format!("file of {n} bytes whose expanded form has {expanded} bytes (<= 128 MiB): WrapperDecompressZip returned {rc2} (result_size {rs2}, guards intact: {g2}), output equal: {}", o2 == f),
        ));
    }
    out.nontrivial = Some(n as u64);
    out.sample = Some(format!("limit probe: {n} zero bytes, expanded {expanded} bytes, compressed {} bytes", z.len()));
    out
}

// ---------------------------------------------------------------------------------------
// C14: determinism and concurrent use

pub fn c14_run(ctx: &Ctx) -> Summary {
    let seed = ctx.seed;
    let mut s = Summary::default();
    let nfiles = ctx.n(48, 400) as usize;
    let files: Vec<FileCase> = (0..nfiles as u64).map(|i| file_case(seed ^ 0x14, i, 12000)).collect();
    let streams_: Vec<streams::Case> = (0..nfiles as u64).map(|i| streams::case(seed ^ 0x1414, i, 12000, true)).collect();
    // sequential reference
    type Res = (u64, u64, u64, u64);
    let eval = |i: usize| -> Res {
        let f = &files[i].bytes;
        let a = match guarded(|| expand_zlib_chunks(f, 0)) {
            Run::Done(Ok(c)) => {
                let b = match recreate_plain(&c) {
                    Run::Done(Ok(g)) => fnv64(&g),
                    Run::Done(Err(_)) => 1,
                    Run::Panic(_) => 2,
                };
                (fnv64(&c), b)
            }
            Run::Done(Err(_)) => (1, 0),
            Run::Panic(_) => (2, 0),
        };
        let d = &streams_[i].s.bytes;
        let b = match streams::decompress(d, i % 2 == 0) {
            streams::Outcome::Ok(x) => {
                let rc = match guarded(|| preflate_rs::recompress_deflate_stream(&x.plain, &x.corr)) {
                    Run::Done(Ok(y)) => fnv64(&y),
                    Run::Done(Err(_)) => 1,
                    Run::Panic(_) => 2,
                };
                (fnv64(&x.plain) ^ fnv64(&x.corr).rotate_left(17) ^ x.size as u64, rc)
            }
            streams::Outcome::Err(_) => (1, 0),
            streams::Outcome::Panic(_) => (2, 0),
        };
        (a.0, a.1, b.0, b.1)
    };
    let reference: Vec<Res> = (0..nfiles).map(eval).collect();
    let rounds = ctx.n(3, 12);
    for round in 0..rounds {
        let barrier = std::sync::Barrier::new(16);
        let results: Vec<Vec<(usize, Res)>> = std::thread::scope(|sc| {
            let hs: Vec<_> = (0..16)
                .map(|t| {
                    let barrier = &barrier;
                    let eval = &eval;
                    sc.spawn(move || {
                        let mut r = Rng::new(seed ^ (round << 8) ^ t as u64);
                        barrier.wait();
                        let mut v = Vec::new();
                        // shared inputs (everyone hits the same few) and distinct ones
                        for k in 0..(nfiles / 4).max(4) {
                            let i = if k % 2 == 0 { k % 4 } else { r.below(nfiles as u64) as usize };
                            v.push((i, eval(i)));
                        }
                        v
                    })
                })
                .collect();
            hs.into_iter().map(|h| h.join().unwrap()).collect()
        });
        for (t, v) in results.into_iter().enumerate() {
            for (i, res) in v {
                let mut c = CaseOut::default();
                c.nontrivial = Some(fnv64(&files[i].bytes) ^ (t as u64) << 48 ^ round << 56);
                c.tags.push("concurrent-call".into());
                if res != reference[i] {
                    c.failures.push(Failure {
                        kind: "oracle".into(),
                        signature: "concurrent-result-differs".into(),
                        detail: format!("thread {t} round {round}: result for input {i} differs from the sequential result"),
                        replay: format!("file {}\nstream {}", hex(&files[i].bytes), hex(&streams_[i].s.bytes)),
                    });
                }
                s.absorb(c);
            }
        }
    }
    // repeated sequential calls
    for i in 0..nfiles {
        let mut c = CaseOut::default();
        c.tags.push("repeat-call".into());
        if eval(i) != reference[i] {
            c.failures.push(Failure { kind: "oracle".into(), signature: "repeat-result-differs".into(), detail: format!("second sequential call on input {i} differs"), replay: format!("file {}\nstream {}", hex(&files[i].bytes), hex(&streams_[i].s.bytes)) });
        }
        c.sample = Some(format!("input {i}: {} -> digests {:?}", files[i].label, reference[i]));
        s.absorb(c);
    }
    // a second process
    let exe = std::env::current_exe().unwrap();
    let o = std::process::Command::new(exe).args(["c14-child", "--seed", &seed.to_string(), "--tier", &ctx.tier]).output();
    let mut c = CaseOut::default();
    c.tags.push("second-process".into());
    match o {
        Ok(o) => {
            // the library prints diagnostics on stdout; result lines carry the prefix "R "
            let text: String = String::from_utf8_lossy(&o.stdout).lines().filter(|l| l.starts_with("R ")).map(|l| format!("{l}\n")).collect();
            let mine: String = reference.iter().map(|r| format!("R {} {} {} {}\n", r.0, r.1, r.2, r.3)).collect();
            if text != mine {
                c.failures.push(Failure { kind: "oracle".into(), signature: "process-result-differs".into(), detail: "a second process computed different results for the same inputs".into(), replay: "c14-child".into() });
            }
            c.nontrivial = Some(fnv64(text.as_bytes()));
        }
        Err(e) => c.failures.push(Failure { kind: "internal".into(), signature: "child-spawn".into(), detail: e.to_string(), replay: String::new() }),
    }
    s.absorb(c);
    s
}

pub fn c14_child(ctx: &Ctx) {
    let seed = ctx.seed;
    let nfiles = ctx.n(48, 400) as usize;
    for i in 0..nfiles {
        let f = file_case(seed ^ 0x14, i as u64, 12000).bytes;
        let a = match guarded(|| expand_zlib_chunks(&f, 0)) {
            Run::Done(Ok(c)) => {
                let b = match recreate_plain(&c) {
                    Run::Done(Ok(g)) => fnv64(&g),
                    Run::Done(Err(_)) => 1,
                    Run::Panic(_) => 2,
                };
                (fnv64(&c), b)
            }
            Run::Done(Err(_)) => (1, 0),
            Run::Panic(_) => (2, 0),
        };
        let d = streams::case(seed ^ 0x1414, i as u64, 12000, true).s.bytes;
        let b = match streams::decompress(&d, i % 2 == 0) {
            streams::Outcome::Ok(x) => {
                let rc = match guarded(|| preflate_rs::recompress_deflate_stream(&x.plain, &x.corr)) {
                    Run::Done(Ok(y)) => fnv64(&y),
                    Run::Done(Err(_)) => 1,
                    Run::Panic(_) => 2,
                };
                (fnv64(&x.plain) ^ fnv64(&x.corr).rotate_left(17) ^ x.size as u64, rc)
            }
            streams::Outcome::Err(_) => (1, 0),
            streams::Outcome::Panic(_) => (2, 0),
        };
        println!("R {} {} {} {}", a.0, a.1, b.0, b.1);
    }
}

// ---------------------------------------------------------------------------------------

pub fn run(ctx: &Ctx, prop: &str) -> (Summary, String, String) {
    let seed = ctx.seed;
    let mut s = Summary::default();
    match prop {
        "C01" => {
            let corpus = corpus_files();
            merge(&mut s, run_cases(ctx, corpus.len() as u64, |i| c01_bytes(&corpus[i as usize].0, &corpus[i as usize].1, true)));
            let maxlen = if ctx.thorough() { 3 } else { 2 };
            merge(&mut s, exhaustive_short(ctx, maxlen, |d| c01_bytes(d, "exhaustive", false)));
            let n = ctx.n(1500, 60000);
            merge(&mut s, run_cases(ctx, n, |i| {
                let fc = file_case(seed ^ 0x01, i, *[3000usize, 3000, 20000, 70000].get((i % 4) as usize).unwrap());
                c01_bytes(&fc.bytes, &fc.label, i % 4 == 0)
            }));
            let lr = literal_run_files(&mut Rng::new(seed ^ 0x11e), ctx.thorough());
            let mut t = run_cases(ctx, lr.len() as u64, |i| {
                let mut c = c01_bytes(&lr[i as usize].bytes, &lr[i as usize].label, i % 3 == 0);
                c.requests.clear(); // too large for the line protocol; implementation oracle only
                c.tags.push("literal-run".into());
                c
            });
            t.samples.truncate(1);
            merge(&mut s, t);
            // truncation sweep of a few structured files
            let nsweep = ctx.n(6, 60);
            for k in 0..nsweep {
                let fc = file_case(seed ^ 0x0101, k, 2500);
                let cuts: Vec<usize> = (0..=fc.bytes.len()).rev().take(if ctx.thorough() { 4000 } else { 400 }).collect();
                let mut t = run_cases(ctx, cuts.len() as u64, |i| {
                    let mut c = c01_bytes(&fc.bytes[..cuts[i as usize]], &format!("truncation-sweep {}", fc.label), false);
                    c.sample = None;
                    c.tags.push("truncation-sweep".into());
                    c
                });
                t.samples.clear();
                merge(&mut s, t);
            }
            (s, "files assembled from zlib/gzip/zip/PNG-IDAT wrappers around streams of 4 real compressors and the independent generator, with junk and signature look-alikes, then truncated / bit-flipped / mutated; truncation at every offset of the tail of structured files; all byte strings of length <= 2 (quick) / <= 3 (thorough); every 4th file also through compress_zstd/decompress_zstd. Non-trivial = more than 4 bytes; distinct by file digest (expanded and literal-only counted apart).".into(), String::new())
        }
        "C06" => {
            let n = ctx.n(1200, 30000);
            merge(&mut s, run_cases(ctx, n, |i| c06_case(seed, i)));
            (s, "accepted streams with > 1024 bytes of plaintext x {4 zlib headers, 16 gzip flag subsets with random field contents, zip name/extra lengths, 4 IDAT chunkings} x prefixes/suffixes (empty, junk, look-alikes); premise 'no other acceptable stream overlaps' evaluated on the scanner's own probes. Non-trivial = premise held; distinct by file digest.".into(), String::new())
        }
        "C13" => {
            let n = ctx.n(500, 12000);
            // in slices, absorbed in index order (deterministic, bounded memory)
            let mut lo = 0u64;
            while lo < n {
                let hi = (lo + 1024).min(n);
                let next = std::sync::atomic::AtomicU64::new(lo);
                let acc = std::sync::Mutex::new(Vec::new());
                std::thread::scope(|sc| {
                    for _ in 0..ctx.threads {
                        sc.spawn(|| loop {
                            let i = next.fetch_add(1, std::sync::atomic::Ordering::Relaxed);
                            if i >= hi {
                                break;
                            }
                            let v = c13_case(seed, i, ctx.thorough());
                            acc.lock().unwrap().push((i, v));
                        });
                    }
                });
                let mut v = acc.into_inner().unwrap();
                v.sort_by_key(|x| x.0);
                for (_, cs) in v {
                    for c in cs {
                        s.absorb(c);
                    }
                }
                lo = hi;
            }
            // literal runs at the staging-buffer sizes, fragmented and with a late sink fault
            let lr = literal_run_files(&mut Rng::new(seed ^ 0x11e), ctx.thorough());
            let mut t = run_cases(ctx, lr.len() as u64, |i| {
                let f = &lr[i as usize].bytes;
                let mut r = Rng::new(seed ^ 0x13e ^ i);
                let mut out = CaseOut::default();
                if let Run::Done(Ok(c)) = guarded(|| expand_zlib_chunks(f, 0)) {
                    if matches!(recreate_plain(&c), Run::Done(Ok(ref g)) if g == f) {
                        let rs = random_sched(&mut r, 400, 2);
                        let ws = random_sched(&mut r, 400, 3);
                        out = c13_check(f, &c, &rs, &ws, None, None, &lr[i as usize].label);
                        let o = f.len() - 1 - r.below(70000.min(f.len() as u64 - 1)) as usize;
                        let o2 = c13_check(f, &c, &[], &[], None, Some(o), &lr[i as usize].label);
                        out.failures.extend(o2.failures);
                    }
                }
                out.requests.clear();
                out.tags.push("literal-run".into());
                out
            });
            t.samples.truncate(1);
            merge(&mut s, t);
            (s, "containers of the C01 generator that round-trip unfragmented x read schedules (1-byte, 1..7, large, with Interrupted) x write schedules (same, plus zero-length writes) x a hard error at every source/sink offset for containers <= 64 bytes and at sampled offsets otherwise. Checked: no panic; no error delivered => Ok and identical output; error delivered => Err and sink is a prefix. Non-trivial = container longer than the version byte; distinct by (container, schedules, fault offsets).".into(), String::new())
        }
        "C11" => {
            let n = ctx.n(500, 12000);
            merge(&mut s, run_cases(ctx, n, |i| c11_case(seed, i)));
            (s, "files of the C01 generator x capacities {size, size+1, size+k} (must return F) and {0, size-1, random < size} (must be Err) where size = expanded length measured per file; non-frames (the file itself, empty, half a frame, random bytes, frame with damaged magic). Non-trivial = file that the plain container path round-trips; distinct by file digest.".into(), String::new())
        }
        "C12" => {
            let n = ctx.n(400, 10000);
            // guard-byte checks are per call; run single-threaded per case but cases in parallel
            merge(&mut s, run_cases(ctx, n, |i| c12_case(seed, i)));
            // the property's size bound: a file whose expanded form is just below 128 MiB must come back
            // (skipped under the memory checker, where VH_SCALE_PERCENT < 100)
            if env_u32("VH_SCALE_PERCENT", 100) >= 100 {
                merge(&mut s, run_cases(ctx, 1, |_| c12_limit_probe()));
            }
            (s, "files of the C01 generator through WrapperCompressZip / WrapperDecompressZip with 64 guard bytes on both sides of the output buffer; capacities 0, 1, need-1, need, need+1, random below need (every capacity for outputs <= 48 bytes), for both calls; random non-container bytes as decompress input. Non-trivial = compress succeeded with a large buffer; distinct by file digest.".into(), String::new())
        }
        "C14" => {
            let s = c14_run(ctx);
            (s, "16 threads released by a barrier, each calling expand/recreate/decompress/recompress on 4 shared inputs and on randomly chosen distinct inputs, results compared with the sequential result; a second sequential pass; a second process computing the same digests. Non-trivial = one concurrent call; distinct by (input, thread, round).".into(), String::new())
        }
        "C04" => {
            let (s, extra) = crate::golden::run(ctx);
            (s, "golden corpus written by the reference build (pinned release, then once more after each recorded fix): every stored (plaintext, corrections) pair through the current recompress_deflate_stream and every stored container through the current recreated_zlib_chunks must reproduce the stored original; version constants compared. Non-trivial = every item; distinct by item digest.".into(), extra)
        }
        _ => unreachable!(),
    }
}

/// re-run the lines of a replay file against the implementation; true = no failure
pub fn replay(ctx: &Ctx, prop: &str, path: &str) -> bool {
    let text = std::fs::read_to_string(path).unwrap_or_default();
    let mut ok = true;
    let mut last_file: Option<Vec<u8>> = None;
    let mut report = |c: CaseOut| {
        for f in &c.failures {
            println!("FAIL {} {}: {}", f.kind, f.signature, f.detail);
            ok = false;
        }
    };
    let lines: Vec<&str> = text.lines().collect();
    // `file` lines that follow a `recreate` line are its expected original
    for (li, l) in lines.iter().enumerate() {
        let mut it = l.splitn(2, ' ');
        let kind = it.next().unwrap_or("");
        let rest = it.next().unwrap_or("");
        match kind {
            "stream" | "rewrite" | "parse" => {
                let d = unhex(rest.trim());
                let c = streams::Case { s: gen::StreamCase { bytes: d.clone(), label: "replay".into(), plain: None }, source: streams::Source::Own };
                match prop {
                    "C07" => report(streams::c07_case(&d, "replay")),
                    "C03" => report(streams::c03_case(&c, 0)),
                    "C05" => report(streams::c05_bytes(&d, "replay", false)),
                    "C08" => report(streams::c08_case(&c, &mut Rng::new(ctx.seed), 8, env_u32("VH_MAX_ADD_LIMIT", 255))),
                    _ => report(streams::c02_case(&c, &mut Rng::new(ctx.seed))),
                }
            }
            "params" => {
                let toks: Vec<&str> = rest.split(' ').collect();
                let v: Vec<u32> = toks[..toks.len() - 1].iter().map(|x| x.parse().unwrap()).collect();
                let d = unhex(toks[toks.len() - 1]);
                let mut c = CaseOut::default();
                match guarded(|| vh::analyze_with_params(&d, &v)) {
                    Run::Panic(p) => c.failures.push(Failure { kind: "oracle".into(), signature: format!("panic {}", panic_signature(&p)), detail: p, replay: String::new() }),
                    Run::Done(Ok(a)) => match guarded(|| preflate_rs::recompress_deflate_stream(&a.plain_text, &a.corrections)) {
                        Run::Done(Ok(y)) => {
                            if y[..] != d[..a.compressed_size.min(d.len())] {
                                c.failures.push(Failure { kind: "oracle".into(), signature: "reconstruction-differs".into(), detail: format!("{v:?}"), replay: String::new() });
                            }
                        }
                        Run::Done(Err(e)) => c.failures.push(Failure { kind: "oracle".into(), signature: "reconstruction-err".into(), detail: format!("{:?} {v:?}", e.exit_code()), replay: String::new() }),
                        Run::Panic(p) => c.failures.push(Failure { kind: "oracle".into(), signature: format!("reconstruction-panic {}", panic_signature(&p)), detail: p, replay: String::new() }),
                    },
                    Run::Done(Err(_)) => {}
                }
                if let Run::Done(Ok((_, reread))) = guarded(|| vh::params_roundtrip(&v)) {
                    if reread != v {
                        c.failures.push(Failure { kind: "oracle".into(), signature: "params-reread-differ".into(), detail: format!("{v:?} vs {reread:?}"), replay: String::new() });
                    }
                }
                report(c);
            }
            "codec" => report(crate::codec::case(&crate::codec::parse_ops(rest.trim()), "replay", false)),
            "file" => {
                let f = unhex(rest.trim());
                if li > 0 && lines[li - 1].starts_with("recreate ") {
                    continue;
                }
                last_file = Some(f.clone());
                match prop {
                    "C11" => {
                        report(c01_bytes(&f, "replay", true));
                        report(c11_file(f.clone(), "replay".into(), Rng::new(ctx.seed ^ 0x11)));
                    }
                    "C12" => {
                        report(c01_bytes(&f, "replay", true));
                        report(c12_file(f.clone(), "replay".into(), Rng::new(ctx.seed ^ 0x12)));
                    }
                    "C06" | "C14" => report(c01_bytes(&f, "replay", true)),
                    _ => report(c01_bytes(&f, "replay", true)),
                }
            }
            "zeros" => report(c12_limit_probe()),
            "recreate" => {
                let t: Vec<&str> = rest.split(' ').collect();
                let c = unhex(t[0]);
                let rs = parse_sched(t[1]);
                let ws = parse_sched(t[2]);
                let rf = t[3].parse().ok();
                let wf = t[4].parse().ok();
                let f = lines.get(li + 1).and_then(|l| l.strip_prefix("file ")).map(|h| unhex(h.trim())).unwrap_or_default();
                report(c13_check(&f, &c, &rs, &ws, rf, wf, "replay"));
            }
            _ => {}
        }
    }
    let _ = last_file;
    ok
}
