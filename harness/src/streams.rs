//! Stream-level properties: C02, C03, C05, C07, C08 (and the shared stream case source).
use crate::comp;
use crate::gen::{self, StreamCase};
use crate::util::{fnv64, guarded, hex, panic_signature, Rng, Run};
use crate::wire::{self, CaseOut, Failure};
use preflate_rs::verif_hooks as vh;
use preflate_rs::{decompress_deflate_stream, recompress_deflate_stream};

#[derive(Clone, Copy, PartialEq, Eq, Debug)]
pub enum Source {
    Real,
    Own,
    Mutated,
    Noise,
}

pub struct Case {
    pub s: StreamCase,
    pub source: Source,
}

/// the idx-th stream of the seeded sample
pub fn case(seed: u64, idx: u64, max_plain: usize, valid_only: bool) -> Case {
    let mut r = Rng::new(seed.wrapping_mul(0x9E3779B97F4A7C15) ^ idx.wrapping_mul(0xD1B54A32D192ED03));
    let k = r.below(100);
    if k < 40 {
        Case {
            s: gen::real_stream(&mut r, max_plain),
            source: Source::Real,
        }
    } else if k < 80 || valid_only {
        let (s, _, _) = gen::own_stream(&mut r, max_plain.min(40000));
        Case {
            s,
            source: Source::Own,
        }
    } else if k < 93 {
        let base = if r.chance(1, 2) {
            gen::real_stream(&mut r, 5000)
        } else {
            gen::own_stream(&mut r, 5000).0
        };
        let other = gen::own_stream(&mut r, 300).0;
        let bytes = gen::mutate(&mut r, &base.bytes, &other.bytes);
        Case {
            s: StreamCase {
                bytes,
                label: format!("mutated({})", base.label),
                plain: None,
            },
            source: Source::Mutated,
        }
    } else {
        Case {
            s: StreamCase {
                bytes: gen::noise_stream(&mut r),
                label: "noise".into(),
                plain: None,
            },
            source: Source::Noise,
        }
    }
}

fn replay_stream(tag: &str, d: &[u8]) -> String {
    format!("{tag} {}", hex(d))
}

pub struct Dec {
    pub plain: Vec<u8>,
    pub corr: Vec<u8>,
    pub size: usize,
}

pub enum Outcome {
    Ok(Dec),
    Err(String),
    Panic(String),
}

pub fn decompress(d: &[u8], verify: bool) -> Outcome {
    match guarded(|| decompress_deflate_stream(d, verify, 0)) {
        Run::Panic(p) => Outcome::Panic(p),
        Run::Done(Err(e)) => Outcome::Err(format!("{:?}", e.exit_code())),
        Run::Done(Ok(r)) => Outcome::Ok(Dec {
            plain: r.plain_text,
            corr: r.prediction_corrections,
            size: r.compressed_size,
        }),
    }
}

fn outcome_word(o: &Outcome) -> &'static str {
    match o {
        Outcome::Ok(_) => "ok",
        Outcome::Err(_) => "err",
        Outcome::Panic(_) => "panic",
    }
}

// ---------------------------------------------------------------------------------------
// C07: parse then re-serialise is the identity

pub fn c07_case(d: &[u8], label: &str) -> CaseOut {
    crate::util::in_flight(&replay_stream("rewrite", d));
    let mut out = CaseOut::default();
    let parsed = guarded(|| vh::parse(d));
    let resp = match &parsed {
        Run::Done(Ok(p)) => wire::parse_response(p),
        Run::Done(Err(_)) => "err".to_string(),
        Run::Panic(_) => "panic".to_string(),
    };
    out.requests.push((format!("parse {}", hex(d)), resp));
    match guarded(|| vh::parse_and_rewrite(d)) {
        Run::Done(Ok((rew, consumed, _plain))) => {
            out.requests.push((
                format!("rewrite {}", hex(d)),
                format!("ok {} {}", fnv64(&rew), consumed),
            ));
            out.tags.push("accepted".into());
            if consumed > d.len() || rew[..] != d[..consumed] {
                let at = rew
                    .iter()
                    .zip(d.iter())
                    .position(|(a, b)| a != b)
                    .unwrap_or(rew.len().min(d.len()));
                out.failures.push(Failure {
                    kind: "oracle".into(),
                    signature: "rewrite-differs".into(),
                    detail: format!(
                        "parse_and_rewrite output differs from input prefix at byte {at} (consumed {consumed}, rewritten {} bytes) [{label}]",
                        rew.len()
                    ),
                    replay: replay_stream("rewrite", d),
                });
            }
            if let Run::Done(Ok(p)) = &parsed {
                let mut key = fnv64(&d[..consumed.min(d.len())]);
                let mut feats = Vec::new();
                for b in &p.blocks {
                    match b.block_type {
                        0 => feats.push("dynamic"),
                        1 => feats.push("stored"),
                        _ => feats.push("fixed"),
                    }
                    if b.tokens.iter().any(|t| matches!(t, vh::Tok::Ref { irregular258: true, .. })) {
                        feats.push("irregular258");
                    }
                    if b.padding_bits != 0 {
                        feats.push("stored-padding");
                    }
                    if b.block_type != 1 && b.tokens.is_empty() {
                        feats.push("empty-block");
                    }
                }
                if p.eof_padding != 0 {
                    feats.push("eof-padding");
                }
                feats.sort();
                feats.dedup();
                for f in &feats {
                    out.tags.push((*f).into());
                }
                key ^= feats.len() as u64;
                out.nontrivial = Some(key);
                out.sample = Some(format!("{label}: {} -> blocks={} consumed={}", wire::short_hex(d), p.blocks.len(), consumed));
            }
        }
        Run::Done(Err(_)) => {
            out.requests.push((format!("rewrite {}", hex(d)), "err".into()));
            out.tags.push("rejected".into());
        }
        Run::Panic(p) => {
            out.requests.push((format!("rewrite {}", hex(d)), "panic".into()));
            out.failures.push(Failure {
                kind: "oracle".into(),
                signature: format!("panic {}", panic_signature(&p)),
                detail: format!("parse_and_rewrite panicked: {p} [{label}]"),
                replay: replay_stream("rewrite", d),
            });
        }
    }
    out
}

// ---------------------------------------------------------------------------------------
// C03: agreement with zlib's inflate

pub fn c03_case(c: &Case, idx: u64) -> CaseOut {
    let d = &c.s.bytes;
    crate::util::in_flight(&replay_stream("stream", d));
    let mut out = CaseOut::default();
    let verify = idx % 2 == 0;
    let imp = decompress(d, verify);
    let z = comp::zlib_inflate_raw(d, 1 << 28);
    out.requests.push((
        format!("spec {}", hex(d)),
        match &z {
            Some((p, n)) => format!("ok {} {}", fnv64(p), n),
            None => "reject".into(),
        },
    ));
    // the same stream through the independent RFC/zlib reading of the dynamic header (Model/SpecRFC.lean)
    out.requests.push((
        format!("specrfc {}", hex(d)),
        match &z {
            Some((p, n)) => format!("ok {} {}", fnv64(p), n),
            None => "reject".into(),
        },
    ));
    out.tags.push(format!("impl-{}", outcome_word(&imp)));
    out.tags.push(if z.is_some() { "zlib-ok".into() } else { "zlib-reject".into() });
    if let (Outcome::Ok(r), Some((zp, zn))) = (&imp, &z) {
        out.nontrivial = Some(fnv64(&d[..r.size.min(d.len())]));
        out.tags.push("both-accept".into());
        if r.plain != *zp || r.size != *zn {
            let at = r.plain.iter().zip(zp.iter()).position(|(a, b)| a != b);
            out.failures.push(Failure {
                kind: "oracle".into(),
                signature: if r.plain != *zp { "plaintext-differs".into() } else { "consumed-differs".into() },
                detail: format!(
                    "impl plain {} bytes size {}, zlib plain {} bytes total_in {}, first difference {:?} [{}]",
                    r.plain.len(), r.size, zp.len(), zn, at, c.s.label
                ),
                replay: replay_stream("stream", d),
            });
        }
        if let Some(p) = &c.s.plain {
            if c.source == Source::Real && r.plain != *p {
                out.failures.push(Failure {
                    kind: "oracle".into(),
                    signature: "plaintext-differs-from-compressor-input".into(),
                    detail: format!("[{}]", c.s.label),
                    replay: replay_stream("stream", d),
                });
            }
        }
        out.sample = Some(format!("{}: {} plain={} consumed={}", c.s.label, wire::short_hex(d), zp.len(), zn));
    }
    out
}

// ---------------------------------------------------------------------------------------
// C05: totality

pub fn c05_bytes(d: &[u8], label: &str, with_parse_request: bool) -> CaseOut {
    crate::util::in_flight(&replay_stream("stream", d));
    let mut out = CaseOut::default();
    if with_parse_request {
        let parsed = guarded(|| vh::parse(d));
        let resp = match &parsed {
            Run::Done(Ok(p)) => wire::parse_response(p),
            Run::Done(Err(_)) => "err".to_string(),
            Run::Panic(_) => "panic".to_string(),
        };
        out.requests.push((format!("parse {}", hex(d)), resp));
    }
    for verify in [true, false] {
        // CPU time of this thread, not wall-clock time: a loaded machine must not look like a slow library
        let t0 = crate::util::thread_cpu_secs();
        let o = decompress(d, verify);
        let dt = crate::util::thread_cpu_secs() - t0;
        out.tags.push(format!("v{}-{}", verify as u8, outcome_word(&o)));
        if let Outcome::Panic(p) = &o {
            out.failures.push(Failure {
                kind: "oracle".into(),
                signature: format!("panic {}", panic_signature(p)),
                detail: format!("decompress_deflate_stream(verify={verify}) panicked: {p} [{label}]"),
                replay: replay_stream("stream", d),
            });
        }
        // generous bound: 20 s plus 1 ms per input byte
        if dt > 20.0 + d.len() as f64 * 1e-3 {
            out.failures.push(Failure {
                kind: "oracle".into(),
                signature: "slow".into(),
                detail: format!("decompress_deflate_stream(verify={verify}) took {dt:.1}s on {} bytes [{label}]", d.len()),
                replay: replay_stream("stream", d),
            });
        }
        if let Outcome::Ok(_) = o {
            out.nontrivial = Some(fnv64(d));
        } else if d.len() > 3 {
            out.nontrivial = Some(fnv64(d) ^ 1);
        }
    }
    out.sample = Some(format!("{label}: {}", wire::short_hex(d)));
    out
}

// ---------------------------------------------------------------------------------------
// C02: split / reconstruct is exact

pub fn c02_case(c: &Case, r: &mut Rng) -> CaseOut {
    let d = &c.s.bytes;
    crate::util::in_flight(&replay_stream("stream", d));
    let label = &c.s.label;
    let mut out = CaseOut::default();
    let a = decompress(d, true);
    let b = decompress(d, false);
    out.tags.push(format!("verify-{}", outcome_word(&a)));
    out.tags.push(format!("noverify-{}", outcome_word(&b)));
    let fail = |sig: &str, detail: String| Failure {
        kind: "oracle".into(),
        signature: sig.into(),
        detail: format!("{detail} [{label}]"),
        replay: replay_stream("stream", d),
    };
    for (name, o) in [("verify=true", &a), ("verify=false", &b)] {
        match o {
            Outcome::Panic(p) => out.failures.push(fail(
                &format!("panic {}", panic_signature(p)),
                format!("decompress_deflate_stream({name}) panicked: {p}"),
            )),
            Outcome::Ok(x) => {
                if x.size > d.len() {
                    out.failures.push(fail("size-out-of-range", format!("{name}: compressed_size {} > input {}", x.size, d.len())));
                    continue;
                }
                match guarded(|| recompress_deflate_stream(&x.plain, &x.corr)) {
                    Run::Panic(p) => out.failures.push(fail(
                        &format!("recompress-panic {}", panic_signature(&p)),
                        format!("{name}: recompress_deflate_stream panicked: {p}"),
                    )),
                    Run::Done(Err(e)) => out.failures.push(fail(
                        "recompress-err",
                        format!("{name}: accepted, then recompress_deflate_stream returned Err({:?})", e.exit_code()),
                    )),
                    Run::Done(Ok(y)) => {
                        // the reconstruction side, line level: the model's byte-driven decoder
                        // (`recompressBytes`) on the code's plaintext and correction BYTES must
                        // return what the code's recompress_deflate_stream returned
                        if name == "verify=false" && x.plain.len() <= 12000 && d.len() <= 8000 {
                            out.requests.push((format!("recompress {} {}", hex(&x.plain), hex(&x.corr)), format!("ok {}", hex(&y))));
                        }
                        if y[..] != d[..x.size] {
                            let at = y.iter().zip(d.iter()).position(|(p, q)| p != q).unwrap_or(y.len().min(x.size));
                            out.failures.push(fail(
                                "reconstruction-differs",
                                format!("{name}: accepted, reconstructed {} bytes vs {} original, first difference at {at}", y.len(), x.size),
                            ));
                        }
                    }
                }
            }
            Outcome::Err(_) => {}
        }
    }
    match (&a, &b) {
        (Outcome::Ok(x), Outcome::Ok(y)) => {
            if x.plain != y.plain || x.corr != y.corr || x.size != y.size {
                out.failures.push(fail("verify-flag-changes-result", "both verify settings accept but results differ".into()));
            }
            out.nontrivial = Some(fnv64(&d[..x.size]));
            if x.corr.len() > 40 {
                out.tags.push("nondefault-corrections".into());
            }
            // model tie: the whole analysis under the estimator's parameters, byte for byte
            // the whole public function in the model (its own estimator, no vector from the code)
            if d.len() <= 20000 {
                out.requests.push((format!("public {}", hex(d)), format!("ok {} {} {}", x.size, x.corr.len(), fnv64(&x.corr))));
            }
            // the estimator's vector must lie in the Lean predicate EstimatorRange (hypothesis `hest`
            // of recompress_decompress / verify_same)
            if let Run::Done(Ok(v)) = guarded(|| vh::estimate(d)) {
                out.requests.push((format!("inrange {}", vec_str(&v)), "yes".into()));
            }
            if d.len() <= 6000 {
                if let Run::Done(Ok(v)) = guarded(|| vh::estimate(d)) {
                    out.requests.push((
                        format!("analyze {} {}", vec_str(&v), hex(d)),
                        format!("ok {} {} {} {} {}", x.size, "*", "*", x.corr.len(), fnv64(&x.corr)),
                    ));
                }
            }
            // suffix independence
            let mut d2 = d[..x.size].to_vec();
            if r.chance(1, 2) {
                let n = 1 + r.below(9);
                for _ in 0..n {
                    d2.push(r.next() as u8);
                }
            }
            if d2 != *d {
                match decompress(&d2, false) {
                    Outcome::Ok(z) if z.plain == x.plain && z.corr == x.corr && z.size == x.size => {}
                    other => out.failures.push(Failure {
                        kind: "oracle".into(),
                        signature: "suffix-dependence".into(),
                        detail: format!("result changed when bytes after compressed_size were replaced: now {} [{label}]", outcome_word(&other)),
                        replay: format!("{}\n{}", replay_stream("stream", d), replay_stream("stream", &d2)),
                    }),
                }
                out.tags.push("suffix-checked".into());
            }
            out.sample = Some(format!("{label}: {} size={} plain={} corr={}", wire::short_hex(d), x.size, x.plain.len(), x.corr.len()));
        }
        (Outcome::Err(_), Outcome::Err(_)) => {
            // rejected by the code: the model of the whole public function must reject it too
            if d.len() <= 20000 {
                out.requests.push((format!("public {}", hex(d)), "err".into()));
            }
        }
        (Outcome::Panic(_), _) | (_, Outcome::Panic(_)) => {}
        (x, y) => {
            out.failures.push(fail(
                "verify-flag-changes-outcome",
                format!("verify=true gives {}, verify=false gives {}", outcome_word(x), outcome_word(y)),
            ));
        }
    }
    out
}

// ---------------------------------------------------------------------------------------
// C08: any in-range parameter vector gives Err or exact reconstruction

pub const TOKEN_COUNTS: [u32; 10] = [127, 255, 511, 1023, 2047, 4095, 8191, 16383, 32767, 16386];

/// a parameter vector in the estimator's range (DESIGN.md C08 `EstimatorRange`), derived from `base`
pub fn perturb(r: &mut Rng, base: &[u32], max_limit: u32) -> Vec<u32> {
    let mut v = base.to_vec();
    let n = 1 + r.below(5);
    for _ in 0..n {
        match r.below(13) {
            0 => {
                // hash algorithm
                let alg = r.range(1, 7) as u32;
                v[4] = alg;
                if alg == 1 {
                    let (s, m) = *r.pick(&[(5u32, 32767u32), (4, 2047), (4, 4095), (5, 16383), (3, 511)]);
                    v[5] = s;
                    v[6] = m;
                } else {
                    v[5] = 0;
                    v[6] = 0;
                }
            }
            1 => {
                v[16] = r.below(5) as u32;
                v[17] = if v[16] == 1 || v[16] == 2 { r.range(0, max_limit as u64) as u32 } else { 0 };
            }
            2 => {
                if r.chance(1, 3) {
                    v[18] = 0;
                    v[11] = 0;
                    v[12] = 0;
                } else {
                    v[18] = 1;
                    let (g, l) = *r.pick(&[(4u32, 4u32), (8, 16), (8, 32), (32, 128), (32, 258), (3, 5), (1, 1), (258, 258)]);
                    v[11] = g;
                    v[12] = l;
                }
            }
            3 => v[13] = *r.pick(&[8u32, 16, 32, 128, 258, 3, 4, 100]),
            4 => v[14] = *r.pick(&[1u32, 2, 4, 8, 32, 128, 1024, 4096]),
            5 => v[3] = r.range(9, 15) as u32,
            6 => v[7] = *r.pick(&TOKEN_COUNTS),
            7 => v[2] ^= 1,
            8 => v[9] ^= 1,
            9 => v[10] ^= 1,
            10 => v[8] = *r.pick(&[0u32, 1, 100, 4095, 4096, 32768]),
            11 => v[1] = r.below(3) as u32,
            _ => v[0] = r.below(2) as u32,
        }
    }
    // keep dictionary-less strategies out unless the base had them
    if v[4] == 0 {
        v[4] = 1;
        v[5] = 5;
        v[6] = 32767;
    }
    if v[15] < 3 || v[15] > 258 {
        v[15] = 3;
    }
    if v[3] < 9 {
        v[3] = 15;
    }
    // the estimator pairs lazy matching with chain depths of at least 17; zlib-compatible lazy
    // matching quarters the depth for "good" matches, and a depth of 0 is outside its range
    if v[18] != 0 && v[2] != 0 && v[14] < 4 {
        v[14] = 4;
    }
    v
}

pub fn default_vec() -> Vec<u32> {
    vec![0, 0, 1, 15, 1, 5, 32767, 16383, 4096, 0, 0, 0, 0, 258, 128, 3, 0, 0, 0]
}

fn vec_str(v: &[u32]) -> String {
    v.iter().map(|x| x.to_string()).collect::<Vec<_>>().join(" ")
}

/// directed streams for the decision boundaries of the parameter estimator (property EST):
///  * chain depth of the chosen candidate at and around every `max_chain` row of the two level
///    tables (k earlier occurrences of a marker, a reference to the oldest), under "add all"
///    (slow table, lazy levels) and under a first-only policy (fast table), with 3- and 4-byte
///    minimum match length (the two candidate sets)
///  * the longest distance exactly at / around `window - MIN_LOOKAHEAD` at hop 0 and at a later hop
///    (very_far_matches_detected), for every window size
///  * a length-3 match at distance 4095 / 4096 / 4097 under "add all" (zlib_compatible)
///  * a match to the very first byte (matches_to_start_detected)
pub fn est_directed_streams(r: &mut Rng) -> Vec<(Vec<u8>, String)> {
    use crate::gen::*;
    struct B {
        p: Vec<u8>,
        t: Vec<Tk>,
    }
    impl B {
        fn lit(&mut self, b: u8) {
            self.p.push(b);
            self.t.push(Tk::Lit(b));
        }
        fn lits(&mut self, bs: &[u8]) {
            for &b in bs {
                self.lit(b);
            }
        }
        /// filler that never contains the marker bytes 1..=4
        fn filler(&mut self, r: &mut Rng, n: usize) {
            for _ in 0..n {
                let b = 5 + r.below(250) as u8;
                self.lit(b);
            }
        }
        fn reference(&mut self, len: usize, dist: usize) {
            let st = self.p.len() - dist;
            for i in 0..len {
                let b = self.p[st + i];
                self.p.push(b);
            }
            self.t.push(Tk::Ref { len: len as u32, dist: dist as u32, irregular: false });
        }
        /// a 258-byte match and a reference into its interior: the add-policy estimator answers
        /// "add all substrings" (the slow, lazy level table)
        fn force_add_all(&mut self, r: &mut Rng, len: usize) {
            self.filler(r, 300);
            self.reference(258, 280);
            self.filler(r, 40);
            let target = self.p.len() - 40 - 258 + 100;
            let d = self.p.len() - target;
            self.reference(len, d);
            self.filler(r, 20);
        }
    }
    let mut out = Vec::new();
    let finish = |r: &mut Rng, mut b: B, label: String, out: &mut Vec<(Vec<u8>, String)>| {
        b.filler(r, 20);
        let dynamic = r.chance(1, 3);
        out.push((encode_tokens(r, &b.t, dynamic), label));
    };
    // chain depths around the table rows
    let rows: [usize; 9] = [4, 8, 16, 32, 128, 256, 1024, 4096, 2];
    for &row in &rows {
        for delta in [-1i64, 0, 1, 2] {
            let k = (row as i64 + delta).max(1) as usize;
            for add_all in [false, true] {
                for len in [3usize, 4] {
                    let mut b = B { p: Vec::new(), t: Vec::new() };
                    b.filler(r, 10);
                    if add_all {
                        b.force_add_all(r, len);
                    }
                    let marker: Vec<u8> = vec![1, 2, 3, 4][..len].to_vec();
                    // k occurrences; spacing chosen so that the oldest stays inside the window
                    let gap = if k > 3000 { 3 } else if k > 1000 { 8 + r.below(8) as usize } else { 8 + r.below(40) as usize };
                    let first = b.p.len();
                    for _ in 0..k {
                        b.lits(&marker);
                        b.filler(r, gap);
                    }
                    let dist = b.p.len() - first;
                    if dist > 32768 {
                        continue;
                    }
                    b.reference(len, dist);
                    finish(r, b, format!("directed depth k={k} add_all={add_all} len={len}"), &mut out);
                }
            }
        }
    }
    // longest distance at the very-far threshold of each window size, at hop 0 and at hop 1
    for wbits in 9..=15usize {
        let w = 1usize << wbits;
        for delta in [-1i64, 0, 1] {
            for hop in [0usize, 1] {
                for len in [3usize, 4] {
                    let dist = (w as i64 - 262 + delta) as usize;
                    let mut b = B { p: Vec::new(), t: Vec::new() };
                    b.filler(r, 7);
                    let marker: Vec<u8> = vec![1, 2, 3, 4][..len].to_vec();
                    let first = b.p.len();
                    b.lits(&marker);
                    // `hop` further occurrences in between
                    let mid = dist / 2;
                    b.filler(r, mid - len);
                    if hop == 1 {
                        b.lits(&marker);
                    } else {
                        b.filler(r, len);
                    }
                    let have = b.p.len() - first;
                    b.filler(r, dist - have);
                    b.reference(len, dist);
                    finish(r, b, format!("directed far wbits={wbits} dist={dist} hop={hop} len={len}"), &mut out);
                }
            }
        }
    }
    // wbits 15: distances up to 32768 (beyond window - MIN_LOOKAHEAD)
    for dist in [32505usize, 32506, 32507, 32767, 32768] {
        for hop in [0usize, 1] {
            let mut b = B { p: Vec::new(), t: Vec::new() };
            b.filler(r, 9);
            let first = b.p.len();
            b.lits(&[1, 2, 3]);
            b.filler(r, 1000);
            if hop == 1 {
                b.lits(&[1, 2, 3]);
            }
            let have = b.p.len() - first;
            b.filler(r, dist - have);
            b.reference(3, dist);
            finish(r, b, format!("directed far15 dist={dist} hop={hop}"), &mut out);
        }
    }
    // length-3 match at distance 4095..4097 under add-all / not
    for dist in [4095usize, 4096, 4097] {
        for add_all in [false, true] {
            let mut b = B { p: Vec::new(), t: Vec::new() };
            b.filler(r, 10);
            if add_all {
                b.force_add_all(r, 3);
            }
            let first = b.p.len();
            b.lits(&[1, 2, 3]);
            b.filler(r, dist - 3);
            assert_eq!(b.p.len() - first, dist);
            b.reference(3, dist);
            finish(r, b, format!("directed len3 dist={dist} add_all={add_all}"), &mut out);
        }
    }
    // match to the first byte of the stream, alone and with other matches
    for len in [3usize, 4, 20] {
        for extra in [false, true] {
            let mut b = B { p: Vec::new(), t: Vec::new() };
            b.lits(&[1, 2, 3, 4]);
            let nfill = 30 + r.below(600) as usize;
            b.filler(r, nfill);
            if extra {
                b.reference(len.max(4), 17);
                b.filler(r, 5);
            }
            let d = b.p.len();
            b.reference(len.min(4), d);
            finish(r, b, format!("directed to-start len={len} extra={extra}"), &mut out);
        }
    }
    out
}

/// estimator correspondence only (property EST): one `estimatefull` request per parseable stream,
/// expected answer = the hook's complete vector or its outcome class
pub fn est_case(d: &[u8], label: &str, max_len: usize) -> CaseOut {
    let mut out = CaseOut::default();
    match guarded(|| vh::parse(d)) {
        Run::Done(Ok(_)) => {}
        Run::Done(Err(e)) => {
            out.tags.push("unparseable".into());
            out.tags.push(format!("unparseable: {} [{}]", e.chars().take(50).collect::<String>(), label.split(' ').next().unwrap_or("")));
            return out;
        }
        Run::Panic(_) => {
            out.tags.push("unparseable".into());
            out.tags.push("parse-panic".into());
            return out;
        }
    }
    let expected = match guarded(|| vh::estimate(d)) {
        Run::Done(Ok(v)) => {
            out.tags.push("estimate-ok".into());
            out.tags.push(format!("alg{} pol{} lazy{}", v[4], v[16], v[18]));
            if v[4] != 0 {
                out.nontrivial = Some(fnv64(d));
            }
            if out.sample.is_none() {
                out.sample = Some(format!("{label}: params={v:?}"));
            }
            format!("ok {}", vec_str(&v))
        }
        Run::Done(Err(_)) => {
            out.tags.push("estimate-err".into());
            "err".to_string()
        }
        Run::Panic(p) => {
            out.tags.push("estimate-panic".into());
            out.failures.push(Failure {
                kind: "oracle".into(),
                signature: format!("panic {}", panic_signature(&p)),
                detail: format!("estimator panicked: {p} [{label}]"),
                replay: format!("estimatefull {}", hex(d)),
            });
            "panic".to_string()
        }
    };
    if d.len() <= max_len {
        out.requests.push((format!("estimatefull {}", hex(d)), expected));
    } else {
        out.tags.push("too-long-for-model".into());
    }
    out
}

pub fn c08_case(c: &Case, r: &mut Rng, nperturb: usize, max_limit: u32) -> CaseOut {
    let d = &c.s.bytes;
    let label = &c.s.label;
    let mut out = CaseOut::default();
    let parsed_ok = matches!(guarded(|| vh::parse(d)), Run::Done(Ok(_)));
    if !parsed_ok {
        out.tags.push("unparseable".into());
        return out;
    }
    let est_run = guarded(|| vh::estimate(d));
    // the COMPLETE estimator (candidate hash tables, chain depths, level tables) against the model:
    // all 19 fields of the hook's vector, or the outcome class when there is no vector
    if d.len() <= 20000 {
        let expected = match &est_run {
            Run::Done(Ok(v)) => format!("ok {}", vec_str(v)),
            Run::Done(Err(_)) => "err".to_string(),
            Run::Panic(_) => "panic".to_string(),
        };
        out.requests.push((format!("estimatefull {}", hex(d)), expected));
    }
    let est = match est_run {
        Run::Done(Ok(v)) => {
            out.tags.push("estimate-ok".into());
            Some(v)
        }
        Run::Done(Err(_)) => {
            out.tags.push("estimate-err".into());
            None
        }
        Run::Panic(_) => {
            // C05's business; still try perturbations of a default vector
            out.tags.push("estimate-panic".into());
            None
        }
    };
    let mut vectors: Vec<(Vec<u32>, bool)> = Vec::new();
    if let Some(v) = &est {
        vectors.push((v.clone(), true));
        out.requests.push((format!("inrange {}", vec_str(v)), "yes".into()));
        // the front part of the estimator (strategy, window, block size, add policy) against the model
        if d.len() <= 20000 {
            out.requests.push((
                format!("estimate {}", hex(d)),
                format!("ok {} {} {} {} {} {}", v[0], v[1], v[3], v[7], v[16], v[17]),
            ));
        }
    }
    let base = est.clone().filter(|v| v[4] != 0).unwrap_or_else(default_vec);
    // every single-flag flip of the base vector (zlib_compatible, very_far_matches_detected,
    // matches_to_start_detected), then random multi-field perturbations
    for flag in [2usize, 9, 10] {
        let mut v = base.clone();
        v[flag] ^= 1;
        if v[18] != 0 && v[2] != 0 && v[14] < 4 {
            v[14] = 4;
        }
        vectors.push((v, false));
    }
    // zlib level 6 style lazy matching and plain greedy matching, whatever the estimator chose
    {
        let mut v = base.clone();
        v[18] = 1;
        v[11] = 8;
        v[12] = 16;
        v[13] = 128;
        v[14] = 128;
        vectors.push((v, false));
        let mut v = base.clone();
        v[18] = 0;
        v[11] = 0;
        v[12] = 0;
        vectors.push((v, false));
    }
    for _ in 0..nperturb {
        vectors.push((perturb(r, &base, max_limit), false));
    }
    // the panic-site checkers of the match finder (Model/ChainsSafe.lean) against the code, also OUTSIDE
    // the range the oracle judges: lazy + zlib_compatible matching with a chain depth below 4 (the
    // documented `max_chain -= 1` underflow) and an out-of-range zlib hash shift. The implementation's
    // outcome class (panic or not) is the expected answer; nothing here is an oracle failure.
    if d.len() <= 2500 {
        for k in 0..2u32 {
            let mut v = base.clone();
            if k == 0 {
                v[18] = 1;
                v[2] = 1;
                v[11] = 4;
                v[12] = 258;
                v[13] = 258;
                v[14] = 1 + r.below(3) as u32;
                v[16] = 0;
                v[17] = 0;
            } else {
                v[4] = 1;
                v[5] = 16 + r.below(8) as u32;
                v[6] = 32767;
            }
            let cls = match guarded(|| vh::analyze_with_params(d, &v)) {
                Run::Panic(_) => "panic",
                _ => "ok",
            };
            out.requests.push((format!("chk {} {}", vec_str(&v), hex(d)), cls.to_string()));
        }
    }
    for (v, is_est) in vectors {
        if d.len() <= 2500 {
            // in range: the checkers must say "no panic site reached" (and the oracle below agrees)
            out.requests.push((format!("chk {} {}", vec_str(&v), hex(d)), "ok".to_string()));
        }
        let replay = format!("params {} {}", vec_str(&v), hex(d));
        crate::util::in_flight(&replay);
        let analysis = guarded(|| vh::analyze_with_params(d, &v));
        if d.len() <= 2500 {
            let resp = match &analysis {
                Run::Panic(_) => "panic".to_string(),
                Run::Done(Err(_)) => "err".to_string(),
                Run::Done(Ok(a)) => format!("ok {} {} {} {} {}", a.compressed_size, a.ops.len(), wire::ops_fnv(&a.ops), a.corrections.len(), fnv64(&a.corrections)),
            };
            out.requests.push((format!("analyze {} {}", vec_str(&v), hex(d)), resp));
        }
        match analysis {
            Run::Panic(p) => {
                out.failures.push(Failure {
                    kind: "oracle".into(),
                    signature: format!("panic {}", panic_signature(&p)),
                    detail: format!("analysis under chosen parameters panicked: {p} params={v:?} [{label}]"),
                    replay,
                });
            }
            Run::Done(Err(_)) => {
                out.tags.push(if is_est { "est-err".into() } else { "perturbed-err".into() });
            }
            Run::Done(Ok(a)) => {
                out.tags.push(if is_est { "est-ok".into() } else { "perturbed-ok".into() });
                out.nontrivial = Some(fnv64(d) ^ fnv64(vec_str(&v).as_bytes()));
                // corrections exist: reconstruction from them must succeed and be exact
                match guarded(|| recompress_deflate_stream(&a.plain_text, &a.corrections)) {
                    Run::Panic(p) => out.failures.push(Failure {
                        kind: "oracle".into(),
                        signature: format!("reconstruction-panic {}", panic_signature(&p)),
                        detail: format!("corrections were produced under params {v:?} but reconstruction panicked: {p} [{label}]"),
                        replay: replay.clone(),
                    }),
                    Run::Done(Err(e)) => out.failures.push(Failure {
                        kind: "oracle".into(),
                        signature: "reconstruction-err".into(),
                        detail: format!("corrections ({} bytes) were produced under params {v:?} but reconstruction returned Err({:?}) [{label}]", a.corrections.len(), e.exit_code()),
                        replay: replay.clone(),
                    }),
                    Run::Done(Ok(y)) => {
                        if a.compressed_size > d.len() || y[..] != d[..a.compressed_size] {
                            out.failures.push(Failure {
                                kind: "oracle".into(),
                                signature: "reconstruction-differs".into(),
                                detail: format!("reconstruction under params {v:?} differs from the original stream [{label}]"),
                                replay: replay.clone(),
                            });
                        }
                    }
                }
                match guarded(|| vh::params_roundtrip(&v)) {
                    Run::Done(Ok((_, reread))) => {
                        if reread != v {
                            out.failures.push(Failure {
                                kind: "oracle".into(),
                                signature: "params-reread-differ".into(),
                                detail: format!("written {v:?} re-read {reread:?} [{label}]"),
                                replay,
                            });
                        }
                    }
                    Run::Done(Err(e)) => out.failures.push(Failure {
                        kind: "oracle".into(),
                        signature: "params-reread-err".into(),
                        detail: format!("parameter header of {v:?} could not be read back: {e} [{label}]"),
                        replay,
                    }),
                    Run::Panic(p) => out.failures.push(Failure {
                        kind: "oracle".into(),
                        signature: format!("params-panic {}", panic_signature(&p)),
                        detail: format!("parameter header round trip panicked: {p} [{label}]"),
                        replay,
                    }),
                }
                if out.sample.is_none() {
                    out.sample = Some(format!("{label}: params={v:?} corr={} bytes", a.corrections.len()));
                }
            }
        }
    }
    out
}

// ---------------------------------------------------------------------------------------
// directed generators

/// streams that together contain every (length, distance-set) token; `full` = all distances
pub fn token_alphabet_streams(r: &mut Rng, full: bool, part: u64, parts: u64) -> Vec<(Vec<u8>, String)> {
    use crate::gen::*;
    let mut dists: Vec<u32> = Vec::new();
    if full {
        dists.extend(1..=32768u32);
    } else {
        dists.extend([1u32, 2, 3, 4]);
        for c in 0..30 {
            let b = DIST_BASE[c];
            for d in [b.saturating_sub(1), b, b + 1, b + (1 << DIST_EXTRA[c]) - 1] {
                if (1..=32768).contains(&d) {
                    dists.push(d);
                }
            }
        }
        dists.push(32768);
        dists.sort();
        dists.dedup();
    }
    let dists: Vec<u32> = dists.into_iter().enumerate().filter(|(i, _)| (*i as u64) % parts == part).map(|(_, d)| d).collect();
    let mut out = Vec::new();
    // a 32 KiB + literal preamble so every distance is legal
    let pre: Vec<u8> = (0..32768 + 300).map(|i| ((i * 7 + i / 251) % 251) as u8).collect();
    let mut pairs: Vec<(u32, u32, bool)> = Vec::new();
    for &d in &dists {
        for len in 3..=258u32 {
            pairs.push((len, d, false));
        }
        pairs.push((258, d, true));
    }
    for (ci, chunk) in pairs.chunks(12000).enumerate() {
        for dynamic in [false, true] {
            // build plaintext by executing the tokens
            let mut p = pre.clone();
            let mut toks: Vec<Tk> = pre.iter().map(|&b| Tk::Lit(b)).collect();
            for &(len, dist, irregular) in chunk {
                let st = p.len() - dist as usize;
                for i in 0..len as usize {
                    let b = p[st + i];
                    p.push(b);
                }
                toks.push(Tk::Ref { len, dist, irregular });
            }
            let bytes = encode_tokens(r, &toks, dynamic);
            out.push((bytes, format!("alphabet chunk {ci} dynamic={dynamic} pairs={}", chunk.len())));
        }
    }
    out
}

/// one block (fixed, or dynamic with a random complete code) holding exactly `toks`
pub fn encode_tokens(r: &mut Rng, toks: &[crate::gen::Tk], dynamic: bool) -> Vec<u8> {
    let mut w = crate::gen::BitW::new();
    write_token_block(&mut w, r, toks, dynamic, true);
    w.pad(0);
    w.out
}

/// a block of a multi-block stream
pub enum Blk {
    Tokens(Vec<crate::gen::Tk>, bool),
    Stored(Vec<u8>),
}

/// several blocks in a row (the last one final); stored blocks up to 65535 bytes
pub fn encode_blocks(r: &mut Rng, blocks: &[Blk]) -> Vec<u8> {
    let mut w = crate::gen::BitW::new();
    for (i, b) in blocks.iter().enumerate() {
        let last = i + 1 == blocks.len();
        match b {
            Blk::Tokens(t, dynamic) => write_token_block(&mut w, r, t, *dynamic, last),
            Blk::Stored(data) => {
                assert!(data.len() <= 65535);
                w.bits(last as u32, 1);
                w.bits(0, 2);
                w.pad(0);
                w.bits(data.len() as u32, 16);
                w.bits(!(data.len() as u32) & 0xffff, 16);
                for &x in data {
                    w.bits(x as u32, 8);
                }
            }
        }
    }
    w.pad(0);
    w.out
}

fn write_token_block(w: &mut crate::gen::BitW, r: &mut Rng, toks: &[crate::gen::Tk], dynamic: bool, last: bool) {
    use crate::gen::*;
    w.bits(last as u32, 1);
    let (ll, dl) = if dynamic {
        let mut must_ll = vec![256usize];
        let mut must_d = Vec::new();
        for t in toks {
            match *t {
                Tk::Lit(b) => must_ll.push(b as usize),
                Tk::Ref { len, dist, irregular } => {
                    must_ll.push(if irregular { 284 } else { 257 + len_code(len) });
                    must_d.push(dist_code(dist));
                }
            }
        }
        (
            random_complete_code(r, 286, &must_ll, 0, 15).unwrap(),
            random_complete_code(r, 30, &must_d, 0, 15).unwrap(),
        )
    } else {
        fixed_lengths()
    };
    let llc = canonical(&ll);
    let dc = canonical(&dl);
    if dynamic {
        w.bits(2, 2);
        let hlit = (ll.iter().rposition(|&x| x != 0).unwrap() + 1).max(257);
        let hdist = dl.iter().rposition(|&x| x != 0).unwrap() + 1;
        let mut comb: Vec<u8> = ll[..hlit].to_vec();
        comb.extend_from_slice(&dl[..hdist]);
        // plain (no run-length) header with a flat 5-bit... use a complete code over used lengths
        let mut must_cl: Vec<usize> = comb.iter().map(|&x| x as usize).collect();
        must_cl.sort();
        must_cl.dedup();
        let cl = random_complete_code(r, 19, &must_cl, 0, 7).unwrap();
        let clc = canonical(&cl);
        let hclen = (CL_ORDER.iter().rposition(|&s| cl[s] != 0).unwrap() + 1).max(4);
        w.bits(hlit as u32 - 257, 5);
        w.bits(hdist as u32 - 1, 5);
        w.bits(hclen as u32 - 4, 4);
        for i in 0..hclen {
            w.bits(cl[CL_ORDER[i]] as u32, 3);
        }
        for &x in &comb {
            w.code(clc[x as usize], cl[x as usize] as u32);
        }
    } else {
        w.bits(1, 2);
    }
    for t in toks {
        match *t {
            Tk::Lit(b) => w.code(llc[b as usize], ll[b as usize] as u32),
            Tk::Ref { len, dist, irregular } => {
                if irregular {
                    w.code(llc[284], ll[284] as u32);
                    w.bits(31, 5);
                } else {
                    let c = len_code(len);
                    w.code(llc[257 + c], ll[257 + c] as u32);
                    w.bits(len - LEN_BASE[c], LEN_EXTRA[c]);
                }
                let dcd = dist_code(dist);
                w.code(dc[dcd], dl[dcd] as u32);
                w.bits(dist - DIST_BASE[dcd], DIST_EXTRA[dcd]);
            }
        }
    }
    w.code(llc[256], ll[256] as u32);
}

/// long stored blocks between Huffman blocks that contain matches: a stored block is fed to the hash
/// chains byte by byte like everything else, and a block of 32..64 KiB carries the chain positions
/// across one or two reshift thresholds and the whole window in one go. Layout: a Huffman block with
/// short- and long-distance matches, 1..3 stored blocks (lengths around the window sizes, the reshift
/// period and the 65535 maximum), then a Huffman block whose matches point into the stored data, at
/// its start, its end, and (where the window allows) in front of it.
pub fn stored_long_streams(r: &mut Rng, thorough: bool) -> Vec<(Vec<u8>, String)> {
    use crate::gen::*;
    let mut out = Vec::new();
    let lens: Vec<Vec<usize>> = if thorough {
        vec![vec![600], vec![5000], vec![32768], vec![33000], vec![65535], vec![65535, 65535], vec![65535, 1], vec![40000, 30000],
             vec![0x7e00], vec![0xfe00], vec![0xfe08], vec![65535, 65535, 65535], vec![1, 65535], vec![32767, 32769]]
    } else {
        vec![vec![600], vec![33000], vec![65535], vec![65535, 65535], vec![40000, 30000]]
    };
    for (li, ls) in lens.iter().enumerate() {
        for variant in 0..(if thorough { 6 } else { 3 }) {
            let mut p: Vec<u8> = Vec::new();
            let mut blocks: Vec<Blk> = Vec::new();
            let push_ref = |p: &mut Vec<u8>, toks: &mut Vec<Tk>, len: usize, dist: usize| {
                let st = p.len() - dist;
                for i in 0..len {
                    let b = p[st + i];
                    p.push(b);
                }
                toks.push(Tk::Ref { len: len as u32, dist: dist as u32, irregular: false });
            };
            // block A: some text, a short-distance match, optionally a far one
            let pre = if variant % 3 == 0 { 40 } else if variant % 3 == 1 { 3000 } else { 36000 };
            let a = plain_sized(r, pre);
            let mut toks: Vec<Tk> = Vec::new();
            for &b in &a {
                p.push(b);
                toks.push(Tk::Lit(b));
            }
            while p.len() < 8 {
                p.push(b'a' + (p.len() % 5) as u8);
                toks.push(Tk::Lit(*p.last().unwrap()));
            }
            push_ref(&mut p, &mut toks, 3 + (variant % 4), 3);
            if p.len() > 2000 && variant % 2 == 1 {
                let d = p.len() - 7;
                push_ref(&mut p, &mut toks, 20, d.min(32768));
            }
            blocks.push(Blk::Tokens(toks, variant % 2 == 1));
            // stored blocks
            let stored_start = p.len();
            for &l in ls {
                let data: Vec<u8> = if variant >= 3 { plain_sized(r, l).into_iter().chain(std::iter::repeat(b'q')).take(l).collect() }
                                    else { (0..l).map(|_| r.below(256) as u8).collect() };
                p.extend_from_slice(&data);
                blocks.push(Blk::Stored(data));
            }
            let stored_end = p.len();
            // block C: matches into the stored data and around it
            let mut toks: Vec<Tk> = Vec::new();
            // half of the variants keep every distance short, so that the estimated window is the
            // smallest one and a long stored block is many windows long
            let near_only = variant % 2 == 0;
            let mut cands: Vec<usize> = vec![3, 258.min(stored_end - stored_start).max(3), 5, 100.min(p.len())];
            if !near_only {
                cands.push((stored_end - stored_start).min(32768));
                if stored_end - stored_start + 5 <= 32768 {
                    cands.push(stored_end - stored_start + 5); // in front of the stored data
                }
                cands.push(32768.min(p.len()));
                cands.push(32507.min(p.len()));
            }
            for (k, &d) in cands.iter().enumerate() {
                let d = d.max(1).min(p.len());
                let len = [3usize, 4, 11, 258, 100][k % 5].min(258);
                push_ref(&mut p, &mut toks, len, d);
                let b = b'A' + (k as u8);
                p.push(b);
                toks.push(Tk::Lit(b));
            }
            for &b in &plain_sized(r, 200) {
                p.push(b);
                toks.push(Tk::Lit(b));
            }
            blocks.push(Blk::Tokens(toks, variant % 2 == 0));
            out.push((encode_blocks(r, &blocks), format!("stored-long lens={:?} variant={variant} family={li}", ls)));
        }
    }
    out
}


/// streams whose long matches start at positions where the predictor's position arithmetic changes
/// regime: around the hash-chain reshift threshold (internal position 0xfe08, first reached at
/// plaintext offset 0xfe00 and then every 0x7e00 bytes), the u16 limit, the 32 KiB window and the
/// 4 KiB / 32 KiB add-policy boundaries. A maximum-length match at the position, a literal, a short
/// match right behind it (so that lazy matching looks one byte ahead), then a tail.
pub fn boundary_streams(r: &mut Rng, thorough: bool) -> Vec<(Vec<u8>, String)> {
    use crate::gen::*;
    let mut centres: Vec<usize> = vec![0xfe00, 0xfefd - 8, 0x10000 - 8, 0xfe00 + 0x7e00, 32768 - 0x106, 4096];
    if thorough {
        centres.extend([0xfe08, 0x10000, 32768, 8192, 0xfefd - 8 + 0x7e00, 0xfe00 + 2 * 0x7e00, 0xfefd - 8 + 2 * 0x7e00, 3 * 32768]);
    }
    let mut out = Vec::new();
    for &c in &centres {
        let span: Vec<i64> = if thorough { (-12..=12).collect() } else { vec![-8, -2, -1, 0, 1, 2, 8] };
        for (off, variant) in span.iter().flat_map(|&o| [(o, 0), (o, 1)]) {
            let pos = (c as i64 + off).max(600) as usize;
            // prefix: text with a planted 300-byte block near its start that the long match copies
            let mut p = plain_sized(r, pos);
            if p.len() < pos {
                p.resize(pos, b'x');
            }
            for v in p.iter_mut() {
                if *v == 0 {
                    *v = 1;
                }
            }
            let mut toks: Vec<Tk> = p.iter().map(|&b| Tk::Lit(b)).collect();
            // early on: a maximum-length match and a later reference into its interior, which makes
            // the estimator choose "add all substrings" and with it the lazy-matching levels
            if pos > 2000 && off % 2 == 0 {
                let mut q: Vec<u8> = p[..300].to_vec();
                let mut tk: Vec<Tk> = q.iter().map(|&b| Tk::Lit(b)).collect();
                for i in 0..258 {
                    let b = q[20 + i];
                    q.push(b);
                }
                tk.push(Tk::Ref { len: 258, dist: 280, irregular: false });
                for &b in &p[558..700] {
                    q.push(b);
                    tk.push(Tk::Lit(b));
                }
                // copy 6 bytes from the interior of the long match (its 100th byte)
                let target = 300 + 100;
                let d = q.len() - target;
                for i in 0..3 {
                    let b = q[target + i];
                    q.push(b);
                }
                tk.push(Tk::Ref { len: 3, dist: d as u32, irregular: false });
                let rest = pos - q.len();
                let filler = plain_sized(r, rest);
                for &b in &filler {
                    let b = if b == 0 { 1 } else { b };
                    q.push(b);
                    tk.push(Tk::Lit(b));
                }
                p = q;
                toks = tk;
            }
            let dist = *r.pick(&[300usize, 517, 4000, 20000, 32768]).min(&pos);
            let dist = dist.max(259).min(pos).min(32768);
            let push_ref = |p: &mut Vec<u8>, toks: &mut Vec<Tk>, len: usize, dist: usize| {
                let st = p.len() - dist;
                for i in 0..len {
                    let b = p[st + i];
                    p.push(b);
                }
                toks.push(Tk::Ref { len: len as u32, dist: dist as u32, irregular: false });
            };
            push_ref(&mut p, &mut toks, 258, dist);
            if variant == 1 {
                p.push(0);
                toks.push(Tk::Lit(0));
            }
            let short = *r.pick(&[3usize, 3, 3, 4, 5, 8, 12]);
            push_ref(&mut p, &mut toks, short, dist.min(700).max(short + 1));
            let tail = plain_sized(r, 400);
            for &b in &tail {
                p.push(b);
                toks.push(Tk::Lit(b));
            }
            let dynamic = r.chance(1, 2);
            out.push((encode_tokens(r, &toks, dynamic), format!("boundary pos={pos} dist={dist} short={short} variant={variant}")));
        }
    }
    out
}

/// zlib with lazy matching (levels 4..9) and tiny blocks (memLevel 1..2) over match-rich inputs of
/// 30..70 KB: many block boundaries fall right after a "lazy" literal, i.e. while the predictor
/// holds a pending match — state that must be handled identically by analysis and reconstruction
pub fn lazy_small_block_case(seed: u64, idx: u64) -> Case {
    let mut r = Rng::new(seed.wrapping_mul(0x9E3779B97F4A7C15) ^ idx.wrapping_mul(0xC2B2AE3D27D4EB4F) ^ 0x1a2);
    let n = r.range(30000, 70000) as usize;
    // a long chunk repeated three times first (matches of 258 and references into their interior make
    // the estimator pick "add all substrings" and with it the lazy, zlib-compatible levels), then a
    // word soup with phrases copied from earlier text with small mutations
    let mut p: Vec<u8> = Vec::with_capacity(n);
    let chunk: Vec<u8> = (0..700).map(|_| b'a' + r.below(20) as u8).collect();
    for _ in 0..3 {
        p.extend_from_slice(&chunk);
        p.push(b'#');
    }
    let nwords = 20 + r.below(60) as usize;
    let alpha = 4 + r.below(8);
    let words: Vec<Vec<u8>> = (0..nwords).map(|_| { let l = 2 + r.below(9); (0..l).map(|_| b'a' + r.below(alpha) as u8).collect() }).collect();
    while p.len() < n {
        if r.chance(1, 4) && p.len() > 50 {
            let l = 8 + r.below(40) as usize;
            let start = r.below((p.len() - l.min(p.len() - 1)) as u64) as usize;
            let mut phrase: Vec<u8> = p[start..(start + l).min(p.len())].to_vec();
            if r.chance(1, 2) && !phrase.is_empty() {
                let i = r.below(phrase.len() as u64) as usize;
                phrase[i] = b'A' + r.below(26) as u8;
            }
            p.extend_from_slice(&phrase);
        } else {
            p.extend_from_slice(&words[r.below(nwords as u64) as usize]);
            p.push(b' ');
        }
    }
    p.truncate(n);
    let level = r.range(4, 9) as i32;
    let mem = r.range(1, 2) as i32;
    let bytes = crate::comp::zlib_deflate(&p, level, 0, 15, mem, 0, 0);
    Case { s: StreamCase { bytes, label: format!("zlib-lazy-small-blocks l{level} m{mem} n{n}"), plain: Some(p) }, source: Source::Real }
}

/// consecutive dynamic blocks that transmit the SAME code length list but split it differently
/// between the literal/length and the distance alphabet (HLIT + k, HDIST - k), with stored / fixed
/// blocks optionally in between: state carried from one block's tables to the next shows here
pub fn split_shift_streams(r: &mut Rng) -> Vec<(Vec<u8>, String)> {
    use crate::gen::*;
    let mut out = Vec::new();
    for k in 1..=3usize {
        for kk in 0..=k {
            for between in 0..3 {
                // literal/length: 'a', 'b', end of block, length code 257 (= 3 bytes), all 2 bits
                let hlit1 = 258usize;
                let mut comb = vec![0u8; hlit1];
                for s in [97usize, 98, 256, 257] {
                    comb[s] = 2;
                }
                // distance: k unused codes, then two 1-bit codes
                comb.extend(std::iter::repeat(0u8).take(k));
                comb.extend([1u8, 1]);
                let cl_len = {
                    let mut cl = vec![0u8; 19];
                    cl[0] = 1;
                    cl[1] = 2;
                    cl[2] = 2;
                    cl
                };
                let clc = canonical(&cl_len);
                let hclen = (CL_ORDER.iter().rposition(|&s| cl_len[s] != 0).unwrap() + 1).max(4);
                let mut w = BitW::new();
                let mut plain: Vec<u8> = Vec::new();
                let mut emit_block = |w: &mut BitW, plain: &mut Vec<u8>, hlit: usize, last: bool, r: &mut Rng| {
                    let ll = &comb[..hlit];
                    let dl = &comb[hlit..];
                    let llc = canonical(ll);
                    let dc = canonical(dl);
                    w.bits(last as u32, 1);
                    w.bits(2, 2);
                    w.bits(hlit as u32 - 257, 5);
                    w.bits(dl.len() as u32 - 1, 5);
                    w.bits(hclen as u32 - 4, 4);
                    for i in 0..hclen {
                        w.bits(cl_len[CL_ORDER[i]] as u32, 3);
                    }
                    for &x in comb.iter() {
                        w.code(clc[x as usize], cl_len[x as usize] as u32);
                    }
                    let first_d = dl.iter().position(|&x| x != 0).unwrap();
                    for _ in 0..6 {
                        let b = if r.chance(1, 2) { 97u8 } else { 98 };
                        w.code(llc[b as usize], 2);
                        plain.push(b);
                    }
                    for _ in 0..4 {
                        let dcode = first_d + r.below(2) as usize;
                        let dist = DIST_BASE[dcode] + r.below(1 << DIST_EXTRA[dcode]) as u32;
                        if dist as usize > plain.len() {
                            continue;
                        }
                        w.code(llc[257], 2);
                        w.code(dc[dcode], 1);
                        w.bits(dist - DIST_BASE[dcode], DIST_EXTRA[dcode]);
                        for _ in 0..3 {
                            let b = plain[plain.len() - dist as usize];
                            plain.push(b);
                        }
                        let b = if r.chance(1, 2) { 97u8 } else { 98 };
                        w.code(llc[b as usize], 2);
                        plain.push(b);
                    }
                    w.code(llc[256], 2);
                };
                emit_block(&mut w, &mut plain, hlit1, false, r);
                match between {
                    1 => {
                        // an empty stored block
                        w.bits(0, 1);
                        w.bits(0, 2);
                        w.pad(0);
                        w.bits(0, 16);
                        w.bits(0xffff, 16);
                    }
                    2 => {
                        // a fixed block with one literal
                        w.bits(0, 1);
                        w.bits(1, 2);
                        let (fl, _) = fixed_lengths();
                        let flc = canonical(&fl);
                        w.code(flc[97], fl[97] as u32);
                        plain.push(97);
                        w.code(flc[256], 7);
                    }
                    _ => {}
                }
                emit_block(&mut w, &mut plain, hlit1 + kk, true, r);
                w.pad(0);
                out.push((w.out.clone(), format!("split-shift k={k} second-hlit=+{kk} between={between}")));
            }
        }
    }
    out
}

/// all 256 final-padding patterns at every bit offset
pub fn padding_streams() -> Vec<(Vec<u8>, String)> {
    use crate::gen::*;
    let mut out = Vec::new();
    for nlit in 0..8usize {
        for fill in 0..=255u8 {
            let mut w = BitW::new();
            w.bits(1, 1);
            w.bits(1, 2);
            let (ll, _) = fixed_lengths();
            let llc = canonical(&ll);
            // literals 144.. have 9-bit codes, 0..143 have 8-bit: mix to move the bit offset
            for i in 0..nlit {
                let b = if i % 2 == 0 { 200 } else { 65 };
                w.code(llc[b], ll[b] as u32);
            }
            w.code(llc[256], 7);
            w.pad(fill);
            out.push((w.out, format!("padding nlit={nlit} fill={fill:#x}")));
        }
    }
    out
}
