//! vh — verification harness for preflate-rs (see /verif/DESIGN.md §4.2).
//!
//! vh <PROPERTY> --tier quick|thorough --seed N --out DIR [--budget N]
//! vh replay <PROPERTY> <file>
//! vh golden-gen <dir> / vh golden-check <dir>
mod codec;
mod comp;
mod container;
mod gen;
mod golden;
mod streams;
mod util;
mod wire;

use std::io::Write;
use std::sync::atomic::{AtomicU64, Ordering};
use std::sync::Mutex;
use util::Rng;
use wire::{CaseOut, Summary};

pub struct Ctx {
    pub tier: String,
    pub seed: u64,
    pub out: String,
    /// multiplier on sample sizes (raised when the code under a property was edited)
    pub boost: u64,
    pub threads: usize,
}

impl Ctx {
    pub fn thorough(&self) -> bool {
        self.tier == "thorough"
    }
    pub fn n(&self, quick: u64, thorough: u64) -> u64 {
        // VH_SCALE_PERCENT shrinks every budget (memory-checker runs are 20-50x slower)
        let pct = container::env_u32("VH_SCALE_PERCENT", 100) as u64;
        ((if self.thorough() { thorough } else { quick }) * self.boost * pct / 100).max(1)
    }
}

pub fn run_cases(ctx: &Ctx, n: u64, f: impl Fn(u64) -> CaseOut + Sync) -> Summary {
    // in slices of a few thousand indices, so that the results of a deep run are absorbed (and their
    // requests thinned) as they come instead of being held until the end; results are absorbed in
    // index order, so the outcome does not depend on thread scheduling
    let mut s = Summary::default();
    let slice = 4096u64;
    let mut lo = 0u64;
    while lo < n {
        let hi = (lo + slice).min(n);
        let next = AtomicU64::new(lo);
        let results: Mutex<Vec<(u64, CaseOut)>> = Mutex::new(Vec::new());
        std::thread::scope(|sc| {
            for _ in 0..ctx.threads {
                sc.spawn(|| loop {
                    let i = next.fetch_add(1, Ordering::Relaxed);
                    if i >= hi {
                        break;
                    }
                    let c = f(i);
                    util::done_flight();
                    results.lock().unwrap().push((i, c));
                });
            }
        });
        let mut v = results.into_inner().unwrap();
        v.sort_by_key(|x| x.0);
        for (_, c) in v {
            s.absorb(c);
        }
        lo = hi;
    }
    s
}

pub fn merge(a: &mut Summary, b: Summary) {
    a.evaluations += b.evaluations;
    a.nontrivial_keys.extend(b.nontrivial_keys);
    for (k, v) in b.tags {
        *a.tags.entry(k).or_insert(0) += v;
    }
    a.failures.extend(b.failures);
    for s in b.samples {
        if a.samples.len() < 8 {
            a.samples.push(s);
        }
    }
    for r in b.requests {
        a.push_request(r);
    }
}

fn write_summary(ctx: &Ctx, prop: &str, s: &Summary, rule: &str, extra: &str) {
    std::fs::create_dir_all(&ctx.out).unwrap();
    let mut rq = std::io::BufWriter::new(std::fs::File::create(format!("{}/requests.txt", ctx.out)).unwrap());
    let mut im = std::io::BufWriter::new(std::fs::File::create(format!("{}/impl.txt", ctx.out)).unwrap());
    // the model driver answers every request; keep its share of a run bounded by count and by
    // volume. Over the bound the requests are thinned by a fixed stride (deterministic, and every
    // generator family and request kind keeps its share) rather than cut off at the end.
    let (max_n, max_bytes) = if ctx.thorough() { (160000usize, 2_000_000_000usize) } else { (30000, 400_000_000) };
    let total_bytes: usize = s.requests.iter().map(|(a, _)| a.len()).sum();
    let stride = std::cmp::max((s.requests.len() + max_n - 1) / max_n.max(1), (total_bytes + max_bytes - 1) / max_bytes.max(1)).max(1);
    let mut written = 0usize;
    for (i, (a, b)) in s.requests.iter().enumerate() {
        if i % stride != 0 {
            continue;
        }
        written += 1;
        writeln!(rq, "{a}").unwrap();
        writeln!(im, "{b}").unwrap();
    }
    let mut j = String::new();
    j.push_str("{\n");
    j.push_str(&format!(" \"property\": {},\n", wire::json_str(prop)));
    j.push_str(&format!(" \"tier\": {},\n \"seed\": {},\n", wire::json_str(&ctx.tier), ctx.seed));
    j.push_str(&format!(" \"evaluations\": {},\n", s.evaluations));
    j.push_str(&format!(" \"distinct_nontrivial\": {},\n", s.nontrivial_keys.len()));
    j.push_str(&format!(" \"rule\": {},\n", wire::json_str(rule)));
    j.push_str(&format!(" \"requests\": {},\n \"requests_generated\": {},\n", written, s.requests.len()));
    j.push_str(" \"distribution\": {");
    j.push_str(
        &s.tags
            .iter()
            .map(|(k, v)| format!("{}: {}", wire::json_str(k), v))
            .collect::<Vec<_>>()
            .join(", "),
    );
    j.push_str("},\n \"samples\": [");
    j.push_str(&s.samples.iter().map(|x| wire::json_str(x)).collect::<Vec<_>>().join(", "));
    j.push_str("],\n");
    if !extra.is_empty() {
        j.push_str(extra);
    }
    j.push_str(" \"failures\": [\n");
    let mut first = true;
    // one representative per signature, plus a count
    let mut seen: std::collections::BTreeMap<String, (usize, &wire::Failure)> = Default::default();
    for f in &s.failures {
        let e = seen.entry(format!("{}|{}", f.kind, f.signature)).or_insert((0, f));
        e.0 += 1;
        // prefer the shortest replay as representative
        if f.replay.len() < e.1.replay.len() {
            e.1 = f;
        }
    }
    for (_, (count, f)) in seen {
        if !first {
            j.push_str(",\n");
        }
        first = false;
        j.push_str(&format!(
            "  {{\"kind\": {}, \"signature\": {}, \"count\": {}, \"detail\": {}, \"replay\": {}}}",
            wire::json_str(&f.kind),
            wire::json_str(&f.signature),
            count,
            wire::json_str(&f.detail),
            wire::json_str(&f.replay)
        ));
    }
    j.push_str("\n ]\n}\n");
    std::fs::write(format!("{}/summary.json", ctx.out), j).unwrap();
}

fn corpus_streams() -> Vec<(Vec<u8>, String)> {
    let mut v = Vec::new();
    let dir = concat!(env!("CARGO_MANIFEST_DIR"), "/../corpus/streams");
    if let Ok(rd) = std::fs::read_dir(dir) {
        let mut names: Vec<_> = rd.filter_map(|e| e.ok()).map(|e| e.path()).collect();
        names.sort();
        for p in names {
            if p.extension().map(|e| e == "hex").unwrap_or(false) {
                let t = std::fs::read_to_string(&p).unwrap();
                let h: String = t.lines().filter(|l| !l.starts_with('#')).collect::<Vec<_>>().join("");
                v.push((util::unhex(h.trim()), format!("corpus/{}", p.file_name().unwrap().to_string_lossy())));
            }
        }
    }
    v
}

fn repo_samples() -> Vec<(Vec<u8>, String)> {
    let mut v = Vec::new();
    if let Ok(rd) = std::fs::read_dir("/repo/samples") {
        let mut names: Vec<_> = rd.filter_map(|e| e.ok()).map(|e| e.path()).collect();
        names.sort();
        for p in names {
            if let Ok(b) = std::fs::read(&p) {
                v.push((b, format!("samples/{}", p.file_name().unwrap().to_string_lossy())));
            }
        }
    }
    v
}

fn run_property(ctx: &Ctx, prop: &str) {
    let seed = ctx.seed;
    match prop {
        "C07" => {
            let mut s = Summary::default();
            let corpus = corpus_streams();
            merge(&mut s, run_cases(ctx, corpus.len() as u64, |i| streams::c07_case(&corpus[i as usize].0, &corpus[i as usize].1)));
            let n = ctx.n(1500, 60000);
            merge(&mut s, run_cases(ctx, n, |i| {
                let c = streams::case(seed, i, 70000, false);
                streams::c07_case(&c.s.bytes, &c.s.label)
            }));
            // exhaustive token alphabet (quick: boundary distances; thorough: all distances)
            let parts = if ctx.thorough() { 64 } else { 1 };
            for part in 0..parts {
                let mut r = Rng::new(seed ^ 0xA1FA ^ part);
                let al = streams::token_alphabet_streams(&mut r, ctx.thorough(), part, parts);
                let mut t = run_cases(ctx, al.len() as u64, |i| {
                    let mut c = streams::c07_case(&al[i as usize].0, &al[i as usize].1);
                    // too large for the model driver line protocol; implementation oracle only
                    c.requests.clear();
                    c.tags.push("alphabet-stream".into());
                    c
                });
                t.samples.clear();
                merge(&mut s, t);
            }
            let ss = streams::split_shift_streams(&mut Rng::new(seed ^ 0x55));
            merge(&mut s, run_cases(ctx, ss.len() as u64, |i| {
                let mut o = streams::c07_case(&ss[i as usize].0, &ss[i as usize].1);
                o.tags.push("split-shift".into());
                o
            }));
            let pads = streams::padding_streams();
            merge(&mut s, run_cases(ctx, pads.len() as u64, |i| streams::c07_case(&pads[i as usize].0, &pads[i as usize].1)));
            write_summary(ctx, prop, &s,
                "streams from corpus, 4 real compressors, the independent generator (all format freedoms), mutations, noise; every (length 3..258, canonical/irregular) x distance (quick: code boundaries +-1; thorough: all 32768) under the fixed and a random dynamic code; 256 padding patterns x 8 bit offsets. Non-trivial = accepted by the parser; distinct by digest of the consumed prefix and block features.",
                "");
        }
        "C03" => {
            let mut s = Summary::default();
            let corpus = corpus_streams();
            merge(&mut s, run_cases(ctx, corpus.len() as u64, |i| {
                let c = streams::Case { s: gen::StreamCase { bytes: corpus[i as usize].0.clone(), label: corpus[i as usize].1.clone(), plain: None }, source: streams::Source::Own };
                streams::c03_case(&c, i)
            }));
            let n = ctx.n(2500, 60000);
            merge(&mut s, run_cases(ctx, n, |i| {
                let c = streams::case(seed, i, 70000, false);
                streams::c03_case(&c, i)
            }));
            let ss = streams::split_shift_streams(&mut Rng::new(seed ^ 0x55));
            merge(&mut s, run_cases(ctx, ss.len() as u64, |i| {
                let c = streams::Case { s: gen::StreamCase { bytes: ss[i as usize].0.clone(), label: ss[i as usize].1.clone(), plain: None }, source: streams::Source::Own };
                let mut o = streams::c03_case(&c, i);
                o.tags.push("split-shift".into());
                o
            }));
            // one stream per (length code, distance code, extra-bits extreme)
            let mut r = Rng::new(seed ^ 0xC03);
            let al = streams::token_alphabet_streams(&mut r, false, 0, 1);
            let mut t = run_cases(ctx, al.len() as u64, |i| {
                let c = streams::Case { s: gen::StreamCase { bytes: al[i as usize].0.clone(), label: al[i as usize].1.clone(), plain: None }, source: streams::Source::Own };
                let mut o = streams::c03_case(&c, i);
                o.requests.clear();
                o
            });
            t.samples.clear();
            merge(&mut s, t);
            write_summary(ctx, prop, &s,
                "same stream sources as C07 plus the directed code-coverage streams; zlib inflate (raw, 32 KiB window, total_in) as oracle. Non-trivial = accepted by both decoders; distinct by digest of the consumed prefix.",
                "");
        }
        "C05" => {
            let mut s = Summary::default();
            let corpus = corpus_streams();
            merge(&mut s, run_cases(ctx, corpus.len() as u64, |i| streams::c05_bytes(&corpus[i as usize].0, &corpus[i as usize].1, true)));
            // exhaustive short strings
            let maxlen = 2u32;
            let mut total = 0u64;
            for l in 0..=maxlen {
                total += 256u64.pow(l);
            }
            let mut t = run_cases(ctx, total, |i| {
                let (mut l, mut k) = (0u32, i);
                while k >= 256u64.pow(l) {
                    k -= 256u64.pow(l);
                    l += 1;
                }
                let d: Vec<u8> = (0..l).map(|j| (k >> (8 * j)) as u8).collect();
                let mut c = streams::c05_bytes(&d, "exhaustive", i % 7 == 0);
                c.sample = None;
                c.tags = vec!["exhaustive-short".into()];
                c
            });
            t.samples.clear();
            merge(&mut s, t);
            // length 3 (quick: all 2^24 through the parser only is too slow for the model; impl only, sampled 1/16 in quick)
            let step = if ctx.thorough() { 1 } else { 16 };
            let n3 = (1u64 << 24) / step;
            let mut t = run_cases(ctx, n3, |i| {
                let k = i * step + (seed % step);
                let d = [(k & 255) as u8, (k >> 8) as u8, (k >> 16) as u8];
                let mut c = streams::c05_bytes(&d, "exhaustive3", false);
                c.sample = None;
                c.tags = vec!["exhaustive-len3".into()];
                c.nontrivial = None;
                c
            });
            t.samples.clear();
            merge(&mut s, t);
            let bs = streams::boundary_streams(&mut Rng::new(seed ^ 0xB05), ctx.thorough());
            let mut t = run_cases(ctx, bs.len() as u64, |i| {
                let mut c = streams::c05_bytes(&bs[i as usize].0, &bs[i as usize].1, false);
                c.tags.push("boundary-stream".into());
                c
            });
            t.samples.truncate(1);
            merge(&mut s, t);
            let sl = streams::stored_long_streams(&mut Rng::new(seed ^ 0x5105), ctx.thorough());
            let mut t = run_cases(ctx, sl.len() as u64, |i| {
                let mut c = streams::c05_bytes(&sl[i as usize].0, &sl[i as usize].1, false);
                c.tags.push("stored-long".into());
                c
            });
            t.samples.truncate(1);
            merge(&mut s, t);
            let n = ctx.n(2500, 120000);
            merge(&mut s, run_cases(ctx, n, |i| {
                let c = streams::case(seed ^ 0x05, i, 70000, false);
                let mut o = streams::c05_bytes(&c.s.bytes, &c.s.label, i % 4 == 0 && c.s.bytes.len() < 20000);
                o.tags.push(format!("src-{:?}", c.source));
                o
            }));
            write_summary(ctx, prop, &s,
                "all strings of length <= 2 and (quick: 1/16 of, thorough: all) length-3 strings; streams from 4 real compressors, the independent generator, mutations, noise behind plausible headers; both verify settings; 20 s + 1 ms/byte wall cap per call. Non-trivial = accepted, or rejected with more than 3 bytes; distinct by input digest.",
                "");
        }
        "C02" => {
            let mut s = Summary::default();
            let corpus = corpus_streams();
            merge(&mut s, run_cases(ctx, corpus.len() as u64, |i| {
                let c = streams::Case { s: gen::StreamCase { bytes: corpus[i as usize].0.clone(), label: corpus[i as usize].1.clone(), plain: None }, source: streams::Source::Own };
                streams::c02_case(&c, &mut Rng::new(seed ^ i))
            }));
            let bs = streams::boundary_streams(&mut Rng::new(seed ^ 0xB02), ctx.thorough());
            let mut t = run_cases(ctx, bs.len() as u64, |i| {
                let c = streams::Case { s: gen::StreamCase { bytes: bs[i as usize].0.clone(), label: bs[i as usize].1.clone(), plain: None }, source: streams::Source::Own };
                let mut o = streams::c02_case(&c, &mut Rng::new(seed ^ i));
                o.tags.push("boundary-stream".into());
                o
            });
            t.samples.truncate(1);
            merge(&mut s, t);
            let sl = streams::stored_long_streams(&mut Rng::new(seed ^ 0x5102), ctx.thorough());
            let mut t = run_cases(ctx, sl.len() as u64, |i| {
                let c = streams::Case { s: gen::StreamCase { bytes: sl[i as usize].0.clone(), label: sl[i as usize].1.clone(), plain: None }, source: streams::Source::Own };
                let mut o = streams::c02_case(&c, &mut Rng::new(seed ^ i));
                o.tags.push("stored-long".into());
                o
            });
            t.samples.truncate(1);
            merge(&mut s, t);
            let nl = ctx.n(300, 20000);
            let mut t = run_cases(ctx, nl, |i| {
                let c = streams::lazy_small_block_case(seed, i);
                let mut o = streams::c02_case(&c, &mut Rng::new(seed ^ (i << 24)));
                o.requests.clear();
                o.tags.push("lazy-small-blocks".into());
                o
            });
            t.samples.truncate(1);
            merge(&mut s, t);
            let n = ctx.n(1500, 100000);
            merge(&mut s, run_cases(ctx, n, |i| {
                let c = streams::case(seed ^ 0x02, i, 70000, false);
                let mut o = streams::c02_case(&c, &mut Rng::new(seed ^ (i << 20)));
                o.tags.push(format!("src-{:?}", c.source));
                o
            }));
            write_summary(ctx, prop, &s,
                "streams from 4 real compressors (all levels/strategies/window/memLevel/flush points), the independent generator, mutations; both verify values; recompress(decompress) compared with the input prefix; results compared between verify values; bytes after compressed_size replaced/removed. Non-trivial = accepted; distinct by digest of the consumed prefix.",
                "");
        }
        "C08" => {
            let mut s = Summary::default();
            let corpus = corpus_streams();
            let maxlim = container::env_u32("VH_MAX_ADD_LIMIT", 255);
            merge(&mut s, run_cases(ctx, corpus.len() as u64, |i| {
                let c = streams::Case { s: gen::StreamCase { bytes: corpus[i as usize].0.clone(), label: corpus[i as usize].1.clone(), plain: None }, source: streams::Source::Own };
                streams::c08_case(&c, &mut Rng::new(seed ^ i), 4, maxlim)
            }));
            let bs = streams::boundary_streams(&mut Rng::new(seed ^ 0xB08), ctx.thorough());
            let mut t = run_cases(ctx, bs.len() as u64, |i| {
                let c = streams::Case { s: gen::StreamCase { bytes: bs[i as usize].0.clone(), label: bs[i as usize].1.clone(), plain: None }, source: streams::Source::Own };
                let mut o = streams::c08_case(&c, &mut Rng::new(seed ^ i), 3, maxlim);
                o.tags.push("boundary-stream".into());
                o
            });
            t.samples.truncate(1);
            merge(&mut s, t);
            let sl = streams::stored_long_streams(&mut Rng::new(seed ^ 0x5108), ctx.thorough());
            let mut t = run_cases(ctx, sl.len() as u64, |i| {
                let c = streams::Case { s: gen::StreamCase { bytes: sl[i as usize].0.clone(), label: sl[i as usize].1.clone(), plain: None }, source: streams::Source::Own };
                let mut o = streams::c08_case(&c, &mut Rng::new(seed ^ i), 2, maxlim);
                o.tags.push("stored-long".into());
                o
            });
            t.samples.truncate(1);
            merge(&mut s, t);
            let n = ctx.n(700, 30000);
            merge(&mut s, run_cases(ctx, n, |i| {
                let c = streams::case(seed ^ 0x08, i, 40000, true);
                streams::c08_case(&c, &mut Rng::new(seed ^ (i << 20)), 6, maxlim)
            }));
            if ctx.thorough() {
                merge(&mut s, est_summary(ctx, seed));
            }
            write_summary(ctx, prop, &s,
                "valid streams (real compressors, independent generator) x (estimator's vector + 6 random in-range perturbations over 7 hashes x 5 add policies x greedy/lazy x nice/chain/window/block-size/flags); Err or exact reconstruction and equal re-read parameters. Non-trivial = a vector under which analysis succeeded; distinct by (stream, vector).",
                "");
        }
        "EST" => {
            let s = est_summary(ctx, seed);
            write_summary(ctx, prop, &s,
                "parseable streams (corpus, boundary streams, directed streams at the estimator's decision boundaries, 4 real compressors at all levels/strategies, the independent generator, slices of the sample files up to 300 KB, the sample streams); the hook's complete 19-field estimator vector (or err / panic) is the expected answer of an `estimatefull` request to the model. Non-trivial = a vector with a hash algorithm; distinct by stream digest.",
                "");
        }
        "C10" => {
            let s = codec::run(ctx);
            write_summary(ctx, prop, &s,
                "operation sequences (random mixes up to 5000 ops: default runs, all bit lengths 0..31, 10 correction and 7 misprediction contexts, widths 1..16) plus all single-operation sequences v < 2^12 (quick) / 2^17 (thorough) per context family; decoded = encoded. Non-trivial = at least one non-default operation; distinct by digest of the sequence.",
                "");
        }
        "C01" | "C06" | "C11" | "C12" | "C13" | "C14" | "C04" => {
            let (s, rule, extra) = container::run(ctx, prop);
            write_summary(ctx, prop, &s, &rule, &extra);
        }
        _ => {
            eprintln!("unknown property {prop}");
            std::process::exit(2);
        }
    }
}

/// correspondence of the complete parameter estimator with the model (`estimatefull` requests): no
/// analysis, so many more and much larger streams than C08's own cases can afford
fn est_summary(ctx: &Ctx, seed: u64) -> Summary {
    let mut s = Summary::default();
    let corpus = corpus_streams();
    merge(&mut s, run_cases(ctx, corpus.len() as u64, |i| streams::est_case(&corpus[i as usize].0, &corpus[i as usize].1, 300_000)));
    let bs = streams::boundary_streams(&mut Rng::new(seed ^ 0xB08), ctx.thorough());
    let mut t = run_cases(ctx, bs.len() as u64, |i| streams::est_case(&bs[i as usize].0, &bs[i as usize].1, 300_000));
    t.samples.truncate(1);
    merge(&mut s, t);
    let ds = streams::est_directed_streams(&mut Rng::new(seed ^ 0xD1E));
    let mut t = run_cases(ctx, ds.len() as u64, |i| {
        let mut o = streams::est_case(&ds[i as usize].0, &ds[i as usize].1, 300_000);
        o.tags.push("directed".into());
        o
    });
    t.samples.truncate(1);
    merge(&mut s, t);
    // random plaintexts up to 70000 bytes (beyond the 64 KiB position range of the depth tables)
    let n = ctx.n(3000, 30000);
    merge(&mut s, run_cases(ctx, n, |i| {
        let c = streams::case(seed ^ 0xE5, i, 70000, true);
        let mut o = streams::est_case(&c.s.bytes, &c.s.label, 80_000);
        o.tags.push(format!("src-{:?}", c.source));
        o
    }));
    // slices of the repository's sample files (realistic data, up to 300 KB) through the real compressors
    let plains: Vec<Vec<u8>> = repo_samples()
        .into_iter()
        .filter(|(b, l)| b.len() > 100_000 && (l.ends_with(".bin") || l.ends_with(".samplesave") || l.ends_with(".lep")))
        .map(|(b, _)| b)
        .collect();
    if !plains.is_empty() {
        let m = ctx.n(400, 4000);
        let mut t = run_cases(ctx, m, |i| {
            let mut r = Rng::new((seed ^ 0xE57).wrapping_mul(0x9E3779B97F4A7C15) ^ i.wrapping_mul(0xD1B54A32D192ED03));
            let f = &plains[r.below(plains.len() as u64) as usize];
            let len = *r.pick(&[3000usize, 20000, 65530, 65536, 66000, 100_000, 131_072, 200_000, 300_000]);
            let len = len.min(f.len());
            let st = r.below((f.len() - len) as u64 + 1) as usize;
            let c = gen::real_stream_of(&mut r, f[st..st + len].to_vec());
            let mut o = streams::est_case(&c.bytes, &c.label, 400_000);
            o.tags.push("sample-slice".into());
            o
        });
        t.samples.truncate(2);
        merge(&mut s, t);
    }
    // the repository's own sample streams
    let files: Vec<(Vec<u8>, String)> = repo_samples().into_iter().filter(|(_, l)| l.ends_with(".deflate")).collect();
    let mut t = run_cases(ctx, files.len() as u64, |i| {
        let mut o = streams::est_case(&files[i as usize].0, &files[i as usize].1, 1_000_000);
        o.tags.push("sample-stream".into());
        o
    });
    t.samples.truncate(2);
    merge(&mut s, t);
    s
}

fn main() {
    util::install_panic_hook();
    let args: Vec<String> = std::env::args().collect();
    if args.len() < 2 {
        eprintln!("usage: vh <PROPERTY> --tier T --seed N --out DIR | vh replay <PROP> <file> | vh golden-gen <dir> | vh golden-check <dir>");
        std::process::exit(2);
    }
    let mut ctx = Ctx {
        tier: "quick".into(),
        seed: 1,
        out: "/verif/evidence/run".into(),
        boost: 1,
        threads: std::thread::available_parallelism().map(|n| n.get()).unwrap_or(8),
    };
    let mut i = 2;
    let mut rest = Vec::new();
    while i < args.len() {
        match args[i].as_str() {
            "--tier" => {
                ctx.tier = args[i + 1].clone();
                i += 2;
            }
            "--seed" => {
                ctx.seed = args[i + 1].parse().unwrap_or(1);
                i += 2;
            }
            "--out" => {
                ctx.out = args[i + 1].clone();
                i += 2;
            }
            "--boost" => {
                ctx.boost = args[i + 1].parse().unwrap_or(1);
                i += 2;
            }
            "--threads" => {
                ctx.threads = args[i + 1].parse().unwrap_or(8);
                i += 2;
            }
            _ => {
                rest.push(args[i].clone());
                i += 1;
            }
        }
    }
    match args[1].as_str() {
        "golden-gen" => golden::generate(&rest[0], ctx.seed),
        "golden-deep" => golden::generate_deep(&rest[0], ctx.seed, rest.get(1).and_then(|x| x.parse().ok()).unwrap_or(40)),
        "c04-verify" => {
            let ok = golden::verify_model_written(&rest[0]);
            std::process::exit(if ok { 0 } else { 1 });
        }
        "golden-check" => {
            let ok = golden::check(&rest[0], &ctx);
            std::process::exit(if ok { 0 } else { 1 });
        }
        "replay" => {
            let ok = container::replay(&ctx, &rest[0], &rest[1]);
            std::process::exit(if ok { 0 } else { 1 });
        }
        "stream-file" => {
            // one raw DEFLATE stream from a file through the analysis, both verify values (large inputs: D13)
            let d = std::fs::read(&rest[0]).expect("read");
            for verify in [false, true] {
                let t = std::time::Instant::now();
                let o = streams::decompress(&d, verify);
                println!(
                    "verify={verify} outcome={} secs={:.1}",
                    match &o {
                        streams::Outcome::Ok(x) => format!("ok plain={} corr={} size={}", x.plain.len(), x.corr.len(), x.size),
                        streams::Outcome::Err(e) => format!("err {e}"),
                        streams::Outcome::Panic(p) => format!("panic {p}"),
                    },
                    t.elapsed().as_secs_f64()
                );
            }
        }
        "c14-child" => container::c14_child(&ctx),
        "debug-boundary" => debug_boundary(ctx.seed),
        "versions" => {
            let (a, b) = preflate_rs::verif_hooks::format_versions();
            println!("{a} {b}");
        }
        p => {
            util::start_watchdog(p.to_string(), ctx.tier.clone(), ctx.seed, ctx.out.clone(), container::env_u32("VH_WATCHDOG_SECS", if ctx.thorough() { 600 } else { 90 }) as u64);
            run_property(&ctx, p)
        }
    }
}

#[allow(dead_code)]
pub fn debug_boundary(seed: u64) {
    let bs = streams::boundary_streams(&mut Rng::new(seed ^ 0xB05), false);
    for (d, label) in bs.iter() {
        if !label.contains("pos=6526") && !label.contains("pos=6527") {
            continue;
        }
        let est = preflate_rs::verif_hooks::estimate(d);
        let o = streams::decompress(d, false);
        println!("{label}: est={:?} outcome={}", est, match o { streams::Outcome::Ok(_) => "ok".to_string(), streams::Outcome::Err(e) => format!("err {e}"), streams::Outcome::Panic(p) => format!("panic {p}") });
    }
}
