//! Input generators: plaintexts, real-compressor streams, an independent valid-stream
//! generator (own DEFLATE encoder, nothing shared with /repo), mutations.
use crate::comp;
use crate::util::Rng;
use std::collections::HashMap;

pub const SIZES: [usize; 28] = [
    0, 1, 2, 3, 4, 5, 10, 50, 97, 100, 200, 258, 259, 300, 1000, 1025, 1500, 4000, 4093, 4096,
    4099, 5000, 20000, 32767, 32769, 40000, 65537, 70000,
];

pub fn plain_sized(r: &mut Rng, n: usize) -> Vec<u8> {
    let k = r.below(7);
    let mut v = Vec::with_capacity(n);
    match k {
        0 => {
            for _ in 0..n {
                v.push(r.next() as u8);
            }
        }
        1 => {
            let words: Vec<Vec<u8>> = (0..200)
                .map(|_| {
                    let l = 1 + r.below(9);
                    (0..l).map(|_| b'a' + r.below(26) as u8).collect()
                })
                .collect();
            while v.len() < n {
                // Zipf-ish reuse
                let i = (r.below(200) * r.below(200) / 200) as usize;
                v.extend_from_slice(&words[i]);
                v.push(b' ');
            }
            v.truncate(n);
        }
        2 => {
            let b = r.next() as u8;
            v.resize(n, b);
        }
        3 => {
            let pl = 1 + r.below(300) as usize;
            let p: Vec<u8> = (0..pl).map(|_| r.next() as u8).collect();
            while v.len() < n {
                v.extend_from_slice(&p);
            }
            v.truncate(n);
        }
        4 => {
            for _ in 0..n {
                v.push(if r.below(2) == 0 { b'a' } else { b'b' });
            }
        }
        5 => {
            // binary records
            let rec = 8 + r.below(40) as usize;
            let tmpl: Vec<u8> = (0..rec).map(|_| r.next() as u8).collect();
            let mut ctr: u32 = r.next() as u32;
            while v.len() < n {
                let mut t = tmpl.clone();
                let c = ctr.to_le_bytes();
                for i in 0..4.min(rec) {
                    t[i] = c[i];
                }
                if r.chance(1, 4) {
                    let j = r.below(rec as u64) as usize;
                    t[j] = r.next() as u8;
                }
                ctr = ctr.wrapping_add(1);
                v.extend_from_slice(&t);
            }
            v.truncate(n);
        }
        _ => {
            while v.len() < n {
                if r.below(2) == 0 {
                    let l = 1 + r.below(20);
                    for _ in 0..l {
                        v.push(r.next() as u8);
                    }
                } else {
                    let l = 3 + r.below(300) as usize;
                    let st = if v.is_empty() {
                        0
                    } else {
                        r.below(v.len() as u64) as usize
                    };
                    for i in 0..l {
                        if st + i < v.len() {
                            let b = v[st + i];
                            v.push(b);
                        } else {
                            v.push(b'x');
                        }
                    }
                }
            }
            v.truncate(n);
        }
    }
    v
}

pub fn plain(r: &mut Rng) -> Vec<u8> {
    let n = *r.pick(&SIZES);
    plain_sized(r, n)
}

pub fn plain_small(r: &mut Rng, max: usize) -> Vec<u8> {
    let cands: Vec<usize> = SIZES.iter().copied().filter(|&s| s <= max).collect();
    let n = *r.pick(&cands);
    plain_sized(r, n)
}

#[derive(Clone, Debug)]
pub struct StreamCase {
    pub bytes: Vec<u8>,
    pub label: String,
    /// plaintext if known by construction
    pub plain: Option<Vec<u8>>,
}

/// a stream produced by one of the four real compressors with random settings
pub fn real_stream(r: &mut Rng, max_plain: usize) -> StreamCase {
    let p = plain_small(r, max_plain);
    real_stream_of(r, p)
}

pub fn real_stream_of(r: &mut Rng, p: Vec<u8>) -> StreamCase {
    let which = r.below(10);
    let (bytes, label) = match which {
        0..=4 => {
            let level = r.range(0, 9) as i32;
            let strategy = *r.pick(&[0, 0, 0, 1, 2, 3, 4]);
            let wbits = if r.chance(1, 2) { 15 } else { r.range(9, 15) as i32 };
            let mem_level = if r.chance(1, 2) { 8 } else { r.range(1, 9) as i32 };
            let (fe, fm) = if r.chance(1, 5) && p.len() > 10 {
                (
                    r.range(1, p.len() as u64 - 1) as usize,
                    *r.pick(&[libz_sys::Z_SYNC_FLUSH, libz_sys::Z_FULL_FLUSH, libz_sys::Z_PARTIAL_FLUSH]),
                )
            } else {
                (0, 0)
            };
            (
                comp::zlib_deflate(&p, level, strategy, wbits, mem_level, fe, fm),
                format!("zlib l{level} s{strategy} w{wbits} m{mem_level} f{fe}/{fm}"),
            )
        }
        5 | 6 => {
            let level = r.range(1, 9) as i32;
            (
                comp::zng_deflate(&p, level, 0, 15, 8),
                format!("zng l{level}"),
            )
        }
        7 | 8 => {
            let level = r.range(0, 12) as i32;
            (comp::libdeflate_deflate(&p, level), format!("libdeflate l{level}"))
        }
        _ => {
            let level = r.range(0, 10) as u8;
            (comp::miniz_deflate(&p, level), format!("miniz l{level}"))
        }
    };
    StreamCase {
        bytes,
        label: format!("{label} n{}", p.len()),
        plain: Some(p),
    }
}

// ---------------------------------------------------------------------------------------
// own DEFLATE encoder

pub struct BitW {
    pub out: Vec<u8>,
    acc: u64,
    n: u32,
}
impl BitW {
    pub fn new() -> Self {
        BitW {
            out: Vec::new(),
            acc: 0,
            n: 0,
        }
    }
    pub fn bits(&mut self, v: u32, len: u32) {
        debug_assert!(len <= 32 && (len == 32 || v < (1u32 << len)));
        self.acc |= (v as u64) << self.n;
        self.n += len;
        while self.n >= 8 {
            self.out.push(self.acc as u8);
            self.acc >>= 8;
            self.n -= 8;
        }
    }
    /// Huffman code: most significant bit first
    pub fn code(&mut self, code: u32, len: u32) {
        for i in (0..len).rev() {
            self.bits((code >> i) & 1, 1);
        }
    }
    pub fn bitpos(&self) -> u32 {
        self.n
    }
    pub fn pad(&mut self, fill: u8) {
        let mut i = 0;
        while self.n != 0 {
            self.bits(((fill >> i) & 1) as u32, 1);
            i += 1;
        }
    }
}

pub const LEN_BASE: [u32; 29] = [
    3, 4, 5, 6, 7, 8, 9, 10, 11, 13, 15, 17, 19, 23, 27, 31, 35, 43, 51, 59, 67, 83, 99, 115, 131,
    163, 195, 227, 258,
];
pub const LEN_EXTRA: [u32; 29] = [
    0, 0, 0, 0, 0, 0, 0, 0, 1, 1, 1, 1, 2, 2, 2, 2, 3, 3, 3, 3, 4, 4, 4, 4, 5, 5, 5, 5, 0,
];
pub const DIST_BASE: [u32; 30] = [
    1, 2, 3, 4, 5, 7, 9, 13, 17, 25, 33, 49, 65, 97, 129, 193, 257, 385, 513, 769, 1025, 1537,
    2049, 3073, 4097, 6145, 8193, 12289, 16385, 24577,
];
pub const DIST_EXTRA: [u32; 30] = [
    0, 0, 0, 0, 1, 1, 2, 2, 3, 3, 4, 4, 5, 5, 6, 6, 7, 7, 8, 8, 9, 9, 10, 10, 11, 11, 12, 12, 13,
    13,
];
pub const CL_ORDER: [usize; 19] = [
    16, 17, 18, 0, 8, 7, 9, 6, 10, 5, 11, 4, 12, 3, 13, 2, 14, 1, 15,
];

pub fn len_code(len: u32) -> usize {
    (0..29).rev().find(|&c| LEN_BASE[c] <= len).unwrap()
}
pub fn dist_code(d: u32) -> usize {
    (0..30).rev().find(|&c| DIST_BASE[c] <= d).unwrap()
}

/// canonical codes (RFC 1951 3.2.2) from lengths
pub fn canonical(lengths: &[u8]) -> Vec<u32> {
    let mut bl = [0u32; 17];
    for &l in lengths {
        bl[l as usize] += 1;
    }
    bl[0] = 0;
    let mut next = [0u32; 17];
    let mut code = 0;
    for b in 1..=16 {
        code = (code + bl[b - 1]) << 1;
        next[b] = code;
    }
    lengths
        .iter()
        .map(|&l| {
            if l == 0 {
                0
            } else {
                let c = next[l as usize];
                next[l as usize] += 1;
                c
            }
        })
        .collect()
}

/// random complete prefix code over `n` symbols in which every symbol of `must` has a code;
/// depth <= maxd. Returns None if impossible.
pub fn random_complete_code(
    r: &mut Rng,
    n: usize,
    must: &[usize],
    extra: usize,
    maxd: u8,
) -> Option<Vec<u8>> {
    let mut set: Vec<usize> = must.to_vec();
    set.sort();
    set.dedup();
    let mut others: Vec<usize> = (0..n).filter(|i| !set.contains(i)).collect();
    let mut want = extra;
    while set.len() < 2 || want > 0 {
        if others.is_empty() {
            break;
        }
        let i = r.below(others.len() as u64) as usize;
        set.push(others.swap_remove(i));
        want = want.saturating_sub(1);
    }
    if set.len() < 2 || set.len() > (1usize << maxd) {
        return None;
    }
    // grow a random full binary tree with |set| leaves
    let mut leaves: Vec<u8> = vec![0];
    let skew = r.below(3);
    while leaves.len() < set.len() {
        let cands: Vec<usize> = (0..leaves.len()).filter(|&i| leaves[i] < maxd).collect();
        if cands.is_empty() {
            return None;
        }
        let i = match skew {
            0 => *r.pick(&cands),
            1 => *cands.iter().max_by_key(|&&i| leaves[i]).unwrap(),
            _ => *cands.iter().min_by_key(|&&i| leaves[i]).unwrap(),
        };
        let d = leaves[i] + 1;
        leaves[i] = d;
        leaves.push(d);
    }
    // shuffle assignment
    for i in (1..set.len()).rev() {
        let j = r.below(i as u64 + 1) as usize;
        set.swap(i, j);
    }
    let mut out = vec![0u8; n];
    for (s, d) in set.iter().zip(leaves.iter()) {
        out[*s] = *d;
    }
    Some(out)
}

#[derive(Clone, Debug, PartialEq)]
pub enum Tk {
    Lit(u8),
    Ref { len: u32, dist: u32, irregular: bool },
}

/// tokenises `p[start..end]` with arbitrary (non-greedy, non-nearest) matches
pub fn random_tokens(
    r: &mut Rng,
    p: &[u8],
    start: usize,
    end: usize,
    idx: &HashMap<[u8; 3], Vec<usize>>,
    match_pct: u64,
    allow_irregular: bool,
) -> Vec<Tk> {
    let mut t = Vec::new();
    let mut i = start;
    while i < end {
        let mut done = false;
        if i + 3 <= end && i > 0 && r.below(100) < match_pct {
            let key = [p[i], p[i + 1], p[i + 2]];
            if let Some(pos) = idx.get(&key) {
                // candidates strictly before i and within 32768
                let lo = pos.partition_point(|&x| x + 32768 < i);
                let hi = pos.partition_point(|&x| x < i);
                if hi > lo {
                    let j = match r.below(12) {
                        0..=3 => pos[hi - 1],
                        // the earliest candidate in the window: reaches back to the start of the
                        // plaintext (distance == position) while the plaintext is shorter than 32 KiB
                        4..=6 => pos[lo],
                        _ => pos[lo + r.below((hi - lo) as u64) as usize],
                    };
                    let mut l = 3;
                    while i + l < end && l < 258 && p[j + l] == p[i + l] {
                        l += 1;
                    }
                    let len = if r.chance(2, 3) { l } else { r.range(3, l as u64) as usize };
                    t.push(Tk::Ref {
                        len: len as u32,
                        dist: (i - j) as u32,
                        irregular: allow_irregular && len == 258 && r.chance(1, 2),
                    });
                    i += len;
                    done = true;
                }
            }
        }
        if !done {
            t.push(Tk::Lit(p[i]));
            i += 1;
        }
    }
    t
}

pub fn index3(p: &[u8]) -> HashMap<[u8; 3], Vec<usize>> {
    let mut m: HashMap<[u8; 3], Vec<usize>> = HashMap::new();
    if p.len() >= 3 {
        for i in 0..p.len() - 2 {
            m.entry([p[i], p[i + 1], p[i + 2]]).or_default().push(i);
        }
    }
    m
}

#[derive(Clone, Debug, Default)]
pub struct Freedom {
    pub stored: bool,
    pub fixed: bool,
    pub dynamic: bool,
    pub empty_blocks: bool,
    pub irregular258: bool,
    pub nonzero_padding: bool,
    pub slack: bool,
    pub rle_tricks: bool,
    pub trailing_garbage: bool,
}

impl Freedom {
    pub fn all() -> Self {
        Freedom {
            stored: true,
            fixed: true,
            dynamic: true,
            empty_blocks: true,
            irregular258: true,
            nonzero_padding: true,
            slack: true,
            rle_tricks: true,
            trailing_garbage: true,
        }
    }
    pub fn random(r: &mut Rng) -> Self {
        let mut f = Freedom {
            stored: r.chance(1, 3),
            fixed: r.chance(1, 2),
            dynamic: r.chance(3, 4),
            empty_blocks: r.chance(1, 4),
            irregular258: r.chance(1, 4),
            nonzero_padding: r.chance(1, 3),
            slack: r.chance(1, 3),
            rle_tricks: r.chance(1, 2),
            trailing_garbage: r.chance(1, 4),
        };
        if !f.stored && !f.fixed && !f.dynamic {
            f.dynamic = true;
        }
        f
    }
}

#[derive(Default, Clone, Debug)]
pub struct StreamFeatures {
    pub stored: u32,
    pub fixed: u32,
    pub dynamic: u32,
    pub empty: u32,
    pub irregular: u32,
    pub nonzero_pad: u32,
    pub refs: u32,
    pub lits: u32,
}

fn write_tokens(w: &mut BitW, toks: &[Tk], ll: &[u8], llc: &[u32], dl: &[u8], dc: &[u32]) {
    for t in toks {
        match *t {
            Tk::Lit(b) => w.code(llc[b as usize], ll[b as usize] as u32),
            Tk::Ref {
                len,
                dist,
                irregular,
            } => {
                if irregular {
                    w.code(llc[284], ll[284] as u32);
                    w.bits(31, 5);
                } else {
                    let c = len_code(len);
                    w.code(llc[257 + c], ll[257 + c] as u32);
                    w.bits(len - LEN_BASE[c], LEN_EXTRA[c]);
                }
                let d = dist_code(dist);
                w.code(dc[d], dl[d] as u32);
                w.bits(dist - DIST_BASE[d], DIST_EXTRA[d]);
            }
        }
    }
    w.code(llc[256], ll[256] as u32);
}

pub fn fixed_lengths() -> (Vec<u8>, Vec<u8>) {
    let mut ll = vec![8u8; 288];
    for i in 144..256 {
        ll[i] = 9;
    }
    for i in 256..280 {
        ll[i] = 7;
    }
    (ll, vec![5u8; 32])
}

/// run-length encode a combined length vector with random legal choices
fn rle_items(r: &mut Rng, lens: &[u8], tricks: bool) -> Vec<(u8, u8)> {
    let mut items = Vec::new();
    let mut i = 0;
    while i < lens.len() {
        let cur = lens[i];
        let mut run = 1;
        while i + run < lens.len() && lens[i + run] == cur {
            run += 1;
        }
        let mut opts: Vec<u8> = vec![0];
        if cur == 0 && run >= 3 {
            opts.push(17);
        }
        if cur == 0 && run >= 11 {
            opts.push(18);
        }
        if i > 0 && lens[i - 1] == cur && run >= 3 {
            opts.push(16);
        }
        let pick = if tricks {
            *r.pick(&opts)
        } else {
            // zlib-like: prefer the longest form
            *opts.iter().max().unwrap()
        };
        match pick {
            0 => {
                items.push((0, cur));
                i += 1;
            }
            16 => {
                let m = run.min(6);
                let n = if tricks { r.range(3, m as u64) as usize } else { m };
                items.push((16, n as u8));
                i += n;
            }
            17 => {
                let m = run.min(10);
                let n = if tricks { r.range(3, m as u64) as usize } else { m };
                items.push((17, n as u8));
                i += n;
            }
            _ => {
                let m = run.min(138);
                let n = if tricks { r.range(11, m as u64) as usize } else { m };
                items.push((18, n as u8));
                i += n;
            }
        }
    }
    items
}

/// builds a valid raw DEFLATE stream for plaintext `p` using the given freedoms.
/// Returns (bytes, features). The stream ends at a byte boundary after the final padding;
/// trailing garbage (if any) is appended after that and reported separately.
pub fn build_stream(r: &mut Rng, p: &[u8], f: &Freedom) -> (Vec<u8>, usize, StreamFeatures) {
    let idx = index3(p);
    let mut w = BitW::new();
    let mut feat = StreamFeatures::default();
    let mut pos = 0usize;
    let match_pct = *r.pick(&[0u64, 10, 50, 90, 100]);
    // choose block boundaries
    let mut cuts: Vec<usize> = Vec::new();
    let nblocks = 1 + r.below(5) as usize;
    for _ in 1..nblocks {
        cuts.push(r.below(p.len() as u64 + 1) as usize);
    }
    cuts.push(p.len());
    cuts.sort();
    if f.empty_blocks {
        let extra = r.below(3);
        for _ in 0..extra {
            let c = *r.pick(&cuts);
            cuts.push(c);
        }
        cuts.sort();
    }
    let last_idx = cuts.len() - 1;
    for (bi, &end) in cuts.iter().enumerate() {
        let is_last = bi == last_idx;
        let mut kinds = Vec::new();
        if f.stored && end - pos <= 65535 {
            kinds.push(0);
        }
        if f.fixed {
            kinds.push(1);
        }
        if f.dynamic {
            kinds.push(2);
        }
        if kinds.is_empty() {
            kinds.push(1);
        }
        let kind = *r.pick(&kinds);
        if end == pos {
            feat.empty += 1;
        }
        w.bits(is_last as u32, 1);
        match kind {
            0 => {
                feat.stored += 1;
                w.bits(0, 2);
                let fill = if f.nonzero_padding { r.next() as u8 } else { 0 };
                if w.bitpos() != 0 && (fill & ((1u8 << (8 - w.bitpos())) - 1).max(0)) != 0 {
                    feat.nonzero_pad += 1;
                }
                w.pad(fill);
                let n = (end - pos) as u32;
                w.bits(n, 16);
                w.bits(!n & 0xffff, 16);
                for &b in &p[pos..end] {
                    w.bits(b as u32, 8);
                }
            }
            1 => {
                feat.fixed += 1;
                w.bits(1, 2);
                let toks = random_tokens(r, p, pos, end, &idx, match_pct, f.irregular258);
                count(&toks, &mut feat);
                let (ll, dl) = fixed_lengths();
                let llc = canonical(&ll);
                let dc = canonical(&dl);
                write_tokens(&mut w, &toks, &ll, &llc, &dl, &dc);
            }
            _ => {
                feat.dynamic += 1;
                w.bits(2, 2);
                let toks = random_tokens(r, p, pos, end, &idx, match_pct, f.irregular258);
                count(&toks, &mut feat);
                let mut must_ll = vec![256usize];
                let mut must_d = Vec::new();
                for t in &toks {
                    match *t {
                        Tk::Lit(b) => must_ll.push(b as usize),
                        Tk::Ref {
                            len,
                            dist,
                            irregular,
                        } => {
                            must_ll.push(if irregular { 284 } else { 257 + len_code(len) });
                            must_d.push(dist_code(dist));
                        }
                    }
                }
                let extra_ll = if f.slack { r.below(20) as usize } else { 0 };
                let extra_d = if f.slack { r.below(6) as usize } else { 0 };
                let ll = random_complete_code(r, 286, &must_ll, extra_ll, 15).unwrap();
                let dl = random_complete_code(r, 30, &must_d, extra_d, 15).unwrap();
                let min_hlit = (ll.iter().rposition(|&x| x != 0).unwrap() + 1).max(257);
                let min_hdist = dl.iter().rposition(|&x| x != 0).unwrap() + 1;
                let hlit = if f.slack {
                    r.range(min_hlit as u64, 286) as usize
                } else {
                    min_hlit
                };
                let hdist = if f.slack {
                    r.range(min_hdist as u64, 30) as usize
                } else {
                    min_hdist
                };
                let mut comb: Vec<u8> = ll[..hlit].to_vec();
                comb.extend_from_slice(&dl[..hdist]);
                let items = rle_items(r, &comb, f.rle_tricks);
                let mut must_cl: Vec<usize> = Vec::new();
                for &(k, d) in &items {
                    must_cl.push(if k == 0 { d as usize } else { k as usize });
                }
                let extra_cl = if f.slack { r.below(4) as usize } else { 0 };
                let cl = random_complete_code(r, 19, &must_cl, extra_cl, 7).unwrap();
                let clc = canonical(&cl);
                let min_hclen = (CL_ORDER.iter().rposition(|&s| cl[s] != 0).unwrap() + 1).max(4);
                let hclen = if f.slack {
                    r.range(min_hclen as u64, 19) as usize
                } else {
                    min_hclen
                };
                w.bits(hlit as u32 - 257, 5);
                w.bits(hdist as u32 - 1, 5);
                w.bits(hclen as u32 - 4, 4);
                for i in 0..hclen {
                    w.bits(cl[CL_ORDER[i]] as u32, 3);
                }
                for &(k, d) in &items {
                    match k {
                        0 => w.code(clc[d as usize], cl[d as usize] as u32),
                        16 => {
                            w.code(clc[16], cl[16] as u32);
                            w.bits(d as u32 - 3, 2);
                        }
                        17 => {
                            w.code(clc[17], cl[17] as u32);
                            w.bits(d as u32 - 3, 3);
                        }
                        _ => {
                            w.code(clc[18], cl[18] as u32);
                            w.bits(d as u32 - 11, 7);
                        }
                    }
                }
                let llc = canonical(&ll);
                let dc = canonical(&dl);
                write_tokens(&mut w, &toks, &ll, &llc, &dl, &dc);
            }
        }
        pos = end;
    }
    let fill = if f.nonzero_padding { r.next() as u8 } else { 0 };
    if w.bitpos() != 0 && (fill & ((1u16 << (8 - w.bitpos())) - 1) as u8) != 0 {
        feat.nonzero_pad += 1;
    }
    w.pad(fill);
    let mut out = w.out;
    let size = out.len();
    if f.trailing_garbage {
        let n = r.below(12);
        for _ in 0..n {
            out.push(r.next() as u8);
        }
    }
    (out, size, feat)
}

fn count(toks: &[Tk], feat: &mut StreamFeatures) {
    for t in toks {
        match t {
            Tk::Lit(_) => feat.lits += 1,
            Tk::Ref { irregular, .. } => {
                feat.refs += 1;
                if *irregular {
                    feat.irregular += 1;
                }
            }
        }
    }
}

/// stream from the independent generator
pub fn own_stream(r: &mut Rng, max_plain: usize) -> (StreamCase, usize, StreamFeatures) {
    let p = plain_small(r, max_plain);
    let f = Freedom::random(r);
    let (bytes, size, feat) = build_stream(r, &p, &f);
    (
        StreamCase {
            bytes,
            label: format!("own n{} {:?}", p.len(), feat),
            plain: Some(p),
        },
        size,
        feat,
    )
}

/// mutate bytes: bit flips, truncation, splice, insert, delete
pub fn mutate(r: &mut Rng, b: &[u8], other: &[u8]) -> Vec<u8> {
    let mut v = b.to_vec();
    let n = 1 + r.below(3);
    for _ in 0..n {
        match r.below(6) {
            0 if !v.is_empty() => {
                let i = r.below(v.len() as u64) as usize;
                v[i] ^= 1 << r.below(8);
            }
            1 if !v.is_empty() => {
                let k = r.below(v.len() as u64) as usize;
                v.truncate(k);
            }
            2 if !other.is_empty() && !v.is_empty() => {
                let i = r.below(v.len() as u64) as usize;
                let j = r.below(other.len() as u64) as usize;
                v.truncate(i);
                v.extend_from_slice(&other[j..]);
            }
            3 => {
                let i = r.below(v.len() as u64 + 1) as usize;
                let k = 1 + r.below(4) as usize;
                for _ in 0..k {
                    v.insert(i, r.next() as u8);
                }
            }
            4 if !v.is_empty() => {
                let i = r.below(v.len() as u64) as usize;
                let k = (1 + r.below(4) as usize).min(v.len() - i);
                v.drain(i..i + k);
            }
            _ if !v.is_empty() => {
                // header-field perturbation near the start
                let i = r.below(v.len().min(12) as u64) as usize;
                v[i] = r.next() as u8;
            }
            _ => {}
        }
    }
    v
}

/// noise behind a plausible block header
pub fn noise_stream(r: &mut Rng) -> Vec<u8> {
    let n = *r.pick(&[1usize, 2, 3, 5, 8, 20, 60, 200, 1000]);
    let mut v: Vec<u8> = (0..n).map(|_| r.next() as u8).collect();
    // force block type bits
    let bt = r.below(3) as u8;
    let last = r.below(2) as u8;
    v[0] = (v[0] & !7) | last | (bt << 1);
    if bt == 0 && v.len() >= 5 && r.chance(1, 2) {
        let len = r.below(30) as u16;
        v[1] = len as u8;
        v[2] = (len >> 8) as u8;
        v[3] = !v[1];
        v[4] = !v[2];
    }
    v
}
