//! C04: golden corpus written by the reference build, decoded by the current build.
use crate::comp;
use crate::container::{self, file_case};
use crate::streams;
use crate::util::{fnv64, guarded, hex, panic_signature, unhex, Rng, Run};
use crate::wire::{CaseOut, Failure, Summary};
use crate::Ctx;
use preflate_rs::verif_hooks as vh;
use preflate_rs::{expand_zlib_chunks, recompress_deflate_stream};
use std::fmt::Write as _;

/// writes <dir>/streams.txt, <dir>/files.txt, <dir>/versions.txt using the build this binary is linked with
pub fn generate(dir: &str, seed: u64) {
    std::fs::create_dir_all(dir).unwrap();
    let mut st = String::new();
    let mut kept = 0;
    let mut i = 0u64;
    let mut big = 0;
    while kept < 260 && i < 4000 {
        let max_plain = if big < 6 && i % 9 == 0 { 70000 } else { 6000 };
        let c = streams::case(seed ^ 0x601d, i, max_plain, true);
        i += 1;
        let d = &c.s.bytes;
        if let streams::Outcome::Ok(x) = streams::decompress(d, true) {
            // the independent oracle must be able to supply the plaintext later
            match comp::zlib_inflate_raw(&d[..x.size], 1 << 28) {
                Some((p, n)) if p == x.plain && n == x.size => {}
                _ => continue,
            }
            if x.plain.len() > 66000 {
                big += 1;
            }
            writeln!(st, "stream {} {}", hex(&d[..x.size]), hex(&x.corr)).unwrap();
            kept += 1;
            // the same stream under two in-range parameter vectors
            if kept % 3 == 0 {
                if let Run::Done(Ok(base)) = guarded(|| vh::estimate(d)) {
                    let base = if base[4] != 0 { base } else { streams::default_vec() };
                    let mut r = Rng::new(seed ^ i);
                    for _ in 0..2 {
                        let v = streams::perturb(&mut r, &base, 255);
                        if let Run::Done(Ok(rt)) = guarded(|| vh::roundtrip_with_params(d, &v)) {
                            if rt.reconstructed[..] == d[..rt.consumed] {
                                if let Run::Done(Ok(a)) = guarded(|| vh::analyze_with_params(d, &v)) {
                                    writeln!(st, "pstream {} {}", hex(&d[..a.compressed_size]), hex(&a.corrections)).unwrap();
                                }
                            }
                        }
                    }
                }
            }
        }
    }
    std::fs::write(format!("{dir}/streams.txt"), st).unwrap();
    let mut ft = String::new();
    let mut kept = 0;
    let mut i = 0u64;
    while kept < 90 && i < 2000 {
        let fc = file_case(seed ^ 0xf11e, i, 5000);
        i += 1;
        if let Run::Done(Ok(c)) = guarded(|| expand_zlib_chunks(&fc.bytes, 0)) {
            if let Run::Done(Ok(g)) = container::recreate_plain(&c) {
                if g == fc.bytes && (c.len() > fc.bytes.len() + 16 || i % 5 == 0) {
                    let z = zstd::bulk::compress(&c, 9).unwrap();
                    writeln!(ft, "file {} {} {}", hex(&fc.bytes), c.len(), hex(&z)).unwrap();
                    kept += 1;
                }
            }
        }
    }
    std::fs::write(format!("{dir}/files.txt"), ft).unwrap();
    let (a, b) = vh::format_versions();
    std::fs::write(format!("{dir}/versions.txt"), format!("{a} {b}\n")).unwrap();
    eprintln!("golden corpus written to {dir}");
}

/// long plaintexts over tiny alphabets (deep hash chains reaching the window limit), compressed at
/// the levels with long chain walks: items that exercise the distance limits of the match search
pub fn generate_deep(dir: &str, seed: u64, count: usize) {
    std::fs::create_dir_all(dir).unwrap();
    let mut st = String::new();
    let mut kept = 0;
    let mut i = 0u64;
    while kept < count && i < 4000 {
        let mut r = Rng::new(seed ^ 0xdee9 ^ (i << 8));
        i += 1;
        let n = r.range(33000, 70000) as usize;
        let alpha = r.range(2, 5);
        let mut p: Vec<u8> = Vec::with_capacity(n);
        // runs of random symbols with occasional planted repeats at long distances
        while p.len() < n {
            if r.chance(1, 40) && p.len() > 33000 {
                let d = r.range(32400, 32768) as usize;
                let l = r.range(4, 40) as usize;
                let st0 = p.len() - d.min(p.len());
                for k in 0..l {
                    let b = p[st0 + k];
                    p.push(b);
                }
            } else {
                p.push(b'a' + r.below(alpha) as u8);
            }
        }
        p.truncate(n);
        let d = match r.below(4) {
            0 => comp::zlib_deflate(&p, r.range(4, 9) as i32, 0, 15, 8, 0, 0),
            1 => comp::zlib_deflate(&p, 9, 0, 15, r.range(5, 9) as i32, 0, 0),
            2 => comp::zng_deflate(&p, r.range(3, 9) as i32, 0, 15, 8),
            _ => comp::libdeflate_deflate(&p, r.range(2, 9) as i32),
        };
        if let streams::Outcome::Ok(x) = streams::decompress(&d, true) {
            match comp::zlib_inflate_raw(&d[..x.size], 1 << 28) {
                Some((pp, nn)) if pp == x.plain && nn == x.size => {}
                _ => continue,
            }
            writeln!(st, "stream {} {}", hex(&d[..x.size]), hex(&x.corr)).unwrap();
            kept += 1;
        }
    }
    std::fs::write(format!("{dir}/streams.txt"), st).unwrap();
    let (a, b) = vh::format_versions();
    std::fs::write(format!("{dir}/versions.txt"), format!("{a} {b}\n")).unwrap();
    eprintln!("deep golden corpus: {kept} items written to {dir}");
}

fn golden_dirs() -> Vec<String> {
    let base = concat!(env!("CARGO_MANIFEST_DIR"), "/../corpus/golden");
    let mut v = Vec::new();
    if let Ok(rd) = std::fs::read_dir(base) {
        for e in rd.filter_map(|e| e.ok()) {
            if e.path().is_dir() {
                v.push(e.path().to_string_lossy().to_string());
            }
        }
    }
    v.sort();
    v
}

pub fn check_item(line: &str) -> CaseOut {
    crate::util::in_flight(line);
    let mut out = CaseOut::default();
    let t: Vec<&str> = line.split(' ').collect();
    let fail = |sig: String, detail: String| Failure { kind: "oracle".into(), signature: sig, detail, replay: line.to_string() };
    match t[0] {
        "stream" | "pstream" => {
            let d = unhex(t[1]);
            let corr = unhex(t[2]);
            let plain = match comp::zlib_inflate_raw(&d, 1 << 28) {
                Some((p, n)) if n == d.len() => p,
                _ => {
                    out.failures.push(Failure { kind: "internal".into(), signature: "golden-item-unreadable".into(), detail: "zlib cannot inflate a golden stream".into(), replay: line.to_string() });
                    return out;
                }
            };
            match guarded(|| recompress_deflate_stream(&plain, &corr)) {
                Run::Panic(p) => out.failures.push(fail(format!("{}-panic {}", t[0], panic_signature(&p)), format!("current recompress_deflate_stream panicked on reference-written corrections: {p}"))),
                Run::Done(Err(e)) => out.failures.push(fail(format!("{}-err", t[0]), format!("current recompress_deflate_stream returned Err({:?}) on reference-written corrections", e.exit_code()))),
                Run::Done(Ok(y)) => {
                    if y != d {
                        let at = y.iter().zip(d.iter()).position(|(a, b)| a != b).unwrap_or(y.len().min(d.len()));
                        out.failures.push(fail(format!("{}-differs", t[0]), format!("current build reconstructs {} bytes, reference stream has {}; first difference at {at}", y.len(), d.len())));
                    }
                }
            }
            out.tags.push(t[0].to_string());
            out.nontrivial = Some(fnv64(&d) ^ fnv64(&corr).rotate_left(9));
            out.sample = Some(format!("{} D={}B corr={}B plain={}B", t[0], d.len(), corr.len(), plain.len()));
        }
        "file" => {
            let f = unhex(t[1]);
            let n: usize = t[2].parse().unwrap();
            let c = zstd::bulk::decompress(&unhex(t[3]), n + 16).unwrap();
            match container::recreate_plain(&c) {
                Run::Panic(p) => out.failures.push(fail(format!("file-panic {}", panic_signature(&p)), format!("current recreated_zlib_chunks panicked on a reference-written container: {p}"))),
                Run::Done(Err(e)) => out.failures.push(fail("file-err".into(), format!("current recreated_zlib_chunks returned Err({e}) on a reference-written container"))),
                Run::Done(Ok(g)) => {
                    if g != f {
                        out.failures.push(fail("file-differs".into(), "current build reconstructs a different file from a reference-written container".into()));
                    }
                }
            }
            out.tags.push("file".into());
            out.nontrivial = Some(fnv64(&f));
            out.sample = Some(format!("file F={}B container={}B", f.len(), c.len()));
        }
        _ => {}
    }
    out
}

pub fn run(ctx: &Ctx) -> (Summary, String) {
    let mut s = Summary::default();
    let mut lines: Vec<String> = Vec::new();
    let mut ref_versions: Option<String> = None;
    for d in golden_dirs() {
        for f in ["streams.txt", "files.txt"] {
            if let Ok(t) = std::fs::read_to_string(format!("{d}/{f}")) {
                lines.extend(t.lines().map(|l| l.to_string()));
            }
        }
        if let Ok(v) = std::fs::read_to_string(format!("{d}/versions.txt")) {
            ref_versions = Some(v.trim().to_string());
        }
    }
    let (a, b) = vh::format_versions();
    let cur = format!("{a} {b}");
    let announced = ref_versions.as_deref().map(|r| r != cur).unwrap_or(false);
    let extra = format!(
        " \"reference_versions\": {}, \"current_versions\": {}, \"format_change_announced\": {},\n",
        crate::wire::json_str(ref_versions.as_deref().unwrap_or("missing")),
        crate::wire::json_str(&cur),
        announced
    );
    if lines.is_empty() {
        let mut c = CaseOut::default();
        c.failures.push(Failure { kind: "internal".into(), signature: "golden-corpus-missing".into(), detail: "no golden corpus under /verif/corpus/golden".into(), replay: String::new() });
        s.absorb(c);
        return (s, extra);
    }
    let t = crate::run_cases(ctx, lines.len() as u64, |i| {
        let mut c = check_item(&lines[i as usize]);
        if announced {
            // a declared format change: the property holds vacuously for this pair of builds
            for f in c.failures.drain(..) {
                c.tags.push(format!("ignored-after-version-bump:{}", f.signature));
            }
        }
        c
    });
    crate::merge(&mut s, t);
    if !announced {
        s.requests.extend(model_writer_requests(ctx));
        s.requests.extend(policy_requests());
    }
    (s, extra)
}

/// model as writer (C04): requests for the frozen model to produce corrections for fresh streams
/// under the estimator's and perturbed in-range parameters; `verify_model_written` then feeds what
/// the model wrote to the CURRENT reader
pub fn model_writer_requests(ctx: &Ctx) -> Vec<(String, String)> {
    let n = ctx.n(800, 16000);
    let mut out = Vec::new();
    for i in 0..n {
        let c = streams::case(ctx.seed ^ 0xC04, i, 6000, true);
        let d = &c.s.bytes;
        if d.len() > 5000 {
            continue;
        }
        let size = match comp::zlib_inflate_raw(d, 1 << 26) {
            Some((_, n)) => n,
            None => continue,
        };
        let base = match guarded(|| vh::estimate(d)) {
            Run::Done(Ok(v)) => v,
            _ => continue,
        };
        let mut vs = vec![base.clone()];
        if base[4] != 0 {
            let mut r = Rng::new(ctx.seed ^ (i << 12));
            vs.push(streams::perturb(&mut r, &base, 255));
        }
        for v in vs {
            let vs: Vec<String> = v.iter().map(|x| x.to_string()).collect();
            out.push((format!("analyzefull {} {}", vs.join(" "), hex(&d[..size])), "*".to_string()));
        }
    }
    // whole containers written by the frozen model of the library (scanner, chunk framing, IDAT
    // descriptors, stream corrections): the CURRENT recreated_zlib_chunks must reproduce the file
    let nfiles = ctx.n(120, 2500);
    for i in 0..nfiles {
        let fc = crate::container::file_case(ctx.seed ^ 0xC04F, i, 2500);
        if fc.bytes.len() <= 3000 {
            out.push((format!("libraryfull {}", hex(&fc.bytes)), "*".to_string()));
        }
    }
    out
}

/// second stage of C04: `requests` are the analyzefull lines, `answers` what the model answered
pub fn verify_model_written(dir: &str) -> bool {
    let reqs = std::fs::read_to_string(format!("{dir}/requests.txt")).unwrap_or_default();
    let answers = std::fs::read_to_string(format!("{dir}/model.txt")).unwrap_or_default();
    let mut ok = true;
    let (mut n, mut accepted) = (0, 0);
    for (rq, an) in reqs.lines().zip(answers.lines()) {
        if !rq.starts_with("analyzefull ") {
            continue;
        }
        n += 1;
        let d = unhex(rq.rsplit(' ').next().unwrap());
        let t: Vec<&str> = an.split(' ').collect();
        if t.len() != 3 || t[0] != "ok" {
            continue; // the reference semantics reject this (stream, parameters) pair: nothing was written
        }
        accepted += 1;
        let corr = unhex(t[2]);
        let size: usize = t[1].parse().unwrap_or(0);
        let plain = match comp::zlib_inflate_raw(&d, 1 << 28) {
            Some((p, _)) => p,
            None => continue,
        };
        let verdict = match guarded(|| recompress_deflate_stream(&plain, &corr)) {
            Run::Panic(p) => Some(format!("model-written-panic {}", panic_signature(&p))),
            Run::Done(Err(e)) => Some(format!("model-written-err {:?}", e.exit_code())),
            Run::Done(Ok(y)) => {
                if size <= d.len() && y[..] == d[..size] {
                    None
                } else {
                    Some("model-written-differs".to_string())
                }
            }
        };
        if let Some(v) = verdict {
            ok = false;
            println!("FAIL {v} | current recompress_deflate_stream does not reproduce the stream from corrections written by the reference model | {rq}");
        }
    }
    println!("model-as-writer: {n} requests, {accepted} written by the model and decoded by the current build");
    let (mut nf, mut nfw) = (0, 0);
    for (rq, an) in reqs.lines().zip(answers.lines()) {
        if !rq.starts_with("libraryfull ") {
            continue;
        }
        nf += 1;
        let f = unhex(rq.rsplit(' ').next().unwrap());
        let t: Vec<&str> = an.split(' ').collect();
        if t.len() != 2 || t[0] != "ok" {
            continue;
        }
        nfw += 1;
        let c = unhex(t[1]);
        let verdict = match crate::container::recreate_plain(&c) {
            Run::Panic(p) => Some(format!("model-written-container-panic {}", panic_signature(&p))),
            Run::Done(Err(e)) => Some(format!("model-written-container-err {e}")),
            Run::Done(Ok(g)) => if g == f { None } else { Some("model-written-container-differs".to_string()) },
        };
        if let Some(v) = verdict {
            ok = false;
            println!("FAIL {v} | current recreated_zlib_chunks does not reproduce the file from the container written by the reference model | {rq}");
        }
    }
    println!("model-as-writer: {nf} files, {nfw} containers written by the model and decoded by the current build");
    ok
}

pub fn check(dir: &str, ctx: &Ctx) -> bool {
    let mut ok = true;
    for f in ["streams.txt", "files.txt"] {
        if let Ok(t) = std::fs::read_to_string(format!("{dir}/{f}")) {
            let lines: Vec<String> = t.lines().map(|l| l.to_string()).collect();
            let s = crate::run_cases(ctx, lines.len() as u64, |i| check_item(&lines[i as usize]));
            for fl in &s.failures {
                println!("FAIL {} {}", fl.signature, fl.detail);
                ok = false;
            }
            println!("{f}: {} items, {} failures", s.evaluations, s.failures.len());
        }
    }
    ok
}


/// the add-policy dispatch is part of the stored format (which positions enter the hash chains decides every hop
/// count): what `DictionaryAddPolicy::update_hash` passes on, for every policy, at every position around the
/// 4 KiB and 32 KiB rules and around the limit, against the model's `updateCalls` (proved to be what the
/// model's `policyUpdate` performs: `policyUpdate_eq_calls`)
pub fn policy_requests() -> Vec<(String, String)> {
    let mut out = Vec::new();
    let mut positions: Vec<u32> = (0..6).collect();
    for k in 1..4u32 {
        positions.extend(k * 4096 - 8..k * 4096 + 4);
    }
    for k in 1..3u32 {
        positions.extend(k * 32768 - 0x106 - 262..k * 32768 - 0x106 + 4);
        positions.extend(k * 32768 - 4..k * 32768 + 4);
    }
    let lens_base: [u32; 9] = [1, 2, 3, 4, 5, 6, 256, 257, 258];
    for (pol, limits) in [(0u32, vec![0u32]), (1, vec![0, 1, 3, 4, 16, 255]), (2, vec![0, 1, 3, 4, 16, 255]), (3, vec![0]), (4, vec![0])] {
        for lim in limits {
            let mut lens: Vec<u32> = lens_base.to_vec();
            if lim > 1 {
                lens.extend([lim - 1, lim, lim + 1]);
            }
            if pol == 4 {
                lens.extend(7..40);
                lens.extend([100, 200, 250, 255]);
            }
            lens.sort();
            lens.dedup();
            for &pos in &positions {
                // the 32 KiB rule depends on pos + len crossing the boundary: every position matters there;
                // for the other policies a thinner set of positions is enough
                if pol != 4 && pol != 3 && !(pos < 6 || pos % 4096 >= 4090 || pos % 4096 < 3) {
                    continue;
                }
                for &len in &lens {
                    if len == 0 {
                        continue;
                    }
                    let resp = match vh::add_policy_update_calls(pol, lim, pos, len) {
                        Ok(calls) => format!("calls {}", calls.iter().map(|(p, l)| format!("{p}:{l}")).collect::<Vec<_>>().join(",")),
                        Err(e) => format!("err {e}"),
                    };
                    out.push((format!("policy {pol} {lim} {pos} {len}"), resp));
                }
            }
        }
    }
    out
}
