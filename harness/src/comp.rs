//! Real compressors (zlib, zlib-ng, libdeflate, miniz_oxide) and zlib's inflate as oracle.
use std::{mem, ptr};

pub fn zlib_deflate(
    input: &[u8],
    level: i32,
    strategy: i32,
    wbits: i32,
    mem_level: i32,
    flush_every: usize,
    flush_mode: i32,
) -> Vec<u8> {
    use libz_sys::*;
    let mut output = vec![0u8; input.len() + input.len() / 4 + 4000 + 16 * (input.len() / flush_every.max(1) + 1)];
    unsafe {
        let mut zs: z_stream = zeroed::z();
        assert_eq!(
            deflateInit2_(
                &mut zs,
                level,
                Z_DEFLATED,
                -wbits,
                mem_level,
                strategy,
                zlibVersion(),
                mem::size_of::<z_stream>() as i32
            ),
            Z_OK
        );
        zs.next_out = output.as_mut_ptr();
        zs.avail_out = output.len() as u32;
        let mut off = 0usize;
        if flush_every > 0 {
            while off + flush_every < input.len() {
                zs.next_in = input[off..].as_ptr() as *mut _;
                zs.avail_in = flush_every as u32;
                let r = deflate(&mut zs, flush_mode);
                assert!(r == Z_OK, "deflate flush {r}");
                off += flush_every;
            }
        }
        zs.next_in = input[off..].as_ptr() as *mut _;
        zs.avail_in = (input.len() - off) as u32;
        assert_eq!(Z_STREAM_END, deflate(&mut zs, Z_FINISH));
        output.truncate(zs.total_out as usize);
        deflateEnd(&mut zs);
    }
    output
}

mod zeroed {
    // z_stream has function-pointer fields that must be null for "use default allocator"
    #[allow(invalid_value)]
    pub unsafe fn z() -> libz_sys::z_stream {
        std::mem::MaybeUninit::<libz_sys::z_stream>::zeroed().assume_init()
    }
    #[allow(invalid_value)]
    pub unsafe fn zng() -> libz_ng_sys::z_stream {
        std::mem::MaybeUninit::<libz_ng_sys::z_stream>::zeroed().assume_init()
    }
}

pub fn zng_deflate(input: &[u8], level: i32, strategy: i32, wbits: i32, mem_level: i32) -> Vec<u8> {
    use libz_ng_sys::*;
    let mut output = vec![0u8; input.len() + input.len() / 4 + 4000];
    unsafe {
        let mut zs = zeroed::zng();
        assert_eq!(
            deflateInit2_(
                &mut zs,
                level,
                Z_DEFLATED,
                -wbits,
                mem_level,
                strategy,
                zlibVersion(),
                std::mem::size_of::<z_stream>() as i32
            ),
            Z_OK
        );
        zs.next_in = input.as_ptr() as *mut _;
        zs.avail_in = input.len() as u32;
        zs.next_out = output.as_mut_ptr();
        zs.avail_out = output.len() as u32;
        assert_eq!(Z_STREAM_END, deflate(&mut zs, Z_FINISH));
        output.truncate(zs.total_out as usize);
        deflateEnd(&mut zs);
    }
    output
}

pub fn libdeflate_deflate(input: &[u8], level: i32) -> Vec<u8> {
    use libdeflate_sys::*;
    unsafe {
        let mut out = vec![0u8; input.len() + input.len() / 4 + 4000];
        let c = libdeflate_alloc_compressor(level);
        let sz = libdeflate_deflate_compress(
            c,
            input.as_ptr() as *const _,
            input.len(),
            out.as_mut_ptr() as *mut _,
            out.len(),
        );
        libdeflate_free_compressor(c);
        out.truncate(sz);
        out
    }
}

pub fn miniz_deflate(input: &[u8], level: u8) -> Vec<u8> {
    miniz_oxide::deflate::compress_to_vec(input, level)
}

/// zlib's inflate in raw mode with a 32 KiB window. Returns (output, bytes consumed) when the
/// stream ends properly (Z_STREAM_END); None otherwise (error or truncated).
pub fn zlib_inflate_raw(input: &[u8], max_out: usize) -> Option<(Vec<u8>, usize)> {
    use libz_sys::*;
    let _ = ptr::null::<u8>();
    unsafe {
        let mut zs = zeroed::z();
        if inflateInit2_(
            &mut zs,
            -15,
            zlibVersion(),
            std::mem::size_of::<z_stream>() as i32,
        ) != Z_OK
        {
            return None;
        }
        let mut out: Vec<u8> = Vec::new();
        let mut buf = vec![0u8; 1 << 16];
        zs.next_in = input.as_ptr() as *mut _;
        zs.avail_in = input.len() as u32;
        let res = loop {
            zs.next_out = buf.as_mut_ptr();
            zs.avail_out = buf.len() as u32;
            let r = inflate(&mut zs, Z_NO_FLUSH);
            let produced = buf.len() - zs.avail_out as usize;
            out.extend_from_slice(&buf[..produced]);
            if out.len() > max_out {
                break None;
            }
            if r == Z_STREAM_END {
                break Some((zs.total_in as usize,));
            }
            if r != Z_OK {
                break None;
            }
            if zs.avail_in == 0 && produced == 0 {
                break None; // truncated
            }
        };
        inflateEnd(&mut zs);
        res.map(|(n,)| (out, n))
    }
}
