//! PRNG, hex, digests, panic capture.
use std::cell::RefCell;
use std::panic::{catch_unwind, AssertUnwindSafe};

#[derive(Clone)]
pub struct Rng(pub u64);
impl Rng {
    pub fn new(seed: u64) -> Self {
        Rng(seed ^ 0x5851F42D4C957F2D)
    }
    pub fn next(&mut self) -> u64 {
        self.0 = self.0.wrapping_add(0x9E3779B97F4A7C15);
        let mut z = self.0;
        z = (z ^ (z >> 30)).wrapping_mul(0xBF58476D1CE4E5B9);
        z = (z ^ (z >> 27)).wrapping_mul(0x94D049BB133111EB);
        z ^ (z >> 31)
    }
    pub fn below(&mut self, n: u64) -> u64 {
        if n == 0 {
            0
        } else {
            self.next() % n
        }
    }
    pub fn range(&mut self, lo: u64, hi: u64) -> u64 {
        lo + self.below(hi - lo + 1)
    }
    pub fn chance(&mut self, num: u64, den: u64) -> bool {
        self.below(den) < num
    }
    pub fn pick<'a, T>(&mut self, v: &'a [T]) -> &'a T {
        &v[self.below(v.len() as u64) as usize]
    }
    pub fn fork(&mut self) -> Rng {
        Rng(self.next())
    }
}

pub fn hex(b: &[u8]) -> String {
    if b.is_empty() {
        return "-".into();
    }
    let mut s = String::with_capacity(b.len() * 2);
    for x in b {
        s.push(char::from_digit((x >> 4) as u32, 16).unwrap());
        s.push(char::from_digit((x & 15) as u32, 16).unwrap());
    }
    s
}

pub fn unhex(s: &str) -> Vec<u8> {
    if s == "-" {
        return Vec::new();
    }
    let b = s.as_bytes();
    (0..b.len() / 2)
        .map(|i| {
            let h = (b[2 * i] as char).to_digit(16).unwrap() as u8;
            let l = (b[2 * i + 1] as char).to_digit(16).unwrap() as u8;
            (h << 4) | l
        })
        .collect()
}

pub fn fnv64(b: &[u8]) -> u64 {
    let mut h: u64 = 0xcbf29ce484222325;
    for &x in b {
        h ^= x as u64;
        h = h.wrapping_mul(0x100000001b3);
    }
    h
}

pub struct Fnv(pub u64);
impl Fnv {
    pub fn new() -> Self {
        Fnv(0xcbf29ce484222325)
    }
    pub fn byte(&mut self, x: u8) {
        self.0 ^= x as u64;
        self.0 = self.0.wrapping_mul(0x100000001b3);
    }
    /// feeds a number as 8 little-endian bytes
    pub fn num(&mut self, x: u64) {
        for i in 0..8 {
            self.byte((x >> (8 * i)) as u8);
        }
    }
}

thread_local! {
    static LAST_PANIC: RefCell<String> = const { RefCell::new(String::new()) };
}

pub fn install_panic_hook() {
    std::panic::set_hook(Box::new(|i| {
        let loc = i
            .location()
            .map(|l| format!("{}:{}", l.file(), l.line()))
            .unwrap_or_default();
        let msg = if let Some(s) = i.payload().downcast_ref::<&str>() {
            s.to_string()
        } else if let Some(s) = i.payload().downcast_ref::<String>() {
            s.clone()
        } else {
            String::new()
        };
        let msg: String = msg.chars().take(120).collect();
        LAST_PANIC.with(|l| *l.borrow_mut() = format!("{loc} {msg}"));
    }));
}

/// Outcome of running code that may panic.
pub enum Run<T> {
    Done(T),
    Panic(String),
}

pub fn guarded<T>(f: impl FnOnce() -> T) -> Run<T> {
    match catch_unwind(AssertUnwindSafe(f)) {
        Ok(v) => Run::Done(v),
        Err(_) => Run::Panic(LAST_PANIC.with(|l| l.borrow().clone())),
    }
}

/// panic signature that survives unrelated edits: file + message class, no line number
pub fn panic_signature(p: &str) -> String {
    let mut it = p.splitn(2, ' ');
    let loc = it.next().unwrap_or("");
    let msg = it.next().unwrap_or("");
    let file = loc.rsplit('/').next().unwrap_or(loc);
    let file = file.split(':').next().unwrap_or(file);
    let class: String = msg
        .chars()
        .map(|c| if c.is_ascii_digit() { '#' } else { c })
        .collect();
    let mut out = String::new();
    let mut prev = ' ';
    for c in class.chars() {
        if !(c == '#' && prev == '#') {
            out.push(c);
        }
        prev = c;
    }
    let out: String = out.chars().take(60).collect();
    format!("{file}: {out}")
}

// ---------------------------------------------------------------------------------------
// watchdog: a call into the library that neither returns nor panics (endless loop, runaway
// allocation) must not stall the check; the case in flight is reported as a failure

use std::collections::HashMap;
use std::sync::Mutex;
use std::time::Instant;

// Time limits are measured in CPU time of the thread that runs the case, not in wall-clock time: on a loaded
// machine (other checks running, memory pressure) a case can be starved for minutes without the library
// looping, and a check must not call that a hang. Wall-clock time only decides when to LOOK (and, at ten
// times the limit, catches a call that is blocked without burning CPU).
static INFLIGHT: Mutex<Option<HashMap<std::thread::ThreadId, (Instant, String, libc::clockid_t, f64)>>> = Mutex::new(None);

fn clock_secs(clock: libc::clockid_t) -> Option<f64> {
    let mut ts = libc::timespec { tv_sec: 0, tv_nsec: 0 };
    if unsafe { libc::clock_gettime(clock, &mut ts) } == 0 {
        Some(ts.tv_sec as f64 + ts.tv_nsec as f64 * 1e-9)
    } else {
        None
    }
}

thread_local! {
    static MY_CPU_CLOCK: libc::clockid_t = {
        let mut c: libc::clockid_t = 0;
        if unsafe { libc::pthread_getcpuclockid(libc::pthread_self(), &mut c) } == 0 { c } else { libc::CLOCK_THREAD_CPUTIME_ID }
    };
}

/// CPU seconds consumed so far by the calling thread
pub fn thread_cpu_secs() -> f64 {
    clock_secs(libc::CLOCK_THREAD_CPUTIME_ID).unwrap_or(0.0)
}

/// note what the current thread is about to run (the replay line of the case)
pub fn in_flight(desc: &str) {
    let clock = MY_CPU_CLOCK.with(|c| *c);
    let cpu0 = thread_cpu_secs();
    let mut g = INFLIGHT.lock().unwrap();
    g.get_or_insert_with(HashMap::new).insert(std::thread::current().id(), (Instant::now(), desc.to_string(), clock, cpu0));
}

pub fn done_flight() {
    let mut g = INFLIGHT.lock().unwrap();
    if let Some(m) = g.as_mut() {
        m.remove(&std::thread::current().id());
    }
}

fn rss_bytes() -> u64 {
    std::fs::read_to_string("/proc/self/statm")
        .ok()
        .and_then(|s| s.split(' ').nth(1).and_then(|x| x.parse::<u64>().ok()))
        .map(|pages| pages * 4096)
        .unwrap_or(0)
}

/// starts the watchdog; `limit_s` = longest a single case may run, `out` = run directory
pub fn start_watchdog(prop: String, tier: String, seed: u64, out: String, limit_s: u64) {
    std::thread::spawn(move || loop {
        std::thread::sleep(std::time::Duration::from_millis(1500));
        let rss = rss_bytes();
        let mut stuck: Vec<(f64, String)> = Vec::new();
        {
            let g = INFLIGHT.lock().unwrap();
            if let Some(m) = g.as_ref() {
                for (_, (t, d, clock, cpu0)) in m.iter() {
                    let age = t.elapsed().as_secs_f64();
                    if rss > 20_000_000_000 {
                        stuck.push((age, d.clone()));
                    } else if age > limit_s as f64 {
                        // the case has been in flight for longer than the limit: has its thread been COMPUTING that long?
                        let cpu = clock_secs(*clock).map(|c| c - cpu0).unwrap_or(0.0);
                        if cpu > limit_s as f64 * 0.9 || age > 10.0 * limit_s as f64 {
                            stuck.push((cpu.max(0.0), d.clone()));
                        }
                    }
                }
            }
        }
        if stuck.is_empty() {
            continue;
        }
        stuck.sort_by(|a, b| b.0.partial_cmp(&a.0).unwrap());
        let (age, desc) = &stuck[0];
        let _ = std::fs::create_dir_all(&out);
        let esc = |s: &str| s.replace('\\', "\\\\").replace('"', "\\\"").replace('\n', "\\n");
        let j = format!(
            "{{\n \"property\": \"{prop}\", \"tier\": \"{tier}\", \"seed\": {seed},\n \"evaluations\": 1, \"distinct_nontrivial\": 0, \"rule\": \"run aborted by the watchdog\", \"requests\": 0,\n \"distribution\": {{}}, \"samples\": [],\n \"failures\": [\n  {{\"kind\": \"oracle\", \"signature\": \"hang-or-runaway-allocation\", \"count\": {}, \"detail\": \"a library call did not return within {limit_s} s of CPU time (or 10x that in wall-clock time) or the process grew past 20 GB (consumed {:.0} s, resident {} MB); the case in flight is the replay\", \"replay\": \"{}\"}}\n ]\n}}\n",
            stuck.len(), age, rss / 1_000_000, esc(desc)
        );
        let _ = std::fs::write(format!("{out}/summary.json"), j);
        let _ = std::fs::write(format!("{out}/requests.txt"), "");
        let _ = std::fs::write(format!("{out}/impl.txt"), "");
        std::process::exit(0);
    });
}
