import Preflate.Driver.Wire
import Preflate.Driver.CodecWire
import Preflate.Driver.ContainerWire
import Preflate.Driver.AnalyzeWire
open Preflate Preflate.Driver

def handle (line : String) : String :=
  match line.trimAscii.toString.splitOn " " with
  | ["parse", d] => parseLine (unhex d)
  | ["rewrite", d] => rewriteLine (unhex d)
  | ["spec", d] => specLine (unhex d)
  | ["specrfc", d] => specRfcLine (unhex d)
  | "scan" :: f :: _ :: entries => scanLine (unhex f) entries
  | "recreateio" :: c :: rs :: ws :: _ :: entries => recreateIoLine (unhex c) rs ws entries
  | ["library", f] => libraryLine (unhex f)
  | ["libraryfull", f] => libraryFullLine (unhex f)
  | ["libraryio", c, rs, ws] => libraryIoLine (unhex c) rs ws
  | ["estimate", d] => estimateLine (unhex d)
  | ["estimatefull", d] => estimateFullLine (unhex d)
  | ["public", d] => publicLine (unhex d)
  | ["recompress", p, c] => recompressLine (unhex p) (unhex c)
  | "inrange" :: rest => inRangeLine rest
  | "chk" :: rest => chkLine rest
  | "policy" :: rest => policyLine rest
  | "analyze" :: rest => analyzeLine rest
  | "analyzefull" :: rest => analyzeFullLine rest
  | "codec" :: ops => (match parseOps ops with | some o => codecLine o | none => "bad-request")
  | "events" :: ops => (match parseOps ops with | some o => eventsLine o | none => "bad-request")
  | _ => "bad-request"

partial def loop (h : IO.FS.Stream) (out : IO.FS.Stream) : IO Unit := do
  let line ← h.getLine
  if line.isEmpty then return ()
  out.putStrLn (handle line)
  loop h out

def main : IO Unit := do
  let out ← IO.getStdout
  loop (← IO.getStdin) out
