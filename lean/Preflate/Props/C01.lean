/-
C01 — Container round trip is exact and total for every byte string.

Model: Preflate/Model/Container.lean (scanner, chunk writer / reader, IDAT, varint). The stream
analysis is an oracle: the theorem needs NO fact about the predictor, only that the scanner
accepts a stream after the same reconstruction check that the reader will later repeat.
-/
import Preflate.Proofs.Container
namespace Preflate

/-- For every byte string F below 2^32 bytes: `expand` returns Ok without panicking — every slice
    index in the scanner, the header skippers, parse_idat and the chunk writer is in range — and
    `recreate` applied to its output returns exactly F: every input byte is covered by exactly one
    chunk, literal bytes are copied, accepted streams are reconstructed by the same deterministic
    function on the same two byte strings, IDAT chunking / CRCs / zlib header / Adler-32 are
    replayed. Hypotheses: `hpanic` is property C05 (the analysis itself does not panic); `hsize`
    (plaintext and corrections below 2^32 bytes, the width of the chunk length fields) is the part
    that makes this `_partial` with respect to "all |F| < 2^32": a small file can contain a stream
    that expands past 2^32 bytes. -/
theorem recreate_expand_partial (o : Oracle) (crc : Bytes → Nat) (f : Bytes)
    (hb : ∀ b ∈ f, b < 256) (hf : f.length < 2 ^ 32)
    (hpanic : ∀ d m, o.verified d ≠ .error (.panic m))
    (hsize : ∀ d r, o.verified d = .ok r → r.plain.length < 2 ^ 32 ∧ r.corr.length < 2 ^ 32) :
    ∃ c, expand o crc f = .ok c ∧ recreate o crc c = .ok f :=
  Proofs.recreate_expand o crc f hb hf hpanic hsize

/-- the constants the model hard-codes are the ones in the source now -/
theorem container_constants_match_source :
    Gen.WRAPPER_VERSION = 1 ∧ Gen.CHUNK_TAGS = [0, 1, 2] ∧ Gen.VARINT_SHAPE = [127, 7, 128] ∧
    Gen.ZIP_LOCAL_FILE_HEADER_SIGNATURE = 0x04034b50 ∧ Gen.ZIP_METHOD_DEFLATE = 8 ∧
    Gen.GZIP_FLAG_MASKS = [4, 8, 16, 2] ∧ Gen.GZIP_FIXED_HEADER = 10 ∧ Gen.GZIP_METHOD = 8 ∧
    Gen.IDAT_LOOKBACK = 4 ∧
    Gen.SIGNATURES = [(0x0178, "Zlib", 0), (0x5E78, "Zlib", 1), (0x9C78, "Zlib", 5), (0xDA78, "Zlib", 8),
      (0x4B50, "ZipLocalFileHeader", 0), (0x8B1F, "Gzip", 0), (0x4449, "IDAT", 0)] := by
  decide

/-- Non-vacuity: an oracle that rejects everything satisfies the hypotheses; a file full of
    signature look-alikes round-trips. -/
def rejectAll : Oracle := ⟨fun _ => .error .err, fun _ _ => .error .err⟩

def lookalikes : Bytes := [0x78, 0x9c, 0x50, 0x4b, 0x1f, 0x8b, 8, 0x49, 0x44, 0x41, 0x54]

def lookalikesRoundTrip : Bool :=
  match expand rejectAll (fun _ => 0) lookalikes with
  | .ok c => (match recreate rejectAll (fun _ => 0) c with | .ok g => g == lookalikes | .error _ => false)
  | .error _ => false

example : lookalikesRoundTrip = true := by decide +kernel

end Preflate
