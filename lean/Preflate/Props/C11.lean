/-
C11 — zstd wrappers round-trip; capacity and framing problems are errors.
Corollaries of C01 (`recreate_expand_partial`) and the `Zstd` laws (Model/Api.lean).
-/
import Preflate.Model.Api
import Preflate.Props.C01
namespace Preflate

/-- capacity at least the size of the expanded intermediate form ⇒ F comes back -/
theorem zstd_roundtrip (z : Zstd) (o : Oracle) (crc : Bytes → Nat) (f : Bytes)
    (hb : ∀ b ∈ f, b < 256) (hf : f.length < 2 ^ 32)
    (hpanic : ∀ d m, o.verified d ≠ .error (.panic m))
    (hsize : ∀ d r, o.verified d = .ok r → r.plain.length < 2 ^ 32 ∧ r.corr.length < 2 ^ 32) :
    ∃ c y, expand o crc f = .ok c ∧ compressZstd z o crc f = .ok y ∧
      ∀ cap, c.length ≤ cap → decompressZstd z o crc y cap = .ok f := by
  obtain ⟨c, hc, hr⟩ := recreate_expand_partial o crc f hb hf hpanic hsize
  refine ⟨c, z.compress c, hc, ?_, ?_⟩
  · simp [compressZstd, hc, bind, Except.bind]
  · intro cap hcap
    simp [decompressZstd, z.roundtrip c cap hcap, hr, bind, Except.bind]

/-- a smaller capacity is an error: never Ok, never truncated data -/
theorem zstd_small_cap (z : Zstd) (o : Oracle) (crc : Bytes → Nat) (f c : Bytes)
    (hc : expand o crc f = .ok c) (cap : Nat) (hcap : cap < c.length) :
    compressZstd z o crc f = .ok (z.compress c) ∧
    decompressZstd z o crc (z.compress c) cap = .error .err := by
  constructor
  · simp [compressZstd, hc, bind, Except.bind]
  · simp [decompressZstd, z.too_small c cap hcap, bind, Except.bind]

/-- input that zstd rejects is rejected: an Err, not a panic -/
theorem zstd_not_frame (z : Zstd) (o : Oracle) (crc : Bytes → Nat) (y : Bytes) (cap : Nat) (e : Fail)
    (h : z.decompress y cap = .error e) :
    decompressZstd z o crc y cap = .error e ∧ ∀ m, e ≠ .panic m := by
  constructor
  · simp [decompressZstd, h, bind, Except.bind]
  · intro m hm
    exact z.no_panic y cap m (hm ▸ h)

/-- whatever decompress_zstd returns as Ok was reconstructed from an intermediate form within the
    capacity (no truncated frame is ever interpreted) -/
theorem zstd_ok_within_capacity (z : Zstd) (o : Oracle) (crc : Bytes → Nat) (y : Bytes) (cap : Nat) (f : Bytes)
    (h : decompressZstd z o crc y cap = .ok f) :
    ∃ c, z.decompress y cap = .ok c ∧ c.length ≤ cap ∧ recreate o crc c = .ok f := by
  unfold decompressZstd at h
  cases hd : z.decompress y cap with
  | error e => simp [hd, bind, Except.bind] at h
  | ok c =>
    refine ⟨c, rfl, z.bounded y cap c hd, ?_⟩
    simpa [hd, bind, Except.bind] using h

/-- Non-vacuity: the `Zstd` laws are satisfiable (a "store" codec meets all of them), so the
    theorems above are not vacuous in `z`. -/
def storeZstd : Zstd where
  compress x := x
  decompress y cap := if y.length ≤ cap then .ok y else .error .err
  compressToBuffer x cap := if x.length ≤ cap then .ok x else .error .err
  roundtrip := by intro x cap h; simp [h]
  too_small := by intro x cap h; simp [Nat.not_le.mpr h]
  bounded := by
    intro y cap x h
    by_cases hy : y.length ≤ cap
    · simp [hy] at h; exact h ▸ hy
    · simp [hy] at h
  no_panic := by
    intro y cap m
    by_cases hy : y.length ≤ cap <;> simp [hy]
  to_buffer := by intro x cap; rfl

end Preflate
