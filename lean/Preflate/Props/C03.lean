/-
C03 — Recovered plaintext and consumed length agree with a reference inflater.

zlib is C code outside Lean. The Lean side contains `Spec.inflate` (Model/Spec.lean), a
transcription of RFC 1951 §3.2 written without the repository's tables. Proved here: the model
parser over the tables REGENERATED from preflate_constants.rs / huffman_encoding.rs is the same
function as the RFC-table transcription — for every code, not for sampled streams. The harness
compares, on every run, the implementation, zlib's inflate and `Spec.inflate` (through the model
driver) on the same streams. Chain: zlib ≈ Spec (differential) = model (theorem) ≈ code
(correspondence).
-/
import Preflate.Proofs.Spec
import Preflate.Proofs.HuffTree
namespace Preflate

/-- every length code: base and extra bits equal the RFC 1951 §3.2.5 closed forms -/
theorem length_tables_are_rfc :
    (List.range 29).all (fun c => lengthBase c == Spec.lengthBase c && lengthExtra c == Spec.lengthExtra c) = true ∧
    Gen.LENGTH_BASE_TABLE.length = 29 ∧ Gen.LENGTH_EXTRA_TABLE.length = 29 ∧
    Gen.LEN_CODE_COUNT = 29 ∧ Gen.NONLEN_CODE_COUNT = 257 ∧ Gen.MIN_MATCH = 3 := by
  decide +kernel

/-- every distance code -/
theorem dist_tables_are_rfc :
    (List.range 30).all (fun c => distBase c == Spec.distBase c && distExtra c == Spec.distExtra c) = true ∧
    Gen.DIST_BASE_TABLE.length = 30 ∧ Gen.DIST_EXTRA_TABLE.length = 30 ∧ Gen.DIST_CODE_COUNT = 30 := by
  decide +kernel

/-- the fixed Huffman code is the RFC's (§3.2.6), in the source (`FIXED_LIT_SHAPE`) and in the model -/
theorem fixed_code_is_rfc :
    fixedLitLengths = Spec.fixedLitLengths ∧ fixedDistLengths = Spec.fixedDistLengths ∧
    Gen.FIXED_LIT_SHAPE = [288, 8, 144, 255, 9, 256, 279, 7] ∧ Gen.FIXED_DIST_WIDTH = 5 ∧
    Gen.FIXED_DIST_COUNT = 32 := by
  decide +kernel

/-- the code length order is the RFC's (§3.2.7); header field widths and offsets; block modes -/
theorem code_order_is_rfc :
    Gen.TREE_CODE_ORDER_TABLE = Spec.codeLengthOrder ∧
    Gen.HEADER_FIELDS = [(5, 257), (5, 1), (4, 4)] ∧ Gen.CODE_LENGTH_BITS = 3 ∧
    Gen.TREE_CODE_ADJUST = [(3, 2), (3, 3), (11, 7)] ∧ Gen.TREE_CODE_VALUES = [0, 16, 17, 18] ∧
    Gen.BLOCK_MODE_NAMES = ["Stored", "StaticHuff", "DynamicHuff"] ∧ Gen.BLOCK_MODE_VALUES = [0, 1, 2] ∧
    Gen.STORED_NLEN_MASK = 65535 := by
  decide +kernel

/-- the model parser IS the RFC-table inflater -/
theorem parse_eq_spec (bs : Bits) : parseBits bs = Spec.parseBits bs :=
  Proofs.parseBits_eq_spec bs

/-- whenever both accept, plaintext and consumed length agree (they agree on everything) -/
theorem parse_agrees_spec (d : List UInt8) (p : Parsed) (pl : Array Nat) (n : Nat)
    (h : parse d = .ok p) (hs : Spec.inflate d = some (pl, n)) :
    p.plain = pl ∧ p.consumed d = n := by
  unfold parse at h
  unfold Spec.inflate at hs
  rw [← parse_eq_spec, h] at hs
  simp only [Option.some.injEq, Prod.mk.injEq] at hs
  exact ⟨hs.1, by unfold Parsed.consumed; exact hs.2⟩

/-- the array-encoded Huffman tree of huffman_helper.rs decodes exactly what canonical-code matching
    (the decoder used by the model parser and by `Spec.inflate`) decodes, for every complete length
    vector and every input -/
theorem decodeSymTree_eq (l : List Nat) (h : validLengths l = true) (bs : Bits) :
    ∃ t, buildTree l = .ok t ∧ decodeSymTree t bs = decodeSym (codeTable l) bs :=
  Proofs.decodeSymTree_eq l h bs

end Preflate
