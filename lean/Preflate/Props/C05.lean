/-
C05 — Analysing arbitrary bytes ends in Ok or Err: no panic, no hang (level: partial).

Proved over the model: the parser is total (its fuel-bounded loops never run out of fuel: every
iteration consumes input) and has no panic outcome, for ALL byte strings; producing corrections
for what the parser returns has no panic path for ANY predictor; serialising any in-range
parameter vector hits no `try_from().unwrap()` (C08); the codec does not hit the shift overflow
(C10); the verify = true branch succeeds whenever analysis did (C02). the array-encoded Huffman tree is index safe
(`tree_index_safe`). Not proved (correspondence / oracle runs only): the estimators
(complevel / depth / add-policy) and the concrete hash chains; stack, heap and running time.
-/
import Preflate.Proofs.Spec
import Preflate.Proofs.HuffTree
import Preflate.Proofs.ChainBounds
import Preflate.Proofs.Estimator
import Preflate.Proofs.Estimator4k
import Preflate.Proofs.EndToEnd
import Preflate.Props.C08
import Preflate.Props.C10
namespace Preflate

/-- all byte strings: the parser returns Ok or Err, never a panic -/
theorem parse_no_panic (d : List UInt8) (m : String) : parse d ≠ .error (.panic m) :=
  Proofs.parseBits_no_panic (bytesToBits d) m

/-- all byte strings: the parser terminates without exhausting its loop bound ("no hang") -/
theorem parse_no_fuel (d : List UInt8) : parse d ≠ .error .fuel :=
  Proofs.parseBits_no_fuel (bytesToBits d)

/-- index safety of the array-encoded Huffman tree (huffman_helper.rs `calculate_huffman_code_tree` /
    `decode_symbol`, transcribed literally in Model/HuffTree.lean): for every length vector the
    validity check accepts, building stays inside the allocated array and walking never indexes out
    of range, whatever the input bits -/
theorem tree_index_safe (l : List Nat) (h : validLengths l = true) :
    ∃ t, buildTree l = .ok t ∧ ∀ bs m, decodeSymTree t bs ≠ .error (.panic m) :=
  Proofs.tree_index_safe l h

/-- the abstraction of the hash chains' position arithmetic to (total shift, plaintext position) is
    what the executable chain model does -/
theorem policyUpdate_totalShift (p : Params) (plain : Array Nat) (c : Chains.Chain) (pos len : Nat) :
    (Chains.policyUpdate p plain c pos len).totalShift =
      Chains.shiftAfter c.totalShift (Chains.updateCalls p pos len) :=
  Proofs.policyUpdate_totalShift p plain c pos len

/-- position arithmetic kept inside u16 by the periodic reshift: for every parameter vector with a
    hash chain, every sequence of token lengths 1..258, no `from_absolute` (chain iteration at the
    token start, both offsets) and no `inc` (insertion loop) ever leaves the u16 range. `_partial`:
    for the 4 KiB-boundary add policy the estimator's own side condition is assumed (no reference
    starts in the last three positions of a 4 KiB page; the policy skips the update there and with it
    the reshift test). Without a hash chain (`hashAlg = 0`) the code never iterates a chain; the
    abstract statement is false there (`Proofs.chain_positions_in_u16_unrestricted_false`). -/
theorem chain_positions_in_u16_partial (p : Params) (hh : p.hashAlg ≠ 0) (lens : List Nat)
    (hl : ∀ l ∈ lens, 1 ≤ l ∧ l ≤ 258)
    (h4k : p.addPolicy = 3 → Chains.NoRefAt4k 0 lens) :
    Chains.RunSafe p (-8) 0 lens :=
  Proofs.chain_positions_in_u16_partial p hh lens hl h4k

/-- the same without the side condition, for the add policy the estimator itself chooses: over what
    the parser returns (`Chains.streamLens`: the token lengths the predictor commits, stored bytes one
    by one) and any hash algorithm, `estimate_add_policy` answers the 4 KiB-boundary policy only when
    no reference starts in the last three positions of a 4 KiB page (`addPolicy_4k`), which is exactly
    what `chain_positions_in_u16_partial` assumed -/
theorem chain_positions_in_u16_estimated (plain : Array Nat) (blocks : List Block)
    (hv : StreamValid plain blocks) (p : Params) (hh : p.hashAlg ≠ 0) (pol lim : Nat)
    (he : Est.addPolicy blocks = .ok (pol, lim)) (hp : p.addPolicy = pol) :
    Chains.RunSafe p (-8) 0 (Chains.streamLens blocks) :=
  Proofs.chain_positions_in_u16_estimated plain blocks hv p hh pol lim he hp

/-- the front part of the parameter estimator (extract_preflate_info, strategy / Huffman strategy,
    window bits, block size, estimate_add_policy — Model/Estimator.lean, compared with the code by the
    `estimate` requests) has no panic path on anything the parser returns: the only candidate, the u32
    subtraction `current_offset - dist` of estimate_add_policy, cannot underflow because the parser
    admits a reference only when its distance does not exceed the bytes produced -/
theorem estimator_front_no_panic (d : List UInt8) (p : Parsed)
    (hp : parse d = .ok p) (m : String) : Est.front p.blocks ≠ .error (.panic m) :=
  Proofs.front_no_panic p.plain p.blocks (Proofs.parse_valid_unbounded (bytesToBits d) p hp).1 m

/-- on ANY block list the front part ends in Ok or in that one panic: no other failure, no fuel -/
theorem estimator_front_total (blocks : List Block) :
    (∃ f, Est.front blocks = .ok f) ∨
      Est.front blocks = .error (.panic "estimate_add_policy: subtract with overflow") :=
  Proofs.front_total blocks

variable {H : Type}

/-- analysis of a valid block list has no panic path, for any predictor -/
theorem encStream_no_panic (P : Pred H) (plain : Array Nat) (blocks : List Block) (pad : Nat)
    (hv : StreamValid plain blocks)
    (hP : ∀ s m, P.repredictTok plain s ≠ .error (.panic m)) (m : String) :
    encStream P plain blocks pad ≠ .error (.panic m) :=
  Proofs.encStream_no_panic P plain blocks pad hv hP m

/-- the verify = true branch: when analysis succeeded, reconstruction succeeds (no panic, no Err) -/
theorem verify_path_ok (P : Pred H) (plain : Array Nat) (blocks : List Block) (pad : Nat)
    (hv : StreamValid plain blocks) (hpad : pad < 256) (ops : List Op)
    (he : encStream P plain blocks pad = .ok ops) :
    decStream P plain ops = .ok (blocks, pad, []) := by
  simpa using decStream_encStream P plain blocks pad hv hpad ops he []

/-- Non-vacuity: noise and a truncated stream are rejected with Err, a valid one is accepted -/
def isErr : R Parsed → Bool
  | .error .err => true
  | _ => false

example : isErr (parse [0xff, 0xff, 0xff]) = true ∧ isErr (parse [0x4b, 0x04]) = true ∧
    (parse [0x4b, 0x04, 0x00]).toBool = true := by decide +kernel

end Preflate
