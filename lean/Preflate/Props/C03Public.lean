/-
C03, CONCRETE: what the model of the public function `decompress_deflate_stream` returns as plain_text
and compressed_size is what the RFC 1951 transcription `Spec.inflate` (closed-form tables, no table of
the repository) returns for the same bytes — for ANY estimator and predictor family (the plaintext and
the consumed length are decided by the parser alone), in particular for the modelled ones.
-/
import Preflate.Props.C03
import Preflate.Props.C03RFC
import Preflate.Props.C02Public
namespace Preflate

theorem public_agrees_spec {H : Type} (est : Array Nat → List Block → R Params) (mk : Params → Pred H)
    (verify : Bool) (d : List UInt8) (r : StreamResult)
    (h : decompressStream est mk verify d = .ok r) :
    Spec.inflate d = some (r.plain, r.size) := by
  obtain ⟨p, params, hdr, body, h1, _, _, _, rfl⟩ := Proofs.decompressStream_ok h
  unfold parse at h1
  unfold Spec.inflate
  rw [← parse_eq_spec, h1]
  rfl

/-- for the modelled estimator and the executable predictor -/
theorem library_agrees_spec (verify : Bool) (d : List UInt8) (r : StreamResult)
    (h : decompressStream Est.estimate Chains.pred verify d = .ok r) :
    Spec.inflate d = some (r.plain, r.size) :=
  public_agrees_spec Est.estimate Chains.pred verify d r h

/-- the property's statement against the INDEPENDENT RFC/zlib reading of the dynamic header
    (`SpecRFC.inflate`: symbol 16 copies the previous length zeros included; zlib's three accepted shapes of
    a length vector): whenever the public function accepts and that reading accepts, plain_text and
    compressed_size agree — although the two readings accept different sets of streams -/
theorem public_agrees_rfc {H : Type} (est : Array Nat → List Block → R Params) (mk : Params → Pred H)
    (verify : Bool) (d : List UInt8) (r : StreamResult) (pl : Array Nat) (n : Nat)
    (h : decompressStream est mk verify d = .ok r) (hs : SpecRFC.inflate d = some (pl, n)) :
    r.plain = pl ∧ r.size = n := by
  obtain ⟨p, params, hdr, body, h1, _, _, _, rfl⟩ := Proofs.decompressStream_ok h
  exact parse_agrees_rfc d p pl n h1 hs

end Preflate
