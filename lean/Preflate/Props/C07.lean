/-
C07 — DEFLATE parse then re-serialise is the identity on every valid stream.

Statements only; helper lemmas live in Preflate/Proofs/. The model (`parse`, `writeStream`)
is Preflate/Model/Deflate.lean over the regenerated tables of Preflate/Gen/Consts.lean.
-/
import Preflate.Proofs.Deflate
namespace Preflate

/-- Bit level: whatever `parseBits` accepts, `writeStreamBits` re-emits exactly the bits that were
    consumed (block headers, stored padding and LEN/NLEN, dynamic headers with every run-length
    choice, every literal and (length, distance) pair including the irregular 258, final padding),
    no writer assertion fires, and the consumed part ends on a byte boundary. -/
theorem write_parse_bits (bs : Bits) (p : Parsed) (hlen : bs.length % 8 = 0)
    (h : parseBits bs = .ok p) :
    ∃ w, writeStreamBits p.blocks p.eofPadding = .ok w ∧ bs = w ++ p.rest ∧ w.length % 8 = 0 :=
  Proofs.write_parse_bits bs p hlen h

/-- Byte level (the statement of the property): for every byte string the parser accepts, writing
    the parsed blocks back yields exactly the consumed prefix of the input. -/
theorem write_parse (d : List UInt8) (p : Parsed) (h : parse d = .ok p) :
    writeStream p.blocks p.eofPadding = .ok (d.take (p.consumed d)) ∧ p.consumed d ≤ d.length :=
  Proofs.write_parse d p h

/-- Non-vacuity: a concrete stream (fixed block, literal 'a', end of block) is accepted. -/
example : (parse [0x4b, 0x04, 0x00]).toBool = true := by decide +kernel

end Preflate
