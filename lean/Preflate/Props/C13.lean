/-
C13 — Reconstruction tolerates fragmented I/O and fails cleanly on I/O errors.

Model: Preflate/Model/IO.lean — recreated_zlib_chunks call for call over an adversarial source and
sink (schedules of short transfers, Interrupted, errors, zero-length results) with std's
read_exact / write_all semantics, next to the in-memory `recreate` of Model/Container.lean.
-/
import Preflate.Proofs.IO
namespace Preflate

/-- However the source fragments its reads and the sink accepts partial writes (every call moves
    at least one byte), the call succeeds and the sink receives exactly the in-memory result. -/
theorem frag_independent (o : Oracle) (crc : Bytes → Nat) (c f : Bytes)
    (hc : recreate o crc c = .ok f) (rs ws : List IoEv) (hr : OnlyShort rs) (hw : OnlyShort ws) :
    ∃ s' k', recreateIO o crc ⟨c, rs⟩ ⟨[], ws⟩ = (.ok (), s', k') ∧ k'.out = f :=
  Proofs.frag_independent o crc c f hc rs ws hr hw

/-- For ANY schedule of short transfers, interruptions, hard errors and zero-length writes (a source
    that reports end of data early is a truncated container, excluded): no panic, no hang, the
    bytes that reached the sink are a prefix of the original file, and `Ok` is returned only with
    the complete file written. (An `Interrupted` on the raw one-byte end-of-stream probe is
    propagated as an error by the code, which the property allows.) -/
theorem error_clean (o : Oracle) (crc : Bytes → Nat) (c f : Bytes)
    (hc : recreate o crc c = .ok f) (rs ws : List IoEv) (hrz : IoEv.zero ∉ rs) :
    (∀ m, (recreateIO o crc ⟨c, rs⟩ ⟨[], ws⟩).1 ≠ .error (.panic m)) ∧
    (recreateIO o crc ⟨c, rs⟩ ⟨[], ws⟩).1 ≠ .error .fuel ∧
    (recreateIO o crc ⟨c, rs⟩ ⟨[], ws⟩).2.2.out <+: f ∧
    ((recreateIO o crc ⟨c, rs⟩ ⟨[], ws⟩).1 = .ok () → (recreateIO o crc ⟨c, rs⟩ ⟨[], ws⟩).2.2.out = f) :=
  Proofs.error_clean o crc c f hc rs ws hrz

/-- the staging buffer size the model uses is the one in the source now -/
theorem staging_matches_source : Gen.LITERAL_STAGING = 65536 ∧ Gen.WRAPPER_VERSION = 1 := by decide

/-- Non-vacuity: a literal-only container under a nasty schedule. -/
def c13Container : Bytes := [1, 0, 5, 104, 101, 108, 108, 111]   -- version, literal chunk "hello"

def c13Sample : Bool :=
  let o : Oracle := ⟨fun _ => .error .err, fun _ _ => .error .err⟩
  (match recreate o (fun _ => 0) c13Container with | .ok f => f == [104, 101, 108, 108, 111] | _ => false) &&
  (match recreateIO o (fun _ => 0) ⟨c13Container, [.short 1, .short 1, .interrupted, .short 2, .short 1, .interrupted]⟩
          ⟨[], [.short 2, .interrupted, .short 1]⟩ with
   | (.ok (), _, k) => k.out == [104, 101, 108, 108, 111]
   | _ => false)

example : c13Sample = true := by decide +kernel

end Preflate
