/-
C12 — C ABI wrappers respect caller buffers, report status, round-trip (level: partial).

Proved over Model/Api.lean: status 0 only with a result that fits the caller's capacity and is
the bytes produced; undersized buffers give a negative status; an inner panic is reported as -2;
round trip through the two wrappers for files whose expanded form is at most 128 MiB. NOT provable
in a model: "never writes outside [buf, buf + size)" and "never unwinds into the caller" are facts
about the unsafe slice construction and the runtime; they are observed with guard bytes.
-/
import Preflate.Model.Api
import Preflate.Props.C01
namespace Preflate

/-- status 0 ⇒ the reported size fits the output capacity (compress side) -/
theorem wrapCompress_status (z : Zstd) (o : Oracle) (crc : Bytes → Nat) (input : Bytes) (cap : Nat) :
    ((wrapCompress z o crc input cap).1 = 0 → (wrapCompress z o crc input cap).2.length ≤ cap) ∧
    ((wrapCompress z o crc input cap).1 = 0 ∨ (wrapCompress z o crc input cap).1 = -1 ∨
     (wrapCompress z o crc input cap).1 = -2) := by
  unfold wrapCompress
  cases he : expand o crc input with
  | error e => cases e <;> simp [statusOf, bind, Except.bind]
  | ok c =>
    simp only [bind, Except.bind, z.to_buffer c cap]
    by_cases hfit : (z.compress c).length ≤ cap
    · simp [hfit, statusOf]
    · simp [hfit, statusOf]

/-- an undersized compress buffer gives a negative status -/
theorem wrapCompress_undersized (z : Zstd) (o : Oracle) (crc : Bytes → Nat) (input c : Bytes) (cap : Nat)
    (he : expand o crc input = .ok c) (hcap : cap < (z.compress c).length) :
    (wrapCompress z o crc input cap).1 = -1 := by
  unfold wrapCompress
  simp [he, bind, Except.bind, z.to_buffer c cap, Nat.not_le.mpr hcap, statusOf]

/-- status 0 ⇒ the reported size fits the output capacity (decompress side) -/
theorem wrapDecompress_status (z : Zstd) (o : Oracle) (crc : Bytes → Nat) (input : Bytes) (cap : Nat) :
    (wrapDecompress z o crc input cap).1 = 0 → (wrapDecompress z o crc input cap).2.length ≤ cap := by
  unfold wrapDecompress
  cases hd : z.decompress input wrapperIntermediateLimit with
  | error e => cases e <;> simp [statusOf, bind, Except.bind]
  | ok c =>
    cases hr : recreate o crc c with
    | error e => cases e <;> simp [statusOf, bind, Except.bind, hr]
    | ok f =>
      simp only [bind, Except.bind, intoCursor, hr]
      by_cases hfit : f.length ≤ cap
      · simp [hfit, statusOf]
      · simp [hfit, statusOf]

/-- an inner panic is reported as -2, an inner Err as -1 -/
theorem wrapDecompress_panic_status (z : Zstd) (o : Oracle) (crc : Bytes → Nat) (input c : Bytes) (cap : Nat) (m : String)
    (hd : z.decompress input wrapperIntermediateLimit = .ok c) (hr : recreate o crc c = .error (.panic m)) :
    (wrapDecompress z o crc input cap).1 = -2 := by
  unfold wrapDecompress
  simp [hd, hr, bind, Except.bind, statusOf]

/-- compress then decompress through the two wrappers returns the file, for every file whose
    expanded form is at most 128 MiB, every sufficient pair of capacities; and an output buffer
    smaller than the file gives -1 -/
theorem wrapper_roundtrip (z : Zstd) (o : Oracle) (crc : Bytes → Nat) (f : Bytes)
    (hb : ∀ b ∈ f, b < 256) (hf : f.length < 2 ^ 32)
    (hpanic : ∀ d m, o.verified d ≠ .error (.panic m))
    (hsize : ∀ d r, o.verified d = .ok r → r.plain.length < 2 ^ 32 ∧ r.corr.length < 2 ^ 32) :
    ∃ c, expand o crc f = .ok c ∧
      ∀ capC, (z.compress c).length ≤ capC → c.length ≤ wrapperIntermediateLimit →
        wrapCompress z o crc f capC = (0, z.compress c) ∧
        (∀ capD, f.length ≤ capD → wrapDecompress z o crc (z.compress c) capD = (0, f)) ∧
        (∀ capD, capD < f.length → (wrapDecompress z o crc (z.compress c) capD).1 = -1) := by
  obtain ⟨c, hc, hr⟩ := recreate_expand_partial o crc f hb hf hpanic hsize
  refine ⟨c, hc, ?_⟩
  intro capC hC hlim
  refine ⟨?_, ?_, ?_⟩
  · unfold wrapCompress
    simp [hc, bind, Except.bind, z.to_buffer c capC, hC, statusOf]
  · intro capD hD
    unfold wrapDecompress
    simp [z.roundtrip c _ hlim, hr, bind, Except.bind, intoCursor, hD, statusOf]
  · intro capD hD
    unfold wrapDecompress
    simp [z.roundtrip c _ hlim, hr, bind, Except.bind, intoCursor, Nat.not_le.mpr hD, statusOf]

/-- the bound the wrapper puts on the expanded form is the one REGENERATED from lib.rs
    (`Gen.WRAPPER_INTERMEDIATE_LIMIT`), and it admits every expanded form of at most 128 MiB — what the
    property quantifies over (a larger bound would be fine, a smaller one is a violation) -/
theorem wrapper_limit :
    wrapperIntermediateLimit = Gen.WRAPPER_INTERMEDIATE_LIMIT ∧ 1024 * 1024 * 128 ≤ wrapperIntermediateLimit := by
  decide

end Preflate
