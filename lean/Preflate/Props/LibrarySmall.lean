/-
CAPSTONE, NO STREAM-LEVEL HYPOTHESIS: C01 (and C01 + C13 end to end) for the library model as a whole
(`libOracle`, Model/Library.lean), for every file of bytes BELOW 16 MiB.

`library_round_trip` (Props/Library.lean) is left with one hypothesis, `hcorr`: the correction bytes of
every accepted candidate fit the u32 length field of the container. It is not derivable in general, but
the correction data is LINEAR in the input (Proofs/CorrBound.lean):

    decompress_deflate_stream(d) = Ok(.., corrections, ..)  ⟹  corrections.len() ≤ 224 * d.len() + 202

    * the bool coder emits at most 7 bits per binary decision, 239 bits of overhead (`vp8_size`);
    * the correction codec emits EXACTLY `opsCost ops` decisions (`codec_decisions`), at most 63 for a
      well-formed operation;
    * the analysis spends at most 32 decisions per bit of input the parser consumed (`analysis_cost`,
      for a predictor whose predicted lengths are ≤ 258 and code lengths < 256 — `Chains.pred` is one),
      plus 19 for the end of the stream and at most 178 for the parameter header;
    * the parser consumed at least `blocksBits` bits (`parse_consumed`): ≥ 1 per Huffman symbol, 3 per
      block header, 14 + 3·HCLEN + 1 per run-length item for a dynamic header.

224 * N + 202 < 2^32 holds up to N = 19 173 960; 2^24 is the largest power of two below that.
-/
import Preflate.Proofs.LibrarySmall
import Preflate.Props.Library
namespace Preflate
open Proofs

/-- layer 1: the VP8 bool coder, 7 bits per decision -/
theorem vp8_size (evs : List Ev) : 8 * (VP8.writeEvents evs).size ≤ 7 * evs.length + 239 :=
  Proofs.writeEvents_size_le8 evs

/-- layer 1, coarse: one byte per decision -/
theorem vp8_size_coarse (evs : List Ev) : (VP8.writeEvents evs).size ≤ evs.length + 30 :=
  Proofs.writeEvents_size_le evs

/-- layer 2: the number of decisions is exactly the cost of the operations -/
theorem codec_decisions (ops : List Op) (evs : List Ev) (h : encodeOps 0 ops = .ok evs) :
    evs.length = opsCost ops := by
  simpa using Proofs.encodeOps_length_eq ops 0 (by omega) evs h

/-- layer 2, coarse: at most 63 decisions per well-formed operation -/
theorem codec_decisions_coarse (ops : List Op) (hwf : ∀ o ∈ ops, o.WF) (evs : List Ev)
    (h : encodeOps 0 ops = .ok evs) : evs.length ≤ 63 * ops.length :=
  Proofs.encodeOps_length_le ops hwf evs h

/-- layer 3: a tight predictor spends at most 32 decisions per input bit, 19 at the end -/
theorem analysis_cost {H : Type} (P : Pred H) (hb : PredTight P) (plain : Array Nat) (blocks : List Block)
    (pad : Nat) (hv : StreamValid plain blocks) (hpad : pad < 256)
    (ops : List Op) (he : encStream P plain blocks pad = .ok ops) :
    opsCost ops ≤ 32 * blocksBits blocks + 19 :=
  Proofs.encStream_cost P hb plain blocks pad hv hpad ops he

/-- layer 3, coarse: the number of operations, for any predictor -/
theorem analysis_op_count {H : Type} (P : Pred H) (plain : Array Nat) (blocks : List Block) (pad : Nat)
    (hv : StreamValid plain blocks) (ops : List Op) (he : encStream P plain blocks pad = .ok ops) :
    ops.length ≤ 4 * totalTokens blocks + 668 * blocks.length + 2 :=
  Proofs.encStream_ops_count_le P plain blocks pad hv ops he

/-- the executable predictor is tight, for every parameter vector -/
theorem chains_tight (p : Params) : PredTight (Chains.pred p) := Proofs.chains_pred_tight p

/-- layer 4: the blocks account for at most the bits of the input -/
theorem parse_consumed (d : List UInt8) (p : Parsed) (h : parse d = .ok p) :
    blocksBits p.blocks ≤ 8 * d.length :=
  Proofs.parse_bits d p h

/-- layer 4, coarse: every token and every block consumed at least one bit -/
theorem parse_token_block_count (d : List UInt8) (p : Parsed) (h : parse d = .ok p) :
    totalTokens p.blocks + p.blocks.length ≤ 8 * d.length :=
  Proofs.parse_totals d p h

/-- **the correction data is linear in the input**: `decompress_deflate_stream`, either verify setting -/
theorem correction_size (verify : Bool) (d : List UInt8) (hd : d.length < 2 ^ 61)
    (plain : Array Nat) (bytes : Array UInt8) (n : Nat) (q : Params)
    (h : decompressBytes Est.estimate Chains.pred verify d = .ok (plain, bytes, n, q)) :
    bytes.size ≤ 224 * d.length + 202 :=
  Proofs.corr_size_le verify d hd plain bytes n q h

/-- … as the scanner sees it: the corrections stored for an accepted candidate -/
theorem library_correction_size (d : Bytes) (hd : d.length < 2 ^ 61) (r : Res)
    (h : libOracle.verified d = .ok r) : r.corr.length ≤ 224 * d.length + 202 :=
  Proofs.lib_corr_size_le d hd r h

/-- **C01, concrete, no stream-level hypothesis**, exact size condition -/
theorem library_round_trip_of_size (crc : Bytes → Nat) (f : Bytes)
    (hb : ∀ b ∈ f, b < 256) (hf : 224 * f.length + 202 < 2 ^ 32) :
    ∃ c, expand libOracle crc f = .ok c ∧ recreate libOracle crc c = .ok f :=
  Proofs.lib_round_trip_of_size crc f hb hf

/-- **C01, concrete, files below 16 MiB**: `expand` returns Ok and `recreate` of its output returns
    exactly the file — the only hypothesis is that the file consists of bytes -/
theorem library_round_trip_small (crc : Bytes → Nat) (f : Bytes)
    (hb : ∀ b ∈ f, b < 256) (hf : f.length < 2 ^ 24) :
    ∃ c, expand libOracle crc f = .ok c ∧ recreate libOracle crc c = .ok f :=
  Proofs.lib_round_trip_small crc f hb hf

/-- **C01 + C13, concrete, end to end, files below 16 MiB** -/
theorem library_end_to_end_small (crc : Bytes → Nat) (f : Bytes)
    (hb : ∀ b ∈ f, b < 256) (hf : f.length < 2 ^ 24) :
    ∃ c, expand libOracle crc f = .ok c ∧ recreate libOracle crc c = .ok f ∧
      (∀ rs ws, OnlyShort rs → OnlyShort ws →
        ∃ s' k', recreateIO libOracle crc ⟨c, rs⟩ ⟨[], ws⟩ = (.ok (), s', k') ∧ k'.out = f) ∧
      (∀ rs ws, IoEv.zero ∉ rs →
        (∀ m, (recreateIO libOracle crc ⟨c, rs⟩ ⟨[], ws⟩).1 ≠ .error (.panic m)) ∧
        (recreateIO libOracle crc ⟨c, rs⟩ ⟨[], ws⟩).1 ≠ .error .fuel ∧
        (recreateIO libOracle crc ⟨c, rs⟩ ⟨[], ws⟩).2.2.out <+: f ∧
        ((recreateIO libOracle crc ⟨c, rs⟩ ⟨[], ws⟩).1 = .ok () →
          (recreateIO libOracle crc ⟨c, rs⟩ ⟨[], ws⟩).2.2.out = f)) :=
  Proofs.lib_end_to_end_small crc f hb hf

end Preflate
