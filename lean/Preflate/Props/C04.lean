/-
C04 — Data written by the reference build is still reconstructed by the current build.

Everything the reconstruction path reads that is a constant, a table, a discriminant order, a
context array size or a serialisation layout is regenerated from the current source
(`Preflate.Gen`) and compared here with the copy frozen at the reference build (`Preflate.Ref`).
A silent edit to any of them fails this obligation for ALL inputs, whether or not a sampled input
exercises it. The version constants are evaluated, not required: if either differs, the format
change is announced and the obligation holds vacuously. The algorithms themselves (hash chains,
lazy matching, Huffman length calculation) are covered by the golden corpus written by the
reference build (harness, every run) and by the mirror theorem of C02.
-/
import Preflate.Gen.Consts
import Preflate.Ref.Consts
import Preflate.Props.C02
import Preflate.Proofs.PolicyCalls
namespace Preflate

/-- the format-relevant constants (estimator-only tables and scanner thresholds are NOT here:
    their values travel inside the stored data, or only decide what gets expanded), compared one by one -/
def formatEqual : Bool :=
  (Gen.MIN_MATCH == Ref.MIN_MATCH) &&
  (Gen.MAX_MATCH == Ref.MAX_MATCH) &&
  (Gen.MIN_LOOKAHEAD == Ref.MIN_LOOKAHEAD) &&
  (Gen.LITERAL_COUNT == Ref.LITERAL_COUNT) &&
  (Gen.LEN_CODE_COUNT == Ref.LEN_CODE_COUNT) &&
  (Gen.DIST_CODE_COUNT == Ref.DIST_CODE_COUNT) &&
  (Gen.CODETREE_CODE_COUNT == Ref.CODETREE_CODE_COUNT) &&
  (Gen.LENGTH_BASE_TABLE == Ref.LENGTH_BASE_TABLE) &&
  (Gen.LENGTH_EXTRA_TABLE == Ref.LENGTH_EXTRA_TABLE) &&
  (Gen.DIST_BASE_TABLE == Ref.DIST_BASE_TABLE) &&
  (Gen.DIST_EXTRA_TABLE == Ref.DIST_EXTRA_TABLE) &&
  (Gen.TREE_CODE_ORDER_TABLE == Ref.TREE_CODE_ORDER_TABLE) &&
  (Gen.LENGTH_CODE_TABLE == Ref.LENGTH_CODE_TABLE) &&
  (Gen.DIST_CODE_TABLE == Ref.DIST_CODE_TABLE) &&
  (Gen.QUANTIZE_DISTANCE_SHAPE == Ref.QUANTIZE_DISTANCE_SHAPE) &&
  (Gen.TREE_CODE_NAMES == Ref.TREE_CODE_NAMES) &&
  (Gen.TREE_CODE_VALUES == Ref.TREE_CODE_VALUES) &&
  (Gen.TREE_CODE_ADJUST == Ref.TREE_CODE_ADJUST) &&
  (Gen.FIXED_LIT_SHAPE == Ref.FIXED_LIT_SHAPE) &&
  (Gen.FIXED_DIST_WIDTH == Ref.FIXED_DIST_WIDTH) &&
  (Gen.FIXED_DIST_COUNT == Ref.FIXED_DIST_COUNT) &&
  (Gen.HEADER_FIELDS == Ref.HEADER_FIELDS) &&
  (Gen.CODE_LENGTH_BITS == Ref.CODE_LENGTH_BITS) &&
  (Gen.BLOCK_TYPE_NAMES == Ref.BLOCK_TYPE_NAMES) &&
  (Gen.BLOCK_TYPE_VALUES == Ref.BLOCK_TYPE_VALUES) &&
  (Gen.BLOCK_MODE_NAMES == Ref.BLOCK_MODE_NAMES) &&
  (Gen.BLOCK_MODE_VALUES == Ref.BLOCK_MODE_VALUES) &&
  (Gen.STORED_NLEN_MASK == Ref.STORED_NLEN_MASK) &&
  (Gen.MISPREDICTION_NAMES == Ref.MISPREDICTION_NAMES) &&
  (Gen.MISPREDICTION_VALUES == Ref.MISPREDICTION_VALUES) &&
  (Gen.CORRECTION_NAMES == Ref.CORRECTION_NAMES) &&
  (Gen.CORRECTION_VALUES == Ref.CORRECTION_VALUES) &&
  (Gen.CODEC_CONTEXT_SIZES == Ref.CODEC_CONTEXT_SIZES) &&
  (Gen.HASH_ALGORITHM_IDS == Ref.HASH_ALGORITHM_IDS) &&
  (Gen.STRATEGY_NAMES == Ref.STRATEGY_NAMES) &&
  (Gen.STRATEGY_VALUES == Ref.STRATEGY_VALUES) &&
  (Gen.HUFF_STRATEGY_NAMES == Ref.HUFF_STRATEGY_NAMES) &&
  (Gen.HUFF_STRATEGY_VALUES == Ref.HUFF_STRATEGY_VALUES) &&
  (Gen.PARAM_WRITE_PREFIX == Ref.PARAM_WRITE_PREFIX) &&
  (Gen.PARAM_WRITE_HASH_ARMS == Ref.PARAM_WRITE_HASH_ARMS) &&
  (Gen.PARAM_WRITE_MIDDLE == Ref.PARAM_WRITE_MIDDLE) &&
  (Gen.PARAM_WRITE_POLICY_ARMS == Ref.PARAM_WRITE_POLICY_ARMS) &&
  (Gen.PARAM_READ_PREFIX == Ref.PARAM_READ_PREFIX) &&
  (Gen.PARAM_READ_ZLIB_EXTRA == Ref.PARAM_READ_ZLIB_EXTRA) &&
  (Gen.PARAM_READ_MIDDLE == Ref.PARAM_READ_MIDDLE) &&
  (Gen.PARAM_READ_POLICY_SELECT == Ref.PARAM_READ_POLICY_SELECT) &&
  (Gen.PARAM_READ_POLICY_ARMS == Ref.PARAM_READ_POLICY_ARMS) &&
  (Gen.PARAM_READ_HASH_MAP == Ref.PARAM_READ_HASH_MAP) &&
  (Gen.CHUNK_TAGS == Ref.CHUNK_TAGS) &&
  (Gen.VARINT_SHAPE == Ref.VARINT_SHAPE) &&
  (Gen.MINIZ_LEVEL1_HASH_SIZE_MASK == Ref.MINIZ_LEVEL1_HASH_SIZE_MASK) &&
  (Gen.MINIZ_HASH_SHIFT == Ref.MINIZ_HASH_SHIFT) &&
  (Gen.HASH_MULTIPLIERS == Ref.HASH_MULTIPLIERS) &&
  (Gen.MAX_UPDATE_HASH_BATCH == Ref.MAX_UPDATE_HASH_BATCH) &&
  (Gen.RESHIFT_DELTAS == Ref.RESHIFT_DELTAS) &&
  (Gen.RESHIFT_LIMITS == Ref.RESHIFT_LIMITS) &&
  (Gen.INITIAL_TOTAL_SHIFTS == Ref.INITIAL_TOTAL_SHIFTS) &&
  (Gen.CRC32C_TABLE == Ref.CRC32C_TABLE) &&
  (Gen.RANDOM_VECTOR == Ref.RANDOM_VECTOR)

def versionsEqual : Bool := (Gen.FILE_VERSION == Ref.FILE_VERSION) && (Gen.WRAPPER_VERSION == Ref.WRAPPER_VERSION)

/-- same declared versions ⇒ same format-relevant constants -/
theorem gen_eq_ref : versionsEqual = true → formatEqual = true := by
  decide +kernel

/-- the frozen reference is non-trivial (non-vacuity of the comparison) -/
example : Ref.CRC32C_TABLE.length = 256 ∧ Ref.RANDOM_VECTOR.length = 768 ∧ Ref.DIST_CODE_TABLE.length = 512 ∧
    Ref.PARAM_READ_MIDDLE.length = 9 := by decide +kernel

/-- which positions enter the hash chains is part of the stored format: the model's add-policy dispatch
    performs exactly the update calls listed by `Chains.updateCalls`, the function the `policy` requests
    compare with the code's `DictionaryAddPolicy::update_hash` at every boundary position -/
theorem add_policy_calls (p : Params) (plain : Array Nat) (c : Chains.Chain) (pos len : Nat) :
    Chains.policyUpdate p plain c pos len =
      (Chains.updateCalls p pos len).foldl (fun c (q : Nat × Nat) => c.update p plain q.1 q.2) c :=
  Proofs.policyUpdate_eq_calls p plain c pos len

end Preflate
