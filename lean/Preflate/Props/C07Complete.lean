/-
C07, both directions: `Props/C07.lean` (what the parser accepts, the writer re-emits exactly) together
with `Props/ParseWrite.lean` (every block list that is well formed in a declarative sense — `WellFormed`
of Model/WriteValid.lean, stated without reference to the parser — is written to a bit string that the
parser parses back to exactly that block list; `parse_iff`: the parser accepts d with result p exactly
when d is the writer's output for a well-formed p followed by anything). So "every well-formed DEFLATE
stream" in the property is not defined by the parser itself.
-/
import Preflate.Props.C07
import Preflate.Props.ParseWrite
