/-
C10 — The correction codec is lossless for every operation sequence.

Model: Preflate/Model/Codec.lean (encoder/decoder of cabac_codec.rs down to the sequence of
context-coded and bypass bits). Statements only; lemmas are in Preflate/Proofs/Codec.lean.
-/
import Preflate.Proofs.Codec
import Preflate.Proofs.VP8
import Preflate.Gen.Consts
namespace Preflate

/-- Any sequence of well-formed operations (widths 1..16 with fitting values, misprediction flags,
    corrections below 2^31, in any context and any order) encodes without tripping the
    `1 << bit_length` overflow, and decoding the emitted decisions — followed by anything — with
    the same sequence of operation kinds returns exactly the operations, consumes exactly the
    emitted decisions, and leaves no pending default run. Because `getBit` fails on a context
    mismatch, success also means the decoder asked for the same context at every step
    (`same_context_sequence`). -/
theorem decode_encode (ops : List Op) (hwf : ∀ o ∈ ops, o.WF) (rest : List Ev) :
    ∃ evs, encodeOps 0 ops = .ok evs ∧
      decodeOps 0 (ops.map Op.kind) (evs ++ rest) = .ok (ops, 0, rest) :=
  Proofs.decode_encode ops hwf rest

/-- The bool coder (crate cabac 0.6.0 `VP8Writer` / `VP8Reader`, transcribed in Model/VP8.lean and
    compared byte for byte with the crate on every run) is lossless: whatever sequence of binary
    decisions (adaptive contexts and bypass bits, in any order) is written, reading the produced bytes
    back under the same context sequence returns the same bits. No bound on the number of decisions:
    the 32-bit `low`, the carry propagation through 0xFF runs, the 64-bit reader window and the
    padding / trailing-byte rule of `finish` are all inside. -/
theorem vp8_lossless (evs : List Ev) :
    VP8.readBits (VP8.writeEvents evs) (evs.map (·.ctx)) = evs.map (·.bit) :=
  Proofs.vp8_lossless evs

/-- BYTE LEVEL: any sequence of well-formed operations, once encoded to bytes and finished, decodes
    to the same sequence when read back with the same sequence of operation kinds. The decoder's
    demands are modelled by check-and-fail (`getBit` fails when the context it asks for is not the one
    the next decision was written under): `decode_encode` shows no check fails, so a demand-driven
    decoder asks exactly the encoder's context sequence, under which `vp8_lossless` returns the
    encoder's bits. -/
theorem bytes_roundtrip (ops : List Op) (hwf : ∀ o ∈ ops, o.WF) :
    ∃ evs bytes, encodeOps 0 ops = .ok evs ∧ encodeBytes ops = .ok bytes ∧
      VP8.readEvents bytes (evs.map (·.ctx)) = evs ∧
      decodeOps 0 (ops.map Op.kind) (VP8.readEvents bytes (evs.map (·.ctx))) = .ok (ops, 0, []) := by
  obtain ⟨evs, he, hd⟩ := decode_encode ops hwf []
  rw [List.append_nil] at hd
  have hz : ∀ l : List Ev, List.zipWith Ev.mk (l.map (·.ctx)) (l.map (·.bit)) = l := by
    intro l
    induction l with
    | nil => rfl
    | cons e l ih => simp [ih]
  have hr : VP8.readEvents (VP8.writeEvents evs) (evs.map (·.ctx)) = evs := by
    unfold VP8.readEvents
    rw [vp8_lossless, hz]
  refine ⟨evs, VP8.writeEvents evs, he, ?_, hr, ?_⟩
  · simp [encodeBytes, he, bind, Except.bind]
  · rw [hr]; exact hd

/-- The encoder's pending default run never exceeds one operation. -/
theorem default_count_le_one (c : Nat) (op : Op) (evs : List Ev) (c' : Nat)
    (h : encodeOp c op = .ok (evs, c')) : c' ≤ 1 :=
  Proofs.default_count_le_one c op evs c' h

/-- The context enums and array sizes the model hard-codes are the ones in the source now. -/
theorem contexts_match_source :
    Gen.MISPREDICTION_VALUES.getLast? = some 7 ∧ Gen.MISPREDICTION_NAMES.getLast? = some "MAX" ∧
    Gen.CORRECTION_VALUES.getLast? = some 10 ∧ Gen.CORRECTION_NAMES.getLast? = some "MAX" ∧
    Gen.MISPREDICTION_VALUES = List.range 8 ∧ Gen.CORRECTION_VALUES = List.range 11 ∧
    Gen.CODEC_CONTEXT_SIZES = [famSize 0, famSize 1, famSize 2, famSize 3] := by
  decide

/-- Non-vacuity: a mixed sequence meets the hypothesis and round-trips. -/
def sampleOps : List Op :=
  [Op.mis 1 false, .corr 3 0, .value 8 200, .corr 5 100000, .mis 3 true, .corr 0 0]

def sampleRoundTrip : Bool :=
  match encodeOps 0 sampleOps with
  | .ok evs =>
      match decodeOps 0 (sampleOps.map Op.kind) evs with
      | .ok (r, c, rest) => r == sampleOps && c == 0 && rest.isEmpty
      | .error _ => false
  | .error _ => false

example : sampleRoundTrip = true ∧ (∀ o ∈ sampleOps, o.WF) := by decide +kernel

end Preflate
