/-
C14 — Public functions are deterministic and safe to call concurrently (level: partial).

In the model every public function IS a Lean function, so purity is a typing fact there. What can
be decided about the code is the absence of anything that could make the Rust differ from a
function of its arguments: the translator's effect inventory (`Gen.EFFECTS`: every `static`,
`static mut`, `thread_local!`, lazy/once cell, interior mutability, randomly seeded collection,
environment / time / randomness access, pointer-to-integer cast, `unsafe`, file access and
`default_boxed` allocation in non-test code outside the hooks file) must consist of benign
entries only. The runtime half (threads, processes) is explored by the harness, not proved.
-/
import Preflate.Gen.Effects
namespace Preflate
open Gen

/-- what is accepted: immutable statics of plain integers; `unsafe` exactly at the two FFI
    wrappers of lib.rs; the `default_boxed` tables of the two files that own hash tables (read:
    every field is default-initialised before use); file access in the command line tool and in
    the `write_file` debugging helper. -/
def Effect.benign (e : Effect) : Bool :=
  (e.kind == "static_pod") ||
  (e.kind == "unsafe_ffi_wrapper" && e.file == "lib.rs") ||
  (e.kind == "default_boxed" && (e.file == "hash_chain.rs" || e.file == "depth_estimator.rs")) ||
  (e.kind == "file_io" && (e.file == "main.rs" || e.file == "process.rs"))

/-- no mutable statics, thread locals, lazy cells, interior mutability, randomly seeded maps,
    environment / time / randomness, pointer-to-integer casts or stray `unsafe` in the library -/
theorem no_shared_state : EFFECTS.all Effect.benign = true := by decide

/-- the FFI surface is exactly the two wrappers -/
theorem ffi_surface : (EFFECTS.filter (·.kind == "unsafe_ffi_wrapper")).length = 2 := by decide

/-- the inventory really scanned the library (non-vacuity): the files the property anchors in -/
theorem inventory_covers_anchors :
    ["lib.rs", "hash_chain.rs", "depth_estimator.rs", "hash_algorithm.rs", "preflate_container.rs",
     "token_predictor.rs", "scan_deflate.rs"].all (SOURCE_FILES.contains ·) = true := by decide

/-- the predicate is not trivially true: a cache behind a Mutex would be rejected -/
example : Effect.benign ⟨"token_predictor.rs", 1, "interior_mutability", "static CACHE: Mutex<…>"⟩ = false := by
  decide

end Preflate
