/-
C05, CONCRETE: the model of the whole `decompress_deflate_stream` (parser, the complete parameter
estimator, parameter header, the analysis with the executable predictor, the verify block) ends in Ok
or Err for EVERY byte string and either verify setting — no panic outcome, no exhausted loop bound.
The estimator part (`estimate_no_panic`) covers all 15 panic sites of `estimate_preflate_parameters`,
including the three debug assertions of the depth estimators whose unreachability rests on a
non-local invariant (the depth tables mirror exactly what the estimated add policy inserted).
The match finder's own panic sites (`Chains.pred` is total over Nat) are made explicit by shadow
checkers and proved unreachable (`match_finder_safe`, `public_match_finder_safe`); the length calculator
by `calc_bit_lengths_total`. Still outside any model: stack, heap, running time.
-/
import Preflate.Props.C05
import Preflate.Proofs.PublicTotal
import Preflate.Proofs.HuffCalcT
import Preflate.Proofs.ChainsSafePublic
import Preflate.Proofs.ChainsSafeDecPublic
namespace Preflate

/-- the complete parameter estimator reaches none of its panic sites on anything the parser can
    return (`StreamValid`, plaintext within i32 — both guaranteed by the parser) -/
theorem estimate_no_panic (plain : Array Nat) (blocks : List Block) (hv : StreamValid plain blocks)
    (hsize : plain.size ≤ 2 ^ 31 - 1) (m : String) :
    Est.estimate plain blocks ≠ .error (.panic m) :=
  Proofs.estimate_no_panic' plain blocks hv hsize m

/-- on ANY block list the estimator ends in Ok, Err, or one of 15 named panic sites; never in an
    exhausted loop bound -/
theorem estimate_outcomes (plain : Array Nat) (blocks : List Block) :
    ((∃ p, Est.estimate plain blocks = .ok p) ∨ Est.estimate plain blocks = .error .err ∨
      ∃ s, s ∈ Proofs.panicSites ∧ Est.estimate plain blocks = .error (.panic s)) ∧
    Est.estimate plain blocks ≠ .error .fuel :=
  ⟨Proofs.estimate_outcomes plain blocks, Proofs.EstTotal.estimate_no_fuel plain blocks⟩

/-- for ANY predictor whose re-prediction fails only with Err: producing corrections for a valid
    stream fails only with Err (no panic, no exhausted loop bound) -/
theorem encStream_only_err {H : Type} (P : Pred H) (plain : Array Nat) (blocks : List Block) (pad : Nat)
    (hv : StreamValid plain blocks)
    (hP : ∀ s e, P.repredictTok plain s = .error e → e = .err) (e : Fail)
    (h : encStream P plain blocks pad = .error e) : e = .err :=
  Proofs.encStream_only_err P plain blocks pad hv hP e h

/-- huffman_calc.rs `calc_zlib::calc_bit_lengths` (Model/HuffCalcT.lean: a total transcription with
    every Vec / slice index, `pop().unwrap()`, checked u32 / u8 / usize arithmetic as explicit panic
    outcomes and explicit loop bounds; it IS the calculator of the executable predictor, so every
    `analyze` / `public` request compares it with the code): on the callers' domain — up to 288 u16
    frequencies with a 15-bit limit (literal/length and distance codes), up to 19 with a 7-bit limit
    (code-length code) — it returns Ok, with every length within the limit. In general the precondition
    is `#used symbols ≤ 2^max_bits` and it is tight (129 symbols of frequency 1 with 7 bits make the
    redistribution loop underflow: a finding about the function, unreachable for its callers). -/
theorem calc_bit_lengths_total (f : List Nat) (hu : ∀ x ∈ f, x < 65536) :
    (f.length ≤ 288 → ∃ l, HuffCalcT.calcBitLengths f 15 = .ok l ∧ ∀ x ∈ l, x ≤ 15) ∧
    (f.length ≤ 19 → ∃ l, HuffCalcT.calcBitLengths f 7 = .ok l ∧ ∀ x ∈ l, x ≤ 7) := by
  constructor
  · intro hl
    obtain ⟨l, h1, h2, _⟩ := HuffCalcT.calcBitLengths_spec f 15 (HuffCalcT.pre_litdist f hl hu)
    exact ⟨l, h1, h2⟩
  · intro hl
    obtain ⟨l, h1, h2, _⟩ := HuffCalcT.calcBitLengths_spec f 7 (HuffCalcT.pre_codelen f hl hu)
    exact ⟨l, h1, h2⟩

/-- THE MATCH FINDER AND HASH CHAINS (Model/ChainsSafe.lean: shadow checkers that mirror the control
    flow of `TokenPredictor::new` / `predict_block` over every block and make every panic site explicit
    — `prefix_compare`'s assertion and indexing, the slices of `cur_chars`, the 3/4-byte hash reads, the
    u16 / i32 / u32 arithmetic of `match_token_offset`, `from_absolute`, `inc`, `dist`, the batch
    assertions; `matchTokenC_eq`: whenever the checked search answers, it answers what the validated
    `Chains.matchToken` answers): on a valid stream, for any in-range parameter vector that does not
    combine lazy + zlib_compatible matching with a chain depth below 4 (`LazyDepthOK`: the one
    reachable site, `max_chain -= 1`, outside what the estimator emits but inside `EstimatorRange`) and
    under the estimator's own side condition for the 4 KiB policy, no site is reached. -/
theorem match_finder_safe (p : Params) (plain : Array Nat) (blocks : List Block)
    (hr : EstimatorRange p) (hlz : Proofs.LazyDepthOK p) (hsz : plain.size < 2147483648)
    (hv : StreamValid plain blocks)
    (h4k : p.addPolicy = 3 → Chains.NoRefAt4k 0 (Chains.streamLens blocks)) :
    Chains.encStreamChk p plain blocks = .ok () :=
  Proofs.encStreamChk_ok p plain blocks hr hlz hsz hv h4k

/-- … and for the parameters the modelled estimator itself chooses, on everything the parser returns,
    with no hypothesis left (the estimator never emits the excluded combination: `estimate_lazyDepthOK`) -/
theorem public_match_finder_safe (d : List UInt8) (pr : Parsed) (hp : parse d = .ok pr) (p : Params)
    (he : Est.estimate pr.plain pr.blocks = .ok p) :
    Chains.encStreamChk p pr.plain pr.blocks = .ok () :=
  Proofs.public_encStreamChk_ok d pr hp p he

/-- THE RECONSTRUCTION SIDE on corrections a build actually produced (Model/ChainsSafeDec.lean mirrors
    `recreate_block`: `predict_token`, `repredict_reference`, `hop_match` with the DECODED length,
    `PreflateTokenReference::new`, `cur_char`, the per-byte stored path): replaying the corrections that
    the analysis of what the parser returned produced, under the estimator's own parameters, reaches no
    panic site of the match finder or hash chains. (On damaged corrections `hop_match` with a decoded
    length below 3 does panic in the code — outside every property, recorded as an observation.) -/
theorem public_reconstruction_safe (d : List UInt8) (pr : Parsed) (hp : parse d = .ok pr) (p : Params)
    (he : Est.estimate pr.plain pr.blocks = .ok p) (ops : List Op)
    (h : encStream (Chains.pred p) pr.plain pr.blocks pr.eofPadding = .ok ops) :
    Chains.decStreamChk p pr.plain ops = .ok () :=
  Proofs.public_decStreamChk_ok d pr hp p he ops h

/-- ALL byte strings, either verify setting: Ok or Err -/
theorem public_outcomes (verify : Bool) (d : List UInt8) :
    (∃ r, decompressStream Est.estimate Chains.pred verify d = .ok r) ∨
      decompressStream Est.estimate Chains.pred verify d = .error .err :=
  Proofs.public_outcomes verify d

/-- … hence no panic and no hang -/
theorem public_no_panic (verify : Bool) (d : List UInt8) (m : String) :
    decompressStream Est.estimate Chains.pred verify d ≠ .error (.panic m) ∧
    decompressStream Est.estimate Chains.pred verify d ≠ .error .fuel :=
  Proofs.public_no_panic verify d m

end Preflate
