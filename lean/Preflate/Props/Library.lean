/-
CAPSTONE — the properties of the container level (C01, C06, C13) for the library model AS A WHOLE:
the abstract stream oracle of Model/Container.lean replaced by the concrete stream functions
(`libOracle`, Model/Library.lean: `decompressBytes Est.estimate Chains.pred` / `recompressBytes Chains.pred`,
the byte-level models of `decompress_deflate_stream` / `recompress_deflate_stream` with the modelled
parameter estimator and the executable predictor).

What was a hypothesis about the oracle in C01 / C06 is discharged here from the stream-level theorems:
* "the analysis does not panic" (C05Public `public_outcomes`, OpsWF + C10 `bytes_roundtrip` for the bool
  coder, C02Public `public_bytes_exact` for the reconstruction step)            → `library_no_panic`;
* "plaintext fits the u32 length field" (PlainLimit `parse_plain_lt`)            → `library_plain_size`.
What is LEFT as a hypothesis, once, in `library_round_trip`: the correction bytes of an accepted stream
fit the u32 length field of the chunk format (`hcorr`).

SIZE: files below 4 GiB (`2^32` bytes, the width of the container length fields; single candidates below `2^61`) — the bound of the byte-level stream theorems (the model's
2^32-iteration bound on the block loop of `recompress_deflate_stream`); the scanner only probes
candidates cut out of the file (`Proofs.Cand`), which is how the bound on the file carries over.
-/
import Preflate.Proofs.Library
import Preflate.Props.C01
import Preflate.Props.C06
import Preflate.Props.C13
namespace Preflate
open Proofs

/-- the scanner's acceptance test (analysis, reconstruction, comparison) with the concrete stream
    functions does not panic, on ANY list of numbers below 2^61 -/
theorem library_no_panic (d : Bytes) (m : String) (hd : d.length < 2 ^ 61) :
    libOracle.verified d ≠ .error (.panic m) :=
  Proofs.lib_no_panic d m hd

/-- … and does not exhaust a loop bound of the model -/
theorem library_no_fuel (d : Bytes) (hd : d.length < 2 ^ 61) :
    libOracle.verified d ≠ .error .fuel :=
  Proofs.lib_no_fuel_lt d hd

/-- the plaintext of an accepted stream fits an `i32`, whatever the candidate -/
theorem library_plain_size (d : Bytes) (r : Res) (h : libOracle.verified d = .ok r) :
    r.plain.length < 2 ^ 32 :=
  Proofs.lib_plain_lt d r h

/-- on a byte candidate below 2^61 bytes the reconstruction check that `Oracle.verified` adds always
    passes: acceptance by the scanner = Ok from `decompress_deflate_stream` -/
theorem library_verified_is_analyze (d : Bytes) (hb : ∀ b ∈ d, b < 256) (hd : d.length < 2 ^ 61) :
    libOracle.verified d = libOracle.analyze d :=
  Proofs.lib_verified_bytes d hb hd

/-- **C01, concrete.** Every file of bytes below 4 GiB: `expand` returns Ok (no panic anywhere in
    scanner, header skippers, parse_idat, stream analysis, chunk writer) and `recreate` of its output
    returns exactly the file. Remaining hypothesis `hcorr`: corrections of every accepted candidate cut
    out of `f` (`Cand f d`: `d.length ≤ f.length` and every entry of `d` occurs in `f`) are below 2^32
    bytes. -/
theorem library_round_trip (crc : Bytes → Nat) (f : Bytes)
    (hb : ∀ b ∈ f, b < 256) (hf : f.length < 2 ^ 32)
    (hcorr : ∀ d r, Cand f d → libOracle.verified d = .ok r → r.corr.length < 2 ^ 32) :
    ∃ c, expand libOracle crc f = .ok c ∧ recreate libOracle crc c = .ok f :=
  Proofs.lib_round_trip crc f hb hf hcorr

/-- the generic form behind it: C01 with the oracle hypotheses restricted to candidates cut out of the
    file, for ANY oracle -/
theorem recreate_expand_on (o : Oracle) (crc : Bytes → Nat) (f : Bytes)
    (hb : ∀ b ∈ f, b < 256) (hf : f.length < 2 ^ 32)
    (hpanic : ∀ d m, Cand f d → o.verified d ≠ .error (.panic m))
    (hsize : ∀ d r, Cand f d → o.verified d = .ok r →
      r.plain.length < 2 ^ 32 ∧ r.corr.length < 2 ^ 32) :
    ∃ c, expand o crc f = .ok c ∧ recreate o crc c = .ok f :=
  Proofs.recreate_expand_on o crc f hb hf hpanic hsize

/-- **C06, concrete, zlib.** -/
theorem library_found_zlib (crc : Bytes → Nat) (pre suf s : Bytes) (h1 : Nat) (r : Res)
    (hh : h1 ∈ zlibSecond)
    (hb : ∀ b ∈ pre ++ zlibWrap h1 s ++ suf, b < 256)
    (hlen : (pre ++ zlibWrap h1 s ++ suf).length < 2 ^ 32)
    (hacc : libOracle.verified (s ++ suf) = .ok r) (hbig : r.plain.length > Gen.MIN_BLOCKSIZE)
    (hq : Quiet libOracle crc (pre ++ zlibWrap h1 s ++ suf) pre.length pre.length) :
    ∃ before prev after, prev ≤ pre.length ∧
      scan libOracle crc (pre ++ zlibWrap h1 s ++ suf) =
        .ok (before ++ [.literal (pre.length + 2 - prev), .deflate r] ++ after) :=
  Proofs.lib_found_zlib crc pre suf s h1 r hh hb hlen hacc hbig hq

/-- **C06, concrete, gzip.** -/
theorem library_found_gzip (crc : Bytes → Nat) (pre suf s : Bytes) (g : GzipFields) (r : Res)
    (hg : g.WF)
    (hb : ∀ b ∈ pre ++ gzipHeader g ++ s ++ suf, b < 256)
    (hlen : (pre ++ gzipHeader g ++ s ++ suf).length < 2 ^ 32)
    (hacc : libOracle.verified (s ++ suf) = .ok r) (hbig : r.plain.length > Gen.MIN_BLOCKSIZE)
    (hq : Quiet libOracle crc (pre ++ gzipHeader g ++ s ++ suf) pre.length pre.length) :
    ∃ before prev after, prev ≤ pre.length ∧
      scan libOracle crc (pre ++ gzipHeader g ++ s ++ suf) =
        .ok (before ++ [.literal (pre.length + (gzipHeader g).length - prev), .deflate r] ++ after) :=
  Proofs.lib_found_gzip crc pre suf s g r hg hb hlen hacc hbig hq

/-- **C06, concrete, ZIP.** -/
theorem library_found_zip (crc : Bytes → Nat) (pre suf s : Bytes) (z : ZipFields) (r : Res)
    (hn : z.name.length < 65536) (hx : z.extra.length < 65536)
    (hb : ∀ b ∈ pre ++ zipHeader z ++ s ++ suf, b < 256)
    (hlen : (pre ++ zipHeader z ++ s ++ suf).length < 2 ^ 32)
    (hacc : libOracle.verified (s ++ suf) = .ok r) (hbig : r.plain.length > Gen.MIN_BLOCKSIZE)
    (hq : Quiet libOracle crc (pre ++ zipHeader z ++ s ++ suf) pre.length pre.length) :
    ∃ before prev after, prev ≤ pre.length ∧
      scan libOracle crc (pre ++ zipHeader z ++ s ++ suf) =
        .ok (before ++ [.literal (pre.length + (zipHeader z).length - prev), .deflate r] ++ after) :=
  Proofs.lib_found_zip crc pre suf s z r hn hx hb hlen hacc hbig hq

/-- **C06, concrete, PNG IDAT.** -/
theorem library_found_idat (crc : Bytes → Nat) (pre suf s hdr adler : Bytes) (pieces : List Bytes) (r : Res)
    (hp : ∀ p ∈ pieces, p ≠ [] ∧ p.length < 2 ^ 32) (hcrc : ∀ x, crc x < 2 ^ 32)
    (hcat : pieces.flatten = hdr ++ s ++ adler) (hhdr : hdr.length = 2) (had : adler.length = 4)
    (hne : pieces ≠ [])
    (hb : ∀ b ∈ pre ++ idatWrap crc pieces ++ suf, b < 256)
    (hlen : (pre ++ idatWrap crc pieces ++ suf).length < 2 ^ 32)
    (hend : IdatEnd crc suf)
    (hacc : libOracle.verified s = .ok r) (hfull : r.size = s.length)
    (hbig : (idatWrap crc pieces).length > Gen.MIN_BLOCKSIZE)
    (hq : Quiet libOracle crc (pre ++ idatWrap crc pieces ++ suf) (pre.length + 4) pre.length) :
    ∃ before prev after c, prev ≤ pre.length ∧
      scan libOracle crc (pre ++ idatWrap crc pieces ++ suf) =
        .ok (before ++ [.literal (pre.length - prev), .idat c r] ++ after) :=
  Proofs.lib_found_idat crc pre suf s hdr adler pieces r hp hcrc hcat hhdr had hne hb hlen hend hacc hfull
    hbig hq

/-- the premise `hacc` of the four, at the stream level: a byte candidate below 2^61 bytes is accepted
    with result `r` iff the byte-level model of `decompress_deflate_stream` returns Ok with `r` -/
theorem library_accepts_iff (d : Bytes) (hb : ∀ b ∈ d, b < 256) (hd : d.length < 2 ^ 61) (r : Res) :
    libOracle.verified d = .ok r ↔
    ∃ plain bytes q, decompressBytes Est.estimate Chains.pred false (toU8 d) = .ok (plain, bytes, r.size, q) ∧
      r = ⟨plain.toList, ofU8 bytes.toList, r.size⟩ :=
  Proofs.lib_accepts_iff d hb hd r

/-- **C13, concrete**: fragmentation independence of the streaming reader -/
theorem library_frag_independent (crc : Bytes → Nat) (c f : Bytes)
    (hc : recreate libOracle crc c = .ok f) (rs ws : List IoEv) (hr : OnlyShort rs) (hw : OnlyShort ws) :
    ∃ s' k', recreateIO libOracle crc ⟨c, rs⟩ ⟨[], ws⟩ = (.ok (), s', k') ∧ k'.out = f :=
  Proofs.lib_frag_independent crc c f hc rs ws hr hw

/-- **C13, concrete**: clean failure under any I/O error schedule -/
theorem library_error_clean (crc : Bytes → Nat) (c f : Bytes)
    (hc : recreate libOracle crc c = .ok f) (rs ws : List IoEv) (hrz : IoEv.zero ∉ rs) :
    (∀ m, (recreateIO libOracle crc ⟨c, rs⟩ ⟨[], ws⟩).1 ≠ .error (.panic m)) ∧
    (recreateIO libOracle crc ⟨c, rs⟩ ⟨[], ws⟩).1 ≠ .error .fuel ∧
    (recreateIO libOracle crc ⟨c, rs⟩ ⟨[], ws⟩).2.2.out <+: f ∧
    ((recreateIO libOracle crc ⟨c, rs⟩ ⟨[], ws⟩).1 = .ok () →
      (recreateIO libOracle crc ⟨c, rs⟩ ⟨[], ws⟩).2.2.out = f) :=
  Proofs.lib_error_clean crc c f hc rs ws hrz

/-- **C01 + C13, concrete, end to end**: the container `expand` produces for a file below 4 GiB is
    read back to exactly the file under any fragmentation, and fails cleanly under any error schedule -/
theorem library_end_to_end (crc : Bytes → Nat) (f : Bytes)
    (hb : ∀ b ∈ f, b < 256) (hf : f.length < 2 ^ 32)
    (hcorr : ∀ d r, Cand f d → libOracle.verified d = .ok r → r.corr.length < 2 ^ 32) :
    ∃ c, expand libOracle crc f = .ok c ∧ recreate libOracle crc c = .ok f ∧
      (∀ rs ws, OnlyShort rs → OnlyShort ws →
        ∃ s' k', recreateIO libOracle crc ⟨c, rs⟩ ⟨[], ws⟩ = (.ok (), s', k') ∧ k'.out = f) ∧
      (∀ rs ws, IoEv.zero ∉ rs →
        (∀ m, (recreateIO libOracle crc ⟨c, rs⟩ ⟨[], ws⟩).1 ≠ .error (.panic m)) ∧
        (recreateIO libOracle crc ⟨c, rs⟩ ⟨[], ws⟩).1 ≠ .error .fuel ∧
        (recreateIO libOracle crc ⟨c, rs⟩ ⟨[], ws⟩).2.2.out <+: f ∧
        ((recreateIO libOracle crc ⟨c, rs⟩ ⟨[], ws⟩).1 = .ok () →
          (recreateIO libOracle crc ⟨c, rs⟩ ⟨[], ws⟩).2.2.out = f)) :=
  Proofs.lib_end_to_end crc f hb hf hcorr

/-- non-vacuity (kernel-checked): signature look-alikes, with the concrete analysis probed at 78 9C -/
example : Proofs.libRoundTrips Proofs.libLookalikes = true := by decide +kernel

end Preflate
