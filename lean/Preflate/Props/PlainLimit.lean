/-
PlainLimit — the reader's plain-text size limit (deflate_reader.rs `check_plain_text_size`).

Plain-text positions are kept as `i32` everywhere in the analysed library (PreflateInput, hash
chains), so the reader refuses to continue once the plain text is longer than
`PLAIN_LIMIT = i32::MAX - 65535`; the check precedes every literal/length symbol (the end-of-block
symbol included) and the bytes of every stored block. The model (`decodeTokens`, `readBlock` in
Model/Deflate.lean) has the same check in the same places. Proved here, for EVERY byte string the
parser accepts: the plain text has at most `2^31 - 1` bytes, and every block has at most
`PLAIN_LIMIT` (so fewer than `2^31 - 1`) tokens, which is the hypothesis `TokenCountsSmall` of the
codec bound (Model/PredBounded.lean). The plain-text bound is not strict
(`plain_limit_reached`): a stored block of 65535 bytes starting at exactly `PLAIN_LIMIT` bytes is
accepted.

Statements only; the proofs are in Preflate/Proofs/PlainLimit.lean.
-/
import Preflate.Proofs.PlainLimit
namespace Preflate

/-- the limit, as a number, and what one more step (at most 65535 bytes) can reach -/
theorem plain_limit_value : PLAIN_LIMIT = 2147418112 ∧ PLAIN_LIMIT + 65535 = 2 ^ 31 - 1 :=
  ⟨Proofs.plain_limit_val, Proofs.plain_limit_i32⟩

/-- the plain text of an accepted stream fits an `i32` -/
theorem parse_plain_lt (d : List UInt8) (p : Parsed) (h : parse d = .ok p) :
    p.plain.size ≤ 2147483647 :=
  Proofs.parse_plain_lt d p h

/-- the same bound in terms of the limit (tightest: see `plain_limit_reached`) -/
theorem parse_plain_le_limit (d : List UInt8) (p : Parsed) (h : parse d = .ok p) :
    p.plain.size ≤ PLAIN_LIMIT + 65535 :=
  Proofs.parse_plain_le_limit d p h

/-- one block, from any starting plain text: a Huffman block ends at no more than `PLAIN_LIMIT`
    bytes, a stored block at no more than `PLAIN_LIMIT + 65535`; at most `PLAIN_LIMIT` tokens -/
theorem readBlock_limit (plain : Array Nat) (bs : Bits) (last : Bool) (b : Block) (plain' : Array Nat)
    (rest : Bits) (h : readBlock plain bs = .ok (last, b, plain', rest)) :
    plain'.size ≤ PLAIN_LIMIT + 65535 ∧ (blockTokens b).length ≤ PLAIN_LIMIT ∧
      ((∀ pad data, b ≠ .stored pad data) → plain'.size ≤ PLAIN_LIMIT) :=
  Proofs.readBlock_limit h

/-- every block of an accepted stream has at most `PLAIN_LIMIT` tokens (each token adds at least
    one byte, and the check precedes each token and the end-of-block symbol) -/
theorem parse_tokens_le_limit (d : List UInt8) (p : Parsed) (h : parse d = .ok p) :
    ∀ b ∈ p.blocks, (blockTokens b).length ≤ PLAIN_LIMIT :=
  Proofs.parse_tokens_le_limit d p h

/-- … hence fewer than `2^31 - 1` -/
theorem parse_tokens_lt (d : List UInt8) (p : Parsed) (h : parse d = .ok p) :
    ∀ b ∈ p.blocks, (blockTokens b).length < 2 ^ 31 - 1 :=
  Proofs.parse_tokens_lt d p h

/-- the token-count hypothesis of the codec bound holds for whatever the parser accepts -/
theorem parse_tokenCountsSmall (d : List UInt8) (p : Parsed) (h : parse d = .ok p) :
    TokenCountsSmall p.blocks :=
  Proofs.parse_tokenCountsSmall d p h

/-- what the parser returns is a valid expansion of its plain text, with NO hypothesis on the input
    size (`ValidBlock` asks for fewer than `2^32 - 1` tokens; before the limit only the number of
    input bits bounded that) -/
theorem parse_valid_unbounded (bs : Bits) (p : Parsed) (h : parseBits bs = .ok p) :
    StreamValid p.plain p.blocks ∧ p.eofPadding < 256 :=
  Proofs.parse_valid_unbounded bs p h

/-- the bound `2^31 - 1` is attained by one step: from a plain text of exactly `PLAIN_LIMIT` bytes
    a stored block of 65535 bytes is accepted and leaves exactly `2^31 - 1` bytes. (A whole stream
    reaching it is more than 2 GiB long, so this is stated for one block.) -/
theorem plain_limit_reached (plain : Array Nat) (hs : plain.size = PLAIN_LIMIT) :
    ∃ bs b plain', readBlock plain bs = .ok (true, b, plain', []) ∧ plain'.size = 2147483647 :=
  Proofs.readBlock_limit_reached plain hs

/-- Non-vacuity: accepted streams (a fixed block; a stored block) — the check does not reject
    small inputs -/
example : (parse [0x4b, 0x04, 0x00]).toBool = true := by decide +kernel
example : (parse [0x01, 0x01, 0x00, 0xfe, 0xff, 0x61]).toBool = true := by decide +kernel

end Preflate
