/-
C06 — Embedded streams in supported wrappers are found and expanded, not copied.

Wrappers are written on the specification side (Model/Wrappers.lean: RFC 1950 / RFC 1952 / ZIP
local header / PNG chunks), independently of the scanner (Model/Container.lean). The premise
"preceded by arbitrary bytes that do not themselves form an acceptable stream overlapping it" is
`Quiet`, stated on the scanner's own probes.
-/
import Preflate.Proofs.Scan
namespace Preflate
open Proofs

/-- zlib header 78 01 / 78 5E / 78 9C / 78 DA -/
theorem found_zlib (o : Oracle) (crc : Bytes → Nat) (pre suf s : Bytes) (h1 : Nat) (r : Res)
    (hh : h1 ∈ zlibSecond) (hnp : NoPanic o)
    (hacc : o.verified (s ++ suf) = .ok r) (hbig : r.plain.length > Gen.MIN_BLOCKSIZE)
    (hq : Quiet o crc (pre ++ zlibWrap h1 s ++ suf) pre.length pre.length) :
    ∃ before prev after, prev ≤ pre.length ∧
      scan o crc (pre ++ zlibWrap h1 s ++ suf) =
        .ok (before ++ [.literal (pre.length + 2 - prev), .deflate r] ++ after) :=
  Proofs.found_zlib o crc pre suf s h1 r hh hnp hacc hbig hq

/-- gzip header with any combination of FEXTRA / FNAME / FCOMMENT / FHCRC -/
theorem found_gzip (o : Oracle) (crc : Bytes → Nat) (pre suf s : Bytes) (g : GzipFields) (r : Res)
    (hg : g.WF) (hnp : NoPanic o)
    (hacc : o.verified (s ++ suf) = .ok r) (hbig : r.plain.length > Gen.MIN_BLOCKSIZE)
    (hq : Quiet o crc (pre ++ gzipHeader g ++ s ++ suf) pre.length pre.length) :
    ∃ before prev after, prev ≤ pre.length ∧
      scan o crc (pre ++ gzipHeader g ++ s ++ suf) =
        .ok (before ++ [.literal (pre.length + (gzipHeader g).length - prev), .deflate r] ++ after) :=
  Proofs.found_gzip o crc pre suf s g r hg hnp hacc hbig hq

/-- ZIP local file header, method 8, any name / extra lengths -/
theorem found_zip (o : Oracle) (crc : Bytes → Nat) (pre suf s : Bytes) (z : ZipFields) (r : Res)
    (hn : z.name.length < 65536) (hx : z.extra.length < 65536) (hnp : NoPanic o)
    (hacc : o.verified (s ++ suf) = .ok r) (hbig : r.plain.length > Gen.MIN_BLOCKSIZE)
    (hq : Quiet o crc (pre ++ zipHeader z ++ s ++ suf) pre.length pre.length) :
    ∃ before prev after, prev ≤ pre.length ∧
      scan o crc (pre ++ zipHeader z ++ s ++ suf) =
        .ok (before ++ [.literal (pre.length + (zipHeader z).length - prev), .deflate r] ++ after) :=
  Proofs.found_zip o crc pre suf s z r hn hx hnp hacc hbig hq

/-- consecutive PNG IDAT chunks totalling more than 1024 bytes -/
theorem found_idat (o : Oracle) (crc : Bytes → Nat) (pre suf s hdr adler : Bytes) (pieces : List Bytes) (r : Res)
    (hp : ∀ p ∈ pieces, p ≠ [] ∧ p.length < 2 ^ 32) (hcrc : ∀ x, crc x < 2 ^ 32)
    (hcat : pieces.flatten = hdr ++ s ++ adler) (hhdr : hdr.length = 2) (had : adler.length = 4)
    (hne : pieces ≠ []) (hnp : NoPanic o)
    (hend : ∀ c payload, parseIdat crc (idatWrap crc pieces ++ suf) = .ok (c, payload) →
        c.totalChunkLength = (idatWrap crc pieces).length)
    (hacc : o.verified s = .ok r) (hfull : r.size = s.length)
    (hbig : (idatWrap crc pieces).length > Gen.MIN_BLOCKSIZE)
    (hq : Quiet o crc (pre ++ idatWrap crc pieces ++ suf) (pre.length + 4) pre.length) :
    ∃ before prev after c, prev ≤ pre.length ∧
      scan o crc (pre ++ idatWrap crc pieces ++ suf) =
        .ok (before ++ [.literal (pre.length - prev), .idat c r] ++ after) :=
  Proofs.found_idat o crc pre suf s hdr adler pieces r hp hcrc hcat hhdr had hne hnp hend hacc hfull hbig hq

/-- an accepted stream's chunk carries its plaintext verbatim -/
theorem deflate_chunk_carries_plaintext (r : Res) (data : Bytes) :
    ∃ a b, writeChunk data (.deflate r) = .ok (a ++ r.plain ++ b) :=
  ⟨[1] ++ varint r.plain.length, varint r.corr.length ++ r.corr, by simp [writeChunk, streamPayload]⟩

/-- the signature table and the threshold are the ones in the source now; the property needs the
    seven signatures to be present and the threshold to be at most 1024 -/
theorem signatures_match_source :
    Gen.MIN_BLOCKSIZE ≤ 1024 ∧
    [(0x0178, "Zlib"), (0x5E78, "Zlib"), (0x9C78, "Zlib"), (0xDA78, "Zlib"), (0x4B50, "ZipLocalFileHeader"),
     (0x8B1F, "Gzip"), (0x4449, "IDAT")].all
      (fun e => Gen.SIGNATURES.any (fun g => g.1 == e.1 && g.2.1 == e.2)) = true ∧
    Gen.ZIP_LOCAL_FILE_HEADER_SIGNATURE = 0x04034b50 ∧ Gen.ZIP_METHOD_DEFLATE = 8 ∧
    Gen.GZIP_FLAG_MASKS = [4, 8, 16, 2] ∧ Gen.GZIP_FIXED_HEADER = 10 ∧ Gen.IDAT_LOOKBACK = 4 := by
  decide

end Preflate
