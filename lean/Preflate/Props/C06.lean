/-
C06 — Embedded streams in supported wrappers are found and expanded, not copied.

Wrappers are written on the specification side (Model/Wrappers.lean: RFC 1950 / RFC 1952 / ZIP
local header / PNG chunks), independently of the scanner (Model/Container.lean). The premise
"preceded by arbitrary bytes that do not themselves form an acceptable stream overlapping it" is
`Quiet`, stated on the scanner's own probes.
-/
import Preflate.Proofs.Scan
namespace Preflate
open Proofs

/-- zlib header 78 01 / 78 5E / 78 9C / 78 DA -/
theorem found_zlib (o : Oracle) (crc : Bytes → Nat) (pre suf s : Bytes) (h1 : Nat) (r : Res)
    (hh : h1 ∈ zlibSecond) (hnp : NoPanic o)
    (hacc : o.verified (s ++ suf) = .ok r) (hbig : r.plain.length > Gen.MIN_BLOCKSIZE)
    (hq : Quiet o crc (pre ++ zlibWrap h1 s ++ suf) pre.length pre.length) :
    ∃ before prev after, prev ≤ pre.length ∧
      scan o crc (pre ++ zlibWrap h1 s ++ suf) =
        .ok (before ++ [.literal (pre.length + 2 - prev), .deflate r] ++ after) :=
  Proofs.found_zlib o crc pre suf s h1 r hh hnp hacc hbig hq

/-- gzip header with any combination of FEXTRA / FNAME / FCOMMENT / FHCRC -/
theorem found_gzip (o : Oracle) (crc : Bytes → Nat) (pre suf s : Bytes) (g : GzipFields) (r : Res)
    (hg : g.WF) (hnp : NoPanic o)
    (hacc : o.verified (s ++ suf) = .ok r) (hbig : r.plain.length > Gen.MIN_BLOCKSIZE)
    (hq : Quiet o crc (pre ++ gzipHeader g ++ s ++ suf) pre.length pre.length) :
    ∃ before prev after, prev ≤ pre.length ∧
      scan o crc (pre ++ gzipHeader g ++ s ++ suf) =
        .ok (before ++ [.literal (pre.length + (gzipHeader g).length - prev), .deflate r] ++ after) :=
  Proofs.found_gzip o crc pre suf s g r hg hnp hacc hbig hq

/-- ZIP local file header, method 8, any name / extra lengths -/
theorem found_zip (o : Oracle) (crc : Bytes → Nat) (pre suf s : Bytes) (z : ZipFields) (r : Res)
    (hn : z.name.length < 65536) (hx : z.extra.length < 65536) (hnp : NoPanic o)
    (hacc : o.verified (s ++ suf) = .ok r) (hbig : r.plain.length > Gen.MIN_BLOCKSIZE)
    (hq : Quiet o crc (pre ++ zipHeader z ++ s ++ suf) pre.length pre.length) :
    ∃ before prev after, prev ≤ pre.length ∧
      scan o crc (pre ++ zipHeader z ++ s ++ suf) =
        .ok (before ++ [.literal (pre.length + (zipHeader z).length - prev), .deflate r] ++ after) :=
  Proofs.found_zip o crc pre suf s z r hn hx hnp hacc hbig hq

/-- consecutive PNG IDAT chunks totalling more than 1024 bytes. `hend` (`Proofs.IdatEnd`): what
    follows the last piece is not itself a well-formed IDAT chunk of the run — fewer than 12 bytes
    remain, or the type field is not "IDAT", or the declared length reaches past the end, or the
    length is zero, or the CRC does not match (a damaged chunk; the last two after the repair of
    parse_idat). A following non-empty IDAT chunk with a matching CRC is part of the run, i.e. a
    different `pieces`. Normally the IEND chunk follows. -/
theorem found_idat (o : Oracle) (crc : Bytes → Nat) (pre suf s hdr adler : Bytes) (pieces : List Bytes) (r : Res)
    (hp : ∀ p ∈ pieces, p ≠ [] ∧ p.length < 2 ^ 32) (hcrc : ∀ x, crc x < 2 ^ 32)
    (hcat : pieces.flatten = hdr ++ s ++ adler) (hhdr : hdr.length = 2) (had : adler.length = 4)
    (hne : pieces ≠ []) (hnp : NoPanic o)
    (hend : IdatEnd crc suf)
    (hacc : o.verified s = .ok r) (hfull : r.size = s.length)
    (hbig : (idatWrap crc pieces).length > Gen.MIN_BLOCKSIZE)
    (hq : Quiet o crc (pre ++ idatWrap crc pieces ++ suf) (pre.length + 4) pre.length) :
    ∃ before prev after c, prev ≤ pre.length ∧
      scan o crc (pre ++ idatWrap crc pieces ++ suf) =
        .ok (before ++ [.literal (pre.length - prev), .idat c r] ++ after) :=
  Proofs.found_idat o crc pre suf s hdr adler pieces r hp hcrc hcat hhdr had hne hnp hend hacc hfull hbig hq

/-- an accepted stream's chunk carries its plaintext verbatim -/
theorem deflate_chunk_carries_plaintext (r : Res) (data : Bytes) :
    ∃ a b, writeChunk data (.deflate r) = .ok (a ++ r.plain ++ b) :=
  ⟨[1] ++ varint r.plain.length, varint r.corr.length ++ r.corr, by simp [writeChunk, streamPayload]⟩

/-- the signature table and the threshold are the ones in the source now; the property needs the
    seven signatures to be present and the threshold to be at most 1024 -/
theorem signatures_match_source :
    Gen.MIN_BLOCKSIZE ≤ 1024 ∧
    [(0x0178, "Zlib"), (0x5E78, "Zlib"), (0x9C78, "Zlib"), (0xDA78, "Zlib"), (0x4B50, "ZipLocalFileHeader"),
     (0x8B1F, "Gzip"), (0x4449, "IDAT")].all
      (fun e => Gen.SIGNATURES.any (fun g => g.1 == e.1 && g.2.1 == e.2)) = true ∧
    Gen.ZIP_LOCAL_FILE_HEADER_SIGNATURE = 0x04034b50 ∧ Gen.ZIP_METHOD_DEFLATE = 8 ∧
    Gen.GZIP_FLAG_MASKS = [4, 8, 16, 2] ∧ Gen.GZIP_FIXED_HEADER = 10 ∧ Gen.IDAT_LOOKBACK = 4 := by
  decide

-- ---------------------------------------------------------------------------------------------
-- non-vacuity: concrete oracles and inputs for which all hypotheses of the four theorems hold

namespace C06Example

def exS : Bytes := [1, 2, 3]
def exSuf : Bytes := [9, 9, 9, 9]
def exRes : Res := ⟨List.replicate 1025 0, [], 3⟩
/-- accepts exactly `exS ++ exSuf`, consuming `exS` -/
def exOracle : Oracle :=
  ⟨fun d => if d = exS ++ exSuf then .ok exRes else .error .err, fun _ _ => .ok exS⟩

theorem exOracle_verified (d : Bytes) :
    exOracle.verified d = if d = exS ++ exSuf then .ok exRes else .error .err := by
  unfold Oracle.verified exOracle
  dsimp only
  split
  · rename_i h; subst h; rfl
  · rfl

theorem exNoPanic : NoPanic exOracle := by
  intro d m h
  rw [exOracle_verified] at h
  split at h <;> cases h

theorem exAcc : exOracle.verified (exS ++ exSuf) = .ok exRes := by
  rw [exOracle_verified, if_pos rfl]

theorem exBig : exRes.plain.length > Gen.MIN_BLOCKSIZE := by
  show (List.replicate 1025 0).length > 1024
  rw [List.length_replicate]; decide

/-- all hypotheses of `found_zlib` hold for `pre = []` -/
example : ∃ before prev after, prev ≤ 0 ∧
    scan exOracle (fun _ => 0) ([] ++ zlibWrap 0x9C exS ++ exSuf) =
      .ok (before ++ [.literal (0 + 2 - prev), .deflate exRes] ++ after) :=
  found_zlib exOracle (fun _ => 0) [] exSuf exS 0x9C exRes (by decide) exNoPanic exAcc exBig
    (fun i _ _ _ _ hi => absurd hi (Nat.not_lt_zero i))

/-- position 1 carries a zlib signature (78 9C) that the oracle rejects -/
def exPre : Bytes := [0, 0x78, 0x9C]

theorem exQuiet : Quiet exOracle (fun _ => 0) (exPre ++ zlibWrap 0x9C exS ++ exSuf) exPre.length exPre.length := by
  intro i prev sg cs next hi h
  have hi : i = 0 ∨ i = 1 ∨ i = 2 := by simp only [exPre, List.length_cons, List.length_nil] at hi; omega
  have key : ∀ j s, j < 3 →
      scanAt exOracle (fun _ => 0) (exPre ++ zlibWrap 0x9C exS ++ exSuf) j prev s = .ok none := by
    intro j s hj
    have hj : j = 0 ∨ j = 1 ∨ j = 2 := by omega
    rcases hj with rfl | rfl | rfl <;> cases s <;> rfl
  rw [key i sg (by rcases hi with rfl | rfl | rfl <;> decide)] at h
  cases h

/-- all hypotheses of `found_zlib` hold for a non-empty `pre` containing a (rejected) zlib signature -/
example : ∃ before prev after, prev ≤ exPre.length ∧
    scan exOracle (fun _ => 0) (exPre ++ zlibWrap 0x9C exS ++ exSuf) =
      .ok (before ++ [.literal (exPre.length + 2 - prev), .deflate exRes] ++ after) :=
  found_zlib exOracle (fun _ => 0) exPre exSuf exS 0x9C exRes (by decide) exNoPanic exAcc exBig exQuiet

def exGzip : GzipFields :=
  { mtime := [0, 0, 0, 0], xfl := 0, os := 3, extra := some [1, 2], name := some [65, 66], comment := none,
    hcrc := some [7, 7], reservedFlags := 1 }

theorem exGzip_WF : exGzip.WF := by
  constructor
  · rfl
  · intro e h; cases h; decide
  · intro n h; cases h; decide
  · intro c h; cases h
  · intro c h; cases h; rfl
  · decide

/-- all hypotheses of `found_gzip` hold (FTEXT, FHCRC, FEXTRA, FNAME set) -/
example : ∃ before prev after, prev ≤ 0 ∧
    scan exOracle (fun _ => 0) ([] ++ gzipHeader exGzip ++ exS ++ exSuf) =
      .ok (before ++ [.literal (0 + (gzipHeader exGzip).length - prev), .deflate exRes] ++ after) :=
  found_gzip exOracle (fun _ => 0) [] exSuf exS exGzip exRes exGzip_WF exNoPanic exAcc exBig
    (fun i _ _ _ _ hi => absurd hi (Nat.not_lt_zero i))

def exZip : ZipFields :=
  { version := 20, flags := 0, time := 0, date := 0, crc := 0, csize := 3, usize := 1025, name := [65, 66],
    extra := [1] }

/-- all hypotheses of `found_zip` hold -/
example : ∃ before prev after, prev ≤ 0 ∧
    scan exOracle (fun _ => 0) ([] ++ zipHeader exZip ++ exS ++ exSuf) =
      .ok (before ++ [.literal (0 + (zipHeader exZip).length - prev), .deflate exRes] ++ after) :=
  found_zip exOracle (fun _ => 0) [] exSuf exS exZip exRes (by decide) (by decide) exNoPanic exAcc exBig
    (fun i _ _ _ _ hi => absurd hi (Nat.not_lt_zero i))

def exBody : Bytes := List.replicate 1100 7
def exResI : Res := ⟨List.replicate 1025 0, [], 1100⟩
/-- accepts exactly `exBody`, consuming all of it -/
def exOracleI : Oracle :=
  ⟨fun d => if d = exBody then .ok exResI else .error .err, fun _ _ => .ok exBody⟩

theorem exOracleI_verified (d : Bytes) :
    exOracleI.verified d = if d = exBody then .ok exResI else .error .err := by
  unfold Oracle.verified exOracleI
  dsimp only
  split
  · rename_i h; subst h
    have h1 : ¬ exResI.size > exBody.length := by
      show ¬ 1100 > (List.replicate 1100 7).length
      rw [List.length_replicate]; decide
    have h2 : exBody.take exResI.size = exBody := by
      show (List.replicate 1100 7).take 1100 = _
      rw [List.take_replicate]; rfl
    simp only [bind, Except.bind, h1, h2, if_true, if_false]
  · rfl

theorem exNoPanicI : NoPanic exOracleI := by
  intro d m h
  rw [exOracleI_verified] at h
  split at h <;> cases h

def exPieces : List Bytes := [[0x78, 0x9C] ++ List.replicate 500 7, List.replicate 600 7 ++ [1, 2, 3, 4]]

theorem exCat : exPieces.flatten = [0x78, 0x9C] ++ exBody ++ [1, 2, 3, 4] := by
  decide +kernel

set_option maxRecDepth 100000 in
theorem exQuietI : Quiet exOracleI (fun _ => 0) ([] ++ idatWrap (fun _ => 0) exPieces ++ []) (0 + 4) 0 := by
  intro i prev sg cs next hi h
  have key : ∀ j s, j < 4 →
      scanAt exOracleI (fun _ => 0) ([] ++ idatWrap (fun _ => 0) exPieces ++ []) j prev s = .ok none := by
    intro j s hj
    have hj : j = 0 ∨ j = 1 ∨ j = 2 ∨ j = 3 := by omega
    rcases hj with rfl | rfl | rfl | rfl <;> cases s <;> rfl
  rw [key i sg (by omega)] at h
  cases h

/-- all hypotheses of `found_idat` hold: two IDAT chunks, end of input after them -/
example : ∃ before prev after c, prev ≤ 0 ∧
    scan exOracleI (fun _ => 0) ([] ++ idatWrap (fun _ => 0) exPieces ++ []) =
      .ok (before ++ [.literal (0 - prev), .idat c exResI] ++ after) :=
  found_idat exOracleI (fun _ => 0) [] [] exBody [0x78, 0x9C] [1, 2, 3, 4] exPieces exResI
    (by decide +kernel) (fun _ => by decide) exCat rfl rfl (by decide) exNoPanicI (Or.inl (by decide))
    (by rw [exOracleI_verified, if_pos rfl]) (by show 1100 = (List.replicate 1100 7).length; rw [List.length_replicate])
    (by decide +kernel) exQuietI

end C06Example

end Preflate
