/-
C11 / C12 at the concrete library: the zstd pair and the two C ABI wrappers over `libOracle` (the
byte-level model of the stream functions with the modelled estimator and the executable predictor),
for every file below 16 MiB, with no hypothesis about the stream analysis left — only the laws of the
abstract `Zstd` (the C library, validated against the real one by the harness on every run).
-/
import Preflate.Props.LibrarySmall
import Preflate.Props.C11
import Preflate.Props.C12
namespace Preflate

/-- decompress_zstd(compress_zstd(F), capacity) = F for every capacity at least the size of the
    expanded form -/
theorem library_zstd_roundtrip_small (z : Zstd) (crc : Bytes → Nat) (f : Bytes)
    (hb : ∀ b ∈ f, b < 256) (hf : f.length < 2 ^ 24) :
    ∃ c y, expand libOracle crc f = .ok c ∧ compressZstd z libOracle crc f = .ok y ∧
      ∀ cap, c.length ≤ cap → decompressZstd z libOracle crc y cap = .ok f := by
  obtain ⟨c, hc, hr⟩ := library_round_trip_small crc f hb hf
  refine ⟨c, z.compress c, hc, ?_, ?_⟩
  · simp [compressZstd, hc, bind, Except.bind]
  · intro cap hcap
    simp [decompressZstd, z.roundtrip c cap hcap, hr, bind, Except.bind]

/-- the two C ABI wrappers: status 0 with the right sizes when the buffers suffice, -1 for an undersized
    output buffer, and the round trip -/
theorem library_wrapper_roundtrip_small (z : Zstd) (crc : Bytes → Nat) (f : Bytes)
    (hb : ∀ b ∈ f, b < 256) (hf : f.length < 2 ^ 24) :
    ∃ c, expand libOracle crc f = .ok c ∧
      ∀ capC, (z.compress c).length ≤ capC → c.length ≤ wrapperIntermediateLimit →
        wrapCompress z libOracle crc f capC = (0, z.compress c) ∧
        (∀ capD, f.length ≤ capD → wrapDecompress z libOracle crc (z.compress c) capD = (0, f)) ∧
        (∀ capD, capD < f.length → (wrapDecompress z libOracle crc (z.compress c) capD).1 = -1) := by
  obtain ⟨c, hc, hr⟩ := library_round_trip_small crc f hb hf
  refine ⟨c, hc, ?_⟩
  intro capC hC hlim
  refine ⟨?_, ?_, ?_⟩
  · unfold wrapCompress
    simp [hc, bind, Except.bind, z.to_buffer c capC, hC, statusOf]
  · intro capD hD
    unfold wrapDecompress
    simp [z.roundtrip c _ hlim, hr, bind, Except.bind, intoCursor, hD, statusOf]
  · intro capD hD
    unfold wrapDecompress
    simp [z.roundtrip c _ hlim, hr, bind, Except.bind, intoCursor, Nat.not_le.mpr hD, statusOf]

end Preflate
