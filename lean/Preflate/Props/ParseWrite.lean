/-
Completeness direction of C07 — the model writer and the model parser are inverse on exactly the
well-formed block lists.

Statements only; the definition of `WellFormed` is Preflate/Model/WriteValid.lean, the proofs are
Preflate/Proofs/ParseWrite*.lean. Together with C07 (`write_parse`: whatever the parser accepts, the
writer re-emits) this characterises the language of the parser: `parse_iff`.
-/
import Preflate.Proofs.ParseWrite
namespace Preflate

/-- Bit level: a well-formed block list is written without any writer assertion firing, and the
    parser reads the written bits back as that block list, that final padding and that plain text,
    leaving untouched whatever (byte aligned) follows. -/
theorem parse_write_bits (plain : Array Nat) (blocks : List Block) (pad : Nat)
    (hw : WellFormed plain blocks pad) :
    ∃ w, writeStreamBits blocks pad = .ok w ∧
      ∀ rest, rest.length % 8 = 0 → parseBits (w ++ rest) = .ok ⟨blocks, pad, plain, rest⟩ :=
  Proofs.parse_write_bits plain blocks pad hw

/-- Byte level. -/
theorem parse_write (plain : Array Nat) (blocks : List Block) (pad : Nat)
    (hw : WellFormed plain blocks pad) :
    ∃ bytes, writeStream blocks pad = .ok bytes ∧
      ∀ x : List UInt8, parse (bytes ++ x) = .ok ⟨blocks, pad, plain, bytesToBits x⟩ :=
  Proofs.parse_write plain blocks pad hw

/-- Whatever the parser returns is well formed. -/
theorem parse_wellFormed (d : List UInt8) (p : Parsed) (h : parse d = .ok p) :
    WellFormed p.plain p.blocks p.eofPadding :=
  Proofs.parse_wellFormed d p h

/-- The parser accepts `d` with result `p` exactly when `d` is the serialisation of the well-formed
    block list `p.blocks` (with plain text `p.plain` and final padding `p.eofPadding`) followed by the
    bytes of `p.rest`. -/
theorem parse_iff (d : List UInt8) (p : Parsed) :
    parse d = .ok p ↔ ∃ bytes x, WellFormed p.plain p.blocks p.eofPadding ∧
      writeStream p.blocks p.eofPadding = .ok bytes ∧ d = bytes ++ x ∧ p.rest = bytesToBits x :=
  Proofs.parse_iff d p

-- ---------------------------------------------------------------------------------------------
-- Non-vacuity: a fixed block with a literal and a reference, then a stored block whose padding
-- bits are not zero, expanding to "aaaabc".

def exBlocks : List Block := [.fixed [.lit 97, .ref 3 1 false], .stored 5 [98, 99]]
def exPlain : Array Nat := #[97, 97, 97, 97, 98, 99]

theorem exBlocks_wellFormed : WellFormed exPlain exBlocks 0 := by
  refine ⟨⟨by decide, ?_, by decide⟩, ?_⟩
  · simp only [exBlocks, exPlain, ValidBlocks, ValidBlock, ValidToks, ValidTok, blockEnd, toksEnd,
      tokenLen]
    decide +kernel
  · simp only [exBlocks, BlocksCoded, BlockCoded, List.forall_mem_cons, TokCoded, blockEnd, toksEnd,
      tokenLen, List.not_mem_nil, false_imp_iff, implies_true, and_true]
    decide +kernel

/-- the theorem applied to the example -/
example : ∃ bytes, writeStream exBlocks 0 = .ok bytes ∧
    ∀ x : List UInt8, parse (bytes ++ x) = .ok ⟨exBlocks, 0, exPlain, bytesToBits x⟩ :=
  parse_write exPlain exBlocks 0 exBlocks_wellFormed

-- the stream: [74, 4, 2, 64, 10, 2, 0, 253, 255, 98, 99] (zlib inflates it to "aaaabc")
-- #eval writeStream exBlocks 0   -- [74, 4, 2, 64, 10, 2, 0, 253, 255, 98, 99]
-- parsing it (followed by a stray byte) returns the block list, the plain text and the stray bits
-- #eval (do let b ← writeStream exBlocks 0; parse (b ++ [0xAA]) : R Parsed)   -- returns exBlocks, exPlain and the 8 trailing bits

end Preflate
