/-
C03, against an INDEPENDENT reading of the dynamic block header.

`Spec.inflate` (Props/C03.lean) reuses the model's `litDistLengths` / `mkTable` in its dynamic branch, so
two deviations of the library from RFC 1951 / zlib are invisible to `parse_eq_spec`:

  1. code-length symbol 16 repeats the previous code length — the last length of the sequence so far,
     zeros included, and nothing before it is an error (the library repeats the last EXPLICIT length);
  2. zlib accepts a complete code, OR a single symbol of length 1 (literal/length and distance codes),
     OR no distance symbol at all; the literal/length code must give 256 a code (the library demands
     complete codes everywhere).

`SpecRFC.inflate` (Model/SpecRFC.lean) reads the header by those two rules. The readings DO differ —
there are streams the library accepts and `SpecRFC.inflate` rejects, and vice versa (examples below) —
but they can never both accept with different results: `parse_agrees_rfc`.

Why (Proofs/SpecRFC*.lean): a 16 makes ≥ 3 copies (`readHeader_rep`). Where the readings differ, the RFC
reading has 0 and the library's a copy of an explicit length found EARLIER (`Rel.src`), and the
neighbouring copy differs too (`Rel.adj`). The library's halves are complete (Kraft sum 1,
`kraft_of_valid`). If zlib's literal/length half is complete, it lost nothing, so it is the library's
(`eq_of_kraft_eq`); then a distance half that differs can only be zlib's empty or single-symbol case, and
in the latter the extra 1-bit codes would come in pairs inside the distance half, which with the shared
1-bit symbol makes three codes of length 1 — impossible (`dist_tables`): so the shared symbol has the
code `0` in both and zlib's other codes are invalid. If zlib's literal/length half is the single
symbol, that symbol is 256, all the library's extra codes lie after it, 256 has the code `0` in both,
and the block is the single bit `0` on both sides (`tables_rel`).
-/
import Preflate.Proofs.SpecRFCPlain
import Preflate.Props.C03
namespace Preflate

/-- whenever the library's reader and the RFC/zlib reading both accept, they agree on EVERYTHING
    (blocks, padding, plaintext, unread rest) -/
theorem parseBits_agrees_rfc (bs : Bits) (p p' : Parsed) (h : parseBits bs = .ok p)
    (hs : SpecRFC.parseBits bs = .ok p') : p = p' :=
  Proofs.RFC.parseBits_agree bs p p' h hs

/-- whenever the library's reader and the RFC/zlib reading both accept, plaintext and consumed length agree -/
theorem parse_agrees_rfc (d : List UInt8) (p : Parsed) (pl : Array Nat) (n : Nat)
    (h : parse d = .ok p) (hs : SpecRFC.inflate d = some (pl, n)) : p.plain = pl ∧ p.consumed d = n := by
  unfold parse at h
  unfold SpecRFC.inflate at hs
  split at hs
  · rename_i p' hp'
    have := parseBits_agrees_rfc _ _ _ h hp'
    subst this
    simp only [Option.some.injEq, Prod.mk.injEq] at hs
    exact ⟨hs.1, by unfold Parsed.consumed; exact hs.2⟩
  · cases hs

-- ---------------------------------------------------------------------------------------------
-- where the two readings of the header coincide, the new specification is the old one

/-- the run-length items of a dynamic block read the same under both readings (no leading repeat, no
    repeat after a zero run that would copy a pending non-zero explicit length) -/
abbrev PlainItems : Block → Prop := Proofs.RFC.PlainItems

/-- … and both of its codes are complete -/
abbrev PlainComplete : Block → Prop := Proofs.RFC.PlainComplete

/-- stored and fixed blocks (and invalid block types) are read by the same code, failures included -/
theorem specRFC_readBlock_eq_of_not_dynamic (plain : Array Nat) (bs : Bits)
    (hm : ∀ l bs1 m bs2, readBits 1 bs = .ok (l, bs1) → readBits 2 bs1 = .ok (m, bs2) → m ≠ 2) :
    SpecRFC.readBlock plain bs = Spec.readBlock plain bs := by
  rw [Proofs.RFC.rfc_readBlock_eq_of_mode plain bs hm, Proofs.spec_readBlock_eq]

/-- a stream `Spec` accepts, in which the items of every dynamic header read the same under both
    readings, is accepted by `SpecRFC` with the same parse -/
theorem specRFC_of_spec_plain (bs : Bits) (p : Parsed) (h : Spec.parseBits bs = .ok p)
    (hb : ∀ b ∈ p.blocks, PlainItems b) : SpecRFC.parseBits bs = .ok p :=
  Proofs.RFC.rfc_parseBits_of_ok bs p (by rw [parse_eq_spec]; exact h) hb

/-- a stream `SpecRFC` accepts, in which the items of every dynamic header read the same under both
    readings and both codes are complete, is accepted by `Spec` with the same parse -/
theorem spec_of_specRFC_plain (bs : Bits) (p : Parsed) (h : SpecRFC.parseBits bs = .ok p)
    (hb : ∀ b ∈ p.blocks, PlainComplete b) : Spec.parseBits bs = .ok p := by
  rw [← parse_eq_spec]; exact Proofs.RFC.parseBits_of_rfc_ok bs p h hb

/-- where the two readings of the header coincide (no repeat after a zero run, no leading repeat,
    complete codes) the new specification is the old one -/
theorem specRFC_eq_spec_of_plain_header (d : List UInt8) (p : Parsed)
    (hp : (Spec.parseBits (bytesToBits d) = .ok p ∧ ∀ b ∈ p.blocks, PlainItems b) ∨
          (SpecRFC.parseBits (bytesToBits d) = .ok p ∧ ∀ b ∈ p.blocks, PlainComplete b)) :
    SpecRFC.inflate d = Spec.inflate d := by
  have h : Spec.parseBits (bytesToBits d) = .ok p ∧ SpecRFC.parseBits (bytesToBits d) = .ok p := by
    rcases hp with ⟨h, hb⟩ | ⟨h, hb⟩
    · exact ⟨h, specRFC_of_spec_plain _ _ h hb⟩
    · exact ⟨spec_of_specRFC_plain _ _ h hb, h⟩
  unfold SpecRFC.inflate Spec.inflate
  rw [h.1, h.2]

/-- in particular: streams consisting only of stored and fixed blocks -/
theorem specRFC_eq_spec_of_no_dynamic (d : List UInt8) (p : Parsed)
    (hp : Spec.parseBits (bytesToBits d) = .ok p ∨ SpecRFC.parseBits (bytesToBits d) = .ok p)
    (hnd : ∀ b ∈ p.blocks, ∀ h ts, b ≠ .dynamic h ts) : SpecRFC.inflate d = Spec.inflate d := by
  have h1 : ∀ b ∈ p.blocks, PlainItems b := by
    intro b hb
    cases b with
    | dynamic h ts => exact absurd rfl (hnd _ hb h ts)
    | stored _ _ => trivial
    | fixed _ => trivial
  have h2 : ∀ b ∈ p.blocks, PlainComplete b := by
    intro b hb
    cases b with
    | dynamic h ts => exact absurd rfl (hnd _ hb h ts)
    | stored _ _ => trivial
    | fixed _ => trivial
  rcases hp with hp | hp
  · exact specRFC_eq_spec_of_plain_header d p (Or.inl ⟨hp, h1⟩)
  · exact specRFC_eq_spec_of_plain_header d p (Or.inr ⟨hp, h2⟩)

-- ---------------------------------------------------------------------------------------------
-- non-vacuity: the readings differ, and both hypotheses of `parse_agrees_rfc` are satisfiable

/-- what the library's reader returns: plaintext and consumed length -/
def parseResult (d : List UInt8) : Option (Array Nat × Nat) :=
  match parse d with
  | .ok p => some (p.plain, p.consumed d)
  | .error _ => none

/-- literal/length lengths {'a': 1, 256: 1}, distance lengths [1, 1]; data: 'a', end of block -/
def exBoth : List UInt8 := [5, 193, 129, 0, 0, 0, 0, 0, 144, 86, 255, 19, 16]

/-- literal/length lengths {0: 1, 1: 2, 256: 2}; distance items `2, 17(3), 16(3)`: the library reads
    [2,0,0,0,2,2,2] (complete), the RFC reads [2,0,0,0,0,0,0] (one symbol, of length 2: zlib answers
    "invalid distances set"); data: 0, 1, end of block -/
def exLibOnly : List UInt8 := [5, 198, 55, 1, 0, 0, 0, 128, 32, 236, 95, 90, 143, 161, 1]

/-- as `exBoth` with the distance lengths [1]: one distance code of length 1, incomplete -/
def exRfcOnly : List UInt8 := [5, 192, 129, 0, 0, 0, 0, 0, 144, 86, 255, 19, 8]

/-- literal/length lengths {0: 1, 1: 2, 256: 2}; distance items `17(3), 16(4)` after the end-of-block
    length 2: the library reads [0,0,0,2,2,2,2] (complete), the RFC reads seven zeros (zlib: no distance
    code, fine for a block without references); data: 0, 1, end of block. The readings differ, both
    accept, same result. -/
def exDiffer : List UInt8 := [5, 198, 55, 1, 0, 0, 0, 128, 32, 236, 95, 218, 99, 105]

/-- a dynamic block both accept -/
example : parseResult exBoth = some (#[97], 13) ∧ SpecRFC.inflate exBoth = some (#[97], 13) := by
  decide +kernel

/-- the library accepts, the RFC/zlib reading rejects (a 16 after a zero run makes extra symbols) -/
example : parseResult exLibOnly = some (#[0, 1], 15) ∧ SpecRFC.inflate exLibOnly = none := by
  decide +kernel

/-- the RFC/zlib reading accepts, the library rejects (single 1-bit distance code) -/
example : parseResult exRfcOnly = none ∧ SpecRFC.inflate exRfcOnly = some (#[97], 13) := by
  decide +kernel

/-- the two readings of the header differ, both accept, and — as proved — agree -/
example : parseResult exDiffer = some (#[0, 1], 14) ∧ SpecRFC.inflate exDiffer = some (#[0, 1], 14) := by
  decide +kernel

end Preflate

#print axioms Preflate.parseBits_agrees_rfc
#print axioms Preflate.specRFC_eq_spec_of_plain_header
#print axioms Preflate.specRFC_eq_spec_of_no_dynamic
#print axioms Preflate.parse_agrees_rfc
