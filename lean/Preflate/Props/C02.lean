/-
C02 — Stream split / reconstruct is exact whenever the split succeeds, and
C08 — reconstruction never depends on the estimated parameters being right (same theorem:
the predictor `P` — every hash algorithm, add policy, matching type, nice length, chain depth,
window size, block size, flag, and the Huffman length calculator — is universally quantified).

Model: Preflate/Model/Predict.lean (written once over the `Pred` interface), Model/Valid.lean.
Statements only; lemmas are in Preflate/Proofs/Predict*.lean.
-/
import Preflate.Proofs.Predict
import Preflate.Proofs.Expands
import Preflate.Proofs.Stream
import Preflate.Proofs.OpsWF
import Preflate.Proofs.ChainsBounded
import Preflate.Props.C10
import Preflate.Gen.Consts
namespace Preflate

variable {H : Type}

/-- `calculate_hops` (analysis) is inverted by `hop_match` (reconstruction) on the same chain. -/
theorem hops_inv (P : Pred H) (plain : Array Nat) (s : PState H) (len dist h : Nat)
    (hm : matchAt plain s.pos len dist = true)
    (hh : calcHops P plain s len dist = .ok h) :
    h ≠ 0 ∧ hopMatch P plain s len h = .ok dist :=
  Proofs.hops_inv P plain s len dist h hm hh

/-- The dynamic-header mirror, for any bit-length calculator. -/
theorem decTree_encTree (P : Pred H) (h : Header) (hv : HeaderValid h) (freq : List Nat × List Nat)
    (ops : List Op) (he : encTree P h freq = .ok ops) (rest : List Op) :
    decTree P freq (ops ++ rest) = .ok (h, rest) :=
  Proofs.decTree_encTree P h hv freq ops he rest

/-- For ANY predictor: if producing the corrections for a valid block list succeeds, then
    reconstruction from those corrections (followed by anything) returns exactly the blocks and the
    final padding and consumes exactly those corrections. Token-count signalling, EOF / BFINAL
    signalling, stored blocks, the irregular 258 flag and the header mirror are all inside. -/
theorem decStream_encStream (P : Pred H) (plain : Array Nat) (blocks : List Block) (pad : Nat)
    (hv : StreamValid plain blocks) (hpad : pad < 256) (ops : List Op)
    (he : encStream P plain blocks pad = .ok ops) (rest : List Op) :
    decStream P plain (ops ++ rest) = .ok (blocks, pad, rest) :=
  Proofs.decStream_encStream P plain blocks pad hv hpad ops he rest

/-- What the parser returns is a valid expansion of the plaintext it returns (the hypothesis of the
    mirror theorem is what `parse` guarantees) — for EVERY input: the parser's 2 GiB guard
    (`check_plain_text_size`, mirrored in the model) bounds the token count of a block, which the code
    converts to u32. -/
theorem parse_valid (bs : Bits) (p : Parsed) (h : parseBits bs = .ok p) :
    StreamValid p.plain p.blocks ∧ p.eofPadding < 256 :=
  Proofs.parse_valid_unbounded bs p h

/-- accepted streams stay below 2 GiB of plaintext and 2^31 - 1 tokens per block -/
theorem accepted_stream_bounds (d : List UInt8) (p : Parsed) (h : parse d = .ok p) :
    p.plain.size ≤ 2147483647 ∧ ∀ b ∈ p.blocks, (blockTokens b).length < 2 ^ 31 - 1 :=
  ⟨Proofs.parse_plain_lt d p h, Proofs.parse_tokens_lt d p h⟩

/-- END TO END, for ANY predictor: if analysing an accepted stream yields corrections, then
    reconstruction from those corrections followed by the block writer returns exactly the bytes
    the parser consumed: recompress(analyze D) = D[..compressed_size] at the level of operations
    (C10 carries operations to binary decisions; the bool coder is the remaining assumption). -/
theorem recompress_analyze (P : Pred H) (d : List UInt8) (p : Parsed)
    (hp : parse d = .ok p) (ops : List Op) (he : encStream P p.plain p.blocks p.eofPadding = .ok ops) :
    ∃ blocks pad, decStream P p.plain ops = .ok (blocks, pad, []) ∧
      writeStream blocks pad = .ok (d.take (p.consumed d)) :=
  Proofs.recompress_analyze P d p hp ops he


/-- BYTE LEVEL: the parser's result depends only on the bytes it consumed — removing or replacing
    what follows `D[..compressed_size]` gives the same blocks, padding, plaintext and size. -/
theorem parse_prefix (d : List UInt8) (p : Parsed) (h : parse d = .ok p) (x : List UInt8) :
    parse (d.take (p.consumed d) ++ x) = .ok { p with rest := bytesToBits x } ∧
    ({ p with rest := bytesToBits x } : Parsed).consumed (d.take (p.consumed d) ++ x) = p.consumed d :=
  ⟨Proofs.parse_prefix d p h x, Proofs.consumed_prefix d p h x⟩

/-- THE PUBLIC PAIR (Model/Stream.lean: `decompress_deflate_stream` / `recompress_deflate_stream` at the
    level of codec operations), for ANY estimator that is a function of the parse result and stays in
    the range the parameter header can carry, and ANY predictor family: whenever the split returns
    Ok(r), with either verify setting, reconstruction returns exactly D[..r.size]. -/
theorem recompress_decompress (est : Array Nat → List Block → R Params) (mk : Params → Pred H)
    (hest : ∀ pl bl q, est pl bl = .ok q → EstimatorRange q)
    (verify : Bool) (d : List UInt8) (r : StreamResult)
    (h : decompressStream est mk verify d = .ok r) :
    recompressStream mk r.plain r.corr = .ok (d.take r.size) ∧ r.size ≤ d.length :=
  Proofs.recompress_decompress est mk hest verify d r h

/-- both verify settings return the same result: the verify=true block (re-read of the parameters
    with its `assert_eq!`, reconstruction, comparison) always passes when the analysis succeeded, so it
    changes neither Ok/Err nor r -/
theorem verify_same (est : Array Nat → List Block → R Params) (mk : Params → Pred H)
    (hest : ∀ pl bl q, est pl bl = .ok q → EstimatorRange q)
    (d : List UInt8) :
    decompressStream est mk true d = decompressStream est mk false d :=
  Proofs.verify_same est mk hest d

/-- the result depends only on D[..r.size]: removing or replacing the bytes after it changes nothing -/
theorem decompress_prefix (est : Array Nat → List Block → R Params) (mk : Params → Pred H)
    (verify : Bool) (d : List UInt8) (r : StreamResult)
    (h : decompressStream est mk verify d = .ok r) (x : List UInt8) :
    decompressStream est mk verify (d.take r.size ++ x) = .ok r :=
  Proofs.decompress_prefix est mk verify d r h x

/-- every operation the analysis emits is one the codec theorem (C10) covers: widths 1..16 with
    fitting values, contexts inside the enums, corrections below 2^31 — for ANY predictor whose
    predicted lengths and bit lengths stay below 2^30 (`PredBounded`; false for unbounded predictors:
    `Proofs.Counter.cxTok_not_wf`, `cxLen_not_wf`), on plaintexts below 2^31 - 1 bytes (tight:
    `Proofs.Counter.token_count_counterexample` — a block of 2^31 - 1 tokens makes the codec compute
    `1u32 << 32`; the code's 2 GiB guard keeps accepted streams below that) -/
theorem analysis_ops_wf (P : Pred H) (hb : PredBounded P) (plain : Array Nat) (blocks : List Block)
    (pad : Nat) (hv : StreamValid plain blocks) (hpad : pad < 256) (hsize : plain.size < 2 ^ 31 - 1)
    (ops : List Op) (he : encStream P plain blocks pad = .ok ops) : ∀ o ∈ ops, o.WF :=
  Proofs.encStream_ops_wf P hb plain blocks pad hv hpad hsize ops he

/-- the executable predictor (seven hashes, u16 chains, lazy matching, zlib length calculator with
    its `Vec<u8>` result type) is bounded, for every parameter vector -/
theorem chains_pred_bounded (p : Params) : PredBounded (Chains.pred p) :=
  Proofs.chains_pred_bounded p

/-- BYTE LEVEL, end to end: whenever the split returns Ok(r) (either verify setting; plaintext below
    2 GiB, which the code's guard enforces), the corrections r.corr encode to bytes; read back through
    the bool coder under the encoder's context sequence those bytes yield the encoder's decisions
    (`vp8_lossless`), which decode under the encoder's kind sequence to exactly r.corr
    (`decode_encode`); and reconstruction from r.corr returns exactly D[..r.size]. The decoders'
    demands are modelled by check-and-fail (asking for a context / kind other than the next item's is
    a failure), so success means a demand-driven decoder asks exactly these sequences. -/
theorem decompress_bytes_chain (est : Array Nat → List Block → R Params) (mk : Params → Pred H)
    (hest : ∀ pl bl q, est pl bl = .ok q → EstimatorRange q) (hb : ∀ q, PredBounded (mk q))
    (verify : Bool) (d : List UInt8) (r : StreamResult)
    (h : decompressStream est mk verify d = .ok r) :
    ∃ evs bytes, encodeOps 0 r.corr = .ok evs ∧ encodeBytes r.corr = .ok bytes ∧
      decodeOps 0 (r.corr.map Op.kind) (VP8.readEvents bytes (evs.map (·.ctx))) = .ok (r.corr, 0, []) ∧
      recompressStream mk r.plain r.corr = .ok (d.take r.size) := by
  have hrec := (recompress_decompress est mk hest verify d r h).1
  obtain ⟨p, params, hdr, body, h1, h2, h3, h4, rfl⟩ := Proofs.decompressStream_ok h
  obtain ⟨hv, hpad⟩ := Proofs.parse_valid_unbounded (bytesToBits d) p h1
  obtain ⟨ops, e1, _, hwf1⟩ := Proofs.readParams_writeParams params
    (Proofs.estimatorRange_wf params (hest _ _ _ h2)) []
  rw [h3] at e1
  simp only [Except.ok.injEq] at e1
  subst e1
  have hwf2 := Proofs.encStream_ops_wf' (mk params) (hb params) p.plain p.blocks p.eofPadding hv hpad
    (Proofs.parse_tokenCountsSmall d p h1) body h4
  have hwf : ∀ o ∈ hdr ++ body, o.WF := by
    intro o ho
    rcases List.mem_append.mp ho with ho | ho
    · exact hwf1 o ho
    · exact hwf2 o ho
  obtain ⟨evs, bytes, e1, e2, _, e4⟩ := bytes_roundtrip (hdr ++ body) hwf
  exact ⟨evs, bytes, e1, e2, e4, hrec⟩

/-- Non-vacuity: with a predictor that always predicts a literal and a fixed in-range parameter
    vector, the one-literal fixed-Huffman stream 4b 04 00 (followed by junk) is accepted with verify on. -/
def trivialPred : Pred Unit where
  init := ()
  maxTokenCount := 16386
  windowBytes := 32768
  predictTok := fun _ _ => (.lit, none)
  repredictTok := fun _ _ => .error .err
  candidates := fun _ _ => []
  update := fun _ _ _ _ => ()
  calcBitLengths := fun f _ => f.map (fun _ => 0)

def trivialParams : Params := ⟨0, 0, true, 15, 1, 5, 32767, 16383, 4096, false, false, true, 8, 16, 128, 128, 3, 0, 0⟩

example : (decompressStream (fun _ _ => .ok trivialParams) (fun _ => trivialPred) true
    [0x4b, 0x04, 0x00, 0xff, 0x17]).toBool = true := by decide +kernel

/-- The context numbers the model uses are the declaration order of the enums in the source now. -/
theorem context_numbers_match_source :
    Gen.MISPREDICTION_NAMES = ["EOFMisprediction", "LiteralPredictionWrong", "ReferencePredictionWrong",
      "IrregularLen258", "TreeCodeCountMisprediction", "LiteralCountMisprediction",
      "DistanceCountMisprediction", "MAX"] ∧
    Gen.CORRECTION_NAMES = ["TokenCount", "NonZeroPadding", "BlockTypeCorrection", "LenCorrection",
      "DistOnlyCorrection", "DistAfterLenCorrection", "TreeCodeBitLengthCorrection", "LDTypeCorrection",
      "RepeatCountCorrection", "LDBitLengthCorrection", "MAX"] ∧
    Gen.BLOCK_TYPE_NAMES = ["DynamicHuff", "Stored", "StaticHuff"] ∧ Gen.BLOCK_TYPE_VALUES = [0, 1, 2] ∧
    Gen.TREE_CODE_VALUES = [0, 16, 17, 18] := by
  decide

end Preflate
