/-
C02 / C08, CONCRETE: the public pair with the model's own parameter estimator (`Est.estimate`,
Model/EstimatorFull.lean — all 19 fields compared with the code on every run) and the executable
predictor family (`Chains.pred`, Model/Chains.lean — correction bytes compared with the code on every
run). No hypothesis is left on the estimator or the predictor: `estimate_in_range` shows that the
estimator's output always lies in the range the parameter header can carry. This is the function the
`public` requests execute against `decompress_deflate_stream`.
-/
import Preflate.Proofs.EstimateRange
import Preflate.Proofs.DecodeBytes
namespace Preflate

/-- the complete parameter estimator, on any valid stream (in particular on whatever the parser
    returns), only emits vectors in `EstimatorRange` — the hypothesis `hest` of the generic theorems,
    discharged. (On block lists the parser cannot produce the statement is false:
    `Proofs.Counter.estimate_not_in_range`, a length-2 reference gives `min_len = 2`.) -/
theorem estimate_in_range (plain : Array Nat) (blocks : List Block) (p : Params)
    (hv : StreamValid plain blocks) (h : Est.estimate plain blocks = .ok p) : EstimatorRange p :=
  Proofs.estimate_in_range plain blocks p hv h

/-- THE PUBLIC PAIR: whenever the model of `decompress_deflate_stream` returns Ok(r), with either
    verify setting, the model of `recompress_deflate_stream` on r's plaintext and corrections returns
    exactly D[..r.size] -/
theorem public_pair_exact (verify : Bool) (d : List UInt8) (r : StreamResult)
    (h : decompressStream Est.estimate Chains.pred verify d = .ok r) :
    recompressStream Chains.pred r.plain r.corr = .ok (d.take r.size) ∧ r.size ≤ d.length :=
  Proofs.public_pair_exact verify d r h

/-- both verify settings are the same function -/
theorem public_verify_same (d : List UInt8) :
    decompressStream Est.estimate Chains.pred true d = decompressStream Est.estimate Chains.pred false d :=
  Proofs.public_verify_same d

/-- the result depends only on D[..r.size] -/
theorem public_prefix (verify : Bool) (d : List UInt8) (r : StreamResult)
    (h : decompressStream Est.estimate Chains.pred verify d = .ok r) (x : List UInt8) :
    decompressStream Est.estimate Chains.pred verify (d.take r.size ++ x) = .ok r :=
  decompress_prefix Est.estimate Chains.pred verify d r h x

/-- BYTE LEVEL, end to end: the corrections encode to bytes, the bytes read back through the bool
    coder decode to the corrections, and reconstruction returns D[..r.size] -/
theorem public_bytes_chain (verify : Bool) (d : List UInt8) (r : StreamResult)
    (h : decompressStream Est.estimate Chains.pred verify d = .ok r) :
    ∃ evs bytes, encodeOps 0 r.corr = .ok evs ∧ encodeBytes r.corr = .ok bytes ∧
      decodeOps 0 (r.corr.map Op.kind) (VP8.readEvents bytes (evs.map (·.ctx))) = .ok (r.corr, 0, []) ∧
      recompressStream Chains.pred r.plain r.corr = .ok (d.take r.size) :=
  Proofs.public_bytes_chain verify d r h

/-- AT THE REAL API TYPE (bytes in, bytes out): `decompressBytes` = `decompress_deflate_stream`
    returning the correction BYTES (for verify = true the verification runs from the bytes, as in the
    code), `recompressBytes` = `recompress_deflate_stream`: a demand-driven decoder that pulls every
    value out of the VP8 reader over the correction bytes as the reconstruction asks for it
    (Model/DecodeBytes.lean: `PredictionDecoderCabac` transcribed; the generic decoders instantiated at
    the list source ARE the existing ones, `Proofs.decStreamS_list`). Whenever the split returns
    Ok(plain, bytes, n, _), reconstruction from the bytes returns exactly D[..n]. (`hd`: the model bounds
    the block loop, which is unbounded in the code, by 2^32 iterations.) -/
theorem public_bytes_exact (verify : Bool) (d : List UInt8)
    (plain : Array Nat) (bytes : Array UInt8) (n : Nat) (q : Params)
    (h : decompressBytes Est.estimate Chains.pred verify d = .ok (plain, bytes, n, q))
    (hd : d.length < 2 ^ 61) :
    recompressBytes Chains.pred plain bytes = .ok (d.take n) :=
  Proofs.public_bytes_exact verify d plain bytes n q h hd

/-- both verify settings of the byte-level function return the same result -/
theorem public_bytes_verify_same (d : List UInt8) (hd : d.length < 2 ^ 61)
    (plain : Array Nat) (bytes : Array UInt8) (n : Nat) (q : Params) :
    decompressBytes Est.estimate Chains.pred true d = .ok (plain, bytes, n, q) ↔
    decompressBytes Est.estimate Chains.pred false d = .ok (plain, bytes, n, q) :=
  Proofs.public_bytes_verify_same d hd plain bytes n q

/-- the same for ANY estimator (a function of the parse result, in range on it) and ANY bounded
    predictor family -/
theorem recompressBytes_decompressBytes {H : Type} (est : Array Nat → List Block → R Params)
    (mk : Params → Pred H) (hb : ∀ q, PredBounded (mk q)) (verify : Bool) (d : List UInt8)
    (hest : ∀ p, parse d = .ok p → ∀ q, est p.plain p.blocks = .ok q → EstimatorRange q)
    (plain : Array Nat) (bytes : Array UInt8) (n : Nat) (q : Params)
    (h : decompressBytes est mk verify d = .ok (plain, bytes, n, q)) (hd : d.length < 2 ^ 61) :
    recompressBytes mk plain bytes = .ok (d.take n) :=
  Proofs.recompressBytes_decompressBytes est mk hb verify d hest plain bytes n q h hd

/-- the level tables the model's estimator uses are the ones in the source now -/
theorem level_tables_match_source :
    Est.ZLIB_SETTINGS.map (fun c => (c.goodLength, c.maxLazy, c.niceLength, c.maxChain)) = Gen.FAST_LEVELS ∧
    Est.SLOW_SETTINGS.map (fun c => (c.goodLength, c.maxLazy, c.niceLength, c.maxChain)) = Gen.SLOW_LEVELS ∧
    Est.ZLIB_SETTINGS.all (fun c => !c.isLazy) = true ∧ Est.SLOW_SETTINGS.all (fun c => c.isLazy) = true := by
  decide

end Preflate
