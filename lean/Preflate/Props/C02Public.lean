/-
C02 / C08, CONCRETE: the public pair with the model's own parameter estimator (`Est.estimate`,
Model/EstimatorFull.lean — all 19 fields compared with the code on every run) and the executable
predictor family (`Chains.pred`, Model/Chains.lean — correction bytes compared with the code on every
run). No hypothesis is left on the estimator or the predictor: `estimate_in_range` shows that the
estimator's output always lies in the range the parameter header can carry. This is the function the
`public` requests execute against `decompress_deflate_stream`.
-/
import Preflate.Proofs.EstimateRange
namespace Preflate

/-- the complete parameter estimator, on any valid stream (in particular on whatever the parser
    returns), only emits vectors in `EstimatorRange` — the hypothesis `hest` of the generic theorems,
    discharged. (On block lists the parser cannot produce the statement is false:
    `Proofs.Counter.estimate_not_in_range`, a length-2 reference gives `min_len = 2`.) -/
theorem estimate_in_range (plain : Array Nat) (blocks : List Block) (p : Params)
    (hv : StreamValid plain blocks) (h : Est.estimate plain blocks = .ok p) : EstimatorRange p :=
  Proofs.estimate_in_range plain blocks p hv h

/-- THE PUBLIC PAIR: whenever the model of `decompress_deflate_stream` returns Ok(r), with either
    verify setting, the model of `recompress_deflate_stream` on r's plaintext and corrections returns
    exactly D[..r.size] -/
theorem public_pair_exact (verify : Bool) (d : List UInt8) (r : StreamResult)
    (h : decompressStream Est.estimate Chains.pred verify d = .ok r) :
    recompressStream Chains.pred r.plain r.corr = .ok (d.take r.size) ∧ r.size ≤ d.length :=
  Proofs.public_pair_exact verify d r h

/-- both verify settings are the same function -/
theorem public_verify_same (d : List UInt8) :
    decompressStream Est.estimate Chains.pred true d = decompressStream Est.estimate Chains.pred false d :=
  Proofs.public_verify_same d

/-- the result depends only on D[..r.size] -/
theorem public_prefix (verify : Bool) (d : List UInt8) (r : StreamResult)
    (h : decompressStream Est.estimate Chains.pred verify d = .ok r) (x : List UInt8) :
    decompressStream Est.estimate Chains.pred verify (d.take r.size ++ x) = .ok r :=
  decompress_prefix Est.estimate Chains.pred verify d r h x

/-- BYTE LEVEL, end to end: the corrections encode to bytes, the bytes read back through the bool
    coder decode to the corrections, and reconstruction returns D[..r.size] -/
theorem public_bytes_chain (verify : Bool) (d : List UInt8) (r : StreamResult)
    (h : decompressStream Est.estimate Chains.pred verify d = .ok r) :
    ∃ evs bytes, encodeOps 0 r.corr = .ok evs ∧ encodeBytes r.corr = .ok bytes ∧
      decodeOps 0 (r.corr.map Op.kind) (VP8.readEvents bytes (evs.map (·.ctx))) = .ok (r.corr, 0, []) ∧
      recompressStream Chains.pred r.plain r.corr = .ok (d.take r.size) :=
  Proofs.public_bytes_chain verify d r h

/-- the level tables the model's estimator uses are the ones in the source now -/
theorem level_tables_match_source :
    Est.ZLIB_SETTINGS.map (fun c => (c.goodLength, c.maxLazy, c.niceLength, c.maxChain)) = Gen.FAST_LEVELS ∧
    Est.SLOW_SETTINGS.map (fun c => (c.goodLength, c.maxLazy, c.niceLength, c.maxChain)) = Gen.SLOW_LEVELS ∧
    Est.ZLIB_SETTINGS.all (fun c => !c.isLazy) = true ∧ Est.SLOW_SETTINGS.all (fun c => c.isLazy) = true := by
  decide

end Preflate
