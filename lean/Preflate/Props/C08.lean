/-
C08 — Reconstruction never depends on the estimated parameters being right.

The parameters select the predictor; in the model they are the fields of `Pred`, and the mirror
theorem of C02 is universally quantified over `Pred`: for EVERY hash algorithm, add policy,
matching type, nice length, chain depth, window size, block size and flag — indeed for every
function in their place — analysis either fails or yields corrections from which exactly the
original blocks are reconstructed. This file adds the parameter header: what `write` emits,
`read` returns, for every vector in the estimator's range.
-/
import Preflate.Proofs.Params
import Preflate.Proofs.Estimator
import Preflate.Props.C02
namespace Preflate

variable {H : Type}

/-- Err or exact, for any predictor whatsoever (re-export of the mirror theorem). -/
theorem any_parameters_exact (P : Pred H) (plain : Array Nat) (blocks : List Block) (pad : Nat)
    (hv : StreamValid plain blocks) (hpad : pad < 256) (ops : List Op)
    (he : encStream P plain blocks pad = .ok ops) (rest : List Op) :
    decStream P plain (ops ++ rest) = .ok (blocks, pad, rest) :=
  decStream_encStream P plain blocks pad hv hpad ops he rest

/-- The parameters read back equal the ones written; writing hits no `try_from().unwrap()`; and
    every emitted operation is a well-formed fixed-width value (so C10 applies to it). -/
theorem readParams_writeParams (p : Params) (h : p.WF) (rest : List Op) :
    ∃ ops, writeParams p = .ok ops ∧ readParams (ops ++ rest) = .ok (p, rest) ∧ ∀ o ∈ ops, o.WF :=
  Proofs.readParams_writeParams p h rest

/-- Everything the estimator can emit fits the serialised widths. -/
theorem estimatorRange_wf (p : Params) (h : EstimatorRange p) : p.WF :=
  Proofs.estimatorRange_wf p h

/-- the fields the estimator computes without the candidate hash tables (Model/Estimator.lean, tied to
    the code by the `estimate` requests) land inside the ranges `EstimatorRange` quantifies over:
    strategy / Huffman strategy discriminants, the no-dictionary vector, window bits 9..15, block size
    2^(6+m) - 1, add policy 0..4 with a limit that fits the 8-bit field (the D8 regression as a theorem)
    and is zero for the policies that carry none -/
theorem estimator_front_in_range (blocks : List Block) (f : Est.Front) (h : Est.front blocks = .ok f) :
    f.strategy ≤ 3 ∧ f.huffStrategy ≤ 2 ∧
    (f.noDictionary = true → (f.strategy = 2 ∨ f.strategy = 3) ∧ f.windowBits = 0 ∧
        f.maxTokenCount = 16386 ∧ f.addPolicy = 0 ∧ f.addLimit = 0) ∧
    (f.noDictionary = false → f.strategy ≤ 1 ∧ 9 ≤ f.windowBits ∧ f.windowBits ≤ 15 ∧
        (∃ m, 1 ≤ m ∧ m ≤ 9 ∧ f.maxTokenCount = 2 ^ (6 + m) - 1) ∧
        f.addPolicy ≤ 4 ∧ f.addLimit ≤ 255 ∧ (f.addPolicy ≠ 1 → f.addPolicy ≠ 2 → f.addLimit = 0)) :=
  Proofs.front_in_range blocks f h

/-- D1 regression as a theorem: a stream without any reference (stored and match-free Huffman blocks
    in any mix) takes the no-dictionary path, on which `min_len` (left at u32::MAX) is never serialised -/
theorem no_references_no_dictionary (blocks : List Block)
    (h : ∀ b ∈ blocks, Est.blockMaxDist (blockTokens b) = 0) (f : Est.Front) (hf : Est.front blocks = .ok f) :
    f.noDictionary = true :=
  Proofs.no_references_no_dictionary blocks h f hf

/-- The field order and widths the model uses are the ones `write` and `read` have in the source
    now, and the two agree with each other (widths and selectors; expression text is not compared). -/
theorem param_layout_matches_source :
    Gen.PARAM_WRITE_PREFIX.map Prod.snd = [8, 4, 4, 1, 8] ∧
    Gen.PARAM_READ_PREFIX.map Prod.snd = [8, 4, 4, 1, 8, 4] ∧
    Gen.PARAM_WRITE_HASH_ARMS.map (fun a => a.2.map Prod.snd) =
      [[4], [4, 8, 16], [4], [4], [4], [4], [4], [4]] ∧
    Gen.PARAM_WRITE_HASH_ARMS.map Prod.fst =
      ["None", "Zlib", "MiniZFast", "Libdeflate4Fast", "Libdeflate4", "ZlibNG", "RandomVector", "Crc32cHash"] ∧
    Gen.PARAM_WRITE_HASH_ARMS.map (fun a => (a.2.headD ("", 0)).1) =
      ["HASH_ALGORITHM_NONE", "HASH_ALGORITHM_ZLIB", "HASH_ALGORITHM_MINIZ_FAST", "HASH_ALGORITHM_LIBDEFLATE4_FAST",
       "HASH_ALGORITHM_LIBDEFLATE4", "HASH_ALGORITHM_ZLIBNG", "HASH_ALGORITHM_RANDOMVECTOR", "HASH_ALGORITHM_CRC32C"] ∧
    Gen.PARAM_READ_HASH_MAP = [("NONE", "None"), ("ZLIB", "Zlib"), ("MINIZ_FAST", "MiniZFast"),
      ("LIBDEFLATE4", "Libdeflate4"), ("LIBDEFLATE4_FAST", "Libdeflate4Fast"), ("ZLIBNG", "ZlibNG"),
      ("RANDOMVECTOR", "RandomVector"), ("CRC32C", "Crc32cHash")] ∧
    Gen.HASH_ALGORITHM_IDS = [0, 1, 2, 3, 4, 5, 6, 7] ∧
    Gen.PARAM_READ_ZLIB_EXTRA.map Prod.snd = [8, 16] ∧
    Gen.PARAM_WRITE_MIDDLE.map Prod.snd = [16, 16, 1, 1, 16, 16, 16, 16, 16] ∧
    Gen.PARAM_READ_MIDDLE.map Prod.snd = [16, 16, 1, 1, 16, 16, 16, 16, 16] ∧
    Gen.PARAM_READ_POLICY_SELECT = 3 ∧
    Gen.PARAM_WRITE_POLICY_ARMS.map (fun a => (a.1, a.2.map Prod.snd, (a.2.headD ("", 0)).1)) =
      [("AddAll", [3], "0"), ("AddFirst", [3, 8], "1"), ("AddFirstAndLast", [3, 8], "2"),
       ("AddFirstExcept4kBoundary", [3], "3"), ("AddFirstWith32KBoundary", [3], "4")] ∧
    Gen.PARAM_READ_POLICY_ARMS = [(0, "AddAll", []), (1, "AddFirst", [8]), (2, "AddFirstAndLast", [8]),
      (3, "AddFirstExcept4kBoundary", []), (4, "AddFirstWith32KBoundary", [])] ∧
    Gen.STRATEGY_VALUES = [0, 1, 2, 3] ∧ Gen.HUFF_STRATEGY_VALUES = [0, 1, 2] := by
  decide

/-- Non-vacuity: zlib level 6 style parameters are in the estimator's range. -/
example : EstimatorRange ⟨0, 0, true, 15, 1, 5, 32767, 16383, 4096, false, false, true, 8, 16, 128, 128, 3, 0, 0⟩ := by
  unfold EstimatorRange; decide

end Preflate
