/- `scan` request: the container model run with the oracle answers recorded from the implementation. -/
import Preflate.Driver.Wire
import Preflate.Model.Container
import Preflate.Model.IO
import Preflate.Model.Library
namespace Preflate.Driver
open Preflate

structure ProbeEntry where
  len : Nat
  digest : UInt64
  result : Option (Res × Bytes)   -- accepted: result and the bytes reconstruction returns

def toNats (b : List UInt8) : Bytes := b.map (·.toNat)

def parseEntry (t : String) : Option ProbeEntry :=
  match t.splitOn ":" with
  | [l, d, "rej"] => do pure ⟨← l.toNat?, UInt64.ofNat (← d.toNat?), none⟩
  | [l, d, sz, p, c, r] => do
      pure ⟨← l.toNat?, UInt64.ofNat (← d.toNat?),
            some (⟨toNats (unhex p), toNats (unhex c), ← sz.toNat?⟩, toNats (unhex r))⟩
  | _ => none

def fnvNats (b : Bytes) : UInt64 := b.foldl (fun h x => fnvByte h (UInt8.ofNat x)) fnvInit

/-- the oracle the recorded probes define; a probe the implementation did not make is a panic
    (the correspondence is broken) -/
def tapeOracle (tape : List ProbeEntry) : Oracle where
  analyze d :=
    let dg := fnvNats (d.take 64)
    match tape.find? (fun e => e.len == d.length && e.digest == dg) with
    | some ⟨_, _, some (r, _)⟩ => .ok r
    | some ⟨_, _, none⟩ => .error .err
    | none => .error (.panic "model made a probe the implementation did not make")
  recompress p c :=
    match tape.find? (fun e => match e.result with | some (r, _) => r.plain == p && r.corr == c | none => false) with
    | some ⟨_, _, some (_, back)⟩ => .ok back
    | _ => .error .err

/-- CRC-32 (IEEE), bitwise -/
def crc32 (b : Bytes) : Nat :=
  let step (c : Nat) (x : Nat) : Nat :=
    (List.range 8).foldl (fun c _ => if c % 2 = 1 then (c / 2) ^^^ 0xEDB88320 else c / 2) (c ^^^ x)
  (b.foldl step 0xFFFFFFFF) ^^^ 0xFFFFFFFF

def scanLine (f : List UInt8) (entries : List String) : String :=
  match entries.mapM parseEntry with
  | none => "bad-request"
  | some tape =>
      let o := tapeOracle tape
      let src := toNats f
      outcome (expand o crc32 src) fun c =>
        let back := match recreate o crc32 c with
          | .ok g => toString (fnvNats g)
          | .error (.panic _) => "panic"
          | .error _ => "err"
        s!"ok {c.length} {fnvNats c} {back}"

/-- `library` request: the WHOLE library in the model — `expand_zlib_chunks` then `recreated_zlib_chunks`
    with the concrete stream functions (`libOracle`: the byte-level model of decompress_deflate_stream /
    recompress_deflate_stream; no recorded answers from the code) — `Props/Library.lean` is about these
    functions -/
def libraryLine (f : List UInt8) : String :=
  let src := toNats f
  outcome (libExpand crc32 src) fun c =>
    let back := match libRecreate crc32 c with
      | .ok g => toString (fnvNats g)
      | .error (.panic _) => "panic"
      | .error _ => "err"
    s!"ok {c.length} {fnvNats c} {back}"

/-- `libraryfull` request (C04, model as writer): the container the model of the library writes -/
def libraryFullLine (f : List UInt8) : String :=
  outcome (libExpand crc32 (toNats f)) fun c => s!"ok {hex (c.map UInt8.ofNat)}"

def parseSched (t : String) : Option (List IoEv) :=
  if t == "-" then some [] else
  (t.splitOn ",").mapM fun x =>
    if x == "i" then some IoEv.interrupted
    else if x == "e" then some IoEv.error
    else if x == "z" then some IoEv.zero
    else if x.startsWith "s" then (x.drop 1).toNat?.map IoEv.short
    else none

def recreateIoLine (c : List UInt8) (rs ws : String) (entries : List String) : String :=
  match entries.mapM parseEntry, parseSched rs, parseSched ws with
  | some tape, some rs, some ws =>
      let o := tapeOracle tape
      let (res, _, k) := recreateIO o crc32 ⟨toNats c, rs⟩ ⟨[], ws⟩
      let word := match res with
        | .ok () => "ok"
        | .error (.panic _) => "panic"
        | .error .fuel => "fuel"
        | .error .err => "err"
      s!"{word} {k.out.length} {fnvNats k.out}"
  | _, _, _ => "bad-request"

/-- `libraryio` request: `recreated_zlib_chunks` over a source / sink schedule in the model of the whole
    library (`libRecreateIO`: concrete stream functions, no recorded answers) -/
def libraryIoLine (c : List UInt8) (rs ws : String) : String :=
  match parseSched rs, parseSched ws with
  | some rs, some ws =>
      let (res, _, k) := libRecreateIO crc32 ⟨toNats c, rs⟩ ⟨[], ws⟩
      let word := match res with
        | .ok () => "ok"
        | .error (.panic _) => "panic"
        | .error .fuel => "fuel"
        | .error .err => "err"
      s!"{word} {k.out.length} {fnvNats k.out}"
  | _, _ => "bad-request"

end Preflate.Driver
