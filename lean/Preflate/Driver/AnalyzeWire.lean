/- `analyze` request: the whole analysis pipeline of the model, down to correction bytes. -/
import Preflate.Driver.CodecWire
import Preflate.Model.Chains
import Preflate.Model.Stream
import Preflate.Model.Estimator
import Preflate.Model.EstimatorFull
import Preflate.Model.DecodeBytes
import Preflate.Model.ChainsSafe
import Preflate.Model.ChainBounds
namespace Preflate.Driver
open Preflate

def paramsOfVec (v : List Nat) : Option Params :=
  match v with
  | [st, hs, zc, wb, alg, sh, mk, mtc, md3, vf, mts, good, ml, nice, chain, minLen, pol, lim, lz] =>
      some ⟨st, hs, zc != 0, wb, alg, sh, mk, mtc, md3, vf != 0, mts != 0, lz != 0, good, ml, nice, chain, minLen, pol, lim⟩
  | _ => none

/-- parse, parameter header, predictions (`decompressStream` of Model/Stream.lean — the function the
    theorems of Props/C02 are about — with the given parameter vector in place of the estimator and
    the executable predictor `Chains.pred`), then codec and bool coder -/
def analyzeModel (p : Params) (d : List UInt8) : R (Nat × List Op × Array UInt8) := do
  let r ← decompressStream (fun _ _ => .ok p) Chains.pred false d
  let evs ← encodeOps 0 r.corr
  pure (r.size, r.corr, VP8.writeEvents evs)

def analyzeLine (toks : List String) : String :=
  match toks.reverse with
  | d :: vs =>
      match (vs.reverse.mapM String.toNat?).bind paramsOfVec with
      | some p => outcome (analyzeModel p (unhex d)) fun (size, ops, bytes) =>
          s!"ok {size} {ops.length} {opsFnv ops} {bytes.size} {fnvBytes bytes.toList}"
      | none => "bad-request"
  | [] => "bad-request"

/-- same, but returns the correction bytes themselves (model as writer, C04) -/
def analyzeFullLine (toks : List String) : String :=
  match toks.reverse with
  | d :: vs =>
      match (vs.reverse.mapM String.toNat?).bind paramsOfVec with
      | some p => outcome (analyzeModel p (unhex d)) fun (size, _, bytes) => s!"ok {size} {hex bytes.toList}"
      | none => "bad-request"
  | [] => "bad-request"

/-- `inrange` request: is this parameter vector (as produced by the code's estimator) inside the Lean
    predicate `EstimatorRange` that the theorems of C02 / C08 quantify over? -/
def inRangeLine (toks : List String) : String :=
  match (toks.mapM String.toNat?).bind paramsOfVec with
  | some p => if decide (EstimatorRange p) then "yes" else "no"
  | none => "bad-request"

/-- `estimate` request: the front part of the parameter estimator -/
def estimateLine (d : List UInt8) : String :=
  outcome (do
    let parsed ← parse d
    Est.front parsed.blocks) fun f =>
      s!"ok {f.strategy} {f.huffStrategy} {f.windowBits} {f.maxTokenCount} {f.addPolicy} {f.addLimit}"

/-- a parameter vector in the hook's order (`params_to_vec` of verif_hooks.rs; inverse of `paramsOfVec`) -/
def vecOfParams (p : Params) : List Nat :=
  [p.strategy, p.huffStrategy, b2n p.zlibCompatible, p.windowBits, p.hashAlg, p.hashShift, p.hashMask,
   p.maxTokenCount, p.maxDist3, b2n p.veryFar, b2n p.matchesToStart, p.goodLength, p.maxLazy,
   p.niceLength, p.maxChain, p.minLen, p.addPolicy, p.addLimit, b2n p.isLazy]

/-- `estimatefull` request: the complete parameter estimator (`Est.estimate`), all 19 fields -/
def estimateFullLine (d : List UInt8) : String :=
  outcome (do
    let parsed ← parse d
    Est.estimate parsed.plain parsed.blocks) fun p =>
      "ok" ++ String.join ((vecOfParams p).map fun x => s!" {x}")

/-- `public` request: the WHOLE public function `decompress_deflate_stream(D, verify = false)` in the
    model — parser, the model's own parameter estimator (`Est.estimate`, no vector from the code),
    parameter header, predictions with the executable predictor, codec, bool coder -/
def publicLine (d : List UInt8) : String :=
  outcome (do
    let r ← decompressStream Est.estimate Chains.pred false d
    let bytes ← encodeBytes r.corr
    pure (r.size, bytes)) fun (size, bytes) =>
      s!"ok {size} {bytes.size} {fnvBytes bytes.toList}"

/-- `recompress` request: the public function `recompress_deflate_stream(plain_text,
    prediction_corrections)` in the model, at its real type — bytes in, bytes out; the reconstruction
    pulls every value out of the VP8 reader over the correction bytes on demand (`recompressBytes`,
    Model/DecodeBytes.lean; `Proofs.public_bytes_exact` is about this function).

    The Rust block loop has no bound: on damaged corrections it may never return (e.g. plain "hello
    stored world", corrections 00 ab 8b: max_token_count = 0 is read and every block is empty). The
    driver therefore runs `recompressBytesWithin budget`; by `Proofs.recompressBytesWithin_eq` its answer
    IS the answer of `recompressBytes` unless it is `fuel` ("still looping after `budget` blocks"). -/
def recompressLine (plain corr : List UInt8) : String :=
  let budget := 16384 + 8 * (plain.length + corr.length)
  outcome (recompressBytesWithin budget Chains.pred (plain.map (·.toNat)).toArray corr.toArray) fun out =>
    s!"ok {hex out}"


/-- `chk` request: do the panic-site checkers of the match finder and hash chains (Model/ChainsSafe.lean,
    `Proofs.encStreamChk_ok` is about them) reach a panic site on this stream under this parameter
    vector? Answer `ok` (none reached; an unparseable stream also answers `ok`) or `panic <site>`. -/
def chkLine (toks : List String) : String :=
  match toks.reverse with
  | d :: vs =>
      match (vs.reverse.mapM String.toNat?).bind paramsOfVec with
      | some p =>
          match parse (unhex d) with
          | .ok parsed =>
              (match Chains.encStreamChk p parsed.plain parsed.blocks with
               | .ok _ => "ok"
               | .error (.panic m) => s!"panic {m}"
               | .error _ => "ok")
          | .error _ => "ok"
      | none => "bad-request"
  | [] => "bad-request"

/-- `policy <code> <limit> <pos> <len>`: the hash-chain update calls the add policy makes for a token of
    `len` bytes committed at `pos` (`Chains.updateCalls`; `Proofs.policyUpdate_eq_calls`: that is what the
    model's `policyUpdate` performs). The hash algorithm only has to be "some": id 1. -/
def policyLine (toks : List String) : String :=
  match toks.mapM String.toNat? with
  | some [pol, lim, pos, len] =>
      let p : Params := { (default : Params) with hashAlg := 1, addPolicy := pol, addLimit := lim }
      let calls := Chains.updateCalls p pos len
      "calls " ++ ",".intercalate (calls.map fun (a, b) => s!"{a}:{b}")
  | _ => "bad-request"

end Preflate.Driver
