/- `codec` and `events` requests (DESIGN.md appendix A). -/
import Preflate.Driver.Wire
import Preflate.Model.VP8
namespace Preflate.Driver
open Preflate

def parseOp (t : String) : Option Op :=
  match t.splitOn ":" with
  | ["v", b, v] => do pure (.value (← b.toNat?) (← v.toNat?))
  | ["m", c, f] => do pure (.mis (← c.toNat?) (f == "1"))
  | ["c", c, v] => do pure (.corr (← c.toNat?) (← v.toNat?))
  | _ => none

def parseOps (toks : List String) : Option (List Op) :=
  if toks == ["-"] then some [] else toks.mapM parseOp

def opsFnv (ops : List Op) : UInt64 :=
  ops.foldl (fun h o => match o with
    | .value b v => fnvNum (fnvNum (fnvNum h 0) b) v
    | .mis c f => fnvNum (fnvNum (fnvNum h 1) c) (if f then 1 else 0)
    | .corr c v => fnvNum (fnvNum (fnvNum h 2) c) v) fnvInit

/-- renumber contexts in order of first use, 1-based; bypass = 0 (what the recording coder of the
    harness does) -/
def eventsFnv (evs : List Ev) : UInt64 :=
  let (_, h) := evs.foldl (fun (st : List CtxId × UInt64) e =>
    let (seen, h) := st
    match e.ctx with
    | none => (seen, fnvNum (fnvNum h 0) (if e.bit then 1 else 0))
    | some c =>
        match seen.idxOf? c with
        | some i => (seen, fnvNum (fnvNum h (i + 1)) (if e.bit then 1 else 0))
        | none => (seen ++ [c], fnvNum (fnvNum h (seen.length + 1)) (if e.bit then 1 else 0))) ([], fnvInit)
  h

def codecLine (ops : List Op) : String :=
  outcome (do
    let evs ← encodeOps 0 ops
    let bytes := VP8.writeEvents evs
    -- read the bits back from the bytes under the encoder's context sequence
    let bits := VP8.readBits bytes (evs.map (·.ctx))
    let evs' := (evs.zip bits).map fun (e, b) => ({ e with bit := b } : Ev)
    let (dec, _, _) ← decodeOps 0 (ops.map Op.kind) evs'
    pure (bytes, dec)) fun (bytes, dec) => s!"ok {bytes.size} {fnvBytes bytes.toList} {opsFnv dec}"

def eventsLine (ops : List Op) : String :=
  outcome (encodeOps 0 ops) fun evs => s!"ok {evs.length} {eventsFnv evs}"

end Preflate.Driver
