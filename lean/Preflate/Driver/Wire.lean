/- Wire format between the Rust harness and the model driver (DESIGN.md appendix A). -/
import Preflate.Model.Deflate
import Preflate.Model.Spec
import Preflate.Model.SpecRFC
namespace Preflate.Driver
open Preflate

def hexVal (c : Char) : Nat :=
  if '0' ≤ c ∧ c ≤ '9' then c.toNat - '0'.toNat
  else if 'a' ≤ c ∧ c ≤ 'f' then c.toNat - 'a'.toNat + 10
  else 0

def unhexChars : List Char → List UInt8
  | a :: b :: rest => UInt8.ofNat (hexVal a * 16 + hexVal b) :: unhexChars rest
  | _ => []

def unhex (s : String) : List UInt8 := if s == "-" then [] else unhexChars s.toList

def hexDigit (n : Nat) : Char := if n < 10 then Char.ofNat (48 + n) else Char.ofNat (87 + n)

def hex (b : List UInt8) : String :=
  if b.isEmpty then "-" else
  String.ofList (b.flatMap fun x => [hexDigit (x.toNat / 16), hexDigit (x.toNat % 16)])

def fnvInit : UInt64 := 0xcbf29ce484222325
def fnvByte (h : UInt64) (x : UInt8) : UInt64 := (h ^^^ x.toUInt64) * 0x100000001b3

def fnvBytes (b : List UInt8) : UInt64 := b.foldl fnvByte fnvInit

/-- a number as 8 little-endian bytes -/
def fnvNum (h : UInt64) (x : Nat) : UInt64 :=
  (List.range 8).foldl (fun h i => fnvByte h (UInt8.ofNat ((x >>> (8 * i)) % 256))) h

def fnvNatsAsBytes (b : List Nat) : UInt64 := b.foldl (fun h x => fnvByte h (UInt8.ofNat x)) fnvInit

def tokFnv (ts : List Token) : UInt64 :=
  ts.foldl (fun h t => match t with
    | .lit b => fnvNum (fnvNum h 0) b
    | .ref len dist irr => fnvNum (fnvNum (fnvNum (fnvNum h 1) len) dist) (if irr then 1 else 0)) fnvInit

def numsFnv (xs : List Nat) : UInt64 := xs.foldl fnvNum fnvInit

def headerFnv (h : Header) : UInt64 :=
  let a := fnvNum (fnvNum (fnvNum fnvInit h.numLiterals) h.numDist) h.numCodeLengths
  let b := h.codeLengths.foldl fnvNum a
  h.items.foldl (fun x i => fnvNum (fnvNum x i.kind) i.data) b

def blockLine : Block → String
  | .stored pad data => s!" 1 {pad} {data.length} {numsFnv data} 0"
  | .fixed ts => s!" 2 0 {ts.length} {tokFnv ts} 0"
  | .dynamic h ts => s!" 0 0 {ts.length} {tokFnv ts} {headerFnv h}"

def outcome {α} (r : R α) (f : α → String) : String :=
  match r with
  | .ok a => f a
  | .error .err => "err"
  | .error (.panic s) => s!"panic {s}"
  | .error .fuel => "fuel"

def parseLine (d : List UInt8) : String :=
  outcome (parse d) fun p =>
    let consumed := p.consumed d
    s!"ok {consumed} {p.eofPadding} {fnvNatsAsBytes p.plain.toList} {p.blocks.length}" ++
      String.join (p.blocks.map blockLine)

def rewriteLine (d : List UInt8) : String :=
  outcome (do
    let p ← parse d
    let w ← writeStream p.blocks p.eofPadding
    pure (w, p.consumed d)) fun (w, c) => s!"ok {fnvBytes w} {c}"

/-- `spec` request: the RFC-table inflater -/
def specLine (d : List UInt8) : String :=
  match Spec.inflate d with
  | some (plain, n) => s!"ok {fnvNatsAsBytes plain.toList} {n}"
  | none => "reject"

/-- the same stream through the INDEPENDENT RFC/zlib reading of the dynamic header (Model/SpecRFC.lean) -/
def specRfcLine (d : List UInt8) : String :=
  match SpecRFC.inflate d with
  | some (plain, n) => s!"ok {fnvNatsAsBytes plain.toList} {n}"
  | none => "reject"

end Preflate.Driver
