/-
Base lemmas for `parse_valid`: the plaintext only ever grows (`Extends`), validity of tokens and
blocks is stable under growth, and what `copyRef` / `pushAll` append.
-/
import Preflate.Model.Valid
import Preflate.Proofs.Tables
namespace Preflate.Proofs
open Preflate Preflate.Gen

/-- `b` is `a` with more elements appended -/
def Extends (a b : Array Nat) : Prop :=
  a.size ≤ b.size ∧ ∀ i, i < a.size → b.getD i 0 = a.getD i 0

theorem Extends.refl (a : Array Nat) : Extends a a := ⟨Nat.le_refl _, fun _ _ => rfl⟩

theorem Extends.trans {a b c : Array Nat} (h1 : Extends a b) (h2 : Extends b c) : Extends a c :=
  ⟨Nat.le_trans h1.1 h2.1, fun i hi => by
    rw [h2.2 i (Nat.lt_of_lt_of_le hi h1.1), h1.2 i hi]⟩

theorem getD_push_lt (a : Array Nat) (x : Nat) {i : Nat} (h : i < a.size) :
    (a.push x).getD i 0 = a.getD i 0 := by
  simp [Array.getD, Array.getElem_push, h, Nat.lt_succ_of_lt h]

theorem getD_push_eq (a : Array Nat) (x : Nat) : (a.push x).getD a.size 0 = x := by
  simp [Array.getD]

theorem extends_push (a : Array Nat) (x : Nat) : Extends a (a.push x) :=
  ⟨by simp, fun _ hi => getD_push_lt a x hi⟩

-- ---------------------------------------------------------------------------------------------
-- copyRef

theorem copyRef_spec (dist : Nat) : ∀ (n : Nat) (plain : Array Nat),
    (copyRef plain dist n).size = plain.size + n ∧ Extends plain (copyRef plain dist n) ∧
    (1 ≤ dist → dist ≤ plain.size → ∀ i, i < n →
      (copyRef plain dist n).getD (plain.size - dist + i) 0 =
        (copyRef plain dist n).getD (plain.size + i) 0) := by
  intro n
  induction n with
  | zero =>
    intro plain
    exact ⟨rfl, Extends.refl _, fun _ _ i hi => absurd hi (Nat.not_lt_zero _)⟩
  | succ n ih =>
    intro plain
    rw [copyRef]
    obtain ⟨h1, h2, h3⟩ := ih (plain.push (plain.getD (plain.size - dist) 0))
    have hsz : (plain.push (plain.getD (plain.size - dist) 0)).size = plain.size + 1 := by simp
    rw [hsz] at h1 h3
    refine ⟨by omega, (extends_push _ _).trans h2, ?_⟩
    intro hd1 hd2 i hi
    cases i with
    | zero =>
      have e1 := h2.2 plain.size (by omega)
      rw [getD_push_eq] at e1
      have e2 := h2.2 (plain.size - dist) (by omega)
      rw [getD_push_lt _ _ (by omega)] at e2
      simp only [Nat.add_zero]
      rw [e1, e2]
    | succ j =>
      have := h3 hd1 (by omega) j (by omega)
      have e1 : plain.size - dist + (j + 1) = plain.size + 1 - dist + j := by omega
      have e2 : plain.size + (j + 1) = plain.size + 1 + j := by omega
      rw [e1, e2]
      exact this

theorem matchAt_iff (plain : Array Nat) (pos len dist : Nat) :
    matchAt plain pos len dist = true ↔
      ∀ i, i < len → plain.getD (pos - dist + i) 0 = plain.getD (pos + i) 0 := by
  simp [matchAt, List.all_eq_true]

theorem matchAt_copyRef (plain : Array Nat) (dist len : Nat) (h1 : 1 ≤ dist) (h2 : dist ≤ plain.size) :
    matchAt (copyRef plain dist len) plain.size len dist = true :=
  (matchAt_iff _ _ _ _).mpr ((copyRef_spec dist len plain).2.2 h1 h2)

theorem matchAt_mono {a b : Array Nat} (h : Extends a b) {pos len dist : Nat}
    (hs : pos + len ≤ a.size) (hm : matchAt a pos len dist = true) : matchAt b pos len dist = true := by
  rw [matchAt_iff] at hm ⊢
  intro i hi
  rw [h.2 _ (by omega), h.2 _ (by omega)]
  exact hm i hi

-- ---------------------------------------------------------------------------------------------
-- pushAll

theorem pushAll_spec : ∀ (data : List Nat) (plain : Array Nat),
    (pushAll plain data).size = plain.size + data.length ∧ Extends plain (pushAll plain data) ∧
    ∀ i, i < data.length → (pushAll plain data).getD (plain.size + i) 0 = data.getD i 0 := by
  intro data
  induction data with
  | nil =>
    intro plain
    exact ⟨rfl, Extends.refl _, fun i hi => absurd hi (Nat.not_lt_zero _)⟩
  | cons x r ih =>
    intro plain
    rw [pushAll]
    obtain ⟨h1, h2, h3⟩ := ih (plain.push x)
    have hsz : (plain.push x).size = plain.size + 1 := by simp
    rw [hsz] at h1 h3
    refine ⟨by simp only [List.length_cons]; omega, (extends_push _ _).trans h2, ?_⟩
    intro i hi
    cases i with
    | zero =>
      have e1 := h2.2 plain.size (by omega)
      rw [getD_push_eq] at e1
      simpa using e1
    | succ j =>
      have := h3 j (by simp only [List.length_cons] at hi; omega)
      have e2 : plain.size + (j + 1) = plain.size + 1 + j := by omega
      rw [e2, this]
      simp

-- ---------------------------------------------------------------------------------------------
-- validity is stable under growth

theorem validTok_mono {a b : Array Nat} (h : Extends a b) {pos : Nat} {t : Token}
    (hv : ValidTok a pos t) : ValidTok b pos t := by
  cases t with
  | lit x =>
    obtain ⟨h1, h2⟩ := hv
    exact ⟨Nat.lt_of_lt_of_le h1 h.1, by rw [h.2 _ h1]; exact h2⟩
  | ref len dist irr =>
    obtain ⟨h1, h2, h3, h4, h5, h6, h7, h8⟩ := hv
    exact ⟨h1, h2, h3, h4, h5, Nat.le_trans h6 h.1, matchAt_mono h h6 h7, h8⟩

theorem validToks_mono {a b : Array Nat} (h : Extends a b) : ∀ {ts : List Token} {pos : Nat},
    ValidToks a pos ts → ValidToks b pos ts := by
  intro ts
  induction ts with
  | nil => intro _ _; trivial
  | cons t ts ih =>
    intro pos hv
    exact ⟨validTok_mono h hv.1, ih hv.2⟩

theorem validBlock_mono {a b : Array Nat} (h : Extends a b) {pos : Nat} {bl : Block}
    (hv : ValidBlock a pos bl) : ValidBlock b pos bl := by
  cases bl with
  | stored pad data =>
    obtain ⟨h1, h2, h3, h4⟩ := hv
    refine ⟨h1, h2, Nat.le_trans h3 h.1, ?_⟩
    rw [h4]
    simp only [List.length_map, List.length_range, List.map_inj_left, List.mem_range]
    intro i hi
    rw [h.2 _ (by omega)]
  | fixed ts => exact ⟨validToks_mono h hv.1, hv.2⟩
  | dynamic hd ts => exact ⟨validToks_mono h hv.1, hv.2⟩

theorem validBlocks_mono {a b : Array Nat} (h : Extends a b) : ∀ {bls : List Block} {pos : Nat},
    ValidBlocks a pos bls → ValidBlocks b pos bls := by
  intro bls
  induction bls with
  | nil => intro _ _; trivial
  | cons bl bls ih =>
    intro pos hv
    exact ⟨validBlock_mono h hv.1, ih hv.2⟩

-- ---------------------------------------------------------------------------------------------
-- table bounds

theorem length_bound (c : Nat) (hc : c < 29) : lengthBase c + 2 ^ lengthExtra c ≤ 256 := by
  have := all_range (n := 29) (p := fun c => decide (lengthBase c + 2 ^ lengthExtra c ≤ 256))
    (by decide +kernel) c hc
  simpa using this

end Preflate.Proofs
