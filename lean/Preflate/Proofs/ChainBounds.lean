/- C05 growth: the u16 position arithmetic of the hash chains never overflows. -/
import Preflate.Model.ChainBounds
namespace Preflate.Proofs
open Preflate Preflate.Chains

/-- the abstraction is faithful: `policyUpdate` changes `totalShift` exactly as the reshift tests of
    its update calls do -/
theorem policyUpdate_totalShift (p : Params) (plain : Array Nat) (c : Chain) (pos len : Nat) :
    (policyUpdate p plain c pos len).totalShift = shiftAfter c.totalShift (updateCalls p pos len) := by
  sorry

/-- For every parameter vector, every sequence of token lengths 1..258 starting at position 0 with
    the initial shift -8: no `from_absolute` and no `inc` ever leaves the u16 range. For the
    4 KiB-boundary policy the estimator's own side condition is needed (no reference starts in the
    last three positions of a 4 KiB page). -/
theorem chain_positions_in_u16 (p : Params) (lens : List Nat)
    (hl : ∀ l ∈ lens, 1 ≤ l ∧ l ≤ 258)
    (h4k : p.addPolicy = 3 → NoRefAt4k 0 lens) :
    RunSafe p (-8) 0 lens := by
  sorry

end Preflate.Proofs
