/- C05 growth: the u16 position arithmetic of the hash chains never overflows. -/
import Preflate.Model.ChainBounds
namespace Preflate.Proofs
open Preflate Preflate.Chains

/-- one `HashChain::update_hash` call changes `totalShift` by exactly the reshift test -/
theorem update_totalShift (p : Params) (plain : Array Nat) (c : Chain) (pos0 len : Nat) :
    (Chain.update p plain c pos0 len).totalShift = shiftStep c.totalShift pos0 := by
  unfold Chain.update shiftStep
  by_cases h : (pos0 : Int) - c.totalShift ≥ 0xfe08 <;> by_cases h3 : p.hashAlg = 3 <;> simp [h, h3]

/-- the abstraction is faithful: `policyUpdate` changes `totalShift` exactly as the reshift tests of
    its update calls do -/
theorem policyUpdate_totalShift (p : Params) (plain : Array Nat) (c : Chain) (pos len : Nat) :
    (policyUpdate p plain c pos len).totalShift = shiftAfter c.totalShift (updateCalls p pos len) := by
  unfold policyUpdate updateCalls
  by_cases h0 : p.hashAlg = 0
  · simp [h0, shiftAfter]
  by_cases h1 : len = 1
  · simp [h0, h1, shiftAfter, update_totalShift]
  simp only [h0, h1, if_false]
  generalize p.addPolicy = a
  match a with
  | 0 => simp [shiftAfter, update_totalShift]
  | 1 => by_cases hl : len ≤ p.addLimit <;> simp [hl, shiftAfter, update_totalShift]
  | 2 => by_cases hl : len ≤ p.addLimit <;> simp [hl, shiftAfter, update_totalShift]
  | 3 => by_cases hl : (pos &&& 4095) < 4093 <;> simp [hl, shiftAfter, update_totalShift]
  | n + 4 => by_cases hl : is32kBoundary len pos <;> simp [hl, shiftAfter, update_totalShift]

/-- invariant at token starts: the internal position is at most one maximal token past the reshift
    threshold (0xfe08 + 257) -/
def ChainInv (shift : Int) (pos : Nat) : Prop :=
  0 ≤ (pos : Int) - shift ∧ (pos : Int) - shift ≤ 65289

/-- with a hash algorithm and (for the 4 KiB policy) the estimator's side condition, every token
    makes an update call at its start position, of one of three shapes -/
theorem updateCalls_shape (p : Params) (hh : p.hashAlg ≠ 0) (pos len : Nat)
    (h4k : p.addPolicy = 3 → len ≠ 1 → (pos &&& 4095) < 4093) :
    updateCalls p pos len = [(pos, 1)] ∨ updateCalls p pos len = [(pos, len)] ∨
    updateCalls p pos len = [(pos, 1), (pos + len - 1, 1)] := by
  unfold updateCalls
  by_cases h1 : len = 1
  · simp [hh, h1]
  simp only [hh, h1, if_false]
  revert h4k
  generalize p.addPolicy = a
  intro h4k
  match a with
  | 0 => simp
  | 1 => by_cases hl : len ≤ p.addLimit <;> simp [hl]
  | 2 => by_cases hl : len ≤ p.addLimit <;> simp [hl]
  | 3 =>
    have : (pos &&& 4095) < 4093 := h4k rfl h1
    simp [this]
  | n + 4 => by_cases hl : is32kBoundary len pos <;> simp [hl]

theorem shiftStep_cases (s : Int) (q : Nat) :
    (shiftStep s q = s + 32256 ∧ (q : Int) - s ≥ 65032) ∨ (shiftStep s q = s ∧ (q : Int) - s < 65032) := by
  unfold shiftStep
  by_cases h : (q : Int) - s ≥ 0xfe08
  · left; rw [if_pos h]; exact ⟨rfl, by omega⟩
  · right; rw [if_neg h]; exact ⟨rfl, by omega⟩

theorem chain_step_safe (p : Params) (hh : p.hashAlg ≠ 0) (shift : Int) (pos len : Nat)
    (hinv : ChainInv shift pos) (hl : 1 ≤ len ∧ len ≤ 258)
    (h4k : p.addPolicy = 3 → len > 1 → (pos &&& 4095) < 4093) :
    IterSafe shift pos ∧ CallsSafe shift (updateCalls p pos len) ∧
    ChainInv (shiftAfter shift (updateCalls p pos len)) (pos + len) := by
  obtain ⟨hi0, hi1⟩ := hinv
  obtain ⟨hl0, hl1⟩ := hl
  refine ⟨⟨hi0, by omega⟩, ?_⟩
  rcases updateCalls_shape p hh pos len (fun h3 hn => h4k h3 (by omega)) with h | h | h <;> rw [h]
  · simp only [CallsSafe, CallSafe, shiftAfter, List.foldl, ChainInv, and_true]
    rcases shiftStep_cases shift pos with ⟨e, hc⟩ | ⟨e, hc⟩ <;> rw [e] <;> omega
  · simp only [CallsSafe, CallSafe, shiftAfter, List.foldl, ChainInv, and_true]
    rcases shiftStep_cases shift pos with ⟨e, hc⟩ | ⟨e, hc⟩ <;> rw [e] <;> omega
  · simp only [CallsSafe, CallSafe, shiftAfter, List.foldl, ChainInv, and_true]
    rcases shiftStep_cases shift pos with ⟨e, hc⟩ | ⟨e, hc⟩ <;> rw [e] <;>
      rcases shiftStep_cases (shiftStep shift pos) (pos + len - 1) with ⟨e', hc'⟩ | ⟨e', hc'⟩ <;>
      rw [e] at e' hc' <;> rw [e'] <;> omega

theorem chain_run_safe (p : Params) (hh : p.hashAlg ≠ 0) (lens : List Nat) :
    ∀ (shift : Int) (pos : Nat), ChainInv shift pos →
      (∀ l ∈ lens, 1 ≤ l ∧ l ≤ 258) → (p.addPolicy = 3 → NoRefAt4k pos lens) →
      RunSafe p shift pos lens := by
  induction lens with
  | nil => intros; trivial
  | cons len rest ih =>
    intro shift pos hinv hl h4k
    have hs := chain_step_safe p hh shift pos len hinv (hl len (by simp))
      (fun h3 => (h4k h3).1)
    exact ⟨hs.1, hs.2.1, ih _ _ hs.2.2 (fun l hm => hl l (by simp [hm]))
      (fun h3 => (h4k h3).2)⟩

/-- For every parameter vector with a hash algorithm (`HashAlgorithm::None` never touches a chain),
    every sequence of token lengths 1..258 starting at position 0 with the initial shift -8: no
    `from_absolute` and no `inc` ever leaves the u16 range. For the 4 KiB-boundary policy the
    estimator's own side condition is needed (no reference starts in the last three positions of a
    4 KiB page). -/
theorem chain_positions_in_u16_partial (p : Params) (hh : p.hashAlg ≠ 0) (lens : List Nat)
    (hl : ∀ l ∈ lens, 1 ≤ l ∧ l ≤ 258)
    (h4k : p.addPolicy = 3 → NoRefAt4k 0 lens) :
    RunSafe p (-8) 0 lens :=
  chain_run_safe p hh lens (-8) 0 (by unfold ChainInv; omega) hl h4k

/-- without a hash algorithm no update call (hence no reshift test) is ever made -/
theorem runSafe_noHash_iter (p : Params) (h0 : p.hashAlg = 0) (n : Nat) :
    ∀ (shift : Int) (pos : Nat), RunSafe p shift pos (List.replicate (n + 1) 258) →
      IterSafe shift (pos + 258 * n) := by
  induction n with
  | zero => intro shift pos h; exact h.1
  | succ n ih =>
    intro shift pos h
    have h' := h.2.2
    have e : updateCalls p pos 258 = [] := by simp [updateCalls, h0]
    rw [e] at h'
    have := ih _ _ h'
    simp only [shiftAfter, List.foldl] at this
    have e2 : pos + 258 + 258 * n = pos + 258 * (n + 1) := by omega
    rwa [e2] at this

/-- the hypothesis `p.hashAlg ≠ 0` of `chain_positions_in_u16_partial` cannot be dropped: for
    `HashAlgorithm::None` the abstract run leaves the u16 range at the 255th maximal token (position
    65532 with the shift still -8). In the Rust this holder never iterates or updates a chain. -/
theorem runSafe_fails_without_hash (p : Params) (h0 : p.hashAlg = 0) :
    ¬ RunSafe p (-8) 0 (List.replicate 255 258) := by
  intro h
  have := runSafe_noHash_iter p h0 254 (-8) 0 h
  unfold IterSafe at this
  omega

/-- the statement without `p.hashAlg ≠ 0` is false (witness: hashAlg = 0, addPolicy = 0, 255 tokens
    of length 258) -/
theorem chain_positions_in_u16_unrestricted_false :
    ¬ ∀ (p : Params) (lens : List Nat), (∀ l ∈ lens, 1 ≤ l ∧ l ≤ 258) →
        (p.addPolicy = 3 → NoRefAt4k 0 lens) → RunSafe p (-8) 0 lens := by
  intro h
  let p : Params := { (default : Params) with hashAlg := 0, addPolicy := 0 }
  exact runSafe_fails_without_hash p rfl
    (h p (List.replicate 255 258) (fun l hm => by rw [List.eq_of_mem_replicate hm]; omega)
      (fun h3 => absurd h3 (by decide)))

end Preflate.Proofs
