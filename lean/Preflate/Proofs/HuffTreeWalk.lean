/-
Walking the array-encoded tree: every step stays inside the array, and the bits consumed on the
way to a leaf are exactly the canonical code of the symbol stored there.
-/
import Preflate.Proofs.HuffTreeBuild
namespace Preflate.Proofs
open Preflate
set_option linter.unusedSimpArgs false

/-- what `buildTree` guarantees about the array -/
structure TreeOK (l : List Nat) (t : Array Int) : Prop where
  size : t.size = startOf l 0
  ent : ∀ b p, 1 ≤ b → b ≤ 15 → p < width l b → t.getD (startOf l b + p) 0 = entry l b p

theorem treeOK_blocks {l : List Nat} (hc : Complete l) : TreeOK l (blocks l 15).toArray := by
  constructor
  · have := blocks_length hc 15 (by omega)
    rw [startOf_15, Nat.zero_add] at this
    simpa using this
  · intro b p h1 h15 hp
    have := blocks_entry hc 15 (by omega) [] rfl b p h1 h15 hp
    simp only [List.nil_append] at this
    simp [Array.getD_eq_getD_getElem?, this]

/-- the array entry stored for an internal node: index of the pair of its children -/
def link (l : List Nat) (b p : Nat) : Int := ((startOf l (b + 1) + 2 * (p - cntP l b) : Nat) : Int)

def bitVal (bit : Bool) : Nat := if bit then 1 else 0

theorem width_even (l : List Nat) (b : Nat) : width l (b + 1) = 2 * (width l b - cntP l b) := by
  rw [width_succ]; omega

theorem walk_step {l : List Nat} {t : Array Int} (ht : TreeOK l t)
    (b p : Nat) (hb : b ≤ 14) (h1 : cntP l b ≤ p) (h2 : p < width l b) (bit : Bool) (rest : Bits)
    (fuel : Nat) :
    walkTree t (fuel + 1) (link l b p) (bit :: rest) =
      if entry l (b + 1) (2 * (p - cntP l b) + bitVal bit) < 0 then
        .ok ((0 - (entry l (b + 1) (2 * (p - cntP l b) + bitVal bit) + 1)).toNat, rest)
      else walkTree t fuel (entry l (b + 1) (2 * (p - cntP l b) + bitVal bit)) rest := by
  have hw := width_even l b
  have hbv : bitVal bit < 2 := by unfold bitVal; split <;> omega
  have hp' : 2 * (p - cntP l b) + bitVal bit < width l (b + 1) := by omega
  have hblk := block_le l (b := b + 1) (by omega) (by omega)
  have hi : link l b p + (if bit then 1 else 0)
      = ((startOf l (b + 1) + (2 * (p - cntP l b) + bitVal bit) : Nat) : Int) := by
    unfold link bitVal
    cases bit <;> simp <;> omega
  have hent := ht.ent (b + 1) _ (by omega) (by omega) hp'
  have hsz := ht.size
  rw [walkTree]
  simp only [hi]
  rw [if_neg (by simp only [Int.toNat_natCast]; omega)]
  simp only [Int.toNat_natCast, hent]

theorem entry_leaf {l : List Nat} (b p : Nat) (hb : 1 ≤ b) (hp : p < cntP l b) :
    ∃ s, s < l.length ∧ l.getD s 0 = b ∧ countEq (l.take s) b = p ∧ entry l b p = -1 - (s : Int) := by
  rw [cntP_pos l hb] at hp
  obtain ⟨s, h1, h2, h3, h4⟩ := levelLeaves_entry l b p hp
  refine ⟨s, h1, h2, h3, ?_⟩
  unfold entry
  rw [if_pos (by rwa [cntP_pos l hb]), h4]

theorem entry_link {l : List Nat} (b p : Nat) (hp : ¬ p < cntP l b) : entry l b p = link l b p := by
  unfold entry link
  rw [if_neg hp]

theorem link_nonneg (l : List Nat) (b p : Nat) : ¬ link l b p < 0 := by
  unfold link; omega

theorem msb_succ (b v : Nat) (bit : Bool) :
    (bitsOfNat (b + 1) (2 * v + bitVal bit)).reverse = (bitsOfNat b v).reverse ++ [bit] := by
  have h1 : (2 * v + bitVal bit) / 2 = v := by unfold bitVal; split <;> omega
  have h2 : ((2 * v + bitVal bit) % 2 == 1) = bit := by
    unfold bitVal; cases bit <;> simp <;> omega
  rw [bitsOfNat, h1, h2, List.reverse_cons]

theorem codeBits_eq {l : List Nat} (s b p : Nat) (hl : l.getD s 0 = b) (hr : countEq (l.take s) b = p) :
    codeBits l s = (bitsOfNat b (nextCode l b + p)).reverse := by
  unfold codeBits codeOf
  rw [hl, hr]

/-- the walk never leaves the array, never runs out of fuel, and a decoded symbol is reached by
    its canonical code -/
theorem walk_fwd {l : List Nat} {t : Array Int} (hc : Complete l) (ht : TreeOK l t) :
    ∀ (bs : Bits) (b p fuel : Nat), b ≤ 14 → cntP l b ≤ p → p < width l b → bs.length < fuel →
      walkTree t fuel (link l b p) bs = .error .err ∨
      ∃ s rest, walkTree t fuel (link l b p) bs = .ok (s, rest) ∧
        (bitsOfNat b (nextCode l b + p)).reverse ++ bs = codeBits l s ++ rest ∧
        s < l.length ∧ l.getD s 0 ≠ 0 := by
  intro bs
  induction bs with
  | nil =>
    intro b p fuel _ _ _ hf
    obtain ⟨f, rfl⟩ : ∃ f, fuel = f + 1 := ⟨fuel - 1, by omega⟩
    left; rfl
  | cons bit bs ih =>
    intro b p fuel hb h1 h2 hf
    obtain ⟨f, rfl⟩ : ∃ f, fuel = f + 1 := ⟨fuel - 1, by simp at hf; omega⟩
    rw [walk_step ht b p hb h1 h2]
    have hw := width_even l b
    have hbv : bitVal bit < 2 := by unfold bitVal; split <;> omega
    have hcode : nextCode l (b + 1) + (2 * (p - cntP l b) + bitVal bit)
        = 2 * (nextCode l b + p) + bitVal bit := by
      rw [nextCode_succ]; omega
    by_cases hleaf : 2 * (p - cntP l b) + bitVal bit < cntP l (b + 1)
    · obtain ⟨s, hs1, hs2, hs3, hs4⟩ := entry_leaf (b + 1) _ (by omega) hleaf
      right
      refine ⟨s, bs, ?_, ?_, hs1, by omega⟩
      · rw [hs4, if_pos (by omega)]
        congr 2
        omega
      · rw [codeBits_eq s (b + 1) _ hs2 hs3, hcode, msb_succ]
        simp
    · rw [entry_link _ _ hleaf, if_neg (link_nonneg _ _ _)]
      have hb' : b + 1 ≤ 14 := by
        by_cases h : b + 1 ≤ 14
        · exact h
        · have : b = 14 := by omega
          subst this
          have hw2 : width l 16 = 2 * (width l (14 + 1) - cntP l (14 + 1)) := width_even l 15
          have := hc.top
          omega
      rcases ih (b + 1) (2 * (p - cntP l b) + bitVal bit) f hb' (by omega) (by omega) (by simp at hf; omega) with h | ⟨s, rest, h, h', hs⟩
      · left; exact h
      · right
        refine ⟨s, rest, h, ?_, hs⟩
        rw [hcode, msb_succ] at h'
        simpa using h'

/-- following the bits of the code value of an internal node leads to that node -/
theorem walk_path {l : List Nat} {t : Array Int} (ht : TreeOK l t) :
    ∀ (b p : Nat) (rest : Bits) (fuel : Nat), b ≤ 14 → cntP l b ≤ p → p < width l b →
      walkTree t (fuel + b) (link l 0 0) ((bitsOfNat b (nextCode l b + p)).reverse ++ rest)
        = walkTree t fuel (link l b p) rest := by
  intro b
  induction b with
  | zero =>
    intro p rest fuel _ _ h2
    have : p = 0 := by simp [width] at h2; omega
    subst this
    simp [bitsOfNat]
  | succ b ih =>
    intro p rest fuel hb h1 h2
    have hw := width_even l b
    have hbv : bitVal (p % 2 == 1) = p % 2 := by
      unfold bitVal
      rcases Nat.mod_two_eq_zero_or_one p with h | h <;> simp [h]
    have hcode : nextCode l (b + 1) + p
        = 2 * (nextCode l b + (cntP l b + p / 2)) + bitVal (p % 2 == 1) := by
      rw [nextCode_succ, hbv]; omega
    rw [hcode, msb_succ, List.append_assoc, show fuel + (b + 1) = (fuel + 1) + b by omega,
      ih (cntP l b + p / 2) _ (fuel + 1) (by omega) (by omega) (by omega)]
    simp only [List.singleton_append]
    rw [walk_step ht b _ (by omega) (by omega) (by omega)]
    have hp : 2 * (cntP l b + p / 2 - cntP l b) + bitVal (p % 2 == 1) = p := by
      rw [hbv]; omega
    rw [hp, entry_link _ _ (by omega), if_neg (link_nonneg _ _ _)]

/-- following the canonical code of a symbol decodes that symbol -/
theorem walk_code {l : List Nat} {t : Array Int} (hc : Complete l) (ht : TreeOK l t)
    (s : Nat) (hs : s < l.length) (hl : l.getD s 0 ≠ 0) (rest : Bits) (fuel : Nat) :
    walkTree t (fuel + l.getD s 0) (link l 0 0) (codeBits l s ++ rest) = .ok (s, rest) := by
  obtain ⟨b, hb⟩ : ∃ b, l.getD s 0 = b + 1 := ⟨l.getD s 0 - 1, by omega⟩
  have hb15 : b + 1 ≤ 15 := by
    have hg : l.getD s 0 = l[s] := by simp [List.getD, hs]
    have := hc.lt16 l[s] (List.getElem_mem hs)
    omega
  have hr := rank_lt l s hs
  rw [hb] at hr ⊢
  generalize hp : countEq (l.take s) (b + 1) = p at hr
  have hle := hc.le (b + 1) hb15
  rw [cntP_pos l (by omega)] at hle
  have hw := width_even l b
  have hbv : bitVal (p % 2 == 1) = p % 2 := by
    unfold bitVal
    rcases Nat.mod_two_eq_zero_or_one p with h | h <;> simp [h]
  have hcode : nextCode l (b + 1) + p
      = 2 * (nextCode l b + (cntP l b + p / 2)) + bitVal (p % 2 == 1) := by
    rw [nextCode_succ, hbv]; omega
  rw [codeBits_eq s (b + 1) p hb hp, hcode, msb_succ, List.append_assoc,
    show fuel + (b + 1) = (fuel + 1) + b by omega,
    walk_path ht b (cntP l b + p / 2) _ (fuel + 1) (by omega) (by omega) (by omega)]
  simp only [List.singleton_append]
  rw [walk_step ht b _ (by omega) (by omega) (by omega)]
  have hp' : 2 * (cntP l b + p / 2 - cntP l b) + bitVal (p % 2 == 1) = p := by
    rw [hbv]; omega
  rw [hp']
  have hlt : p < cntP l (b + 1) := by rwa [cntP_pos l (by omega)]
  obtain ⟨s', hs1, hs2, hs3, hs4⟩ := entry_leaf (b + 1) p (by omega) hlt
  have hss : s' = s := by
    have e1 := levelLeaves_rank l s hs
    have e2 := levelLeaves_rank l s' hs1
    rw [hb, hp] at e1
    rw [hs2, hs3] at e2
    rw [e1] at e2
    omega
  subst hss
  rw [hs4, if_pos (by omega)]
  congr 2
  omega

end Preflate.Proofs
