/- Helper lemmas for C06 (1): the scanner loop — no panics, progress, arrival at a signature. -/
import Preflate.Model.Wrappers
namespace Preflate.Proofs
open Preflate

/-- no stream accepted at a signature position before `upTo` reaches past `bound`: the bytes in
    front of the wrapper "do not themselves form an acceptable stream overlapping it" -/
def Quiet (o : Oracle) (crc : Bytes → Nat) (src : Bytes) (upTo bound : Nat) : Prop :=
  ∀ i prev sg cs next, i < upTo → scanAt o crc src i prev sg = .ok (some (cs, next)) → next ≤ bound

def NoPanic (o : Oracle) : Prop := ∀ d m, o.verified d ≠ .error (.panic m)

-- ---------------------------------------------------------------------------------------------
-- "not a panic"

/-- not a panic -/
def SNP {α} (x : R α) : Prop := ∀ m, x ≠ .error (.panic m)

theorem NP_ok {α} (a : α) : SNP (.ok a : R α) := by intro m h; cases h
theorem NP_err {α} : SNP (.error .err : R α) := by intro m h; cases h
theorem NP_fuel {α} : SNP (.error .fuel : R α) := by intro m h; cases h
theorem NP_bind {α β} {x : R α} {f : α → R β} (hx : SNP x) (hf : ∀ a, SNP (f a)) : SNP (x >>= f) := by
  intro m h
  cases x with
  | error e =>
    simp only [bind, Except.bind] at h
    cases h; exact hx m rfl
  | ok a => exact hf a m h
theorem NP_ite {α} {c : Prop} [Decidable c] {x y : R α} (hx : SNP x) (hy : SNP y) :
    SNP (if c then x else y) := by
  split <;> assumption

theorem probe_ok {α} {x : R α} (h : SNP x) : ∃ y, probe x = .ok y := by
  unfold probe
  split
  · exact ⟨_, rfl⟩
  · rename_i m; exact absurd rfl (h m)
  · exact ⟨_, rfl⟩

theorem probe_some {α} {x : R α} {a : α} (h : probe x = .ok (some a)) : x = .ok a := by
  unfold probe at h
  split at h
  · cases h; rfl
  · cases h
  · cases h

theorem probe_of_ok {α} {x : R α} {a : α} (h : x = .ok a) : probe x = .ok (some a) := by
  subst h; rfl

theorem bind_ok_id {α} (x : R α) : (x >>= fun n => Except.ok n) = x := by cases x <;> rfl

-- ---------------------------------------------------------------------------------------------
-- equational forms of the header parsers

def gzA (s : Bytes) : R Nat :=
  if s.getD 3 0 / 4 % 2 = 1 then
    (if s.length < 12 then .error .err
     else if s.length < 12 + ofLe16 ((s.drop 10).take 2) then .error .err
     else .ok (12 + ofLe16 ((s.drop 10).take 2)))
  else .ok 10
def gzStr (s : Bytes) (bit n : Nat) : R Nat :=
  if s.getD 3 0 / bit % 2 = 1 then skipCString (s.drop n) n else .ok n
def gzD (s : Bytes) (n : Nat) : R Nat :=
  if s.getD 3 0 / 2 % 2 = 1 then (if s.length < n + 2 then .error .err else .ok (n + 2)) else .ok n

theorem skipGzipHeader_eq' (s : Bytes) : skipGzipHeader s =
    if s.length < 10 then .error .err else if s.getD 2 0 ≠ 8 then .error .err
    else gzA s >>= fun n => gzStr s 8 n >>= fun n => gzStr s 16 n >>= fun n => gzD s n >>=
      fun n => Except.ok n := by
  unfold skipGzipHeader gzA gzStr gzD
  dsimp only
  by_cases h1 : s.length < 10
  · rw [if_pos h1, if_pos h1]; rfl
  · rw [if_neg h1, if_neg h1]
    by_cases h2 : s.getD 2 0 ≠ 8
    · rw [if_pos h2, if_pos h2]; rfl
    · rw [if_neg h2, if_neg h2]
      by_cases h3 : s.getD 3 0 / 4 % 2 = 1
      · rw [if_pos h3, if_pos h3]
        by_cases h4 : s.length < 12
        · rw [if_pos h4, if_pos h4]; rfl
        · rw [if_neg h4, if_neg h4]
          by_cases h5 : s.length < 12 + ofLe16 ((s.drop 10).take 2)
          · rw [if_pos h5, if_pos h5]; rfl
          · rw [if_neg h5, if_neg h5]; rfl
      · rw [if_neg h3, if_neg h3]; rfl

theorem skipGzipHeader_eq (s : Bytes) : skipGzipHeader s =
    if s.length < 10 then .error .err else if s.getD 2 0 ≠ 8 then .error .err
    else gzA s >>= fun n => gzStr s 8 n >>= fun n => gzStr s 16 n >>= fun n => gzD s n := by
  rw [skipGzipHeader_eq']; simp only [bind_ok_id]

def idatFinish (x : Bytes × List Nat × Nat) : R (IdatContents × Bytes) :=
  if x.1.length < 6 then .error .err
  else .ok (⟨x.2.1, x.1.take 2, x.2.2, ofBe32 (x.1.drop (x.1.length - 4))⟩,
    (x.1.drop 2).take (x.1.length - 6))

theorem parseIdat_eq (crc : Bytes → Nat) (s : Bytes) : parseIdat crc s =
    if s.length < 12 ∨ (s.drop 4).take 4 ≠ idatTag then .error .err
    else idatChunks crc s (s.length + 1) 0 [] [] >>= idatFinish := by
  unfold parseIdat
  dsimp only
  by_cases h1 : s.length < 12 ∨ (s.drop 4).take 4 ≠ idatTag
  · rw [if_pos h1, if_pos h1]; rfl
  · rw [if_neg h1, if_neg h1]
    cases idatChunks crc s (s.length + 1) 0 [] [] with
    | error e => rfl
    | ok x =>
      obtain ⟨p, sz, pos⟩ := x
      unfold idatFinish
      by_cases h2 : p.length < 6
      · simp only [bind, Except.bind, h2, if_true]; rfl
      · simp only [bind, Except.bind, h2, if_false]

def zipVerify (o : Oracle) (s : Bytes) (start : Nat) : R (Nat × Res) :=
  match o.verified (s.drop start) with
  | .ok r => .ok (start, r)
  | .error (.panic m) => .error (.panic m)
  | .error _ => .error .err

theorem parseZipStream_eq (o : Oracle) (s : Bytes) : parseZipStream o s =
    if s.length < 30 then .error .err
    else if ofLe32 (s.take 4) ≠ Gen.ZIP_LOCAL_FILE_HEADER_SIGNATURE then .error .err
    else if s.length < 30 + ofLe16 ((s.drop 26).take 2) then .error .err
    else if ofLe16 ((s.drop 8).take 2) = 8 then
      if 30 + ofLe16 ((s.drop 26).take 2) + ofLe16 ((s.drop 28).take 2) > s.length then .error .err
      else zipVerify o s (30 + ofLe16 ((s.drop 26).take 2) + ofLe16 ((s.drop 28).take 2))
    else .error .err := by
  unfold parseZipStream zipVerify
  dsimp only
  by_cases h1 : s.length < 30
  · rw [if_pos h1, if_pos h1]; rfl
  · rw [if_neg h1, if_neg h1]
    by_cases h2 : ofLe32 (s.take 4) ≠ Gen.ZIP_LOCAL_FILE_HEADER_SIGNATURE
    · rw [if_pos h2, if_pos h2]; rfl
    · rw [if_neg h2, if_neg h2]
      by_cases h3 : s.length < 30 + ofLe16 ((s.drop 26).take 2)
      · rw [if_pos h3, if_pos h3]; rfl
      · rw [if_neg h3, if_neg h3]
        by_cases h4 : ofLe16 ((s.drop 8).take 2) = 8
        · rw [if_pos h4, if_pos h4]
          by_cases h5 : 30 + ofLe16 ((s.drop 26).take 2) + ofLe16 ((s.drop 28).take 2) > s.length
          · rw [if_pos h5, if_pos h5]; rfl
          · rw [if_neg h5, if_neg h5]; rfl
        · rw [if_neg h4, if_neg h4]

-- ---------------------------------------------------------------------------------------------
-- the parsers never panic; the gzip header is at least 10 bytes, the zip header at least 30

theorem skipCString_NP : ∀ s n, SNP (skipCString s n) := by
  intro s
  induction s with
  | nil => intro n; exact NP_err
  | cons b rest ih => intro n; unfold skipCString; exact NP_ite (NP_ok _) (ih _)

theorem skipCString_gt : ∀ s n m, skipCString s n = .ok m → n < m := by
  intro s
  induction s with
  | nil => intro n m h; cases h
  | cons b rest ih =>
    intro n m h
    unfold skipCString at h
    split at h
    · cases h; omega
    · have := ih _ _ h; omega

theorem skipGzipHeader_NP (s : Bytes) : SNP (skipGzipHeader s) := by
  rw [skipGzipHeader_eq]
  refine NP_ite NP_err (NP_ite NP_err ?_)
  refine NP_bind ?_ fun _ => NP_bind ?_ fun _ => NP_bind ?_ fun _ => ?_
  · unfold gzA; exact NP_ite (NP_ite NP_err (NP_ite NP_err (NP_ok _))) (NP_ok _)
  · unfold gzStr; exact NP_ite (skipCString_NP _ _) (NP_ok _)
  · unfold gzStr; exact NP_ite (skipCString_NP _ _) (NP_ok _)
  · unfold gzD; exact NP_ite (NP_ite NP_err (NP_ok _)) (NP_ok _)

theorem s_bind_eq_ok {α β} {x : R α} {f : α → R β} {b : β} (h : x >>= f = .ok b) :
    ∃ a, x = .ok a ∧ f a = .ok b := by
  cases x with
  | error e => cases h
  | ok a => exact ⟨a, rfl, h⟩

theorem skipGzipHeader_ge (s : Bytes) (h : Nat) (hs : skipGzipHeader s = .ok h) : 10 ≤ h := by
  rw [skipGzipHeader_eq] at hs
  split at hs
  · cases hs
  split at hs
  · cases hs
  obtain ⟨a, ha, hs⟩ := s_bind_eq_ok hs
  obtain ⟨b, hb, hs⟩ := s_bind_eq_ok hs
  obtain ⟨c, hc, hs⟩ := s_bind_eq_ok hs
  have h1 : 10 ≤ a := by
    unfold gzA at ha
    split at ha
    · split at ha
      · cases ha
      · split at ha
        · cases ha
        · cases ha; omega
    · cases ha; omega
  have h2 : a ≤ b := by
    unfold gzStr at hb
    split at hb
    · have := skipCString_gt _ _ _ hb; omega
    · cases hb; omega
  have h3 : b ≤ c := by
    unfold gzStr at hc
    split at hc
    · have := skipCString_gt _ _ _ hc; omega
    · cases hc; omega
  have h4 : c ≤ h := by
    unfold gzD at hs
    split at hs
    · split at hs
      · cases hs
      · cases hs; omega
    · cases hs; omega
  omega

theorem idatChunks_NP (crc : Bytes → Nat) (s : Bytes) :
    ∀ fuel pos payload sizes, SNP (idatChunks crc s fuel pos payload sizes) := by
  intro fuel
  induction fuel with
  | zero => intro _ _ _; exact NP_fuel
  | succ fuel ih =>
    intro pos payload sizes
    unfold idatChunks
    refine NP_ite ?_ (NP_ok _)
    exact NP_ite (NP_ok _) (NP_ite (NP_ok _) (NP_ite (NP_ok _) (ih _ _ _)))

theorem parseIdat_NP (crc : Bytes → Nat) (s : Bytes) : SNP (parseIdat crc s) := by
  rw [parseIdat_eq]
  refine NP_ite NP_err (NP_bind (idatChunks_NP _ _ _ _ _ _) fun _ => ?_)
  unfold idatFinish
  exact NP_ite NP_err (NP_ok _)

theorem zipVerify_NP {o : Oracle} (hnp : NoPanic o) (s : Bytes) (n : Nat) : SNP (zipVerify o s n) := by
  unfold zipVerify
  split
  · exact NP_ok _
  · rename_i m h; exact absurd h (hnp _ m)
  · exact NP_err

theorem parseZipStream_NP {o : Oracle} (hnp : NoPanic o) (s : Bytes) : SNP (parseZipStream o s) := by
  rw [parseZipStream_eq]
  exact NP_ite NP_err (NP_ite NP_err (NP_ite NP_err (NP_ite (NP_ite NP_err (zipVerify_NP hnp _ _)) NP_err)))

theorem parseZipStream_ge {o : Oracle} (s : Bytes) (h : Nat) (r : Res)
    (hs : parseZipStream o s = .ok (h, r)) : 30 ≤ h := by
  rw [parseZipStream_eq] at hs
  repeat' split at hs
  all_goals try cases hs
  unfold zipVerify at hs
  split at hs
  · cases hs; omega
  · cases hs
  · cases hs

end Preflate.Proofs
