import Preflate.Proofs.HuffCalcTBase
namespace Preflate.HuffCalcT

/-- frequency at index i (0 when out of range) -/
def fr (h : Array Node) (i : Nat) : Nat := (h.getD i default).freq

/-- heap order on `freq` for all parent indices ≥ k -/
def HeapFrom (h : Array Node) (k : Nat) : Prop :=
  ∀ i j, k ≤ i → (j = 2 * i + 1 ∨ j = 2 * i + 2) → j < h.size → fr h i ≤ fr h j

theorem smaller_freq_le {a b : Node} (h : smaller a b = true) : a.freq ≤ b.freq := by
  simp [smaller] at h; omega

theorem not_smaller_freq_le {a b : Node} (h : smaller a b = false) : b.freq ≤ a.freq := by
  simp [smaller] at h; omega

theorem fr_eq_of_getElem? {h : Array Node} {i : Nat} {x : Node} (hx : h[i]? = some x) :
    fr h i = x.freq := by
  obtain ⟨hi, rfl⟩ := Array.getElem?_eq_some_iff.mp hx
  simp [fr, Array.getD, hi]

theorem fr_set (h : Array Node) (i j : Nat) (v : Node) :
    fr (h.setIfInBounds i v) j = if i = j ∧ i < h.size then v.freq else fr h j := by
  unfold fr
  rw [Array.getD_eq_getD_getElem?, Array.getD_eq_getD_getElem?, Array.getElem?_setIfInBounds]
  by_cases hij : i = j
  · subst hij
    by_cases hi : i < h.size
    · simp [hi]
    · simp [hi]
  · simp [hij]

theorem perm_shift (heap : Array Node) (root c' : Nat) (v c : Node)
    (hr : root < heap.size) (hc : heap[c']? = some c) (hne : root ≠ c') :
    ((heap.setIfInBounds root c).setIfInBounds c' v).toList.Perm
      (heap.setIfInBounds root v).toList := by
  obtain ⟨hc', rfl⟩ := Array.getElem?_eq_some_iff.mp hc
  rw [← Array.perm_iff_toList_perm]
  have this : (heap.setIfInBounds root heap[c']).setIfInBounds c' v
      = (heap.setIfInBounds root v).swap root c' (by simp [hr]) (by simp [hc']) := by
    apply Array.ext_getElem?
    intro i
    rw [Array.getElem?_swap]
    simp only [Array.getElem?_setIfInBounds, Array.size_setIfInBounds]
    by_cases h1 : c' = i
    · subst h1; simp [hc']
    · by_cases h2 : root = i
      · subst h2; simp only [h1, hr, if_true, if_false]
        rw [Array.getElem_setIfInBounds (by simpa using hc')]; simp [hne]
      · simp [h1, h2]
  rw [this]; exact Array.swap_perm _ _

theorem downGo_spec (v : Node) (k : Nat) : ∀ (fuel : Nat) (heap : Array Node) (root child : Nat),
    root < heap.size → child = 2 * root + 1 → k ≤ root → 1 ≤ fuel →
    heap.size + 1 ≤ fuel + child →
    (∀ i j, k ≤ i → i ≠ root → (j = 2 * i + 1 ∨ j = 2 * i + 2) → j < heap.size →
      fr heap i ≤ fr heap j) →
    (∀ i j, k ≤ i → (root = 2 * i + 1 ∨ root = 2 * i + 2) →
      (j = 2 * root + 1 ∨ j = 2 * root + 2) → j < heap.size → fr heap i ≤ fr heap j) →
    (∀ i, k ≤ i → (root = 2 * i + 1 ∨ root = 2 * i + 2) → fr heap i ≤ v.freq) →
    ∃ h', downGo v fuel heap root child = .ok h' ∧ h'.size = heap.size ∧
      h'.toList.Perm (heap.setIfInBounds root v).toList ∧ HeapFrom h' k := by
  intro fuel
  induction fuel with
  | zero => intro heap root child _ _ _ h; omega
  | succ fuel ih =>
    intro heap root child hr hch hk _ hfuel P1 P2 P3
    -- writing `v` at `root` when `v ≤` all children of `root`
    have fin : (∀ j, (j = 2 * root + 1 ∨ j = 2 * root + 2) → j < heap.size →
        v.freq ≤ fr heap j) → HeapFrom (heap.setIfInBounds root v) k := by
      intro hv i j hi hj hjs
      rw [Array.size_setIfInBounds] at hjs
      rw [fr_set, fr_set]
      by_cases h1 : root = i
      · subst h1
        have : ¬ (root = j) := by omega
        simp only [hr, this, and_true, if_true, if_false]
        exact hv j hj hjs
      · by_cases h2 : root = j
        · subst h2
          simp only [h1, hr, and_true, if_true, if_false]
          exact P3 i hi hj
        · simp only [h1, h2, false_and, if_false]
          exact P1 i j hi (Ne.symm h1) hj hjs
    rw [downGo]
    by_cases hlt : child < heap.size
    · rw [if_pos hlt]
      have key : ∀ (c' : Nat) (c : Node), (c' = child ∨ c' = child + 1) → heap[c']? = some c →
          (∀ j, (j = child ∨ j = child + 1) → j < heap.size → c.freq ≤ fr heap j) →
          ∃ h', (if smaller v c = true then aset heap root v "pqdownheap: heap[root] = v (break)"
            else aset heap root c "pqdownheap: heap[root] = heap[child]" >>= fun heap =>
              downGo v fuel heap c' (2 * c' + 1)) = .ok h' ∧ h'.size = heap.size ∧
            h'.toList.Perm (heap.setIfInBounds root v).toList ∧ HeapFrom h' k := by
        intro c' c hc' hc hmin
        have hc's : c' < heap.size := (Array.getElem?_eq_some_iff.mp hc).1
        have hfc : fr heap c' = c.freq := fr_eq_of_getElem? hc
        by_cases hs : smaller v c = true
        · rw [if_pos hs, aset_ok _ _ hr]
          refine ⟨_, rfl, by simp, List.Perm.refl _, fin ?_⟩
          intro j hj hjs
          have := smaller_freq_le hs
          have := hmin j (by omega) hjs
          omega
        · rw [if_neg hs, aset_ok _ _ hr, ok_bind]
          have hs' := not_smaller_freq_le (Bool.eq_false_iff.mpr hs)
          have hsz0 : (heap.setIfInBounds root c).size = heap.size := by simp
          have hP1 : ∀ i j, k ≤ i → i ≠ c' → (j = 2 * i + 1 ∨ j = 2 * i + 2) →
              j < (heap.setIfInBounds root c).size →
              fr (heap.setIfInBounds root c) i ≤ fr (heap.setIfInBounds root c) j := by
            intro i j hi hic hj hjs
            rw [hsz0] at hjs
            rw [fr_set, fr_set]
            by_cases h1 : root = i
            · subst h1
              have : ¬ (root = j) := by omega
              simp only [hr, this, and_true, if_true, if_false]
              exact hmin j (by omega) hjs
            · by_cases h2 : root = j
              · subst h2
                simp only [h1, hr, and_true, if_true, if_false]
                rw [← hfc]
                exact P2 i c' hi hj (by omega) hc's
              · simp only [h1, h2, false_and, if_false]
                exact P1 i j hi (Ne.symm h1) hj hjs
          have hP2 : ∀ i j, k ≤ i → (c' = 2 * i + 1 ∨ c' = 2 * i + 2) →
              (j = 2 * c' + 1 ∨ j = 2 * c' + 2) → j < (heap.setIfInBounds root c).size →
              fr (heap.setIfInBounds root c) i ≤ fr (heap.setIfInBounds root c) j := by
            intro i j hi hci hj hjs
            rw [hsz0] at hjs
            have h1 : i = root := by omega
            subst h1
            have : ¬ (i = j) := by omega
            rw [fr_set, fr_set]
            simp only [hr, this, and_true, if_true, if_false]
            rw [← hfc]
            exact P1 c' j (by omega) (by omega) hj hjs
          have hP3 : ∀ i, k ≤ i → (c' = 2 * i + 1 ∨ c' = 2 * i + 2) →
              fr (heap.setIfInBounds root c) i ≤ v.freq := by
            intro i hi hci
            have h1 : i = root := by omega
            subst h1
            rw [fr_set]
            simp only [hr, and_true, if_true]
            exact hs'
          obtain ⟨h', he, hsz, hperm, hheap⟩ := ih (heap.setIfInBounds root c) c' (2 * c' + 1)
            (by omega) rfl (by omega) (by omega) (by omega) hP1 hP2 hP3
          refine ⟨h', he, by omega, hperm.trans ?_, hheap⟩
          exact perm_shift heap root c' v c hr hc (by omega)
      have g0 : heap[child]? = some heap[child] := Array.getElem?_eq_getElem hlt
      have f0 : fr heap child = heap[child].freq := fr_eq_of_getElem? g0
      rw [aget_ok _ hlt, ok_bind]
      by_cases hlt1 : child + 1 < heap.size
      · have g1 : heap[child + 1]? = some heap[child + 1] := Array.getElem?_eq_getElem hlt1
        have f1 : fr heap (child + 1) = heap[child + 1].freq := fr_eq_of_getElem? g1
        rw [if_pos hlt1, aget_ok _ hlt1]
        simp only [ok_bind, pure_eq_ok]
        by_cases hsm : smaller heap[child + 1] heap[child] = true
        · simp only [if_pos hsm]
          rw [aget_ok _ hlt1, ok_bind]
          refine key (child + 1) _ (Or.inr rfl) g1 ?_
          intro j hj _
          have := smaller_freq_le hsm
          rcases hj with rfl | rfl <;> omega
        · simp only [if_neg hsm]
          rw [aget_ok _ hlt, ok_bind]
          refine key child _ (Or.inl rfl) g0 ?_
          intro j hj _
          have := not_smaller_freq_le (Bool.eq_false_iff.mpr hsm)
          rcases hj with rfl | rfl <;> omega
      · rw [if_neg hlt1]
        simp only [ok_bind, pure_eq_ok]
        rw [aget_ok _ hlt, ok_bind]
        refine key child _ (Or.inl rfl) g0 ?_
        intro j hj hjs
        rcases hj with rfl | rfl <;> omega
    · rw [if_neg hlt, aset_ok _ _ hr]
      refine ⟨_, rfl, by simp, List.Perm.refl _, fin ?_⟩
      intro j hj hjs; omega

theorem downheap_spec (h : Array Node) (k : Nat) (hk : k < h.size) (hh : HeapFrom h (k + 1)) :
    ∃ h', downheap h k = .ok h' ∧ h'.size = h.size ∧ h'.toList.Perm h.toList ∧ HeapFrom h' k := by
  unfold downheap
  rw [aget_ok _ hk, ok_bind]
  obtain ⟨h', he, hsz, hperm, hheap⟩ := downGo_spec h[k] k (h.size + 1) h k (2 * k + 1)
    hk rfl (Nat.le_refl _) (by omega) (by omega)
    (fun i j hi hne hj hjs => hh i j (by omega) hj hjs)
    (fun i j hi hr _ _ => by omega)
    (fun i hi hr => by omega)
  refine ⟨h', he, hsz, ?_, hheap⟩
  have : h.setIfInBounds k h[k] = h := by
    apply Array.ext_getElem?
    intro i
    rw [Array.getElem?_setIfInBounds]
    by_cases hik : k = i
    · subst hik; simp [hk]
    · simp [hik]
  rwa [this] at hperm

theorem heapFrom_half (h : Array Node) : HeapFrom h (h.size / 2) := by
  intro i j hi hj hjs
  omega

theorem heapify_spec (h : Array Node) (n : Nat) (hn : n ≤ h.size) (hh : HeapFrom h n) :
    ∃ h', heapify n h = .ok h' ∧ h'.size = h.size ∧ h'.toList.Perm h.toList ∧ HeapFrom h' 0 := by
  induction n generalizing h with
  | zero => exact ⟨h, rfl, rfl, List.Perm.refl _, hh⟩
  | succ n ih =>
    obtain ⟨h1, he1, hsz1, hperm1, hheap1⟩ := downheap_spec h n (by omega) hh
    obtain ⟨h2, he2, hsz2, hperm2, hheap2⟩ := ih h1 (by omega) hheap1
    refine ⟨h2, ?_, by omega, hperm2.trans hperm1, hheap2⟩
    rw [heapify, he1, ok_bind, he2]

theorem heap_min (h : Array Node) (hh : HeapFrom h 0) (i : Nat) (hi : i < h.size) :
    fr h 0 ≤ fr h i := by
  induction i using Nat.strongRecOn with
  | _ i ih =>
    by_cases h0 : i = 0
    · subst h0; exact Nat.le_refl _
    · have h1 := ih ((i - 1) / 2) (by omega) (by omega)
      have h2 := hh ((i - 1) / 2) i (Nat.zero_le _) (by omega) hi
      omega

theorem fr_pop (h : Array Node) (i : Nat) (hi : i < h.size - 1) : fr h.pop i = fr h i := by
  unfold fr
  rw [Array.getD_eq_getD_getElem?, Array.getD_eq_getD_getElem?, Array.getElem?_pop]
  simp [hi]

theorem heapFrom_pop (h : Array Node) (k : Nat) (hh : HeapFrom h k) : HeapFrom h.pop k := by
  intro i j hi hj hjs
  rw [Array.size_pop] at hjs
  rw [fr_pop h i (by omega), fr_pop h j hjs]
  exact hh i j hi hj (by omega)

theorem heapFrom_set_zero (h : Array Node) (v : Node) (hh : HeapFrom h 0) :
    HeapFrom (h.setIfInBounds 0 v) 1 := by
  intro i j hi hj hjs
  rw [Array.size_setIfInBounds] at hjs
  rw [fr_set, fr_set]
  have h1 : ¬ (0 = i) := by omega
  have h2 : ¬ (0 = j) := by omega
  simp only [h1, h2, false_and, if_false]
  exact hh i j (Nat.zero_le _) hj hjs

end Preflate.HuffCalcT
