/- Helper lemmas for C13: fragmented I/O and I/O errors. -/
import Preflate.Model.IO
namespace Preflate.Proofs
open Preflate

theorem frag_independent (o : Oracle) (crc : Bytes → Nat) (c f : Bytes)
    (hc : recreate o crc c = .ok f) (rs ws : List IoEv) (hr : OnlyShort rs) (hw : OnlyShort ws) :
    ∃ s' k', recreateIO o crc ⟨c, rs⟩ ⟨[], ws⟩ = (.ok (), s', k') ∧ k'.out = f := by
  sorry

theorem error_clean (o : Oracle) (crc : Bytes → Nat) (c f : Bytes)
    (hc : recreate o crc c = .ok f) (rs ws : List IoEv) (hrz : IoEv.zero ∉ rs) :
    (∀ m, (recreateIO o crc ⟨c, rs⟩ ⟨[], ws⟩).1 ≠ .error (.panic m)) ∧
    (recreateIO o crc ⟨c, rs⟩ ⟨[], ws⟩).1 ≠ .error .fuel ∧
    (recreateIO o crc ⟨c, rs⟩ ⟨[], ws⟩).2.2.out <+: f ∧
    ((recreateIO o crc ⟨c, rs⟩ ⟨[], ws⟩).1 = .ok () → (recreateIO o crc ⟨c, rs⟩ ⟨[], ws⟩).2.2.out = f) := by
  sorry

end Preflate.Proofs
