/- Helper lemmas for C13: fragmented I/O and I/O errors. -/
import Preflate.Model.IO
import Preflate.Proofs.IOBase
import Preflate.Proofs.IOMid
namespace Preflate.Proofs
open Preflate

-- ---------------------------------------------------------------------------------------------
-- one chunk

/-- the raw one-byte probe on a non-empty source -/
theorem read1_cons (tag : Nat) (bs : Bytes) (sched : List IoEv) (hz : IoEv.zero ∉ sched) :
    (∃ s1, Source.read ⟨tag :: bs, sched⟩ 1 = (.ok [tag], s1) ∧ s1.data = bs ∧ s1.sched <:+ sched) ∨
    (∃ e s1, Source.read ⟨tag :: bs, sched⟩ 1 = (.error e, s1) ∧ s1.sched <:+ sched ∧ ¬ OnlyShort sched) := by
  cases sched with
  | nil => exact .inl ⟨_, rfl, rfl, List.suffix_refl _⟩
  | cons e rest =>
    cases e with
    | short k =>
      have hm : min (max k 1) 1 = 1 := by omega
      refine .inl ⟨⟨bs, rest⟩, ?_, rfl, List.suffix_cons _ _⟩
      simp only [Source.read, hm, List.take_succ_cons, List.take_zero, List.drop_succ_cons, List.drop_zero]
    | interrupted =>
      exact .inr ⟨_, _, rfl, List.suffix_cons _ _, not_onlyShort_cons (by intro k; simp)⟩
    | error =>
      exact .inr ⟨_, _, rfl, List.suffix_cons _ _, not_onlyShort_cons (by intro k; simp)⟩
    | zero => simp at hz

/-- the raw one-byte probe on an exhausted source -/
theorem read1_nil (sched : List IoEv) (hz : IoEv.zero ∉ sched) :
    (∃ s1, Source.read ⟨[], sched⟩ 1 = (.ok [], s1) ∧ s1.data = [] ∧ s1.sched <:+ sched) ∨
    (∃ e s1, Source.read ⟨[], sched⟩ 1 = (.error e, s1) ∧ s1.sched <:+ sched ∧ ¬ OnlyShort sched) := by
  cases sched with
  | nil => exact .inl ⟨_, rfl, rfl, List.suffix_refl _⟩
  | cons e rest =>
    cases e with
    | short k => exact .inl ⟨⟨[], rest⟩, by simp [Source.read], rfl, List.suffix_cons _ _⟩
    | interrupted =>
      exact .inr ⟨_, _, rfl, List.suffix_cons _ _, not_onlyShort_cons (by intro k; simp)⟩
    | error =>
      exact .inr ⟨_, _, rfl, List.suffix_cons _ _, not_onlyShort_cons (by intro k; simp)⟩
    | zero => simp at hz

/-- the part of `readChunkIO` for tags 1 and 2 after the optional IDAT header (same code) -/
def chunkTailIO (o : Oracle) (crc : Bytes → Nat) (idat : Option IdatContents) (s : Source) (k : Sink) :
    R Bool × Source × Sink :=
  match readStreamIO s with
  | (.ok (plain, corr), s) =>
      match o.recompress plain corr with
      | .ok back =>
          match idat with
          | some c =>
              match recreateIdatIO crc c back k with
              | (.ok (), k) => (.ok true, s, k)
              | (.error e, k) => (.error e, s, k)
          | none =>
              match writeAll back k with
              | (.ok (), k) => (.ok true, s, k)
              | (.error e, k) => (.error e, s, k)
      | .error e => (.error e, s, k)
  | (.error e, s) => (.error e, s, k)

theorem full_of_snk {s s' : Source} {k k' : Sink} {r : R Unit} {outB rest : Bytes}
    (hs : s'.sched <:+ s.sched) (hd : s'.data = rest) (h : SnkPost k k' r outB) :
    ((r = .ok () ∧ FullPost s s' k k' (.ok true : R Bool) true rest outB) ∨
     (r = .error .err ∧ FullPost s s' k k' (.error .err : R Bool) true rest outB)) := by
  obtain ⟨hk, hc⟩ := h
  rcases hc with ⟨rfl, ho⟩ | ⟨rfl, hb, p, hp, ho⟩
  · exact .inl ⟨rfl, hs, hk, .inl ⟨rfl, hd, ho⟩⟩
  · exact .inr ⟨rfl, hs, hk, .inr ⟨rfl, fun hh => hb hh.2, p, hp, ho⟩⟩

theorem chunkTailIO_spec (o : Oracle) (crc : Bytes → Nat) (idat : Option IdatContents) (s : Source) (k : Sink)
    (pl cl : Nat) (plain corr bs1 bs2 bs3 bs4 back outB : Bytes)
    (h1 : getVarint s.data = .ok (pl, bs1)) (h2 : takeExact pl bs1 = .ok (plain, bs2))
    (h3 : getVarint bs2 = .ok (cl, bs3)) (h4 : takeExact cl bs3 = .ok (corr, bs4))
    (hrec : o.recompress plain corr = .ok back)
    (hsome : ∀ c, idat = some c → recreateIdat crc c back = .ok outB)
    (hnone : idat = none → outB = back)
    (hz : IoEv.zero ∉ s.sched) :
    ∃ r s' k', chunkTailIO o crc idat s k = (r, s', k') ∧ FullPost s s' k k' r true bs4 outB := by
  unfold chunkTailIO
  obtain ⟨r1, s1, e1, hs1, c1⟩ := readStreamIO_spec s pl cl plain corr bs1 bs2 bs3 bs4 h1 h2 h3 h4 hz
  rw [e1]
  rcases c1 with ⟨rfl, hd1⟩ | ⟨rfl, hb1⟩
  · simp only [hrec]
    cases idat with
    | some c =>
      simp only []
      obtain ⟨r2, k2, e2, h2'⟩ := recreateIdatIO_spec crc c back k outB (hsome c rfl)
      rw [e2]
      rcases full_of_snk (s := s) hs1 hd1 h2' with ⟨rfl, hf⟩ | ⟨rfl, hf⟩
      · exact ⟨_, _, _, rfl, hf⟩
      · exact ⟨_, _, _, rfl, hf⟩
    | none =>
      simp only []
      obtain ⟨r2, k2, e2, h2'⟩ := writeAll_spec back k
      rw [← hnone rfl] at h2'
      rw [e2]
      rcases full_of_snk (s := s) hs1 hd1 h2' with ⟨rfl, hf⟩ | ⟨rfl, hf⟩
      · exact ⟨_, _, _, rfl, hf⟩
      · exact ⟨_, _, _, rfl, hf⟩
  · exact ⟨_, _, _, rfl, hs1, List.suffix_refl _,
      .inr ⟨rfl, fun hh => hb1 hh.1, [], List.nil_prefix, by simp⟩⟩

def ocFlag : Option (Bytes × Bytes) → Bool
  | none => false
  | some _ => true

def ocOut : Option (Bytes × Bytes) → Bytes
  | none => []
  | some (out, _) => out

def ocRest : Option (Bytes × Bytes) → Bytes
  | none => []
  | some (_, rest) => rest

theorem readChunkIO_spec (o : Oracle) (crc : Bytes → Nat) (s : Source) (k : Sink)
    (oc : Option (Bytes × Bytes)) (h : readChunk o crc s.data = .ok oc) (hz : IoEv.zero ∉ s.sched) :
    ∃ r s' k', readChunkIO o crc s k = (r, s', k') ∧
      FullPost s s' k k' r (ocFlag oc) (ocRest oc) (ocOut oc) := by
  obtain ⟨data, sched⟩ := s
  simp only at h hz
  cases data with
  | nil =>
    simp only [readChunk, Except.ok.injEq] at h
    subst h
    unfold readChunkIO
    rcases read1_nil sched hz with ⟨s1, e0, hd0, hs0⟩ | ⟨e, s1, e0, hs0, hb0⟩
    · rw [e0]
      exact ⟨_, _, _, rfl, hs0, List.suffix_refl _, .inl ⟨rfl, hd0, by simp [ocOut]⟩⟩
    · rw [e0]
      exact ⟨_, _, _, rfl, hs0, List.suffix_refl _,
        .inr ⟨rfl, fun hh => hb0 hh.1, [], List.nil_prefix, by simp⟩⟩
  | cons tag bs =>
    simp only [readChunk] at h
    unfold readChunkIO
    rcases read1_cons tag bs sched hz with ⟨s1, e0, hd0, hs0⟩ | ⟨e, s1, e0, hs0, hb0⟩
    rotate_left
    · rw [e0]
      exact ⟨_, _, _, rfl, hs0, List.suffix_refl _,
        .inr ⟨rfl, fun hh => hb0 hh.1, [], List.nil_prefix, by simp⟩⟩
    rw [e0]
    simp only []
    have hz1 : IoEv.zero ∉ s1.sched := nozero_of_suffix hs0 hz
    by_cases ht0 : tag = 0
    · simp only [if_pos ht0] at h ⊢
      obtain ⟨⟨n, b1⟩, hg, h⟩ := bind_ok h
      simp only [] at h
      obtain ⟨⟨d, b2⟩, ht, h⟩ := bind_ok h
      simp only [Except.ok.injEq] at h
      subst h
      obtain ⟨hl, rfl, rfl⟩ := takeExact_ok ht
      obtain ⟨r1, s2, e1, hs1, c1⟩ := getVarintIO_spec s1 n b1 (by rw [hd0]; exact hg) hz1
      rw [e1]
      rcases c1 with ⟨rfl, hd1⟩ | ⟨rfl, hb1⟩
      rotate_left
      · exact ⟨_, _, _, rfl, hs1.trans hs0, List.suffix_refl _,
          .inr ⟨rfl, fun hh => bad_of_suffix hs0 hb1 hh.1, [], List.nil_prefix, by simp⟩⟩
      simp only []
      obtain ⟨r2, s3, k3, e2, hs2, hk2, c2⟩ := copyLiteral_spec (n + 1) n s2 k (by rw [hd1]; exact hl)
        (nozero_of_suffix hs1 hz1) (by omega)
      rw [e2]
      rcases c2 with ⟨rfl, hd2, ho2⟩ | ⟨rfl, hb2, p, hp, ho2⟩
      · refine ⟨_, _, _, rfl, (hs2.trans hs1).trans hs0, hk2, .inl ⟨rfl, ?_, ?_⟩⟩
        · simp only [ocRest]; rw [hd2, hd1]
        · simp only [ocOut]; rw [ho2, hd1]
      · refine ⟨_, _, _, rfl, (hs2.trans hs1).trans hs0, hk2, .inr ⟨rfl, ?_, p, ?_, ho2⟩⟩
        · intro hh
          exact hb2 ⟨onlyShort_of_suffix (hs1.trans hs0) hh.1, hh.2⟩
        · simp only [ocOut]; rw [← hd1]; exact hp
    · simp only [if_neg ht0] at h ⊢
      by_cases ht12 : tag = 1 ∨ tag = 2
      rotate_left
      · simp only [if_neg ht12] at h
        cases h
      simp only [if_pos ht12] at h ⊢
      obtain ⟨⟨idat, bI⟩, hI, h⟩ := bind_ok h
      simp only [] at h
      obtain ⟨⟨pl, b1⟩, hg1, h⟩ := bind_ok h
      simp only [] at h
      obtain ⟨⟨plain, b2⟩, hg2, h⟩ := bind_ok h
      simp only [] at h
      obtain ⟨⟨cl, b3⟩, hg3, h⟩ := bind_ok h
      simp only [] at h
      obtain ⟨⟨corr, b4⟩, hg4, h⟩ := bind_ok h
      simp only [] at h
      obtain ⟨back, hrec, h⟩ := bind_ok h
      -- the optional IDAT header
      have key : ∀ (s2 : Source), s2.sched <:+ s1.sched → s2.data = bI →
          ∃ r s' k', chunkTailIO o crc idat s2 k = (r, s', k') ∧
            FullPost ⟨tag :: bs, sched⟩ s' k k' r (ocFlag oc) (ocRest oc) (ocOut oc) := by
        intro s2 hs2 hd2
        have hoc : ∃ outB, oc = some (outB, b4) ∧
            (∀ c, idat = some c → recreateIdat crc c back = .ok outB) ∧ (idat = none → outB = back) := by
          cases idat with
          | some c =>
            simp only [] at h
            obtain ⟨outB, ho, h⟩ := bind_ok h
            simp only [Except.ok.injEq] at h
            refine ⟨outB, h.symm, ?_, fun hh => by cases hh⟩
            intro c' hc'
            cases hc'
            exact ho
          | none =>
            simp only [Except.ok.injEq] at h
            exact ⟨back, h.symm, fun c hh => (by cases hh), fun _ => rfl⟩
        obtain ⟨outB, rfl, hsome, hnone⟩ := hoc
        obtain ⟨r, s', k', e, hs, hk, hc⟩ := chunkTailIO_spec o crc idat s2 k pl cl plain corr b1 b2 b3 b4
          back outB (by rw [hd2]; exact hg1) hg2 hg3 hg4 hrec hsome hnone (nozero_of_suffix hs2 hz1)
        refine ⟨r, s', k', e, (hs.trans hs2).trans hs0, hk, ?_⟩
        rcases hc with hc | ⟨rfl, hb, hp⟩
        · exact .inl hc
        · exact .inr ⟨rfl, fun hh => hb ⟨onlyShort_of_suffix (hs2.trans hs0) hh.1, hh.2⟩, hp⟩
      by_cases ht2 : tag = 2
      · simp only [if_pos ht2] at hI ⊢
        obtain ⟨⟨c, bc⟩, hrc, hI⟩ := bind_ok hI
        simp only [pure, Except.pure, Except.ok.injEq, Prod.mk.injEq] at hI
        obtain ⟨rfl, rfl⟩ := hI
        obtain ⟨r1, s2, e1, hs1, c1⟩ := readIdatContentsIO_spec s1 c bc (by rw [hd0]; exact hrc) hz1
        rw [e1]
        rcases c1 with ⟨rfl, hd1⟩ | ⟨rfl, hb1⟩
        · simp only []
          exact key s2 hs1 hd1
        · simp only []
          exact ⟨_, _, _, rfl, hs1.trans hs0, List.suffix_refl _,
            .inr ⟨rfl, fun hh => bad_of_suffix hs0 hb1 hh.1, [], List.nil_prefix, by simp⟩⟩
      · simp only [if_neg ht2] at hI ⊢
        simp only [pure, Except.pure, Except.ok.injEq, Prod.mk.injEq] at hI
        obtain ⟨rfl, rfl⟩ := hI
        exact key s1 (List.suffix_refl _) hd0

-- ---------------------------------------------------------------------------------------------
-- the chunk loop and the whole call

theorem readChunksIO_spec (o : Oracle) (crc : Bytes → Nat) (F : Nat) : ∀ (G : Nat) (s : Source) (k : Sink)
    (total : Bytes), readChunks o crc F s.data = .ok total → F ≤ G → IoEv.zero ∉ s.sched →
    ∃ r s' k', readChunksIO o crc G s k = (r, s', k') ∧ FullPost s s' k k' r () [] total := by
  induction F with
  | zero => intro _ _ _ _ h; simp [readChunks] at h
  | succ F ih =>
    intro G s k total h hFG hz
    cases G with
    | zero => omega
    | succ G =>
      unfold readChunks at h
      obtain ⟨oc, hc, h⟩ := bind_ok h
      unfold readChunksIO
      obtain ⟨r1, s1, k1, e1, hs1, hk1, c1⟩ := readChunkIO_spec o crc s k oc hc hz
      rw [e1]
      rcases c1 with ⟨rfl, hd1, ho1⟩ | ⟨rfl, hb1, p, hp, ho1⟩
      · cases oc with
        | none =>
          simp only [Except.ok.injEq] at h
          subst h
          simp only [ocFlag]
          exact ⟨_, _, _, rfl, hs1, hk1, .inl ⟨rfl, hd1, ho1⟩⟩
        | some ob =>
          obtain ⟨outB, rest⟩ := ob
          simp only [] at h
          obtain ⟨tl, htl, h⟩ := bind_ok h
          simp only [Except.ok.injEq] at h
          subst h
          simp only [ocFlag]
          simp only [ocRest] at hd1
          simp only [ocOut] at ho1
          obtain ⟨r, s', k', e, hs, hk, hc⟩ := ih G s1 k1 tl (by rw [hd1]; exact htl) (by omega)
            (nozero_of_suffix hs1 hz)
          refine ⟨r, s', k', e, hs.trans hs1, hk.trans hk1, ?_⟩
          rcases hc with ⟨rfl, hd, ho⟩ | ⟨rfl, hb, p, hp, ho⟩
          · exact .inl ⟨rfl, hd, by rw [ho, ho1, List.append_assoc]⟩
          · refine .inr ⟨rfl, ?_, outB ++ p, (List.prefix_append_right_inj _).2 hp, ?_⟩
            · intro hh
              exact hb ⟨onlyShort_of_suffix hs1 hh.1, onlyShort_of_suffix hk1 hh.2⟩
            · rw [ho, ho1, List.append_assoc]
      · refine ⟨_, _, _, rfl, hs1, hk1, .inr ⟨rfl, hb1, p, ?_, ho1⟩⟩
        cases oc with
        | none =>
          simp only [Except.ok.injEq] at h
          subst h
          exact hp
        | some ob =>
          obtain ⟨outB, rest⟩ := ob
          simp only [] at h
          obtain ⟨tl, htl, h⟩ := bind_ok h
          simp only [Except.ok.injEq] at h
          subst h
          exact hp.trans (List.prefix_append _ _)

theorem recreateIO_spec (o : Oracle) (crc : Bytes → Nat) (c f : Bytes)
    (hc : recreate o crc c = .ok f) (rs ws : List IoEv) (hrz : IoEv.zero ∉ rs) :
    ∃ r s' k', recreateIO o crc ⟨c, rs⟩ ⟨[], ws⟩ = (r, s', k') ∧
      FullPost ⟨c, rs⟩ s' ⟨[], ws⟩ k' r () [] f := by
  cases c with
  | nil => simp [recreate] at hc
  | cons v rest =>
    simp only [recreate] at hc
    split at hc
    · cases hc
    · rename_i hv
      unfold recreateIO
      obtain ⟨r1, s1, e1, hs1, c1⟩ := readExact_spec 1 ⟨v :: rest, rs⟩ (by simp) hrz
      rw [e1]
      rcases c1 with ⟨rfl, hd1⟩ | ⟨rfl, hb1⟩
      · simp only [List.take_succ_cons, List.take_zero, List.drop_succ_cons, List.drop_zero] at hd1 ⊢
        simp only [if_neg hv]
        obtain ⟨r, s', k', e, hs, hk, hcs⟩ := readChunksIO_spec o crc (rest.length + 1)
          (s1.data.length + s1.sched.length + 2) s1 ⟨[], ws⟩ f (by rw [hd1]; exact hc)
          (by rw [hd1]; omega) (nozero_of_suffix hs1 hrz)
        refine ⟨r, s', k', e, hs.trans hs1, hk, ?_⟩
        rcases hcs with h | ⟨rfl, hb, hp⟩
        · exact .inl h
        · exact .inr ⟨rfl, fun hh => hb ⟨onlyShort_of_suffix hs1 hh.1, hh.2⟩, hp⟩
      · exact ⟨_, _, _, rfl, hs1, List.suffix_refl _,
          .inr ⟨rfl, fun hh => hb1 hh.1, [], List.nil_prefix, by simp⟩⟩

theorem frag_independent (o : Oracle) (crc : Bytes → Nat) (c f : Bytes)
    (hc : recreate o crc c = .ok f) (rs ws : List IoEv) (hr : OnlyShort rs) (hw : OnlyShort ws) :
    ∃ s' k', recreateIO o crc ⟨c, rs⟩ ⟨[], ws⟩ = (.ok (), s', k') ∧ k'.out = f := by
  obtain ⟨r, s', k', e, _, _, h⟩ := recreateIO_spec o crc c f hc rs ws (onlyShort_nozero hr)
  rcases h with ⟨rfl, _, ho⟩ | ⟨rfl, hb, _⟩
  · exact ⟨s', k', e, by simpa using ho⟩
  · exact absurd ⟨hr, hw⟩ hb

theorem error_clean (o : Oracle) (crc : Bytes → Nat) (c f : Bytes)
    (hc : recreate o crc c = .ok f) (rs ws : List IoEv) (hrz : IoEv.zero ∉ rs) :
    (∀ m, (recreateIO o crc ⟨c, rs⟩ ⟨[], ws⟩).1 ≠ .error (.panic m)) ∧
    (recreateIO o crc ⟨c, rs⟩ ⟨[], ws⟩).1 ≠ .error .fuel ∧
    (recreateIO o crc ⟨c, rs⟩ ⟨[], ws⟩).2.2.out <+: f ∧
    ((recreateIO o crc ⟨c, rs⟩ ⟨[], ws⟩).1 = .ok () → (recreateIO o crc ⟨c, rs⟩ ⟨[], ws⟩).2.2.out = f) := by
  obtain ⟨r, s', k', e, _, _, h⟩ := recreateIO_spec o crc c f hc rs ws hrz
  rw [e]
  rcases h with ⟨rfl, _, ho⟩ | ⟨rfl, _, p, hp, ho⟩
  · have ho' : k'.out = f := by simpa using ho
    refine ⟨fun m hm => (by cases hm), fun hm => (by cases hm), ?_, fun _ => ho'⟩
    show k'.out <+: f
    rw [ho']
    exact List.prefix_refl _
  · have ho' : k'.out = p := by simpa using ho
    refine ⟨fun m hm => (by cases hm), fun hm => (by cases hm), ?_, fun hm => (by cases hm)⟩
    show k'.out <+: f
    rw [ho']
    exact hp

end Preflate.Proofs
