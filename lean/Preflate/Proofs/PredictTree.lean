/- Helper lemmas for C02/C08: the dynamic-header mirror (tree_predictor.rs). -/
import Preflate.Model.Valid
namespace Preflate.Proofs
open Preflate Gen
namespace Tree

/-- decode_difference inverts encode_difference -/
theorem decDiff_encDiff (p a : Nat) : decDiff p (encDiff p a) = .ok a := by
  unfold decDiff encDiff
  by_cases h : p ≥ a
  · have h1 : (p - a) * 2 % 2 = 0 := by omega
    have h2 : (p - a) * 2 / 2 = p - a := by omega
    have h3 : p - a ≤ p := by omega
    have h4 : p - (p - a) = a := by omega
    simp only [h, if_true, h1, h2, h3, h4]
  · have h1 : ¬ ((a - p) * 2 + 1) % 2 = 0 := by omega
    have h2 : ((a - p) * 2 + 1) / 2 = a - p := by omega
    have h4 : p + (a - p) = a := by omega
    simp only [h, if_false, h1, h2, h4]

@[simp] theorem popCorr_cons (c v : Nat) (r : List Op) : popCorr c (Op.corr c v :: r) = .ok (v, r) := by
  simp [popCorr]

/-- the accumulator after `decTcLengths` has read back `n` lengths starting at order index `i` -/
def setTc (cl : List Nat) : Nat → Nat → List Nat → List Nat
  | 0, _, acc => acc
  | n + 1, i, acc =>
      setTc cl n (i + 1) (acc.set (TREE_CODE_ORDER_TABLE.getD i 0) (cl.getD (TREE_CODE_ORDER_TABLE.getD i 0) 0 % 256))

/-- the tree-code length loop of recreate_tree_for_block reads back what predict_tree_for_block wrote -/
theorem decTc_encTc (tc cl : List Nat) (rest : List Op) (n : Nat) :
    ∀ (i : Nat) (acc : List Nat),
      decTcLengths tc n i acc (encTcLengths tc cl n i ++ rest) = .ok (setTc cl n i acc, rest) := by
  induction n with
  | zero => intro i acc; simp [decTcLengths, encTcLengths, setTc]
  | succ n ih =>
    intro i acc
    rw [decTcLengths, encTcLengths]
    simp only [List.cons_append, popCorr_cons, bind, Except.bind, decDiff_encDiff]
    rw [ih, setTc]

theorem setTc_length (cl : List Nat) (n : Nat) : ∀ (i : Nat) (acc : List Nat),
    (setTc cl n i acc).length = acc.length := by
  induction n with
  | zero => intro i acc; rfl
  | succ n ih => intro i acc; rw [setTc, ih, List.length_set]

/-- TREE_CODE_ORDER_TABLE hits every code-length symbol -/
theorem order_surj : ∀ k, k < 19 → ∃ j, j < 19 ∧ TREE_CODE_ORDER_TABLE.getD j 0 = k := by
  decide

open Classical in
theorem setTc_getD (cl : List Nat) (k : Nat) (n : Nat) : ∀ (i : Nat) (acc : List Nat),
    acc.length = 19 → k < 19 →
    (setTc cl n i acc).getD k 0 =
      if (∃ j, i ≤ j ∧ j < i + n ∧ TREE_CODE_ORDER_TABLE.getD j 0 = k) then cl.getD k 0 % 256 else acc.getD k 0 := by
  induction n with
  | zero => intro i acc _ _; simp [setTc]; intro x h1 h2; omega
  | succ n ih =>
    intro i acc hl hk
    rw [setTc, ih _ _ (by simp [hl]) hk]
    by_cases ho : TREE_CODE_ORDER_TABLE.getD i 0 = k
    · have h1 : ∃ j, i ≤ j ∧ j < i + (n + 1) ∧ TREE_CODE_ORDER_TABLE.getD j 0 = k := ⟨i, by omega, by omega, ho⟩
      rw [if_pos h1]
      split
      · rfl
      · rw [ho]; simp [List.getD_eq_getElem?_getD, hl, hk]
    · have h2 : (acc.set (TREE_CODE_ORDER_TABLE.getD i 0) (cl.getD (TREE_CODE_ORDER_TABLE.getD i 0) 0 % 256)).getD k 0
          = acc.getD k 0 := by
        generalize cl.getD (TREE_CODE_ORDER_TABLE.getD i 0) 0 % 256 = v
        generalize TREE_CODE_ORDER_TABLE.getD i 0 = o at ho
        simp [List.getD_eq_getElem?_getD, ho]
      rw [h2]
      have h3 : (∃ j, i + 1 ≤ j ∧ j < i + 1 + n ∧ TREE_CODE_ORDER_TABLE.getD j 0 = k) ↔
          (∃ j, i ≤ j ∧ j < i + (n + 1) ∧ TREE_CODE_ORDER_TABLE.getD j 0 = k) := by
        constructor
        · rintro ⟨j, a, b, c⟩; exact ⟨j, by omega, by omega, c⟩
        · rintro ⟨j, a, b, c⟩
          have : j ≠ i := by intro e; subst e; exact ho c
          exact ⟨j, by omega, by omega, c⟩
      simp only [h3]

theorem ext_getD (l1 l2 : List Nat) (hl : l1.length = l2.length)
    (h : ∀ k, k < l1.length → l1.getD k 0 = l2.getD k 0) : l1 = l2 := by
  apply List.ext_getElem hl
  intro i h1 h2
  have := h i h1
  simpa [List.getD_eq_getElem?_getD, h1, h2] using this

/-- filling an all-zero table in TREE_CODE_ORDER_TABLE order reproduces a well-formed `codeLengths` -/
theorem setTc_eq (cl : List Nat) (n : Nat) (hlen : cl.length = 19) (hsmall : ∀ x ∈ cl, x < 8)
    (hun : ∀ i, n ≤ i → i < 19 → cl.getD (TREE_CODE_ORDER_TABLE.getD i 0) 0 = 0) :
    setTc cl n 0 (List.replicate CODETREE_CODE_COUNT 0) = cl := by
  apply ext_getD
  · rw [setTc_length]; simp [CODETREE_CODE_COUNT, hlen]
  · intro k hk
    rw [setTc_length] at hk
    have hk : k < 19 := by simpa [CODETREE_CODE_COUNT] using hk
    rw [setTc_getD cl k n 0 _ (by simp [CODETREE_CODE_COUNT]) hk]
    split
    · have : cl.getD k 0 < 8 := by
        have hk' : k < cl.length := by omega
        simp only [List.getD_eq_getElem?_getD, List.getElem?_eq_getElem hk', Option.getD_some]
        exact hsmall _ (List.getElem_mem hk')
      omega
    · rename_i hne
      obtain ⟨j, hj, hjk⟩ := order_surj k hk
      have hnj : n ≤ j := by
        apply Nat.le_of_not_lt; intro hlt
        exact hne ⟨j, by omega, by omega, hjk⟩
      have := hun j hnj hj
      rw [hjk] at this
      rw [this]
      generalize CODETREE_CODE_COUNT = m
      simp only [List.getD_eq_getElem?_getD, List.getElem?_replicate]
      split <;> rfl

@[simp] theorem popMis_cons (c : Nat) (f : Bool) (r : List Op) : popMis c (Op.mis c f :: r) = .ok (f, r) := by
  simp [popMis]
@[simp] theorem popValue_cons (c v : Nat) (r : List Op) : popValue c (Op.value c v :: r) = .ok (v, r) := by
  simp [popValue]

/-- `HeaderValid.items_kind` for one item -/
def ItemOk (it : RleItem) : Prop :=
    (it.kind = 0 ∧ it.data ≤ 15) ∨ (it.kind = 16 ∧ 3 ≤ it.data ∧ it.data ≤ 6) ∨
    (it.kind = 17 ∧ 3 ≤ it.data ∧ it.data ≤ 10) ∨ (it.kind = 18 ∧ 11 ≤ it.data ∧ it.data ≤ 138)

theorem itemSpan_pos (it : RleItem) (h : ItemOk it) : 1 ≤ itemSpan it := by
  unfold itemSpan; unfold ItemOk at h; split <;> omega

/-- reconstruct_ld_trees inverts predict_ld_trees -/
theorem decLd_encLd (items : List RleItem) :
  ∀ (fuel : Nat) (syms : List Nat) (prev : Option Nat) (ops rest : List Op),
    (∀ it ∈ items, ItemOk it) →
    (items.map itemSpan).sum = syms.length →
    syms.length < fuel →
    encLdTrees syms prev items = .ok ops →
    decLdTrees fuel syms prev (ops ++ rest) = .ok (items, rest) := by
  induction items with
  | nil =>
    intro fuel syms prev ops rest _ hs hf he
    simp at hs
    have : syms = [] := List.length_eq_zero_iff.mp hs.symm
    subst this
    cases fuel with
    | zero => omega
    | succ f =>
      simp [encLdTrees] at he
      subst he
      simp [decLdTrees]
  | cons it items ih =>
    intro fuel syms prev ops rest hok hs hf he
    cases fuel with
    | zero => omega
    | succ f =>
      have hit : ItemOk it := hok it (by simp)
      have hpos := itemSpan_pos it hit
      rw [encLdTrees] at he
      split at he
      · cases he
      · rename_i hne
        split at he
        · cases he
        · rename_i hspan
          cases hr : encLdTrees (syms.drop (itemSpan it)) (some (syms.headD 0)) items with
          | error e => simp only [hr, bind, Except.bind] at he; cases he
          | ok r =>
            simp only [hr, bind, Except.bind] at he
            cases he
            have hs' : (items.map itemSpan).sum = (syms.drop (itemSpan it)).length := by
              simp at hs; simp; omega
            have hf' : (syms.drop (itemSpan it)).length < f := by simp; omega
            have ih' := ih f _ _ r rest (fun x hx => hok x (by simp [hx])) hs' hf' hr
            have hdata : it.data % 256 = it.data := by
              unfold ItemOk at hit; omega
            have hkind : (it.kind = 0 ∨ it.kind = 16 ∨ it.kind = 17 ∨ it.kind = 18) := by
              unfold ItemOk at hit; omega
            rw [decLdTrees]
            simp only [hne, if_false, Bool.false_eq_true]
            simp only [List.cons_append, popCorr_cons, bind, Except.bind, decDiff_encDiff]
            have hspan2 : itemSpan { kind := it.kind, data := it.data } = itemSpan it := rfl
            rw [if_neg (not_not_intro hkind)]
            by_cases hk0 : it.kind = 0
            · have e1 : (if it.kind ≠ 0 then C_REPEAT_COUNT else C_LD_BITLEN) = C_LD_BITLEN := by simp [hk0]
              rw [e1, if_neg (not_not_intro hk0)]
              simp only [popCorr_cons, decDiff_encDiff, hdata]
              rw [hspan2, if_neg hspan, ih']
            · simp only [hk0, ne_eq, not_false_eq_true, if_true, popCorr_cons, decDiff_encDiff, hdata]
              rw [hspan2, if_neg hspan, ih']

theorem resizeTo_length (l : List Nat) (n : Nat) : (resizeTo l n).length = n := by
  simp [resizeTo]; omega

end Tree
open Tree
variable {H : Type}

/-- recreate_tree_for_block inverts predict_tree_for_block, for ANY bit-length calculator -/
theorem decTree_encTree (P : Pred H) (h : Header) (hv : HeaderValid h) (freq : List Nat × List Nat)
    (ops : List Op) (he : encTree P h freq = .ok ops) (rest : List Op) :
    decTree P freq (ops ++ rest) = .ok (h, rest) := by
  unfold encTree at he
  unfold decTree
  generalize P.calcBitLengths freq.1 15 = bl0 at he ⊢
  generalize P.calcBitLengths freq.2 15 = dl0 at he ⊢
  simp only [bind, Except.bind] at he
  generalize hbl1 : (if bl0.length ≠ h.numLiterals then resizeTo bl0 h.numLiterals else bl0) = bl1 at he
  generalize hdl1 : (if dl0.length ≠ h.numDist then resizeTo dl0 h.numDist else dl0) = dl1 at he
  have hbl1len : bl1.length = h.numLiterals := by
    subst hbl1; split
    · exact resizeTo_length _ _
    · omega
  have hdl1len : dl1.length = h.numDist := by
    subst hdl1; split
    · exact resizeTo_length _ _
    · omega
  have hsum : (List.map itemSpan h.items).sum = (bl1 ++ dl1).length := by
    rw [List.length_append, hbl1len, hdl1len]; exact hv.items_sum
  rw [if_neg (not_not_intro hsum)] at he
  cases hc : encLdTrees (bl1 ++ dl1) none h.items with
  | error e => rw [hc] at he; cases he
  | ok c =>
    rw [hc] at he
    simp only [Except.ok.injEq] at he
    subst he
    have hld := fun tail => decLd_encLd h.items ((bl1 ++ dl1).length + 1) (bl1 ++ dl1) none c
      tail hv.items_kind hsum (Nat.lt_succ_self _) hc
    have hlit : (h.numLiterals - 257) % 65536 + NONLEN_CODE_COUNT = h.numLiterals := by
      have := hv.lit_lo; have := hv.lit_hi; simp only [NONLEN_CODE_COUNT]; omega
    have hdist : (h.numDist - 1) % 65536 + 1 = h.numDist := by
      have := hv.dist_lo; have := hv.dist_hi; omega
    have hcl : (h.numCodeLengths - 4) % 65536 + 4 = h.numCodeLengths := by
      have := hv.cl_lo; have := hv.cl_hi; omega
    simp only [List.append_assoc, List.cons_append, List.nil_append, popMis_cons, bind, Except.bind]
    have e1 : ∀ tail : List Op,
        (if decide (bl0.length ≠ h.numLiterals) = true then
          popValue 5 ((if bl0.length ≠ h.numLiterals then [Op.value 5 ((h.numLiterals - 257) % 65536)] else []) ++ tail)
            >>= fun v => pure (resizeTo bl0 (v.fst + NONLEN_CODE_COUNT), v.snd)
        else pure (bl0, (if bl0.length ≠ h.numLiterals then [Op.value 5 ((h.numLiterals - 257) % 65536)] else []) ++ tail))
        = (Except.ok (bl1, tail) : R (List Nat × List Op)) := by
      intro tail
      by_cases hb : bl0.length = h.numLiterals
      · simp only [hb, ne_eq, not_true_eq_false, decide_false, if_false, Bool.false_eq_true, List.nil_append] at hbl1 ⊢
        rw [hbl1]; rfl
      · simp only [hb, ne_eq, not_false_eq_true, decide_true, if_true, List.cons_append, List.nil_append, popValue_cons, bind, Except.bind, hlit] at hbl1 ⊢
        rw [hbl1]; rfl
    have e2 : ∀ tail : List Op,
        (if decide (dl0.length ≠ h.numDist) = true then
          popValue 5 ((if dl0.length ≠ h.numDist then [Op.value 5 ((h.numDist - 1) % 65536)] else []) ++ tail)
            >>= fun v => pure (resizeTo dl0 (v.fst + 1), v.snd)
        else pure (dl0, (if dl0.length ≠ h.numDist then [Op.value 5 ((h.numDist - 1) % 65536)] else []) ++ tail))
        = (Except.ok (dl1, tail) : R (List Nat × List Op)) := by
      intro tail
      by_cases hb : dl0.length = h.numDist
      · simp only [hb, ne_eq, not_true_eq_false, decide_false, if_false, Bool.false_eq_true, List.nil_append] at hdl1 ⊢
        rw [hdl1]; rfl
      · simp only [hb, ne_eq, not_false_eq_true, decide_true, if_true, List.cons_append, List.nil_append, popValue_cons, bind, Except.bind, hdist] at hdl1 ⊢
        rw [hdl1]; rfl
    simp only [bind, Except.bind] at e1 e2
    rw [e1]
    simp only [popMis_cons]
    rw [e2]
    simp only [hld]
    have hcl19 : ¬ h.numCodeLengths > CODETREE_CODE_COUNT := by
      have := hv.cl_hi; simp only [CODETREE_CODE_COUNT]; omega
    have hfin := setTc_eq h.codeLengths h.numCodeLengths hv.cl_len hv.cl_small hv.cl_unused
    by_cases ht : tcLenNoTrailing (P.calcBitLengths (codetreeFreq h.items (List.replicate CODETREE_CODE_COUNT 0)) 7)
                              (P.calcBitLengths (codetreeFreq h.items (List.replicate CODETREE_CODE_COUNT 0))
                                  7).length = h.numCodeLengths
    · simp only [ht, ne_eq, not_true_eq_false, if_false, List.cons_append, List.nil_append, popMis_cons,
        Bool.false_eq_true, pure, Except.pure, hcl19, decTc_encTc, hfin, hbl1len, hdl1len]
    · simp only [ht, ne_eq, not_false_eq_true, if_true, List.cons_append, List.nil_append, popMis_cons,
        popValue_cons, hcl, pure, Except.pure, hcl19, if_false, decTc_encTc, hfin, hbl1len, hdl1len]
end Preflate.Proofs
