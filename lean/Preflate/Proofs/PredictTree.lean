/- Helper lemmas for C02/C08: the dynamic-header mirror (tree_predictor.rs). -/
import Preflate.Model.Valid
namespace Preflate.Proofs
open Preflate

variable {H : Type}

/-- recreate_tree_for_block inverts predict_tree_for_block, for ANY bit-length calculator -/
theorem decTree_encTree (P : Pred H) (h : Header) (hv : HeaderValid h) (freq : List Nat × List Nat)
    (ops : List Op) (he : encTree P h freq = .ok ops) (rest : List Op) :
    decTree P freq (ops ++ rest) = .ok (h, rest) := by
  sorry

end Preflate.Proofs
