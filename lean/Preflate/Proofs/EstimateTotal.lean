/-
C05 for the parameter estimator (`Est.estimate` = `estimate_preflate_parameters`, Model/EstimatorFull.lean):
NO PANIC on a valid stream, and a finite list of outcomes on every stream.

Main statements (this file; the lemmas are in EstimateTotalBase / Policy / Depth / Cand / Outcomes):

  estimate_no_panic    : StreamValid plain blocks → plain.size < 2^31 - 65536 →
                           Est.estimate plain blocks ≠ .error (.panic m)            (full strength)
  estimate_no_panic'   : the same under plain.size ≤ 2^31 - 1 (what is actually used)
  estimate_valid_outcomes : under the same hypotheses the result is `.ok p` or `.error .err`
  estimate_outcomes    : for EVERY plain / blocks the result is `.ok _`, `.error .err` or
                           `.error (.panic s)` with `s ∈ panicSites` (15 strings); never `.error .fuel`

## Panic sites reachable from `Est.estimate` (model site string — Rust site — why unreachable)

 1 "estimate_add_policy: subtract with overflow" — add_policy_estimator.rs `current_offset - r.dist()`
     (u32).  `dist ≤ pos`: `front_no_panic` (Proofs/Estimator.lean).
 2 "CompLevelEstimatorState::new: 1 << wbits does not fit u16" — complevel_estimator.rs, `1 << wbits`
     narrowed to u16.  `wbits ≤ 15` (`windowBits_range` via `front_in_range`): `compLevel_no_panic`.
 3 "internal_update_hash: debug_assert!(length <= chars.len())" — depth_estimator.rs.  Every call has
     `pos + length ≤ plain.size` (`pos + len ≤ size` of the token; `pos + length - 1` with length 1 for
     the "last" insertion): `internalUpdate_spec`.
 4 "internal_update_hash: add with overflow" — `chain_depth[head] + 1` (i32, debug build).  Invariant
     `DBasic.cb`: every chain depth is ≤ the number of positions passed ≤ plain.size ≤ i32::MAX:
     `insertLoop_spec`.
 5 "internal_update_hash3: debug_assert!(length <= chars.len())" — as 3: `internalUpdate3_spec`.
 6 "update_hash: &input[length - 1..] out of range" — hash_chain.rs DictionaryAddPolicy::update_hash,
     AddFirstAndLast and AddFirstWith32KBoundary (two sites, one string).  `length ≤ input.len()`:
     `policyUpdateR_spec`.
 7 "get_hash (3 byte secondary): index out of range" — HashTableDepthEstimatorLibdeflate::match_depth,
     3-byte hash of `cur_chars(0)`.  `pos + 3 ≤ pos + len ≤ size`: `estimatorMatchDepth_ok`.
 8 "match_depth (libdeflate): subtract with overflow" — `pos - head3[h3]` (u32).  Invariant `CInv.h3`:
     every head3 entry is an inserted position (or 0) ≤ pos: `estimatorMatchDepth_ok`.
 9 "match_depth: subtract with overflow" — `pos - dist` (u32); `dist ≤ pos`: `matchDepth_ok`.
10 "get_hash: index out of range" — `self.hash.get_hash(input.cur_chars(0))` in match_depth: 3 bytes
     (zlib / miniz / random-vector hashes) or 4 bytes (libdeflate4, zlib-ng, crc32c).  The 4-byte
     candidates are either selected only when min_len ≥ 4 (`lenBound_le`: then every reference has
     len ≥ 4) or are Libdeflate4, whose match_depth returns before the 4-byte hash when len = 3:
     `matchDepth_ok`, `estimatorMatchDepth_ok`, `sinv_init`.
11 "get_node_depth: debug_assert_eq!(chain_depth_hash_verify[node], expected_hash)" (both calls) and
12 "match_depth: debug_assert!(cur_depth >= match_depth)" — the NON-LOCAL ones.  Invariant `DCons`:
     for every position `P` of the last 64K that the add policy inserted, verify[P as u16] = hash(P), and
     head[hash(P)] is (the u16 of) a later inserted `Q` with verify[Q as u16] = hash(P) and
     chain_depth[Q] ≥ chain_depth[P] (`dstep`, `insertLoop_spec`, `DCons.skip`).  That the referenced
     position `pos - dist` IS one the policy inserted is what `estimate_add_policy` establishes
     (`addPolicy_refsIns`, EstimateTotalPolicy.lean: its window marks mirror first / interior / last
     byte of every match (`WInv`), its statistics dominate the mark of every referenced position
     (`RefsGood`), the chosen policy therefore covers it (`refCond_polIns`)); that it hashes like `pos`
     is `matchAt` over the first 3 / 4 bytes (`hash_of_match`); that the tables skip an update near the
     end of the input (`length + num_hash_bytes - 1 >= chars.len()`) is harmless because a later
     reference of length ≥ num_hash_bytes proves there was room (`CInv.cons` is conditional on
     `cur + numHashBytes ≤ size`).
13 "advance: add with overflow" and 14 "advance: debug_assert!(pos <= data.len())" — PreflateInput::advance;
     `pos + len ≤ size ≤ i32::MAX`: `updateCandidateHashes_spec`.
15 "recommend: subtract with overflow" — `window_size - 262` in recommend; `wbits ≥ 9`:
     `recommend_no_panic`.

## Reachability tests
Fuzzing of the model with random VALID streams (hand-built generators: references to arbitrary earlier
positions, only to token starts, to starts or last bytes, to 32K-boundary last bytes, 250..258-byte
matches, distances up to 32768, streams longer than 64K so that the u16 tables wrap, last token a
reference ending exactly at the end of the plaintext) reached no panic in ~500 runs covering all five
add policies — consistent with the theorem.  On INVALID streams the debug assertions are live (see
Audit/EstimateTotal.lean for one).  No reachable panic on a valid stream exists (that is the theorem).
-/
import Preflate.Proofs.EstimateTotalCand
import Preflate.Proofs.EstimateTotalOutcomes
namespace Preflate.Proofs.EstTotal
open Preflate Preflate.Est

/-! ### the estimator state along the token walk -/

structure SInv (plain : Array Nat) (I : Nat → Prop) (LB : Nat) (s : CLState) (cur : Nat) : Prop where
  pos : s.pos = cur
  cands : ∀ c ∈ s.cands, CInv plain I c cur ∧ (c.hp.hashAlg = 3 ∨ Chains.numHashBytes c.hp ≤ LB)

theorem updateCandidateHashes_spec (plain : Array Nat) (pol lim : Nat) (M : Nat → Nat)
    (hsz : plain.size ≤ I32_MAX) (LB : Nat) (s : CLState) (p : Nat) (t : Token)
    (hS : SInv plain (fun q => PolIns pol lim (M q)) LB s p) (hfit : p + tokenLen t ≤ plain.size)
    (hM : ∀ i, i < tokenLen t → M (p + i) = tokMark p t i)
    (ht : ∀ len dist irr, t = .ref len dist irr → 3 ≤ len ∧ len ≤ 258 ∧ (pol = 3 → (p &&& 4095) < 4093)) :
    ∃ s', updateCandidateHashes plain pol lim s (tokenLen t) = .ok s' ∧
      SInv plain (fun q => PolIns pol lim (M q)) LB s' (p + tokenLen t) := by
  obtain ⟨pos, cands, rc, ur, mts, l3⟩ := s
  obtain ⟨hpos, hc⟩ := hS
  simp only at hpos hc
  subst hpos
  obtain ⟨cs', e, hcs⟩ := updateCands_spec (fun c => c.updateHash plain pol lim pos (tokenLen t))
    (fun c => CInv plain (fun q => PolIns pol lim (M q)) c pos ∧ (c.hp.hashAlg = 3 ∨ Chains.numHashBytes c.hp ≤ LB))
    (fun c => CInv plain (fun q => PolIns pol lim (M q)) c (pos + tokenLen t) ∧
      (c.hp.hashAlg = 3 ∨ Chains.numHashBytes c.hp ≤ LB))
    (by
      intro c ⟨h1, h2⟩
      obtain ⟨c', e1, e2, e3⟩ := updateHash_spec plain (fun q => PolIns pol lim (M q)) pol lim M (fun _ h => h)
        hsz c pos t h1 hfit hM ht
      exact ⟨c', e1, e2, by rw [e3]; exact h2⟩) cands hc
  refine ⟨⟨pos + tokenLen t, cs', rc, ur, mts, l3⟩, ?_, rfl, hcs⟩
  simp only [updateCandidateHashes, e, ok_bind]
  rw [if_neg (show ¬ pos + tokenLen t > I32_MAX by omega), if_neg (show ¬ pos + tokenLen t > plain.size by omega)]

theorem checkMatch_spec (plain : Array Nat) (I : Nat → Prop) (LB : Nat) (s : CLState) (p len dist : Nat)
    (hS : SInv plain I LB s p) (hI : I (p - dist))
    (hd1 : 1 ≤ dist) (hd2 : dist ≤ p) (hd3 : dist ≤ 32768) (hl3 : 3 ≤ len) (hlb : LB ≤ len)
    (hfit : p + len ≤ plain.size) (hm : matchAt plain p len dist = true) :
    ∃ s', checkMatch plain s len dist = .ok s' ∧ SInv plain I LB s' p := by
  obtain ⟨pos, cands, rc, ur, mts, l3⟩ := s
  obtain ⟨hpos, hc⟩ := hS
  simp only at hpos hc
  subst hpos
  unfold checkMatch
  simp only []
  split
  · exact ⟨_, rfl, rfl, hc⟩
  · obtain ⟨cs', e, hcs⟩ := retainCands_spec (fun c => c.matchDepth plain pos len dist)
      (fun c => CInv plain I c pos ∧ (c.hp.hashAlg = 3 ∨ Chains.numHashBytes c.hp ≤ LB))
      (fun c => CInv plain I c pos ∧ (c.hp.hashAlg = 3 ∨ Chains.numHashBytes c.hp ≤ LB))
      (by
        intro c ⟨h1, h2⟩
        obtain ⟨r, e1, e2⟩ := cand_matchDepth_ok plain I c pos len dist h1 hI hd1 hd2 hd3 hl3 hfit hm
          (by rcases h2 with h | h
              · exact Or.inl h
              · exact Or.inr (by omega))
        refine ⟨r, e1, fun c' hc' => ?_⟩
        obtain ⟨f1, f2⟩ := e2 c' hc'
        exact ⟨f1, by rw [f2]; exact h2⟩) cands hc
    simp only [e, ok_bind]
    exact ⟨_, rfl, rfl, hcs⟩

theorem dumpTokens_spec (plain : Array Nat) (pol lim : Nat) (M : Nat → Nat)
    (hsz : plain.size ≤ I32_MAX) (LB : Nat) :
    ∀ (ts : List Token) (s : CLState) (p : Nat),
      SInv plain (fun q => PolIns pol lim (M q)) LB s p → VToks plain p ts → MarksAgree M p ts →
      RefsIns M pol lim p ts → (∀ len dist irr, Token.ref len dist irr ∈ ts → LB ≤ len) →
      ∃ s', dumpTokens plain pol lim s ts = .ok s' ∧
        SInv plain (fun q => PolIns pol lim (M q)) LB s' (toksEnd p ts) := by
  intro ts
  induction ts with
  | nil => intro s p hS _ _ _ _; exact ⟨s, rfl, hS⟩
  | cons t ts ih =>
    intro s p hS hv hm hr hlb
    have hlb' : ∀ len dist irr, Token.ref len dist irr ∈ ts → LB ≤ len :=
      fun len dist irr h => hlb len dist irr (List.mem_cons_of_mem _ h)
    cases t with
    | lit b =>
      obtain ⟨s1, e1, i1⟩ := updateCandidateHashes_spec plain pol lim M hsz LB s p (.lit b) hS
        (by simp only [tokenLen]; have := hv.1; omega) hm.1 (fun _ _ _ h => by cases h)
      obtain ⟨s', e2, i2⟩ := ih s1 _ i1 hv.2 hm.2 hr hlb'
      exact ⟨s', by simp only [dumpTokens]; simp only [tokenLen] at e1; rw [e1]; exact e2, i2⟩
    | ref len dist irr =>
      obtain ⟨⟨v1, v2, v3, v4, v5, v6, v7⟩, hvr⟩ := hv
      obtain ⟨⟨r1, r2⟩, hrr⟩ := hr
      have hl := hlb len dist irr (List.mem_cons_self ..)
      obtain ⟨s0, e0, i0⟩ := checkMatch_spec plain _ LB s p len dist hS r1 v3 v4 v5 v1 hl v6 v7
      obtain ⟨s1, e1, i1⟩ := updateCandidateHashes_spec plain pol lim M hsz LB s0 p (.ref len dist irr) i0
        v6 hm.1 (fun l d i h => by injection h with h1 h2 h3; subst h1; exact ⟨v1, v2, r2⟩)
      obtain ⟨s', e2, i2⟩ := ih s1 _ i1 hvr hm.2 hrr hlb'
      refine ⟨s', ?_, i2⟩
      simp only [tokenLen] at e1
      simp only [dumpTokens, e0, e1, ok_bind]
      exact e2

/-! ### `check_dump` runs over the flattened stream -/

theorem dumpTokens_append (plain : Array Nat) (pol lim : Nat) : ∀ (a b : List Token) (s : CLState),
    dumpTokens plain pol lim s (a ++ b) = (dumpTokens plain pol lim s a >>= fun s => dumpTokens plain pol lim s b) := by
  intro a
  induction a with
  | nil => intro _ _; rfl
  | cons t ts ih =>
    intro b s
    cases t with
    | lit x =>
      simp only [List.cons_append, dumpTokens]
      cases updateCandidateHashes plain pol lim s 1 with
      | error e => rfl
      | ok s1 => simp only [ok_bind]; exact ih b s1
    | ref len dist irr =>
      simp only [List.cons_append, dumpTokens]
      cases checkMatch plain s len dist with
      | error e => rfl
      | ok s0 =>
        simp only [ok_bind]
        cases updateCandidateHashes plain pol lim s0 len with
        | error e => rfl
        | ok s1 => simp only [ok_bind]; exact ih b s1

theorem dumpStored_lits (plain : Array Nat) (pol lim : Nat) : ∀ (data : List Nat) (s : CLState),
    dumpStored plain pol lim s data.length = dumpTokens plain pol lim s (data.map Token.lit) := by
  intro data
  induction data with
  | nil => intro _; rfl
  | cons d ds ih =>
    intro s
    simp only [List.length_cons, List.map_cons, dumpStored, dumpTokens]
    cases updateCandidateHashes plain pol lim s 1 with
    | error e => rfl
    | ok s1 => simp only [ok_bind]; exact ih s1

theorem checkDump_flat (plain : Array Nat) (pol lim : Nat) : ∀ (bs : List Block) (s : CLState),
    checkDump plain pol lim s bs = dumpTokens plain pol lim s (flat bs) := by
  intro bs
  induction bs with
  | nil => intro _; rfl
  | cons b bs ih =>
    intro s
    cases b with
    | stored pad data =>
      simp only [checkDump, flat, dumpTokens_append, dumpStored_lits]
      cases dumpTokens plain pol lim s (data.map Token.lit) with
      | error e => rfl
      | ok s1 => simp only [ok_bind]; exact ih _
    | fixed ts =>
      simp only [checkDump, flat, dumpTokens_append]
      cases dumpTokens plain pol lim s ts with
      | error e => rfl
      | ok s1 => simp only [ok_bind]; exact ih _
    | dynamic hd ts =>
      simp only [checkDump, flat, dumpTokens_append]
      cases dumpTokens plain pol lim s ts with
      | error e => rfl
      | ok s1 => simp only [ok_bind]; exact ih _

/-! ### min_len: with 4-byte hashes every reference has at least 4 bytes -/

def minStep (m : Nat) (t : Token) : Nat := match t with | .ref l _ _ => min m l | .lit _ => m

theorem blockMinLen_eq (ts : List Token) : blockMinLen ts = ts.foldl minStep 4294967295 := rfl

theorem foldl_minStep (ts : List Token) : ∀ m0 : Nat,
    ts.foldl minStep m0 ≤ m0 ∧ (∀ len dist irr, Token.ref len dist irr ∈ ts → ts.foldl minStep m0 ≤ len) ∧
    (3 ≤ m0 → (∀ len dist irr, Token.ref len dist irr ∈ ts → 3 ≤ len) → 3 ≤ ts.foldl minStep m0) := by
  induction ts with
  | nil => intro m0; exact ⟨Nat.le_refl _, fun _ _ _ h => (by cases h), fun h _ => h⟩
  | cons t ts ih =>
    intro m0
    obtain ⟨i1, i2, i3⟩ := ih (minStep m0 t)
    rw [List.foldl_cons]
    have hle : minStep m0 t ≤ m0 := by
      cases t with
      | lit b => exact Nat.le_refl _
      | ref l d i => exact Nat.min_le_left _ _
    refine ⟨Nat.le_trans i1 hle, ?_, ?_⟩
    · intro len dist irr hmem
      rcases List.mem_cons.mp hmem with rfl | hmem
      · exact Nat.le_trans i1 (Nat.min_le_right _ _)
      · exact i2 len dist irr hmem
    · intro h3 hall
      refine i3 ?_ (fun len dist irr hmem => hall len dist irr (List.mem_cons_of_mem _ hmem))
      cases t with
      | lit b => exact h3
      | ref l d i =>
        have := hall l d i (List.mem_cons_self ..)
        show 3 ≤ min m0 l
        omega

theorem infoStep_minLen (i : Info) (b : Block) :
    (infoStep i b).minLen ≤ i.minLen ∧
    (∀ len dist irr, Token.ref len dist irr ∈ blockTokens b → (infoStep i b).minLen ≤ len) ∧
    (3 ≤ i.minLen → (∀ len dist irr, Token.ref len dist irr ∈ blockTokens b → 3 ≤ len) →
      3 ≤ (infoStep i b).minLen) := by
  cases b with
  | stored pad data => exact ⟨Nat.le_refl _, fun _ _ _ h => (by cases h), fun h _ => h⟩
  | fixed ts =>
    obtain ⟨f1, f2, f3⟩ := foldl_minStep ts 4294967295
    rw [← blockMinLen_eq] at f1 f2 f3
    refine ⟨Nat.min_le_left _ _, fun len dist irr h => Nat.le_trans (Nat.min_le_right _ _) (f2 len dist irr h), ?_⟩
    intro h3 hall
    have := f3 (by omega) hall
    show 3 ≤ min i.minLen (blockMinLen ts)
    omega
  | dynamic hd ts =>
    obtain ⟨f1, f2, f3⟩ := foldl_minStep ts 4294967295
    rw [← blockMinLen_eq] at f1 f2 f3
    refine ⟨Nat.min_le_left _ _, fun len dist irr h => Nat.le_trans (Nat.min_le_right _ _) (f2 len dist irr h), ?_⟩
    intro h3 hall
    have := f3 (by omega) hall
    show 3 ≤ min i.minLen (blockMinLen ts)
    omega

theorem foldl_infoStep_minLen (bs : List Block) : ∀ i : Info,
    (bs.foldl infoStep i).minLen ≤ i.minLen ∧
    (∀ b ∈ bs, ∀ len dist irr, Token.ref len dist irr ∈ blockTokens b → (bs.foldl infoStep i).minLen ≤ len) ∧
    (3 ≤ i.minLen → (∀ b ∈ bs, ∀ len dist irr, Token.ref len dist irr ∈ blockTokens b → 3 ≤ len) →
      3 ≤ (bs.foldl infoStep i).minLen) := by
  induction bs with
  | nil => intro i; exact ⟨Nat.le_refl _, fun _ h => (by cases h), fun h _ => h⟩
  | cons b bs ih =>
    intro i
    obtain ⟨s1, s2, s3⟩ := infoStep_minLen i b
    obtain ⟨i1, i2, i3⟩ := ih (infoStep i b)
    rw [List.foldl_cons]
    refine ⟨Nat.le_trans i1 s1, ?_, ?_⟩
    · intro b' hb' len dist irr hmem
      rcases List.mem_cons.mp hb' with rfl | hb'
      · exact Nat.le_trans i1 (s2 len dist irr hmem)
      · exact i2 b' hb' len dist irr hmem
    · intro h3 hall
      exact i3 (s3 h3 (hall b (List.mem_cons_self ..))) (fun b' hb' => hall b' (List.mem_cons_of_mem _ hb'))

theorem mem_flat (len dist : Nat) (irr : Bool) : ∀ bs : List Block, Token.ref len dist irr ∈ flat bs →
    ∃ b ∈ bs, Token.ref len dist irr ∈ blockTokens b := by
  intro bs
  induction bs with
  | nil => intro h; cases h
  | cons b bs ih =>
    intro h
    cases b with
    | stored pad data =>
      simp only [flat, List.mem_append, List.mem_map] at h
      rcases h with ⟨x, _, hx⟩ | h
      · cases hx
      · obtain ⟨b', h1, h2⟩ := ih h
        exact ⟨b', List.mem_cons_of_mem _ h1, h2⟩
    | fixed ts =>
      simp only [flat, List.mem_append] at h
      rcases h with h | h
      · exact ⟨_, List.mem_cons_self .., h⟩
      · obtain ⟨b', h1, h2⟩ := ih h
        exact ⟨b', List.mem_cons_of_mem _ h1, h2⟩
    | dynamic hd ts =>
      simp only [flat, List.mem_append] at h
      rcases h with h | h
      · exact ⟨_, List.mem_cons_self .., h⟩
      · obtain ⟨b', h1, h2⟩ := ih h
        exact ⟨b', List.mem_cons_of_mem _ h1, h2⟩

theorem mem_flat_of_block (len dist : Nat) (irr : Bool) : ∀ bs : List Block, ∀ b ∈ bs,
    Token.ref len dist irr ∈ blockTokens b → Token.ref len dist irr ∈ flat bs := by
  intro bs
  induction bs with
  | nil => intro b h; cases h
  | cons b0 bs ih =>
    intro b hb hmem
    rcases List.mem_cons.mp hb with rfl | hb
    · cases b with
      | stored pad data => cases hmem
      | fixed ts => exact List.mem_append_left _ hmem
      | dynamic hd ts => exact List.mem_append_left _ hmem
    · have := ih b hb hmem
      cases b0 with
      | stored pad data => exact List.mem_append_right _ this
      | fixed ts => exact List.mem_append_right _ this
      | dynamic hd ts => exact List.mem_append_right _ this

theorem VToks_len3 (plain : Array Nat) : ∀ (ts : List Token) (p : Nat), VToks plain p ts →
    ∀ len dist irr, Token.ref len dist irr ∈ ts → 3 ≤ len := by
  intro ts
  induction ts with
  | nil => intro _ _ _ _ _ h; cases h
  | cons t ts ih =>
    intro p hv len dist irr hmem
    cases t with
    | lit b =>
      rcases List.mem_cons.mp hmem with h | h
      · cases h
      · exact ih _ hv.2 len dist irr h
    | ref l d i =>
      rcases List.mem_cons.mp hmem with h | h
      · injection h with h1 h2 h3; subst h1; exact hv.1.1
      · exact ih _ hv.2 len dist irr h

/-- the lower bound on reference lengths the candidate list is chosen for -/
def lenBound (minLen : Nat) : Nat := if minLen = 3 then 3 else 4

theorem lenBound_le (plain : Array Nat) (blocks : List Block) (hv : VToks plain 0 (flat blocks)) :
    ∀ len dist irr, Token.ref len dist irr ∈ flat blocks → lenBound (extractInfo blocks).minLen ≤ len := by
  intro len dist irr hmem
  have h3 := VToks_len3 plain _ 0 hv
  obtain ⟨f1, f2, f3⟩ := foldl_infoStep_minLen blocks { countBlocks := blocks.length }
  rw [← extractInfo_eq] at f1 f2 f3
  obtain ⟨b, hb, hbm⟩ := mem_flat len dist irr blocks hmem
  have hle := f2 b hb len dist irr hbm
  have hge := f3 (by show 3 ≤ 4294967295; omega)
    (fun b' hb' l d i hm => h3 l d i (mem_flat_of_block l d i blocks b' hb' hm))
  unfold lenBound
  split <;> omega

/-! ### the initial state -/

theorem cinv_new (plain : Array Nat) (I : Nat → Prop) (alg shift mask : Nat) :
    CInv plain I (Candidate.new alg shift mask) 0 := by
  refine ⟨⟨by simp [Candidate.new, Depth.empty], by simp [Candidate.new, Depth.empty],
    by simp [Candidate.new, Depth.empty], ?_⟩, ?_, ?_⟩
  · intro x
    simp only [Candidate.new, Depth.empty, get!_replicate_zero]
    exact Nat.le_refl _
  · intro x
    simp only [Candidate.new]
    split
    · rw [get!_replicate_zero]; exact Nat.le_refl _
    · rw [get!_empty]; exact Nat.le_refl _
  · intro _ P _ hP _
    omega

theorem sinv_init (plain : Array Nat) (I : Nat → Prop) (minLen : Nat) :
    SInv plain I (lenBound minLen) { cands := candidatesFor minLen } 0 := by
  refine ⟨rfl, ?_⟩
  intro c hc
  simp only [candidatesFor] at hc
  unfold lenBound
  split at hc
  · rename_i h
    rw [if_pos h]
    simp only [List.mem_cons, List.not_mem_nil, or_false] at hc
    rcases hc with rfl | rfl | rfl | rfl | rfl
    · exact ⟨cinv_new .., Or.inr (by decide)⟩
    · exact ⟨cinv_new .., Or.inr (by decide)⟩
    · exact ⟨cinv_new .., Or.inr (by decide)⟩
    · exact ⟨cinv_new .., Or.inl rfl⟩
    · exact ⟨cinv_new .., Or.inr (by decide)⟩
  · rename_i h
    rw [if_neg h]
    simp only [List.mem_cons, List.not_mem_nil, or_false] at hc
    rcases hc with rfl | rfl | rfl
    · exact ⟨cinv_new .., Or.inr (by decide)⟩
    · exact ⟨cinv_new .., Or.inr (by decide)⟩
    · exact ⟨cinv_new .., Or.inr (by decide)⟩

/-! ### `check_dump`, `recommend`, and the whole estimator -/

/-- `check_dump` with the estimated add policy never panics on a valid stream -/
theorem checkDump_ok (plain : Array Nat) (blocks : List Block) (hv : ValidBlocks plain 0 blocks)
    (hsz : plain.size ≤ I32_MAX) (pol lim : Nat) (hp : addPolicy blocks = .ok (pol, lim)) :
    ∃ s, checkDump plain pol lim { cands := candidatesFor (extractInfo blocks).minLen } blocks = .ok s := by
  have hvt := (VToks_flat plain blocks 0 hv).1
  obtain ⟨s, e, _⟩ := dumpTokens_spec plain pol lim (markAt 0 (flat blocks)) hsz
    (lenBound (extractInfo blocks).minLen) (flat blocks) { cands := candidatesFor (extractInfo blocks).minLen } 0
    (sinv_init plain _ _) hvt (marksAgree_exists _) (addPolicy_refsIns plain blocks hv pol lim hp)
    (lenBound_le plain blocks hvt)
  exact ⟨s, by rw [checkDump_flat]; exact e⟩

theorem recommend_no_panic (wsize pol : Nat) (s : CLState) (hw : 262 ≤ wsize) (m : String) :
    recommend wsize pol s ≠ .error (.panic m) := by
  unfold recommend
  split
  · intro h; cases h
  · simp only []
    split
    · intro h; cases h
    · rw [if_neg (by omega)]
      intro h; cases h

theorem front_ok_of_valid (plain : Array Nat) (blocks : List Block) (hv : StreamValid plain blocks) :
    ∃ f, Est.front blocks = .ok f := by
  rcases front_total blocks with h | h
  · exact h
  · exact absurd h (front_no_panic plain blocks hv _)

theorem front_policy (blocks : List Block) (f : Front) (h : Est.front blocks = .ok f)
    (hnd : f.noDictionary = false) : addPolicy blocks = .ok (f.addPolicy, f.addLimit) := by
  rw [front_eq] at h
  split at h
  · injection h with h; subst h; cases hnd
  · rw [bind_eq_ok] at h
    obtain ⟨⟨pol, lim⟩, hp, h⟩ := h
    injection h with h; subst h
    exact hp

theorem compLevel_no_panic (plain : Array Nat) (blocks : List Block) (hv : ValidBlocks plain 0 blocks)
    (hsz : plain.size ≤ I32_MAX) (pol lim : Nat) (hp : addPolicy blocks = .ok (pol, lim))
    (wbits : Nat) (hw1 : 9 ≤ wbits) (hw2 : wbits ≤ 15) (m : String) :
    compLevel wbits (extractInfo blocks).minLen plain pol lim blocks ≠ .error (.panic m) := by
  obtain ⟨s, hs⟩ := checkDump_ok plain blocks hv hsz pol lim hp
  unfold compLevel
  simp only [bind, Except.bind]
  rw [if_neg (show ¬ wbits ≥ 16 by omega)]
  simp only [hs]
  refine recommend_no_panic _ pol s ?_ m
  rw [Nat.one_shiftLeft]
  calc 262 ≤ 2 ^ 9 := by decide
    _ ≤ 2 ^ wbits := Nat.pow_le_pow_right (by decide) hw1

theorem bind_ok_ne_panic {α β : Type} (x : R α) (g : α → β) (m : String) (h : x ≠ .error (.panic m)) :
    (x >>= fun a => (.ok (g a) : R β)) ≠ .error (.panic m) := by
  cases x with
  | error e =>
    intro h'
    apply h
    injection h' with h'
    rw [h']
  | ok a => intro h'; cases h'

/-- the estimator's no-panic statement under the bound that is actually used (`i32::MAX`) -/
theorem estimate_no_panic' (plain : Array Nat) (blocks : List Block) (hv : StreamValid plain blocks)
    (hsz : plain.size ≤ 2 ^ 31 - 1) (m : String) :
    Est.estimate plain blocks ≠ .error (.panic m) := by
  obtain ⟨f, hf⟩ := front_ok_of_valid plain blocks hv
  unfold Est.estimate
  simp only [hf, ok_bind]
  by_cases hnd : f.noDictionary = true
  · rw [if_pos hnd]; intro h; cases h
  · rw [if_neg hnd]
    have hnd' : f.noDictionary = false := by
      cases hx : f.noDictionary
      · rfl
      · exact absurd hx hnd
    obtain ⟨_, hw1, hw2, _⟩ := (front_in_range blocks f hf).2.2.2 hnd'
    have hp := front_policy blocks f hf hnd'
    have hsz' : plain.size ≤ I32_MAX := by unfold I32_MAX; omega
    exact bind_ok_ne_panic _ _ m
      (compLevel_no_panic plain blocks hv.2.1 hsz' f.addPolicy f.addLimit hp f.windowBits hw1 hw2 m)

/-- **C05 for the estimators (no-panic half).** On a stream the parser can return
    (`StreamValid`), with a plaintext whose length fits an `i32`, the complete parameter estimator
    `estimate_preflate_parameters` reaches none of its panic sites: neither the index / slice /
    overflow sites nor the three debug assertions of the depth estimators. -/
theorem estimate_no_panic (plain : Array Nat) (blocks : List Block) (hv : StreamValid plain blocks)
    (hsize : plain.size < 2 ^ 31 - 65536) (m : String) :
    Est.estimate plain blocks ≠ .error (.panic m) :=
  estimate_no_panic' plain blocks hv (by omega) m

/-- the statement of `estimate_no_panic` as a proposition -/
def estimate_no_panic_statement : Prop :=
  ∀ (plain : Array Nat) (blocks : List Block), StreamValid plain blocks → plain.size < 2 ^ 31 - 65536 →
    ∀ m : String, Est.estimate plain blocks ≠ .error (.panic m)

theorem estimate_no_panic_statement_holds : estimate_no_panic_statement :=
  fun plain blocks hv hsize m => estimate_no_panic plain blocks hv hsize m

/-- on a valid stream the estimator returns a parameter vector or `Err(PreflateError)`
    ("no candidates found" / "max_chain_found too large") — nothing else -/
theorem estimate_valid_outcomes (plain : Array Nat) (blocks : List Block) (hv : StreamValid plain blocks)
    (hsize : plain.size < 2 ^ 31 - 65536) :
    (∃ p, Est.estimate plain blocks = .ok p) ∨ Est.estimate plain blocks = .error .err := by
  rcases estimate_outcomes plain blocks with h | h | ⟨s, _, h⟩
  · exact Or.inl h
  · exact Or.inr h
  · exact absurd h (estimate_no_panic plain blocks hv hsize s)

/-! ### per-site lemmas for the index sites (the others are the `_spec` / `_ok` lemmas named in the header) -/

theorem getHash_ok (hp : Params) (plain : Array Nat) (pos : Nat)
    (h : pos + Chains.numHashBytes hp ≤ plain.size) : getHash hp plain pos = .ok (hashAtA hp plain pos) := by
  unfold getHash; rw [if_neg (by omega)]

theorem getHash3_ok (plain : Array Nat) (pos : Nat) (h : pos + 3 ≤ plain.size) :
    getHash3 plain pos = .ok (hash3AtA plain pos) := by
  unfold getHash3; rw [if_neg (by omega)]

/-- a reference of a valid stream leaves enough bytes for the hash of every surviving candidate
    that reaches `get_hash`: 3 bytes always, 4 bytes when `min_len ≠ 3` -/
theorem ref_room (plain : Array Nat) (blocks : List Block) (hv : StreamValid plain blocks)
    (len dist : Nat) (irr : Bool) (hmem : Token.ref len dist irr ∈ flat blocks) :
    3 ≤ len ∧ ((extractInfo blocks).minLen ≠ 3 → 4 ≤ len) := by
  have hvt := (VToks_flat plain blocks 0 hv.2.1).1
  refine ⟨VToks_len3 plain _ 0 hvt len dist irr hmem, fun h => ?_⟩
  have := lenBound_le plain blocks hvt len dist irr hmem
  unfold lenBound at this
  rw [if_neg h] at this
  exact this

end Preflate.Proofs.EstTotal

namespace Preflate.Proofs
export EstTotal (panicSites estimate_no_panic estimate_no_panic' estimate_outcomes estimate_valid_outcomes
  estimate_no_fuel estimate_no_panic_statement estimate_no_panic_statement_holds)
end Preflate.Proofs
