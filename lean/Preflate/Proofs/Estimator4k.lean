/- The side condition of `chain_positions_in_u16_partial` for the 4 KiB-boundary add policy is what
   the estimator itself establishes: `estimate_add_policy` answers AddFirstExcept4kBoundary only when
   no reference started in the last three positions of a 4 KiB page (`block_4k` stayed true). -/
import Preflate.Proofs.Estimator
import Preflate.Proofs.ChainBounds
namespace Preflate.Proofs
open Preflate Preflate.Est Preflate.Chains

theorem noRefAt4k_replicate_one (n : Nat) : ∀ pos, NoRefAt4k pos (List.replicate n 1) := by
  induction n with
  | zero => intro pos; exact True.intro
  | succ n ih =>
    intro pos
    simp only [List.replicate_succ, NoRefAt4k]
    exact ⟨fun h => absurd h (by omega), ih _⟩

theorem noRefAt4k_append : ∀ (a b : List Nat) (pos : Nat),
    NoRefAt4k pos a → NoRefAt4k (pos + a.sum) b → NoRefAt4k pos (a ++ b) := by
  intro a
  induction a with
  | nil => intro b pos _ hb; simpa using hb
  | cons x a ih =>
    intro b pos ha hb
    simp only [List.cons_append, NoRefAt4k] at ha ⊢
    refine ⟨ha.1, ih b _ ha.2 ?_⟩
    simp only [List.sum_cons] at hb
    rwa [Nat.add_assoc]

theorem addLiteral_block4k (s : AddState) : (addLiteral s).block4k = s.block4k := rfl

theorem addLiterals_block4k (data : List Nat) :
    ∀ s : AddState, (data.foldl (fun s _ => addLiteral s) s).block4k = s.block4k := by
  induction data with
  | nil => intro s; rfl
  | cons d ds ih => intro s; rw [List.foldl_cons, ih, addLiteral_block4k]

theorem addReference_block4k {s s' : AddState} {len dist : Nat}
    (h : addReference s len dist = .ok s') (hb : s'.block4k = true) :
    s.block4k = true ∧ (s.offset &&& 4095) < 4093 ∧ s'.offset = s.offset + len := by
  unfold addReference at h
  split at h
  · simp at h
  · simp only [Except.ok.injEq] at h
    subst h
    simp only at hb ⊢
    by_cases h4 : (s.offset &&& 4095) ≥ 4093
    · simp [h4] at hb
    · simp only [h4, if_false] at hb
      exact ⟨hb, by omega, trivial⟩

theorem addTokens_block4k (ts : List Token) :
    ∀ (s s' : AddState), addTokens s ts = .ok s' → s'.block4k = true →
      s.block4k = true ∧ NoRefAt4k s.offset (ts.map tokenLen) ∧
      s'.offset = s.offset + (ts.map tokenLen).sum := by
  induction ts with
  | nil =>
    intro s s' h hb
    simp only [addTokens, Except.ok.injEq] at h
    subst h
    exact ⟨hb, True.intro, by simp⟩
  | cons t ts ih =>
    intro s s' h hb
    cases t with
    | lit b =>
      simp only [addTokens] at h
      obtain ⟨h1, h2, h3⟩ := ih _ _ h hb
      rw [addLiteral_block4k] at h1
      refine ⟨h1, ?_, ?_⟩
      · simp only [List.map_cons, tokenLen, NoRefAt4k]
        exact ⟨fun h => absurd h (by omega), by simpa [addLiteral] using h2⟩
      · simp only [List.map_cons, tokenLen, List.sum_cons]
        simp only [addLiteral] at h3
        omega
    | ref len dist irr =>
      simp only [addTokens, bind_eq_ok] at h
      obtain ⟨s1, h1, h2⟩ := h
      obtain ⟨g1, g2, g3⟩ := ih _ _ h2 hb
      obtain ⟨f1, f2, f3⟩ := addReference_block4k h1 g1
      refine ⟨f1, ?_, ?_⟩
      · simp only [List.map_cons, tokenLen, NoRefAt4k]
        exact ⟨fun _ => f2, by rw [← f3]; exact g2⟩
      · simp only [List.map_cons, tokenLen, List.sum_cons]
        omega

theorem addBlocks_block4k (bs : List Block) :
    ∀ (s s' : AddState), addBlocks s bs = .ok s' → s'.block4k = true →
      s.block4k = true ∧ NoRefAt4k s.offset (streamLens bs) := by
  induction bs with
  | nil =>
    intro s s' h hb
    simp only [addBlocks, Except.ok.injEq] at h
    subst h
    exact ⟨hb, True.intro⟩
  | cons b bs ih =>
    intro s s' h hb
    cases b with
    | stored pad data =>
      simp only [addBlocks] at h
      obtain ⟨h1, h2⟩ := ih _ _ h hb
      rw [addLiterals_block4k] at h1
      refine ⟨h1, ?_⟩
      simp only [streamLens, List.flatMap_cons, blockLens]
      refine noRefAt4k_append _ _ _ (noRefAt4k_replicate_one _ _) ?_
      rw [addLiterals_offset] at h2
      simpa [streamLens] using h2
    | fixed ts =>
      simp only [addBlocks, bind_eq_ok] at h
      obtain ⟨s1, h1, h2⟩ := h
      obtain ⟨g1, g2⟩ := ih _ _ h2 hb
      obtain ⟨f1, f2, f3⟩ := addTokens_block4k ts _ _ h1 g1
      refine ⟨f1, ?_⟩
      simp only [streamLens, List.flatMap_cons, blockLens]
      refine noRefAt4k_append _ _ _ f2 ?_
      rw [← f3]; exact g2
    | dynamic hd ts =>
      simp only [addBlocks, bind_eq_ok] at h
      obtain ⟨s1, h1, h2⟩ := h
      obtain ⟨g1, g2⟩ := ih _ _ h2 hb
      obtain ⟨f1, f2, f3⟩ := addTokens_block4k ts _ _ h1 g1
      refine ⟨f1, ?_⟩
      simp only [streamLens, List.flatMap_cons, blockLens]
      refine noRefAt4k_append _ _ _ f2 ?_
      rw [← f3]; exact g2

/-- when the estimator answers the 4 KiB-boundary policy, no reference starts in the last three
    positions of a 4 KiB page -/
theorem addPolicy_4k (blocks : List Block) (lim : Nat) (h : Est.addPolicy blocks = .ok (3, lim)) :
    NoRefAt4k 0 (streamLens blocks) := by
  simp only [Est.addPolicy, bind_eq_ok] at h
  obtain ⟨s, h1, h2⟩ := h
  split at h2
  · rename_i hc
    exact (addBlocks_block4k blocks _ s h1 hc.2).2
  · split at h2
    · simp at h2
    · split at h2
      · simp at h2
      · split at h2 <;> simp at h2

/-- token lengths of a valid stream are 1..258 -/
theorem streamLens_range (plain : Array Nat) : ∀ (bs : List Block) (pos : Nat),
    ValidBlocks plain pos bs → ∀ l ∈ streamLens bs, 1 ≤ l ∧ l ≤ 258 := by
  have htoks : ∀ (ts : List Token) (pos : Nat), ValidToks plain pos ts →
      ∀ l ∈ ts.map tokenLen, 1 ≤ l ∧ l ≤ 258 := by
    intro ts
    induction ts with
    | nil => intro _ _ l hl; simp at hl
    | cons t ts ih =>
      intro pos hv l hl
      simp only [List.map_cons, List.mem_cons] at hl
      rcases hl with rfl | hl
      · cases t with
        | lit b => simp [tokenLen]
        | ref len dist irr =>
          have := hv.1
          simp only [ValidTok] at this
          simp only [tokenLen]; omega
      · exact ih _ hv.2 l hl
  intro bs
  induction bs with
  | nil => intro _ _ l hl; simp [streamLens] at hl
  | cons b bs ih =>
    intro pos hv l hl
    simp only [streamLens, List.flatMap_cons, List.mem_append] at hl
    rcases hl with hl | hl
    · cases b with
      | stored pad data =>
        simp only [blockLens] at hl
        rw [List.eq_of_mem_replicate hl]; omega
      | fixed ts => exact htoks ts pos hv.1.1 l hl
      | dynamic hd ts => exact htoks ts pos hv.1.1 l hl
    · exact ih _ hv.2 l hl

/-- for the add policy the estimator itself chose, over what the parser returns, and any hash
    algorithm, chain iteration and insertion never leave the u16 range — no side condition left -/
theorem chain_positions_in_u16_estimated (plain : Array Nat) (blocks : List Block)
    (hv : StreamValid plain blocks) (p : Params) (hh : p.hashAlg ≠ 0) (pol lim : Nat)
    (he : Est.addPolicy blocks = .ok (pol, lim)) (hp : p.addPolicy = pol) :
    RunSafe p (-8) 0 (streamLens blocks) :=
  chain_positions_in_u16_partial p hh (streamLens blocks) (streamLens_range plain blocks 0 hv.2.1)
    (fun h3 => addPolicy_4k blocks lim (by rw [← h3, hp]; exact he))

end Preflate.Proofs
