/-
The container level only ever hands the oracle CANDIDATES CUT OUT OF THE FILE: suffixes `src.drop k`
(zlib / gzip / zip) and the concatenated payload of a run of IDAT chunks. Hence everything the
container theorems assume about the oracle for ALL byte lists is only needed for candidates that are
no longer than the file and consist of bytes of the file (`Cand`).

Device: `o.within f` answers like `o` on such candidates and rejects everything else; scanner, writer and
reader cannot tell the two apart on `f` (`scan_congr`, `recreate_congr`), and `o.within f` satisfies the
unrestricted hypotheses whenever `o` satisfies the restricted ones.
-/
import Preflate.Proofs.Container
import Preflate.Proofs.Scan
namespace Preflate.Proofs
open Preflate

/-- `d` could have been cut out of `f`: not longer, and made of bytes that occur in `f` -/
def Cand (f d : Bytes) : Prop := d.length ≤ f.length ∧ ∀ b ∈ d, b ∈ f

instance (f d : Bytes) : Decidable (Cand f d) := by unfold Cand; exact inferInstance

theorem cand_drop (f : Bytes) (k : Nat) : Cand f (f.drop k) :=
  ⟨by simp only [List.length_drop]; omega, fun _ h => List.mem_of_mem_drop h⟩

theorem cand_trans {f s d : Bytes} (h1 : Cand f s) (h2 : Cand s d) : Cand f d :=
  ⟨Nat.le_trans h2.1 h1.1, fun b h => h1.2 b (h2.2 b h)⟩

/-- `o`, asked only about candidates cut out of `f` -/
def _root_.Preflate.Oracle.within (o : Oracle) (f : Bytes) : Oracle :=
  ⟨fun d => if Cand f d then o.analyze d else .error .err, o.recompress⟩

theorem within_verified (o : Oracle) (f d : Bytes) :
    (o.within f).verified d = if Cand f d then o.verified d else .error .err := by
  unfold Oracle.verified Oracle.within
  by_cases h : Cand f d
  · simp only [h, if_true]
  · simp only [h, if_false]; rfl

theorem within_verified_cand (o : Oracle) {f d : Bytes} (h : Cand f d) :
    (o.within f).verified d = o.verified d := by
  rw [within_verified, if_pos h]

-- ---------------------------------------------------------------------------------------------
-- the scanner cannot tell `o` from `o.within src`

/-- the payload `parse_idat` assembles is cut out of its input -/
theorem parseIdat_cand (crc : Bytes → Nat) (s : Bytes) (hb : ∀ b ∈ s, b < 256) (c : IdatContents)
    (pl : Bytes) (h : parseIdat crc s = .ok (c, pl)) : Cand s pl := by
  unfold parseIdat at h
  split at h
  · rw [throw_bind] at h; cases h
  · cases hc : idatChunks crc s (s.length + 1) 0 [] [] with
    | error e => rw [hc] at h; cases h
    | ok x =>
      obtain ⟨payload, sizes, pos⟩ := x
      rw [hc, c_bind_ok] at h
      simp only at h
      split at h
      · rw [throw_bind] at h; cases h
      · injection h with h
        injection h with h1 h2
        obtain ⟨ds, hp, _, hdrop, _, _, _⟩ :=
          idatChunks_spec crc s hb _ _ _ _ _ _ _ hc (Nat.zero_le _)
        simp only [List.nil_append, List.drop_zero] at hp hdrop
        have hlen : payload.length ≤ s.length := by
          have := length_flatten_le_wire crc ds
          have e : s.length = (idatWire crc ds).length + (s.drop pos).length := by
            rw [← List.length_append, ← hdrop]
          rw [hp]; omega
        have hmem : ∀ b ∈ payload, b ∈ s := by
          intro b hb'
          rw [hdrop]
          rw [hp] at hb'
          exact List.mem_append_left _ (mem_flatten_mem_wire crc ds b hb')
        subst h2
        refine ⟨?_, ?_⟩
        · simp only [List.length_take, List.length_drop]; omega
        · intro b hb'
          exact hmem b (List.mem_of_mem_drop (List.mem_of_mem_take hb'))

theorem parseZipStream_congr (o o' : Oracle) (s : Bytes)
    (h : ∀ k, o'.verified (s.drop k) = o.verified (s.drop k)) :
    parseZipStream o' s = parseZipStream o s := by
  simp only [parseZipStream, h]

theorem scanAt_congr (o o' : Oracle) (crc : Bytes → Nat) (src : Bytes) (hb : ∀ b ∈ src, b < 256)
    (h : ∀ d, Cand src d → o'.verified d = o.verified d) (index prev : Nat) (sg : Sig) :
    scanAt o' crc src index prev sg = scanAt o crc src index prev sg := by
  have e : ∀ k, o'.verified (src.drop k) = o.verified (src.drop k) := fun k => h _ (cand_drop src k)
  cases sg with
  | zlib => simp only [scanAt, e]
  | gzip => simp only [scanAt, e]
  | zip =>
    have ez : parseZipStream o' (src.drop index) = parseZipStream o (src.drop index) :=
      parseZipStream_congr o o' _ (fun k => by rw [List.drop_drop]; exact e _)
    simp only [scanAt, ez]
  | idat =>
    simp only [scanAt]
    split
    · cases hp : parseIdat crc (src.drop (index - 4)) with
      | error er => cases er <;> rfl
      | ok x =>
        obtain ⟨c, payload⟩ := x
        have hc : Cand src payload :=
          cand_trans (cand_drop src (index - 4))
            (parseIdat_cand crc _ (fun b hb' => hb b (List.mem_of_mem_drop hb')) c payload hp)
        simp only [probe, c_bind_ok, h payload hc]
    · rfl

theorem scanLoop_congr (o o' : Oracle) (crc : Bytes → Nat) (src : Bytes) (hb : ∀ b ∈ src, b < 256)
    (h : ∀ d, Cand src d → o'.verified d = o.verified d) :
    ∀ fuel index prev, scanLoop o' crc src fuel index prev = scanLoop o crc src fuel index prev := by
  intro fuel
  induction fuel with
  | zero => intro _ _; rfl
  | succ fuel ih =>
    intro index prev
    simp only [scanLoop, scanAt_congr o o' crc src hb h, ih]

theorem scan_congr (o o' : Oracle) (crc : Bytes → Nat) (src : Bytes) (hb : ∀ b ∈ src, b < 256)
    (h : ∀ d, Cand src d → o'.verified d = o.verified d) : scan o' crc src = scan o crc src :=
  scanLoop_congr o o' crc src hb h _ _ _

theorem expand_congr (o o' : Oracle) (crc : Bytes → Nat) (src : Bytes) (hb : ∀ b ∈ src, b < 256)
    (h : ∀ d, Cand src d → o'.verified d = o.verified d) : expand o' crc src = expand o crc src := by
  simp only [expand, scan_congr o o' crc src hb h]

theorem quiet_congr (o o' : Oracle) (crc : Bytes → Nat) (src : Bytes) (hb : ∀ b ∈ src, b < 256)
    (h : ∀ d, Cand src d → o'.verified d = o.verified d) (upTo bound : Nat) :
    Quiet o' crc src upTo bound ↔ Quiet o crc src upTo bound := by
  unfold Quiet
  simp only [scanAt_congr o o' crc src hb h]

-- ---------------------------------------------------------------------------------------------
-- the reader only uses `recompress`

theorem readChunk_congr (o o' : Oracle) (crc : Bytes → Nat) (hr : o'.recompress = o.recompress)
    (bs : Bytes) : readChunk o' crc bs = readChunk o crc bs := by
  simp only [readChunk, hr]

theorem readChunks_congr (o o' : Oracle) (crc : Bytes → Nat) (hr : o'.recompress = o.recompress) :
    ∀ fuel bs, readChunks o' crc fuel bs = readChunks o crc fuel bs := by
  intro fuel
  induction fuel with
  | zero => intro _; rfl
  | succ fuel ih =>
    intro bs
    simp only [readChunks, readChunk_congr o o' crc hr, ih]

theorem recreate_congr (o o' : Oracle) (crc : Bytes → Nat) (hr : o'.recompress = o.recompress)
    (c : Bytes) : recreate o' crc c = recreate o crc c := by
  cases c with
  | nil => rfl
  | cons v rest => simp only [recreate, readChunks_congr o o' crc hr]

-- ---------------------------------------------------------------------------------------------
-- C01 with the oracle hypotheses restricted to candidates cut out of the file

/-- `recreate_expand` (Props/C01 `recreate_expand_partial`) with `hpanic` and `hsize` only for
    candidates that are no longer than `f` and made of bytes of `f` -/
theorem recreate_expand_on (o : Oracle) (crc : Bytes → Nat) (f : Bytes)
    (hb : ∀ b ∈ f, b < 256) (hf : f.length < 2 ^ 32)
    (hpanic : ∀ d m, Cand f d → o.verified d ≠ .error (.panic m))
    (hsize : ∀ d r, Cand f d → o.verified d = .ok r →
      r.plain.length < 2 ^ 32 ∧ r.corr.length < 2 ^ 32) :
    ∃ c, expand o crc f = .ok c ∧ recreate o crc c = .ok f := by
  have hp' : ∀ d m, (o.within f).verified d ≠ .error (.panic m) := by
    intro d m
    rw [within_verified]
    split
    · rename_i hc; exact hpanic d m hc
    · intro hc; cases hc
  have hs' : ∀ d r, (o.within f).verified d = .ok r →
      r.plain.length < 2 ^ 32 ∧ r.corr.length < 2 ^ 32 := by
    intro d r
    rw [within_verified]
    split
    · rename_i hc; exact hsize d r hc
    · intro hc; cases hc
  obtain ⟨c, h1, h2⟩ := recreate_expand (o.within f) crc f hb hf hp' hs'
  refine ⟨c, ?_, ?_⟩
  · rw [← expand_congr o (o.within f) crc f hb (fun d hd => within_verified_cand o hd)]
    exact h1
  · rw [← recreate_congr o (o.within f) crc rfl c]
    exact h2

-- ---------------------------------------------------------------------------------------------
-- C06 with the no-panic hypothesis restricted to candidates cut out of the file

theorem cand_of_sublist {f d : Bytes} (h : d.Sublist f) : Cand f d :=
  ⟨h.length_le, fun _ hb => h.subset hb⟩

theorem within_noPanic (o : Oracle) (f : Bytes)
    (hnp : ∀ d m, Cand f d → o.verified d ≠ .error (.panic m)) : NoPanic (o.within f) := by
  intro d m
  rw [within_verified]
  split
  · rename_i hc; exact hnp d m hc
  · intro hc; cases hc

theorem found_zlib_on (o : Oracle) (crc : Bytes → Nat) (pre suf s : Bytes) (h1 : Nat) (r : Res)
    (hh : h1 ∈ zlibSecond)
    (hb : ∀ b ∈ pre ++ zlibWrap h1 s ++ suf, b < 256)
    (hnp : ∀ d m, Cand (pre ++ zlibWrap h1 s ++ suf) d → o.verified d ≠ .error (.panic m))
    (hacc : o.verified (s ++ suf) = .ok r) (hbig : r.plain.length > Gen.MIN_BLOCKSIZE)
    (hq : Quiet o crc (pre ++ zlibWrap h1 s ++ suf) pre.length pre.length) :
    ∃ before prev after, prev ≤ pre.length ∧
      scan o crc (pre ++ zlibWrap h1 s ++ suf) =
        .ok (before ++ [.literal (pre.length + 2 - prev), .deflate r] ++ after) := by
  have hag : ∀ d, Cand (pre ++ zlibWrap h1 s ++ suf) d →
      (o.within (pre ++ zlibWrap h1 s ++ suf)).verified d = o.verified d :=
    fun d hd => within_verified_cand o hd
  have hc : Cand (pre ++ zlibWrap h1 s ++ suf) (s ++ suf) :=
    cand_of_sublist (((List.sublist_append_right _ s).trans (List.sublist_append_right pre _)).append
      (List.Sublist.refl suf))
  rw [← scan_congr o _ crc _ hb hag]
  exact found_zlib _ crc pre suf s h1 r hh (within_noPanic o _ hnp) (by rw [hag _ hc]; exact hacc) hbig
    ((quiet_congr o _ crc _ hb hag _ _).2 hq)

theorem found_gzip_on (o : Oracle) (crc : Bytes → Nat) (pre suf s : Bytes) (g : GzipFields) (r : Res)
    (hg : g.WF)
    (hb : ∀ b ∈ pre ++ gzipHeader g ++ s ++ suf, b < 256)
    (hnp : ∀ d m, Cand (pre ++ gzipHeader g ++ s ++ suf) d → o.verified d ≠ .error (.panic m))
    (hacc : o.verified (s ++ suf) = .ok r) (hbig : r.plain.length > Gen.MIN_BLOCKSIZE)
    (hq : Quiet o crc (pre ++ gzipHeader g ++ s ++ suf) pre.length pre.length) :
    ∃ before prev after, prev ≤ pre.length ∧
      scan o crc (pre ++ gzipHeader g ++ s ++ suf) =
        .ok (before ++ [.literal (pre.length + (gzipHeader g).length - prev), .deflate r] ++ after) := by
  have hag : ∀ d, Cand (pre ++ gzipHeader g ++ s ++ suf) d →
      (o.within (pre ++ gzipHeader g ++ s ++ suf)).verified d = o.verified d :=
    fun d hd => within_verified_cand o hd
  have hc : Cand (pre ++ gzipHeader g ++ s ++ suf) (s ++ suf) :=
    cand_of_sublist ((List.sublist_append_right _ s).append (List.Sublist.refl suf))
  rw [← scan_congr o _ crc _ hb hag]
  exact found_gzip _ crc pre suf s g r hg (within_noPanic o _ hnp) (by rw [hag _ hc]; exact hacc) hbig
    ((quiet_congr o _ crc _ hb hag _ _).2 hq)

theorem found_zip_on (o : Oracle) (crc : Bytes → Nat) (pre suf s : Bytes) (z : ZipFields) (r : Res)
    (hn : z.name.length < 65536) (hx : z.extra.length < 65536)
    (hb : ∀ b ∈ pre ++ zipHeader z ++ s ++ suf, b < 256)
    (hnp : ∀ d m, Cand (pre ++ zipHeader z ++ s ++ suf) d → o.verified d ≠ .error (.panic m))
    (hacc : o.verified (s ++ suf) = .ok r) (hbig : r.plain.length > Gen.MIN_BLOCKSIZE)
    (hq : Quiet o crc (pre ++ zipHeader z ++ s ++ suf) pre.length pre.length) :
    ∃ before prev after, prev ≤ pre.length ∧
      scan o crc (pre ++ zipHeader z ++ s ++ suf) =
        .ok (before ++ [.literal (pre.length + (zipHeader z).length - prev), .deflate r] ++ after) := by
  have hag : ∀ d, Cand (pre ++ zipHeader z ++ s ++ suf) d →
      (o.within (pre ++ zipHeader z ++ s ++ suf)).verified d = o.verified d :=
    fun d hd => within_verified_cand o hd
  have hc : Cand (pre ++ zipHeader z ++ s ++ suf) (s ++ suf) :=
    cand_of_sublist ((List.sublist_append_right _ s).append (List.Sublist.refl suf))
  rw [← scan_congr o _ crc _ hb hag]
  exact found_zip _ crc pre suf s z r hn hx (within_noPanic o _ hnp) (by rw [hag _ hc]; exact hacc) hbig
    ((quiet_congr o _ crc _ hb hag _ _).2 hq)

theorem found_idat_on (o : Oracle) (crc : Bytes → Nat) (pre suf s hdr adler : Bytes) (pieces : List Bytes)
    (r : Res)
    (hp : ∀ p ∈ pieces, p ≠ [] ∧ p.length < 2 ^ 32) (hcrc : ∀ x, crc x < 2 ^ 32)
    (hcat : pieces.flatten = hdr ++ s ++ adler) (hhdr : hdr.length = 2) (had : adler.length = 4)
    (hne : pieces ≠ [])
    (hb : ∀ b ∈ pre ++ idatWrap crc pieces ++ suf, b < 256)
    (hnp : ∀ d m, Cand (pre ++ idatWrap crc pieces ++ suf) d → o.verified d ≠ .error (.panic m))
    (hend : IdatEnd crc suf)
    (hacc : o.verified s = .ok r) (hfull : r.size = s.length)
    (hbig : (idatWrap crc pieces).length > Gen.MIN_BLOCKSIZE)
    (hq : Quiet o crc (pre ++ idatWrap crc pieces ++ suf) (pre.length + 4) pre.length) :
    ∃ before prev after c, prev ≤ pre.length ∧
      scan o crc (pre ++ idatWrap crc pieces ++ suf) =
        .ok (before ++ [.literal (pre.length - prev), .idat c r] ++ after) := by
  have hag : ∀ d, Cand (pre ++ idatWrap crc pieces ++ suf) d →
      (o.within (pre ++ idatWrap crc pieces ++ suf)).verified d = o.verified d :=
    fun d hd => within_verified_cand o hd
  have hwire : idatWrap crc pieces = idatWire crc pieces := rfl
  have hc : Cand (pre ++ idatWrap crc pieces ++ suf) s := by
    constructor
    · have h1 := length_flatten_le_wire crc pieces
      rw [hcat] at h1
      simp only [List.length_append] at h1 ⊢
      rw [hwire]; omega
    · intro b hb'
      have h1 : b ∈ pieces.flatten := by
        rw [hcat]; exact List.mem_append_left _ (List.mem_append_right _ hb')
      rw [hwire]
      exact List.mem_append_left _ (List.mem_append_right _ (mem_flatten_mem_wire crc pieces b h1))
  rw [← scan_congr o _ crc _ hb hag]
  exact found_idat _ crc pre suf s hdr adler pieces r hp hcrc hcat hhdr had hne (within_noPanic o _ hnp) hend
    (by rw [hag _ hc]; exact hacc) hfull hbig ((quiet_congr o _ crc _ hb hag _ _).2 hq)

end Preflate.Proofs
