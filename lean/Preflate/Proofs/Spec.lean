/- Helper lemmas for C03 (agreement with the RFC-table transcription) and C05 (parser totality). -/
import Preflate.Model.Spec
import Preflate.Model.Valid
namespace Preflate.Proofs
open Preflate

/-- the model parser (regenerated tables) and the RFC-table transcription are the same function -/
theorem parseBits_eq_spec (bs : Bits) : parseBits bs = Spec.parseBits bs := by
  sorry

/-- the parser never panics -/
theorem parseBits_no_panic (bs : Bits) (m : String) : parseBits bs ≠ .error (.panic m) := by
  sorry

/-- the parser never runs out of fuel: every loop iteration consumes at least one bit -/
theorem parseBits_no_fuel (bs : Bits) : parseBits bs ≠ .error .fuel := by
  sorry

variable {H : Type}

/-- producing corrections for a valid stream has no panic path, whatever the predictor answers
    (as long as the predictor's own re-prediction does not panic) -/
theorem encStream_no_panic (P : Pred H) (plain : Array Nat) (blocks : List Block) (pad : Nat)
    (hv : StreamValid plain blocks)
    (hP : ∀ s m, P.repredictTok plain s ≠ .error (.panic m)) (m : String) :
    encStream P plain blocks pad ≠ .error (.panic m) := by
  sorry

end Preflate.Proofs
