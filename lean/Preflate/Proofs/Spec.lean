/- Helper lemmas for C03 (agreement with the RFC-table transcription) and C05 (parser totality).
   The work is in `SpecEq.lean` (C03), `Total.lean` (parser: no panic, no fuel exhaustion) and
   `TotalEnc.lean` (analysis of a valid stream: no panic). -/
import Preflate.Model.Spec
import Preflate.Model.Valid
import Preflate.Proofs.SpecEq
import Preflate.Proofs.Total
import Preflate.Proofs.TotalEnc
namespace Preflate.Proofs
open Preflate

/-- the model parser (regenerated tables) and the RFC-table transcription are the same function -/
theorem parseBits_eq_spec (bs : Bits) : parseBits bs = Spec.parseBits bs :=
  parseBits_eq_spec' bs

/-- the parser never panics -/
theorem parseBits_no_panic (bs : Bits) (m : String) : parseBits bs ≠ .error (.panic m) := by
  intro h
  cases parseBits_error bs _ h

/-- the parser never runs out of fuel: every loop iteration consumes at least one bit -/
theorem parseBits_no_fuel (bs : Bits) : parseBits bs ≠ .error .fuel := by
  intro h
  cases parseBits_error bs _ h

variable {H : Type}

/-- producing corrections for a valid stream has no panic path, whatever the predictor answers
    (as long as the predictor's own re-prediction does not panic) -/
theorem encStream_no_panic (P : Pred H) (plain : Array Nat) (blocks : List Block) (pad : Nat)
    (hv : StreamValid plain blocks)
    (hP : ∀ s m, P.repredictTok plain s ≠ .error (.panic m)) (m : String) :
    encStream P plain blocks pad ≠ .error (.panic m) := by
  intro h
  have := encStream_post Tol.np P plain blocks pad hv (fun s e he m hm => hP s m (by rw [he, hm]))
  rw [h] at this
  exact Post.error_iff.mp this m rfl

/-- … and `Err(PreflateError)` is its ONLY failure (no panic, no exhausted loop bound) when that is
    so for the predictor's re-prediction -/
theorem encStream_only_err (P : Pred H) (plain : Array Nat) (blocks : List Block) (pad : Nat)
    (hv : StreamValid plain blocks)
    (hP : ∀ s e, P.repredictTok plain s = .error e → e = .err) (e : Fail)
    (h : encStream P plain blocks pad = .error e) : e = .err := by
  have := encStream_post Tol.onlyErr P plain blocks pad hv hP
  rw [h] at this
  cases this with
  | error _ he => exact he

end Preflate.Proofs
