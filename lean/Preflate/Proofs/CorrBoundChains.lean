/-
SIZE OF THE CORRECTION DATA: the executable predictor `Chains.pred` is TIGHT (`PredTight`,
Proofs/CorrBoundPredict.lean) for every parameter vector — `match_token_offset` never answers a length
above MAX_MATCH = 258 (`matchToken_len_le`, Proofs/ChainsBounded.lean), and the code lengths are bytes
(`Vec<u8>`, modelled by `% 256` in Model/Chains.lean).
-/
import Preflate.Proofs.ChainsBounded
import Preflate.Proofs.CorrBoundPredict
namespace Preflate.Proofs
open Preflate Preflate.Chains

theorem pendTight_some (l d : Nat) (h : l ≤ 258) : PendTight (some (l, d)) := by
  intro l' d' h'
  cases h'
  exact h

def BothT (r : PTok × Option (Nat × Nat)) : Prop := PTokTight r.1 ∧ PendTight r.2

/-- the part of `predict_token` after the first match of length `len` was found (`hm : len ≤ 258`) -/
macro "pt_tail_tight" hm:ident : tactic => `(tactic| (
  repeat' split
  all_goals first
    | exact ⟨trivial, pendTight_none⟩
    | exact ⟨$hm, pendTight_none⟩
    | exact ⟨trivial, pendTight_some _ _ (matchToken_len_le _ _ _ _ _ _ _ _ _ (by assumption))⟩))

theorem predictTok_bothT (p : Params) (plain : Array Nat) (s : PState Chain) (hp : PendTight s.pending) :
    BothT (predictTok p plain s) := by
  unfold predictTok
  split
  · exact ⟨trivial, hp⟩
  · cases hpd : s.pending with
    | some ld =>
      obtain ⟨len, dist⟩ := ld
      have hm : len ≤ 258 := hp len dist hpd
      simp only []
      pt_tail_tight hm
    | none =>
      simp only []
      cases hm0 : matchToken p plain s.h s.pos 0 0 p.maxChain with
      | none => exact ⟨trivial, pendTight_none⟩
      | success len dist =>
        have hm : len ≤ 258 := matchToken_len_le _ _ _ _ _ _ _ _ _ hm0
        simp only []
        pt_tail_tight hm

theorem repredictTok_tight (p : Params) (plain : Array Nat) (s : PState Chain) (l d : Nat)
    (h : repredictTok p plain s = .ok (l, d)) : l ≤ 258 := by
  unfold repredictTok at h
  split at h
  · cases h
  · split at h
    · rename_i len dist heq
      have hm := matchToken_len_le _ _ _ _ _ _ _ _ _ heq
      split at h
      · cases h
        exact hm
      · cases h
    · cases h

/-- `PredTight` for the executable predictor, every parameter vector -/
theorem chains_pred_tight (p : Params) : PredTight (Chains.pred p) where
  predict plain s hp := predictTok_bothT p plain s hp
  repredict plain s l d _ h := repredictTok_tight p plain s l d h
  bitlen freq maxBits x hx := by
    simp only [Chains.pred] at hx
    split at hx
    · simp only [List.mem_map] at hx
      obtain ⟨y, _, rfl⟩ := hx
      exact Nat.mod_lt _ (by decide)
    · simp at hx

end Preflate.Proofs
