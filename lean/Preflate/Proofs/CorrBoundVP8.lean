/-
SIZE OF THE CORRECTION DATA, layer 1: the VP8 bool coder (Model/VP8.lean).

Every decision handed to `VP8Writer` renormalises the interval by at most 7 bits (`lz8 range ≤ 7` for
`1 ≤ range ≤ 255`), the writer starts with 0 bits, `new` and `finish` add 1 + 32 decisions, a byte is
pushed for every 8 bits shifted (`WT w = 8 * buffer.size + Wk w`, Proofs/VP8Writer.lean) and `finish`
appends at most one more byte. Hence

    8 * (writeEvents evs).size ≤ 7 * evs.length + 239,

in particular at most one byte per decision plus 30.
-/
import Preflate.Proofs.VP8
namespace Preflate.Proofs
open Preflate Preflate.VP8

/-- one coding step shifts at most 7 bits -/
theorem putSplit_WT_le (w : Writer) (b : Bool) (s : Nat) (hw : WInv w) (hs0 : 0 < s) (hs : s < w.range) :
    WInv (w.putSplit b s) ∧ WT (w.putSplit b s) ≤ WT w + 7 := by
  obtain ⟨h1, _, h3, _⟩ := putSplit_ideal w b s hw hs0 hs
  have hr := hw.r_hi
  have hl : lz8 (if b then w.range - s else s) ≤ 7 := by
    cases b
    · exact (lz8_spec s hs0 (by omega)).1
    · exact (lz8_spec (w.range - s) (by omega) (by omega)).1
  exact ⟨h1, by rw [h3]; omega⟩

theorem put_WT_le (w : Writer) (b : Bool) (counts : Nat) (hw : WInv w) :
    WInv (w.put b counts).1 ∧ WT (w.put b counts).1 ≤ WT w + 7 := by
  have hsb := split_bounds w.range (probability counts) (by have := hw.r_lo; omega) (probability_lt _)
  exact putSplit_WT_le w b _ hw hsb.1 hsb.2

theorem putBypass_WT_le (w : Writer) (b : Bool) (hw : WInv w) :
    WInv (w.putBypass b) ∧ WT (w.putBypass b) ≤ WT w + 7 := by
  have hsb := bypass_bounds w.range (by have := hw.r_lo; omega)
  exact putSplit_WT_le w b _ hw hsb.1 hsb.2

theorem stepW_WT_le (w : Writer) (cs : Array Nat) (e : Ev) (hw : WInv w) :
    WInv (stepW (w, cs) e).1 ∧ WT (stepW (w, cs) e).1 ≤ WT w + 7 := by
  unfold stepW
  cases e.ctx with
  | none => exact putBypass_WT_le w _ hw
  | some c => exact put_WT_le w _ _ hw

theorem fold_WT_le (evs : List Ev) : ∀ (w : Writer) (cs : Array Nat), WInv w →
    WInv (evs.foldl stepW (w, cs)).1 ∧ WT (evs.foldl stepW (w, cs)).1 ≤ WT w + 7 * evs.length := by
  induction evs with
  | nil => intro w cs hw; exact ⟨hw, by simp⟩
  | cons e evs ih =>
    intro w cs hw
    simp only [List.foldl_cons, List.length_cons]
    obtain ⟨h1, h2⟩ := stepW_WT_le w cs e hw
    obtain ⟨h3, h4⟩ := ih (stepW (w, cs) e).1 (stepW (w, cs) e).2 h1
    rw [Prod.mk.eta] at h3 h4
    exact ⟨h3, by omega⟩

theorem iter_padStep_WT_le (n : Nat) : ∀ (w : Writer), WInv w →
    WInv (iter padStep n w) ∧ WT (iter padStep n w) ≤ WT w + 7 * n := by
  induction n with
  | zero => intro w hw; exact ⟨hw, by simp [iter]⟩
  | succ n ih =>
    intro w hw
    obtain ⟨h1, h2⟩ := put_WT_le w false 0x101 hw
    obtain ⟨h3, h4⟩ := ih (padStep w) h1
    simp only [iter]
    exact ⟨h3, by unfold padStep at h4 ⊢; omega⟩

/-- `finish`: 32 padding decisions and at most one extra byte -/
theorem finish_size_le (w : Writer) (hw : WInv w) : 8 * w.finish.size ≤ WT w + 232 := by
  have hfold : (List.range 32).foldl (fun w _ => (w.put false 0x101).1) w = iter padStep 32 w := by
    have := foldl_const padStep (List.range 32) w
    simpa [padStep] using this
  obtain ⟨_, h2⟩ := iter_padStep_WT_le 32 w hw
  unfold Writer.finish
  simp only [hfold]
  generalize iter padStep 32 w = wf at *
  have hWT : WT wf = 8 * wf.buffer.size + Wk wf := rfl
  split
  · simp only [Array.size_push]; omega
  · omega

theorem new_WT_le : WInv Writer.new ∧ WT Writer.new ≤ 7 := by
  have h := put_WT_le ({} : Writer) false 0x101 winv_init
  have h0 : WT ({} : Writer) = 0 := by simp [WT, Wk]
  exact ⟨h.1, by have := h.2; unfold Writer.new; omega⟩

/-- **layer 1, fine form**: 7 bits per decision -/
theorem writeEvents_size_le8 (evs : List Ev) : 8 * (writeEvents evs).size ≤ 7 * evs.length + 239 := by
  rw [writeEvents_eq]
  obtain ⟨hn, hn7⟩ := new_WT_le
  obtain ⟨h1, h2⟩ := fold_WT_le evs Writer.new freshContexts hn
  have h3 := finish_size_le _ h1
  omega

/-- **layer 1**: at most one byte per decision -/
theorem writeEvents_size_le (evs : List Ev) : (writeEvents evs).size ≤ evs.length + 30 := by
  have := writeEvents_size_le8 evs
  omega

end Preflate.Proofs
