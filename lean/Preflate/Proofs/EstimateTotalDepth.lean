/- Panic-freedom of the full parameter estimator, part 3 of 4: the depth tables.
   `DBasic`: table sizes and the bound `chain_depth ≤ number of positions seen` (the i32 `+1`).
   `DCons`: for every inserted position `P` of the last 64K positions the verify entry holds the
   hash of `P`, and the head of that hash's chain is a later inserted position `Q` whose verify
   entry is the same hash and whose depth is at least the depth of `P` — exactly what the three
   debug assertions of `match_depth` / `get_node_depth` check. -/
import Preflate.Proofs.EstimateTotalPolicy
namespace Preflate.Proofs.EstTotal
open Preflate Preflate.Est

structure DBasic (d : Depth) (cur : Nat) : Prop where
  hs : d.head.size = 65536
  cs : d.chainDepth.size = 65536
  vs : d.verify.size = 65536
  cb : ∀ x : Nat, d.chainDepth[x]! ≤ cur

theorem DBasic.mono {d : Depth} {c c' : Nat} (h : DBasic d c) (hc : c ≤ c') : DBasic d c' :=
  ⟨h.hs, h.cs, h.vs, fun x => Nat.le_trans (h.cb x) hc⟩

/-- consistency of the tables with the hash `H` for the inserted positions `I` below `cur` -/
def DCons (H : Nat → Nat) (I : Nat → Prop) (d : Depth) (cur : Nat) : Prop :=
  ∀ P, I P → P < cur → cur < P + 65536 →
    d.verify[P % 65536]! = H P ∧
    ∃ Q, P ≤ Q ∧ Q < cur ∧ d.head[H P]! = Q % 65536 ∧ d.verify[Q % 65536]! = H P ∧
      d.chainDepth[P % 65536]! ≤ d.chainDepth[Q % 65536]!

/-- positions that are not to be inserted may be skipped -/
theorem DCons.skip {H : Nat → Nat} {I : Nat → Prop} {d : Depth} {c c' : Nat} (h : DCons H I d c)
    (hcc : c ≤ c') (hno : ∀ q, c ≤ q → q < c' → ¬ I q) : DCons H I d c' := by
  intro P hI hP hwin
  have hPc : P < c := by
    by_cases hh : P < c
    · exact hh
    · exact absurd hI (hno P (by omega) hP)
  obtain ⟨h1, Q, h2, h3, h4, h5, h6⟩ := h P hI hPc (by omega)
  exact ⟨h1, Q, h2, by omega, h4, h5, h6⟩

/-- one insertion (the body of the loop of `internal_update_hash`) at position `c` -/
theorem dstep (H : Nat → Nat) (I : Nat → Prop) (hH : ∀ q, H q < 65536) (head cd vf : Array Nat) (c : Nat)
    (hb : DBasic ⟨head, cd, vf⟩ c) :
    DBasic ⟨head.set! (H c) (c % 65536), cd.set! (c % 65536) (cd[head[H c]!]! + 1), vf.set! (c % 65536) (H c)⟩ (c + 1) ∧
    (DCons H I ⟨head, cd, vf⟩ c →
      DCons H I ⟨head.set! (H c) (c % 65536), cd.set! (c % 65536) (cd[head[H c]!]! + 1), vf.set! (c % 65536) (H c)⟩ (c + 1)) := by
  obtain ⟨hs, cs, vs, cb⟩ := hb
  simp only at hs cs vs cb
  have hc16 : c % 65536 < 65536 := by omega
  refine ⟨⟨by simp only [size_set!]; exact hs, by simp only [size_set!]; exact cs,
    by simp only [size_set!]; exact vs, ?_⟩, ?_⟩
  · intro x
    simp only
    rw [get_set!]
    split
    · have := cb (head[H c]!); omega
    · have := cb x; omega
  · intro hc P hI hP hwin
    simp only
    by_cases hPc : P = c
    · subst hPc
      refine ⟨get_set!_eq _ _ _ (by omega), P, Nat.le_refl _, by omega, ?_, ?_, Nat.le_refl _⟩
      · exact get_set!_eq _ _ _ (by rw [hs]; exact hH P)
      · exact get_set!_eq _ _ _ (by omega)
    · obtain ⟨h1, Q, h2, h3, h4, h5, h6⟩ := hc P hI (by omega) (by omega)
      simp only at h1 h4 h5 h6
      have hne : c % 65536 ≠ P % 65536 := by omega
      have hneQ : c % 65536 ≠ Q % 65536 := by omega
      refine ⟨by rw [get_set!_ne _ _ _ _ hne]; exact h1, ?_⟩
      by_cases hh : H P = H c
      · refine ⟨c, by omega, by omega, ?_, ?_, ?_⟩
        · rw [hh]; exact get_set!_eq _ _ _ (by rw [hs]; exact hH c)
        · rw [hh]; exact get_set!_eq _ _ _ (by omega)
        · rw [get_set!_ne _ _ _ _ hne, get_set!_eq _ _ _ (by omega), ← hh, h4]
          omega
      · refine ⟨Q, h2, by omega, ?_, ?_, ?_⟩
        · rw [get_set!_ne _ _ _ _ (fun e => hh e.symm)]; exact h4
        · rw [get_set!_ne _ _ _ _ hneQ]; exact h5
        · rw [get_set!_ne _ _ _ _ hne, get_set!_ne _ _ _ _ hneQ]; exact h6

theorem u16_succ (x : Nat) : Chains.u16 (Chains.u16 x + 1) = Chains.u16 (x + 1) := by
  unfold Chains.u16; omega

/-- the insertion loop does not overflow and keeps the tables consistent -/
theorem insertLoop_spec (H : Nat → Nat) (I : Nat → Prop) (hH : ∀ q, H q < 65536) (p length : Nat)
    (hlen : p + length ≤ I32_MAX) :
    ∀ (n i : Nat) (head cd vf : Array Nat), length - i = n → i ≤ length → DBasic ⟨head, cd, vf⟩ (p + i) →
      ∃ d', insertLoop (fun j => H (p + j)) length i (Chains.u16 (p + i)) head cd vf = .ok d' ∧
        DBasic d' (p + length) ∧ (DCons H I ⟨head, cd, vf⟩ (p + i) → DCons H I d' (p + length)) := by
  intro n
  induction n with
  | zero =>
    intro i head cd vf hn hi hb
    have : i = length := by omega
    subst this
    rw [insertLoop, if_neg (by omega)]
    exact ⟨_, rfl, hb, id⟩
  | succ n ih =>
    intro i head cd vf hn hi hb
    rw [insertLoop, if_pos (by omega)]
    have hcb := hb.cb (head[H (p + i)]!)
    simp only at hcb
    simp only
    rw [if_neg (by omega)]
    obtain ⟨s1, s2⟩ := dstep H I hH head cd vf (p + i) hb
    rw [u16_succ]
    obtain ⟨d', e1, e2, e3⟩ := ih (i + 1) _ _ _ (by omega) (by omega) s1
    exact ⟨d', e1, e2, fun hc => e3 (s2 hc)⟩


/-- `match_depth` passes its overflow check, its slice index and its three debug assertions when the
    referenced position was inserted and hashes like the current position -/
theorem matchDepth_ok (hp : Params) (plain : Array Nat) (I : Nat → Prop) (d : Depth) (pos dist : Nat)
    (hc : DCons (hashAtA hp plain) I d pos) (hI : I (pos - dist))
    (hd1 : 1 ≤ dist) (hd2 : dist ≤ pos) (hd3 : dist ≤ 32768)
    (hroom : pos + Chains.numHashBytes hp ≤ plain.size)
    (hh : hashAtA hp plain (pos - dist) = hashAtA hp plain pos) :
    ∃ m, d.matchDepth hp plain pos dist = .ok m := by
  obtain ⟨h1, Q, h2, h3, h4, h5, h6⟩ := hc (pos - dist) hI (by omega) (by omega)
  rw [hh] at h1 h4 h5
  unfold Depth.matchDepth
  simp only [bind, Except.bind, getHash, Depth.getNodeDepth, Chains.u16]
  rw [if_neg (show ¬ dist > pos by omega), if_neg (show ¬ plain.size < pos + Chains.numHashBytes hp by omega)]
  simp only []
  simp only [h4, h5, h1, ne_eq, not_true_eq_false, if_false]
  rw [if_neg (by omega)]
  exact ⟨_, rfl⟩


theorem is32k_eq (l p : Nat) : Chains.is32kBoundary l p = is32k l p := rfl

/-- the marks of the interior bytes of a match -/
theorem mark_facts (p len dist : Nat) (irr : Bool) (i : Nat) (hl : len ≤ 258) (hi1 : 1 ≤ i) :
    tokMark p (.ref len dist irr) i &&& 0x0fff = len ∧
    (i ≠ len - 1 → tokMark p (.ref len dist irr) i &&& LAST_ADDED = 0) ∧
    ((i ≠ len - 1 ∨ is32k len p = false) → tokMark p (.ref len dist irr) i &&& LAST_32K = 0) := by
  obtain ⟨b1, b2, b3, b4, b5, b6, b7, b8, b9⟩ := mark_bits len (by omega)
  simp only [tokMark, LAST_ADDED, LAST_32K]
  rw [if_neg (show ¬ i = 0 by omega)]
  by_cases h1 : i = len - 1
  · rw [if_pos h1]
    by_cases h2 : is32k len p = true
    · rw [if_pos h2]
      refine ⟨b7, fun h => absurd h1 h, fun h => ?_⟩
      rcases h with h | h
      · exact absurd h1 h
      · rw [h2] at h; cases h
    · rw [if_neg h2]
      exact ⟨b4, fun h => absurd h1 h, fun _ => b5⟩
  · rw [if_neg h1]
    exact ⟨b1, fun _ => b2, fun _ => b3⟩

theorem policyUpdateR_spec {σ : Type} (Inv : σ → Nat → Prop) (I : Nat → Prop) (size : Nat)
    (upd : σ → Nat → Nat → R σ)
    (hU : ∀ s p l, Inv s p → 1 ≤ l → p + l ≤ size → ∃ s', upd s p l = .ok s' ∧ Inv s' (p + l))
    (hA : ∀ s p p', Inv s p → p ≤ p' → (∀ q, p ≤ q → q < p' → ¬ I q) → Inv s p')
    (pol lim : Nat) (M : Nat → Nat) (hI : ∀ q, I q → PolIns pol lim (M q))
    (s : σ) (p : Nat) (t : Token) (hInv : Inv s p) (hfit : p + tokenLen t ≤ size)
    (hM : ∀ i, i < tokenLen t → M (p + i) = tokMark p t i)
    (ht : ∀ len dist irr, t = .ref len dist irr → 3 ≤ len ∧ len ≤ 258 ∧ (pol = 3 → (p &&& 4095) < 4093)) :
    ∃ s', policyUpdateR pol lim (size - p) upd s p (tokenLen t) = .ok s' ∧ Inv s' (p + tokenLen t) := by
  cases t with
  | lit b =>
    simp only [tokenLen] at hfit ⊢
    unfold policyUpdateR
    rw [if_pos rfl]
    exact hU s p 1 hInv (Nat.le_refl _) hfit
  | ref len dist irr =>
    obtain ⟨hl3, hl258, h4k⟩ := ht len dist irr rfl
    simp only [tokenLen] at hfit hM ⊢
    -- interior positions
    have hmf : ∀ q, p + 1 ≤ q → q < p + len →
        M q &&& 0x0fff = len ∧ (q ≠ p + len - 1 → M q &&& LAST_ADDED = 0) ∧
        ((q ≠ p + len - 1 ∨ is32k len p = false) → M q &&& LAST_32K = 0) := by
      intro q hq1 hq2
      obtain ⟨i, rfl⟩ : ∃ i, q = p + i := ⟨q - p, by omega⟩
      rw [hM i (by omega)]
      obtain ⟨f1, f2, f3⟩ := mark_facts p len dist irr i hl258 (by omega)
      refine ⟨f1, fun h => f2 (by omega), fun h => f3 ?_⟩
      rcases h with h | h
      · exact Or.inl (by omega)
      · exact Or.inr h
    obtain ⟨s1, e1, i1⟩ := hU s p 1 hInv (Nat.le_refl _) (by omega)
    unfold policyUpdateR
    rw [if_neg (show ¬ len = 1 by omega)]
    obtain _ | _ | _ | _ | n := pol
    · exact hU s p len hInv (by omega) hfit
    · simp only []
      by_cases hlim : len ≤ lim
      · rw [if_pos hlim]; exact hU s p len hInv (by omega) hfit
      · rw [if_neg hlim]
        refine ⟨s1, e1, hA s1 (p + 1) (p + len) i1 (by omega) ?_⟩
        intro q hq1 hq2 hq
        have := hI q hq
        simp only [PolIns] at this
        rw [(hmf q hq1 hq2).1] at this
        exact hlim this
    · simp only []
      by_cases hlim : len ≤ lim
      · rw [if_pos hlim]; exact hU s p len hInv (by omega) hfit
      · rw [if_neg hlim]
        have i2 : Inv s1 (p + len - 1) := by
          refine hA s1 (p + 1) (p + len - 1) i1 (by omega) ?_
          intro q hq1 hq2 hq
          have := hI q hq
          simp only [PolIns] at this
          obtain ⟨f1, f2, _⟩ := hmf q hq1 (by omega)
          rw [f1] at this
          rcases this with h | h
          · exact hlim h
          · exact h (f2 (by omega))
        obtain ⟨s2, e2, i3⟩ := hU s1 (p + len - 1) 1 i2 (Nat.le_refl _) (by omega)
        refine ⟨s2, ?_, by rw [show p + len = p + len - 1 + 1 by omega]; exact i3⟩
        simp only [e1, ok_bind]
        rw [if_neg (show ¬ len - 1 > size - p by omega)]
        exact e2
    · simp only []
      rw [if_pos (h4k rfl)]
      refine ⟨s1, e1, hA s1 (p + 1) (p + len) i1 (by omega) ?_⟩
      intro q hq1 hq2 hq
      have := hI q hq
      simp only [PolIns] at this
      rw [(hmf q hq1 hq2).1] at this
      omega
    · simp only [e1, ok_bind]
      by_cases hb : Chains.is32kBoundary len p = true
      · rw [if_pos hb]
        have i2 : Inv s1 (p + len - 1) := by
          refine hA s1 (p + 1) (p + len - 1) i1 (by omega) ?_
          intro q hq1 hq2 hq
          have := hI q hq
          simp only [PolIns] at this
          obtain ⟨f1, _, f3⟩ := hmf q hq1 (by omega)
          rw [f1] at this
          rcases this with h | h
          · omega
          · exact h (f3 (Or.inl (by omega)))
        obtain ⟨s2, e2, i3⟩ := hU s1 (p + len - 1) 1 i2 (Nat.le_refl _) (by omega)
        refine ⟨s2, ?_, by rw [show p + len = p + len - 1 + 1 by omega]; exact i3⟩
        rw [if_neg (show ¬ len - 1 > size - p by omega)]
        exact e2
      · rw [if_neg hb]
        refine ⟨s1, rfl, hA s1 (p + 1) (p + len) i1 (by omega) ?_⟩
        intro q hq1 hq2 hq
        have := hI q hq
        simp only [PolIns] at this
        obtain ⟨f1, _, f3⟩ := hmf q hq1 hq2
        rw [f1] at this
        rcases this with h | h
        · omega
        · refine h (f3 (Or.inr ?_))
          rw [← is32k_eq]
          cases hx : Chains.is32kBoundary len p
          · rfl
          · exact absurd hx hb

end Preflate.Proofs.EstTotal
