/- Helper lemmas for C02/C08: the token / block / stream mirror (token_predictor.rs, process.rs). -/
import Preflate.Proofs.PredictTree
namespace Preflate.Proofs
open Preflate

variable {H : Type}

/-- calculate_hops is inverted by hop_match on the same candidate list, provided the target really
    matches at its distance (which `ValidTok` supplies) -/
theorem hops_inv (P : Pred H) (plain : Array Nat) (s : PState H) (len dist h : Nat)
    (hm : matchAt plain s.pos len dist = true)
    (hh : calcHops P plain s len dist = .ok h) :
    h ≠ 0 ∧ hopMatch P plain s len h = .ok dist := by
  sorry

/-- one token -/
theorem decTok_encTok (P : Pred H) (plain : Array Nat) (s : PState H) (t : Token)
    (hv : ValidTok plain s.pos t) (ops : List Op) (s' : PState H)
    (he : encTok P plain s t = .ok (ops, s')) (rest : List Op) :
    decTok P plain s (ops ++ rest) = .ok (t, rest, s') := by
  sorry

/-- the whole stream, for ANY predictor -/
theorem decStream_encStream (P : Pred H) (plain : Array Nat) (blocks : List Block) (pad : Nat)
    (hv : StreamValid plain blocks) (hpad : pad < 256) (ops : List Op)
    (he : encStream P plain blocks pad = .ok ops) (rest : List Op) :
    decStream P plain (ops ++ rest) = .ok (blocks, pad, rest) := by
  sorry

end Preflate.Proofs
