/- Helper lemmas for C02/C08: the token / block / stream mirror (token_predictor.rs, process.rs). -/
import Preflate.Proofs.PredictTree
import Preflate.Proofs.PredictTok
import Preflate.Proofs.PredictBlock
namespace Preflate.Proofs
open Preflate

variable {H : Type}

/-- calculate_hops is inverted by hop_match on the same candidate list, provided the target really
    matches at its distance (which `ValidTok` supplies) -/
theorem hops_inv (P : Pred H) (plain : Array Nat) (s : PState H) (len dist h : Nat)
    (hm : matchAt plain s.pos len dist = true)
    (hh : calcHops P plain s len dist = .ok h) :
    h ≠ 0 ∧ hopMatch P plain s len h = .ok dist :=
  hops_inv' P plain s len dist h hm hh

/-- one token -/
theorem decTok_encTok (P : Pred H) (plain : Array Nat) (s : PState H) (t : Token)
    (hv : ValidTok plain s.pos t) (ops : List Op) (s' : PState H)
    (he : encTok P plain s t = .ok (ops, s')) (rest : List Op) :
    decTok P plain s (ops ++ rest) = .ok (t, rest, s') :=
  decTok_encTok' P plain s t hv ops s' he rest

/-- the whole stream, for ANY predictor -/
theorem decStream_encStream (P : Pred H) (plain : Array Nat) (blocks : List Block) (pad : Nat)
    (hv : StreamValid plain blocks) (hpad : pad < 256) (ops : List Op)
    (he : encStream P plain blocks pad = .ok ops) (rest : List Op) :
    decStream P plain (ops ++ rest) = .ok (blocks, pad, rest) := by
  obtain ⟨hne, hvb, hend⟩ := hv
  unfold encStream at he
  simp only [bind_eq_ok] at he
  obtain ⟨⟨ops1, s1⟩, hb, he⟩ := he
  by_cases heof : (!s1.eof plain) = true
  · simp [heof, bind, Except.bind, throw, throwThe, MonadExceptOf.throw] at he
  · simp only [heof, Bool.false_eq_true, if_false, Except.ok.injEq] at he
    subst he
    cases blocks with
    | nil => exact absurd rfl hne
    | cons b bs =>
      have hb' := hb
      simp only [encBlocks, bind_eq_ok] at hb'
      obtain ⟨⟨a, s2⟩, h1, ⟨r, s3⟩, h2, hb'⟩ := hb'
      simp only [Except.ok.injEq, Prod.mk.injEq] at hb'
      obtain ⟨rfl, rfl⟩ := hb'
      have htail := decTail_encBlocks P plain (b :: bs) ⟨P.init, none, 0, 0⟩ _ s3
        ((a ++ r ++ Op.mis M_EOF false :: Op.corr C_NONZERO_PADDING pad :: rest).length + 1) hvb hend hb
        (by simp only [List.length_append, List.length_cons]; split <;> simp <;> omega)
        (Op.corr C_NONZERO_PADDING pad :: rest)
      simp only [decTail, List.append_assoc, decIsEof_enc, bind, Except.bind, Bool.false_eq_true,
        if_false] at htail
      simp only [decStream, List.append_assoc, List.cons_append, List.nil_append, decIsEof_enc, bind,
        Except.bind, Bool.false_eq_true, if_false, htail, pure, Except.pure, popCorr_cons,
        Nat.mod_eq_of_lt hpad]

end Preflate.Proofs
