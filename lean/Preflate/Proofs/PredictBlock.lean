/- Helper lemmas for C02/C08: the block and stream mirror (token_predictor.rs, process.rs). -/
import Preflate.Proofs.PredictTok
import Preflate.Proofs.PredictTree
namespace Preflate.Proofs
open Preflate

variable {H : Type}

theorem commitStored_pos (P : Pred H) (plain : Array Nat) : ∀ (n : Nat) (s : PState H),
    (commitStored P plain n s).pos = s.pos + n := by
  intro n
  induction n with
  | zero => intro s; simp [commitStored]
  | succ n ih => intro s; simp [commitStored, ih]; omega

/-- the token section of a fixed / dynamic block -/
theorem decToks_block (P : Pred H) (plain : Array Nat) (s0 : PState H) (ts : List Token) (last : Bool)
    (hc : s0.count = 0) (hv : ValidToks plain s0.pos ts)
    (hlast : last = true → toksEnd s0.pos ts = plain.size)
    (tokOps : List Op) (s' : PState H) (he : encToks P plain s0 ts = .ok (tokOps, s')) (rest : List Op)
    (tcv bsz : Nat)
    (htc : tcv = if (!last && ts.length ≠ P.maxTokenCount) || ts.length > P.maxTokenCount
                 then ts.length + 1 else 0)
    (hbs : bsz = if tcv = 0 then P.maxTokenCount else tcv - 1) :
    decToks P plain bsz (bsz + 1) s0 (tokOps ++ rest) = .ok (ts, rest, s') := by
  obtain ⟨hp, hcnt⟩ := encToks_state P plain ts s0 tokOps s' he
  rw [hc] at hcnt
  by_cases hcond : ((!last && ts.length ≠ P.maxTokenCount) || ts.length > P.maxTokenCount) = true
  · rw [if_pos hcond] at htc
    have hb : bsz = ts.length := by rw [hbs, htc]; simp
    subst hb
    apply decToks_encToks P plain _ ts s0 tokOps s' _ rest hv he
    · omega
    · omega
    · simp [hcnt]
  · rw [if_neg hcond] at htc
    have hb : bsz = P.maxTokenCount := by rw [hbs, htc]; simp
    subst hb
    simp at hcond
    obtain ⟨h1, h2⟩ := hcond
    apply decToks_encToks P plain _ ts s0 tokOps s' _ rest hv he
    · omega
    · omega
    · cases last with
      | true =>
        have := hlast rfl
        simp [PState.eof, hp, this]
      | false =>
        have := h1 rfl
        simp [hcnt, this]

theorem tc_ite (last : Bool) (n m : Nat) :
    (if (!last && decide (n ≠ m) || decide (n > m)) = true then
        Op.corr C_TOKEN_COUNT (n + 1) else Op.corr C_TOKEN_COUNT 0) =
    Op.corr C_TOKEN_COUNT (if ((!last && n ≠ m) || n > m) then n + 1 else 0) := by
  split <;> rfl

/-- the common part of `encBlock` for fixed / dynamic blocks -/
def encTokBlock (P : Pred H) (plain : Array Nat) (s : PState H) (btn : Nat) (ts : List Token) (last : Bool)
    (tree : R (List Op)) : R (List Op × PState H) := do
  let n := ts.length
  if n ≥ 2 ^ 32 then throw (.panic "predict_block: u32::try_from(tokens.len())")
  let tc := if (!last && n ≠ P.maxTokenCount) || n > P.maxTokenCount
            then Op.corr C_TOKEN_COUNT (n + 1) else Op.corr C_TOKEN_COUNT 0
  let (tokOps, s) ← encToks P plain s ts
  let treeOps ← tree
  .ok (Op.corr C_BLOCK_TYPE (encDiff 0 btn) :: tc :: tokOps ++ treeOps, s)

theorem encBlock_fixed (P : Pred H) (plain : Array Nat) (s : PState H) (ts : List Token) (last : Bool) :
    encBlock P plain s (.fixed ts) last =
      encTokBlock P plain { s with count := 0, pending := none } 2 ts last (pure []) := rfl

theorem encBlock_dynamic (P : Pred H) (plain : Array Nat) (s : PState H) (h : Header) (ts : List Token)
    (last : Bool) :
    encBlock P plain s (.dynamic h ts) last =
      encTokBlock P plain { s with count := 0, pending := none } 0 ts last (encTree P h (blockFreq ts)) := rfl

/-- the common part of `decBlock` for fixed / dynamic blocks -/
def decTokBlock (P : Pred H) (plain : Array Nat) (s : PState H) (ops : List Op) :
    R (List Token × List Op × PState H) := do
  let (tc, ops) ← popCorr C_TOKEN_COUNT ops
  let blocksize := if tc = 0 then P.maxTokenCount else tc - 1
  decToks P plain blocksize (blocksize + 1) s ops

theorem encTokBlock_rt (P : Pred H) (plain : Array Nat) (s0 : PState H) (btn : Nat) (ts : List Token)
    (last : Bool) (tree : R (List Op)) (hc : s0.count = 0) (hv : ValidToks plain s0.pos ts)
    (hlast : last = true → toksEnd s0.pos ts = plain.size)
    (ops : List Op) (s' : PState H) (he : encTokBlock P plain s0 btn ts last tree = .ok (ops, s')) :
    ∃ ops' treeOps, ops = Op.corr C_BLOCK_TYPE (encDiff 0 btn) :: (ops' ++ treeOps) ∧ tree = .ok treeOps ∧
      s'.pos = toksEnd s0.pos ts ∧
      ∀ rest, decTokBlock P plain s0 (ops' ++ rest) = .ok (ts, rest, s') := by
  unfold encTokBlock at he
  by_cases hn : ts.length ≥ 2 ^ 32
  · simp [hn, bind, Except.bind, throw, throwThe, MonadExceptOf.throw] at he
  · simp only [hn, if_false, bind_eq_ok] at he
    obtain ⟨⟨tokOps, s1⟩, htok, treeOps, htree, he⟩ := he
    simp only [Except.ok.injEq, Prod.mk.injEq] at he
    obtain ⟨rfl, rfl⟩ := he
    obtain ⟨hp, _⟩ := encToks_state P plain ts _ tokOps s1 htok
    rw [tc_ite]
    refine ⟨_ :: tokOps, treeOps, rfl, htree, hp, ?_⟩
    intro rest
    have hdt := decToks_block P plain s0 ts last hc hv hlast tokOps s1 htok rest _ _ rfl rfl
    simp only [decTokBlock, List.cons_append, popCorr_cons, bind, Except.bind]
    exact hdt

theorem decBlock_tok (P : Pred H) (plain : Array Nat) (s : PState H) (bt : Nat) (ops : List Op)
    (h : bt = 2 ∨ bt = 0) :
    decBlock P plain s (Op.corr C_BLOCK_TYPE (encDiff 0 bt) :: ops) = (do
      let (ts, ops, s) ← decTokBlock P plain { s with count := 0, pending := none } ops
      if bt = 2 then .ok (.fixed ts, ops, s)
      else do
        let (h, ops) ← decTree P (blockFreq ts) ops
        .ok (.dynamic h ts, ops, s)) := by
  rcases h with rfl | rfl
  · simp only [decBlock, decTokBlock, popCorr_cons, decDiff_encDiff, bind, Except.bind]
    simp only [show ¬ (2 = 1) by omega, if_false, true_or, if_true]
    cases popCorr C_TOKEN_COUNT ops <;> rfl
  · simp only [decBlock, decTokBlock, popCorr_cons, decDiff_encDiff, bind, Except.bind]
    simp only [show ¬ (0 = 1) by omega, show ¬ (0 = 2) by omega, if_false, or_true, if_true]
    cases popCorr C_TOKEN_COUNT ops <;> rfl

theorem decBlock_encBlock (P : Pred H) (plain : Array Nat) (s : PState H) (b : Block) (last : Bool)
    (hv : ValidBlock plain s.pos b) (hlast : last = true → blockEnd s.pos b = plain.size)
    (ops : List Op) (s' : PState H) (he : encBlock P plain s b last = .ok (ops, s')) (rest : List Op) :
    decBlock P plain s (ops ++ rest) = .ok (b, rest, s') ∧ s'.pos = blockEnd s.pos b ∧ 1 ≤ ops.length := by
  cases b with
  | stored pad data =>
    obtain ⟨hpad, hlen, hsz, hdata⟩ := hv
    simp [encBlock] at he
    obtain ⟨rfl, rfl⟩ := he
    refine ⟨?_, by simp [commitStored_pos, blockEnd], by simp⟩
    have e1 : data.length % 65536 = data.length := Nat.mod_eq_of_lt hlen
    have e2 : pad % 256 = pad := Nat.mod_eq_of_lt hpad
    have e3 : ¬ (s.pos + data.length > plain.size) := by omega
    simp [decBlock, blockTypeNum, bind, Except.bind, decDiff_encDiff, e1, e2, e3]
    simpa using hdata.symm
  | fixed ts =>
    obtain ⟨hvt, hn⟩ := hv
    rw [encBlock_fixed] at he
    obtain ⟨ops', treeOps, rfl, htree, hp, hdec⟩ :=
      encTokBlock_rt P plain ⟨s.h, none, s.pos, 0⟩ 2 ts last _ rfl hvt hlast ops s' he
    simp [pure, Except.pure] at htree
    subst htree
    refine ⟨?_, by simpa [blockEnd] using hp, by simp⟩
    rw [List.cons_append, decBlock_tok _ _ _ _ _ (Or.inl rfl), List.append_nil, hdec rest]
    rfl
  | dynamic h ts =>
    obtain ⟨hvt, hn, hh⟩ := hv
    rw [encBlock_dynamic] at he
    obtain ⟨ops', treeOps, rfl, htree, hp, hdec⟩ :=
      encTokBlock_rt P plain ⟨s.h, none, s.pos, 0⟩ 0 ts last _ rfl hvt hlast ops s' he
    refine ⟨?_, by simpa [blockEnd] using hp, by simp⟩
    have htr := decTree_encTree P h hh (blockFreq ts) treeOps htree rest
    rw [List.cons_append, decBlock_tok _ _ _ _ _ (Or.inr rfl), List.append_assoc, hdec (treeOps ++ rest)]
    simp only [bind, Except.bind, htr]
    rfl

/-- `is_eof` check followed by the block loop (what `recreate_blocks` does after every block) -/
def decTail (P : Pred H) (plain : Array Nat) (fuel : Nat) (s : PState H) (ops : List Op) :
    R (List Block × List Op × PState H) := do
  let (isEof, ops) ← decIsEof plain s ops
  if isEof then .ok ([], ops, s) else decBlocks P plain fuel s ops

theorem decBlocks_succ (P : Pred H) (plain : Array Nat) (fuel : Nat) (s : PState H) (ops : List Op) :
    decBlocks P plain (fuel + 1) s ops = (do
      let (b, ops, s) ← decBlock P plain s ops
      let (r, ops, s) ← decTail P plain fuel s ops
      .ok (b :: r, ops, s)) := by
  simp only [decBlocks, decTail, bind, Except.bind]
  cases decBlock P plain s ops with
  | error e => rfl
  | ok v =>
    obtain ⟨b, ops1, s1⟩ := v
    simp only
    cases decIsEof plain s1 ops1 with
    | error e => rfl
    | ok w =>
      obtain ⟨isEof, ops2⟩ := w
      cases isEof <;> simp

theorem decIsEof_enc (plain : Array Nat) (s : PState H) (ops : List Op) :
    decIsEof plain s ((if s.eof plain then [Op.mis M_EOF true] else []) ++ ops) = .ok (false, ops) := by
  unfold decIsEof
  cases h : s.eof plain <;> simp [bind, Except.bind]

theorem decTail_encBlocks (P : Pred H) (plain : Array Nat) :
    ∀ (blocks : List Block) (s : PState H) (ops : List Op) (s' : PState H) (fuel : Nat),
    ValidBlocks plain s.pos blocks → blocksEnd s.pos blocks = plain.size →
    encBlocks P plain s blocks = .ok (ops, s') → ops.length < fuel →
    ∀ rest, decTail P plain fuel s (ops ++ Op.mis M_EOF false :: rest) = .ok (blocks, rest, s') := by
  intro blocks
  induction blocks with
  | nil =>
    intro s ops s' fuel _ hend he _ rest
    simp [encBlocks] at he
    obtain ⟨rfl, rfl⟩ := he
    have heof : s.eof plain = true := by simp [PState.eof, blocksEnd] at hend ⊢; omega
    simp [decTail, decIsEof, heof, bind, Except.bind]
  | cons b bs ih =>
    intro s ops s' fuel hv hend he hf rest
    obtain ⟨hvb, hvbs⟩ := hv
    simp only [encBlocks, bind_eq_ok] at he
    obtain ⟨⟨a, s1⟩, h1, ⟨r, s2⟩, h2, he⟩ := he
    simp only [Except.ok.injEq, Prod.mk.injEq] at he
    obtain ⟨rfl, rfl⟩ := he
    have hlast : bs.isEmpty = true → blockEnd s.pos b = plain.size := by
      intro hb
      have : bs = [] := by simpa using hb
      subst this
      simpa [blocksEnd] using hend
    obtain ⟨hdb, hp1, hlen⟩ :=
      decBlock_encBlock P plain s b bs.isEmpty hvb hlast a s1 h1 (r ++ Op.mis M_EOF false :: rest)
    obtain ⟨f, rfl⟩ : ∃ f, fuel = f + 1 := ⟨fuel - 1, by omega⟩
    have hrec := ih s1 r s2 f (by rw [hp1]; exact hvbs) (by rw [hp1]; simpa [blocksEnd] using hend) h2
      (by simp at hf; omega) rest
    simp only [decTail, List.append_assoc, decIsEof_enc, bind, Except.bind, Bool.false_eq_true, if_false]
    rw [decBlocks_succ]
    simp only [bind, Except.bind, hdb, hrec]

end Preflate.Proofs
