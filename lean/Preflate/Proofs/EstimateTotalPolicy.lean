/- Panic-freedom of the full parameter estimator, part 2 of 4: what `estimate_add_policy` guarantees.
   The window of u16 marks mirrors, for the last 32768 positions, whether a position is the first /
   an interior / the last byte of a match (`tokMark`); the statistics dominate the mark of every
   referenced position (`RefsGood`), so the chosen policy inserts every referenced position
   (`RefsIns`, `addPolicy_refsIns`). -/
import Preflate.Proofs.EstimateTotalBase
namespace Preflate.Proofs.EstTotal
open Preflate Preflate.Est

/-! ### the token stream of a block list -/

/-- all blocks as one token list (stored bytes as literals) -/
def flat : List Block → List Token
  | [] => []
  | .stored _ data :: bs => data.map Token.lit ++ flat bs
  | .fixed ts :: bs => ts ++ flat bs
  | .dynamic _ ts :: bs => ts ++ flat bs

/-- the part of `ValidToks` the estimators rely on -/
def VToks (plain : Array Nat) : Nat → List Token → Prop
  | _, [] => True
  | p, .lit _ :: ts => p < plain.size ∧ VToks plain (p + 1) ts
  | p, .ref len dist _ :: ts =>
      (3 ≤ len ∧ len ≤ 258 ∧ 1 ≤ dist ∧ dist ≤ p ∧ dist ≤ 32768 ∧ p + len ≤ plain.size ∧
        matchAt plain p len dist = true) ∧ VToks plain (p + len) ts

theorem VToks_of_valid (plain : Array Nat) : ∀ (ts : List Token) (p : Nat),
    ValidToks plain p ts → VToks plain p ts := by
  intro ts
  induction ts with
  | nil => intro _ _; trivial
  | cons t ts ih =>
    intro p h
    obtain ⟨ht, hr⟩ := h
    cases t with
    | lit b => exact ⟨ht.1, ih _ hr⟩
    | ref len dist irr =>
      obtain ⟨h1, h2, h3, h4, h5, h6, h7, _⟩ := ht
      exact ⟨⟨h1, h2, h3, h4, h5, h6, h7⟩, ih _ hr⟩

theorem VToks_append (plain : Array Nat) : ∀ (a b : List Token) (p : Nat),
    VToks plain p a → VToks plain (toksEnd p a) b → VToks plain p (a ++ b) := by
  intro a
  induction a with
  | nil => intro b p _ h; exact h
  | cons t ts ih =>
    intro b p ha hb
    cases t with
    | lit x => exact ⟨ha.1, ih b _ ha.2 hb⟩
    | ref len dist irr => exact ⟨ha.1, ih b _ ha.2 hb⟩

theorem VToks_lits (plain : Array Nat) : ∀ (data : List Nat) (p : Nat), p + data.length ≤ plain.size →
    VToks plain p (data.map Token.lit) ∧ toksEnd p (data.map Token.lit) = p + data.length := by
  intro data
  induction data with
  | nil => intro p _; exact ⟨trivial, rfl⟩
  | cons d ds ih =>
    intro p h
    simp only [List.length_cons] at h
    obtain ⟨h1, h2⟩ := ih (p + 1) (by omega)
    refine ⟨⟨by omega, h1⟩, ?_⟩
    simp only [List.map_cons, toksEnd, tokenLen, h2, List.length_cons]
    omega

theorem toksEnd_append : ∀ (a b : List Token) (p : Nat), toksEnd p (a ++ b) = toksEnd (toksEnd p a) b := by
  intro a
  induction a with
  | nil => intro _ _; rfl
  | cons t ts ih => intro b p; exact ih b _

theorem VToks_flat (plain : Array Nat) : ∀ (bs : List Block) (p : Nat), ValidBlocks plain p bs →
    VToks plain p (flat bs) ∧ toksEnd p (flat bs) = blocksEnd p bs := by
  intro bs
  induction bs with
  | nil => intro p _; exact ⟨trivial, rfl⟩
  | cons b bs ih =>
    intro p h
    obtain ⟨hb, hr⟩ := h
    cases b with
    | stored pad data =>
      obtain ⟨_, _, h3, _⟩ := hb
      obtain ⟨h1, h2⟩ := VToks_lits plain data p h3
      obtain ⟨i1, i2⟩ := ih _ hr
      simp only [blockEnd] at i1 i2
      refine ⟨VToks_append plain _ _ p h1 (by rw [h2]; exact i1), ?_⟩
      simp only [flat, toksEnd_append, h2, blocksEnd, blockEnd, i2]
    | fixed ts =>
      obtain ⟨i1, i2⟩ := ih _ hr
      simp only [blockEnd] at i1 i2
      refine ⟨VToks_append plain _ _ p (VToks_of_valid plain ts p hb.1) i1, ?_⟩
      simp only [flat, toksEnd_append, blocksEnd, blockEnd, i2]
    | dynamic hd ts =>
      obtain ⟨i1, i2⟩ := ih _ hr
      simp only [blockEnd] at i1 i2
      refine ⟨VToks_append plain _ _ p (VToks_of_valid plain ts p hb.1) i1, ?_⟩
      simp only [flat, toksEnd_append, blocksEnd, blockEnd, i2]

/-! ### marks -/

/-- the mark `estimate_add_policy` leaves in its window for byte `i` of a token at `p` -/
def tokMark (p : Nat) : Token → Nat → Nat
  | .lit _, _ => 0
  | .ref len _ _, i =>
      if i = 0 then 0
      else (len % 65536) ||| (if i = len - 1 then (LAST_ADDED ||| (if is32k len p then LAST_32K else 0)) else 0)

/-- `M` gives the mark of every position of the tokens `ts` starting at `p` -/
def MarksAgree (M : Nat → Nat) : Nat → List Token → Prop
  | _, [] => True
  | p, t :: ts => (∀ i, i < tokenLen t → M (p + i) = tokMark p t i) ∧ MarksAgree M (p + tokenLen t) ts

def markAt : Nat → List Token → Nat → Nat
  | _, [], _ => 0
  | p, t :: ts, q => if q < p + tokenLen t then tokMark p t (q - p) else markAt (p + tokenLen t) ts q

theorem marksAgree_markAt (M : Nat → Nat) : ∀ (ts : List Token) (p : Nat),
    (∀ q, p ≤ q → M q = markAt p ts q) → MarksAgree M p ts := by
  intro ts
  induction ts with
  | nil => intro _ _; trivial
  | cons t ts ih =>
    intro p h
    refine ⟨?_, ih _ ?_⟩
    · intro i hi
      rw [h (p + i) (by omega)]
      simp only [markAt]
      rw [if_pos (by omega)]
      congr 1; omega
    · intro q hq
      rw [h q (by omega)]
      simp only [markAt]
      rw [if_neg (by omega)]

theorem marksAgree_exists (ts : List Token) : MarksAgree (markAt 0 ts) 0 ts :=
  marksAgree_markAt _ ts 0 (fun _ _ => rfl)

/-! ### the window invariant -/

structure WInv (s : AddState) (M : Nat → Nat) : Prop where
  size : s.window.size = 32768
  win : ∀ q, q < s.offset → s.offset ≤ q + 32768 → s.window[q % 32768]! = M q

structure StatsLe (s s' : AddState) : Prop where
  ml : s.maxLength ≤ s'.maxLength
  mla : s.maxLengthLastAdd ≤ s'.maxLengthLastAdd
  lo : s.lastOutside32k = true → s'.lastOutside32k = true
  b4 : s.block4k = false → s'.block4k = false

theorem StatsLe.refl (s : AddState) : StatsLe s s := ⟨Nat.le_refl _, Nat.le_refl _, id, id⟩

theorem StatsLe.trans {a b c : AddState} (h1 : StatsLe a b) (h2 : StatsLe b c) : StatsLe a c :=
  ⟨Nat.le_trans h1.ml h2.ml, Nat.le_trans h1.mla h2.mla, fun h => h2.lo (h1.lo h), fun h => h2.b4 (h1.b4 h)⟩

/-- the statistics of `st` account for a reference at `p` to a position with mark `m` -/
def RefCond (st : AddState) (m p : Nat) : Prop :=
  m &&& 0x0fff ≤ st.maxLength ∧
  (m &&& LAST_ADDED = 0 → m &&& 0x0fff ≤ st.maxLengthLastAdd) ∧
  (m &&& 0x0fff ≠ 0 ∧ m &&& LAST_32K = 0 → st.lastOutside32k = true) ∧
  ((p &&& 4095) ≥ 4093 → st.block4k = false)

theorem RefCond.mono {s s' : AddState} (h : StatsLe s s') {m p : Nat} (hc : RefCond s m p) : RefCond s' m p :=
  ⟨Nat.le_trans hc.1 h.ml, fun hh => Nat.le_trans (hc.2.1 hh) h.mla, fun hh => h.lo (hc.2.2.1 hh),
    fun hh => h.b4 (hc.2.2.2 hh)⟩

def RefsGood (M : Nat → Nat) (st : AddState) : Nat → List Token → Prop
  | _, [] => True
  | p, .lit _ :: ts => RefsGood M st (p + 1) ts
  | p, .ref len dist _ :: ts => RefCond st (M (p - dist)) p ∧ RefsGood M st (p + len) ts

theorem RefsGood.mono (M : Nat → Nat) {s s' : AddState} (h : StatsLe s s') : ∀ (ts : List Token) (p : Nat),
    RefsGood M s p ts → RefsGood M s' p ts := by
  intro ts
  induction ts with
  | nil => intro _ _; trivial
  | cons t ts ih =>
    intro p hg
    cases t with
    | lit b => exact ih _ hg
    | ref len dist irr => exact ⟨hg.1.mono h, ih _ hg.2⟩

theorem addLiteral_winv (s : AddState) (M : Nat → Nat) (h : WInv s M) (hm : M s.offset = 0) :
    WInv (addLiteral s) M := by
  refine ⟨?_, ?_⟩
  · simp only [addLiteral, size_set!]; exact h.size
  · intro q hq1 hq2
    simp only [addLiteral] at hq1 hq2 ⊢
    rw [and_7fff, get_set!]
    by_cases hq : q = s.offset
    · subst hq
      rw [if_pos ⟨rfl, by rw [h.size]; omega⟩, hm]
    · rw [if_neg (by intro hh; omega)]
      exact h.win q (by omega) (by omega)

/-- the window after the marking loop of a reference -/
theorem fold_marks (off : Nat) (val : Nat → Nat) (w0 : Array Nat) (hw : w0.size = 32768) :
    ∀ n, n < 32768 →
      ((List.range n).foldl (fun (w : Array Nat) k => w.set! ((off + (k + 1)) &&& 0x7fff) (val (k + 1))) w0).size = 32768 ∧
      (∀ i, 1 ≤ i → i ≤ n →
        ((List.range n).foldl (fun (w : Array Nat) k => w.set! ((off + (k + 1)) &&& 0x7fff) (val (k + 1))) w0)[(off + i) % 32768]! = val i) ∧
      (∀ x, (∀ i, 1 ≤ i → i ≤ n → x ≠ (off + i) % 32768) →
        ((List.range n).foldl (fun (w : Array Nat) k => w.set! ((off + (k + 1)) &&& 0x7fff) (val (k + 1))) w0)[x]! = w0[x]!) := by
  intro n
  induction n with
  | zero =>
    intro _
    refine ⟨hw, ?_, ?_⟩
    · intro i h1 h2; omega
    · intro x _; rfl
  | succ n ih =>
    intro hn
    obtain ⟨i1, i2, i3⟩ := ih (by omega)
    rw [List.range_succ, List.foldl_append]
    simp only [List.foldl_cons, List.foldl_nil]
    refine ⟨by rw [size_set!]; exact i1, ?_, ?_⟩
    · intro i h1 h2
      rw [and_7fff, get_set!]
      by_cases hi : i = n + 1
      · subst hi
        rw [if_pos ⟨rfl, by rw [i1]; omega⟩]
      · rw [if_neg (by intro hh; omega)]
        exact i2 i h1 (by omega)
    · intro x hx
      rw [and_7fff, get_set!]
      rw [if_neg (by intro hh; exact hx (n + 1) (by omega) (by omega) hh.1.symm)]
      exact i3 x (fun i h1 h2 => hx i h1 (by omega))

theorem addReference_spec (s : AddState) (M : Nat → Nat) (len dist : Nat) (irr : Bool) (h : WInv s M)
    (hd1 : 1 ≤ dist) (hd2 : dist ≤ s.offset) (hd3 : dist ≤ 32768) (hl1 : 1 ≤ len) (hl : len ≤ 258)
    (hm : ∀ i, i < len → M (s.offset + i) = tokMark s.offset (.ref len dist irr) i) :
    ∃ s', addReference s len dist = .ok s' ∧ s'.offset = s.offset + len ∧ WInv s' M ∧ StatsLe s s' ∧
      RefCond s' (M (s.offset - dist)) s.offset := by
  unfold addReference
  rw [if_neg (by omega)]
  refine ⟨_, rfl, rfl, ?_, ?_, ?_⟩
  · -- window
    have hw0 : (s.window.set! (s.offset &&& 0x7fff) 0).size = 32768 := by rw [size_set!]; exact h.size
    obtain ⟨f1, f2, f3⟩ := fold_marks s.offset
      (fun i => (len % 65536) ||| (if i = len - 1 then (LAST_ADDED ||| (if is32k len s.offset then LAST_32K else 0)) else 0))
      (s.window.set! (s.offset &&& 0x7fff) 0) hw0 (len - 1) (by omega)
    refine ⟨f1, ?_⟩
    intro q hq1 hq2
    simp only at hq1 hq2 ⊢
    by_cases hq : q < s.offset
    · rw [f3 (q % 32768) (by intro i h1 h2; omega)]
      rw [and_7fff, get_set!_ne _ _ _ _ (by omega)]
      exact h.win q hq (by omega)
    · by_cases hq0 : q = s.offset
      · subst hq0
        rw [f3 (s.offset % 32768) (by intro i h1 h2; omega)]
        rw [and_7fff, get_set!_eq _ _ _ (by rw [h.size]; omega)]
        have := hm 0 (by omega)
        simp only [Nat.add_zero, tokMark, if_true] at this
        exact this.symm
      · obtain ⟨i, rfl⟩ : ∃ i, q = s.offset + i := ⟨q - s.offset, by omega⟩
        rw [f2 i (by omega) (by omega), hm i (by omega)]
        simp only [tokMark]
        rw [if_neg (show ¬ i = 0 by omega)]
  · exact ⟨Nat.le_max_left _ _, by simp only; split <;> omega, by simp only; intro hh; split <;> simp_all,
      by simp only; intro hh; split <;> simp_all⟩
  · have hprev : s.window.getD ((s.offset - dist) &&& 0x7fff) 0 = M (s.offset - dist) := by
      rw [getD_eq_get!, and_7fff]
      exact h.win _ (by omega) (by omega)
    simp only [RefCond, hprev]
    refine ⟨Nat.le_max_right _ _, ?_, ?_, ?_⟩
    · intro hh; rw [if_pos hh]; exact Nat.le_max_right _ _
    · intro hh; rw [if_pos hh]
    · intro hh; rw [if_pos hh]

theorem addTokens_spec (plain : Array Nat) (M : Nat → Nat) : ∀ (ts : List Token) (s : AddState) (p : Nat),
    s.offset = p → VToks plain p ts → MarksAgree M p ts → WInv s M →
    ∃ s', addTokens s ts = .ok s' ∧ WInv s' M ∧ StatsLe s s' ∧ RefsGood M s' p ts := by
  intro ts
  induction ts with
  | nil => intro s p _ _ _ hw; exact ⟨s, rfl, hw, StatsLe.refl s, trivial⟩
  | cons t ts ih =>
    intro s p hs hv hm hw
    cases t with
    | lit b =>
      have hm0 := hm.1 0 (by simp [tokenLen])
      simp only [Nat.add_zero, tokMark] at hm0
      obtain ⟨s', h1, h2, h3, h4⟩ := ih (addLiteral s) (p + 1) (by rw [addLiteral_offset, hs]) hv.2 hm.2
        (addLiteral_winv s M hw (by rw [hs]; exact hm0))
      refine ⟨s', by simp only [addTokens]; exact h1, h2, ?_, h4⟩
      exact StatsLe.trans (⟨Nat.le_refl _, Nat.le_refl _, id, id⟩ : StatsLe s (addLiteral s)) h3
    | ref len dist irr =>
      obtain ⟨⟨v1, v2, v3, v4, v5, v6, v7⟩, hvr⟩ := hv
      subst hs
      obtain ⟨s1, r1, r2, r3, r4, r5⟩ := addReference_spec s M len dist irr hw v3 v4 v5 (by omega) v2 hm.1
      obtain ⟨s', h1, h2, h3, h4⟩ := ih s1 (s.offset + len) r2 hvr hm.2 r3
      refine ⟨s', by simp only [addTokens, r1, ok_bind]; exact h1, h2, StatsLe.trans r4 h3, ?_, h4⟩
      exact r5.mono h3

/-! ### what the chosen policy inserts -/

/-- policy `pol` / `lim` inserts a position whose mark is `m` (positions with mark 0 are the first
    byte of a token; for policy 3 see `RefsIns`) -/
def PolIns (pol lim m : Nat) : Prop :=
  match pol with
  | 0 => True
  | 1 => m &&& 0x0fff ≤ lim
  | 2 => m &&& 0x0fff ≤ lim ∨ m &&& LAST_ADDED ≠ 0
  | 3 => m &&& 0x0fff = 0
  | _ => m &&& 0x0fff = 0 ∨ m &&& LAST_32K ≠ 0

/-- every referenced position is one the policy inserts; under policy 3 no reference starts in the
    last three bytes of a 4 KiB block -/
def RefsIns (M : Nat → Nat) (pol lim : Nat) : Nat → List Token → Prop
  | _, [] => True
  | p, .lit _ :: ts => RefsIns M pol lim (p + 1) ts
  | p, .ref len dist _ :: ts =>
      (PolIns pol lim (M (p - dist)) ∧ (pol = 3 → (p &&& 4095) < 4093)) ∧ RefsIns M pol lim (p + len) ts

theorem refCond_polIns (st : AddState) (pol lim m p : Nat) (hd : addDecide st = (pol, lim))
    (hc : RefCond st m p) : PolIns pol lim m ∧ (pol = 3 → (p &&& 4095) < 4093) := by
  obtain ⟨c1, c2, c3, c4⟩ := hc
  unfold addDecide at hd
  split at hd
  · rename_i h
    injection hd with e1 e2; subst e1; subst e2
    refine ⟨?_, fun _ => ?_⟩
    · show m &&& 0x0fff = 0
      omega
    · by_cases hh : (p &&& 4095) ≥ 4093
      · have := c4 hh; rw [h.2] at this; cases this
      · omega
  · split at hd
    · rename_i h
      injection hd with e1 e2; subst e1; subst e2
      refine ⟨?_, fun hh => by cases hh⟩
      show m &&& 0x0fff = 0 ∨ m &&& LAST_32K ≠ 0
      by_cases h1 : m &&& 0x0fff = 0
      · exact Or.inl h1
      · by_cases h2 : m &&& LAST_32K = 0
        · have := c3 ⟨h1, h2⟩; rw [this] at h; cases h
        · exact Or.inr h2
    · split at hd
      · injection hd with e1 e2; subst e1; subst e2
        refine ⟨?_, fun hh => by cases hh⟩
        show m &&& 0x0fff ≤ st.maxLengthLastAdd ∨ m &&& LAST_ADDED ≠ 0
        by_cases h2 : m &&& LAST_ADDED = 0
        · exact Or.inl (c2 h2)
        · exact Or.inr h2
      · split at hd
        · injection hd with e1 e2; subst e1; subst e2
          exact ⟨c1, fun hh => by cases hh⟩
        · injection hd with e1 e2; subst e1; subst e2
          exact ⟨trivial, fun hh => by cases hh⟩

theorem refsGood_refsIns (M : Nat → Nat) (st : AddState) (pol lim : Nat) (hd : addDecide st = (pol, lim)) :
    ∀ (ts : List Token) (p : Nat), RefsGood M st p ts → RefsIns M pol lim p ts := by
  intro ts
  induction ts with
  | nil => intro _ _; trivial
  | cons t ts ih =>
    intro p hg
    cases t with
    | lit b => exact ih _ hg
    | ref len dist irr => exact ⟨refCond_polIns st pol lim _ p hd hg.1, ih _ hg.2⟩

/-! ### `addBlocks` runs over the flattened stream -/

theorem addTokens_append : ∀ (a b : List Token) (s : AddState),
    addTokens s (a ++ b) = (addTokens s a >>= fun s => addTokens s b) := by
  intro a
  induction a with
  | nil => intro _ _; rfl
  | cons t ts ih =>
    intro b s
    cases t with
    | lit x => simp only [List.cons_append, addTokens]; exact ih b _
    | ref len dist irr =>
      simp only [List.cons_append, addTokens]
      cases addReference s len dist with
      | error e => rfl
      | ok s1 => simp only [ok_bind]; exact ih b s1

theorem addTokens_lits : ∀ (data : List Nat) (s : AddState),
    addTokens s (data.map Token.lit) = .ok (data.foldl (fun s _ => addLiteral s) s) := by
  intro data
  induction data with
  | nil => intro _; rfl
  | cons d ds ih => intro s; simp only [List.map_cons, addTokens, List.foldl_cons]; exact ih _

theorem addBlocks_flat : ∀ (bs : List Block) (s : AddState), addBlocks s bs = addTokens s (flat bs) := by
  intro bs
  induction bs with
  | nil => intro _; rfl
  | cons b bs ih =>
    intro s
    cases b with
    | stored pad data =>
      simp only [addBlocks, flat, addTokens_append, addTokens_lits, ok_bind]; exact ih _
    | fixed ts =>
      simp only [addBlocks, flat, addTokens_append]
      cases addTokens s ts with
      | error e => rfl
      | ok s1 => simp only [ok_bind]; exact ih _
    | dynamic hd ts =>
      simp only [addBlocks, flat, addTokens_append]
      cases addTokens s ts with
      | error e => rfl
      | ok s1 => simp only [ok_bind]; exact ih _

/-- the add policy the estimator chooses inserts every position a reference of the stream points to -/
theorem addPolicy_refsIns (plain : Array Nat) (blocks : List Block) (hv : ValidBlocks plain 0 blocks)
    (pol lim : Nat) (hp : addPolicy blocks = .ok (pol, lim)) :
    RefsIns (markAt 0 (flat blocks)) pol lim 0 (flat blocks) := by
  rw [addPolicy_eq, addBlocks_flat] at hp
  have hw : WInv { window := Array.replicate 32768 0 } (markAt 0 (flat blocks)) :=
    ⟨by simp, fun q hq _ => by simp only at hq; omega⟩
  obtain ⟨s', h1, _, _, h4⟩ := addTokens_spec plain (markAt 0 (flat blocks)) (flat blocks)
    { window := Array.replicate 32768 0 } 0 rfl (VToks_flat plain blocks 0 hv).1 (marksAgree_exists _) hw
  rw [h1, ok_bind] at hp
  injection hp with hp
  exact refsGood_refsIns _ s' pol lim hp _ 0 h4

end Preflate.Proofs.EstTotal
