/-
`parse_valid`, tokens and blocks: what `decodeTokens` / `readBlock` / `readBlocks` return is a valid
LZ77 expansion of the plaintext they build.
-/
import Preflate.Proofs.Total
import Preflate.Proofs.ExpandsHeader
namespace Preflate.Proofs
open Preflate Preflate.Gen
set_option linter.unusedSimpArgs false

theorem decodeSym_lt {l : List Nat} {bs : Bits} {s : Nat} {rest : Bits}
    (h : decodeSym (codeTable l) bs = .ok (s, rest)) : rest.length < bs.length := by
  have := decodeSym_post' l bs
  rw [h] at this
  have := Post.ok_iff.mp this
  exact this

theorem decodeSym_le {t : List (Bits × Nat)} {bs : Bits} {s : Nat} {rest : Bits}
    (h : decodeSym t bs = .ok (s, rest)) : rest.length ≤ bs.length := by
  have := decodeSym_post t bs
  rw [h] at this
  have := Post.ok_iff.mp this
  exact this

theorem readBits_len {n : Nat} {bs : Bits} {v : Nat} {rest : Bits}
    (h : readBits n bs = .ok (v, rest)) : rest.length + n = bs.length := by
  have := readBits_post n bs
  rw [h] at this
  have := Post.ok_iff.mp this
  exact this

theorem decodeTokens_valid (ll : List Nat) (dt : List (Bits × Nat)) {fuel : Nat} {plain : Array Nat}
    {bs : Bits} {ts : List Token} {plain' : Array Nat} {rest : Bits}
    (h : decodeTokens (codeTable ll) dt fuel plain bs = .ok (ts, plain', rest)) :
    Extends plain plain' ∧ plain'.size = toksEnd plain.size ts ∧ ValidToks plain' plain.size ts ∧
      ts.length < bs.length := by
  induction fuel generalizing plain bs ts with
  | zero => simp [decodeTokens] at h
  | succ fuel ih =>
    rw [decodeTokens] at h
    rw [if_neg (fun hc => by rw [if_pos hc] at h; cases h)] at h
    simp only [bind_eq_ok] at h
    obtain ⟨⟨sym, bs1⟩, h1, h⟩ := h
    simp only at h
    have hl1 := decodeSym_lt h1
    split at h
    · rename_i hsym
      simp only [bind_eq_ok] at h
      obtain ⟨⟨ts', pl, bs2⟩, h2, h⟩ := h
      simp only [Except.ok.injEq, Prod.mk.injEq] at h
      obtain ⟨rfl, rfl, rfl⟩ := h
      obtain ⟨he, hsz, hv, hlen⟩ := ih h2
      have hsz1 : (plain.push sym).size = plain.size + 1 := by simp
      rw [hsz1] at hsz hv
      refine ⟨(extends_push _ _).trans he, by simpa [toksEnd, tokenLen] using hsz,
        ⟨?_, by simpa [tokenLen] using hv⟩, by simp only [List.length_cons]; omega⟩
      apply validTok_mono he
      exact ⟨by omega, (getD_push_eq _ _).symm⟩
    · split at h
      · simp only [Except.ok.injEq, Prod.mk.injEq] at h
        obtain ⟨rfl, rfl, rfl⟩ := h
        exact ⟨Extends.refl _, rfl, trivial, by simp only [List.length_nil]; omega⟩
      · split at h
        · simp only [throw_bind_eq_ok] at h
        · simp only [bind_eq_ok] at h
          obtain ⟨⟨ex, bs2⟩, h2, h⟩ := h
          simp only [bind_eq_ok] at h
          obtain ⟨⟨dc, bs3⟩, h3, h⟩ := h
          simp only at h
          split at h
          · simp only [throw_bind_eq_ok] at h
          · simp only [bind_eq_ok] at h
            obtain ⟨⟨dx, bs4⟩, h4, h⟩ := h
            simp only at h
            split at h
            · simp only [throw_bind_eq_ok] at h
            · simp only [bind_eq_ok] at h
              obtain ⟨⟨ts', pl, bs5⟩, h5, h⟩ := h
              simp only [Except.ok.injEq, Prod.mk.injEq] at h
              obtain ⟨rfl, rfl, rfl⟩ := h
              obtain ⟨he, hsz, hv, hlen⟩ := ih h5
              obtain ⟨e2, hex⟩ := readBits_ok h2
              obtain ⟨e4, hdx⟩ := readBits_ok h4
              have hl2 := readBits_len h2
              have hl3 := decodeSym_le h3
              have hl4 := readBits_len h4
              rename_i hn1 hn2 hc hdc' hpl
              simp only [NONLEN_CODE_COUNT, LEN_CODE_COUNT, DIST_CODE_COUNT, MIN_MATCH, ge_iff_le,
                Nat.not_le, gt_iff_lt, Nat.not_lt] at *
              have hlb := length_bound _ hc
              have hdb := dist_bound _ hdc'
              obtain ⟨c1, c2, c3⟩ := copyRef_spec (1 + distBase dc + dx)
                (3 + lengthBase (sym - 257) + ex) plain
              rw [c1] at hsz hv
              refine ⟨c2.trans he, by simpa [toksEnd, tokenLen] using hsz,
                ⟨?_, by simpa [tokenLen] using hv⟩, by simp only [List.length_cons]; omega⟩
              apply validTok_mono he
              refine ⟨by omega, by omega, by omega, hpl, by omega, by omega,
                matchAt_copyRef _ _ _ (by omega) hpl, ?_⟩
              intro hirr
              simp only [Bool.and_eq_true, beq_iff_eq] at hirr
              exact hirr.1

-- ---------------------------------------------------------------------------------------------
-- blocks

theorem readBlock_lt {plain : Array Nat} {bs : Bits} {last : Bool} {b : Block} {plain' : Array Nat}
    {rest : Bits} (h : readBlock plain bs = .ok (last, b, plain', rest)) : rest.length < bs.length := by
  have := readBlock_post plain bs
  rw [h] at this
  have := Post.ok_iff.mp this
  exact this

theorem readHeader_le {bs : Bits} {h : Header} {rest : Bits} (hr : readHeader bs = .ok (h, rest)) :
    rest.length ≤ bs.length := by
  have := readHeader_post bs
  rw [hr] at this
  have := Post.ok_iff.mp this
  exact this.1

theorem stored_data_eq (plain : Array Nat) (data : List Nat) :
    data = (List.range data.length).map fun i => (pushAll plain data).getD (plain.size + i) 0 := by
  obtain ⟨_, _, h3⟩ := pushAll_spec data plain
  apply List.ext_getElem
  · simp
  · intro i h1 h2
    simp only [List.getElem_map, List.getElem_range]
    rw [h3 i h1]
    simp [List.getD, List.getElem?_eq_getElem h1]

/-- NOTE the token-count condition: `ValidBlock` demands that a block's token count fits the `u32`
    of the token-count correction (`u32::try_from(tokens.len()).unwrap() + 1`), and the only bound
    the parser itself gives is one token per input bit -/
theorem readBlock_valid {plain : Array Nat} {bs : Bits} {last : Bool} {b : Block} {plain' : Array Nat}
    {rest : Bits} (h : readBlock plain bs = .ok (last, b, plain', rest)) :
    Extends plain plain' ∧ plain'.size = blockEnd plain.size b ∧
      ((blockTokens b).length < 2 ^ 32 - 1 → ValidBlock plain' plain.size b) ∧
      (blockTokens b).length < bs.length := by
  rw [readBlock] at h
  simp only [bind_eq_ok] at h
  obtain ⟨⟨lastN, bs1⟩, h1, ⟨mode, bs2⟩, h2, h⟩ := h
  simp only at h2 h
  have hl1 := readBits_len h1
  have hl2 := readBits_len h2
  split at h
  · -- stored
    simp only [bind_eq_ok] at h
    obtain ⟨⟨pad, bs3⟩, h3, ⟨len, bs4⟩, h4, ⟨ilen, bs5⟩, h5, h⟩ := h
    simp only at h4 h5 h
    split at h
    · simp only [throw_bind_eq_ok] at h
    · split at h
      · simp only [throw_bind_eq_ok] at h
      simp only [bind_eq_ok] at h
      obtain ⟨⟨data, bs6⟩, h6, h⟩ := h
      simp only [Except.ok.injEq, Prod.mk.injEq] at h
      obtain ⟨_, rfl, rfl, rfl⟩ := h
      obtain ⟨_, hpad⟩ := readBits_ok h3
      obtain ⟨_, hlen16⟩ := readBits_ok h4
      obtain ⟨_, hdl⟩ := readBytes_ok h6
      have hp : (2:Nat) ^ 16 = 65536 := by decide
      rw [hp] at hlen16
      have hpad' : pad < 256 := by
        have : (2:Nat) ^ (bs2.length % 8) ≤ 2 ^ 7 := Nat.pow_le_pow_right (by omega) (by omega)
        have : (2:Nat) ^ 7 = 128 := by decide
        omega
      obtain ⟨p1, p2, _⟩ := pushAll_spec data plain
      exact ⟨p2, by simpa [blockEnd] using p1,
        fun _ => ⟨hpad', by omega, by omega, stored_data_eq plain data⟩,
        by simp only [blockTokens, List.length_nil]; omega⟩
  · split at h
    · -- fixed
      simp only [bind_eq_ok] at h
      obtain ⟨lt, h3, dt, h4, ⟨ts, pl, bs3⟩, h5, h⟩ := h
      simp only [Except.ok.injEq, Prod.mk.injEq] at h
      obtain ⟨_, rfl, rfl, rfl⟩ := h
      rw [mkTable_ok h3] at h5
      obtain ⟨e1, e2, e3, e4⟩ := decodeTokens_valid _ _ h5
      exact ⟨e1, by simpa [blockEnd] using e2, fun hn => ⟨e3, hn⟩,
        by simp only [blockTokens]; omega⟩
    · split at h
      · -- dynamic
        simp only [bind_eq_ok] at h
        obtain ⟨⟨hd, bs3⟩, h3, ⟨ll, dl⟩, h4, lt, h5, dt, h6, ⟨ts, pl, bs4⟩, h7, h⟩ := h
        simp only [Except.ok.injEq, Prod.mk.injEq] at h4 h5 h6 h7 h
        obtain ⟨_, rfl, rfl, rfl⟩ := h
        rw [mkTable_ok h5] at h7
        obtain ⟨e1, e2, e3, e4⟩ := decodeTokens_valid _ _ h7
        have hl3 := readHeader_le h3
        exact ⟨e1, by simpa [blockEnd] using e2, fun hn => ⟨e3, hn, readHeader_valid h3⟩,
          by simp only [blockTokens]; omega⟩
      · simp at h

theorem readBlocks_valid {fuel : Nat} {plain : Array Nat} {bs : Bits} {blocks : List Block}
    {plain' : Array Nat} {rest : Bits}
    (h : readBlocks fuel plain bs = .ok (blocks, plain', rest)) :
    Extends plain plain' ∧ plain'.size = blocksEnd plain.size blocks ∧
      ((∀ b ∈ blocks, (blockTokens b).length < 2 ^ 32 - 1) → ValidBlocks plain' plain.size blocks) ∧
      blocks ≠ [] ∧ ∀ b ∈ blocks, (blockTokens b).length < bs.length := by
  induction fuel generalizing plain bs blocks with
  | zero => simp [readBlocks] at h
  | succ fuel ih =>
    rw [readBlocks] at h
    simp only [bind_eq_ok] at h
    obtain ⟨⟨last, b, pl, bs1⟩, h1, h⟩ := h
    simp only at h
    obtain ⟨e1, e2, e3, e4⟩ := readBlock_valid h1
    have hl := readBlock_lt h1
    split at h
    · simp only [Except.ok.injEq, Prod.mk.injEq] at h
      obtain ⟨rfl, rfl, rfl⟩ := h
      refine ⟨e1, by simpa [blocksEnd] using e2, fun hn => ⟨e3 (hn b (by simp)), trivial⟩, by simp, ?_⟩
      intro b' hb'
      rw [List.mem_singleton.mp hb']
      exact e4
    · simp only [bind_eq_ok] at h
      obtain ⟨⟨r, pl2, bs2⟩, h2, h⟩ := h
      simp only [Except.ok.injEq, Prod.mk.injEq] at h
      obtain ⟨rfl, rfl, rfl⟩ := h
      obtain ⟨f1, f2, f3, _, f5⟩ := ih h2
      rw [e2] at f2 f3
      refine ⟨e1.trans f1, by simpa [blocksEnd] using f2,
        fun hn => ⟨validBlock_mono f1 (e3 (hn b (by simp))),
          f3 (fun b' hb' => hn b' (List.mem_cons_of_mem _ hb'))⟩, by simp, ?_⟩
      intro b' hb'
      rcases List.mem_cons.mp hb' with rfl | hb'
      · exact e4
      · exact Nat.lt_trans (f5 b' hb') hl

end Preflate.Proofs
