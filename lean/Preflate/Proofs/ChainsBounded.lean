/-
`PredBounded` for the executable predictor `Chains.pred p` (Model/Chains.lean, Model/HuffCalc.lean).

Token part (`chains_pred_tok_bounded`, proved, for EVERY parameter vector — `EstimatorRange` is not
needed): `match_token_offset` only ever answers lengths produced by `prefix_compare`, which are at most
`max 3 max_len` with `max_len = min(remaining, 258)` and `max_len ≥ 3` checked on entry, so at most 258;
`predict_token` answers such a length or the stored pending reference (bounded by the state invariant
`PendBounded`), `repredict_reference` such a length.

Bit-length part: NOT provable in this model. `HuffCalc.calcBitLengths` is built from `partial def`s
(`downheap`, `combine`, `countRec`, `redistribute`) and `while` loops (`Loop.forIn`, itself `partial`):
these are opaque constants to the kernel, nothing about their values can be proved. It is therefore the
separate, clearly named hypothesis `HuffCalcBounded`. (In the source the function returns `Vec<u8>`, so
every entry is below 256 by typing; the model computes on `Nat` — `countRec` stores `depth % 256`, the
overflow fix-up stores `bits ≤ max_bits` — but states no such fact.)
-/
import Preflate.Model.Chains
import Preflate.Model.PredBounded
import Preflate.Proofs.OpsWF
namespace Preflate.Proofs
open Preflate Preflate.Chains

/-- invariant rule for a `for` loop over a list in the `Id` monad (with `break` / early `return`) -/
theorem forIn_list_inv {α β : Type} (Inv : β → Prop) (f : α → β → Id (ForInStep β)) :
    ∀ (l : List α), (∀ a, a ∈ l → ∀ b, Inv b → Inv (Id.run (f a b)).value) →
    ∀ init, Inv init → Inv (Id.run (forIn l init f)) := by
  intro l
  induction l with
  | nil => intro _ init h0; simpa using h0
  | cons a l ih =>
    intro hf init h0
    have h1 := hf a (List.mem_cons_self ..) init h0
    rw [List.forIn_cons]
    cases hs : f a init with
    | done b =>
      rw [hs] at h1
      exact h1
    | yield b =>
      rw [hs] at h1
      exact ih (fun a' ha' => hf a' (List.mem_cons_of_mem _ ha')) b h1

theorem prefixCompare_le (plain : Array Nat) (a b bestLen maxLen : Nat) :
    prefixCompare plain a b bestLen maxLen ≤ max 3 maxLen := by
  unfold prefixCompare
  simp only []
  split
  · omega
  · split
    · omega
    · rw [Std.Legacy.Range.forIn_eq_forIn_range']
      simp only [bind_pure]
      refine forIn_list_inv (fun m => m ≤ max 3 maxLen) _ _ ?_ 3 (by omega)
      intro i hi m hm
      simp only [List.mem_range'_1, Std.Legacy.Range.size] at hi
      split
      · exact hm
      · simp only [ForInStep.value, Id.run, pure]
        omega

theorem id_bind_inv {β γ : Type} (Inv : β → Prop) (Q : γ → Prop) (x : Id β) (g : β → Id γ)
    (hx : Inv (Id.run x)) (hg : ∀ b, Inv b → Q (Id.run (g b))) : Q (Id.run (x >>= g)) := hg _ hx

/-- a match result whose length is at most MAX_MATCH -/
def MRBounded : MatchResult → Prop
  | .none => True
  | .success l _ => l ≤ 258

/-- loop invariant of `match_token_offset`: (early return value, max_chain, best_len, best, first) -/
def MTInv (st : Option MatchResult × Nat × Nat × MatchResult × Bool) : Prop :=
  (∀ r, st.1 = some r → MRBounded r) ∧ MRBounded st.2.2.2.1

theorem mtinv_mk (ret : Option MatchResult) (mc bl : Nat) (best : MatchResult) (first : Bool)
    (h1 : ∀ r, ret = some r → MRBounded r) (h2 : MRBounded best) : MTInv (ret, mc, bl, best, first) :=
  ⟨h1, h2⟩

theorem matchToken_bounded (p : Params) (plain : Array Nat) (c : Chain) (pos offset prevLen maxDepth : Nat) :
    MRBounded (matchToken p plain c pos offset prevLen maxDepth) := by
  unfold matchToken
  simp only []
  split
  · trivial
  · split
    · trivial
    · rename_i hmax
      split
      · trivial
      · rename_i hop0 hop1 _
        generalize hML : min (plain.size - (pos + offset)) 258 = maxLen at hmax ⊢
        have hML' : max 3 maxLen ≤ 258 := by omega
        refine id_bind_inv MTInv MRBounded _ _ (forIn_list_inv MTInv _ _ ?_ _ ?_) ?_
        · intro dist _ st hinv
          obtain ⟨ret, mc, bl, best, first⟩ := st
          obtain ⟨h1, h2⟩ := hinv
          simp only at h1 h2 ⊢
          have hpc := prefixCompare_le plain (pos + offset - dist) (pos + offset) bl maxLen
          generalize prefixCompare plain (pos + offset - dist) (pos + offset) bl maxLen = ml at hpc
          have hml : MRBounded (.success ml dist) := by simp only [MRBounded]; omega
          have hnone : MRBounded .none := trivial
          repeat' split
          all_goals exact mtinv_mk _ _ _ _ _ (by intro r h; cases h <;> assumption) (by assumption)
        · exact ⟨fun r h => (by cases h), trivial⟩
        · intro st hst
          obtain ⟨ret, mc, bl, best, first⟩ := st
          obtain ⟨h1, h2⟩ := hst
          simp only at h1 h2 ⊢
          cases ret with
          | none => exact h2
          | some r => exact h1 r rfl

/-- below the bound of `PredBounded` -/
def MRB30 : MatchResult → Prop
  | .none => True
  | .success l _ => l < PRED_BOUND

theorem matchToken_b30 (p : Params) (plain : Array Nat) (c : Chain) (pos offset prevLen maxDepth : Nat) :
    MRB30 (matchToken p plain c pos offset prevLen maxDepth) := by
  have h := matchToken_bounded p plain c pos offset prevLen maxDepth
  cases hm : matchToken p plain c pos offset prevLen maxDepth with
  | none => trivial
  | success l d =>
    rw [hm] at h
    simp only [MRBounded] at h
    simp only [MRB30, PRED_BOUND]
    omega

theorem matchToken_success_b30 {p : Params} {plain : Array Nat} {c : Chain}
    {pos offset prevLen maxDepth l d : Nat}
    (h : matchToken p plain c pos offset prevLen maxDepth = .success l d) : l < PRED_BOUND := by
  have := matchToken_b30 p plain c pos offset prevLen maxDepth
  rw [h] at this
  exact this

theorem pendBounded_none : PendBounded (none : Option (Nat × Nat)) := fun _ _ h => by cases h

theorem pendBounded_some (l d : Nat) (h : l < PRED_BOUND) : PendBounded (some (l, d)) := by
  intro l' d' h'
  cases h'
  exact h

/-- both components of `predict_token`'s answer are bounded -/
def BothB (r : PTok × Option (Nat × Nat)) : Prop := PTokBounded r.1 ∧ PendBounded r.2

/-- the part of `predict_token` after the first match of length `len` was found (`hm : len < PRED_BOUND`) -/
macro "pt_tail" hm:ident : tactic => `(tactic| (
  repeat' split
  all_goals first
    | exact ⟨trivial, pendBounded_none⟩
    | exact ⟨$hm, pendBounded_none⟩
    | exact ⟨trivial, pendBounded_some _ _ (matchToken_success_b30 (by assumption))⟩))

theorem predictTok_bothB (p : Params) (plain : Array Nat) (s : PState Chain) (hp : PendBounded s.pending) :
    BothB (predictTok p plain s) := by
  unfold predictTok
  split
  · exact ⟨trivial, hp⟩
  · cases hpd : s.pending with
    | some ld =>
      obtain ⟨len, dist⟩ := ld
      have hm : len < PRED_BOUND := hp len dist hpd
      simp only []
      pt_tail hm
    | none =>
      simp only []
      have hm0 := matchToken_b30 p plain s.h s.pos 0 0 p.maxChain
      generalize matchToken p plain s.h s.pos 0 0 p.maxChain = m at hm0
      cases m with
      | none => exact ⟨trivial, pendBounded_none⟩
      | success len dist =>
        have hm : len < PRED_BOUND := hm0
        simp only []
        pt_tail hm

theorem predictTok_bounded (p : Params) (plain : Array Nat) (s : PState Chain) (hp : PendBounded s.pending) :
    PTokBounded (predictTok p plain s).1 ∧ PendBounded (predictTok p plain s).2 :=
  predictTok_bothB p plain s hp

theorem repredictTok_bounded (p : Params) (plain : Array Nat) (s : PState Chain) (l d : Nat)
    (h : repredictTok p plain s = .ok (l, d)) : l < PRED_BOUND := by
  unfold repredictTok at h
  split at h
  · cases h
  · have hm := matchToken_b30 p plain s.h s.pos 0 0 p.maxChain
    split at h
    · rename_i len dist heq
      rw [heq] at hm
      split at h
      · cases h
        exact hm
      · cases h
    · cases h

-- ---------------------------------------------------------------------------------------------
-- the instance

/-- token part of `PredBounded` for the executable predictor, for every parameter vector -/
theorem chains_pred_tok_bounded (p : Params) : PredTokBounded (Chains.pred p) where
  predict plain s hp := predictTok_bounded p plain s hp
  repredict plain s l d _ h := repredictTok_bounded p plain s l d h

/-- the bit-length part: `huffman_calc::calc_bit_lengths` returns `Vec<u8>`; the executable predictor
    models that typing (`% 256` on every entry, Model/Chains.lean), which is all the bound needs. (The
    transcription `HuffCalc.calcBitLengths` itself is built from `partial def`s, opaque to the kernel.) -/
theorem chains_pred_len_bounded (p : Params) : PredLenBounded (Chains.pred p) where
  bitlen freq maxBits _ x hx := by
    simp only [Chains.pred] at hx
    split at hx
    · simp only [List.mem_map] at hx
      obtain ⟨y, _, rfl⟩ := hx
      have : y % 256 < 256 := Nat.mod_lt _ (by decide)
      unfold PRED_BOUND
      omega
    · simp at hx

/-- `PredBounded` for the executable predictor, every parameter vector -/
theorem chains_pred_bounded (p : Params) : PredBounded (Chains.pred p) where
  toPredTokBounded := chains_pred_tok_bounded p
  toPredLenBounded := chains_pred_len_bounded p

/-- `encStream_ops_wf` for the executable predictor: every operation the analysis emits is one the
    codec theorem covers -/
theorem chains_encStream_ops_wf (p : Params) (plain : Array Nat)
    (blocks : List Block) (pad : Nat) (hv : StreamValid plain blocks) (hpad : pad < 256)
    (hsize : plain.size < 2 ^ 31 - 1) (ops : List Op)
    (he : encStream (Chains.pred p) plain blocks pad = .ok ops) : ∀ o ∈ ops, o.WF :=
  encStream_ops_wf (Chains.pred p) (chains_pred_bounded p) plain blocks pad hv hpad hsize ops he

/-- the tight bound: `match_token_offset` never answers a length above MAX_MATCH -/
theorem matchToken_len_le (p : Params) (plain : Array Nat) (c : Chain)
    (pos offset prevLen maxDepth l d : Nat)
    (h : matchToken p plain c pos offset prevLen maxDepth = .success l d) : l ≤ 258 := by
  have := matchToken_bounded p plain c pos offset prevLen maxDepth
  rw [h] at this
  exact this

end Preflate.Proofs
