/-
Bit-level lemmas for C07: `readBits` / `bitsOfNat` / `emit`, `bytesToBits` / `bitsToBytes`, padding.
-/
import Preflate.Model.Huffman
namespace Preflate.Proofs
open Preflate

theorem bind_eq_ok {ε α β : Type} (x : Except ε α) (f : α → Except ε β) (b : β) :
    (x >>= f) = .ok b ↔ ∃ a, x = .ok a ∧ f a = .ok b := by
  cases x <;> simp [bind, Except.bind]

theorem idx_ok (l : List Nat) (i : Nat) (site : String) (h : i < l.length) :
    idx l i site = .ok (l.getD i 0) := by
  simp [idx, List.getD, List.getElem?_eq_getElem h]

theorem idx_ok' (l : List Nat) (i v : Nat) (site : String) (h : l[i]? = some v) :
    idx l i site = .ok v := by
  simp [idx, h]

@[simp] theorem length_bitsOfNat (n v : Nat) : (bitsOfNat n v).length = n := by
  induction n generalizing v with
  | zero => rfl
  | succ n ih => simp [bitsOfNat, ih]

theorem readBits_ok {n : Nat} {bs : Bits} {v : Nat} {rest : Bits}
    (h : readBits n bs = .ok (v, rest)) : bs = bitsOfNat n v ++ rest ∧ v < 2 ^ n := by
  induction n generalizing bs v with
  | zero =>
    simp only [readBits, Except.ok.injEq, Prod.mk.injEq] at h
    obtain ⟨rfl, rfl⟩ := h
    simp [bitsOfNat]
  | succ n ih =>
    cases bs with
    | nil => simp [readBits] at h
    | cons b bs =>
      simp only [readBits] at h
      cases hr : readBits n bs with
      | error e => simp [hr] at h
      | ok p =>
        obtain ⟨v', rest'⟩ := p
        simp only [hr, Except.ok.injEq, Prod.mk.injEq] at h
        obtain ⟨rfl, rfl⟩ := h
        obtain ⟨h1, h2⟩ := ih hr
        constructor
        · simp only [bitsOfNat, List.cons_append, List.cons.injEq]
          constructor
          · cases b <;> simp <;> omega
          · have : ((if b = true then 1 else 0) + 2 * v') / 2 = v' := by
              cases b <;> simp <;> omega
            rw [this]; exact h1
        · rw [Nat.pow_succ]
          cases b <;> simp <;> omega

theorem emit_ok {v n : Nat} (site : String) (h : v < 2 ^ n) : emit v n site = .ok (bitsOfNat n v) := by
  simp [emit, h]

theorem natOfBits_bitsOfNat (n v : Nat) : natOfBits (bitsOfNat n v) = v % 2 ^ n := by
  induction n generalizing v with
  | zero => simp [bitsOfNat, natOfBits, Nat.mod_one]
  | succ n ih =>
    simp only [bitsOfNat, natOfBits, ih]
    rw [Nat.pow_succ', Nat.mod_mul]
    rcases Nat.mod_two_eq_zero_or_one v with h | h <;> simp [h]

theorem length_byteBits (b : UInt8) : (byteBits b).length = 8 := by simp [byteBits]

theorem length_bytesToBits (d : List UInt8) : (bytesToBits d).length = 8 * d.length := by
  induction d with
  | nil => rfl
  | cons b d ih =>
    simp only [bytesToBits, List.flatMap_cons, List.length_append, length_byteBits] at *
    simp only [List.length_cons]; omega

theorem bytesToBits_cons (b : UInt8) (d : List UInt8) :
    bytesToBits (b :: d) = byteBits b ++ bytesToBits d := by
  simp [bytesToBits]

theorem bitsToBytes_byteBits_append (b : UInt8) (r : Bits) :
    bitsToBytes (byteBits b ++ r) = b :: bitsToBytes r := by
  have h : UInt8.ofNat (natOfBits (bitsOfNat 8 b.toNat)) = b := by
    rw [natOfBits_bitsOfNat]
    have : b.toNat % 2 ^ 8 = b.toNat := Nat.mod_eq_of_lt (by have := b.toNat_lt; omega)
    rw [this]; simp
  simp only [byteBits, bitsOfNat, List.cons_append, List.nil_append, bitsToBytes] at *
  rw [h]

theorem bitsToBytes_prefix (k : Nat) (d : List UInt8) (w rest : Bits)
    (h : bytesToBits d = w ++ rest) (hk : w.length = 8 * k) :
    bitsToBytes w = d.take k := by
  induction k generalizing d w with
  | zero =>
    have : w = [] := List.length_eq_zero_iff.mp (by omega)
    subst this; simp [bitsToBytes]
  | succ k ih =>
    cases d with
    | nil =>
      have := congrArg List.length h
      simp [bytesToBits] at this
      omega
    | cons b d =>
      rw [bytesToBits_cons] at h
      have h8 : (byteBits b).length = 8 := length_byteBits b
      have ht := congrArg (List.take 8) h
      have hd := congrArg (List.drop 8) h
      rw [List.take_append_of_le_length (by omega), List.take_append_of_le_length (by omega),
        List.take_of_length_le (by omega)] at ht
      rw [List.drop_append_of_le_length (by omega), List.drop_append_of_le_length (by omega),
        List.drop_of_length_le (by omega), List.nil_append] at hd
      have hw : w = byteBits b ++ w.drop 8 := by
        rw [ht]; exact (List.take_append_drop 8 w).symm
      have := ih d (w.drop 8) hd (by simp; omega)
      rw [hw, bitsToBytes_byteBits_append, List.take_succ_cons, this]

/-- reading the rest of the current byte is exactly the writer's padding -/
theorem mod8_eq_padCount (off r : Nat) (h : (off + r) % 8 = 0) : r % 8 = padCount off := by
  unfold padCount; omega

theorem isPrefix_eq {a b : Bits} (h : isPrefix a b = true) : b = a ++ b.drop a.length := by
  induction a generalizing b with
  | nil => simp
  | cons x a ih =>
    cases b with
    | nil => simp [isPrefix] at h
    | cons y b =>
      simp only [isPrefix, Bool.and_eq_true, beq_iff_eq] at h
      obtain ⟨rfl, h2⟩ := h
      simp only [List.length_cons, List.drop_succ_cons, List.cons_append, List.cons.injEq, true_and]
      exact ih h2

end Preflate.Proofs
