/-
Facts about the generated tables (Preflate.Gen) needed for C07, each checked by kernel evaluation
of a Bool-valued test over a finite range and then lifted to a quantified statement.
-/
import Preflate.Model.Deflate
import Preflate.Proofs.Bits
namespace Preflate.Proofs
open Preflate Preflate.Gen

theorem all_range {n : Nat} {p : Nat → Bool} (h : (List.range n).all p = true) :
    ∀ i, i < n → p i = true := by
  intro i hi
  rw [List.all_eq_true] at h
  exact h i (List.mem_range.mpr hi)

-- ---------------------------------------------------------------------------------------------
-- Huffman decode

theorem mkTable_ok {l : List Nat} {t : List (Bits × Nat)} (h : mkTable l = .ok t) : t = codeTable l := by
  unfold mkTable at h
  split at h
  · simpa using h.symm
  · simp at h

theorem decodeSym_ok {l : List Nat} {bs : Bits} {s : Nat} {rest : Bits}
    (h : decodeSym (codeTable l) bs = .ok (s, rest)) : bs = codeBits l s ++ rest ∧ s < l.length := by
  unfold decodeSym at h
  split at h
  · rename_i c s' hf
    simp only [Except.ok.injEq, Prod.mk.injEq] at h
    obtain ⟨rfl, rfl⟩ := h
    have hp := List.find?_some hf
    have hm := List.mem_of_find?_eq_some hf
    simp only [codeTable, List.mem_filterMap, List.mem_range] at hm
    obtain ⟨a, ha, hm⟩ := hm
    split at hm
    · simp at hm
    · simp only [Option.some.injEq, Prod.mk.injEq] at hm
      obtain ⟨rfl, rfl⟩ := hm
      exact ⟨isPrefix_eq hp, ha⟩
  · simp at h

-- ---------------------------------------------------------------------------------------------
-- TREE_CODE_ORDER_TABLE is a permutation of 0..18

theorem order_lt (i : Nat) (hi : i < 19) : TREE_CODE_ORDER_TABLE.getD i 0 < 19 := by
  have := all_range (n := 19) (p := fun i => decide (TREE_CODE_ORDER_TABLE.getD i 0 < 19))
    (by decide +kernel) i hi
  simpa using this

theorem order_inj (i j : Nat) (hi : i < 19) (hj : j < 19)
    (h : TREE_CODE_ORDER_TABLE.getD i 0 = TREE_CODE_ORDER_TABLE.getD j 0) : i = j := by
  have := all_range (n := 19) (p := fun i => (List.range 19).all fun j =>
      decide (TREE_CODE_ORDER_TABLE.getD i 0 = TREE_CODE_ORDER_TABLE.getD j 0 → i = j))
    (by decide +kernel) i hi
  have := all_range this j hj
  simp only [decide_eq_true_eq] at this
  exact this h

theorem order_length : TREE_CODE_ORDER_TABLE.length = 19 := by decide

-- ---------------------------------------------------------------------------------------------
-- length codes

def lengthCheck (c ex : Nat) : Bool :=
  let len := 3 + lengthBase c + ex
  if len = 258 ∧ c ≠ 28 then c == 27 && ex == 31
  else LENGTH_CODE_TABLE[len - 3]? == some c

theorem lengthCheck_all :
    (List.range 29).all (fun c => (List.range (2 ^ lengthExtra c)).all (lengthCheck c)) = true := by
  decide +kernel

theorem length_irregular {c ex : Nat} (hc : c < 29) (hex : ex < 2 ^ lengthExtra c)
    (h : 3 + lengthBase c + ex = 258 ∧ c ≠ 28) : c = 27 ∧ ex = 31 := by
  have := all_range (all_range lengthCheck_all c hc) ex hex
  simp only [lengthCheck] at this
  rw [if_pos h] at this
  simpa using this

theorem length_regular {c ex : Nat} (hc : c < 29) (hex : ex < 2 ^ lengthExtra c)
    (h : ¬ (3 + lengthBase c + ex = 258 ∧ c ≠ 28)) :
    quantizeLength (3 + lengthBase c + ex) = .ok c := by
  have := all_range (all_range lengthCheck_all c hc) ex hex
  simp only [lengthCheck] at this
  rw [if_neg h] at this
  simp only [beq_iff_eq] at this
  unfold quantizeLength
  rw [if_neg (by simp only [MIN_MATCH]; omega)]
  exact idx_ok' _ _ _ _ (by simpa [MIN_MATCH] using this)

theorem lengthExtra_len : LENGTH_EXTRA_TABLE.length = 29 := by decide
theorem lengthBase_len : LENGTH_BASE_TABLE.length = 29 := by decide
theorem distExtra_len : DIST_EXTRA_TABLE.length = 30 := by decide
theorem distBase_len : DIST_BASE_TABLE.length = 30 := by decide

-- ---------------------------------------------------------------------------------------------
-- distance codes

def inDist (c m : Nat) : Prop := distBase c ≤ m ∧ m < distBase c + 2 ^ distExtra c

instance (c m : Nat) : Decidable (inDist c m) := by unfold inDist; infer_instance

/-- the table entry at `m` names a code whose interval contains `m` -/
def distCheckLow (p : Nat × Nat) : Bool :=
  decide (p.1 < 30 ∧ distBase p.1 ≤ p.2 ∧ p.2 < distBase p.1 + 2 ^ distExtra p.1)

/-- the table entry at `256 + k` names a code whose interval contains all of `[128k, 128k+127]` -/
def distCheckHigh (p : Nat × Nat) : Bool :=
  decide (p.2 < 2 ∨
    (p.1 < 30 ∧ distBase p.1 ≤ 128 * p.2 ∧ 128 * p.2 + 127 < distBase p.1 + 2 ^ distExtra p.1))

theorem distCheckLow_all : (DIST_CODE_TABLE.take 256).zipIdx.all distCheckLow = true := by
  decide +kernel

theorem distCheckHigh_all : (DIST_CODE_TABLE.drop 256).zipIdx.all distCheckHigh = true := by
  decide +kernel

theorem distCode_len : DIST_CODE_TABLE.length = 512 := by decide +kernel

theorem dist_disjoint_all : (List.range 30).all (fun c => (List.range 30).all fun c' =>
    decide (c ≠ c' → distBase c + 2 ^ distExtra c ≤ distBase c' ∨
      distBase c' + 2 ^ distExtra c' ≤ distBase c)) = true := by decide +kernel

theorem dist_disjoint {c c' : Nat} (hc : c < 30) (hc' : c' < 30) (h : c ≠ c') :
    distBase c + 2 ^ distExtra c ≤ distBase c' ∨ distBase c' + 2 ^ distExtra c' ≤ distBase c := by
  have := all_range (all_range dist_disjoint_all c hc) c' hc'
  simp only [decide_eq_true_eq] at this
  exact this h

theorem dist_bound (c : Nat) (hc : c < 30) : distBase c + 2 ^ distExtra c ≤ 32768 := by
  have := all_range (n := 30) (p := fun c => decide (distBase c + 2 ^ distExtra c ≤ 32768))
    (by decide +kernel) c hc
  simpa using this

theorem dist_low {c m : Nat} (hc : c < 30) (h1 : distBase c ≤ m) (h2 : m < distBase c + 2 ^ distExtra c)
    (hm : m < 256) : DIST_CODE_TABLE[m]? = some c := by
  have hlt : m < DIST_CODE_TABLE.length := by rw [distCode_len]; omega
  have heq : DIST_CODE_TABLE[m]? = some DIST_CODE_TABLE[m] := List.getElem?_eq_getElem hlt
  generalize DIST_CODE_TABLE[m] = c' at heq
  have hmem : (c', m) ∈ (DIST_CODE_TABLE.take 256).zipIdx := by
    rw [List.mem_zipIdx_iff_getElem?]
    simp only [List.getElem?_take, hm, if_true]
    exact heq
  have := List.all_eq_true.mp distCheckLow_all _ hmem
  simp only [distCheckLow, decide_eq_true_eq] at this
  by_cases hcc : c = c'
  · subst hcc; exact heq
  · have := dist_disjoint hc this.1 hcc
    omega

theorem dist_high {c m k : Nat} (hc : c < 30) (h1 : distBase c ≤ m)
    (h2 : m < distBase c + 2 ^ distExtra c) (hm : 256 ≤ m) (hk : m / 128 = k) :
    DIST_CODE_TABLE[256 + k]? = some c := by
  have hb := dist_bound c hc
  have hlt : 256 + k < DIST_CODE_TABLE.length := by rw [distCode_len]; omega
  have heq : DIST_CODE_TABLE[256 + k]? = some DIST_CODE_TABLE[256 + k] := List.getElem?_eq_getElem hlt
  generalize DIST_CODE_TABLE[256 + k] = c' at heq
  have hmem : (c', k) ∈ (DIST_CODE_TABLE.drop 256).zipIdx := by
    rw [List.mem_zipIdx_iff_getElem?]
    simp only [List.getElem?_drop]
    exact heq
  have := List.all_eq_true.mp distCheckHigh_all _ hmem
  simp only [distCheckHigh, decide_eq_true_eq] at this
  rcases this with this | this
  · omega
  · by_cases hcc : c = c'
    · subst hcc; exact heq
    · have := dist_disjoint hc this.1 hcc
      omega

theorem dist_quantize {c dx : Nat} (hc : c < 30) (hdx : dx < 2 ^ distExtra c) :
    quantizeDistance (1 + distBase c + dx) = .ok c := by
  unfold quantizeDistance
  rw [if_neg (by omega)]
  have e : 1 + distBase c + dx - 1 = distBase c + dx := by omega
  split
  · rw [e]
    exact idx_ok' _ _ _ _ (dist_low hc (by omega) (by omega) (by omega))
  · rw [e, Nat.shiftRight_eq_div_pow]
    exact idx_ok' _ _ _ _ (dist_high hc (by omega) (by omega) (by omega) rfl)

end Preflate.Proofs
