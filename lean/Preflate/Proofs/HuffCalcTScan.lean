/-
The first loop of `calc_bit_lengths` (`scan`): the leaves it creates and `max_code`.
-/
import Preflate.Proofs.HuffCalcTBase
namespace Preflate.HuffCalcT

/-- the leaves pushed by `scan` -/
def scanList : List Nat → Nat → List Node
  | [], _ => []
  | f :: rest, idx =>
    if f > 0 then { freq := f, depth := 0, leaf := some idx } :: scanList rest (idx + 1)
    else scanList rest (idx + 1)

/-- `max_code` after the first loop -/
def scanMax : List Nat → Nat → Nat → Nat
  | [], _, mc => mc
  | f :: rest, idx, mc => if f > 0 then scanMax rest (idx + 1) idx else scanMax rest (idx + 1) mc

theorem scan_eq (l : List Nat) (idx : Nat) (heap : Array Node) (mc : Nat) :
    scan l idx heap mc = (heap ++ (scanList l idx).toArray, scanMax l idx mc) := by
  induction l generalizing idx heap mc with
  | nil => simp [scan, scanList, scanMax]
  | cons f rest ih =>
    by_cases h : f > 0
    · simp [scan, scanList, scanMax, h, ih]
    · simp [scan, scanList, scanMax, h, ih]

/-- index of the last non-zero frequency (`0` if there is none): Rust `max_code` -/
def maxCode (symFreq : List Nat) : Nat := scanMax symFreq 0 0

/-- the initial heap (all leaves, in index order) -/
def leaves0 (symFreq : List Nat) : List Node := scanList symFreq 0

theorem scan_zero (symFreq : List Nat) :
    scan symFreq 0 #[] 0 = ((leaves0 symFreq).toArray, maxCode symFreq) := by
  simp [scan_eq, leaves0, maxCode]

theorem scanList_mem (l : List Nat) (idx : Nat) (x : Node) (hx : x ∈ scanList l idx) :
    x.depth = 0 ∧ 1 ≤ x.freq ∧ x.freq ∈ l ∧ ∃ s, x.leaf = some s ∧ idx ≤ s ∧ s < idx + l.length := by
  induction l generalizing idx with
  | nil => simp [scanList] at hx
  | cons f rest ih =>
    simp only [scanList] at hx
    split at hx
    · rcases List.mem_cons.mp hx with rfl | hx
      · refine ⟨rfl, ‹f > 0›, by simp, idx, rfl, by omega, by simp⟩
      · obtain ⟨h1, h2, h3, s, h4, h5, h6⟩ := ih _ hx
        exact ⟨h1, h2, List.mem_cons_of_mem _ h3, s, h4, by omega, by simp; omega⟩
    · obtain ⟨h1, h2, h3, s, h4, h5, h6⟩ := ih _ hx
      exact ⟨h1, h2, List.mem_cons_of_mem _ h3, s, h4, by omega, by simp; omega⟩

theorem scanList_syms_lb (l : List Nat) (idx : Nat) :
    ∀ s ∈ (scanList l idx).filterMap (·.leaf), idx ≤ s := by
  intro s hs
  obtain ⟨x, hx, hxs⟩ := List.mem_filterMap.mp hs
  obtain ⟨_, _, _, s', h4, h5, _⟩ := scanList_mem l idx x hx
  rw [h4] at hxs; cases hxs; exact h5

theorem scanList_nodup (l : List Nat) (idx : Nat) :
    ((scanList l idx).filterMap (·.leaf)).Nodup := by
  induction l generalizing idx with
  | nil => simp [scanList]
  | cons f rest ih =>
    simp only [scanList]
    split
    · simp only [List.filterMap_cons, List.nodup_cons]
      refine ⟨fun h => ?_, ih _⟩
      have := scanList_syms_lb rest (idx + 1) idx h
      omega
    · exact ih _

theorem scanList_length (l : List Nat) (idx : Nat) :
    (scanList l idx).length = (l.filter (fun f => decide (0 < f))).length := by
  induction l generalizing idx with
  | nil => simp [scanList]
  | cons f rest ih =>
    simp only [scanList]
    by_cases h : f > 0
    · simp [h, ih]
    · simp [h, ih]

theorem scanList_length_le (l : List Nat) (idx : Nat) : (scanList l idx).length ≤ l.length := by
  rw [scanList_length]; exact List.length_filter_le _ _

theorem scanList_sum (l : List Nat) (idx : Nat) (B : Nat) (hB : ∀ f ∈ l, f ≤ B) :
    ((scanList l idx).map (·.freq)).sum ≤ B * l.length := by
  induction l generalizing idx with
  | nil => simp [scanList]
  | cons f rest ih =>
    have := ih (idx + 1) (fun g hg => hB g (List.mem_cons_of_mem _ hg))
    have hf := hB f (by simp)
    simp only [scanList]
    split
    · simp only [List.map_cons, List.sum_cons, List.length_cons, Nat.mul_add]; omega
    · simp only [List.length_cons, Nat.mul_add]; omega

/-- every leaf symbol is at most `max_code` -/
theorem scanList_le_scanMax (l : List Nat) (idx mc : Nat) :
    ∀ s ∈ (scanList l idx).filterMap (·.leaf), s ≤ scanMax l idx mc := by
  induction l generalizing idx mc with
  | nil => simp [scanList]
  | cons f rest ih =>
    intro s hs
    simp only [scanList, scanMax] at hs ⊢
    split at hs
    · rename_i hf
      rw [if_pos hf]
      simp only [List.filterMap_cons, List.mem_cons] at hs
      rcases hs with rfl | hs
      · -- scanMax only grows from a value ≥ idx
        have : ∀ (l : List Nat) (i m : Nat), m ≤ i → m ≤ scanMax l i m := by
          intro l
          induction l with
          | nil => intro i m _; simp [scanMax]
          | cons g r ihr =>
            intro i m hm
            simp only [scanMax]
            split
            · exact Nat.le_trans hm (ihr (i + 1) i (by omega))
            · exact ihr (i + 1) m (by omega)
        exact this rest (s + 1) s (by omega)
      · exact ih _ _ s hs
    · rename_i hf
      rw [if_neg hf]
      exact ih _ _ s hs

/-- `scanMax` is the position of the last non-zero entry (or the start value) -/
theorem scanMax_spec (l : List Nat) (idx mc : Nat) :
    (scanMax l idx mc = mc ∧ ∀ f ∈ l, f = 0) ∨
    (idx ≤ scanMax l idx mc ∧ scanMax l idx mc < idx + l.length ∧
      0 < l.getD (scanMax l idx mc - idx) 0 ∧
      ∀ j, scanMax l idx mc - idx < j → l.getD j 0 = 0) := by
  induction l generalizing idx mc with
  | nil => left; simp [scanMax]
  | cons f rest ih =>
    simp only [scanMax]
    by_cases hf : f > 0
    · rw [if_pos hf]
      right
      rcases ih (idx + 1) idx with ⟨h1, h2⟩ | ⟨h1, h2, h3, h4⟩
      · rw [h1]
        refine ⟨by omega, by simp, by simpa using hf, ?_⟩
        intro j hj
        obtain ⟨j, rfl⟩ : ∃ k, j = k + 1 := ⟨j - 1, by omega⟩
        simp only [List.getD_eq_getElem?_getD, List.getElem?_cons_succ]
        cases hr : rest[j]? with
        | none => rfl
        | some v => simp; exact h2 v (List.mem_of_getElem? hr)
      · refine ⟨by omega, by simp; omega, ?_, ?_⟩
        · have : scanMax rest (idx + 1) idx - idx = (scanMax rest (idx + 1) idx - (idx + 1)) + 1 := by
            omega
          rw [this]; simpa [List.getD_eq_getElem?_getD] using h3
        · intro j hj
          obtain ⟨j, rfl⟩ : ∃ k, j = k + 1 := ⟨j - 1, by omega⟩
          have := h4 j (by omega)
          simpa [List.getD_eq_getElem?_getD] using this
    · rw [if_neg hf]
      have hf0 : f = 0 := by omega
      rcases ih (idx + 1) mc with ⟨h1, h2⟩ | ⟨h1, h2, h3, h4⟩
      · left
        refine ⟨h1, ?_⟩
        intro g hg
        rcases List.mem_cons.mp hg with rfl | hg
        · exact hf0
        · exact h2 g hg
      · right
        refine ⟨by omega, by simp; omega, ?_, ?_⟩
        · have : scanMax rest (idx + 1) mc - idx = (scanMax rest (idx + 1) mc - (idx + 1)) + 1 := by
            omega
          rw [this]; simpa [List.getD_eq_getElem?_getD] using h3
        · intro j hj
          obtain ⟨j, rfl⟩ : ∃ k, j = k + 1 := ⟨j - 1, by omega⟩
          have := h4 j (by omega)
          simpa [List.getD_eq_getElem?_getD] using this

/-- characterisation of `maxCode`: it is `0` when all frequencies are zero, otherwise the index of
the last non-zero frequency -/
theorem maxCode_spec (symFreq : List Nat) :
    (maxCode symFreq = 0 ∧ ∀ f ∈ symFreq, f = 0) ∨
    (maxCode symFreq < symFreq.length ∧ 0 < symFreq.getD (maxCode symFreq) 0 ∧
      ∀ j, maxCode symFreq < j → symFreq.getD j 0 = 0) := by
  rcases scanMax_spec symFreq 0 0 with h | ⟨_, h2, h3, h4⟩
  · left; exact h
  · right; exact ⟨by simpa [maxCode] using h2, by simpa [maxCode] using h3, by simpa [maxCode] using h4⟩

theorem maxCode_lt (symFreq : List Nat) (h : symFreq ≠ []) : maxCode symFreq < symFreq.length := by
  rcases maxCode_spec symFreq with ⟨h1, _⟩ | ⟨h1, _⟩
  · rw [h1]; exact List.length_pos_iff.mpr h
  · exact h1

end Preflate.HuffCalcT
