/- `decStreamChk_ok` for the parameter vector the modelled estimator chooses, on what the parser returns. -/
import Preflate.Proofs.ChainsSafeDec
import Preflate.Proofs.ChainsSafePublic
namespace Preflate.Proofs
open Preflate Preflate.Chains

/-- PUBLIC FORM: on everything the parser returns, under the parameters the modelled estimator
    chooses, reconstruction from the corrections the analysis produced reaches none of the panic
    sites of the match finder / hash chains -/
theorem public_decStreamChk_ok (d : List UInt8) (pr : Parsed) (hp : parse d = .ok pr) (p : Params)
    (he : Est.estimate pr.plain pr.blocks = .ok p) (ops : List Op)
    (h : encStream (pred p) pr.plain pr.blocks pr.eofPadding = .ok ops) :
    decStreamChk p pr.plain ops = .ok () := by
  obtain ⟨hv, hpad⟩ := parse_valid_unbounded (bytesToBits d) pr hp
  have hsz := parse_plain_lt d pr hp
  exact decStreamChk_ok p pr.plain pr.blocks pr.eofPadding (estimate_in_range pr.plain pr.blocks p hv he)
    (estimate_lazyDepthOK' pr.plain pr.blocks p he) (by omega) hv hpad
    (estimate_noRefAt4k pr.plain pr.blocks p he) ops h

end Preflate.Proofs
