/- C01 helpers: Except plumbing, varint, be32, takeExact. -/
import Preflate.Model.Container
namespace Preflate.Proofs
open Preflate

theorem c_bind_eq_ok {α β} (x : R α) (f : α → R β) (b : β) :
    (x >>= f) = .ok b ↔ ∃ a, x = .ok a ∧ f a = .ok b := by
  cases x <;> simp [bind, Except.bind]

theorem c_bind_ok {α β} (a : α) (f : α → R β) : ((.ok a : R α) >>= f) = f a := rfl

theorem or_shift (acc x s : Nat) (h : acc < 2 ^ s) : acc ||| (x <<< s) = acc + x * 2 ^ s := by
  rw [Nat.or_comm, ← Nat.shiftLeft_add_eq_or_of_lt h, Nat.shiftLeft_eq, Nat.add_comm]

theorem readVarint_write (fuel : Nat) : ∀ (fuel' shift acc v : Nat) (rest : Bytes),
    (writeVarint fuel v).length ≤ fuel' → 0 < fuel → v < 2 ^ (7 * fuel) → shift < 32 → v * 2 ^ shift < 2 ^ 32 →
    acc < 2 ^ shift →
    readVarint fuel' shift acc (writeVarint fuel v ++ rest) = .ok (acc + v * 2 ^ shift, rest) := by
  induction fuel with
  | zero => intro _ _ _ _ _ _ h; omega
  | succ fuel ih =>
    intro fuel' shift acc v rest hle _ hv hs hvs hacc
    obtain ⟨f', rfl⟩ : ∃ f', fuel' = f' + 1 := by
      refine ⟨fuel' - 1, ?_⟩
      have : 0 < (writeVarint (fuel + 1) v).length := by
        simp only [writeVarint]; split <;> simp
      omega
    have hP : 0 < 2 ^ shift := Nat.two_pow_pos _
    by_cases h128 : v / 128 = 0
    · have hv128 : v < 128 := by omega
      have hmod : v % 128 = v := Nat.mod_eq_of_lt hv128
      have hlt : v <<< shift < 4294967296 := by rw [Nat.shiftLeft_eq]; exact hvs
      simp only [writeVarint, h128, ne_eq, not_true_eq_false, if_false, List.cons_append,
        List.nil_append, readVarint, ge_iff_le, Nat.not_le.mpr hs, hmod, Nat.zero_mod, if_true,
        Nat.mod_eq_of_lt hlt, or_shift acc v shift hacc]
    · have hb1 : (v % 128 + 128) % 128 = v % 128 := by omega
      have hb2 : (v % 128 + 128) / 128 % 2 = 1 := by omega
      have hmul : v % 128 * 2 ^ shift ≤ v * 2 ^ shift :=
        Nat.mul_le_mul_right _ (Nat.mod_le _ _)
      have hlt : (v % 128) <<< shift < 4294967296 := by rw [Nat.shiftLeft_eq]; omega
      simp only [writeVarint, h128, ne_eq, not_false_eq_true, if_true, List.cons_append,
        readVarint, ge_iff_le, Nat.not_le.mpr hs, if_false, hb1, hb2, Nat.one_ne_zero,
        Nat.mod_eq_of_lt hlt, or_shift acc (v % 128) shift hacc]
      have hpow7 : 2 ^ (shift + 7) = 128 * 2 ^ shift := by rw [Nat.pow_add]; omega
      have hdecomp : v * 2 ^ shift = v % 128 * 2 ^ shift + v / 128 * (128 * 2 ^ shift) := by
        conv => lhs; rw [← Nat.mod_add_div v 128]
        rw [Nat.add_mul, Nat.mul_comm 128 (v / 128), Nat.mul_assoc]
      have hfuel : 0 < fuel := by
        rcases fuel with _ | n
        · simp at hv; omega
        · omega
      have hv' : v / 128 < 2 ^ (7 * fuel) := by
        have : 2 ^ (7 * (fuel + 1)) = 2 ^ (7 * fuel) * 128 := by
          rw [Nat.mul_add, Nat.pow_add]
        rw [this] at hv
        exact Nat.div_lt_of_lt_mul (by rw [Nat.mul_comm]; exact hv)
      have hge : 1 * (128 * 2 ^ shift) ≤ v / 128 * (128 * 2 ^ shift) :=
        Nat.mul_le_mul_right _ (by omega)
      have hs' : shift + 7 < 32 := by
        apply (Nat.pow_lt_pow_iff_right (a := 2) (by omega)).mp
        rw [hpow7]; omega
      have hmodlt : v % 128 * 2 ^ shift ≤ 127 * 2 ^ shift :=
        Nat.mul_le_mul_right _ (by omega)
      have hlen' : (writeVarint fuel (v / 128)).length ≤ f' := by
        simp only [writeVarint, h128, ne_eq, not_false_eq_true, if_true, List.length_cons] at hle
        omega
      have hA : v / 128 * 2 ^ (shift + 7) < 2 ^ 32 := by rw [hpow7]; omega
      have hB : acc + v % 128 * 2 ^ shift < 2 ^ (shift + 7) := by rw [hpow7]; omega
      rw [ih f' (shift + 7) _ (v / 128) rest hlen' hfuel hv' hs' hA hB]
      rw [hpow7]
      congr 2
      omega

theorem varint_lt (v : Nat) (h : v < 2 ^ 32) (rest : Bytes) :
    getVarint (varint v ++ rest) = .ok (v, rest) := by
  unfold getVarint varint
  have hm : v % 4294967296 = v := Nat.mod_eq_of_lt h
  rw [hm]
  have := readVarint_write 5 ((writeVarint 5 v ++ rest).length + 1) 0 0 v rest
    (by simp; omega) (by omega) (by omega) (by omega) (by omega) (by omega)
  simpa using this

theorem varint_length_pos (v : Nat) : 0 < (varint v).length := by
  unfold varint
  simp only [writeVarint]; split <;> simp

theorem c_be32_length (v : Nat) : (be32 v).length = 4 := rfl

theorem be32_ofBe32 (l : Bytes) (hl : l.length = 4) (hb : ∀ x ∈ l, x < 256) :
    be32 (ofBe32 l) = l := by
  match l, hl with
  | [a, b, c, d], _ =>
    have ha : a < 256 := hb a (by simp)
    have hb' : b < 256 := hb b (by simp)
    have hc : c < 256 := hb c (by simp)
    have hd : d < 256 := hb d (by simp)
    simp only [ofBe32, be32]
    congr 1
    · omega
    congr 1
    · omega
    congr 1
    · omega
    congr 1
    omega

theorem ofBe32_lt (l : Bytes) (hb : ∀ x ∈ l, x < 256) : ofBe32 l < 2 ^ 32 := by
  unfold ofBe32
  split
  · rename_i a b c d
    have ha : a < 256 := hb a (by simp)
    have hb' : b < 256 := hb b (by simp)
    have hc : c < 256 := hb c (by simp)
    have hd : d < 256 := hb d (by simp)
    omega
  · omega

theorem takeExact_append (x rest : Bytes) : takeExact x.length (x ++ rest) = .ok (x, rest) := by
  simp [takeExact]

theorem takeExact_append' (n : Nat) (x rest : Bytes) (h : x.length = n) :
    takeExact n (x ++ rest) = .ok (x, rest) := by
  subst h; exact takeExact_append x rest

end Preflate.Proofs
