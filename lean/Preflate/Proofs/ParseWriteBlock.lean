/-
Completeness direction of C07, blocks: `readBlock` inverts `writeBlock`, `readBlocks` inverts
`writeBlocks`.
-/
import Preflate.Proofs.ParseWriteTok
namespace Preflate.Proofs
open Preflate Preflate.Gen
set_option linter.unusedSimpArgs false
set_option linter.unusedVariables false

theorem fixedLit_valid : validLengths fixedLitLengths = true := by decide +kernel
theorem fixedDist_valid : validLengths fixedDistLengths = true := by decide +kernel
theorem fixed_eob : fixedLitLengths.getD 256 0 ≠ 0 := by decide +kernel

theorem mkTable_of_valid {l : List Nat} (h : validLengths l = true) :
    mkTable l = .ok (codeTable l) := by
  simp [mkTable, h]

def lastBit (last : Bool) : Nat := if last then 1 else 0

theorem lastBit_lt (last : Bool) : lastBit last < 2 ^ 1 := by cases last <;> decide
theorem lastBit_beq (last : Bool) : (lastBit last == 1) = last := by cases last <;> rfl

theorem hdr_stored (last : Bool) : (if last then true else false) :: [false, false] =
    bitsOfNat 1 (lastBit last) ++ bitsOfNat 2 0 := by cases last <;> rfl
theorem hdr_fixed (last : Bool) : (if last then true else false) :: [true, false] =
    bitsOfNat 1 (lastBit last) ++ bitsOfNat 2 1 := by cases last <;> rfl
theorem hdr_dynamic (last : Bool) : (if last then true else false) :: [false, true] =
    bitsOfNat 1 (lastBit last) ++ bitsOfNat 2 2 := by cases last <;> rfl

theorem writeBlock_read {plain : Array Nat} {off pos : Nat} (last : Bool)
    {b : Block} (hv : ValidBlock plain pos b) (hc : BlockCoded off pos b) :
    ∃ w, writeBlock off last b = .ok w ∧ w.length = blockBits off b ∧ 0 < w.length ∧
      ∀ cur, Pre plain pos cur → ∀ rest, (off + w.length + rest.length) % 8 = 0 → ∃ cur',
        readBlock cur (w ++ rest) = .ok (last, b, cur', rest) ∧ Pre plain (blockEnd pos b) cur' := by
  cases b with
  | stored pad data =>
    obtain ⟨v1, v2, v3, v4⟩ := hv
    obtain ⟨c1, c2, c3⟩ := hc
    have hmod : data.length % 65536 = data.length := Nat.mod_eq_of_lt v2
    refine ⟨_, rfl, ?_, ?_, ?_⟩
    · simp only [List.length_append, List.length_cons, List.length_nil, padBits, length_bitsOfNat,
        length_flatMap_bytes, blockBits]
    · simp
    · intro cur hpre rest hrest
      simp only [List.length_append, List.length_cons, List.length_nil, padBits, length_bitsOfNat,
        length_flatMap_bytes] at hrest
      have hlen : (bitsOfNat (padCount (off + 3)) pad ++ (bitsOfNat 16 data.length ++
          (bitsOfNat 16 (65535 - data.length) ++ (data.flatMap (bitsOfNat 8) ++ rest)))).length % 8
          = padCount (off + 3) := by
        apply mod8_eq_padCount
        simp only [List.length_append, length_bitsOfNat, length_flatMap_bytes]
        omega
      have hg : ¬ cur.size > PLAIN_LIMIT := by rw [hpre.1]; omega
      have hsum : ¬ (data.length + (65535 - data.length) ≠ 65535) := by omega
      have hp16 : (2:Nat) ^ 16 = 65536 := by decide
      refine ⟨pushAll cur data, ?_, ?_⟩
      · rw [hdr_stored, hmod, readBlock]
        simp only [padBits, List.append_assoc, readBits_app (lastBit_lt last), ok_bind,
          readBits_app (n := 2) (v := 0) (by decide), if_true, hlen, readBits_app c1,
          readBits_app (n := 16) (v := data.length) (by omega),
          readBits_app (n := 16) (v := 65535 - data.length) (by omega), if_neg hsum, if_neg hg,
          readBytes_app data rest c2, lastBit_beq, pure_bind]
      · refine pre_pushAll data hpre v3 ?_
        intro i hi
        conv => lhs; rw [v4]
        simp [List.getD, hi]
  | fixed ts =>
    obtain ⟨v1, v2⟩ := hv
    obtain ⟨c1, c2⟩ := hc
    obtain ⟨w, hw, hlw, hn, hr⟩ := writeTokens_read fixedLit_valid fixedDist_valid fixed_eob ts pos
      c1 v1 c2
    refine ⟨(if last then true else false) :: [true, false] ++ w, ?_, ?_, by simp, ?_⟩
    · simp only [writeBlock, hw, ok_bind]
    · simp only [List.length_append, List.length_cons, List.length_nil, hlw, blockBits]
    · intro cur hpre rest _
      obtain ⟨cur', h1, h2⟩ := hr cur hpre rest ((w ++ rest).length + 1)
        (by simp only [List.length_append]; omega)
      refine ⟨cur', ?_, h2⟩
      rw [hdr_fixed, readBlock]
      simp only [List.append_assoc, readBits_app (lastBit_lt last), ok_bind,
        readBits_app (n := 2) (v := 1) (by decide), if_true, mkTable_of_valid fixedLit_valid,
        mkTable_of_valid fixedDist_valid, h1, lastBit_beq, pure_bind, Nat.one_ne_zero, if_false]
  | dynamic h ts =>
    obtain ⟨v1, v2, v3⟩ := hv
    obtain ⟨c0, c1, c2⟩ := hc
    obtain ⟨wh, hwh, hlh, hrh⟩ := writeHeader_read v3 c0
    obtain ⟨w, hw, hlw, hn, hr⟩ := writeTokens_read c1.lit_valid c1.dist_valid c1.eob ts pos
      c1.toks v1 c2
    refine ⟨(if last then true else false) :: [false, true] ++ wh ++ w, ?_, ?_, by simp, ?_⟩
    · simp only [writeBlock, hwh, litDistLengths_eq v3, hw, ok_bind]
    · simp only [List.length_append, List.length_cons, List.length_nil, hlw, hlh, blockBits]
    · intro cur hpre rest _
      obtain ⟨cur', h1, h2⟩ := hr cur hpre rest ((w ++ rest).length + 1)
        (by simp only [List.length_append]; omega)
      refine ⟨cur', ?_, h2⟩
      rw [hdr_dynamic, readBlock]
      simp only [List.append_assoc, readBits_app (lastBit_lt last), ok_bind,
        readBits_app (n := 2) (v := 2) (by decide), if_true, hrh, litDistLengths_eq v3,
        mkTable_of_valid c1.lit_valid, mkTable_of_valid c1.dist_valid, h1, lastBit_beq, pure_bind,
        if_false, show ¬ (2 = 0) by decide, show ¬ (2 = 1) by decide]

theorem writeBlocks_read {plain : Array Nat} (pad : Nat) : ∀ (blocks : List Block) (off pos : Nat),
    blocks ≠ [] → ValidBlocks plain pos blocks → BlocksCoded off pos blocks pad →
    ∃ w, writeBlocks off blocks = .ok w ∧ blocks.length ≤ w.length ∧
      pad < 2 ^ padCount (off + w.length) ∧
      ∀ cur, Pre plain pos cur → ∀ rest fuel, w.length < fuel →
        (off + w.length + rest.length) % 8 = 0 → ∃ cur',
        readBlocks fuel cur (w ++ rest) = .ok (blocks, cur', rest) ∧
        Pre plain (blocksEnd pos blocks) cur' := by
  intro blocks
  induction blocks with
  | nil => intro _ _ h; exact absurd rfl h
  | cons b r ih =>
    intro off pos _ hv hc
    obtain ⟨hv1, hv2⟩ := hv
    obtain ⟨hc1, hc2⟩ := hc
    cases r with
    | nil =>
      obtain ⟨w, hw, hlw, hpos, hr⟩ := writeBlock_read true hv1 hc1
      simp only [BlocksCoded] at hc2
      refine ⟨w, by simpa [writeBlocks] using hw, by simp only [List.length_cons, List.length_nil]; omega,
        by rw [hlw]; exact hc2, ?_⟩
      intro cur hpre rest fuel hf hal
      obtain ⟨f, rfl⟩ : ∃ f, fuel = f + 1 := ⟨fuel - 1, by omega⟩
      obtain ⟨cur', h1, h2⟩ := hr cur hpre rest hal
      refine ⟨cur', ?_, by simpa [blocksEnd] using h2⟩
      rw [readBlocks]
      simp only [h1, ok_bind, if_true]
    | cons b2 r2 =>
      obtain ⟨w, hw, hlw, hpos, hr⟩ := writeBlock_read false hv1 hc1
      rw [← hlw] at hc2
      obtain ⟨w2, hw2, hn2, hpad2, hr2⟩ := ih (off + w.length) (blockEnd pos b) (by simp) hv2 hc2
      refine ⟨w ++ w2, ?_, ?_, ?_, ?_⟩
      · simp only [writeBlocks, hw, ok_bind, hw2]
      · simp only [List.length_cons, List.length_append] at hn2 ⊢; omega
      · rw [List.length_append, ← Nat.add_assoc]; exact hpad2
      · intro cur hpre rest fuel hf hal
        simp only [List.length_append] at hf hal
        obtain ⟨f, rfl⟩ : ∃ f, fuel = f + 1 := ⟨fuel - 1, by omega⟩
        obtain ⟨cur1, h1, h2⟩ := hr cur hpre (w2 ++ rest) (by simp only [List.length_append]; omega)
        obtain ⟨cur', h3, h4⟩ := hr2 cur1 h2 rest f (by omega) (by omega)
        refine ⟨cur', ?_, by simpa [blocksEnd] using h4⟩
        rw [readBlocks, List.append_assoc]
        simp only [h1, ok_bind, h3, Bool.false_eq_true, if_false]

end Preflate.Proofs
