/-
The array produced by `buildLevels`: a concatenation of level blocks, each block being the leaves
of that level followed by the links to the pairs of the next deeper level.
-/
import Preflate.Proofs.HuffTreeLayout
namespace Preflate.Proofs
open Preflate
set_option linter.unusedSimpArgs false

-- ---------------------------------------------------------------------------------------------
-- leaves

def leavesUpTo (l : List Nat) (b n : Nat) : List Int :=
  (List.range n).filterMap fun j => if l.getD j 0 = b then some (-1 - (j : Int)) else none

theorem levelLeaves_eq (l : List Nat) (b : Nat) : levelLeaves l b = leavesUpTo l b l.length := rfl

theorem leavesUpTo_succ (l : List Nat) (b n : Nat) :
    leavesUpTo l b (n + 1) = leavesUpTo l b n ++ (if l.getD n 0 = b then [-1 - (n : Int)] else []) := by
  unfold leavesUpTo
  rw [List.range_succ, List.filterMap_append]
  congr 1
  by_cases h : l.getD n 0 = b <;>
    simp only [List.filterMap_cons, List.filterMap_nil, h, if_true, if_false]

theorem countEq_take_succ (l : List Nat) (b n : Nat) (hn : n < l.length) :
    countEq (l.take (n + 1)) b = countEq (l.take n) b + (if l.getD n 0 = b then 1 else 0) := by
  have hg : l.getD n 0 = l[n] := by simp [List.getD, hn]
  rw [List.take_succ_eq_append_getElem hn, hg]
  unfold countEq
  rw [List.filter_append, List.length_append]
  congr 1
  by_cases h : l[n] = b <;> simp [h]

theorem leavesUpTo_length (l : List Nat) (b n : Nat) (hn : n ≤ l.length) :
    (leavesUpTo l b n).length = countEq (l.take n) b := by
  induction n with
  | zero => simp [leavesUpTo, countEq]
  | succ n ih =>
    rw [leavesUpTo_succ, countEq_take_succ l b n (by omega), List.length_append, ih (by omega)]
    congr 1
    by_cases h : l.getD n 0 = b <;>
      simp only [h, if_true, if_false, List.length_singleton, List.length_nil]

theorem levelLeaves_length (l : List Nat) (b : Nat) : (levelLeaves l b).length = countEq l b := by
  rw [levelLeaves_eq, leavesUpTo_length l b l.length (Nat.le_refl _), List.take_length]

/-- the symbol `s` of length `b` sits at its rank among the symbols of that length -/
theorem leavesUpTo_rank (l : List Nat) (b n : Nat) (hn : n ≤ l.length) (s : Nat) (hs : s < n)
    (hb : l.getD s 0 = b) :
    (leavesUpTo l b n)[countEq (l.take s) b]? = some (-1 - (s : Int)) := by
  induction n with
  | zero => omega
  | succ n ih =>
    rw [leavesUpTo_succ]
    by_cases hsn : s = n
    · subst hsn
      rw [List.getElem?_append_right (by rw [leavesUpTo_length l b s (by omega)]; exact Nat.le_refl _),
        leavesUpTo_length l b s (by omega)]
      simp only [hb, if_true, Nat.sub_self, List.getElem?_cons_zero]
    · have := ih (by omega) (by omega)
      rw [List.getElem?_append_left]
      · exact this
      · have h := List.getElem?_eq_some_iff.mp this
        exact h.1

/-- every entry of a leaf block is a symbol of that length, at its rank -/
theorem leavesUpTo_entry (l : List Nat) (b n : Nat) (hn : n ≤ l.length) (p : Nat)
    (hp : p < (leavesUpTo l b n).length) :
    ∃ s, s < n ∧ l.getD s 0 = b ∧ countEq (l.take s) b = p ∧
      (leavesUpTo l b n)[p]? = some (-1 - (s : Int)) := by
  induction n with
  | zero => simp [leavesUpTo] at hp
  | succ n ih =>
    by_cases hp' : p < (leavesUpTo l b n).length
    · obtain ⟨s, h1, h2, h3, h4⟩ := ih (by omega) hp'
      refine ⟨s, by omega, h2, h3, ?_⟩
      rw [leavesUpTo_succ, List.getElem?_append_left hp']; exact h4
    · rw [leavesUpTo_succ, List.length_append] at hp
      by_cases hb : l.getD n 0 = b
      · simp only [hb, if_true, List.length_singleton] at hp
        have hpe : p = (leavesUpTo l b n).length := by omega
        refine ⟨n, by omega, hb, ?_, ?_⟩
        · rw [hpe, leavesUpTo_length l b n (by omega)]
        · rw [leavesUpTo_succ, List.getElem?_append_right (by omega), hpe]
          simp only [hb, if_true, Nat.sub_self, List.getElem?_cons_zero]
      · simp only [hb, if_false, List.length_nil] at hp
        omega

theorem levelLeaves_rank (l : List Nat) (s : Nat) (hs : s < l.length) :
    (levelLeaves l (l.getD s 0)).getD (countEq (l.take s) (l.getD s 0)) 0 = -1 - (s : Int) := by
  rw [List.getD_eq_getElem?_getD, levelLeaves_eq, leavesUpTo_rank l _ l.length (Nat.le_refl _) s hs rfl]
  rfl

theorem rank_lt (l : List Nat) (s : Nat) (hs : s < l.length) :
    countEq (l.take s) (l.getD s 0) < countEq l (l.getD s 0) := by
  have h := leavesUpTo_rank l _ l.length (Nat.le_refl _) s hs rfl
  have h := (List.getElem?_eq_some_iff.mp h).1
  rwa [← levelLeaves_eq, levelLeaves_length] at h

theorem levelLeaves_entry (l : List Nat) (b p : Nat) (hp : p < countEq l b) :
    ∃ s, s < l.length ∧ l.getD s 0 = b ∧ countEq (l.take s) b = p ∧
      (levelLeaves l b).getD p 0 = -1 - (s : Int) := by
  rw [← levelLeaves_length] at hp
  obtain ⟨s, h1, h2, h3, h4⟩ := leavesUpTo_entry l b l.length (Nat.le_refl _) p hp
  refine ⟨s, h1, h2, h3, ?_⟩
  rw [List.getD_eq_getElem?_getD, levelLeaves_eq, h4]; rfl

-- ---------------------------------------------------------------------------------------------
-- links

theorem parentLinks_eq (m fuel j : Nat) (h : m < fuel) :
    parentLinks fuel j (j + 2 * m) = (List.range m).map (fun k => ((j + 2 * k : Nat) : Int)) := by
  induction m generalizing fuel j with
  | zero =>
    obtain ⟨f, rfl⟩ : ∃ f, fuel = f + 1 := ⟨fuel - 1, by omega⟩
    simp [parentLinks]
  | succ m ih =>
    obtain ⟨f, rfl⟩ : ∃ f, fuel = f + 1 := ⟨fuel - 1, by omega⟩
    have hlt : j < j + 2 * (m + 1) := by omega
    simp only [parentLinks, hlt, if_true]
    rw [show j + 2 * (m + 1) = (j + 2) + 2 * m by omega, ih f (j + 2) (by omega),
      List.range_succ_eq_map, List.map_cons, List.map_map]
    congr 1
    apply List.map_congr_left
    intro k _
    simp only [Function.comp, Nat.mul_zero, Nat.add_zero]
    congr 1; omega

-- ---------------------------------------------------------------------------------------------
-- blocks

def blockOf (l : List Nat) (b : Nat) : List Int :=
  levelLeaves l b ++
    (List.range (width l b - cntP l b)).map (fun k => ((startOf l (b + 1) + 2 * k : Nat) : Int))

def blocks (l : List Nat) : Nat → List Int
  | 0 => []
  | b + 1 => blockOf l (b + 1) ++ blocks l b

/-- the content of the array at position `p` of level `b` -/
def entry (l : List Nat) (b p : Nat) : Int :=
  if p < cntP l b then (levelLeaves l b).getD p 0
  else ((startOf l (b + 1) + 2 * (p - cntP l b) : Nat) : Int)

theorem blockOf_length {l : List Nat} (hc : Complete l) (b : Nat) (h1 : 1 ≤ b) (h15 : b ≤ 15) :
    (blockOf l b).length = width l b := by
  have := hc.le b h15
  simp only [blockOf, List.length_append, levelLeaves_length, List.length_map, List.length_range]
  rw [← cntP_pos l h1]; omega

theorem blockOf_entry {l : List Nat} (b p : Nat) (h1 : 1 ≤ b) (hp : p < width l b) :
    (blockOf l b)[p]? = some (entry l b p) := by
  unfold blockOf entry
  by_cases hlt : p < cntP l b
  · have hlt' : p < (levelLeaves l b).length := by rwa [levelLeaves_length, ← cntP_pos l h1]
    rw [List.getElem?_append_left hlt']
    simp only [hlt, if_true, List.getD_eq_getElem?_getD, List.getElem?_eq_getElem hlt',
      Option.getD_some]
  · have hlen : (levelLeaves l b).length = cntP l b := by rw [levelLeaves_length, cntP_pos l h1]
    rw [List.getElem?_append_right (by omega), hlen]
    simp only [hlt, if_false]
    rw [List.getElem?_map, List.getElem?_range (by omega)]
    rfl

theorem startOf_step {l : List Nat} (hc : Complete l) (b : Nat) (h15 : b ≤ 15) :
    startOf l b = startOf l (b + 1) + width l (b + 1) := by
  by_cases h : b < 15
  · exact startOf_eq l h
  · have : b = 15 := by omega
    subst this
    rw [hc.top]; rfl

theorem buildLevels_eq {l : List Nat} (hc : Complete l) (b : Nat) (h15 : b ≤ 15) (nodes : List Int)
    (hn : nodes.length = startOf l b) :
    buildLevels l b nodes (startOf l (b + 1)) = nodes ++ blocks l b := by
  induction b generalizing nodes with
  | zero => simp [buildLevels, blocks]
  | succ b ih =>
    have hle := hc.le (b + 1) h15
    have hs := startOf_step hc (b + 1) h15
    have hw : width l (b + 2) = 2 * (width l (b + 1) - cntP l (b + 1)) := by
      rw [width_succ]; omega
    have hpl : parentLinks (nodes.length + 1) (startOf l (b + 1 + 1)) nodes.length
        = (List.range (width l (b + 1) - cntP l (b + 1))).map
            (fun k => ((startOf l (b + 1 + 1) + 2 * k : Nat) : Int)) := by
      rw [hn, hs, hw]
      exact parentLinks_eq _ _ _ (by omega)
    simp only [buildLevels]
    rw [hpl, List.append_assoc]
    have hb : levelLeaves l (b + 1) ++ (List.range (width l (b + 1) - cntP l (b + 1))).map
            (fun k => ((startOf l (b + 1 + 1) + 2 * k : Nat) : Int)) = blockOf l (b + 1) := rfl
    rw [hb]
    have hlen : (nodes ++ blockOf l (b + 1)).length = startOf l b := by
      rw [List.length_append, blockOf_length hc (b + 1) (by omega) h15, hn,
        startOf_eq l (b := b) (by omega)]
    have := ih (by omega) (nodes ++ blockOf l (b + 1)) hlen
    rw [hn]
    rw [this, blocks, List.append_assoc]

theorem blocks_length {l : List Nat} (hc : Complete l) (n : Nat) (h15 : n ≤ 15) :
    startOf l n + (blocks l n).length = startOf l 0 := by
  induction n with
  | zero => simp [blocks]
  | succ n ih =>
    rw [blocks, List.length_append, blockOf_length hc (n + 1) (by omega) h15]
    have := ih (by omega)
    have := startOf_eq l (b := n) (by omega)
    omega

theorem blocks_entry {l : List Nat} (hc : Complete l) (n : Nat) (h15 : n ≤ 15) (pre : List Int)
    (hpre : pre.length = startOf l n) (b p : Nat) (h1 : 1 ≤ b) (hbn : b ≤ n) (hp : p < width l b) :
    (pre ++ blocks l n)[startOf l b + p]? = some (entry l b p) := by
  induction n generalizing pre with
  | zero => omega
  | succ n ih =>
    rw [blocks, ← List.append_assoc]
    have hlen : (pre ++ blockOf l (n + 1)).length = startOf l n := by
      rw [List.length_append, blockOf_length hc (n + 1) (by omega) h15, hpre,
        startOf_eq l (b := n) (by omega)]
    by_cases hb : b ≤ n
    · exact ih (by omega) _ hlen hb
    · have hb' : b = n + 1 := by omega
      subst hb'
      rw [List.getElem?_append_left (by rw [hlen, startOf_eq l (b := n) (by omega)]; omega),
        List.getElem?_append_right (by omega), hpre, Nat.add_sub_cancel_left]
      exact blockOf_entry (n + 1) p h1 hp

-- ---------------------------------------------------------------------------------------------
-- the top level

theorem foldl_max_le (l : List Nat) (a c : Nat) (ha : a ≤ c) (hl : ∀ x ∈ l, x ≤ c) :
    l.foldl max a ≤ c := by
  induction l generalizing a with
  | nil => simpa
  | cons x xs ih =>
    simp only [List.foldl_cons]
    exact ih _ (by have := hl x (by simp); omega) (fun y hy => hl y (by simp [hy]))

theorem le_foldl_max (l : List Nat) (a : Nat) :
    a ≤ l.foldl max a ∧ ∀ x ∈ l, x ≤ l.foldl max a := by
  induction l generalizing a with
  | nil => simp
  | cons x xs ih =>
    simp only [List.foldl_cons]
    obtain ⟨h1, h2⟩ := ih (max a x)
    refine ⟨by omega, fun y hy => ?_⟩
    rcases List.mem_cons.mp hy with rfl | hy
    · omega
    · exact h2 y hy

theorem levelLeaves_nil (l : List Nat) (b : Nat) (h : ∀ x ∈ l, x < b) : levelLeaves l b = [] := by
  unfold levelLeaves
  rw [List.filterMap_eq_nil_iff]
  intro j hj
  have hj := List.mem_range.mp hj
  have : l.getD j 0 ≠ b := by
    have hg : l.getD j 0 = l[j] := by simp [List.getD, hj]
    have := h l[j] (List.getElem_mem hj)
    omega
  simp only [this, if_false]

theorem buildLevels_top (l : List Nat) (m k : Nat) (h : ∀ x ∈ l, x ≤ m) :
    buildLevels l (m + k) [] 0 = buildLevels l m [] 0 := by
  induction k with
  | zero => rfl
  | succ k ih =>
    rw [← Nat.add_assoc]
    simp only [buildLevels]
    rw [levelLeaves_nil l (m + k + 1) (fun x hx => by have := h x hx; omega)]
    simp only [List.append_nil, List.length_nil, parentLinks, Nat.lt_irrefl, if_false]
    exact ih

/-- the node list `buildTree` computes -/
theorem buildLevels_blocks {l : List Nat} (hc : Complete l) :
    buildLevels l (l.foldl max 0) [] 0 = blocks l 15 := by
  have hm : l.foldl max 0 ≤ 15 :=
    foldl_max_le l 0 15 (by omega) (fun x hx => by have := hc.lt16 x hx; omega)
  have h1 := buildLevels_top l (l.foldl max 0) (15 - l.foldl max 0) (le_foldl_max l 0).2
  rw [show l.foldl max 0 + (15 - l.foldl max 0) = 15 by omega] at h1
  rw [← h1]
  have := buildLevels_eq hc 15 (by omega) [] rfl
  simpa [startOf_16] using this

theorem buildTree_eq {l : List Nat} (hc : Complete l) : buildTree l = .ok (blocks l 15).toArray := by
  have hlen : (blocks l 15).length = ((l.filter (· ≠ 0)).length - 1) * 2 := by
    have := blocks_length hc 15 (by omega)
    rw [startOf_15, Nat.zero_add] at this
    rw [this, size_eq hc]
  unfold buildTree
  simp only [buildLevels_blocks hc]
  rw [if_pos (by omega), hlen, Nat.sub_self]
  simp

end Preflate.Proofs
