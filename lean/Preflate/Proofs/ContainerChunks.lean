/- C01 helpers: chunk writer / reader round trip over a covering chunk list. -/
import Preflate.Proofs.ContainerIdat
namespace Preflate.Proofs
open Preflate

def ChunkOk (o : Oracle) (crc : Bytes → Nat) (src : Bytes) (pos : Nat) : Chunk → Prop
  | .literal n => pos + n ≤ src.length
  | .deflate r => o.verified (src.drop pos) = .ok r
  | .idat c r => ∃ payload, parseIdat crc (src.drop pos) = .ok (c, payload) ∧
      o.verified payload = .ok r ∧ r.size = payload.length

def Covers (o : Oracle) (crc : Bytes → Nat) (src : Bytes) : Nat → List Chunk → Prop
  | pos, [] => pos = src.length
  | pos, c :: cs => pos ≤ src.length ∧ ChunkOk o crc src pos c ∧
      Covers o crc src (pos + c.extent) cs

theorem verified_spec (o : Oracle) (d : Bytes) (r : Res) (h : o.verified d = .ok r) :
    o.recompress r.plain r.corr = .ok (d.take r.size) ∧ r.size ≤ d.length := by
  unfold Oracle.verified at h
  cases ha : o.analyze d with
  | error e => rw [ha] at h; cases h
  | ok r' =>
    rw [ha, c_bind_ok] at h
    cases hr : o.recompress r'.plain r'.corr with
    | error e => rw [hr] at h; cases h
    | ok back =>
      rw [hr, c_bind_ok] at h
      by_cases hsz : r'.size > d.length
      · simp only [hsz, if_true] at h
        split at h <;> (rw [throw_bind] at h; cases h)
      · simp only [hsz, if_false] at h
        split at h
        · rename_i hback
          injection h with h; subst h
          exact ⟨by rw [hr, hback], by omega⟩
        · cases h

theorem streamPayload_append (r : Res) (rest : Bytes) : streamPayload r ++ rest =
    varint r.plain.length ++ (r.plain ++ (varint r.corr.length ++ (r.corr ++ rest))) := by
  simp [streamPayload]

theorem readChunk_write (o : Oracle) (crc : Bytes → Nat) (src : Bytes)
    (hb : ∀ b ∈ src, b < 256) (hf : src.length < 2 ^ 32)
    (hsize : ∀ d r, o.verified d = .ok r → r.plain.length < 2 ^ 32 ∧ r.corr.length < 2 ^ 32)
    (pos : Nat) (c : Chunk) (hpos : pos ≤ src.length) (hc : ChunkOk o crc src pos c) :
    pos + c.extent ≤ src.length ∧
    ∃ a, writeChunk (src.drop pos) c = .ok a ∧ 0 < a.length ∧
      ∀ rest, readChunk o crc (a ++ rest) = .ok (some ((src.drop pos).take c.extent, rest)) := by
  cases c with
  | literal n =>
    simp only [ChunkOk] at hc
    have hn : n ≤ (src.drop pos).length := by simp only [List.length_drop]; omega
    refine ⟨hc, [0] ++ varint n ++ (src.drop pos).take n, by simp only [writeChunk, if_pos hn],
      by simp, ?_⟩
    intro rest
    have hlen : ((src.drop pos).take n).length = n := by
      simp only [List.length_take]; omega
    simp only [List.cons_append, List.nil_append, List.append_assoc, readChunk, if_true,
      varint_lt n (by omega) _, c_bind_ok, takeExact_append' n _ rest hlen, Chunk.extent]
  | deflate r =>
    simp only [ChunkOk] at hc
    obtain ⟨hrec, hle⟩ := verified_spec o _ r hc
    obtain ⟨hp, hcl⟩ := hsize _ r hc
    simp only [List.length_drop] at hle
    refine ⟨by simp only [Chunk.extent]; omega, _, rfl, by simp, ?_⟩
    intro rest
    simp only [List.cons_append, List.nil_append, readChunk, (by decide : ¬ (1 = 0)), if_false,
      true_or, if_true, (by decide : ¬ (1 = 2)), pure, Except.pure, c_bind_ok,
      streamPayload_append, varint_lt _ hp, takeExact_append, varint_lt _ hcl, hrec, Chunk.extent]
  | idat ic r =>
    simp only [ChunkOk] at hc
    obtain ⟨payload, hparse, hver, hsz⟩ := hc
    obtain ⟨hrec, hle⟩ := verified_spec o _ r hver
    obtain ⟨hp, hcl⟩ := hsize _ r hver
    have hbd : ∀ b ∈ src.drop pos, b < 256 := fun b h => hb b (List.mem_of_mem_drop h)
    have hld : (src.drop pos).length < 2 ^ 32 := by simp only [List.length_drop]; omega
    obtain ⟨htot, hsizes, hhdr, hadler, hrecr⟩ := parseIdat_spec crc _ hbd hld ic payload hparse
    simp only [List.length_drop] at htot
    refine ⟨by simp only [Chunk.extent]; omega, _, rfl, by simp, ?_⟩
    intro rest
    obtain ⟨c', hread, e1, e2, e3⟩ := readIdatContents_write ic (streamPayload r ++ rest) hsizes hhdr hadler
    rw [streamPayload_append] at hread
    have hback : List.take r.size payload = payload := by
      rw [hsz]; exact List.take_length
    simp only [List.cons_append, List.nil_append, readChunk, List.append_assoc, hread,
      (by decide : ¬ (2 = 0)), if_false,
      or_true, if_true, pure, Except.pure, c_bind_ok,
      streamPayload_append, varint_lt _ hp, takeExact_append, varint_lt _ hcl, hrec, Chunk.extent,
      hback, hrecr c' e1 e2 e3]
theorem readChunks_write (o : Oracle) (crc : Bytes → Nat) (src : Bytes)
    (hb : ∀ b ∈ src, b < 256) (hf : src.length < 2 ^ 32)
    (hsize : ∀ d r, o.verified d = .ok r → r.plain.length < 2 ^ 32 ∧ r.corr.length < 2 ^ 32) :
    ∀ (chunks : List Chunk) (pos : Nat), Covers o crc src pos chunks →
      ∃ w, writeChunks src pos chunks = .ok w ∧
        ∀ fuel, w.length + 1 ≤ fuel → readChunks o crc fuel w = .ok (src.drop pos) := by
  intro chunks
  induction chunks with
  | nil =>
    intro pos hcov
    simp only [Covers] at hcov
    refine ⟨[], rfl, ?_⟩
    intro fuel hfuel
    obtain ⟨f, rfl⟩ : ∃ f, fuel = f + 1 := ⟨fuel - 1, by omega⟩
    subst hcov
    simp only [readChunks, readChunk, c_bind_ok, List.drop_length]
  | cons c cs ih =>
    intro pos hcov
    simp only [Covers] at hcov
    obtain ⟨hpos, hok, hrest⟩ := hcov
    obtain ⟨hext, a, hwa, hapos, hread⟩ := readChunk_write o crc src hb hf hsize pos c hpos hok
    obtain ⟨w, hww, hrw⟩ := ih _ hrest
    refine ⟨a ++ w, ?_, ?_⟩
    · simp only [writeChunks, Nat.not_lt.mpr hpos, if_false, hwa, hww, c_bind_ok]
    · intro fuel hfuel
      obtain ⟨f, rfl⟩ : ∃ f, fuel = f + 1 := ⟨fuel - 1, by omega⟩
      have hf' : w.length + 1 ≤ f := by simp only [List.length_append] at hfuel; omega
      simp only [readChunks, hread w, c_bind_ok, hrw f hf']
      rw [← List.drop_drop, List.take_append_drop]

end Preflate.Proofs
