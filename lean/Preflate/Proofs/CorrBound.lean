/-
SIZE OF THE CORRECTION DATA of `decompress_deflate_stream` (model: `decompressBytes Est.estimate
Chains.pred`): LINEAR in the length of the input, with explicit constants.

    bytes.size ≤ 224 * d.length + 202                                  (`corr_size_le`)

Layers (each a theorem of its own):

1. Proofs/CorrBoundVP8.lean    `writeEvents_size_le8 : 8 * (writeEvents evs).size ≤ 7 * evs.length + 239`
                               `writeEvents_size_le  : (writeEvents evs).size ≤ evs.length + 30`
2. Proofs/CorrBoundCodec.lean  `encodeOps_length_eq  : evs.length = 2 * c + opsCost ops`   (exact)
                               `encodeOps_length_le  : evs.length ≤ 63 * ops.length + 0`   (well-formed ops)
3. Proofs/CorrBoundPredict.lean `encStream_cost      : opsCost ops ≤ 32 * blocksBits blocks + 19`
                               (tight predictor; Proofs/CorrBoundChains.lean: `Chains.pred` is tight)
                               here: `encStream_ops_le` (number of operations, from the cost)
   Proofs/CorrBoundCount.lean  `encStream_ops_count_le : ops.length ≤ 4 * totalTokens blocks + 668 * blocks.length + 2`
                               (any predictor; not used below)
4. Proofs/CorrBoundParse.lean  `parse_bits           : blocksBits p.blocks ≤ 8 * d.length`
                               `parse_totals         : totalTokens p.blocks + p.blocks.length ≤ 8 * d.length`

Composition: the parameter header costs at most 178 decisions (`writeParams_cost`), so
evs.length ≤ 178 + 32 * 8 * d.length + 19, and 8 * bytes.size ≤ 7 * (256 * d.length + 197) + 239.

WHY NOT BETTER. The bound charges every decision the worst case of the bool coder (7 bits) and every
Huffman symbol of the input the best case (1 bit). K = 224 = 7 * 32: 32 decisions per input bit is
reached by a run-length item of a dynamic header (type correction ≤ 37 and datum correction ≤ 511
against a one-bit code-length symbol); a reference token costs 58 against two bits.
-/
import Preflate.Proofs.CorrBoundVP8
import Preflate.Proofs.CorrBoundChains
import Preflate.Proofs.CorrBoundCount
import Preflate.Proofs.LibraryOracle
namespace Preflate.Proofs
open Preflate

-- ---------------------------------------------------------------------------------------------
-- the parameter header

theorem opsCost_values (l : List (Nat × Nat)) :
    opsCost (l.map fun bv => Op.value bv.1 bv.2) = (l.map Prod.fst).sum := by
  induction l with
  | nil => rfl
  | cons a l ih => simp [opsCost_cons, opCost, ih]

/-- `PreflateParameters::write`: at most 178 bypass bits -/
theorem writeParams_cost (p : Params) (hdr : List Op) (h : writeParams p = .ok hdr) :
    opsCost hdr ≤ 178 := by
  simp only [writeParams, bind_eq_ok] at h
  obtain ⟨wb, _, hash, hh, nice, _, chain, _, minLen, _, h⟩ := h
  cases h
  have hhash : opsCost hash ≤ 28 := by
    split at hh
    · simp only [bind_eq_ok] at hh
      obtain ⟨sh, _, hh⟩ := hh
      cases hh
      simp [opCost]
    · cases hh
      simp [opCost]
  have hpol : opsCost (if p.addPolicy = 1 ∨ p.addPolicy = 2 then
      [Op.value 3 p.addPolicy, Op.value 8 p.addLimit] else [Op.value 3 p.addPolicy]) ≤ 11 := by
    split <;> simp [opCost]
  simp only [opsCost_append, opsCost_cons, opsCost_nil, opCost] at hpol ⊢
  omega

-- ---------------------------------------------------------------------------------------------
-- number of operations (the coarse form of layer 3; not used by the composition)

/-- **layer 3, count form**: the number of operations of a valid stream, for a tight predictor whose
    operations are well formed (every well-formed operation costs at least one decision) -/
theorem encStream_ops_le {H : Type} (P : Pred H) (hb : PredTight P) (plain : Array Nat) (blocks : List Block)
    (pad : Nat) (hv : StreamValid plain blocks) (hpad : pad < 256)
    (ops : List Op) (he : encStream P plain blocks pad = .ok ops) (hwf : ∀ o ∈ ops, o.WF) :
    ops.length ≤ 32 * blocksBits blocks + 19 :=
  Nat.le_trans (length_le_opsCost_of_wf ops hwf) (encStream_cost P hb plain blocks pad hv hpad ops he)

-- ---------------------------------------------------------------------------------------------
-- composition

theorem encodeBytes_ok {ops : List Op} {bytes : Array UInt8} (h : encodeBytes ops = .ok bytes) :
    ∃ evs, encodeOps 0 ops = .ok evs ∧ bytes = VP8.writeEvents evs := by
  simp only [encodeBytes, bind_eq_ok] at h
  obtain ⟨evs, h1, h2⟩ := h
  simp only [Except.ok.injEq] at h2
  exact ⟨evs, h1, h2.symm⟩

/-- the number of binary decisions of a successful analysis -/
theorem analysis_decisions_le {H : Type} (est : Array Nat → List Block → R Params) (mk : Params → Pred H)
    (hb : ∀ q, PredTight (mk q)) (d : List UInt8) (hd : d.length < 2 ^ 61)
    (r : StreamResult) (h : decompressStream est mk false d = .ok r)
    (evs : List Ev) (he : encodeOps 0 r.corr = .ok evs) :
    evs.length ≤ 256 * d.length + 197 := by
  obtain ⟨p, params, hdr, body, h1, h2, h3, h4, rfl⟩ := decompressStream_ok h
  obtain ⟨hv, hpad⟩ := parse_valid_unbounded (bytesToBits d) p h1
  have e1 := encodeOps_length_eq (hdr ++ body) 0 (by omega) evs he
  have e2 := writeParams_cost params hdr h3
  have e3 := encStream_cost (mk params) (hb params) p.plain p.blocks p.eofPadding hv hpad body h4
  have e4 := parse_bits d p h1
  simp only [opsCost_append] at e1
  omega

/-- **COMPOSITION** (any estimator, any tight predictor family): the correction bytes of a successful
    analysis of an input below 512 MiB are at most 224 per input byte, plus 202 -/
theorem corr_size_le_of_tight {H : Type} (est : Array Nat → List Block → R Params) (mk : Params → Pred H)
    (hb : ∀ q, PredTight (mk q)) (verify : Bool) (d : List UInt8) (hd : d.length < 2 ^ 61)
    (plain : Array Nat) (bytes : Array UInt8) (n : Nat) (q : Params)
    (h : decompressBytes est mk verify d = .ok (plain, bytes, n, q)) :
    bytes.size ≤ 224 * d.length + 202 := by
  obtain ⟨r, h1, h2, _⟩ := decompressBytes_ok h
  obtain ⟨evs, h3, hbytes⟩ := encodeBytes_ok h2
  have e1 := analysis_decisions_le est mk hb d hd r h1 evs h3
  have e2 := writeEvents_size_le8 evs
  rw [hbytes]
  omega

/-- **COMPOSITION, the library's stream analysis**: `decompress_deflate_stream` with the modelled
    estimator and the executable predictor -/
theorem corr_size_le (verify : Bool) (d : List UInt8) (hd : d.length < 2 ^ 61)
    (plain : Array Nat) (bytes : Array UInt8) (n : Nat) (q : Params)
    (h : decompressBytes Est.estimate Chains.pred verify d = .ok (plain, bytes, n, q)) :
    bytes.size ≤ 224 * d.length + 202 :=
  corr_size_le_of_tight Est.estimate Chains.pred chains_pred_tight verify d hd plain bytes n q h

/-- the same for a candidate handed over by the container level -/
theorem corr_size_le_bytes (verify : Bool) (d : Bytes) (hd : d.length < 2 ^ 61)
    (plain : Array Nat) (bytes : Array UInt8) (n : Nat) (q : Params)
    (h : decompressBytes Est.estimate Chains.pred verify (toU8 d) = .ok (plain, bytes, n, q)) :
    bytes.size ≤ 224 * d.length + 202 := by
  have := corr_size_le verify (toU8 d) (by rw [length_toU8]; exact hd) plain bytes n q h
  rw [length_toU8] at this
  exact this

/-- what the scanner stores: the corrections of an ACCEPTED candidate -/
theorem lib_corr_size_le (d : Bytes) (hd : d.length < 2 ^ 61) (r : Res)
    (h : libOracle.verified d = .ok r) : r.corr.length ≤ 224 * d.length + 202 := by
  obtain ⟨plain, bytes, q, h1, h2⟩ := libAnalyze_ok d r (verified_analyze _ d r h)
  have := corr_size_le_bytes false d hd plain bytes r.size q h1
  rw [h2]
  simpa [length_ofU8] using this

end Preflate.Proofs
