/- End-to-end composition (parser -> analysis -> reconstruction -> writer). Since the model parser
   mirrors the 2 GiB guard, `parse_valid_unbounded` needs no input-size hypothesis any more. -/
import Preflate.Proofs.PlainLimit
namespace Preflate.Proofs
open Preflate

variable {H : Type}

/-- end to end, for ANY predictor: if analysing an accepted stream yields
    corrections, then reconstruction from those corrections followed by the block writer returns
    exactly the bytes the parser consumed -/
theorem recompress_analyze (P : Pred H) (d : List UInt8) (p : Parsed)
    (hp : parse d = .ok p)
    (ops : List Op) (he : encStream P p.plain p.blocks p.eofPadding = .ok ops) :
    ∃ blocks pad, decStream P p.plain ops = .ok (blocks, pad, []) ∧
      writeStream blocks pad = .ok (d.take (p.consumed d)) := by
  obtain ⟨hv, hpad⟩ := parse_valid_unbounded (bytesToBits d) p hp
  have hdec := decStream_encStream P p.plain p.blocks p.eofPadding hv hpad ops he []
  rw [List.append_nil] at hdec
  exact ⟨p.blocks, p.eofPadding, hdec, (write_parse d p hp).1⟩

end Preflate.Proofs
