/-
The main loop of `calc_bit_lengths` (`combine`): invariants (every heap element is the root of a
tree stored in `nodes`; the leaf symbols are a permutation of the initial ones; heap order; total
frequency; Fibonacci lower bound of the frequency in terms of the depth).
-/
import Preflate.Proofs.HuffCalcTHeap
import Preflate.Proofs.HuffCalcTTree
namespace Preflate.HuffCalcT

/-! ### Fibonacci lower bound -/

/-- `fibb 0 = 1`, `fibb 1 = 2`, `fibb (n+2) = fibb (n+1) + fibb n` -/
def fibb : Nat → Nat
  | 0 => 1
  | 1 => 2
  | n + 2 => fibb (n + 1) + fibb n

theorem fibb_mono_succ (n : Nat) : fibb n ≤ fibb (n + 1) := by
  cases n with
  | zero => simp [fibb]
  | succ n => simp [fibb]

theorem fibb_mono {a b : Nat} (h : a ≤ b) : fibb a ≤ fibb b := by
  induction h with
  | refl => exact Nat.le_refl _
  | step _ ih => exact Nat.le_trans ih (fibb_mono_succ _)

theorem fibb_double (n : Nat) : 2 * fibb n ≤ fibb (n + 2) := by
  have := fibb_mono_succ n
  simp only [fibb]; omega

theorem fibb_pow (k : Nat) : 2 ^ k ≤ fibb (2 * k) := by
  induction k with
  | zero => simp [fibb]
  | succ k ih =>
    have := fibb_double (2 * k)
    have e : 2 * (k + 1) = 2 * k + 2 := by omega
    rw [e, Nat.pow_succ]; omega

theorem fibb_succ_le (n : Nat) : n + 1 ≤ fibb n := by
  induction n using Nat.strongRecOn with
  | _ n ih =>
    match n with
    | 0 => simp [fibb]
    | 1 => simp [fibb]
    | n + 2 =>
      have h1 := ih (n + 1) (by omega)
      have h2 := ih n (by omega)
      simp only [fibb]; omega

/-! ### the tree of a node -/

open Classical in
/-- the abstract tree below a node (unique when it exists) -/
noncomputable def treeOf (nodes : Array Node) (x : Node) : Tree :=
  if h : ∃ t, NT nodes x t then Classical.choose h else .leaf 0

theorem treeOf_eq {nodes : Array Node} {x : Node} {t : Tree} (h : NT nodes x t) :
    treeOf nodes x = t := by
  have hex : ∃ t, NT nodes x t := ⟨t, h⟩
  unfold treeOf
  rw [dif_pos hex]
  exact (Classical.choose_spec hex).unique h

noncomputable def leavesOf (nodes : Array Node) (x : Node) : List Nat := (treeOf nodes x).leaves

theorem leavesOf_push {nodes : Array Node} {x : Node} (h : ∃ t, NT nodes x t) (y : Node) :
    leavesOf (nodes.push y) x = leavesOf nodes x := by
  obtain ⟨t, ht⟩ := h
  simp [leavesOf, treeOf_eq ht, treeOf_eq (ht.push y)]

/-- loop invariant of `combine` -/
structure Inv (syms : List Nat) (W : Nat) (heap nodes : Array Node) : Prop where
  trees : ∀ x ∈ heap.toList, ∃ t, NT nodes x t
  leaves : (heap.toList.flatMap (leavesOf nodes)).Perm syms
  flat : ((heap.toList ++ nodes.toList).filterMap (·.leaf)).Perm syms
  ord : HeapFrom heap 0
  sum : (heap.toList.map (·.freq)).sum = W
  fib : ∃ M, ∀ x ∈ heap.toList, M ≤ x.freq ∧ 1 ≤ x.freq ∧ fibb x.depth ≤ x.freq ∧
          (1 ≤ x.depth → fibb (x.depth - 1) ≤ M)

/-! ### list view of the heap operations -/

theorem heap_pop_set (heap : Array Node) (hs : 2 ≤ heap.size) :
    ∃ a z rest, heap.toList = a :: rest ∧ heap[0]? = some a ∧ heap.back? = some z ∧
      (heap.pop.setIfInBounds 0 z).toList.Perm rest := by
  rcases heap with ⟨l⟩
  match l, hs with
  | a :: b :: r, _ =>
    have hne : (b :: r) ≠ [] := by simp
    refine ⟨a, (b :: r).getLast hne, b :: r, rfl, by simp, ?_, ?_⟩
    · simp [Array.back?_eq_getElem?, List.getLast_eq_getElem]
    · simp only [List.pop_toArray, List.dropLast_cons_cons, List.setIfInBounds_toArray,
        List.set_cons_zero]
      have := List.dropLast_concat_getLast hne
      conv => rhs; rw [← this]
      exact (List.perm_append_comm (l₁ := [(b :: r).getLast hne]) (l₂ := (b :: r).dropLast))

theorem heap_head (heap : Array Node) (hs : 1 ≤ heap.size) :
    ∃ b tail, heap.toList = b :: tail ∧ heap[0]? = some b := by
  rcases heap with ⟨l⟩
  match l, hs with
  | b :: r, _ => exact ⟨b, r, rfl, by simp⟩

theorem mem_fr (heap : Array Node) (hh : HeapFrom heap 0) (a x : Node) (ha : heap[0]? = some a)
    (hx : x ∈ heap.toList) : a.freq ≤ x.freq := by
  obtain ⟨i, hi, hxi⟩ := List.mem_iff_getElem.mp hx
  have hi' : i < heap.size := by simpa using hi
  have h1 : heap[i]? = some x := by
    rw [Array.getElem?_eq_some_iff]; exact ⟨hi', by simpa using hxi⟩
  have := heap_min heap hh i hi'
  rw [fr_eq_of_getElem? ha, fr_eq_of_getElem? h1] at this
  exact this


theorem flatMap_congr' {α β : Type} (f g : α → List β) (l : List α) (h : ∀ x ∈ l, f x = g x) :
    l.flatMap f = l.flatMap g := by
  induction l with
  | nil => rfl
  | cons a l ih =>
    simp only [List.flatMap_cons]
    rw [h a (by simp), ih (fun x hx => h x (List.mem_cons_of_mem _ hx))]

/-- result of `combine` -/
structure CombineOut (syms : List Nat) (W : Nat) (nodes' : Array Node) (root : Node) (t : Tree) :
    Prop where
  last : nodes'[nodes'.size - 1]? = some root
  size : 1 ≤ nodes'.size
  tree : NT nodes' root t
  inner : root.leaf = none
  freq : root.freq = W
  fib : fibb root.depth ≤ W
  leaves : t.leaves.Perm syms
  flat : (nodes'.toList.filterMap (·.leaf)).Perm syms

theorem combine_spec (syms : List Nat) (W : Nat) (hW : W ≤ u32Max) :
    ∀ (fuel : Nat) (heap nodes : Array Node), Inv syms W heap nodes → 2 ≤ heap.size →
      heap.size ≤ fuel + 1 →
      ∃ nodes' root t, combine fuel heap nodes = .ok nodes' ∧ CombineOut syms W nodes' root t := by
  intro fuel
  induction fuel with
  | zero => intro heap nodes _ h2 hf; omega
  | succ fuel ih =>
    intro heap nodes inv h2 hf
    obtain ⟨a, z, rest, hl, ha, hz, hperm⟩ := heap_pop_set heap h2
    have hord2 : HeapFrom (heap.pop.setIfInBounds 0 z) 1 :=
      heapFrom_set_zero _ _ (heapFrom_pop _ _ inv.ord)
    obtain ⟨heap3, hd3, hsz3, hperm3, hord3⟩ :=
      downheap_spec (heap.pop.setIfInBounds 0 z) 0 (by simp; omega) hord2
    have hsz3' : heap3.size = heap.size - 1 := by simp [hsz3]
    obtain ⟨b, tail3, hl3, hb⟩ := heap_head heap3 (by omega)
    -- the heap is a permutation of a :: b :: tail3
    have hP : heap.toList.Perm (a :: b :: tail3) := by
      rw [hl]; exact List.Perm.cons a ((hl3 ▸ hperm3).trans hperm).symm
    have hmem : ∀ x, x ∈ (a :: b :: tail3) → x ∈ heap.toList := fun x hx => hP.mem_iff.mpr hx
    have ha_mem : a ∈ heap.toList := hmem a (by simp)
    have hb_mem : b ∈ heap.toList := hmem b (by simp)
    -- order facts
    have hab : a.freq ≤ b.freq := mem_fr heap inv.ord a b ha hb_mem
    have hbt : ∀ x ∈ tail3, b.freq ≤ x.freq := fun x hx =>
      mem_fr heap3 hord3 b x hb (by rw [hl3]; exact List.mem_cons_of_mem _ hx)
    -- sums
    have hsum : a.freq + (b.freq + (tail3.map (·.freq)).sum) = W := by
      have := (hP.map (·.freq)).sum_nat
      rw [inv.sum] at this
      simpa using this.symm
    obtain ⟨M, hM⟩ := inv.fib
    obtain ⟨haM, ha1, hafib, haM'⟩ := hM a ha_mem
    obtain ⟨hbM, hb1, hbfib, hbM'⟩ := hM b hb_mem
    -- the overflow checks
    have hc1 : ¬ (a.freq + b.freq > u32Max) := by omega
    have hc2 : ¬ (max a.depth b.depth + 1 > u32Max) := by
      have := fibb_succ_le a.depth
      have := fibb_succ_le b.depth
      rcases Nat.le_total a.depth b.depth with h | h
      · rw [Nat.max_eq_right h]; omega
      · rw [Nat.max_eq_left h]; omega
    -- trees
    obtain ⟨ta, hta⟩ := inv.trees a ha_mem
    obtain ⟨tb, htb⟩ := inv.trees b hb_mem
    let nodes2 := (nodes.push a).push b
    let zn : Node :=
      { freq := a.freq + b.freq, depth := max a.depth b.depth + 1, leaf := none,
        left := nodes2.size - 1, right := nodes2.size - 2 }
    have hzn : NT nodes2 zn (.node tb ta) := by
      refine .node rfl (xl := b) (xr := a) ?_ ?_ ((htb.push a).push b) ((hta.push a).push b) ?_
      · show ((nodes.push a).push b)[((nodes.push a).push b).size - 1]? = some b
        rw [Array.getElem?_push]; simp
      · show ((nodes.push a).push b)[((nodes.push a).push b).size - 2]? = some a
        rw [Array.getElem?_push, Array.getElem?_push]; simp
      · simp [zn, Nat.max_comm]
    -- Fibonacci step
    have hznfib : fibb zn.depth ≤ zn.freq := by
      show fibb (max a.depth b.depth + 1) ≤ a.freq + b.freq
      rcases Nat.le_total a.depth b.depth with h | h
      · rw [Nat.max_eq_right h]
        rcases Nat.eq_zero_or_pos b.depth with h0 | h0
        · rw [h0]; simp [fibb]; omega
        · have := hbM' h0
          obtain ⟨d, hd⟩ : ∃ d, b.depth = d + 1 := ⟨b.depth - 1, by omega⟩
          rw [hd] at hbfib this ⊢
          simp only [fibb, Nat.add_sub_cancel] at this ⊢
          omega
      · rw [Nat.max_eq_left h]
        rcases Nat.eq_zero_or_pos a.depth with h0 | h0
        · rw [h0]; simp [fibb]; omega
        · have := haM' h0
          obtain ⟨d, hd⟩ : ∃ d, a.depth = d + 1 := ⟨a.depth - 1, by omega⟩
          rw [hd] at hafib this ⊢
          simp only [fibb, Nat.add_sub_cancel] at this ⊢
          omega
    have hznM : fibb (zn.depth - 1) ≤ b.freq := by
      show fibb (max a.depth b.depth + 1 - 1) ≤ b.freq
      rw [Nat.add_sub_cancel]
      rcases Nat.le_total a.depth b.depth with h | h
      · rw [Nat.max_eq_right h]; exact hbfib
      · rw [Nat.max_eq_left h]; omega
    -- leaves / flat bookkeeping
    have hleaves0 : (ta.leaves ++ (tb.leaves ++ tail3.flatMap (leavesOf nodes))).Perm syms := by
      have := (hP.flatMap_right (leavesOf nodes)).symm.trans inv.leaves
      simpa [List.flatMap_cons, leavesOf, treeOf_eq hta, treeOf_eq htb] using this
    have hflat0 : (([a] ++ [b] ++ tail3 ++ nodes.toList).filterMap (·.leaf)).Perm syms := by
      have := ((hP.append_right nodes.toList).filterMap (·.leaf)).symm.trans inv.flat
      simpa using this
    -- unfold one round
    have hstart : combine (fuel + 1) heap nodes =
        (if heap3.size == 1 then pure (nodes2.push zn)
         else do
           let heap ← aset heap3 0 zn "heap[SMALLEST] = node"
           let heap ← downheap heap 0
           combine fuel heap nodes2) := by
      rw [combine]
      simp only [aget_of_getElem? _ ha, hz, ok_bind, pure_eq_ok]
      rw [aset_ok _ _ (by simp; omega)]
      simp only [ok_bind, hd3, aget_of_getElem? _ hb, hc1, hc2, if_false]
      rfl
    rw [hstart]
    by_cases h1 : heap3.size = 1
    · -- last round
      have htail : tail3 = [] := by
        have : heap3.toList.length = 1 := by simpa using h1
        rw [hl3] at this
        simpa using this
      subst htail
      refine ⟨nodes2.push zn, zn, .node tb ta, by simp [h1], ?_⟩
      refine ⟨by simp, by simp, hzn.push zn, rfl, ?_, ?_, ?_, ?_⟩
      · show a.freq + b.freq = W
        simpa using hsum
      · have : zn.freq = W := by show a.freq + b.freq = W; simpa using hsum
        rw [← this]; exact hznfib
      · simp only [Tree.leaves]
        rw [List.perm_iff_count]; intro s
        have := List.perm_iff_count.mp hleaves0 s
        simp only [List.flatMap_nil, List.append_nil, List.count_append] at this ⊢
        omega
      · rw [List.perm_iff_count]; intro s
        have := List.perm_iff_count.mp hflat0 s
        have e : (nodes2.push zn).toList = nodes.toList ++ [a] ++ [b] ++ [zn] := by
          simp [nodes2]
        have ez : List.filterMap (·.leaf) [zn] = [] := by simp [zn]
        rw [e]
        simp only [List.filterMap_append, List.count_append, List.append_nil, ez] at this ⊢
        omega
    · -- another round
      have hs3 : 2 ≤ heap3.size := by omega
      have hord4 : HeapFrom (heap3.setIfInBounds 0 zn) 1 := heapFrom_set_zero _ _ hord3
      obtain ⟨heap5, hd5, hsz5, hperm5, hord5⟩ :=
        downheap_spec (heap3.setIfInBounds 0 zn) 0 (by simp; omega) hord4
      have hl4 : (heap3.setIfInBounds 0 zn).toList = zn :: tail3 := by
        simp [Array.toList_setIfInBounds, hl3]
      rw [hl4] at hperm5
      have hmem5 : ∀ x, x ∈ heap5.toList → x = zn ∨ x ∈ tail3 := fun x hx => by
        simpa using hperm5.mem_iff.mp hx
      have htrees_tail : ∀ x ∈ tail3, ∃ t, NT nodes x t := fun x hx =>
        inv.trees x (hmem x (by simp [hx]))
      have inv5 : Inv syms W heap5 nodes2 := by
        refine ⟨?_, ?_, ?_, hord5, ?_, ?_⟩
        · intro x hx
          rcases hmem5 x hx with rfl | hx
          · exact ⟨_, hzn⟩
          · obtain ⟨t, ht⟩ := htrees_tail x hx
            exact ⟨t, (ht.push a).push b⟩
        · refine (hperm5.flatMap_right (leavesOf nodes2)).trans ?_
          have e1 : leavesOf nodes2 zn = tb.leaves ++ ta.leaves := by
            simp [leavesOf, treeOf_eq hzn, Tree.leaves]
          have e2 : tail3.flatMap (leavesOf nodes2) = tail3.flatMap (leavesOf nodes) := by
            apply flatMap_congr'
            intro x hx
            have hx' := htrees_tail x hx
            show leavesOf ((nodes.push a).push b) x = leavesOf nodes x
            rw [leavesOf_push (by obtain ⟨t, ht⟩ := hx'; exact ⟨t, ht.push a⟩), leavesOf_push hx']
          rw [List.flatMap_cons, e1, e2]
          rw [List.perm_iff_count]; intro s
          have := List.perm_iff_count.mp hleaves0 s
          simp only [List.count_append] at this ⊢
          omega
        · refine ((hperm5.append_right nodes2.toList).filterMap (·.leaf)).trans ?_
          rw [List.perm_iff_count]; intro s
          have := List.perm_iff_count.mp hflat0 s
          have e : zn :: tail3 ++ nodes2.toList = [zn] ++ tail3 ++ nodes.toList ++ [a] ++ [b] := by
            simp [nodes2]
          have ez : List.filterMap (·.leaf) [zn] = [] := by simp [zn]
          rw [e]
          simp only [List.filterMap_append, List.count_append, ez,
            List.count_nil] at this ⊢
          omega
        · have := (hperm5.map (·.freq)).sum_nat
          rw [this]
          show (zn.freq :: tail3.map (·.freq)).sum = W
          show (a.freq + b.freq) + (tail3.map (·.freq)).sum = W
          omega
        · refine ⟨b.freq, ?_⟩
          intro x hx
          rcases hmem5 x hx with rfl | hx
          · refine ⟨?_, ?_, hznfib, fun _ => hznM⟩
            · show b.freq ≤ a.freq + b.freq; omega
            · show 1 ≤ a.freq + b.freq; omega
          · obtain ⟨h1, h2, h3, h4⟩ := hM x (hmem x (by simp [hx]))
            exact ⟨hbt x hx, h2, h3, fun h => Nat.le_trans (h4 h) hbM⟩
      have hne : (heap3.size == 1) = false := by simp [h1]
      simp only [hne, Bool.false_eq_true, if_false]
      rw [aset_ok (a := heap3) _ _ (by omega)]
      simp only [ok_bind, hd5]
      have hsz5' : heap5.size = heap3.size := by simpa using hsz5
      exact ih heap5 nodes2 inv5 (by omega) (by omega)

end Preflate.HuffCalcT
