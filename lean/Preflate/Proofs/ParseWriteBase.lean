/-
Completeness direction of C07, base lemmas: a symbol's canonical code decodes to that symbol, the
quantisation tables in the writer-to-reader direction, the plain-text prefix invariant, and
`bytesToBits ∘ bitsToBytes`.
-/
import Preflate.Model.WriteValid
import Preflate.Proofs.PlainLimit
namespace Preflate.Proofs
open Preflate Preflate.Gen
set_option linter.unusedSimpArgs false
set_option linter.unusedVariables false

-- ---------------------------------------------------------------------------------------------
-- Huffman symbols

theorem lt_length_of_getD_ne {l : List Nat} {s : Nat} (h : l.getD s 0 ≠ 0) : s < l.length := by
  by_cases hs : s < l.length
  · exact hs
  · exfalso; apply h
    simp [List.getD, List.getElem?_eq_none (Nat.le_of_not_lt hs)]

/-- for a complete code, the canonical code of a symbol followed by anything decodes to the symbol -/
theorem decodeSym_code {l : List Nat} (hv : validLengths l = true) {s : Nat} (hs : l.getD s 0 ≠ 0)
    (rest : Bits) : decodeSym (codeTable l) (codeBits l s ++ rest) = .ok (s, rest) := by
  have hc := complete_of_valid hv
  have ht := treeOK_blocks hc
  rw [← decodeSymTree_spec hc ht,
    walk_of_prefix hc ht (codeTable_mem (lt_length_of_getD_ne hs) hs) (isPrefix_append _ _)]
  simp

theorem decodeSym_ne {l : List Nat} {bs : Bits} {s : Nat} {rest : Bits}
    (h : decodeSym (codeTable l) bs = .ok (s, rest)) : l.getD s 0 ≠ 0 := by
  unfold decodeSym at h
  split at h
  · rename_i c s' hf
    simp only [Except.ok.injEq, Prod.mk.injEq] at h
    obtain ⟨rfl, rfl⟩ := h
    exact (mem_codeTable (List.mem_of_find?_eq_some hf)).2.2
  · simp at h

-- ---------------------------------------------------------------------------------------------
-- length and distance codes, writer to reader

def lenCheck (m : Nat) : Bool :=
  decide (LENGTH_CODE_TABLE.getD m 0 < 29 ∧ lengthBase (LENGTH_CODE_TABLE.getD m 0) ≤ m ∧
    m < lengthBase (LENGTH_CODE_TABLE.getD m 0) + 2 ^ lengthExtra (LENGTH_CODE_TABLE.getD m 0) ∧
    (m = 255 → LENGTH_CODE_TABLE.getD m 0 = 28))

theorem lenCheck_all : (List.range 256).all lenCheck = true := by decide +kernel

/-- the code the writer picks for `len` has `len` in its interval, and the reader recomputes both
    `len` and the irregular flag -/
theorem len_decomp {len : Nat} {irr : Bool} (h1 : 3 ≤ len) (h2 : len ≤ 258)
    (h3 : irr = true → len = 258) :
    ∃ ex, lenCode len irr < 29 ∧ ex < 2 ^ lengthExtra (lenCode len irr) ∧
      len = 3 + lengthBase (lenCode len irr) + ex ∧
      (len == 258 && lenCode len irr != 28) = irr := by
  cases irr with
  | true =>
    obtain rfl := h3 rfl
    exact ⟨31, by decide, by decide, by decide, by decide⟩
  | false =>
    have := all_range lenCheck_all (len - 3) (by omega)
    simp only [lenCheck, decide_eq_true_eq] at this
    obtain ⟨a, b, c, d⟩ := this
    have e : lenCode len false = LENGTH_CODE_TABLE.getD (len - 3) 0 := by
      simp [lenCode, MIN_MATCH]
    rw [e]
    refine ⟨len - 3 - lengthBase (LENGTH_CODE_TABLE.getD (len - 3) 0), a, by omega, by omega, ?_⟩
    by_cases h : len = 258
    · have := d (by omega)
      rw [this]; subst h; rfl
    · simp [h]

def distCheckLo (m : Nat) : Bool :=
  decide (DIST_CODE_TABLE.getD m 0 < 30 ∧ distBase (DIST_CODE_TABLE.getD m 0) ≤ m ∧
    m < distBase (DIST_CODE_TABLE.getD m 0) + 2 ^ distExtra (DIST_CODE_TABLE.getD m 0))

def distCheckHi (k : Nat) : Bool :=
  decide (k < 2 ∨ (DIST_CODE_TABLE.getD (256 + k) 0 < 30 ∧
    distBase (DIST_CODE_TABLE.getD (256 + k) 0) ≤ 128 * k ∧
    128 * k + 127 < distBase (DIST_CODE_TABLE.getD (256 + k) 0) +
      2 ^ distExtra (DIST_CODE_TABLE.getD (256 + k) 0)))

theorem distCheckLo_all : (List.range 256).all distCheckLo = true := by decide +kernel
theorem distCheckHi_all : (List.range 256).all distCheckHi = true := by decide +kernel

theorem dist_decomp {dist : Nat} (h1 : 1 ≤ dist) (h2 : dist ≤ 32768) :
    ∃ dx, distCode dist < 30 ∧ dx < 2 ^ distExtra (distCode dist) ∧
      dist = 1 + distBase (distCode dist) + dx := by
  unfold distCode
  split
  · have := all_range distCheckLo_all (dist - 1) (by omega)
    simp only [distCheckLo, decide_eq_true_eq] at this
    obtain ⟨a, b, c⟩ := this
    exact ⟨dist - 1 - distBase (DIST_CODE_TABLE.getD (dist - 1) 0), a, by omega, by omega⟩
  · rw [Nat.shiftRight_eq_div_pow]
    have hk : (dist - 1) / 2 ^ 7 < 256 := by
      have : (2:Nat) ^ 7 = 128 := by decide
      omega
    have := all_range distCheckHi_all ((dist - 1) / 2 ^ 7) hk
    simp only [distCheckHi, decide_eq_true_eq] at this
    have h7 : (2:Nat) ^ 7 = 128 := by decide
    rw [h7] at this hk ⊢
    rcases this with this | ⟨a, b, c⟩
    · omega
    · exact ⟨dist - 1 - distBase (DIST_CODE_TABLE.getD (256 + (dist - 1) / 128) 0), a,
        by omega, by omega⟩

-- ---------------------------------------------------------------------------------------------
-- the plain text rebuilt so far is a prefix of the final plain text

/-- `cur` is the first `pos` bytes of `plain` -/
def Pre (plain : Array Nat) (pos : Nat) (cur : Array Nat) : Prop :=
  cur.size = pos ∧ pos ≤ plain.size ∧ ∀ i, i < pos → cur.getD i 0 = plain.getD i 0

theorem pre_empty (plain : Array Nat) : Pre plain 0 #[] :=
  ⟨rfl, Nat.zero_le _, fun i hi => absurd hi (Nat.not_lt_zero _)⟩

theorem pre_push {plain cur : Array Nat} {pos b : Nat} (h : Pre plain pos cur)
    (hp : pos < plain.size) (hb : b = plain.getD pos 0) : Pre plain (pos + 1) (cur.push b) := by
  obtain ⟨h1, h2, h3⟩ := h
  refine ⟨by simp [h1], by omega, ?_⟩
  intro i hi
  by_cases hlt : i < pos
  · rw [getD_push_lt _ _ (by omega), h3 i hlt]
  · have : i = cur.size := by omega
    subst this
    rw [getD_push_eq, hb, h1]

theorem pre_copyRef {plain : Array Nat} {dist : Nat} (hd1 : 1 ≤ dist) : ∀ (n : Nat) {cur : Array Nat}
    {pos : Nat}, Pre plain pos cur → dist ≤ pos → pos + n ≤ plain.size →
    (∀ i, i < n → plain.getD (pos - dist + i) 0 = plain.getD (pos + i) 0) →
    Pre plain (pos + n) (copyRef cur dist n) := by
  intro n
  induction n with
  | zero => intro cur pos h _ _ _; exact h
  | succ n ih =>
    intro cur pos h hd2 hsz hm
    rw [copyRef]
    have h0 := hm 0 (by omega)
    simp only [Nat.add_zero] at h0
    have hp := pre_push (b := cur.getD (cur.size - dist) 0) h (by omega) (by
      rw [h.1, h.2.2 _ (by omega)]; exact h0)
    have := ih hp (by omega) (by omega) (fun i hi => by
      have := hm (i + 1) (by omega)
      rw [show pos + 1 - dist + i = pos - dist + (i + 1) by omega,
        show pos + 1 + i = pos + (i + 1) by omega]
      exact this)
    rw [show pos + (n + 1) = pos + 1 + n by omega]
    exact this

theorem pre_pushAll {plain : Array Nat} : ∀ (data : List Nat) {cur : Array Nat} {pos : Nat},
    Pre plain pos cur → pos + data.length ≤ plain.size →
    (∀ i, i < data.length → data.getD i 0 = plain.getD (pos + i) 0) →
    Pre plain (pos + data.length) (pushAll cur data) := by
  intro data
  induction data with
  | nil => intro cur pos h _ _; exact h
  | cons x r ih =>
    intro cur pos h hsz hm
    rw [pushAll]
    simp only [List.length_cons] at hsz hm ⊢
    have h0 := hm 0 (by omega)
    have hp := pre_push (b := x) h (by omega) (by simpa using h0)
    have := ih hp (by omega) (fun i hi => by
      have := hm (i + 1) (by omega)
      rw [show pos + 1 + i = pos + (i + 1) by omega]
      simpa using this)
    rw [show pos + (r.length + 1) = pos + 1 + r.length by omega]
    exact this

theorem pre_full {plain cur : Array Nat} (h : Pre plain plain.size cur) : cur = plain := by
  obtain ⟨h1, _, h3⟩ := h
  apply Array.ext h1
  intro i hi1 hi2
  have := h3 i hi2
  simpa [Array.getD, hi1, hi2] using this

-- ---------------------------------------------------------------------------------------------
-- bytes and bits

theorem byteBits_ofBits (b0 b1 b2 b3 b4 b5 b6 b7 : Bool) :
    byteBits (UInt8.ofNat (natOfBits [b0, b1, b2, b3, b4, b5, b6, b7])) =
      [b0, b1, b2, b3, b4, b5, b6, b7] := by
  cases b0 <;> cases b1 <;> cases b2 <;> cases b3 <;> cases b4 <;> cases b5 <;> cases b6 <;>
    cases b7 <;> rfl

theorem bytesToBits_bitsToBytes : ∀ (k : Nat) (w : Bits), w.length = 8 * k →
    bytesToBits (bitsToBytes w) = w := by
  intro k
  induction k with
  | zero =>
    intro w hw
    have : w = [] := List.length_eq_zero_iff.mp (by omega)
    subst this; rfl
  | succ k ih =>
    intro w hw
    match w, hw with
    | b0 :: b1 :: b2 :: b3 :: b4 :: b5 :: b6 :: b7 :: rest, hw =>
      rw [bitsToBytes, bytesToBits_cons, byteBits_ofBits, ih rest (by simp at hw; omega)]
      rfl

end Preflate.Proofs
