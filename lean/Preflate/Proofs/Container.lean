/- Helper lemmas for C01: container round trip. -/
import Preflate.Model.Container
import Preflate.Proofs.ContainerVarint
import Preflate.Proofs.ContainerIdat
import Preflate.Proofs.ContainerChunks
import Preflate.Proofs.ContainerScan
namespace Preflate.Proofs
open Preflate

theorem recreate_expand (o : Oracle) (crc : Bytes → Nat) (f : Bytes)
    (hb : ∀ b ∈ f, b < 256) (hf : f.length < 2 ^ 32)
    (hpanic : ∀ d m, o.verified d ≠ .error (.panic m))
    (hsize : ∀ d r, o.verified d = .ok r → r.plain.length < 2 ^ 32 ∧ r.corr.length < 2 ^ 32) :
    ∃ c, expand o crc f = .ok c ∧ recreate o crc c = .ok f := by
  obtain ⟨chunks, hscan, hcov⟩ := scanLoop_spec o crc f hb hf hpanic (f.length + 1) 0 0
    (Nat.le_refl _) (Nat.zero_le _) (by omega) (by omega)
  obtain ⟨w, hw, hr⟩ := readChunks_write o crc f hb hf hsize chunks 0 hcov
  refine ⟨Gen.WRAPPER_VERSION :: w, ?_, ?_⟩
  · simp only [expand, scan, hscan, hw, c_bind_ok]
  · simp only [recreate, ne_eq, not_true_eq_false, if_false]
    exact hr _ (Nat.le_refl _)

end Preflate.Proofs
