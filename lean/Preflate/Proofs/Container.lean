/- Helper lemmas for C01: container round trip. -/
import Preflate.Model.Container
namespace Preflate.Proofs
open Preflate

theorem recreate_expand (o : Oracle) (crc : Bytes → Nat) (f : Bytes)
    (hb : ∀ b ∈ f, b < 256) (hf : f.length < 2 ^ 32)
    (hpanic : ∀ d m, o.verified d ≠ .error (.panic m))
    (hsize : ∀ d r, o.verified d = .ok r → r.plain.length < 2 ^ 32 ∧ r.corr.length < 2 ^ 32) :
    ∃ c, expand o crc f = .ok c ∧ recreate o crc c = .ok f := by
  sorry

end Preflate.Proofs
