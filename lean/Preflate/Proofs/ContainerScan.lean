/- C01 helpers: the scanner produces a covering chunk list and never panics. -/
import Preflate.Proofs.ContainerChunks
namespace Preflate.Proofs
open Preflate

/-- `x` is not a panic, and if it is a value the value satisfies `P` -/
def Good {α} (P : α → Prop) : R α → Prop
  | .ok a => P a
  | .error (.panic _) => False
  | .error _ => True

theorem Good_ok {α} {P : α → Prop} {a : α} (h : P a) : Good P (.ok a) := h
theorem Good_pure {α} {P : α → Prop} {a : α} (h : P a) : Good P (pure a : R α) := h
theorem Good_err {α} {P : α → Prop} : Good P (.error .err : R α) := True.intro
theorem Good_throw {α} {P : α → Prop} : Good P (throw .err : R α) := True.intro
theorem Good_throw_bind {α β} {P : β → Prop} (f : α → R β) :
    Good P ((throw .err : R α) >>= f) := True.intro

theorem Good_bind {α β} {P : α → Prop} {Q : β → Prop} {x : R α} {f : α → R β}
    (hx : Good P x) (hf : ∀ a, P a → Good Q (f a)) : Good Q (x >>= f) := by
  cases x with
  | ok a => exact hf a hx
  | error e => cases e <;> first | exact True.intro | exact hx

theorem Good_mono {α} {P Q : α → Prop} {x : R α} (hx : Good P x) (h : ∀ a, P a → Q a) :
    Good Q x := by
  cases x with
  | ok a => exact h a hx
  | error e => cases e <;> first | exact True.intro | exact hx

theorem Good_of_nopanic {α} {x : R α} (h : ∀ m, x ≠ .error (.panic m)) :
    Good (fun a => x = .ok a) x := by
  cases x with
  | ok a => exact rfl
  | error e =>
    cases e with
    | panic m => exact h m rfl
    | err => exact True.intro
    | fuel => exact True.intro

theorem probe_good {α} {P : α → Prop} {x : R α} (hx : Good P x) :
    probe x = .ok none ∨ ∃ a, P a ∧ probe x = .ok (some a) := by
  cases x with
  | ok a => exact Or.inr ⟨a, hx, rfl⟩
  | error e =>
    cases e with
    | panic m => exact hx.elim
    | err => exact Or.inl rfl
    | fuel => exact Or.inl rfl

theorem nextSignature_spec (src : Bytes) : ∀ (fuel idx i : Nat) (sg : Sig),
    nextSignature src fuel idx = some (i, sg) → idx ≤ i ∧ i + 1 < src.length := by
  intro fuel
  induction fuel with
  | zero => intro _ _ _ h; simp [nextSignature] at h
  | succ fuel ih =>
    intro idx i sg h
    rw [nextSignature] at h
    split at h
    · rename_i hlt
      split at h
      · injection h with h; injection h with h1 h2; subst h1; exact ⟨Nat.le_refl _, hlt⟩
      · have := ih _ _ _ h; omega
    · cases h

theorem skipCString_good : ∀ (bs : Bytes) (n : Nat),
    Good (fun m => n + 1 ≤ m ∧ m ≤ n + bs.length) (skipCString bs n) := by
  intro bs
  induction bs with
  | nil => intro n; exact True.intro
  | cons b bs ih =>
    intro n
    rw [skipCString]
    split
    · exact Good_ok ⟨Nat.le_refl _, by simp⟩
    · exact Good_mono (ih (n + 1)) (fun a ha => ⟨by omega, by simp only [List.length_cons]; omega⟩)

theorem skipCString_good' (s : Bytes) (n : Nat) (hn : 10 ≤ n ∧ n ≤ s.length) :
    Good (fun m => 10 ≤ m ∧ m ≤ s.length) (skipCString (s.drop n) n) :=
  Good_mono (skipCString_good _ n) (fun a ha => by
    simp only [List.length_drop] at ha; omega)

theorem skipGzipHeader_good (s : Bytes) :
    Good (fun h => 10 ≤ h ∧ h ≤ s.length) (skipGzipHeader s) := by
  simp only [skipGzipHeader]
  split
  · exact Good_throw_bind _
  split
  · exact Good_throw_bind _
  rename_i h10 _
  apply Good_bind (P := fun n => 10 ≤ n ∧ n ≤ s.length)
  · split
    · split
      · exact Good_throw_bind _
      split
      · exact Good_throw_bind _
      · exact Good_pure ⟨by omega, by omega⟩
    · exact Good_pure ⟨by omega, by omega⟩
  intro n hn
  apply Good_bind (P := fun n => 10 ≤ n ∧ n ≤ s.length)
  · split
    · exact skipCString_good' s n hn
    · exact Good_pure hn
  intro n hn
  apply Good_bind (P := fun n => 10 ≤ n ∧ n ≤ s.length)
  · split
    · exact skipCString_good' s n hn
    · exact Good_pure hn
  intro n hn
  apply Good_bind (P := fun n => 10 ≤ n ∧ n ≤ s.length)
  · split
    · split
      · exact Good_throw
      · exact Good_pure ⟨by omega, by omega⟩
    · exact Good_pure hn
  intro n hn
  exact Good_ok hn

theorem parseZipStream_good (o : Oracle) (hpanic : ∀ d m, o.verified d ≠ .error (.panic m))
    (s : Bytes) :
    Good (fun p => 30 ≤ p.1 ∧ p.1 ≤ s.length ∧ o.verified (s.drop p.1) = .ok p.2)
      (parseZipStream o s) := by
  simp only [parseZipStream]
  split
  · exact Good_throw_bind _
  split
  · exact Good_throw_bind _
  split
  · exact Good_throw_bind _
  split
  · split
    · exact Good_throw
    · split
      · rename_i r hr
        exact Good_ok ⟨by omega, by omega, hr⟩
      · rename_i m hm
        exact (hpanic _ _ hm).elim
      · exact Good_err
  · exact Good_err

theorem idatChunks_good (crc : Bytes → Nat) (s : Bytes) : ∀ (fuel pos : Nat) (payload : Bytes)
    (sizes : List Nat), Good (fun _ => True) (idatChunks crc s fuel pos payload sizes) := by
  intro fuel
  induction fuel with
  | zero => intro _ _ _; exact True.intro
  | succ fuel ih =>
    intro pos payload sizes
    rw [idatChunks]
    split
    · simp only
      split
      · exact Good_ok True.intro
      split
      · exact Good_ok True.intro
      split
      · exact Good_ok True.intro
      · exact ih _ _ _
    · exact Good_ok True.intro

theorem parseIdat_good (crc : Bytes → Nat) (s : Bytes) :
    Good (fun p => parseIdat crc s = .ok p) (parseIdat crc s) := by
  apply Good_of_nopanic
  intro m h
  have : Good (fun _ => True) (parseIdat crc s) := by
    simp only [parseIdat]
    split
    · exact Good_throw_bind _
    apply Good_bind (idatChunks_good crc s _ _ _ _)
    intro a _
    split
    · exact Good_throw_bind _
    · exact Good_ok True.intro
  rw [h] at this
  exact this

/-- what an accepting `scanAt` returns -/
def Accepts (o : Oracle) (crc : Bytes → Nat) (src : Bytes) (index prev : Nat)
    (res : Option (List Chunk × Nat)) : Prop :=
  res = none ∨ ∃ n X next, res = some ([.literal n, X], next) ∧ ChunkOk o crc src (prev + n) X ∧
    next = prev + n + X.extent ∧ next ≤ src.length ∧ index < next

theorem scanAt_spec (o : Oracle) (crc : Bytes → Nat) (src : Bytes)
    (hb : ∀ b ∈ src, b < 256) (hf : src.length < 2 ^ 32)
    (hpanic : ∀ d m, o.verified d ≠ .error (.panic m)) (index prev : Nat) (sg : Sig)
    (hprev : prev ≤ index) (hidx : index + 1 < src.length) :
    ∃ res, scanAt o crc src index prev sg = .ok res ∧ Accepts o crc src index prev res := by
  have hnone : ∃ res, (Except.ok none : R (Option (List Chunk × Nat))) = .ok res ∧
      Accepts o crc src index prev res := ⟨none, rfl, Or.inl rfl⟩
  cases sg with
  | zlib =>
    simp only [scanAt]
    rcases probe_good (Good_of_nopanic (hpanic (src.drop (index + 2)))) with h | ⟨r, hr, h⟩
    · rw [h, c_bind_ok]; exact hnone
    · rw [h, c_bind_ok]
      simp only
      split
      · have hle := (verified_spec o _ r hr).2
        simp only [List.length_drop] at hle
        refine ⟨_, rfl, Or.inr ⟨index + 2 - prev, .deflate r, _, rfl, ?_, ?_, ?_, ?_⟩⟩
        · have e : prev + (index + 2 - prev) = index + 2 := by omega
          rw [e]; exact hr
        · simp only [Chunk.extent]; omega
        · omega
        · omega
      · exact hnone
  | gzip =>
    simp only [scanAt]
    rcases probe_good (skipGzipHeader_good (src.drop index)) with h | ⟨hd, hhd, h⟩
    · rw [h, c_bind_ok]; exact hnone
    · rw [h, c_bind_ok]
      simp only [List.length_drop] at hhd
      simp only
      rcases probe_good (Good_of_nopanic (hpanic (src.drop (index + hd)))) with h | ⟨r, hr, h⟩
      · rw [h, c_bind_ok]; exact hnone
      · rw [h, c_bind_ok]
        simp only
        split
        · have hle := (verified_spec o _ r hr).2
          simp only [List.length_drop] at hle
          refine ⟨_, rfl, Or.inr ⟨index + hd - prev, .deflate r, _, rfl, ?_, ?_, ?_, ?_⟩⟩
          · have e : prev + (index + hd - prev) = index + hd := by omega
            rw [e]; exact hr
          · simp only [Chunk.extent]; omega
          · omega
          · omega
        · exact hnone
  | zip =>
    simp only [scanAt]
    rcases probe_good (parseZipStream_good o hpanic (src.drop index)) with h | ⟨⟨hd, r⟩, hhd, h⟩
    · rw [h, c_bind_ok]; exact hnone
    · rw [h, c_bind_ok]
      simp only [List.length_drop, List.drop_drop] at hhd
      obtain ⟨h30, hdle, hr⟩ := hhd
      simp only
      split
      · have hle := (verified_spec o _ r hr).2
        simp only [List.length_drop] at hle
        refine ⟨_, rfl, Or.inr ⟨index - prev + hd, .deflate r, _, rfl, ?_, ?_, ?_, ?_⟩⟩
        · have e : prev + (index - prev + hd) = index + hd := by omega
          rw [e]; exact hr
        · simp only [Chunk.extent]; omega
        · omega
        · omega
      · exact hnone
  | idat =>
    simp only [scanAt]
    split
    · rename_i h4
      rcases probe_good (parseIdat_good crc (src.drop (index - 4))) with h | ⟨⟨c, payload⟩, hp, h⟩
      · rw [h, c_bind_ok]; exact hnone
      · rw [h, c_bind_ok]
        simp only
        rcases probe_good (Good_of_nopanic (hpanic payload)) with h | ⟨r, hr, h⟩
        · rw [h, c_bind_ok]; exact hnone
        · rw [h, c_bind_ok]
          simp only
          split
          · rename_i hcond
            have hbd : ∀ b ∈ src.drop (index - 4), b < 256 :=
              fun b h => hb b (List.mem_of_mem_drop h)
            have hld : (src.drop (index - 4)).length < 2 ^ 32 := by
              simp only [List.length_drop]; omega
            have htot := (parseIdat_spec crc _ hbd hld c payload hp).1
            simp only [List.length_drop] at htot
            have hmin : Gen.MIN_BLOCKSIZE = 1024 := rfl
            rw [hmin] at hcond
            have e : prev + (index - 4 - prev) = index - 4 := by omega
            refine ⟨_, rfl, Or.inr ⟨index - 4 - prev, .idat c r, _, rfl, ?_, ?_, ?_, ?_⟩⟩
            · rw [e]; exact ⟨payload, hp, hr, hcond.2⟩
            · simp only [Chunk.extent]; omega
            · omega
            · omega
          · exact hnone
    · exact hnone

theorem scanLoop_spec (o : Oracle) (crc : Bytes → Nat) (src : Bytes)
    (hb : ∀ b ∈ src, b < 256) (hf : src.length < 2 ^ 32)
    (hpanic : ∀ d m, o.verified d ≠ .error (.panic m)) :
    ∀ (fuel index prev : Nat), prev ≤ index → prev ≤ src.length → src.length + 1 ≤ fuel + index →
      1 ≤ fuel →
      ∃ chunks, scanLoop o crc src fuel index prev = .ok chunks ∧ Covers o crc src prev chunks := by
  intro fuel
  induction fuel with
  | zero => intro _ _ _ _ _ h; omega
  | succ fuel ih =>
    intro index prev hpi hpl hfuel _
    rw [scanLoop]
    cases hns : nextSignature src (src.length + 1) index with
    | none =>
      simp only
      refine ⟨_, rfl, ?_⟩
      split
      · simp only [Covers, ChunkOk, Chunk.extent]; omega
      · simp only [Covers]; omega
    | some p =>
      obtain ⟨i, sg⟩ := p
      obtain ⟨hii, hil⟩ := nextSignature_spec src _ _ _ _ hns
      simp only
      obtain ⟨res, hres, hacc⟩ := scanAt_spec o crc src hb hf hpanic i prev sg (by omega) hil
      rw [hres, c_bind_ok]
      rcases hacc with rfl | ⟨n, X, next, rfl, hok, hnext, hnl, hin⟩
      · simp only
        exact ih (i + 1) prev (by omega) hpl (by omega) (by omega)
      · simp only
        obtain ⟨r, hr, hcov⟩ := ih next next (Nat.le_refl _) hnl (by omega) (by omega)
        rw [hr, c_bind_ok]
        refine ⟨_, rfl, ?_⟩
        simp only [List.cons_append, List.nil_append, Covers, ChunkOk, Chunk.extent]
        subst hnext
        exact ⟨hpl, by omega, by omega, hok, hcov⟩

end Preflate.Proofs
