/-
SIZE OF THE CORRECTION DATA, layer 2: operations → binary decisions (Model/Codec.lean).

The number of decisions `encodeOps` emits is EXACTLY the sum of `opCost` over the operations, when the
two decisions that flush a pending default (`default_count = 1`) are charged to the operation that set
it (`mis _ false`, `corr _ 0`):

    value bits _   : bits                      (bypass bits)
    mis _ true     : 1                         (write_default(0): one unary zero)
    mis _ false    : 2                         (the later flush: unary 1)
    corr _ 0       : 2                         (the later flush)
    corr _ v, v≠0  : 1 + 2 * bitLength v       (write_default(0), unary bitLength, bitLength-1 bits)

A well-formed operation (`Op.WF`) costs at most 63.
-/
import Preflate.Proofs.Codec
import Preflate.Proofs.Bits
namespace Preflate.Proofs
open Preflate

/-- decisions charged to one operation -/
def opCost : Op → Nat
  | .value bits _ => bits
  | .mis _ flag => if flag then 1 else 2
  | .corr _ v => if v = 0 then 2 else 1 + 2 * bitLength v

def opsCost (ops : List Op) : Nat := (ops.map opCost).sum

@[simp] theorem opsCost_nil : opsCost [] = 0 := rfl
@[simp] theorem opsCost_cons (o : Op) (ops : List Op) : opsCost (o :: ops) = opCost o + opsCost ops := by
  simp [opsCost]
@[simp] theorem opsCost_append (a b : List Op) : opsCost (a ++ b) = opsCost a + opsCost b := by
  simp [opsCost]

theorem putNBits_length (fam row bits n : Nat) : (putNBits fam row bits n).length = n := by
  induction n with
  | zero => simp [putNBits]
  | succ n ih => simp [putNBits, ih]

theorem writeBypass_length (v n : Nat) : (writeBypass v n).length = n := by
  induction n with
  | zero => simp [writeBypass]
  | succ n ih => simp [writeBypass, ih]

theorem writeExp_length (fam row v : Nat) (evs : List Ev) (h : writeExp fam row v = .ok evs) :
    evs.length = if v = 0 then 1 else 2 * bitLength v := by
  unfold writeExp at h
  simp only at h
  split at h
  · cases h
  · split at h
    · rename_i h1 h2
      cases h
      have hv : v ≠ 0 := by
        intro h0; subst h0; simp [bitLength] at h2
      simp only [List.length_append, putUnary_length, putNBits_length, if_neg hv]
      omega
    · rename_i h1 h2
      cases h
      simp only [putUnary_length]
      split
      · rename_i h0; subst h0; simp [bitLength]
      · rename_i h0
        have := (bitLength_bounds v h0).2.2
        omega

theorem flushDefault_length (c : Nat) (hc : c ≤ 1) (a : List Ev) (h : flushDefault c = .ok a) :
    a.length = 2 * c := by
  rw [flushDefault_eq c hc] at h
  cases h
  have : c = 0 ∨ c = 1 := by omega
  rcases this with rfl | rfl
  · simp [pre]
  · simp [pre, putUnary_length]

theorem writeDefault_zero_length (b : List Ev) (h : writeDefault 0 = .ok b) : b.length = 1 := by
  rw [writeDefault_zero] at h
  cases h
  simp [putUnary_length]

/-- one operation: decisions emitted now, plus the two owed for a default left pending -/
theorem encodeOp_length (c : Nat) (hc : c ≤ 1) (op : Op) (evs : List Ev) (c' : Nat)
    (h : encodeOp c op = .ok (evs, c')) : evs.length + 2 * c' = 2 * c + opCost op := by
  cases op with
  | value bits v =>
    simp only [encodeOp, bind_eq_ok] at h
    obtain ⟨a, ha, h⟩ := h
    cases h
    have := flushDefault_length c hc a ha
    simp only [List.length_append, writeBypass_length, opCost]
    omega
  | mis ctx flag =>
    simp only [encodeOp, bind_eq_ok] at h
    obtain ⟨a, ha, h⟩ := h
    have := flushDefault_length c hc a ha
    cases flag with
    | true =>
      simp only [if_true, bind_eq_ok] at h
      obtain ⟨b, hb, h⟩ := h
      cases h
      have := writeDefault_zero_length b hb
      simp only [List.length_append, opCost, if_true]
      omega
    | false =>
      simp only [Bool.false_eq_true, if_false] at h
      cases h
      simp only [opCost, Bool.false_eq_true, if_false]
      omega
  | corr ctx v =>
    simp only [encodeOp, bind_eq_ok] at h
    obtain ⟨a, ha, h⟩ := h
    have := flushDefault_length c hc a ha
    by_cases hv : v = 0
    · subst hv
      simp only [ne_eq, not_true_eq_false, if_false] at h
      cases h
      simp only [opCost, if_true]
      omega
    · simp only [ne_eq, hv, not_false_eq_true, if_true, bind_eq_ok] at h
      obtain ⟨b, hb, c0, hc0, h⟩ := h
      cases h
      have := writeDefault_zero_length b hb
      have h3 := writeExp_length 2 ctx v c0 hc0
      rw [if_neg hv] at h3
      simp only [List.length_append, opCost, if_neg hv]
      omega

/-- **layer 2, exact form**: the number of decisions is the total cost -/
theorem encodeOps_length_eq (ops : List Op) : ∀ (c : Nat), c ≤ 1 → ∀ (evs : List Ev),
    encodeOps c ops = .ok evs → evs.length = 2 * c + opsCost ops := by
  induction ops with
  | nil =>
    intro c hc evs h
    simp only [encodeOps] at h
    simpa using flushDefault_length c hc evs h
  | cons op rest ih =>
    intro c hc evs h
    simp only [encodeOps, bind_eq_ok] at h
    obtain ⟨⟨a, c'⟩, h1, b, h2, h⟩ := h
    cases h
    have hc' := default_count_le_one c op a c' h1
    have e1 := encodeOp_length c hc op a c' h1
    have e2 := ih c' hc' b h2
    simp only [List.length_append, opsCost_cons]
    omega

theorem bitLength_le_of_lt (v k : Nat) (h : v < 2 ^ k) : bitLength v ≤ k := by
  cases v with
  | zero => simp [bitLength]
  | succ n =>
    simp only [bitLength]
    have := (Nat.log2_lt (n := n + 1) (k := k) (by omega)).2 h
    omega

/-- cost of a correction below `2^k` -/
theorem opCost_corr_le (ctx v k : Nat) (hk : 1 ≤ k) (h : v < 2 ^ k) : opCost (.corr ctx v) ≤ 1 + 2 * k := by
  have := bitLength_le_of_lt v k h
  simp only [opCost]
  split <;> omega

theorem opCost_mis_le (ctx : Nat) (f : Bool) : opCost (.mis ctx f) ≤ 2 := by
  simp only [opCost]; split <;> omega

theorem opCost_le_of_wf (o : Op) (h : o.WF) : opCost o ≤ 63 := by
  cases o with
  | value bits v => simp only [Op.WF] at h; simp only [opCost]; omega
  | mis ctx f => have := opCost_mis_le ctx f; omega
  | corr ctx v => exact opCost_corr_le ctx v 31 (by omega) h.2

theorem opCost_pos_of_wf (o : Op) (h : o.WF) : 1 ≤ opCost o := by
  cases o with
  | value bits v => simp only [Op.WF] at h; simp only [opCost]; omega
  | mis ctx f => simp only [opCost]; split <;> omega
  | corr ctx v => simp only [opCost]; split <;> omega

theorem opsCost_le_of_wf (ops : List Op) (hwf : ∀ o ∈ ops, o.WF) : opsCost ops ≤ 63 * ops.length := by
  induction ops with
  | nil => simp
  | cons o ops ih =>
    have h1 := opCost_le_of_wf o (hwf o (List.mem_cons_self ..))
    have h2 := ih (fun o' h' => hwf o' (List.mem_cons_of_mem _ h'))
    simp only [opsCost_cons, List.length_cons]
    omega

theorem length_le_opsCost_of_wf (ops : List Op) (hwf : ∀ o ∈ ops, o.WF) : ops.length ≤ opsCost ops := by
  induction ops with
  | nil => simp
  | cons o ops ih =>
    have h1 := opCost_pos_of_wf o (hwf o (List.mem_cons_self ..))
    have h2 := ih (fun o' h' => hwf o' (List.mem_cons_of_mem _ h'))
    simp only [opsCost_cons, List.length_cons]
    omega

/-- **layer 2**: at most 63 decisions per well-formed operation -/
theorem encodeOps_length_le (ops : List Op) (hwf : ∀ o ∈ ops, o.WF) (evs : List Ev)
    (h : encodeOps 0 ops = .ok evs) : evs.length ≤ 63 * ops.length + 0 := by
  have := encodeOps_length_eq ops 0 (by omega) evs h
  have := opsCost_le_of_wf ops hwf
  omega

end Preflate.Proofs
