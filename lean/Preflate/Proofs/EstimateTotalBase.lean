/- Panic-freedom of the full parameter estimator (`Est.estimate`), part 1 of 4: array, bit and hash
   facts.  See Proofs/EstimateTotal.lean for the overview and the list of panic sites. -/
import Preflate.Model.EstimatorFull
import Preflate.Model.Valid
import Preflate.Proofs.Estimator
namespace Preflate.Proofs.EstTotal
open Preflate Preflate.Est

/-! ### arrays -/

theorem get_set! (a : Array Nat) (i x v : Nat) :
    (a.set! i v)[x]! = if i = x ∧ i < a.size then v else a[x]! := by
  simp only [Array.set!_eq_setIfInBounds, getElem!_def, Array.getElem?_setIfInBounds]
  by_cases h : i = x
  · subst h
    by_cases h2 : i < a.size
    · simp [h2]
    · simp [h2]
  · simp [h]

theorem get_set!_eq (a : Array Nat) (i v : Nat) (h : i < a.size) : (a.set! i v)[i]! = v := by
  rw [get_set!]; simp [h]

theorem get_set!_ne (a : Array Nat) (i x v : Nat) (h : i ≠ x) : (a.set! i v)[x]! = a[x]! := by
  rw [get_set!]; simp [h]

theorem size_set! (a : Array Nat) (i v : Nat) : (a.set! i v).size = a.size := by simp

theorem getD_eq_get! (a : Array Nat) (i : Nat) : a.getD i 0 = a[i]! := by
  simp only [getElem!_def, Array.getD_eq_getD_getElem?]
  cases a[i]? <;> rfl

theorem get!_replicate_zero (n x : Nat) : (Array.replicate n 0)[x]! = 0 := by
  simp only [getElem!_def, Array.getElem?_replicate]
  split <;> simp_all

theorem get!_empty (x : Nat) : (#[] : Array Nat)[x]! = 0 := by
  simp

/-! ### bit masks -/

theorem and_7fff (n : Nat) : n &&& 0x7fff = n % 32768 := Nat.and_two_pow_sub_one_eq_mod n 15
theorem and_4095 (n : Nat) : n &&& 4095 = n % 4096 := Nat.and_two_pow_sub_one_eq_mod n 12

set_option maxRecDepth 100000 in
theorem mark_bits : ∀ len, len < 259 →
    (len % 65536 ||| 0) &&& 0x0fff = len ∧ (len % 65536 ||| 0) &&& 0x8000 = 0 ∧
    (len % 65536 ||| 0) &&& 0x4000 = 0 ∧
    (len % 65536 ||| (0x8000 ||| 0)) &&& 0x0fff = len ∧ (len % 65536 ||| (0x8000 ||| 0)) &&& 0x4000 = 0 ∧
    (len % 65536 ||| (0x8000 ||| 0)) &&& 0x8000 ≠ 0 ∧
    (len % 65536 ||| (0x8000 ||| 0x4000)) &&& 0x0fff = len ∧
    (len % 65536 ||| (0x8000 ||| 0x4000)) &&& 0x4000 ≠ 0 ∧
    (len % 65536 ||| (0x8000 ||| 0x4000)) &&& 0x8000 ≠ 0 := by decide

/-! ### the hash functions -/

theorem numHashBytes_cases (hp : Params) : Chains.numHashBytes hp = 3 ∨ Chains.numHashBytes hp = 4 := by
  unfold Chains.numHashBytes
  split <;> simp

set_option maxRecDepth 100000 in
theorem random_vector_small : ∀ x ∈ Gen.RANDOM_VECTOR, x < 65536 := by decide

theorem random_vector_getD (i : Nat) : RANDOM_VECTOR_A.getD i 0 < 65536 := by
  unfold RANDOM_VECTOR_A
  simp only [Array.getD_eq_getD_getElem?, List.getElem?_toArray]
  cases h : Gen.RANDOM_VECTOR[i]? with
  | none => simp
  | some v =>
    simp only [Option.getD_some]
    exact random_vector_small v (List.mem_of_getElem? h)

theorem u16_lt (x : Nat) : Chains.u16 x < 65536 := by unfold Chains.u16; omega

/-- every hash value indexes the 64K-entry tables -/
theorem hashAtA_lt (hp : Params) (plain : Array Nat) (i : Nat) : hashAtA hp plain i < 65536 := by
  unfold hashAtA
  split
  · exact Nat.lt_of_le_of_lt Nat.and_le_left (u16_lt _)
  · exact Nat.lt_of_le_of_lt Nat.and_le_right (by decide)
  · exact u16_lt _
  · exact u16_lt _
  · exact u16_lt _
  · exact Nat.xor_lt_two_pow (n := 16) (Nat.xor_lt_two_pow (n := 16) (random_vector_getD _) (random_vector_getD _))
      (random_vector_getD _)
  · exact u16_lt _
  · decide

/-- the hash at `i` reads `numHashBytes` bytes from `i` on -/
theorem hashAtA_congr (hp : Params) (plain : Array Nat) (i j : Nat)
    (h : ∀ k, k < Chains.numHashBytes hp → Chains.byteAt plain (i + k) = Chains.byteAt plain (j + k)) :
    hashAtA hp plain i = hashAtA hp plain j := by
  unfold Chains.numHashBytes at h
  unfold hashAtA
  have h0 := h 0
  have h1 := h 1
  have h2 := h 2
  have h3 := h 3
  simp only [Nat.add_zero] at h0
  split <;> simp_all

end Preflate.Proofs.EstTotal
