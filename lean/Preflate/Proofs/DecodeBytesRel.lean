/-
The relation between a LIST of well-formed operations and a BYTE-source state
(`PredictionDecoderCabac` over `VP8Reader`), and the proof that the three pops respect it.

`ER out evs d s`: the decoder state `s` has default_count `d` and its reader, with its context counts,
is positioned in `out` exactly where the writer stood before writing the decisions `evs` (and then
finishing): there is a writer state `w` in step with the reader (`DInv`, the step-wise invariant of
the VP8 proof), carrying the same context counts, from which writing `evs` and `finish` gives `out`.
Each `get` / `get_bypass` then returns the next decision of `evs` and stays in step (`get_spec`,
`getBypass_spec` of Proofs/VP8.lean).

`RelB out ops s` := all of `ops` well-formed ∧ `ER out (the decisions encodeOps produces for ops) 0 s`.
-/
import Preflate.Model.DecodeBytes
import Preflate.Proofs.VP8
import Preflate.Proofs.Codec
import Preflate.Proofs.DecodeBytesSim
namespace Preflate.Proofs
open Preflate Preflate.VP8
set_option linter.unusedVariables false
set_option linter.unnecessarySeqFocus false
set_option linter.unusedSimpArgs false

/-- reader `r` with counts `cs` stands where a writer stood before writing `evs` and finishing into `out` -/
def EvRel (out : Array UInt8) (evs : List Ev) (r : Reader) (cs : Array Nat) : Prop :=
  ∃ w, WInv w ∧ DInv r w out ∧ (evs.foldl stepW (w, cs)).1.finish = out

/-- the same for a decoder state with default_count `d` -/
def ER (out : Array UInt8) (evs : List Ev) (d : Nat) (s : BSt) : Prop :=
  s.dc = d ∧ EvRel out evs s.r s.cs

theorem stepW_some (w : Writer) (cs : Array Nat) (c : CtxId) (bit : Bool) :
    stepW (w, cs) ⟨some c, bit⟩ =
      ((w.put bit (cs.getD (ctxIndex c) 0x101)).1, cs.set! (ctxIndex c) (w.put bit (cs.getD (ctxIndex c) 0x101)).2) := rfl

theorem stepW_none (w : Writer) (cs : Array Nat) (bit : Bool) :
    stepW (w, cs) ⟨none, bit⟩ = (w.putBypass bit, cs) := rfl

/-- one context-coded decision -/
theorem get_ev {out : Array UInt8} {c : CtxId} {bit : Bool} {evs : List Ev} {d : Nat} {s : BSt}
    (h : ER out (⟨some c, bit⟩ :: evs) d s) : (s.get c).1 = bit ∧ ER out evs d (s.get c).2 := by
  obtain ⟨hd, w, hw, hdi, hout⟩ := h
  simp only [List.foldl_cons, stepW_some] at hout
  have hf : Final (w.put bit (s.cs.getD (ctxIndex c) 0x101)).1 out := by
    rw [← hout]; exact final_of_fold evs _ _ (put_inv w _ _ hw)
  obtain ⟨r', g1, g2⟩ := get_spec s.r w out bit _ hw hdi hf
  simp only [BSt.get, g1]
  exact ⟨trivial, hd, _, put_inv w _ _ hw, g2, hout⟩

/-- one bypass decision -/
theorem bypass_ev {out : Array UInt8} {bit : Bool} {evs : List Ev} {d : Nat} {s : BSt}
    (h : ER out (⟨none, bit⟩ :: evs) d s) : s.getBypass.1 = bit ∧ ER out evs d s.getBypass.2 := by
  obtain ⟨hd, w, hw, hdi, hout⟩ := h
  simp only [List.foldl_cons, stepW_none] at hout
  have hf : Final (w.putBypass bit) out := by
    rw [← hout]; exact final_of_fold evs _ _ (putBypass_inv w _ hw)
  obtain ⟨r', g1, g2⟩ := getBypass_spec s.r w out bit hw hdi hf
  simp only [BSt.getBypass, g1]
  exact ⟨trivial, hd, _, putBypass_inv w _ hw, g2, hout⟩

theorem ER.setDc {out : Array UInt8} {evs : List Ev} {d : Nat} {s : BSt} (h : ER out evs d s) (d' : Nat) :
    ER out evs d' { s with dc := d' } := ⟨rfl, h.2⟩

/-! ### codec level: the loops of `CabacReader` / `PredictionCabacContext` over the decisions the
encoder's loops emit (mirror of Proofs/Codec.lean) -/

theorem getUnary_ev {out : Array UInt8} (fam row : Nat) (rest : List Ev) (d : Nat) :
    ∀ (v i fuel : Nat) (s : BSt), v < fuel → ER out (putUnary fam row v i ++ rest) d s →
      ∃ s', BSt.getUnary fam row fuel i s = .ok (i + v, s') ∧ ER out rest d s' := by
  intro v
  induction v with
  | zero =>
    intro i fuel s hf h
    cases fuel with
    | zero => omega
    | succ f =>
      simp only [putUnary, List.cons_append, List.nil_append] at h
      obtain ⟨g1, g2⟩ := get_ev h
      refine ⟨(s.get (ctxAt fam row i)).2, ?_, g2⟩
      rw [BSt.getUnary]
      simp only [g1, Bool.false_eq_true, if_false, Nat.add_zero]
  | succ v ih =>
    intro i fuel s hf h
    cases fuel with
    | zero => omega
    | succ f =>
      simp only [putUnary, List.cons_append] at h
      obtain ⟨g1, g2⟩ := get_ev h
      obtain ⟨s', e1, e2⟩ := ih (i + 1) f _ (by omega) g2
      refine ⟨s', ?_, e2⟩
      rw [BSt.getUnary]
      simp only [g1, if_true]
      rw [e1, show i + 1 + v = i + (v + 1) by omega]

theorem getNBits_ev {out : Array UInt8} (fam row bits : Nat) (rest : List Ev) (d : Nat) :
    ∀ (n : Nat) (s : BSt), ER out (putNBits fam row bits n ++ rest) d s →
      (BSt.getNBits fam row n s).1 = bits % 2 ^ n ∧ ER out rest d (BSt.getNBits fam row n s).2 := by
  intro n
  induction n with
  | zero =>
    intro s h
    simp only [putNBits, List.nil_append] at h
    simp only [BSt.getNBits, Nat.pow_zero, Nat.mod_one]
    exact ⟨trivial, h⟩
  | succ n ih =>
    intro s h
    simp only [putNBits, List.cons_append] at h
    obtain ⟨g1, g2⟩ := get_ev h
    obtain ⟨e1, e2⟩ := ih _ g2
    simp only [BSt.getNBits, g1, e1]
    exact ⟨(testBit_split bits n).symm, e2⟩

theorem readBypass_ev {out : Array UInt8} (v : Nat) (rest : List Ev) (d : Nat) :
    ∀ (n acc : Nat) (s : BSt), ER out (writeBypass v n ++ rest) d s →
      (BSt.readBypass n acc s).1 = acc * 2 ^ n + v % 2 ^ n ∧ ER out rest d (BSt.readBypass n acc s).2 := by
  intro n
  induction n with
  | zero =>
    intro acc s h
    simp only [writeBypass, List.nil_append] at h
    simp only [BSt.readBypass, Nat.pow_zero, Nat.mod_one, Nat.mul_one, Nat.add_zero]
    exact ⟨trivial, h⟩
  | succ n ih =>
    intro acc s h
    simp only [writeBypass, List.cons_append] at h
    obtain ⟨g1, g2⟩ := bypass_ev h
    obtain ⟨e1, e2⟩ := ih (acc * 2 + (if v.testBit n then 1 else 0)) _ g2
    simp only [BSt.readBypass, g1]
    refine ⟨?_, e2⟩
    rw [e1, testBit_split]
    split <;> simp [Nat.pow_succ, Nat.add_mul, Nat.mul_assoc, Nat.mul_comm 2] <;> omega

/-- the decisions of `write_exp_encoded` (total form of `writeExp`) -/
def expEvs (fam row v : Nat) : List Ev :=
  if bitLength v > 1 then
    putUnary fam row (bitLength v) 0 ++ putNBits (fam + 1) row (v % 2 ^ bitLength v) (bitLength v - 1)
  else putUnary fam row (bitLength v) 0

theorem writeExp_eq (fam row v : Nat) (h : v < 2 ^ 31) : writeExp fam row v = .ok (expEvs fam row v) := by
  have := bitLength_lt_32 v h
  unfold writeExp expEvs
  simp only
  rw [if_neg (by omega)]
  split <;> rfl

theorem readExp_ev {out : Array UInt8} (fam row v : Nat) (hv : v < 2 ^ 31) (rest : List Ev) (d : Nat)
    (s : BSt) (h : ER out (expEvs fam row v ++ rest) d s) :
    ∃ s', BSt.readExp fam row s = .ok (v, s') ∧ ER out rest d s' := by
  have hfuel : 32 < s.unaryFuel := by unfold BSt.unaryFuel; omega
  have hbl := bitLength_lt_32 v hv
  unfold expEvs at h
  by_cases hv0 : v = 0
  · subst hv0
    simp only [bitLength, gt_iff_lt, Nat.not_lt_zero, if_false] at h
    obtain ⟨s', e1, e2⟩ := getUnary_ev fam row rest d 0 0 s.unaryFuel s (by omega) h
    refine ⟨s', ?_, e2⟩
    simp only [BSt.readExp, e1, bind, Except.bind, if_true]
  · obtain ⟨hlo, hhi, h1⟩ := bitLength_bounds v hv0
    generalize bitLength v = bl at *
    by_cases hb : bl > 1
    · simp only [hb, if_true, List.append_assoc] at h
      obtain ⟨s', e1, e2⟩ := getUnary_ev fam row _ d bl 0 s.unaryFuel s (by omega) h
      obtain ⟨n1, n2⟩ := getNBits_ev (fam + 1) row _ rest d (bl - 1) s' e2
      refine ⟨_, ?_, n2⟩
      have h0 : ¬ (0 + bl = 0) := by omega
      have h1' : ¬ (0 + bl = 1) := by omega
      have h33 : ¬ (0 + bl ≥ 33) := by omega
      have hval : v % 2 ^ bl % 2 ^ (bl - 1) + 2 ^ (bl - 1) = v := by
        rw [Nat.mod_eq_of_lt hhi]
        have : v < 2 ^ (bl - 1 + 1) := by rw [show bl - 1 + 1 = bl by omega]; exact hhi
        rw [Nat.pow_succ] at this
        have hm := Nat.mod_add_div v (2 ^ (bl - 1))
        have : v / 2 ^ (bl - 1) = 1 := by
          have a : v / 2 ^ (bl - 1) < 2 := (Nat.div_lt_iff_lt_mul (Nat.two_pow_pos _)).2 (by omega)
          have b : 1 ≤ v / 2 ^ (bl - 1) := (Nat.le_div_iff_mul_le (Nat.two_pow_pos _)).2 (by omega)
          omega
        rw [this] at hm; omega
      simp only [BSt.readExp, e1, bind, Except.bind, h0, h1', h33, if_false]
      rw [show 0 + bl - 1 = bl - 1 by omega, n1, hval]
    · have hb1 : bl = 1 := by omega
      subst hb1
      have hv1 : v = 1 := by simp at hlo hhi; omega
      subst hv1
      simp only [gt_iff_lt, Nat.lt_irrefl, if_false] at h
      obtain ⟨s', e1, e2⟩ := getUnary_ev fam row rest d 1 0 s.unaryFuel s (by omega) h
      refine ⟨s', ?_, e2⟩
      simp only [BSt.readExp, e1, bind, Except.bind]
      simp

/-! ### operation level -/

/-- the decisions `encodeOps` emits for one operation (a default operation is flushed by the next
    call or by `finish`, as a pending count of 1) -/
def evsOf : Op → List Ev
  | .value bits v => writeBypass v bits
  | .mis _ true => putUnary 0 0 0 0
  | .mis _ false => putUnary 0 0 1 0
  | .corr ctx v => if v = 0 then putUnary 0 0 1 0 else putUnary 0 0 0 0 ++ expEvs 2 ctx v

/-- all decisions of a list of operations -/
def evsOfOps (ops : List Op) : List Ev := ops.flatMap evsOf

theorem evsOfOps_cons (o : Op) (ops : List Op) : evsOfOps (o :: ops) = evsOf o ++ evsOfOps ops := by
  simp [evsOfOps]

theorem encodeOps_flat (ops : List Op) (hwf : ∀ o ∈ ops, o.WF) (c : Nat) (hc : c ≤ 1) :
    encodeOps c ops = .ok (pre c ++ evsOfOps ops) := by
  induction ops generalizing c with
  | nil => simp [encodeOps, flushDefault_eq c hc, evsOfOps]
  | cons op ops ih =>
    have hwf' : ∀ o ∈ ops, o.WF := fun o ho => hwf o (List.mem_cons_of_mem _ ho)
    have hop : op.WF := hwf op List.mem_cons_self
    have he0 := ih hwf' 0 (by omega)
    have he1 := ih hwf' 1 (by omega)
    simp only [pre, if_true, List.nil_append] at he0
    simp only [pre, if_false, Nat.one_ne_zero] at he1
    rw [evsOfOps_cons]
    cases op with
    | value bits v =>
      simp [encodeOps, encodeOp, flushDefault_eq c hc, bind, Except.bind, he0, evsOf]
    | mis ctx flag =>
      cases flag with
      | true =>
        simp [encodeOps, encodeOp, flushDefault_eq c hc, bind, Except.bind, he0, writeDefault_zero, evsOf]
      | false =>
        simp [encodeOps, encodeOp, flushDefault_eq c hc, bind, Except.bind, he1, evsOf]
    | corr ctx v =>
      by_cases hv0 : v = 0
      · subst hv0
        simp [encodeOps, encodeOp, flushDefault_eq c hc, bind, Except.bind, he1, evsOf]
      · simp [encodeOps, encodeOp, flushDefault_eq c hc, bind, Except.bind, he0, writeDefault_zero, hv0,
          writeExp_eq 2 ctx v hop.2, evsOf]

theorem encodeOps_eq (ops : List Op) (hwf : ∀ o ∈ ops, o.WF) : encodeOps 0 ops = .ok (evsOfOps ops) := by
  simpa [pre] using encodeOps_flat ops hwf 0 (by omega)

/-- **the relation**: well-formed operations still to come ↔ a decoder state (default_count 0)
    positioned on exactly the decisions the encoder emitted for them -/
def RelB (out : Array UInt8) (ops : List Op) (s : BSt) : Prop :=
  (∀ o ∈ ops, o.WF) ∧ ER out (evsOfOps ops) 0 s

/-- read_default on a flushed count of 0 -/
theorem readDefault_zero_ev {out : Array UInt8} (rest : List Ev) (s : BSt)
    (h : ER out (putUnary 0 0 0 0 ++ rest) 0 s) :
    ∃ s', BSt.readDefault s = .ok s' ∧ ER out rest 0 s' := by
  have h' : ER out (expEvs 0 0 0 ++ rest) 0 s := by simpa [expEvs, bitLength] using h
  obtain ⟨s', e1, e2⟩ := readExp_ev 0 0 0 (by omega) rest 0 s h'
  exact ⟨{ s' with dc := 0 }, by simp [BSt.readDefault, e1, bind, Except.bind], e2.setDc 0⟩

/-- read_default on a flushed count of 1 -/
theorem readDefault_one_ev {out : Array UInt8} (rest : List Ev) (s : BSt)
    (h : ER out (putUnary 0 0 1 0 ++ rest) 0 s) :
    ∃ s', BSt.readDefault s = .ok s' ∧ ER out rest 1 s' := by
  have hb : bitLength 1 = 1 := by decide
  have h' : ER out (expEvs 0 0 1 ++ rest) 0 s := by simpa [expEvs, hb] using h
  obtain ⟨s', e1, e2⟩ := readExp_ev 0 0 1 (by omega) rest 0 s h'
  exact ⟨{ s' with dc := 1 }, by simp [BSt.readDefault, e1, bind, Except.bind], e2.setDc 1⟩

theorem popValue_rel (out : Array UInt8) (bits : Nat) (a : List Op) (b : BSt) (hr : RelB out a b) :
    SimR (PL (RelB out)) (popValue bits a) (BSt.popValue bits b) := by
  intro x hx
  obtain ⟨hwf, her⟩ := hr
  cases a with
  | nil => cases hx
  | cons op rest =>
    cases op with
    | mis c f => cases hx
    | corr c v => cases hx
    | value bits' v =>
      simp only [popValue] at hx
      split at hx
      · next hb =>
        subst hb
        cases hx
        have hop : (Op.value bits' v).WF := hwf _ List.mem_cons_self
        obtain ⟨hb1, hb16, hv⟩ := hop
        have h16 : v < 65536 := Nat.lt_of_lt_of_le hv
          (by simpa using Nat.pow_le_pow_right (n := 2) (by omega) hb16)
        rw [evsOfOps_cons] at her
        obtain ⟨e1, e2⟩ := readBypass_ev v (evsOfOps rest) 0 bits' 0 b her
        refine ⟨((BSt.readBypass bits' 0 b).1 % 65536, (BSt.readBypass bits' 0 b).2), ?_,
          ⟨?_, fun o ho => hwf o (List.mem_cons_of_mem _ ho), e2⟩⟩
        · simp only [BSt.popValue, her.1, ne_eq, not_true_eq_false, if_false]
        · simp only [e1, Nat.zero_mul, Nat.zero_add, Nat.mod_eq_of_lt hv, Nat.mod_eq_of_lt h16]
      · cases hx

theorem popMis_rel (out : Array UInt8) (ctx : Nat) (a : List Op) (b : BSt) (hr : RelB out a b) :
    SimR (PL (RelB out)) (popMis ctx a) (BSt.popMis ctx b) := by
  intro x hx
  obtain ⟨hwf, her⟩ := hr
  cases a with
  | nil => cases hx
  | cons op rest =>
    have hwf' : ∀ o ∈ rest, o.WF := fun o ho => hwf o (List.mem_cons_of_mem _ ho)
    cases op with
    | value c f => cases hx
    | corr c v => cases hx
    | mis c f =>
      simp only [popMis] at hx
      split at hx
      · cases hx
        rw [evsOfOps_cons] at her
        cases f with
        | true =>
          obtain ⟨s', e1, e2⟩ := readDefault_zero_ev _ b her
          refine ⟨(true, s'), ?_, ⟨rfl, hwf', e2⟩⟩
          simp only [BSt.popMis, her.1, if_true, e1, bind, Except.bind, e2.1, Nat.lt_irrefl, gt_iff_lt, if_false]
        | false =>
          obtain ⟨s', e1, e2⟩ := readDefault_one_ev _ b her
          refine ⟨(false, { s' with dc := 0 }), ?_, ⟨rfl, hwf', e2.setDc 0⟩⟩
          simp only [BSt.popMis, her.1, if_true, e1, bind, Except.bind, e2.1, gt_iff_lt, Nat.lt_one_iff,
            Nat.zero_lt_one, Nat.sub_self]
      · cases hx

theorem popCorr_rel (out : Array UInt8) (ctx : Nat) (a : List Op) (b : BSt) (hr : RelB out a b) :
    SimR (PL (RelB out)) (popCorr ctx a) (BSt.popCorr ctx b) := by
  intro x hx
  obtain ⟨hwf, her⟩ := hr
  cases a with
  | nil => cases hx
  | cons op rest =>
    have hwf' : ∀ o ∈ rest, o.WF := fun o ho => hwf o (List.mem_cons_of_mem _ ho)
    cases op with
    | value c f => cases hx
    | mis c v => cases hx
    | corr c v =>
      simp only [popCorr] at hx
      split at hx
      · next hc =>
        subst hc
        cases hx
        have hop : (Op.corr c v).WF := hwf _ List.mem_cons_self
        rw [evsOfOps_cons] at her
        by_cases hv0 : v = 0
        · subst hv0
          simp only [evsOf, if_true] at her
          obtain ⟨s', e1, e2⟩ := readDefault_one_ev _ b her
          refine ⟨(0, { s' with dc := 0 }), ?_, ⟨rfl, hwf', e2.setDc 0⟩⟩
          simp only [BSt.popCorr, her.1, if_true, e1, bind, Except.bind, e2.1, gt_iff_lt, Nat.lt_one_iff,
            Nat.zero_lt_one, Nat.sub_self]
        · simp only [evsOf, hv0, if_false, List.append_assoc] at her
          obtain ⟨s', e1, e2⟩ := readDefault_zero_ev _ b her
          obtain ⟨s'', f1, f2⟩ := readExp_ev 2 c v hop.2 _ 0 s' e2
          refine ⟨(v, s''), ?_, ⟨rfl, hwf', f2⟩⟩
          simp only [BSt.popCorr, her.1, if_true, e1, bind, Except.bind, e2.1, Nat.lt_irrefl, gt_iff_lt,
            if_false, f1]
      · cases hx

/-- the three pops of the list source and of the byte source respect `RelB` -/
theorem srcSim_list_byte (out : Array UInt8) : SrcSim listSrc byteSrc (RelB out) :=
  ⟨popValue_rel out, popMis_rel out, popCorr_rel out⟩

/-- a freshly constructed reader over the bytes the writer produced stands at the first decision
    (the construction of `vp8_lossless`, stopped before the induction) -/
theorem evRel_init (evs : List Ev) (bytes : Array UInt8) (h : writeEvents evs = bytes) :
    EvRel bytes evs (Reader.new bytes) freshContexts := by
  rw [writeEvents_eq] at h
  have hw0 := winv_init
  have hwn : WInv Writer.new := put_inv _ false 0x101 hw0
  have hfn : Final Writer.new bytes := by rw [← h]; exact final_of_fold _ _ _ hwn
  have hf0 : Final ({} : Writer) bytes := put_final_back _ false 0x101 bytes hw0 hfn
  obtain ⟨f1, f2⟩ := fill_spec _ _ bytes (dinv_init bytes) hf0.len
  obtain ⟨r', g1, g2⟩ := get_spec _ _ bytes false 0x101 hw0 f1 hfn
  have hnew : Reader.new bytes = r' := by
    simp only [Reader.new, g1]
  rw [hnew]; exact ⟨Writer.new, hwn, g2, h⟩

theorem encodeBytes_eq (ops : List Op) (hwf : ∀ o ∈ ops, o.WF) :
    encodeBytes ops = .ok (writeEvents (evsOfOps ops)) := by
  unfold encodeBytes
  rw [encodeOps_eq ops hwf]
  rfl

/-- a freshly constructed decoder over the bytes the encoder produced is related to the whole
    operation list -/
theorem relB_init (ops : List Op) (hwf : ∀ o ∈ ops, o.WF) (bytes : Array UInt8)
    (h : encodeBytes ops = .ok bytes) : RelB bytes ops (BSt.init bytes) := by
  rw [encodeBytes_eq ops hwf] at h
  have h' : writeEvents (evsOfOps ops) = bytes := Except.ok.inj h
  have hev := evRel_init _ _ h'
  unfold BSt.init
  refine ⟨hwf, ?_, ?_⟩
  · rfl
  · dsimp only
    exact hev

/-- layer (b), codec level: driving the byte decoder with the kinds of a well-formed operation list
    over the bytes that list was encoded to returns the list -/
theorem decodeOpsBytes_rel (out : Array UInt8) : ∀ (ops : List Op) (s : BSt), RelB out ops s →
    ∃ s', decodeOpsBytes (ops.map Op.kind) s = .ok (ops, s') ∧ RelB out [] s' := by
  intro ops
  induction ops with
  | nil => intro s h; exact ⟨s, rfl, h⟩
  | cons op rest ih =>
    intro s h
    cases op with
    | value bits v =>
      obtain ⟨y, hy, hv, hr⟩ := popValue_rel out bits _ s h (v, rest) (by simp [popValue])
      obtain ⟨v', s1⟩ := y
      dsimp only at hv hr
      subst hv
      obtain ⟨s', e1, e2⟩ := ih s1 hr
      exact ⟨s', by simp only [List.map_cons, Op.kind, decodeOpsBytes, hy, e1, bind, Except.bind], e2⟩
    | mis ctx f =>
      obtain ⟨y, hy, hv, hr⟩ := popMis_rel out ctx _ s h (f, rest) (by simp [popMis])
      obtain ⟨v', s1⟩ := y
      dsimp only at hv hr
      subst hv
      obtain ⟨s', e1, e2⟩ := ih s1 hr
      exact ⟨s', by simp only [List.map_cons, Op.kind, decodeOpsBytes, hy, e1, bind, Except.bind], e2⟩
    | corr ctx v =>
      obtain ⟨y, hy, hv, hr⟩ := popCorr_rel out ctx _ s h (v, rest) (by simp [popCorr])
      obtain ⟨v', s1⟩ := y
      dsimp only at hv hr
      subst hv
      obtain ⟨s', e1, e2⟩ := ih s1 hr
      exact ⟨s', by simp only [List.map_cons, Op.kind, decodeOpsBytes, hy, e1, bind, Except.bind], e2⟩

end Preflate.Proofs
