/-
Layer (a) of Proofs/DecodeBytes: the generic reconstruction functions of Model/DecodeBytes.lean at
the LIST instance `listSrc` ARE the existing list-consuming definitions of Model/Params.lean and
Model/Predict.lean (same result shape, so plain equalities). Every theorem about `readParams`,
`decTok`, …, `decStream`, `recompressStream` therefore is a theorem about the generic code.
-/
import Preflate.Model.DecodeBytes
namespace Preflate.Proofs
open Preflate

variable {H : Type}

theorem readParamsS_list (ops : List Op) : readParamsS listSrc ops = readParams ops := rfl

theorem listSrc_popValue : (listSrc).popValue = popValue := rfl
theorem listSrc_popMis : (listSrc).popMis = popMis := rfl
theorem listSrc_popCorr : (listSrc).popCorr = popCorr := rfl
theorem listSrc_blockFuel (ops : List Op) : (listSrc).blockFuel ops = ops.length + 1 := rfl

theorem decTokS_list (P : Pred H) (plain : Array Nat) (s : PState H) (ops : List Op) :
    decTokS listSrc P plain s ops = decTok P plain s ops := by
  unfold decTokS decTok
  rcases P.predictTok plain s with ⟨pt, pend⟩
  cases pt <;>
  · simp only [listSrc_popMis, listSrc_popCorr]
    congr 1
    funext step
    rcases step with ⟨t, ops, s1⟩ | ⟨a, b, c, d⟩ <;> rfl

theorem decToksS_list (P : Pred H) (plain : Array Nat) (bs : Nat) :
    ∀ (fuel : Nat) (s : PState H) (ops : List Op),
      decToksS listSrc P plain bs fuel s ops = decToks P plain bs fuel s ops := by
  intro fuel
  induction fuel with
  | zero => intro s ops; rfl
  | succ n ih =>
    intro s ops
    simp only [decToksS, decToks, decTokS_list, ih]

theorem decLdTreesS_list : ∀ (fuel : Nat) (syms : List Nat) (prev : Option Nat) (ops : List Op),
    decLdTreesS listSrc fuel syms prev ops = decLdTrees fuel syms prev ops := by
  intro fuel
  induction fuel with
  | zero => intro syms prev ops; rfl
  | succ n ih =>
    intro syms prev ops
    simp only [decLdTreesS, decLdTrees, ih]
    rfl

theorem decTcLengthsS_list (tc : List Nat) : ∀ (n i : Nat) (acc : List Nat) (ops : List Op),
    decTcLengthsS listSrc tc n i acc ops = decTcLengths tc n i acc ops := by
  intro n
  induction n with
  | zero => intro i acc ops; rfl
  | succ n ih =>
    intro i acc ops
    simp only [decTcLengthsS, decTcLengths, ih]
    rfl

theorem decTreeS_list (P : Pred H) (freq : List Nat × List Nat) (ops : List Op) :
    decTreeS listSrc P freq ops = decTree P freq ops := by
  simp only [decTreeS, decTree, decLdTreesS_list, decTcLengthsS_list]
  rfl

theorem decBlockS_list (P : Pred H) (plain : Array Nat) (s : PState H) (ops : List Op) :
    decBlockS listSrc P plain s ops = decBlock P plain s ops := by
  simp only [decBlockS, decBlock, decToksS_list, decTreeS_list]
  rfl

theorem decIsEofS_list (plain : Array Nat) (s : PState H) (ops : List Op) :
    decIsEofS listSrc plain s ops = decIsEof plain s ops := rfl

theorem decBlocksS_list (P : Pred H) (plain : Array Nat) :
    ∀ (fuel : Nat) (s : PState H) (ops : List Op),
      decBlocksS listSrc P plain fuel s ops = decBlocks P plain fuel s ops := by
  intro fuel
  induction fuel with
  | zero => intro s ops; rfl
  | succ n ih =>
    intro s ops
    simp only [decBlocksS, decBlocks, decBlockS_list, decIsEofS_list, ih]

theorem decStreamS_list (P : Pred H) (plain : Array Nat) (ops : List Op) :
    decStreamS listSrc P plain ops = decStream P plain ops := by
  simp only [decStreamS, decStream, decIsEofS_list, decBlocksS_list]
  rfl

/-- `recompressStream` is the generic reconstruction at the list instance -/
theorem recompressStream_eq (mk : Params → Pred H) (plain : Array Nat) (ops : List Op) :
    recompressStream mk plain ops = (do
      let (rp, rest) ← readParamsS listSrc ops
      let (blocks, pad, _) ← decStreamS listSrc (mk rp) plain rest
      writeStream blocks pad) := by
  simp only [recompressStream, readParamsS_list, decStreamS_list]

end Preflate.Proofs
