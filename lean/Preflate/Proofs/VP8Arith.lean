/-
Arithmetic groundwork for the VP8 bool-coder proof (Proofs/VP8.lean): big-endian value of a byte
string, the normalisation shift `lz8`, bounds on `split`, and the comparison lemma relating the
decoder window to the final code value.
-/
import Mathlib.Tactic.Ring
import Mathlib.Tactic.Linarith
import Mathlib.Tactic.NormNum
import Mathlib.Tactic.IntervalCases
import Preflate.Model.VP8
namespace Preflate.Proofs
open Preflate Preflate.VP8
set_option linter.unusedVariables false

/-- big-endian value of a byte string -/
def bval (l : List UInt8) : Nat := l.foldl (fun a b => a * 256 + b.toNat) 0

theorem bval_foldl (l : List UInt8) (a : Nat) :
    l.foldl (fun a b => a * 256 + b.toNat) a = a * 256 ^ l.length + bval l := by
  induction l generalizing a with
  | nil => simp [bval]
  | cons b l ih =>
    simp only [List.foldl_cons, List.length_cons, bval]
    rw [ih, ih (0 * 256 + b.toNat)]
    simp only [bval]
    ring

@[simp] theorem bval_nil : bval [] = 0 := rfl

theorem bval_cons (b : UInt8) (l : List UInt8) :
    bval (b :: l) = b.toNat * 256 ^ l.length + bval l := by
  simp only [bval, List.foldl_cons]
  rw [bval_foldl]; simp [bval]

theorem bval_append (a b : List UInt8) : bval (a ++ b) = bval a * 256 ^ b.length + bval b := by
  simp only [bval, List.foldl_append]
  rw [bval_foldl]; rfl

theorem bval_append_single (l : List UInt8) (b : UInt8) : bval (l ++ [b]) = bval l * 256 + b.toNat := by
  rw [bval_append, bval_cons]; simp

theorem u8_lt (b : UInt8) : b.toNat < 256 := UInt8.toNat_lt b

theorem bval_lt (l : List UInt8) : bval l < 256 ^ l.length := by
  induction l with
  | nil => simp
  | cons b l ih =>
    rw [bval_cons, List.length_cons, pow_succ]
    have := u8_lt b
    nlinarith

theorem bval_take (l : List UInt8) (p : Nat) :
    bval (l.take p) = bval l / 256 ^ (l.length - p) := by
  have h := bval_append (l.take p) (l.drop p)
  rw [List.take_append_drop] at h
  have hl := bval_lt (l.drop p)
  rw [List.length_drop] at h hl
  rw [h]
  have hpos : 0 < 256 ^ (l.length - p) := Nat.pow_pos (by norm_num)
  rw [Nat.mul_comm, Nat.mul_add_div hpos, Nat.div_eq_of_lt hl]; simp

/-! ### lz8 / lz32 -/

theorem lz8_spec (x : Nat) (h1 : 0 < x) (h2 : x < 256) :
    lz8 x ≤ 7 ∧ 128 ≤ x * 2 ^ lz8 x ∧ x * 2 ^ lz8 x ≤ 255 := by
  have hx : x ≠ 0 := by omega
  have hlo := Nat.log2_self_le hx
  have hhi := @Nat.lt_log2_self x
  have hk : x.log2 < 8 := (Nat.log2_lt hx).2 (by omega)
  unfold lz8
  simp only [Nat.mod_eq_of_lt h2, if_neg hx]
  generalize x.log2 = k at *
  interval_cases k <;> simp at * <;> omega

theorem lz32_eq (x : Nat) (h1 : 0 < x) (h2 : x < 256) : lz32 x - 24 = lz8 x := by
  have hx : x ≠ 0 := by omega
  have hk : x.log2 < 8 := (Nat.log2_lt hx).2 (by omega)
  unfold lz8 lz32
  simp only [Nat.mod_eq_of_lt h2, if_neg hx]
  omega

/-! ### split bounds -/

theorem probability_lt (c : Nat) : probability c < 256 := by
  unfold probability
  simp only
  split
  · omega
  · exact Nat.mod_lt _ (by norm_num)

theorem split_bounds (r p : Nat) (hr : 2 ≤ r) (hp : p < 256) :
    0 < 1 + (((r - 1) * p) >>> 8) ∧ 1 + (((r - 1) * p) >>> 8) < r := by
  rw [Nat.shiftRight_eq_div_pow]
  have : (r - 1) * p / 2 ^ 8 < r - 1 := by
    rw [Nat.div_lt_iff_lt_mul (by norm_num)]
    exact Nat.mul_lt_mul_of_le_of_lt (Nat.le_refl _) hp (by omega)
  omega

theorem bypass_bounds (r : Nat) (hr : 3 ≤ r) : 0 < 1 + (r >>> 1) ∧ 1 + (r >>> 1) < r := by
  rw [Nat.shiftRight_eq_div_pow]; omega

/-! ### the comparison lemma -/

theorem cmp_iff (X B n p c e d : Nat) (hp : p ≤ n) (hc : c ≤ 56) (hd : d = e + c + 8 * (n - p)) :
    X * 2 ^ 56 ≤ (B / 256 ^ (n - p)) * 2 ^ (56 - c) ↔ X * 2 ^ d ≤ B * 2 ^ e := by
  have h56 : (2:Nat) ^ 56 = 2 ^ c * 2 ^ (56 - c) := by rw [← pow_add]; congr 1; omega
  have hK : (256:Nat) ^ (n - p) = 2 ^ (8 * (n - p)) := by rw [pow_mul]; norm_num
  have hKpos : 0 < (256:Nat) ^ (n - p) := Nat.pow_pos (by norm_num)
  rw [h56, ← Nat.mul_assoc, Nat.mul_le_mul_right_iff (Nat.pow_pos (by norm_num)),
    Nat.le_div_iff_mul_le hKpos, hd, pow_add, pow_add, ← hK]
  constructor
  · intro h
    calc X * (2 ^ e * 2 ^ c * 256 ^ (n - p)) = (X * 2 ^ c * 256 ^ (n - p)) * 2 ^ e := by ring
      _ ≤ B * 2 ^ e := Nat.mul_le_mul_right _ h
  · intro h
    have : (X * 2 ^ c * 256 ^ (n - p)) * 2 ^ e ≤ B * 2 ^ e := by
      calc (X * 2 ^ c * 256 ^ (n - p)) * 2 ^ e = X * (2 ^ e * 2 ^ c * 256 ^ (n - p)) := by ring
        _ ≤ B * 2 ^ e := h
    exact Nat.le_of_mul_le_mul_right this (Nat.pow_pos (by norm_num))

end Preflate.Proofs
