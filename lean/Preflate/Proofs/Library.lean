/-
CAPSTONE: the container theorems (C01, C06, C13) for the library model with the CONCRETE stream
functions plugged in for the abstract oracle (`libOracle`, Model/Library.lean).

Pieces: Proofs/LibraryOracle.lean (what `libOracle.verified` is, from C02Public / C05Public / C10 /
PlainLimit), Proofs/LibraryScan.lean (the container level only asks the oracle about candidates cut out
of the file, `recreate_expand_on`, `found_*_on`).

SIZE: the byte-level stream theorems carry `d.length < 2^29` (the model bounds the block loop of
`recompress_deflate_stream`, unbounded in the code, by 2^32 iterations; an input below 512 MiB cannot
contain that many blocks). Every candidate the scanner probes is no longer than the file, so the
capstones are stated for FILES BELOW 512 MiB (`f.length < 2^29`), not for the container theorem's
`f.length < 2^32`.
-/
import Preflate.Proofs.LibraryOracle
import Preflate.Proofs.LibraryScan
import Preflate.Proofs.IO
namespace Preflate.Proofs
open Preflate

/-- C05 for the scanner's acceptance test with the concrete stream functions: analysis,
    reconstruction and the slice of the comparison — no panic on any candidate below 512 MiB
    (entries need not even be bytes) -/
theorem lib_no_panic (d : Bytes) (m : String) (hd : d.length < 2 ^ 61) :
    libOracle.verified d ≠ .error (.panic m) :=
  lib_no_panic_lt d hd m

/-- the two oracle hypotheses of the container theorem that ARE derivable, on candidates cut out of a
    file below 4 GiB -/
theorem lib_no_panic_cand (f : Bytes) (hf : f.length < 2 ^ 32) (d : Bytes) (m : String) (hc : Cand f d) :
    libOracle.verified d ≠ .error (.panic m) :=
  lib_no_panic d m (Nat.lt_trans (Nat.lt_of_le_of_lt hc.1 hf) (by decide))

theorem lib_plain_lt (d : Bytes) (r : Res) (h : libOracle.verified d = .ok r) :
    r.plain.length < 2 ^ 32 := by
  have := lib_plain_size d r h
  have e : (2 : Nat) ^ 32 = 4294967296 := by decide
  omega

/-- **CAPSTONE 1** (C01 for the concrete library model). For every file `f` of bytes below 512 MiB:
    `expand` returns Ok without panicking and `recreate` applied to its output returns exactly `f`.
    ONE hypothesis about the stream level is left: the correction bytes of every accepted stream cut out
    of `f` fit the u32 length field of the chunk format. -/
theorem lib_round_trip (crc : Bytes → Nat) (f : Bytes)
    (hb : ∀ b ∈ f, b < 256) (hf : f.length < 2 ^ 32)
    (hcorr : ∀ d r, Cand f d → libOracle.verified d = .ok r → r.corr.length < 2 ^ 32) :
    ∃ c, libExpand crc f = .ok c ∧ libRecreate crc c = .ok f :=
  recreate_expand_on libOracle crc f hb
    hf
    (fun d m hc => lib_no_panic_cand f hf d m hc)
    (fun d r hc h => ⟨lib_plain_lt d r h, hcorr d r hc h⟩)

/-- the same with the hypothesis in its unrestricted form -/
theorem lib_round_trip' (crc : Bytes → Nat) (f : Bytes)
    (hb : ∀ b ∈ f, b < 256) (hf : f.length < 2 ^ 32)
    (hcorr : ∀ d r, libOracle.verified d = .ok r → r.corr.length < 2 ^ 32) :
    ∃ c, expand libOracle crc f = .ok c ∧ recreate libOracle crc c = .ok f :=
  lib_round_trip crc f hb hf (fun d r _ h => hcorr d r h)

-- ---------------------------------------------------------------------------------------------
-- CAPSTONE 2 (C06 concrete)

/-- zlib: a stream the library's own analysis accepts (`hacc`), with more than MIN_BLOCKSIZE bytes of
    plaintext, behind a zlib header, in a file below 4 GiB, is found and expanded -/
theorem lib_found_zlib (crc : Bytes → Nat) (pre suf s : Bytes) (h1 : Nat) (r : Res)
    (hh : h1 ∈ zlibSecond)
    (hb : ∀ b ∈ pre ++ zlibWrap h1 s ++ suf, b < 256)
    (hlen : (pre ++ zlibWrap h1 s ++ suf).length < 2 ^ 32)
    (hacc : libOracle.verified (s ++ suf) = .ok r) (hbig : r.plain.length > Gen.MIN_BLOCKSIZE)
    (hq : Quiet libOracle crc (pre ++ zlibWrap h1 s ++ suf) pre.length pre.length) :
    ∃ before prev after, prev ≤ pre.length ∧
      scan libOracle crc (pre ++ zlibWrap h1 s ++ suf) =
        .ok (before ++ [.literal (pre.length + 2 - prev), .deflate r] ++ after) :=
  found_zlib_on libOracle crc pre suf s h1 r hh hb (fun d m hc => lib_no_panic_cand _ hlen d m hc)
    hacc hbig hq

theorem lib_found_gzip (crc : Bytes → Nat) (pre suf s : Bytes) (g : GzipFields) (r : Res)
    (hg : g.WF)
    (hb : ∀ b ∈ pre ++ gzipHeader g ++ s ++ suf, b < 256)
    (hlen : (pre ++ gzipHeader g ++ s ++ suf).length < 2 ^ 32)
    (hacc : libOracle.verified (s ++ suf) = .ok r) (hbig : r.plain.length > Gen.MIN_BLOCKSIZE)
    (hq : Quiet libOracle crc (pre ++ gzipHeader g ++ s ++ suf) pre.length pre.length) :
    ∃ before prev after, prev ≤ pre.length ∧
      scan libOracle crc (pre ++ gzipHeader g ++ s ++ suf) =
        .ok (before ++ [.literal (pre.length + (gzipHeader g).length - prev), .deflate r] ++ after) :=
  found_gzip_on libOracle crc pre suf s g r hg hb (fun d m hc => lib_no_panic_cand _ hlen d m hc)
    hacc hbig hq

theorem lib_found_zip (crc : Bytes → Nat) (pre suf s : Bytes) (z : ZipFields) (r : Res)
    (hn : z.name.length < 65536) (hx : z.extra.length < 65536)
    (hb : ∀ b ∈ pre ++ zipHeader z ++ s ++ suf, b < 256)
    (hlen : (pre ++ zipHeader z ++ s ++ suf).length < 2 ^ 32)
    (hacc : libOracle.verified (s ++ suf) = .ok r) (hbig : r.plain.length > Gen.MIN_BLOCKSIZE)
    (hq : Quiet libOracle crc (pre ++ zipHeader z ++ s ++ suf) pre.length pre.length) :
    ∃ before prev after, prev ≤ pre.length ∧
      scan libOracle crc (pre ++ zipHeader z ++ s ++ suf) =
        .ok (before ++ [.literal (pre.length + (zipHeader z).length - prev), .deflate r] ++ after) :=
  found_zip_on libOracle crc pre suf s z r hn hx hb (fun d m hc => lib_no_panic_cand _ hlen d m hc)
    hacc hbig hq

theorem lib_found_idat (crc : Bytes → Nat) (pre suf s hdr adler : Bytes) (pieces : List Bytes) (r : Res)
    (hp : ∀ p ∈ pieces, p ≠ [] ∧ p.length < 2 ^ 32) (hcrc : ∀ x, crc x < 2 ^ 32)
    (hcat : pieces.flatten = hdr ++ s ++ adler) (hhdr : hdr.length = 2) (had : adler.length = 4)
    (hne : pieces ≠ [])
    (hb : ∀ b ∈ pre ++ idatWrap crc pieces ++ suf, b < 256)
    (hlen : (pre ++ idatWrap crc pieces ++ suf).length < 2 ^ 32)
    (hend : IdatEnd crc suf)
    (hacc : libOracle.verified s = .ok r) (hfull : r.size = s.length)
    (hbig : (idatWrap crc pieces).length > Gen.MIN_BLOCKSIZE)
    (hq : Quiet libOracle crc (pre ++ idatWrap crc pieces ++ suf) (pre.length + 4) pre.length) :
    ∃ before prev after c, prev ≤ pre.length ∧
      scan libOracle crc (pre ++ idatWrap crc pieces ++ suf) =
        .ok (before ++ [.literal (pre.length - prev), .idat c r] ++ after) :=
  found_idat_on libOracle crc pre suf s hdr adler pieces r hp hcrc hcat hhdr had hne hb
    (fun d m hc => lib_no_panic_cand _ hlen d m hc) hend hacc hfull hbig hq

/-- the acceptance premise `hacc` of the four theorems, in terms of the stream level: on a byte
    candidate below 512 MiB the scanner accepts exactly when the byte-level model of
    `decompress_deflate_stream` returns Ok, with that result -/
theorem lib_accepts_iff (d : Bytes) (hb : ∀ b ∈ d, b < 256) (hd : d.length < 2 ^ 61) (r : Res) :
    libOracle.verified d = .ok r ↔
    ∃ plain bytes q, decompressBytes Est.estimate Chains.pred false (toU8 d) = .ok (plain, bytes, r.size, q) ∧
      r = ⟨plain.toList, ofU8 bytes.toList, r.size⟩ := by
  rw [lib_verified_bytes d hb hd]
  constructor
  · exact libAnalyze_ok d r
  · rintro ⟨plain, bytes, q, h, hr⟩
    rw [hr]
    exact (lib_verified_of_ok d hd plain bytes r.size q h).1

-- ---------------------------------------------------------------------------------------------
-- CAPSTONE 3 (C13 concrete)

theorem lib_frag_independent (crc : Bytes → Nat) (c f : Bytes)
    (hc : libRecreate crc c = .ok f) (rs ws : List IoEv) (hr : OnlyShort rs) (hw : OnlyShort ws) :
    ∃ s' k', libRecreateIO crc ⟨c, rs⟩ ⟨[], ws⟩ = (.ok (), s', k') ∧ k'.out = f :=
  frag_independent libOracle crc c f hc rs ws hr hw

theorem lib_error_clean (crc : Bytes → Nat) (c f : Bytes)
    (hc : libRecreate crc c = .ok f) (rs ws : List IoEv) (hrz : IoEv.zero ∉ rs) :
    (∀ m, (libRecreateIO crc ⟨c, rs⟩ ⟨[], ws⟩).1 ≠ .error (.panic m)) ∧
    (libRecreateIO crc ⟨c, rs⟩ ⟨[], ws⟩).1 ≠ .error .fuel ∧
    (libRecreateIO crc ⟨c, rs⟩ ⟨[], ws⟩).2.2.out <+: f ∧
    ((libRecreateIO crc ⟨c, rs⟩ ⟨[], ws⟩).1 = .ok () → (libRecreateIO crc ⟨c, rs⟩ ⟨[], ws⟩).2.2.out = f) :=
  error_clean libOracle crc c f hc rs ws hrz

/-- **END TO END** (C01 + C13, concrete): a file of bytes below 512 MiB is expanded without panic to a
    container from which the streaming reader, under ANY fragmentation of its reads and writes, writes
    back exactly the file; and under ANY schedule of I/O failures it neither panics nor hangs, writes
    only a prefix of the file, and reports Ok only with the whole file written. -/
theorem lib_end_to_end (crc : Bytes → Nat) (f : Bytes)
    (hb : ∀ b ∈ f, b < 256) (hf : f.length < 2 ^ 32)
    (hcorr : ∀ d r, Cand f d → libOracle.verified d = .ok r → r.corr.length < 2 ^ 32) :
    ∃ c, libExpand crc f = .ok c ∧ libRecreate crc c = .ok f ∧
      (∀ rs ws, OnlyShort rs → OnlyShort ws →
        ∃ s' k', libRecreateIO crc ⟨c, rs⟩ ⟨[], ws⟩ = (.ok (), s', k') ∧ k'.out = f) ∧
      (∀ rs ws, IoEv.zero ∉ rs →
        (∀ m, (libRecreateIO crc ⟨c, rs⟩ ⟨[], ws⟩).1 ≠ .error (.panic m)) ∧
        (libRecreateIO crc ⟨c, rs⟩ ⟨[], ws⟩).1 ≠ .error .fuel ∧
        (libRecreateIO crc ⟨c, rs⟩ ⟨[], ws⟩).2.2.out <+: f ∧
        ((libRecreateIO crc ⟨c, rs⟩ ⟨[], ws⟩).1 = .ok () →
          (libRecreateIO crc ⟨c, rs⟩ ⟨[], ws⟩).2.2.out = f)) := by
  obtain ⟨c, h1, h2⟩ := lib_round_trip crc f hb hf hcorr
  exact ⟨c, h1, h2, fun rs ws hr hw => lib_frag_independent crc c f h2 rs ws hr hw,
    fun rs ws hz => lib_error_clean crc c f h2 rs ws hz⟩

-- ---------------------------------------------------------------------------------------------
-- non-vacuity

/-- expand, then recreate, compare with the input -/
def libRoundTrips (f : Bytes) : Bool :=
  match libExpand (fun _ => 0) f with
  | .ok c => (match libRecreate (fun _ => 0) c with | .ok g => g == f | .error _ => false)
  | .error _ => false

/-- signature look-alikes: the scanner probes the concrete analysis at 78 9C (which runs the real
    parser on the rest and rejects), the result is a literal-only container -/
def libLookalikes : Bytes := [0x78, 0x9c, 0x50, 0x4b, 0x1f, 0x8b, 8, 0x49, 0x44, 0x41, 0x54]

example : libRoundTrips libLookalikes = true := by decide +kernel

example : libExpand (fun _ => 0) libLookalikes = .ok (1 :: 0 :: 11 :: libLookalikes) := by decide +kernel

/-- a file with an embedded zlib stream (`zlib.compress(b"a" * 1100, 6)`, 12 bytes of DEFLATE, 1100 bytes
    of plaintext) between three leading and two trailing bytes. Kernel evaluation of the whole analysis
    (parser, estimator, match finder, bool coder) on it does not finish in reasonable time, so this one
    is an EXECUTABLE check run at build time by `#guard` (compiled evaluation; not a theorem, no axiom):
    the stream is found (the container holds the 1100 plaintext bytes), and the round trip is exact. -/
def libZlibFile : Bytes :=
  [1, 2, 3, 120, 156, 75, 76, 28, 5, 163, 96, 20, 140, 2, 202, 1, 0, 127, 122, 160, 220, 7, 7]

#guard libRoundTrips libZlibFile
#guard (match libExpand (fun _ => 0) libZlibFile with
  | .ok c => c.length == 1144 && c.take 8 == [1, 0, 5, 1, 2, 3, 120, 156] && (c.drop 8).take 3 == [1, 204, 8]
  | .error _ => false)
#guard (match libOracle.verified (libZlibFile.drop 5) with
  | .ok r => r.plain == List.replicate 1100 97 && r.size == 12 && r.corr.length == 24
  | .error _ => false)

end Preflate.Proofs
