/-
The panic sites of the hash-chain match finder (`Model/ChainsSafe.lean`) are unreachable when the
predictor is driven over a valid stream.
-/
import Preflate.Model.ChainsSafe
import Preflate.Model.Valid
import Preflate.Proofs.ChainBounds
import Preflate.Proofs.ChainsBounded
import Preflate.Proofs.PredictBlock
namespace Preflate.Proofs
open Preflate Preflate.Chains

-- ---------------------------------------------------------------------------------------------
-- the `R` monad and `need`

@[simp] theorem R_ok_bind {α β : Type} (a : α) (f : α → R β) : ((Except.ok a : R α) >>= f) = f a := id rfl
@[simp] theorem R_pure_eq {α : Type} (a : α) : (pure a : R α) = .ok a := id rfl

theorem need_ok {c : Prop} [Decidable c] {s : String} (h : c) : need c s = .ok () := if_pos h

theorem need_bind {c : Prop} [Decidable c] {s : String} {β : Type} (h : c) (f : Unit → R β) :
    (need c s >>= f) = f () := by rw [need_ok h]; rfl

theorem inI32_of (v : Int) (h0 : -2147483648 ≤ v) (h1 : v < 2147483648) : inI32 v := ⟨h0, h1⟩

-- ---------------------------------------------------------------------------------------------
-- (a) prefix_compare

theorem prefixLoopChk_ok (plain : Array Nat) (a b maxLen : Nat)
    (ha : a + maxLen ≤ plain.size) (hb : b + maxLen ≤ plain.size) :
    ∀ fuel i, prefixLoopChk plain a b maxLen fuel i = .ok () := by
  intro fuel
  induction fuel with
  | zero => intro i; rfl
  | succ n ih =>
    intro i
    unfold prefixLoopChk
    by_cases h : maxLen ≤ i
    · simp [h]
    · have h1 : a + i < plain.size := by omega
      have h2 : b + i < plain.size := by omega
      simp only [h, if_false, need_bind h1, need_bind h2]
      split
      · rfl
      · exact ih (i + 1)

/-- P1–P4: the assertion of `prefix_compare` implies that none of its indexings is out of range;
    the assertion itself holds when both slices have `max_len` bytes, `max_len ≥ 3` and
    `best_len < max_len` -/
theorem prefixCompareChk_ok (plain : Array Nat) (a b bestLen maxLen : Nat)
    (h3 : 3 ≤ maxLen) (ha : a + maxLen ≤ plain.size) (hb : b + maxLen ≤ plain.size)
    (hbest : bestLen < maxLen) :
    prefixCompareChk plain a b bestLen maxLen = .ok () := by
  unfold prefixCompareChk
  have hassert : 3 ≤ maxLen ∧ maxLen ≤ plain.size - a ∧ maxLen ≤ plain.size - b ∧ bestLen < maxLen := by
    omega
  rw [need_bind hassert, need_bind (show a + bestLen < plain.size by omega),
    need_bind (show b + bestLen < plain.size by omega)]
  split
  · rfl
  rw [need_bind (show a < plain.size by omega), need_bind (show b < plain.size by omega)]
  split
  · rfl
  rw [need_bind (show a + 1 < plain.size by omega), need_bind (show b + 1 < plain.size by omega)]
  split
  · rfl
  rw [need_bind (show a + 2 < plain.size by omega), need_bind (show b + 2 < plain.size by omega)]
  split
  · rfl
  exact prefixLoopChk_ok plain a b maxLen ha hb _ _

/-- the converse for the assertion: if `best_len ≥ max_len` (history (i): `best_len == max_len`) the
    checker — and the Rust — panic in `prefix_compare` -/
theorem prefixCompareChk_panics_of_best_ge (plain : Array Nat) (a b bestLen maxLen : Nat)
    (h : maxLen ≤ bestLen) : ∃ s, prefixCompareChk plain a b bestLen maxLen = .error (.panic s) := by
  unfold prefixCompareChk need
  have : ¬ (3 ≤ maxLen ∧ maxLen ≤ plain.size - a ∧ maxLen ≤ plain.size - b ∧ bestLen < maxLen) := by omega
  rw [if_neg this]
  exact ⟨_, rfl⟩

theorem prefixCompare_zero_or_ge3 (plain : Array Nat) (a b bestLen maxLen : Nat) :
    prefixCompare plain a b bestLen maxLen = 0 ∨ 3 ≤ prefixCompare plain a b bestLen maxLen := by
  unfold prefixCompare
  simp only []
  split
  · left; rfl
  · split
    · left; rfl
    · right
      rw [Std.Legacy.Range.forIn_eq_forIn_range']
      simp only [bind_pure]
      refine forIn_list_inv (fun m => 3 ≤ m) _ _ ?_ 3 (by omega)
      intro i hi m hm
      simp only [List.mem_range'_1, Std.Legacy.Range.size] at hi
      split
      · exact hm
      · simp only [ForInStep.value, Id.run, pure]
        omega

-- ---------------------------------------------------------------------------------------------
-- (a)+(b)+(d) the loop of match_token_offset

/-- M10, M12, M13, P1–P4, C4 inside the loop: with `max_len ≥ 3` bytes left at `start_pos`, both hop
    limits at most `start_pos`, `best_len < max_len` on entry (the `NoInput` test), a depth of at least
    one and candidates whose u16 distance subtraction is in range, the loop (with the `best_len >=
    max_len` break) never panics -/
theorem matchLoopC_ok (p : Params) (plain : Array Nat) (startPos maxLen nice hop0 hop1 : Nat)
    (h3 : 3 ≤ maxLen) (hsz : startPos + maxLen ≤ plain.size) (hi32 : startPos < 2147483648)
    (hh0 : hop0 ≤ startPos) (hh1 : hop1 ≤ startPos) :
    ∀ (raw : List (Nat × Bool)) (first : Bool) (bestLen maxChain : Nat) (best : MatchResult),
      (∀ x ∈ raw, x.2 = true) → bestLen < maxLen → 1 ≤ maxChain →
      ∃ r, matchLoopC true p plain startPos maxLen nice hop0 hop1 raw first bestLen maxChain best = .ok r := by
  intro raw
  induction raw with
  | nil => intro first bestLen maxChain best _ _ _; exact ⟨best, rfl⟩
  | cons x rest ih =>
    intro first bestLen maxChain best hraw hbest hchain
    obtain ⟨dist, okd⟩ := x
    have hok : okd = true := hraw (dist, okd) (List.mem_cons_self ..)
    have hrest : ∀ x ∈ rest, x.2 = true := fun x hx => hraw x (List.mem_cons_of_mem _ hx)
    unfold matchLoopC
    rw [need_bind hok]
    by_cases c1 : first = true ∧ dist > hop0
    · rw [if_pos c1]; exact ⟨_, rfl⟩
    rw [if_neg c1]
    by_cases c2 : first = false ∧ dist > hop1
    · rw [if_pos c2]; exact ⟨_, rfl⟩
    rw [if_neg c2]
    have hd : dist ≤ startPos := by
      cases first with
      | true => simp at c1; omega
      | false => simp at c2; omega
    rw [need_bind (inI32_of _ (by omega) (by omega)), need_bind hd,
      prefixCompareChk_ok plain (startPos - dist) startPos bestLen maxLen h3 (by omega) hsz hbest]
    simp only [R_ok_bind]
    have hle := prefixCompare_le plain (startPos - dist) startPos bestLen maxLen
    have hz := prefixCompare_zero_or_ge3 plain (startPos - dist) startPos bestLen maxLen
    generalize prefixCompare plain (startPos - dist) startPos bestLen maxLen = ml at hle hz
    by_cases c3 : ml > bestLen
    · rw [if_pos c3, need_bind (show 3 ≤ ml by omega)]
      split
      · exact ⟨_, rfl⟩
      split
      · exact ⟨_, rfl⟩
      rename_i c5
      rw [need_bind hchain]
      split
      · exact ⟨_, rfl⟩
      · exact ih false ml (maxChain - 1) _ hrest (by simp at c5; omega) (by omega)
    · rw [if_neg c3, need_bind hchain]
      split
      · exact ⟨_, rfl⟩
      · exact ih false bestLen (maxChain - 1) _ hrest hbest (by omega)

-- ---------------------------------------------------------------------------------------------
-- (b)+(c) iterate: get_hash reads, position arithmetic, the u16 distance subtraction

theorem numHashBytes_ge3 (p : Params) : 3 ≤ numHashBytes p := by
  unfold numHashBytes; split <;> omega

theorem hashChk_ok (p : Params) (plain : Array Nat) (i : Nat)
    (hn : numHashBytes p ≤ plain.size - i) (hsh : p.hashAlg = 1 → p.hashShift < 16) :
    hashChk p plain i = .ok () := by
  unfold hashChk
  unfold numHashBytes at hn
  revert hn hsh
  generalize p.hashAlg = alg
  intro hn hsh
  match alg with
  | 0 => rfl
  | 1 =>
    simp only at hn ⊢
    rw [need_bind (by omega), need_bind (hsh rfl), need_bind (by omega)]
    exact need_ok (by omega)
  | 2 => exact need_ok (by simpa using hn)
  | 3 => exact need_ok (by simpa using hn)
  | 4 => exact need_ok (by simpa using hn)
  | 5 => exact need_ok (by simpa using hn)
  | 6 => exact need_ok (by simpa using hn)
  | 7 => exact need_ok (by simpa using hn)
  | n + 8 => rfl

theorem walkRaw_fst (t : Table) (refPos : Nat) : ∀ fuel cur,
    (walkRaw t refPos fuel cur).map Prod.fst = walk t refPos fuel cur := by
  intro fuel
  induction fuel with
  | zero => intro cur; rfl
  | succ n ih =>
    intro cur
    unfold walkRaw walk
    split
    · rfl
    · simp [ih]

theorem iterateRaw_fst (p : Params) (plain : Array Nat) (c : Chain) (pos offset : Nat) :
    (iterateRaw p plain c pos offset).map Prod.fst = iterate p plain c pos offset := by
  unfold iterateRaw iterate
  simp only []
  repeat' split
  all_goals simp [walkRaw_fst]


/-- chain-table invariant: every entry the walk can reach (`S`, closed under `prev`) is an internal
    position strictly below `lim` (the internal position of the insertion frontier) and a u16; 0 is
    the end-of-chain marker -/
def TableInv (t : Table) (lim : Int) : Prop :=
  ∃ S : Nat → Prop, (∀ h : Nat, t.head[h]! = 0 ∨ S t.head[h]!) ∧
    (∀ j : Nat, S j → (j : Int) < lim ∧ j < 65536 ∧ (t.prev[j]! = 0 ∨ S t.prev[j]!))

theorem TableInv.mono {t : Table} {lim lim' : Int} (h : TableInv t lim) (hl : lim ≤ lim') :
    TableInv t lim' := by
  obtain ⟨S, h1, h2⟩ := h
  exact ⟨S, h1, fun j hj => ⟨by have := (h2 j hj).1; omega, (h2 j hj).2⟩⟩

theorem walkRaw_flags (t : Table) (refPos : Nat) (S : Nat → Prop)
    (h2 : ∀ j : Nat, S j → (j : Int) < (refPos : Int) + 1 ∧ j < 65536 ∧ (t.prev[j]! = 0 ∨ S t.prev[j]!)) :
    ∀ fuel cur, (cur = 0 ∨ S cur) → ∀ x ∈ walkRaw t refPos fuel cur, x.2 = true := by
  intro fuel
  induction fuel with
  | zero => intro cur _ x hx; simp [walkRaw] at hx
  | succ n ih =>
    intro cur hc x hx
    unfold walkRaw at hx
    by_cases h0 : cur = 0
    · simp [h0] at hx
    · rw [if_neg h0] at hx
      have hS : S cur := by cases hc with | inl h => exact absurd h h0 | inr h => exact h
      have := h2 cur hS
      rcases List.mem_cons.mp hx with h | h
      · rw [h]; simp; omega
      · exact ih _ this.2.2 x h


theorem iterateRaw_flags (p : Params) (plain : Array Nat) (c : Chain) (pos offset : Nat)
    (ht : TableInv c.t ((pos : Int) - c.totalShift)) :
    ∀ x ∈ iterateRaw p plain c pos offset, x.2 = true := by
  obtain ⟨S, h1, h2⟩ := ht
  have hW : ∀ h : Nat, ∀ x ∈ walkRaw c.t (((pos + offset : Nat) : Int) - c.totalShift).toNat 65536 (c.t.head[h]!),
      x.2 = true := by
    intro h
    refine walkRaw_flags c.t _ S ?_ 65536 _ (h1 h)
    intro j hj
    have := h2 j hj
    refine ⟨?_, this.2⟩
    have := this.1
    omega
  intro x hx
  unfold iterateRaw at hx
  simp only [] at hx
  repeat' split at hx
  all_goals try simp only [List.mem_append, List.mem_cons, List.not_mem_nil, List.nil_append, or_false] at hx
  all_goals first
    | exact hW _ x hx
    | (rcases hx with hx | hx
       · rw [hx]
       · exact hW _ x hx)

theorem curCharsChk_ok (plain : Array Nat) (pos : Nat) (off : Int) (h0 : 0 ≤ (pos : Int) + off)
    (h1 : (pos : Int) + off ≤ plain.size) (hsz : plain.size < 2147483648) :
    curCharsChk plain pos off = .ok () := by
  unfold curCharsChk
  rw [need_bind (inI32_of _ (by omega) (by omega))]
  exact need_ok ⟨h0, h1⟩

theorem fromAbsChk_ok (pos : Nat) (shift : Int) (h0 : 0 ≤ (pos : Int) - shift)
    (h1 : (pos : Int) - shift ≤ 65535) : fromAbsChk pos shift = .ok () := by
  unfold fromAbsChk
  rw [need_bind (inI32_of _ (by omega) (by omega))]
  exact need_ok ⟨h0, h1⟩

/-- the eager part of `iterate`: C10, C1, C2 (from the position bounds of `Proofs/ChainBounds.lean`),
    C11, the slices and the `get_hash` reads H1–H9 (at least `num_hash_bytes` bytes are left at
    `pos + offset`), C4 for the libdeflate 3-byte candidate -/
theorem iterateChk_ok (p : Params) (plain : Array Nat) (c : Chain) (pos offset : Nat)
    (hoff : offset ≤ 1) (hsz : plain.size < 2147483648)
    (hn : numHashBytes p ≤ plain.size - (pos + offset))
    (hsh : p.hashAlg = 1 → p.hashShift < 16) (hit : IterSafe c.totalShift pos)
    (ht3 : p.hashAlg = 3 → TableInv c.t3 ((pos : Int) - c.totalShift)) :
    iterateChk p plain c pos offset = .ok () := by
  have h3 := numHashBytes_ge3 p
  obtain ⟨hi0, hi1⟩ := hit
  unfold iterateChk
  rw [need_bind (show pos + offset < 4294967296 by omega),
    fromAbsChk_ok (pos + offset) c.totalShift (by omega) (by omega)]
  simp only [R_ok_bind]
  have hc0 : curCharsChk plain pos 0 = .ok () := curCharsChk_ok plain pos 0 (by omega) (by omega) hsz
  have hh0 : hashChk p plain pos = .ok () := hashChk_ok p plain pos (by omega) hsh
  by_cases ha : p.hashAlg = 3
  · rw [if_pos ha]
    by_cases ho : offset = 0
    · subst ho
      rw [if_pos rfl, hc0]
      simp only [R_ok_bind]
      rw [show hash3Chk plain pos = .ok () from need_ok (by omega)]
      simp only [R_ok_bind]
      obtain ⟨S, h1, h2⟩ := ht3 ha
      have hS : c.t3.head[hash3At plain pos]! = 0 ∨
          (c.t3.head[hash3At plain pos]! : Int) ≤ ((pos + 0 : Nat) : Int) - c.totalShift := by
        rcases h1 (hash3At plain pos) with h | h
        · left; exact h
        · right
          have := (h2 _ h).1
          omega
      rw [need_bind hS, hh0]
    · have ho1 : offset = 1 := by omega
      subst ho1
      rw [if_neg (by omega), need_bind rfl,
        curCharsChk_ok plain pos (1 : Int) (by omega) (by omega) hsz]
      simp only [R_ok_bind]
      rw [hashChk_ok p plain (pos + 1) hn hsh, hc0]
      simp only [R_ok_bind]
      exact hh0
  · rw [if_neg ha, hc0]
    simp only [R_ok_bind]
    rw [hh0]
    simp only [R_ok_bind]
    by_cases ho : offset = 0
    · rw [if_pos ho]
    · have ho1 : offset = 1 := by omega
      subst ho1
      rw [if_neg (by omega), need_bind rfl,
        curCharsChk_ok plain pos (1 : Int) (by omega) (by omega) hsz]
      simp only [R_ok_bind]
      exact hashChk_ok p plain (pos + 1) hn hsh

-- ---------------------------------------------------------------------------------------------
-- (a)-(d) match_token_offset as a whole

/-- what the sites need from the parameter vector (implied by `EstimatorRange`, see
    `paramsSafe_of_estimatorRange`) -/
structure ParamsSafe (p : Params) : Prop where
  /-- M2 (`1 << window_bits`), M7 (`window_bytes - MIN_LOOKAHEAD`) -/
  window : p.hashAlg ≠ 0 → 9 ≤ p.windowBits ∧ p.windowBits ≤ 31
  /-- H2 (`c << hash_shift` on u16) -/
  shift : p.hashAlg = 1 → p.hashShift < 16
  /-- M13 at the first candidate of `match_token_0(0, max_chain)` -/
  chain : p.hashAlg ≠ 0 → 1 ≤ p.maxChain

theorem shiftLeft_window (w : Nat) (h : 9 ≤ w ∧ w ≤ 31) : 262 ≤ 1 <<< w ∧ 1 <<< w < 4294967296 := by
  rw [Nat.one_shiftLeft]
  constructor
  · calc 262 ≤ 2 ^ 9 := by decide
      _ ≤ 2 ^ w := Nat.pow_le_pow_right (by omega) h.1
  · calc 2 ^ w ≤ 2 ^ 31 := Nat.pow_le_pow_right (by omega) h.2
      _ < 4294967296 := by decide

theorem matchTokenC_ok (p : Params) (plain : Array Nat) (c : Chain) (pos offset prevLen maxDepth : Nat)
    (hps : ParamsSafe p) (hoff : offset ≤ 1) (hsz : plain.size < 2147483648)
    (hpos : pos + offset ≤ plain.size) (hp1 : 1 ≤ pos) (hprev : prevLen < 4294967295)
    (hdepth : 1 ≤ maxDepth) (hit : IterSafe c.totalShift pos)
    (ht : TableInv c.t ((pos : Int) - c.totalShift))
    (ht3 : p.hashAlg = 3 → TableInv c.t3 ((pos : Int) - c.totalShift)) :
    ∃ r, matchTokenC true p plain c pos offset prevLen maxDepth = .ok r := by
  unfold matchTokenC
  by_cases h0 : p.hashAlg = 0
  · rw [if_pos h0]; exact ⟨_, rfl⟩
  rw [if_neg h0]
  rw [need_bind (show pos + offset < 4294967296 by omega), need_bind hpos,
    need_bind (show prevLen + 1 < 4294967296 by omega)]
  simp only []
  split
  · exact ⟨_, rfl⟩
  rename_i hml
  have hnb := numHashBytes_ge3 p
  rw [need_bind (show p.matchesToStart = true ∨ 1 ≤ pos + offset by right; omega)]
  obtain ⟨hw1, hw2⟩ := shiftLeft_window p.windowBits (hps.window h0)
  generalize hW : 1 <<< p.windowBits = W at hw1 hw2 ⊢
  have hmds : pos + offset - (if p.matchesToStart = true then 0 else 1) ≤ pos + offset := by omega
  generalize pos + offset - (if p.matchesToStart = true then 0 else 1) = mds at hmds ⊢
  have key : ∀ hop0 hop1, hop0 ≤ pos + offset → hop1 ≤ pos + offset →
      ∃ r, (do
        curCharsChk plain pos offset
        iterateChk p plain c pos offset
        matchLoopC true p plain (pos + offset) (min (plain.size - (pos + offset)) 258)
          (min p.niceLength (min (plain.size - (pos + offset)) 258)) hop0 hop1
          (iterateRaw p plain c pos offset) true prevLen maxDepth .none) = .ok r := by
    intro hop0 hop1 hh0 hh1
    rw [curCharsChk_ok plain pos offset (by omega) (by omega) hsz]
    simp only [R_ok_bind]
    rw [iterateChk_ok p plain c pos offset hoff hsz (by omega) hps.shift hit ht3]
    simp only [R_ok_bind]
    exact matchLoopC_ok p plain (pos + offset) _ _ hop0 hop1 (by omega) (by omega) (by omega) hh0 hh1
      _ true prevLen maxDepth .none (iterateRaw_flags p plain c pos offset ht) (by omega) hdepth
  by_cases hvf : p.veryFar = true
  · simp only [hvf, if_true, R_ok_bind]
    exact key _ _ (by omega) (by omega)
  · simp only [hvf, Bool.false_eq_true, if_false]
    by_cases hs23 : p.strategy = 2 ∨ p.strategy = 3
    · rw [if_pos hs23]; exact ⟨_, rfl⟩
    rw [if_neg hs23]
    by_cases hs1 : p.strategy = 1
    · rw [if_pos hs1]
      simp only [R_ok_bind]
      exact key 1 1 (by omega) (by omega)
    rw [if_neg hs1, need_bind hw1, need_bind (show W - 262 + 1 < 4294967296 by omega),
      need_bind (show 1 ≤ W - 262 + 1 by omega)]
    simp only [R_ok_bind]
    exact key _ _ (by omega) (by omega)

theorem matchTokenChk_ok (p : Params) (plain : Array Nat) (c : Chain) (pos offset prevLen maxDepth : Nat)
    (hps : ParamsSafe p) (hoff : offset ≤ 1) (hsz : plain.size < 2147483648)
    (hpos : pos + offset ≤ plain.size) (hp1 : 1 ≤ pos) (hprev : prevLen < 4294967295)
    (hdepth : 1 ≤ maxDepth) (hit : IterSafe c.totalShift pos)
    (ht : TableInv c.t ((pos : Int) - c.totalShift))
    (ht3 : p.hashAlg = 3 → TableInv c.t3 ((pos : Int) - c.totalShift)) :
    matchTokenChk p plain c pos offset prevLen maxDepth = .ok () := by
  obtain ⟨r, hr⟩ := matchTokenC_ok p plain c pos offset prevLen maxDepth hps hoff hsz hpos hp1 hprev hdepth
    hit ht ht3
  unfold matchTokenChk
  rw [hr]

theorem paramsSafe_of_estimatorRange (p : Params) (h : EstimatorRange p) : ParamsSafe p := by
  rcases h with ⟨hp, _, _⟩ | h
  · have h0 : p.hashAlg = 0 := by rw [hp]
    exact ⟨fun hn => absurd h0 hn, fun h1 => by omega, fun hn => absurd h0 hn⟩
  · obtain ⟨_, _, hw1, hw2, ha1, ha2, hsh, _, _, _, _, hc1, _⟩ := h
    refine ⟨fun _ => ⟨hw1, by omega⟩, fun h1 => ?_, fun _ => hc1⟩
    rw [if_pos h1] at hsh
    exact hsh.1

/-- what a successful `match_token_offset` tells about the input: a hash algorithm is configured,
    at least `max(num_hash_bytes, 3)` bytes and more than `prev_len` bytes are left at `start_pos` -/
theorem matchToken_success_facts {p : Params} {plain : Array Nat} {c : Chain}
    {pos offset prevLen maxDepth l d : Nat}
    (h : matchToken p plain c pos offset prevLen maxDepth = .success l d) :
    p.hashAlg ≠ 0 ∧ numHashBytes p ≤ plain.size - (pos + offset) ∧ prevLen < plain.size - (pos + offset) := by
  unfold matchToken at h
  by_cases h0 : p.hashAlg = 0
  · rw [if_pos h0] at h; cases h
  refine ⟨h0, ?_⟩
  rw [if_neg h0] at h
  simp only [] at h
  split at h
  · cases h
  · rename_i hml
    omega

-- ---------------------------------------------------------------------------------------------
-- (a)+(b) calculate_hops / hop_match

theorem hopsLoopChk_ok (plain : Array Nat) (pos maxDist len target : Nat)
    (hlen : 3 ≤ len) (hrem : pos + len ≤ plain.size) (hmd : maxDist ≤ pos) (hsz : plain.size < 2147483648) :
    ∀ (raw : List (Nat × Bool)) (maxChain : Nat), (∀ x ∈ raw, x.2 = true) →
      hopsLoopChk plain pos maxDist len target raw maxChain = .ok () := by
  intro raw
  induction raw with
  | nil => intro _ _; rfl
  | cons x rest ih =>
    intro maxChain hraw
    obtain ⟨d, okd⟩ := x
    have hok : okd = true := hraw (d, okd) (List.mem_cons_self ..)
    have hrest : ∀ x ∈ rest, x.2 = true := fun x hx => hraw x (List.mem_cons_of_mem _ hx)
    unfold hopsLoopChk
    rw [need_bind hok]
    by_cases c1 : d > maxDist
    · rw [if_pos c1]
    rw [if_neg c1, curCharsChk_ok plain pos (-(d : Int)) (by omega) (by omega) hsz]
    simp only [R_ok_bind]
    rw [need_bind (show 1 ≤ len by omega), curCharsChk_ok plain pos 0 (by omega) (by omega) hsz]
    simp only [R_ok_bind]
    rw [prefixCompareChk_ok plain (pos - d) pos (len - 1) len hlen (by omega) hrem (by omega)]
    simp only [R_ok_bind]
    split
    · rfl
    split
    · rfl
    exact ih _ hrest

/-- K1–K4 and the sites below them: `calculate_hops` for a target of length at least 3, when a hash
    algorithm is configured and `num_hash_bytes` bytes are left (this is what a preceding successful
    `match_token_0`, or a pending reference, guarantees) -/
theorem calcHopsChk_ok (p : Params) (plain : Array Nat) (s : PState Chain) (len dist : Nat)
    (hps : ParamsSafe p) (h0 : p.hashAlg ≠ 0) (hsz : plain.size < 2147483648)
    (hn : numHashBytes p ≤ plain.size - s.pos) (hlen : 3 ≤ len)
    (hit : IterSafe s.h.totalShift s.pos)
    (ht : TableInv s.h.t ((s.pos : Int) - s.h.totalShift))
    (ht3 : p.hashAlg = 3 → TableInv s.h.t3 ((s.pos : Int) - s.h.totalShift)) :
    calcHopsChk p plain s len dist = .ok () := by
  have hnb := numHashBytes_ge3 p
  unfold calcHopsChk
  rw [if_neg h0]
  unfold remainingChk
  rw [need_bind (show s.pos ≤ plain.size by omega)]
  split
  · rfl
  rename_i hl
  rw [iterateChk_ok p plain s.h s.pos 0 (by omega) hsz hn hps.shift hit ht3]
  simp only [R_ok_bind]
  exact hopsLoopChk_ok plain s.pos _ len dist hlen (by omega) (Nat.min_le_left _ _) hsz _ _
    (iterateRaw_flags p plain s.h s.pos 0 ht)

theorem hopMatchLoopChk_ok (plain : Array Nat) (pos maxDist len hops : Nat)
    (hlen : 3 ≤ len) (hrem : pos + len ≤ plain.size) (hmd : maxDist ≤ pos) (hsz : plain.size < 2147483648) :
    ∀ (raw : List (Nat × Bool)) (cur : Nat), (∀ x ∈ raw, x.2 = true) →
      hopMatchLoopChk plain pos maxDist len hops raw cur = .ok () := by
  intro raw
  induction raw with
  | nil => intro _ _; rfl
  | cons x rest ih =>
    intro cur hraw
    obtain ⟨d, okd⟩ := x
    have hok : okd = true := hraw (d, okd) (List.mem_cons_self ..)
    have hrest : ∀ x ∈ rest, x.2 = true := fun x hx => hraw x (List.mem_cons_of_mem _ hx)
    unfold hopMatchLoopChk
    rw [need_bind hok]
    by_cases c1 : d > maxDist
    · rw [if_pos c1]
    rw [if_neg c1, curCharsChk_ok plain pos (-(d : Int)) (by omega) (by omega) hsz]
    simp only [R_ok_bind]
    rw [curCharsChk_ok plain pos 0 (by omega) (by omega) hsz]
    simp only [R_ok_bind]
    rw [need_bind (show 1 ≤ len by omega),
      prefixCompareChk_ok plain (pos - d) pos (len - 1) len hlen (by omega) hrem (by omega)]
    simp only [R_ok_bind]
    split
    · split
      · rfl
      · exact ih _ hrest
    · exact ih _ hrest

/-- J1–J4: `hop_match` (reconstruction side) for a length of at least 3. For `len < 3` the assertion
    P1 of `prefix_compare` (`max_len >= 3`) fails as soon as the chain has a candidate in range: the
    length comes from the correction stream, see `hopMatchChk_short_len_panics`. -/
theorem hopMatchChk_ok (p : Params) (plain : Array Nat) (s : PState Chain) (len hops : Nat)
    (hps : ParamsSafe p) (h0 : p.hashAlg ≠ 0) (hsz : plain.size < 2147483648)
    (hn : numHashBytes p ≤ plain.size - s.pos) (hlen : 3 ≤ len)
    (hit : IterSafe s.h.totalShift s.pos)
    (ht : TableInv s.h.t ((s.pos : Int) - s.h.totalShift))
    (ht3 : p.hashAlg = 3 → TableInv s.h.t3 ((s.pos : Int) - s.h.totalShift)) :
    hopMatchChk p plain s len hops = .ok () := by
  have hnb := numHashBytes_ge3 p
  unfold hopMatchChk
  rw [if_neg h0]
  unfold remainingChk
  rw [need_bind (show s.pos ≤ plain.size by omega)]
  split
  · rfl
  rename_i hl
  rw [iterateChk_ok p plain s.h s.pos 0 (by omega) hsz hn hps.shift hit ht3]
  simp only [R_ok_bind]
  exact hopMatchLoopChk_ok plain s.pos _ len hops hlen (by omega) (Nat.min_le_left _ _) hsz _ _
    (iterateRaw_flags p plain s.h s.pos 0 ht)

-- ---------------------------------------------------------------------------------------------
-- (c) update_hash

theorem updLoopChk_ok (hashChkAt : Nat → R Unit) (avail ipos L : Nat) (hav : L ≤ avail)
    (hh : ∀ i, i < L → hashChkAt i = .ok ()) (hpos : ipos + L ≤ 65535) :
    ∀ n i, i + n = L → updLoopChk hashChkAt avail ipos n i = .ok () := by
  intro n
  induction n with
  | zero => intro i _; rfl
  | succ n ih =>
    intro i hi
    unfold updLoopChk
    rw [need_bind (show i ≤ avail by omega), hh i (by omega)]
    simp only [R_ok_bind]
    rw [need_bind (show ipos + i + 1 ≤ 65535 by omega)]
    exact ih (i + 1) (by omega)

theorem updateChainChk_ok (hashChkAt : Nat → R Unit) (nbytes avail ipos length : Nat)
    (hlen : length ≤ avail) (hpos : ipos + length ≤ 65535)
    (hh : length + nbytes - 1 < avail → ∀ i, i < length → hashChkAt i = .ok ()) :
    updateChainChk hashChkAt nbytes avail ipos length = .ok () := by
  unfold updateChainChk
  rw [need_bind hlen]
  split
  · rfl
  · rename_i hc
    exact updLoopChk_ok hashChkAt avail ipos length hlen (hh (by omega)) hpos length 0 (by omega)

/-- C3, C5–C9, C1, C2 and the `get_hash` reads of one `HashChain::update_hash(pos0, length)`:
    `length` bytes are left at `pos0` and the position arithmetic is in range (`CallSafe`, which
    `Proofs/ChainBounds.lean` establishes along every run). The read at the end of the input is
    protected by the test `length + num_hash_bytes - 1 >= chars.len()`. -/
theorem updateChk_ok (p : Params) (plain : Array Nat) (c : Chain) (pos0 length : Nat)
    (hsh : p.hashAlg = 1 → p.hashShift < 16) (hsz : plain.size < 2147483648)
    (hl : length ≤ 384) (hend : pos0 + length ≤ plain.size)
    (hcs : CallSafe c.totalShift (pos0, length)) :
    updateChk p plain c pos0 length = .ok () := by
  unfold CallSafe at hcs
  simp only [] at hcs
  obtain ⟨hc0, hc1⟩ := hcs
  have hnb := numHashBytes_ge3 p
  unfold updateChk
  rw [need_bind (show length ≤ 0x180 by omega)]
  rcases shiftStep_cases c.totalShift pos0 with ⟨e, hge⟩ | ⟨e, hlt⟩
  · rw [e] at hc0 hc1
    rw [need_bind (inI32_of _ (by omega) (by omega)), if_pos (by omega),
      need_bind (inI32_of _ (by omega) (by omega))]
    simp only [e]
    rw [fromAbsChk_ok pos0 _ (by omega) (by omega)]
    simp only [R_ok_bind]
    rw [updateChainChk_ok _ (numHashBytes p) (plain.size - pos0) _ length (by omega) (by omega)
      (fun hlt i hi => hashChk_ok p plain (pos0 + i) (by omega) hsh)]
    simp only [R_ok_bind]
    split
    · exact updateChainChk_ok _ 3 (plain.size - pos0) _ length (by omega) (by omega)
        (fun hlt i hi => need_ok (by omega))
    · rfl
  · rw [e] at hc0 hc1
    rw [need_bind (inI32_of _ (by omega) (by omega)), if_neg (by omega)]
    simp only [R_ok_bind, e]
    rw [fromAbsChk_ok pos0 _ (by omega) (by omega)]
    simp only [R_ok_bind]
    rw [updateChainChk_ok _ (numHashBytes p) (plain.size - pos0) _ length (by omega) (by omega)
      (fun hlt i hi => hashChk_ok p plain (pos0 + i) (by omega) hsh)]
    simp only [R_ok_bind]
    split
    · exact updateChainChk_ok _ 3 (plain.size - pos0) _ length (by omega) (by omega)
        (fun hlt i hi => need_ok (by omega))
    · rfl

/-- M1, A1–A3 and everything below: `HashChainHolder::update_hash(length)` for a token of length
    1..258 that fits the input, with the position arithmetic of its `update_hash` calls in range -/
theorem policyUpdateChk_ok (p : Params) (plain : Array Nat) (c : Chain) (pos len : Nat)
    (hsh : p.hashAlg = 1 → p.hashShift < 16) (hsz : plain.size < 2147483648)
    (hl : 1 ≤ len ∧ len ≤ 258) (hend : pos + len ≤ plain.size)
    (hcs : CallsSafe c.totalShift (updateCalls p pos len)) :
    policyUpdateChk p plain c pos len = .ok () := by
  unfold policyUpdateChk
  unfold updateCalls at hcs
  by_cases h0 : p.hashAlg = 0
  · rw [if_pos h0]
  rw [if_neg h0] at hcs ⊢
  rw [need_bind (show len ≤ 0x180 by omega), curCharsChk_ok plain pos 0 (by omega) (by omega) hsz]
  simp only [R_ok_bind]
  by_cases h1 : len = 1
  · rw [if_pos h1] at hcs ⊢
    exact updateChk_ok p plain c pos 1 hsh hsz (by omega) (by omega) hcs.1
  rw [if_neg h1] at hcs ⊢
  revert hcs
  generalize p.addPolicy = a
  intro hcs
  match a with
  | 0 => exact updateChk_ok p plain c pos len hsh hsz (by omega) hend hcs.1
  | 1 =>
    simp only at hcs ⊢
    split
    · rename_i hlim
      rw [if_pos hlim] at hcs
      exact updateChk_ok p plain c pos len hsh hsz (by omega) hend hcs.1
    · rename_i hlim
      rw [if_neg hlim] at hcs
      exact updateChk_ok p plain c pos 1 hsh hsz (by omega) (by omega) hcs.1
  | 2 =>
    simp only at hcs ⊢
    split
    · rename_i hlim
      rw [if_pos hlim] at hcs
      exact updateChk_ok p plain c pos len hsh hsz (by omega) hend hcs.1
    · rename_i hlim
      rw [if_neg hlim] at hcs
      rw [updateChk_ok p plain c pos 1 hsh hsz (by omega) (by omega) hcs.1]
      simp only [R_ok_bind]
      rw [need_bind (show len - 1 ≤ plain.size - pos by omega),
        need_bind (show pos + len < 4294967296 + 1 by omega)]
      refine updateChk_ok p plain _ (pos + len - 1) 1 hsh hsz (by omega) (by omega) ?_
      rw [update_totalShift]
      exact hcs.2.1
  | 3 =>
    simp only at hcs ⊢
    split
    · rename_i hlim
      rw [if_pos hlim] at hcs
      exact updateChk_ok p plain c pos 1 hsh hsz (by omega) (by omega) hcs.1
    · rfl
  | n + 4 =>
    simp only at hcs ⊢
    have hfirst : CallSafe c.totalShift (pos, 1) := by
      split at hcs
      · exact hcs.1
      · exact hcs.1
    rw [updateChk_ok p plain c pos 1 hsh hsz (by omega) (by omega) hfirst]
    simp only [R_ok_bind]
    rw [need_bind (show pos + len < 4294967296 by omega)]
    split
    · rename_i hb
      rw [if_pos hb] at hcs
      rw [need_bind (show len - 1 ≤ plain.size - pos by omega),
        need_bind (show pos + len < 4294967296 + 1 by omega)]
      refine updateChk_ok p plain _ (pos + len - 1) 1 hsh hsz (by omega) (by omega) ?_
      rw [update_totalShift]
      exact hcs.2.1
    · rfl

theorem advanceChk_ok (plain : Array Nat) (pos l : Nat) (hsz : plain.size < 2147483648)
    (hend : pos + l ≤ plain.size) : advanceChk plain pos l = .ok () := by
  unfold advanceChk
  rw [need_bind (inI32_of _ (by omega) (by omega))]
  exact need_ok hend

theorem commitChk_ok (p : Params) (plain : Array Nat) (s : PState Chain) (len : Nat)
    (hsh : p.hashAlg = 1 → p.hashShift < 16) (hsz : plain.size < 2147483648)
    (hl : 1 ≤ len ∧ len ≤ 258) (hend : s.pos + len ≤ plain.size)
    (hcs : CallsSafe s.h.totalShift (updateCalls p s.pos len)) :
    commitChk p plain s len = .ok () := by
  unfold commitChk
  rw [policyUpdateChk_ok p plain s.h s.pos len hsh hsz hl hend hcs]
  simp only [R_ok_bind]
  exact advanceChk_ok plain s.pos len hsz hend

-- ---------------------------------------------------------------------------------------------
-- C4: the chain tables only hold positions below the insertion frontier

theorem getBang_set (a : Array Nat) (i j v : Nat) :
    (a.set! i v)[j]! = if i = j ∧ i < a.size then v else a[j]! := by
  simp only [Array.set!_eq_setIfInBounds, Array.getElem!_eq_getD, Array.getD_eq_getD_getElem?,
    Array.getElem?_setIfInBounds]
  by_cases h : i = j
  · subst h
    by_cases h2 : i < a.size
    · simp [h2]
    · simp [h2]
  · simp [h]

theorem getBang_map (a : Array Nat) (f : Nat → Nat) (hf : f 0 = 0) (j : Nat) :
    (a.map f)[j]! = f a[j]! := by
  simp only [Array.getElem!_eq_getD, Array.getD_eq_getD_getElem?, Array.getElem?_map]
  cases h : a[j]? with
  | none => simp [hf]
  | some v => simp

/-- a `for i in [s : s+n]` loop in `Id` whose body never breaks: index-aware invariant -/
theorem forIn_range'_inv {β : Type} (Inv : Nat → β → Prop) (f : Nat → β → Id (ForInStep β)) :
    ∀ (n s : Nat) (init : β), Inv s init →
      (∀ i b, s ≤ i → i < s + n → Inv i b → ∃ b', f i b = pure (ForInStep.yield b') ∧ Inv (i + 1) b') →
      Inv (s + n) (Id.run (forIn (List.range' s n) init f)) := by
  intro n
  induction n with
  | zero => intro s init h0 _; simpa using h0
  | succ n ih =>
    intro s init h0 hstep
    obtain ⟨b', hb, hinv⟩ := hstep s init (Nat.le_refl _) (by omega) h0
    rw [List.range'_succ, List.forIn_cons, hb]
    have := ih (s + 1) b' hinv (fun i b h1 h2 hi => hstep i b (by omega) (by omega) hi)
    have e : s + 1 + n = s + (n + 1) := by omega
    rw [e] at this
    simpa using this


/-- loop invariant of `update_chain` after `i` insertions -/
def InsInv (ipos : Nat) (i : Nat) (st : Array Nat × Array Nat × Nat) : Prop :=
  st.2.2 = ipos + i ∧
  ∃ S : Nat → Prop, (∀ h : Nat, st.1[h]! = 0 ∨ S st.1[h]!) ∧
    (∀ j : Nat, S j → j < ipos + i ∧ j < 65536 ∧ (st.2.1[j]! = 0 ∨ S st.2.1[j]!))

theorem updateChain_inv (t : Table) (hashf : Nat → Nat) (nbytes avail ipos length : Nat) (lim : Int)
    (ht : TableInv t lim) (hlim : lim ≤ ipos) (hpos : ipos + length ≤ 65536) :
    TableInv (updateChain t hashf nbytes avail ipos length) ((ipos : Int) + length) := by
  unfold updateChain
  split
  · exact ht.mono (by omega)
  · simp only []
    rw [Std.Legacy.Range.forIn_eq_forIn_range']
    simp only [Std.Legacy.Range.size, Nat.sub_zero, Nat.add_sub_cancel, Nat.div_one]
    have h := forIn_range'_inv (InsInv ipos)
      (fun i (__s : Array Nat × Array Nat × Nat) =>
        (pure (ForInStep.yield (__s.fst.set! (hashf i) __s.snd.snd,
          __s.snd.fst.set! __s.snd.snd __s.fst[hashf i]!, __s.snd.snd + 1)) : Id _))
      length 0 (t.head, t.prev, ipos) ?_ ?_
    · obtain ⟨_, S, h1, h2⟩ := h
      refine ⟨S, h1, fun j hj => ?_⟩
      have := h2 j hj
      exact ⟨by omega, this.2⟩
    · obtain ⟨S, h1, h2⟩ := ht
      refine ⟨by simp, S, h1, fun j hj => ?_⟩
      have := h2 j hj
      exact ⟨by simp only [Nat.add_zero]; omega, this.2⟩
    · intro i st _ hi hinv
      obtain ⟨head, prev, pos⟩ := st
      obtain ⟨hp, S, h1, h2⟩ := hinv
      simp only at hp h1 h2
      refine ⟨_, rfl, ?_, fun j => S j ∨ j = pos, ?_, ?_⟩
      · simp only; omega
      · intro h
        simp only [getBang_set]
        split
        · right; right; rfl
        · rcases h1 h with h' | h'
          · left; exact h'
          · right; left; exact h'
      · intro j hj
        simp only [getBang_set]
        rcases hj with hj | hj
        · have := h2 j hj
          refine ⟨by omega, this.2.1, ?_⟩
          rw [if_neg (by omega)]
          rcases this.2.2 with h' | h'
          · left; exact h'
          · right; left; exact h'
        · subst hj
          refine ⟨by omega, by omega, ?_⟩
          split
          · rcases h1 (hashf i) with h' | h'
            · left; exact h'
            · right; left; exact h'
          · -- out of bounds: the default element
            left
            rename_i hnb
            have : ¬ j < prev.size := by
              intro hlt; exact hnb ⟨rfl, hlt⟩
            simp [this]


theorem getBang_oob (a : Array Nat) (j : Nat) (h : ¬ j < a.size) : a[j]! = 0 := by
  simp [h]

theorem reshift_inv (t : Table) (delta : Nat) (lim : Int) (ht : TableInv t lim) (hd : delta ≤ 65536) :
    TableInv (t.reshift delta) (lim - delta) := by
  unfold Table.reshift
  simp only []
  rw [Std.Legacy.Range.forIn_eq_forIn_range']
  simp only [Std.Legacy.Range.size, Nat.add_sub_cancel, Nat.div_one, bind_pure]
  have h := forIn_range'_inv
    (fun i (pv : Array Nat) => ∀ j : Nat, j + delta < i → (pv[j]! = t.prev[j + delta]! - delta ∨ pv[j]! = 0))
    (fun i (__s : Array Nat) => (pure (ForInStep.yield (__s.set! (i - delta) (t.prev[i]! - delta))) : Id _))
    (65536 - delta) delta t.prev ?_ ?_
  · have e : delta + (65536 - delta) = 65536 := by omega
    rw [e] at h
    obtain ⟨S, h1, h2⟩ := ht
    refine ⟨fun j => S (j + delta), ?_, ?_⟩
    · intro hh
      simp only [getBang_map _ (fun x => x - delta) (by simp)]
      rcases h1 hh with h' | h'
      · left; omega
      · by_cases hle : t.head[hh]! ≤ delta
        · left; omega
        · right
          have e2 : t.head[hh]! - delta + delta = t.head[hh]! := by omega
          show S (t.head[hh]! - delta + delta)
          rw [e2]; exact h'
    · intro j hj
      have hS := h2 (j + delta) hj
      refine ⟨by omega, by omega, ?_⟩
      rcases h j (by omega) with h' | h'
      · rw [h']
        rcases hS.2.2 with h'' | h''
        · left; omega
        · by_cases hle : t.prev[j + delta]! ≤ delta
          · left; omega
          · right
            have e2 : t.prev[j + delta]! - delta + delta = t.prev[j + delta]! := by omega
            show S (t.prev[j + delta]! - delta + delta)
            rw [e2]; exact h''
      · left; exact h'
  · intro j hj; omega
  · intro i pv hi1 hi2 hinv
    refine ⟨_, rfl, ?_⟩
    intro j hj
    simp only [getBang_set]
    by_cases hji : j + delta = i
    · have e : i - delta = j := by omega
      split
      · left; rw [← hji]
      · rename_i hnb
        right
        exact getBang_oob pv j (fun hlt => hnb ⟨e, by omega⟩)
    · rw [if_neg (by omega)]
      exact hinv j (by omega)


/-- the chain tables of a holder whose insertion frontier is the plaintext position `pos` -/
def ChainTabInv (p : Params) (c : Chain) (pos : Nat) : Prop :=
  TableInv c.t ((pos : Int) - c.totalShift) ∧ (p.hashAlg = 3 → TableInv c.t3 ((pos : Int) - c.totalShift))

theorem ChainTabInv.mono {p : Params} {c : Chain} {pos pos' : Nat} (h : ChainTabInv p c pos)
    (hp : pos ≤ pos') : ChainTabInv p c pos' :=
  ⟨h.1.mono (by omega), fun h3 => (h.2 h3).mono (by omega)⟩

theorem tableInv_empty (lim : Int) : TableInv Table.empty lim := by
  refine ⟨fun _ => False, fun h => ?_, fun j hj => hj.elim⟩
  left
  unfold Table.empty
  simp only [Array.getElem!_eq_getD, Array.getD_eq_getD_getElem?, Array.getElem?_replicate]
  split <;> rfl

theorem chainTabInv_init (p : Params) (pos : Nat) : ChainTabInv p Chain.init pos :=
  ⟨tableInv_empty _, fun _ => tableInv_empty _⟩

theorem update_tabInv (p : Params) (plain : Array Nat) (c : Chain) (pos0 length : Nat)
    (h : ChainTabInv p c pos0) (hcs : CallSafe c.totalShift (pos0, length)) :
    ChainTabInv p (c.update p plain pos0 length) (pos0 + length) := by
  unfold CallSafe at hcs
  simp only [] at hcs
  obtain ⟨hc0, hc1⟩ := hcs
  obtain ⟨ht, ht3⟩ := h
  unfold Chain.update
  simp only []
  rcases shiftStep_cases c.totalShift pos0 with ⟨e, hge⟩ | ⟨e, hlt⟩
  · rw [e] at hc0 hc1
    rw [if_pos (show (pos0 : Int) - c.totalShift ≥ 0xfe08 by omega)]
    simp only []
    have hi : (((pos0 : Int) - (c.totalShift + 32256)).toNat : Int) = (pos0 : Int) - (c.totalShift + 32256) := by
      omega
    have ht' : TableInv (c.t.reshift 32256) ((pos0 : Int) - (c.totalShift + 32256)) := by
      have := reshift_inv c.t 32256 _ ht (by omega)
      refine this.mono (by omega)
    split
    · rename_i h3
      have ht3' : TableInv (c.t3.reshift 32256) ((pos0 : Int) - (c.totalShift + 32256)) := by
        have := reshift_inv c.t3 32256 _ (ht3 h3) (by omega)
        refine this.mono (by omega)
      refine ⟨?_, fun _ => ?_⟩
      · have := updateChain_inv (c.t.reshift 32256) (fun i => hashAt p plain (pos0 + i)) 4
          (plain.size - pos0) ((pos0 : Int) - (c.totalShift + 32256)).toNat length _ ht' (by omega) (by omega)
        simp only []
        exact this.mono (by omega)
      · have := updateChain_inv (c.t3.reshift 32256) (fun i => hash3At plain (pos0 + i)) 3
          (plain.size - pos0) ((pos0 : Int) - (c.totalShift + 32256)).toNat length _ ht3' (by omega) (by omega)
        simp only []
        exact this.mono (by omega)
    · rename_i h3
      refine ⟨?_, fun h3' => absurd h3' h3⟩
      have := updateChain_inv (c.t.reshift 32256) (fun i => hashAt p plain (pos0 + i)) (numHashBytes p)
        (plain.size - pos0) ((pos0 : Int) - (c.totalShift + 32256)).toNat length _ ht' (by omega) (by omega)
      exact this.mono (by simp only []; omega)
  · rw [e] at hc0 hc1
    rw [if_neg (show ¬ (pos0 : Int) - c.totalShift ≥ 0xfe08 by omega)]
    have hi : (((pos0 : Int) - c.totalShift).toNat : Int) = (pos0 : Int) - c.totalShift := by omega
    split
    · rename_i h3
      refine ⟨?_, fun _ => ?_⟩
      · have := updateChain_inv c.t (fun i => hashAt p plain (pos0 + i)) 4
          (plain.size - pos0) ((pos0 : Int) - c.totalShift).toNat length _ ht (by omega) (by omega)
        exact this.mono (by simp only []; omega)
      · have := updateChain_inv c.t3 (fun i => hash3At plain (pos0 + i)) 3
          (plain.size - pos0) ((pos0 : Int) - c.totalShift).toNat length _ (ht3 h3) (by omega) (by omega)
        exact this.mono (by simp only []; omega)
    · rename_i h3
      refine ⟨?_, fun h3' => absurd h3' h3⟩
      have := updateChain_inv c.t (fun i => hashAt p plain (pos0 + i)) (numHashBytes p)
        (plain.size - pos0) ((pos0 : Int) - c.totalShift).toNat length _ ht (by omega) (by omega)
      exact this.mono (by simp only []; omega)

theorem policyUpdate_tabInv (p : Params) (plain : Array Nat) (c : Chain) (pos len : Nat)
    (hl : 1 ≤ len) (h : ChainTabInv p c pos)
    (hcs : CallsSafe c.totalShift (updateCalls p pos len)) :
    ChainTabInv p (policyUpdate p plain c pos len) (pos + len) := by
  unfold policyUpdate
  unfold updateCalls at hcs
  by_cases h0 : p.hashAlg = 0
  · rw [if_pos h0]; exact h.mono (by omega)
  rw [if_neg h0] at hcs ⊢
  by_cases h1 : len = 1
  · rw [if_pos h1] at hcs ⊢
    subst h1
    exact update_tabInv p plain c pos 1 h hcs.1
  rw [if_neg h1] at hcs ⊢
  revert hcs
  generalize p.addPolicy = a
  intro hcs
  have two : ∀ (hc1 : CallSafe c.totalShift (pos, 1))
      (hc2 : CallSafe (shiftStep c.totalShift pos) (pos + len - 1, 1)),
      ChainTabInv p ((c.update p plain pos 1).update p plain (pos + len - 1) 1) (pos + len) := by
    intro hc1 hc2
    have a1 := (update_tabInv p plain c pos 1 h hc1).mono (show pos + 1 ≤ pos + len - 1 by omega)
    have a2 := update_tabInv p plain _ (pos + len - 1) 1 a1 (by rw [update_totalShift]; exact hc2)
    exact a2.mono (by omega)
  match a with
  | 0 => exact update_tabInv p plain c pos len h hcs.1
  | 1 =>
    simp only at hcs ⊢
    split
    · rename_i hlim
      rw [if_pos hlim] at hcs
      exact update_tabInv p plain c pos len h hcs.1
    · rename_i hlim
      rw [if_neg hlim] at hcs
      exact (update_tabInv p plain c pos 1 h hcs.1).mono (by omega)
  | 2 =>
    simp only at hcs ⊢
    split
    · rename_i hlim
      rw [if_pos hlim] at hcs
      exact update_tabInv p plain c pos len h hcs.1
    · rename_i hlim
      rw [if_neg hlim] at hcs
      exact two hcs.1 hcs.2.1
  | 3 =>
    simp only at hcs ⊢
    split
    · rename_i hlim
      rw [if_pos hlim] at hcs
      exact (update_tabInv p plain c pos 1 h hcs.1).mono (by omega)
    · exact h.mono (by omega)
  | n + 4 =>
    simp only at hcs ⊢
    split
    · rename_i hb
      rw [if_pos hb] at hcs
      exact two hcs.1 hcs.2.1
    · rename_i hb
      rw [if_neg hb] at hcs
      exact (update_tabInv p plain c pos 1 h hcs.1).mono (by omega)

-- ---------------------------------------------------------------------------------------------
-- token_predictor.rs: predict_token / repredict_reference

/-- the documented exclusion (history (ii)): lazy matching with `zlib_compatible` quarters the chain
    depth for a "good" first match (`len >= good_length`, which can only happen for a `len` in 3..258
    below `max_lazy`); a depth of 0 underflows `max_chain -= 1` (M13) -/
def LazyDepthOK (p : Params) : Prop :=
  p.isLazy = true → p.zlibCompatible = true →
    (∃ len, 3 ≤ len ∧ len ≤ 258 ∧ p.goodLength ≤ len ∧ len < p.maxLazy) → 4 ≤ p.maxChain

theorem lazyDepthOK_of_simple (p : Params)
    (h : p.isLazy = true ∧ p.zlibCompatible = true → 4 ≤ p.maxChain) : LazyDepthOK p :=
  fun h1 h2 _ => h ⟨h1, h2⟩

theorem matchTokenChk_ok' (p : Params) (plain : Array Nat) (c : Chain) (pos offset prevLen maxDepth : Nat)
    (hps : ParamsSafe p) (hoff : offset ≤ 1) (hsz : plain.size < 2147483648)
    (hpos : pos + offset ≤ plain.size) (hp1 : 1 ≤ pos) (hprev : prevLen < 4294967295)
    (hdepth : p.hashAlg ≠ 0 → 1 ≤ maxDepth) (hit : p.hashAlg ≠ 0 → IterSafe c.totalShift pos)
    (htab : ChainTabInv p c pos) :
    matchTokenChk p plain c pos offset prevLen maxDepth = .ok () := by
  by_cases h0 : p.hashAlg = 0
  · unfold matchTokenChk matchTokenC
    rw [if_pos h0]
  · exact matchTokenChk_ok p plain c pos offset prevLen maxDepth hps hoff hsz hpos hp1 hprev (hdepth h0)
      (hit h0) htab.1 htab.2

/-- `pending_reference` was produced by a successful `match_token_1` one position earlier -/
def PendInv (p : Params) (plain : Array Nat) (pos : Nat) (pend : Option (Nat × Nat)) : Prop :=
  ∀ l d, pend = some (l, d) →
    p.hashAlg ≠ 0 ∧ 1 ≤ pos ∧ numHashBytes p ≤ plain.size - pos ∧ l ≤ 258

theorem pendInv_none (p : Params) (plain : Array Nat) (pos : Nat) : PendInv p plain pos none :=
  fun _ _ h => by cases h

theorem matchToken_success_le {p : Params} {plain : Array Nat} {c : Chain}
    {pos offset prevLen maxDepth l d : Nat}
    (h : matchToken p plain c pos offset prevLen maxDepth = .success l d) : l ≤ 258 := by
  have := matchToken_bounded p plain c pos offset prevLen maxDepth
  rw [h] at this
  exact this

/-- T1, T2 and the two `match_token_offset` calls of `predict_token` -/
theorem predictTokChk_ok (p : Params) (plain : Array Nat) (s : PState Chain)
    (hps : ParamsSafe p) (hlz : LazyDepthOK p) (hsz : plain.size < 2147483648)
    (hpos : s.pos < plain.size) (hit : p.hashAlg ≠ 0 → IterSafe s.h.totalShift s.pos)
    (htab : ChainTabInv p s.h s.pos) (hpend : PendInv p plain s.pos s.pending) :
    predictTokChk p plain s = .ok () := by
  have hcc : curCharChk plain s.pos = .ok () := need_ok hpos
  unfold predictTokChk
  split
  · exact hcc
  rename_i hp0
  unfold remainingChk
  rw [need_bind (show s.pos ≤ plain.size by omega)]
  split
  · exact hcc
  rename_i hrem
  have hm0 : matchTokenChk p plain s.h s.pos 0 0 p.maxChain = .ok () :=
    matchTokenChk_ok' p plain s.h s.pos 0 0 p.maxChain hps (by omega) hsz (by omega) (by omega) (by omega)
      hps.chain hit htab
  -- the tail after the first match `(len, dist)` with `len ≤ 258`
  have tail : ∀ len dist, len ≤ 258 →
      (if len < 3 then curCharChk plain s.pos
        else if len = 3 ∧ dist > p.maxDist3 then curCharChk plain s.pos
        else if p.isLazy ∧ len < p.maxLazy ∧ plain.size - s.pos ≥ len + 2 then do
          let depth := if p.zlibCompatible ∧ len ≥ p.goodLength then p.maxChain >>> 2 else p.maxChain
          matchTokenChk p plain s.h s.pos 1 len depth
          match matchToken p plain s.h s.pos 1 len depth with
          | .success l2 _ => if l2 > len then curCharChk plain s.pos else .ok ()
          | .none => .ok ()
        else .ok ()) = .ok () := by
    intro len dist hlen
    split
    · exact hcc
    rename_i hl3
    split
    · exact hcc
    split
    · rename_i hlazy
      simp only []
      have hdepth : p.hashAlg ≠ 0 →
          1 ≤ (if p.zlibCompatible = true ∧ len ≥ p.goodLength then p.maxChain >>> 2 else p.maxChain) := by
        intro h0
        split
        · rename_i hz
          have := hlz hlazy.1 hz.1 ⟨len, by omega, hlen, hz.2, hlazy.2.1⟩
          rw [Nat.shiftRight_eq_div_pow]
          have : 4 / 4 ≤ p.maxChain / 2 ^ 2 := Nat.div_le_div_right this
          omega
        · exact hps.chain h0
      rw [matchTokenChk_ok' p plain s.h s.pos 1 len _ hps (by omega) hsz (by omega) (by omega) (by omega)
        hdepth hit htab]
      simp only [R_ok_bind]
      split
      · split
        · exact hcc
        · rfl
      · rfl
    · rfl
  cases hp : s.pending with
  | none =>
    simp only [hm0, R_ok_bind]
    cases hm : matchToken p plain s.h s.pos 0 0 p.maxChain with
    | none => exact hcc
    | success len dist => exact tail len dist (matchToken_success_le hm)
  | some ld =>
    obtain ⟨l, d⟩ := ld
    simp only [R_ok_bind]
    exact tail l d (hpend l d hp).2.2.2

/-- T4 and the `match_token_0` call of `repredict_reference` -/
theorem repredictTokChk_ok (p : Params) (plain : Array Nat) (s : PState Chain)
    (hps : ParamsSafe p) (hsz : plain.size < 2147483648)
    (hpos : s.pos ≤ plain.size) (hit : p.hashAlg ≠ 0 → IterSafe s.h.totalShift s.pos)
    (htab : ChainTabInv p s.h s.pos) :
    repredictTokChk p plain s = .ok () := by
  unfold repredictTokChk
  split
  · rfl
  unfold remainingChk
  rw [need_bind hpos]
  split
  · rfl
  exact matchTokenChk_ok' p plain s.h s.pos 0 0 p.maxChain hps (by omega) hsz (by omega) (by omega) (by omega)
      hps.chain hit htab

theorem repredictTok_facts {p : Params} {plain : Array Nat} {s : PState Chain} {l d : Nat}
    (h : repredictTok p plain s = .ok (l, d)) :
    p.hashAlg ≠ 0 ∧ numHashBytes p ≤ plain.size - s.pos := by
  unfold repredictTok at h
  split at h
  · cases h
  · split at h
    · rename_i l' d' hm
      have := matchToken_success_facts hm
      exact ⟨this.1, by simpa using this.2.1⟩
    · cases h

/-- what `predict_token` answers: a new pending reference satisfies the invariant one position
    later; a predicted reference means a hash algorithm is configured and `num_hash_bytes` bytes are
    left (it came from a successful `match_token_0` or from the pending reference), and leaves no
    pending reference -/
theorem predictTok_facts (p : Params) (plain : Array Nat) (s : PState Chain)
    (hpend : PendInv p plain s.pos s.pending) :
    PendInv p plain (s.pos + 1) (predictTok p plain s).2 ∧
    (∀ l d, (predictTok p plain s).1 = .ref l d →
      p.hashAlg ≠ 0 ∧ numHashBytes p ≤ plain.size - s.pos ∧ (predictTok p plain s).2 = none) := by
  have hnb := numHashBytes_ge3 p
  unfold predictTok
  split
  · -- early exit: no pending reference can exist here
    rename_i hex
    have : s.pending = none := by
      cases hp : s.pending with
      | none => rfl
      | some ld =>
        obtain ⟨l, d⟩ := ld
        have := hpend l d hp
        omega
    rw [this]
    exact ⟨pendInv_none _ _ _, fun l d h => by cases h⟩
  · rename_i hex
    -- the first match and what is known about it
    have hm : ∀ len dist,
        (match s.pending with
          | some (l, d) => MatchResult.success l d
          | none => matchToken p plain s.h s.pos 0 0 p.maxChain) = .success len dist →
        p.hashAlg ≠ 0 ∧ numHashBytes p ≤ plain.size - s.pos := by
      intro len dist h
      cases hp : s.pending with
      | none =>
        rw [hp] at h
        have := matchToken_success_facts h
        exact ⟨this.1, by simpa using this.2.1⟩
      | some ld =>
        obtain ⟨l, d⟩ := ld
        have := hpend l d hp
        exact ⟨this.1, this.2.2.1⟩
    have pendSome : ∀ (len depth l2 d2 : Nat),
        matchToken p plain s.h s.pos 1 len depth = .success l2 d2 →
        PendInv p plain (s.pos + 1) (some (l2, d2)) := by
      intro len depth l2 d2 hmt l d h
      cases h
      have := matchToken_success_facts hmt
      exact ⟨this.1, by omega, by omega, matchToken_success_le hmt⟩
    simp only []
    repeat' split
    all_goals first
      | (refine ⟨pendInv_none _ _ _, ?_⟩
         intro l d h
         first
           | (cases h; done)
           | exact ⟨(hm _ _ (by assumption)).1, (hm _ _ (by assumption)).2, rfl⟩)
      | (refine ⟨pendSome _ _ _ _ (by assumption), ?_⟩
         intro l d h
         cases h)

-- ---------------------------------------------------------------------------------------------
-- predict_block: one token

variable {H : Type}

/-- the state `predict_block` reaches after one token: the token is committed on the state whose
    pending reference is what `predict_token` left (literal target, or reference target that was
    predicted as a reference) or none (after `repredict_reference`) -/
theorem encTok_state' (P : Pred H) (plain : Array Nat) (s : PState H) (t : Token) (ops : List Op)
    (s' : PState H) (he : encTok P plain s t = .ok (ops, s')) :
    ∃ pd, s' = commit P plain { s with pending := pd } t ∧
      (pd = none ∨ (pd = (P.predictTok plain s).2 ∧
        ((∃ b, t = .lit b) ∨ ∃ l d, (P.predictTok plain s).1 = .ref l d))) := by
  unfold encTok at he
  rcases hp : P.predictTok plain s with ⟨pt, pend⟩
  rw [hp] at he
  simp only at he
  cases t with
  | lit b =>
    simp at he
    obtain ⟨_, rfl⟩ := he
    exact ⟨pend, rfl, Or.inr ⟨rfl, Or.inl ⟨b, rfl⟩⟩⟩
  | ref len dist irr =>
    simp only [bind_eq_ok] at he
    obtain ⟨⟨ops0, plen, pdist, s2⟩, ha, hb⟩ := he
    have hs := encRefTail_state P plain ops0 plen pdist s2 len dist irr ops s' hb
    subst hs
    cases pt with
    | lit =>
      simp only [bind_eq_ok] at ha
      obtain ⟨⟨l, d⟩, hr, ha⟩ := ha
      simp [pure, Except.pure] at ha
      obtain ⟨rfl, rfl, rfl, rfl⟩ := ha
      exact ⟨none, rfl, Or.inl rfl⟩
    | ref l d =>
      simp [pure, Except.pure] at ha
      obtain ⟨rfl, rfl, rfl, rfl⟩ := ha
      exact ⟨pend, rfl, Or.inr ⟨rfl, Or.inr ⟨l, d, rfl⟩⟩⟩


/-- the invariant of the predictor state at a token start -/
structure RunInv (p : Params) (plain : Array Nat) (s : PState Chain) : Prop where
  chain : p.hashAlg ≠ 0 → ChainInv s.h.totalShift s.pos
  tabs : ChainTabInv p s.h s.pos
  pend : PendInv p plain s.pos s.pending

theorem step_facts (p : Params) (shift : Int) (pos len : Nat)
    (hinv : p.hashAlg ≠ 0 → ChainInv shift pos) (hl : 1 ≤ len ∧ len ≤ 258)
    (h4k : p.addPolicy = 3 → len > 1 → (pos &&& 4095) < 4093) :
    (p.hashAlg ≠ 0 → IterSafe shift pos) ∧ CallsSafe shift (updateCalls p pos len) ∧
    (p.hashAlg ≠ 0 → ChainInv (shiftAfter shift (updateCalls p pos len)) (pos + len)) := by
  by_cases h0 : p.hashAlg = 0
  · refine ⟨fun h => absurd h0 h, ?_, fun h => absurd h0 h⟩
    have : updateCalls p pos len = [] := by simp [updateCalls, h0]
    rw [this]
    trivial
  · have := chain_step_safe p h0 shift pos len (hinv h0) hl h4k
    exact ⟨fun _ => this.1, this.2.1, fun _ => this.2.2⟩

theorem validTok_len (plain : Array Nat) (pos : Nat) (t : Token) (hv : ValidTok plain pos t) :
    1 ≤ tokenLen t ∧ tokenLen t ≤ 258 ∧ pos + tokenLen t ≤ plain.size := by
  cases t with
  | lit b => simp only [tokenLen]; have := hv.1; omega
  | ref len dist irr =>
    obtain ⟨h3, h258, _, _, _, hsz, _⟩ := hv
    simp only [tokenLen]; omega

/-- the state after committing a token of length `len` on a state with the chain of `s` -/
theorem runInv_commit (p : Params) (plain : Array Nat) (s : PState Chain) (t : Token) (pd : Option (Nat × Nat))
    (hinv : RunInv p plain s) (hl : 1 ≤ tokenLen t ∧ tokenLen t ≤ 258)
    (h4k : p.addPolicy = 3 → tokenLen t > 1 → (s.pos &&& 4095) < 4093)
    (hpd : PendInv p plain (s.pos + tokenLen t) pd) :
    RunInv p plain (commit (pred p) plain { s with pending := pd } t) := by
  obtain ⟨_, hcs, hnext⟩ := step_facts p s.h.totalShift s.pos (tokenLen t) hinv.chain hl h4k
  refine ⟨?_, ?_, hpd⟩
  · intro h0
    show ChainInv (policyUpdate p plain s.h s.pos (tokenLen t)).totalShift (s.pos + tokenLen t)
    rw [policyUpdate_totalShift]
    exact hnext h0
  · exact policyUpdate_tabInv p plain s.h s.pos (tokenLen t) hl.1 hinv.tabs hcs


/-- one iteration of the token loop of `predict_block` on a valid token: no site is reached -/
theorem encTokChk_ok (p : Params) (plain : Array Nat) (s : PState Chain) (t : Token)
    (hps : ParamsSafe p) (hlz : LazyDepthOK p) (hsz : plain.size < 2147483648)
    (hv : ValidTok plain s.pos t) (hinv : RunInv p plain s)
    (h4k : p.addPolicy = 3 → tokenLen t > 1 → (s.pos &&& 4095) < 4093) :
    encTokChk p plain s t = .ok () := by
  obtain ⟨hl1, hl2, hend⟩ := validTok_len plain s.pos t hv
  obtain ⟨hit, hcs, _⟩ := step_facts p s.h.totalShift s.pos (tokenLen t) hinv.chain ⟨hl1, hl2⟩ h4k
  obtain ⟨hpf1, hpf2⟩ := predictTok_facts p plain s hinv.pend
  unfold encTokChk
  rw [predictTokChk_ok p plain s hps hlz hsz (by omega) hit hinv.tabs hinv.pend]
  simp only [R_ok_bind]
  rcases hp : predictTok p plain s with ⟨pt, pend⟩
  rw [hp] at hpf1 hpf2
  simp only at hpf1 hpf2 ⊢
  have hcommit : ∀ pd : Option (Nat × Nat),
      commitChk p plain { s with pending := pd } (tokenLen t) = .ok () := fun pd =>
    commitChk_ok p plain { s with pending := pd } (tokenLen t) hps.shift hsz ⟨hl1, hl2⟩ hend hcs
  cases t with
  | lit b => exact hcommit pend
  | ref len dist irr =>
    simp only [tokenLen] at hcommit
    have hlen3 : 3 ≤ len := hv.1
    have hhops : ∀ pd : Option (Nat × Nat), p.hashAlg ≠ 0 → numHashBytes p ≤ plain.size - s.pos →
        calcHopsChk p plain { s with pending := pd } len dist = .ok () := fun pd h0 hn =>
      calcHopsChk_ok p plain { s with pending := pd } len dist hps h0 hsz hn hlen3 (hit h0)
        hinv.tabs.1 hinv.tabs.2
    cases pt with
    | lit =>
      simp only []
      rw [repredictTokChk_ok p plain { s with pending := pend } hps hsz (by simp only []; omega) hit hinv.tabs]
      simp only [R_ok_bind]
      cases hr : repredictTok p plain { s with pending := pend } with
      | error e => rfl
      | ok ld =>
        obtain ⟨plen, pdist⟩ := ld
        have hf := repredictTok_facts hr
        simp only []
        split
        · rw [hhops none hf.1 hf.2]
          simp only [R_ok_bind]
          split
          · rfl
          · exact hcommit none
        · exact hcommit none
    | ref plen pdist =>
      have hf := hpf2 plen pdist rfl
      simp only []
      split
      · rw [hhops pend hf.1 hf.2.1]
        simp only [R_ok_bind]
        split
        · rfl
        · exact hcommit pend
      · exact hcommit pend

/-- … and the invariant holds again at the next token start -/
theorem encTok_runInv (p : Params) (plain : Array Nat) (s : PState Chain) (t : Token)
    (hv : ValidTok plain s.pos t) (hinv : RunInv p plain s)
    (h4k : p.addPolicy = 3 → tokenLen t > 1 → (s.pos &&& 4095) < 4093)
    (ops : List Op) (s' : PState Chain) (he : encTok (pred p) plain s t = .ok (ops, s')) :
    RunInv p plain s' ∧ s'.pos = s.pos + tokenLen t := by
  obtain ⟨hl1, hl2, hend⟩ := validTok_len plain s.pos t hv
  obtain ⟨hpf1, hpf2⟩ := predictTok_facts p plain s hinv.pend
  refine ⟨?_, (encTok_state (pred p) plain s t ops s' he).1⟩
  obtain ⟨pd, rfl, hpd⟩ := encTok_state' (pred p) plain s t ops s' he
  refine runInv_commit p plain s t pd hinv ⟨hl1, hl2⟩ h4k ?_
  rcases hpd with rfl | ⟨rfl, hc⟩
  · exact pendInv_none _ _ _
  · rcases hc with ⟨b, rfl⟩ | ⟨l, d, hld⟩
    · exact hpf1
    · have := (hpf2 l d hld).2.2
      show PendInv p plain (s.pos + tokenLen t) (predictTok p plain s).2
      rw [this]
      exact pendInv_none _ _ _

-- ---------------------------------------------------------------------------------------------
-- predict_block / predict_blocks: the whole run

theorem noRefAt4k_split : ∀ (a b : List Nat) (pos : Nat),
    NoRefAt4k pos (a ++ b) → NoRefAt4k pos a ∧ NoRefAt4k (pos + a.sum) b := by
  intro a
  induction a with
  | nil => intro b pos h; exact ⟨trivial, by simpa using h⟩
  | cons x a ih =>
    intro b pos h
    simp only [List.cons_append, NoRefAt4k] at h
    obtain ⟨h1, h2⟩ := ih b (pos + x) h.2
    refine ⟨⟨h.1, h1⟩, ?_⟩
    have e : pos + (x :: a).sum = pos + x + a.sum := by simp [Nat.add_assoc]
    rw [e]; exact h2

theorem sum_map_tokenLen (ts : List Token) (pos : Nat) : pos + (ts.map tokenLen).sum = toksEnd pos ts := by
  induction ts generalizing pos with
  | nil => simp [toksEnd]
  | cons t ts ih =>
    simp only [List.map_cons, List.sum_cons, toksEnd]
    rw [← ih (pos + tokenLen t)]
    omega

/-- the token loop of `predict_block` over valid tokens -/
theorem encToksChk_ok (p : Params) (plain : Array Nat)
    (hps : ParamsSafe p) (hlz : LazyDepthOK p) (hsz : plain.size < 2147483648) :
    ∀ (ts : List Token) (s : PState Chain), ValidToks plain s.pos ts → RunInv p plain s →
      (p.addPolicy = 3 → NoRefAt4k s.pos (ts.map tokenLen)) →
      encToksChk p plain s ts = .ok () ∧
      ∀ ops s', encToks (pred p) plain s ts = .ok (ops, s') → RunInv p plain s' := by
  intro ts
  induction ts with
  | nil =>
    intro s _ hinv _
    refine ⟨rfl, fun ops s' he => ?_⟩
    simp [encToks] at he
    rw [← he.2]; exact hinv
  | cons t ts ih =>
    intro s hv hinv h4k
    obtain ⟨hvt, hvs⟩ := hv
    have h4t : p.addPolicy = 3 → tokenLen t > 1 → (s.pos &&& 4095) < 4093 := fun h3 => (h4k h3).1
    have hchk := encTokChk_ok p plain s t hps hlz hsz hvt hinv h4t
    constructor
    · unfold encToksChk
      rw [hchk]
      simp only [R_ok_bind]
      cases he : encTok (pred p) plain s t with
      | error e => rfl
      | ok r =>
        obtain ⟨ops, s1⟩ := r
        obtain ⟨hinv1, hpos1⟩ := encTok_runInv p plain s t hvt hinv h4t ops s1 he
        simp only []
        exact (ih s1 (by rw [hpos1]; exact hvs) hinv1 (fun h3 => by rw [hpos1]; exact (h4k h3).2)).1
    · intro ops s' he
      simp only [encToks, bind_eq_ok] at he
      obtain ⟨⟨a, s1⟩, h1, ⟨b, s2⟩, h2, he⟩ := he
      simp at he
      obtain ⟨_, rfl⟩ := he
      obtain ⟨hinv1, hpos1⟩ := encTok_runInv p plain s t hvt hinv h4t a s1 h1
      exact (ih s1 (by rw [hpos1]; exact hvs) hinv1 (fun h3 => by rw [hpos1]; exact (h4k h3).2)).2 b s2 h2

/-- stored blocks: `update_hash(1); advance(1)` for every byte -/
theorem commitStoredChk_ok (p : Params) (plain : Array Nat)
    (hps : ParamsSafe p) (hsz : plain.size < 2147483648) :
    ∀ (n : Nat) (s : PState Chain), s.pos + n ≤ plain.size → s.pending = none → RunInv p plain s →
      commitStoredChk p plain n s = .ok () ∧ RunInv p plain (commitStored (pred p) plain n s) := by
  intro n
  induction n with
  | zero => intro s _ _ hinv; exact ⟨rfl, hinv⟩
  | succ n ih =>
    intro s hend hpn hinv
    have hl : 1 ≤ 1 ∧ 1 ≤ 258 := by omega
    have h4 : p.addPolicy = 3 → 1 > 1 → (s.pos &&& 4095) < 4093 := fun _ h => by omega
    obtain ⟨_, hcs, _⟩ := step_facts p s.h.totalShift s.pos 1 hinv.chain hl h4
    have hnext : RunInv p plain { s with h := policyUpdate p plain s.h s.pos 1, pos := s.pos + 1 } := by
      have := runInv_commit p plain s (.lit 0) none hinv hl h4 (pendInv_none _ _ _)
      refine ⟨this.chain, this.tabs, ?_⟩
      show PendInv p plain (s.pos + 1) s.pending
      rw [hpn]; exact pendInv_none _ _ _
    have hrec := ih { s with h := policyUpdate p plain s.h s.pos 1, pos := s.pos + 1 }
      (by simp only []; omega) hpn hnext
    constructor
    · unfold commitStoredChk
      rw [commitChk_ok p plain s 1 hps.shift hsz hl (by omega) hcs]
      simp only [R_ok_bind]
      exact hrec.1
    · exact hrec.2

theorem encTokBlock_toks {H : Type} (P : Pred H) (plain : Array Nat) (s : PState H) (btn : Nat) (ts : List Token)
    (last : Bool) (tree : R (List Op)) (ops : List Op) (s' : PState H)
    (he : encTokBlock P plain s btn ts last tree = .ok (ops, s')) :
    ∃ tokOps, encToks P plain s ts = .ok (tokOps, s') := by
  unfold encTokBlock at he
  simp only [] at he
  by_cases hn : ts.length ≥ 2 ^ 32
  · rw [if_pos hn] at he
    cases he
  · rw [if_neg hn] at he
    simp only [bind_eq_ok] at he
    obtain ⟨⟨tokOps, s1⟩, h1, treeOps, _, he⟩ := he
    simp at he
    exact ⟨tokOps, by rw [h1, he.2]⟩

theorem sum_blockLens (b : Block) (pos : Nat) : pos + (blockLens b).sum = blockEnd pos b := by
  cases b with
  | stored pad data => simp [blockLens, blockEnd]
  | fixed ts => exact sum_map_tokenLen ts pos
  | dynamic h ts => exact sum_map_tokenLen ts pos

/-- `predict_block` on a valid block -/
theorem encBlockChk_ok (p : Params) (plain : Array Nat)
    (hps : ParamsSafe p) (hlz : LazyDepthOK p) (hsz : plain.size < 2147483648)
    (s : PState Chain) (b : Block) (last : Bool)
    (hv : ValidBlock plain s.pos b) (hinv : RunInv p plain s)
    (h4k : p.addPolicy = 3 → NoRefAt4k s.pos (blockLens b)) :
    encBlockChk p plain s b = .ok () ∧
    ∀ ops s', encBlock (pred p) plain s b last = .ok (ops, s') →
      RunInv p plain s' ∧ s'.pos = blockEnd s.pos b := by
  have hinv0 : RunInv p plain { s with count := 0, pending := none } :=
    ⟨hinv.chain, hinv.tabs, pendInv_none _ _ _⟩
  have htoks : ∀ ts : List Token, ValidToks plain s.pos ts →
      (p.addPolicy = 3 → NoRefAt4k s.pos (ts.map tokenLen)) →
      encToksChk p plain { s with count := 0, pending := none } ts = .ok () ∧
      ∀ (btn : Nat) (tree : R (List Op)) ops s',
        encTokBlock (pred p) plain { s with count := 0, pending := none } btn ts last tree = .ok (ops, s') →
        RunInv p plain s' ∧ s'.pos = toksEnd s.pos ts := by
    intro ts hvt h4
    have := encToksChk_ok p plain hps hlz hsz ts { s with count := 0, pending := none } hvt hinv0 h4
    refine ⟨this.1, fun btn tree ops s' he => ?_⟩
    obtain ⟨tokOps, ht⟩ := encTokBlock_toks (pred p) plain _ btn ts last tree ops s' he
    exact ⟨this.2 tokOps s' ht, (encToks_state (pred p) plain ts _ tokOps s' ht).1⟩
  cases b with
  | stored pad data =>
    obtain ⟨_, _, hend, _⟩ := hv
    have := commitStoredChk_ok p plain hps hsz data.length { s with count := 0, pending := none }
      hend rfl hinv0
    refine ⟨this.1, fun ops s' he => ?_⟩
    simp [encBlock] at he
    rw [← he.2]
    exact ⟨this.2, by simp [commitStored_pos, blockEnd]⟩
  | fixed ts =>
    have := htoks ts hv.1 h4k
    refine ⟨this.1, fun ops s' he => ?_⟩
    rw [encBlock_fixed] at he
    exact this.2 _ _ ops s' he
  | dynamic h ts =>
    have := htoks ts hv.1 h4k
    refine ⟨this.1, fun ops s' he => ?_⟩
    rw [encBlock_dynamic] at he
    exact this.2 _ _ ops s' he

/-- `predict_blocks` on a valid block list -/
theorem encBlocksChk_ok (p : Params) (plain : Array Nat)
    (hps : ParamsSafe p) (hlz : LazyDepthOK p) (hsz : plain.size < 2147483648) :
    ∀ (blocks : List Block) (s : PState Chain), ValidBlocks plain s.pos blocks → RunInv p plain s →
      (p.addPolicy = 3 → NoRefAt4k s.pos (streamLens blocks)) →
      encBlocksChk p plain s blocks = .ok () := by
  intro blocks
  induction blocks with
  | nil => intro s _ _ _; rfl
  | cons b rest ih =>
    intro s hv hinv h4k
    obtain ⟨hvb, hvr⟩ := hv
    have h4s : p.addPolicy = 3 → NoRefAt4k s.pos (blockLens b) ∧ NoRefAt4k (blockEnd s.pos b) (streamLens rest) := by
      intro h3
      have := noRefAt4k_split (blockLens b) (streamLens rest) s.pos (by simpa [streamLens] using h4k h3)
      rw [sum_blockLens] at this
      exact this
    obtain ⟨hchk, hst⟩ := encBlockChk_ok p plain hps hlz hsz s b rest.isEmpty hvb hinv (fun h3 => (h4s h3).1)
    unfold encBlocksChk
    rw [hchk]
    simp only [R_ok_bind]
    cases he : encBlock (pred p) plain s b rest.isEmpty with
    | error e => rfl
    | ok r =>
      obtain ⟨ops, s1⟩ := r
      obtain ⟨hinv1, hpos1⟩ := hst ops s1 he
      simp only []
      exact ih s1 (by rw [hpos1]; exact hvr) hinv1 (fun h3 => by rw [hpos1]; exact (h4s h3).2)

theorem runInv_init (p : Params) (plain : Array Nat) : RunInv p plain ⟨Chain.init, none, 0, 0⟩ :=
  ⟨fun _ => by unfold ChainInv Chain.init; simp only []; omega, chainTabInv_init p 0, pendInv_none _ _ _⟩

/-- MAIN THEOREM. Driving the predictor over a valid stream (`TokenPredictor::new`, then
    `predict_block` for every block, as `encStream (pred p)` does) reaches none of the panic sites
    listed in `Model/ChainsSafe.lean`, provided
    * the plaintext is shorter than 2^31 bytes (`PreflateInput::pos` is an `i32`),
    * the parameter vector is in the estimator's range,
    * lazy matching with `zlib_compatible` is not combined with a chain depth below 4 when a "good"
      length can occur (`LazyDepthOK`; `EstimatorRange` does not exclude this — see
      `lazy_depth_underflow_reachable`),
    * for the 4 KiB-boundary add policy, no reference starts in the last three bytes of a 4 KiB page
      (the estimator's own side condition, as in `chain_positions_in_u16_partial`). -/
theorem encStreamChk_ok (p : Params) (plain : Array Nat) (blocks : List Block)
    (hr : EstimatorRange p) (hlz : LazyDepthOK p) (hsz : plain.size < 2147483648)
    (hv : StreamValid plain blocks)
    (h4k : p.addPolicy = 3 → NoRefAt4k 0 (streamLens blocks)) :
    encStreamChk p plain blocks = .ok () := by
  have hps := paramsSafe_of_estimatorRange p hr
  unfold encStreamChk
  have hnew : holderNewChk p = .ok () := by
    unfold holderNewChk
    split
    · rfl
    · rename_i h0
      exact need_ok (by have := (hps.window h0).2; omega)
  rw [hnew]
  simp only [R_ok_bind]
  exact encBlocksChk_ok p plain hps hlz hsz blocks ⟨Chain.init, none, 0, 0⟩ hv.2.1 (runInv_init p plain) h4k

-- ---------------------------------------------------------------------------------------------
-- history (i): the prefix_compare defect and its repair

theorem R_error_bind {α β : Type} (e : Fail) (f : α → R β) : ((Except.error e : R α) >>= f) = .error e := id rfl

theorem prefixCompareChk_P1 (plain : Array Nat) (a b bestLen maxLen : Nat) (h : maxLen ≤ bestLen) :
    prefixCompareChk plain a b bestLen maxLen = .error (.panic
      "P1 prefix_compare: assert!(max_len >= 3 && s1.len() >= max_len && s2.len() >= max_len && best_len < max_len)") := by
  unfold prefixCompareChk need
  have : ¬ (3 ≤ maxLen ∧ maxLen ≤ plain.size - a ∧ maxLen ≤ plain.size - b ∧ bestLen < maxLen) := by omega
  rw [if_neg this]
  rfl

/-- `prefix_compare(.., best_len, max_len = 3)` of two equal 3-byte strings is 3 -/
theorem prefixCompare_three (plain : Array Nat) (a b bestLen : Nat) (hb : bestLen < 3)
    (h0 : byteAt plain a = byteAt plain b) (h1 : byteAt plain (a + 1) = byteAt plain (b + 1))
    (h2 : byteAt plain (a + 2) = byteAt plain (b + 2)) : prefixCompare plain a b bestLen 3 = 3 := by
  have hbl : byteAt plain (a + bestLen) = byteAt plain (b + bestLen) := by
    have : bestLen = 0 ∨ bestLen = 1 ∨ bestLen = 2 := by omega
    rcases this with h | h | h <;> subst h <;> simp_all
  unfold prefixCompare
  simp only [hbl, h0, h1, h2, ne_eq, not_true_eq_false, or_self, if_false]
  rw [Std.Legacy.Range.forIn_eq_forIn_range']
  simp [Std.Legacy.Range.size]

/-- History (i), the defect that the `if best_len >= max_len { break }` of the current source repairs:
    three bytes left (`max_len = 3`), the first candidate matches all three but is too far for a
    3-byte match (`dist > max_dist_3_matches`), so it is recorded (`best_len = 3 = max_len`) and the loop
    goes on; WITHOUT the break the next candidate reaches `prefix_compare` with `best_len == max_len`
    and trips its assertion (in the source of that time: the index `s2[best_len]`). -/
theorem prefix_compare_defect_without_break (p : Params) (plain : Array Nat)
    (startPos nice hop0 hop1 d1 d2 maxChain : Nat) (rest : List (Nat × Bool)) (best : MatchResult)
    (hsz : startPos + 3 ≤ plain.size) (hs : startPos < 2147483648)
    (hd1 : d1 ≤ hop0) (hd1s : d1 ≤ startPos) (hd2 : d2 ≤ hop1) (hd2s : d2 ≤ startPos)
    (h0 : byteAt plain (startPos - d1) = byteAt plain startPos)
    (h1 : byteAt plain (startPos - d1 + 1) = byteAt plain (startPos + 1))
    (h2 : byteAt plain (startPos - d1 + 2) = byteAt plain (startPos + 2))
    (hfar : d1 > p.maxDist3) (hchain : 2 ≤ maxChain) :
    matchLoopC false p plain startPos 3 nice hop0 hop1 ((d1, true) :: (d2, true) :: rest) true 0 maxChain best =
      .error (.panic
        "P1 prefix_compare: assert!(max_len >= 3 && s1.len() >= max_len && s2.len() >= max_len && best_len < max_len)") := by
  unfold matchLoopC
  rw [need_bind rfl, if_neg (by omega), if_neg (by simp), need_bind (inI32_of _ (by omega) (by omega)),
    need_bind hd1s, prefixCompareChk_ok plain (startPos - d1) startPos 0 3 (by omega) (by omega) hsz (by omega)]
  simp only [R_ok_bind, prefixCompare_three plain (startPos - d1) startPos 0 (by omega) h0 h1 h2]
  rw [if_pos (by omega), need_bind (by omega), if_neg (by omega), if_neg (by simp), need_bind (by omega),
    if_neg (by omega)]
  unfold matchLoopC
  rw [need_bind rfl, if_neg (by simp), if_neg (by omega), need_bind (inI32_of _ (by omega) (by omega)),
    need_bind hd2s, prefixCompareChk_P1 plain (startPos - d2) startPos 3 3 (by omega)]
  rfl

/-- … and WITH the break the same situation answers the 3-byte match -/
theorem prefix_compare_defect_repaired (p : Params) (plain : Array Nat)
    (startPos nice hop0 hop1 d1 maxChain : Nat) (rest : List (Nat × Bool)) (best : MatchResult)
    (hsz : startPos + 3 ≤ plain.size) (hs : startPos < 2147483648)
    (hd1 : d1 ≤ hop0) (hd1s : d1 ≤ startPos)
    (h0 : byteAt plain (startPos - d1) = byteAt plain startPos)
    (h1 : byteAt plain (startPos - d1 + 1) = byteAt plain (startPos + 1))
    (h2 : byteAt plain (startPos - d1 + 2) = byteAt plain (startPos + 2))
    (hfar : d1 > p.maxDist3) :
    matchLoopC true p plain startPos 3 nice hop0 hop1 ((d1, true) :: rest) true 0 maxChain best =
      .ok (.success 3 d1) := by
  unfold matchLoopC
  rw [need_bind rfl, if_neg (by omega), if_neg (by simp), need_bind (inI32_of _ (by omega) (by omega)),
    need_bind hd1s, prefixCompareChk_ok plain (startPos - d1) startPos 0 3 (by omega) (by omega) hsz (by omega)]
  simp only [R_ok_bind, prefixCompare_three plain (startPos - d1) startPos 0 (by omega) h0 h1 h2]
  rw [if_pos (by omega), need_bind (by omega), if_neg (by omega), if_pos (by simp)]

-- ---------------------------------------------------------------------------------------------
-- history (ii): max_chain underflow at depth 0; EstimatorRange does not exclude it

theorem prefixCompare_zero_of_ne (plain : Array Nat) (a b bestLen maxLen : Nat)
    (h : byteAt plain (a + bestLen) ≠ byteAt plain (b + bestLen)) :
    prefixCompare plain a b bestLen maxLen = 0 := by
  unfold prefixCompare
  rw [if_pos h]

/-- History (ii), M13: entering the loop of `match_token_offset` with `max_depth = 0` (what
    `predict_token` passes for a "good" first match when lazy matching, `zlib_compatible` and
    `max_chain < 4` are combined: `max_chain >> 2 = 0`) underflows `max_chain -= 1` at the first
    candidate that is in range and does not end the search (here: one that differs at `best_len`).
    With or without the break. -/
theorem max_chain_underflow_at_depth0 (bf : Bool) (p : Params) (plain : Array Nat)
    (startPos maxLen nice hop0 hop1 d bestLen : Nat) (rest : List (Nat × Bool)) (best : MatchResult)
    (h3 : 3 ≤ maxLen) (hsz : startPos + maxLen ≤ plain.size) (hs : startPos < 2147483648)
    (hd : d ≤ hop0) (hds : d ≤ startPos) (hb : bestLen < maxLen)
    (hne : byteAt plain (startPos - d + bestLen) ≠ byteAt plain (startPos + bestLen)) :
    matchLoopC bf p plain startPos maxLen nice hop0 hop1 ((d, true) :: rest) true bestLen 0 best =
      .error (.panic "M13 match_token_offset: max_chain -= 1 (u32)") := by
  unfold matchLoopC
  rw [need_bind rfl, if_neg (by omega), if_neg (by simp), need_bind (inI32_of _ (by omega) (by omega)),
    need_bind hds, prefixCompareChk_ok plain (startPos - d) startPos bestLen maxLen h3 (by omega) hsz hb]
  simp only [R_ok_bind, prefixCompare_zero_of_ne plain (startPos - d) startPos bestLen maxLen hne]
  rw [if_neg (by omega)]
  rfl

/-- the depth `predict_token` passes to `match_token_1` is 0 exactly in the excluded combination -/
theorem lazy_depth_zero (p : Params) (len : Nat) (hz : p.zlibCompatible = true) (hg : len ≥ p.goodLength)
    (hc : p.maxChain < 4) :
    (if p.zlibCompatible ∧ len ≥ p.goodLength then p.maxChain >>> 2 else p.maxChain) = 0 := by
  rw [if_pos ⟨hz, hg⟩, Nat.shiftRight_eq_div_pow]
  exact Nat.div_eq_of_lt (by simpa using hc)

/-- `EstimatorRange` does not imply `LazyDepthOK` (witness: lazy, zlib_compatible, max_chain = 1,
    good_length = 4, max_lazy = 258); on the 8-byte plaintext 0 1 1 1 1 1 0 0 tokenised as
    lit 0, lit 1, ref(4,1), lit 0, lit 0 this vector makes `encStreamChk` answer the M13 panic
    (`#eval` in `Audit/ChainsSafe.lean`) -/
def lazyDepthWitness : Params :=
  { strategy := 0, huffStrategy := 0, zlibCompatible := true, windowBits := 15, hashAlg := 1, hashShift := 5,
    hashMask := 32767, maxTokenCount := 16386, maxDist3 := 4096, veryFar := false, matchesToStart := false,
    isLazy := true, goodLength := 4, maxLazy := 258, niceLength := 258, maxChain := 1, minLen := 3,
    addPolicy := 0, addLimit := 0 }

theorem estimatorRange_not_lazyDepthOK : EstimatorRange lazyDepthWitness ∧ ¬ LazyDepthOK lazyDepthWitness := by
  refine ⟨by decide, fun h => ?_⟩
  have := h rfl rfl ⟨4, by decide⟩
  revert this
  decide

/-- reconstruction side, for the record: `hop_match(len, ..)` with a length below 3 (the length comes
    from the correction stream: `decode_difference(predicted_len, correction)`) trips the assertion
    of `prefix_compare` at the first candidate in range — a panic on malformed correction data, also
    in release builds. On the corrections `predict_block` writes for a valid stream `len ≥ 3`. -/
theorem hopMatch_short_len_panics (plain : Array Nat) (pos maxDist len hops d cur : Nat)
    (rest : List (Nat × Bool)) (hl : 1 ≤ len ∧ len < 3) (hd : d ≤ maxDist) (hm : maxDist ≤ pos)
    (hpos : pos ≤ plain.size) (hsz : plain.size < 2147483648) :
    hopMatchLoopChk plain pos maxDist len hops ((d, true) :: rest) cur = .error (.panic
      "P1 prefix_compare: assert!(max_len >= 3 && s1.len() >= max_len && s2.len() >= max_len && best_len < max_len)") := by
  unfold hopMatchLoopChk
  rw [need_bind rfl, if_neg (by omega), curCharsChk_ok plain pos (-(d : Int)) (by omega) (by omega) hsz]
  simp only [R_ok_bind]
  rw [curCharsChk_ok plain pos 0 (by omega) (by omega) hsz]
  simp only [R_ok_bind]
  rw [need_bind (by omega)]
  unfold prefixCompareChk need
  rw [if_neg (by omega)]
  rfl

-- ---------------------------------------------------------------------------------------------
-- agreement of the checked match_token_offset with Chains.matchToken

/-- loop state of `matchToken`: (early return value, max_chain, best_len, best_match, first) -/
abbrev MTState := Option MatchResult × Nat × Nat × MatchResult × Bool

/-- the body of the `for dist in iterate ..` loop of `Chains.matchToken`, as the `do` notation
    elaborates it (`matchTokenC_eq` checks that it is that body, by `rfl`) -/
def mtBody (p : Params) (plain : Array Nat) (sp maxLen nice hop0 hop1 : Nat) (dist : Nat) (s : MTState) :
    Id (ForInStep MTState) :=
  let ml := prefixCompare plain (sp - dist) sp s.2.2.1 maxLen
  let mc' := if s.2.1 = 0 then 4294967295 else s.2.1 - 1
  let rest (first' : Bool) : Id (ForInStep MTState) :=
    if ml > s.2.2.1 then
      if (decide (ml ≥ nice) && (decide (ml > 3) || decide (dist ≤ p.maxDist3))) = true then
        pure (.done (some (.success ml dist), s.2.1, s.2.2.1, s.2.2.2.1, first'))
      else if ml ≥ maxLen then pure (.done (none, s.2.1, ml, .success ml dist, first'))
      else if mc' = 0 then pure (.done (some (.success ml dist), mc', ml, .success ml dist, first'))
      else pure (.yield (none, mc', ml, .success ml dist, first'))
    else if mc' = 0 then pure (.done (some s.2.2.2.1, mc', s.2.2.1, s.2.2.2.1, first'))
    else pure (.yield (none, mc', s.2.2.1, s.2.2.2.1, first'))
  if s.2.2.2.2 = true then
    if dist > hop0 then pure (.done (some .none, s.2.1, s.2.2.1, s.2.2.2.1, false))
    else rest false
  else if dist > hop1 then pure (.done (none, s.2.1, s.2.2.1, s.2.2.2.1, s.2.2.2.2))
  else rest s.2.2.2.2

def mtPost (s : MTState) : MatchResult :=
  match s.1 with
  | some r => r
  | none => s.2.2.2.1

theorem forIn_congr_body {α β : Type} (l : List α) (init : β) (f g : α → β → Id (ForInStep β))
    (h : ∀ a b, f a b = g a b) : forIn l init f = forIn l init g := by
  have : f = g := funext fun a => funext fun b => h a b
  rw [this]

theorem need_eq_ok_iff {c : Prop} [Decidable c] {s : String} : need c s = .ok () ↔ c := by
  unfold need
  split <;> simp_all

theorem need_bind_ok {c : Prop} [Decidable c] {s : String} {β : Type} {f : Unit → R β} {b : β}
    (h : (need c s >>= f) = .ok b) : c ∧ f () = .ok b := by
  by_cases hc : c
  · rw [need_bind hc] at h; exact ⟨hc, h⟩
  · unfold need at h; rw [if_neg hc] at h; cases h

/-- the checked loop and the loop of `Chains.matchToken` agree wherever the checked loop answers -/
theorem matchLoop_agree (p : Params) (plain : Array Nat) (sp maxLen nice hop0 hop1 : Nat) :
    ∀ (raw : List (Nat × Bool)) (first : Bool) (bestLen maxChain : Nat) (best r : MatchResult),
      matchLoopC true p plain sp maxLen nice hop0 hop1 raw first bestLen maxChain best = .ok r →
      mtPost (Id.run (forIn (raw.map Prod.fst) ((none, maxChain, bestLen, best, first) : MTState)
        (mtBody p plain sp maxLen nice hop0 hop1))) = r := by
  intro raw
  induction raw with
  | nil =>
    intro first bestLen maxChain best r h
    simp only [matchLoopC] at h
    cases h
    simp [mtPost]
  | cons x rest ih =>
    intro first bestLen maxChain best r h
    obtain ⟨dist, okd⟩ := x
    unfold matchLoopC at h
    obtain ⟨_, h⟩ := need_bind_ok h
    rw [List.map_cons, List.forIn_cons]
    by_cases c1 : first = true ∧ dist > hop0
    · rw [if_pos c1] at h
      cases h
      simp [mtBody, c1.1, c1.2, mtPost]
    rw [if_neg c1] at h
    by_cases c2 : first = false ∧ dist > hop1
    · rw [if_pos c2] at h
      cases h
      simp [mtBody, c2.1, c2.2, mtPost]
    rw [if_neg c2] at h
    obtain ⟨_, h⟩ := need_bind_ok h
    obtain ⟨_, h⟩ := need_bind_ok h
    -- prefixCompareChk answered ok
    cases hpc : prefixCompareChk plain (sp - dist) sp bestLen maxLen with
    | error e => rw [hpc] at h; cases h
    | ok u =>
      rw [hpc] at h
      simp only [R_ok_bind] at h
      generalize hml : prefixCompare plain (sp - dist) sp bestLen maxLen = ml at h
      have hfirst : (first = true ∧ ¬ dist > hop0) ∨ (first = false ∧ ¬ dist > hop1) := by
        cases first <;> simp_all
      by_cases c3 : ml > bestLen
      · rw [if_pos c3] at h
        obtain ⟨_, h⟩ := need_bind_ok h
        by_cases c4 : ml ≥ nice ∧ (ml > 3 ∨ dist ≤ p.maxDist3)
        · rw [if_pos c4] at h
          cases h
          rcases hfirst with ⟨hf, hd⟩ | ⟨hf, hd⟩ <;> simp [mtBody, hf, hd, hml, c3, c4, mtPost]
        rw [if_neg c4] at h
        by_cases c5 : ml ≥ maxLen
        · rw [if_pos ⟨trivial, c5⟩] at h
          cases h
          rcases hfirst with ⟨hf, hd⟩ | ⟨hf, hd⟩ <;> simp [mtBody, hf, hd, hml, c3, c4, c5, mtPost]
        rw [if_neg (by simp [c5])] at h
        obtain ⟨hmc, h⟩ := need_bind_ok h
        have hmc0 : ¬ maxChain = 0 := by omega
        by_cases c6 : maxChain - 1 = 0
        · rw [if_pos c6] at h
          cases h
          rcases hfirst with ⟨hf, hd⟩ | ⟨hf, hd⟩ <;> simp [mtBody, hf, hd, hml, c3, c4, c5, c6, hmc0, mtPost]
        · rw [if_neg c6] at h
          have := ih false ml (maxChain - 1) (.success ml dist) r h
          have hstep : mtBody p plain sp maxLen nice hop0 hop1 dist (none, maxChain, bestLen, best, first) =
              pure (ForInStep.yield (none, maxChain - 1, ml, .success ml dist, false)) := by
            rcases hfirst with ⟨hf, hd⟩ | ⟨hf, hd⟩ <;> simp [mtBody, hf, hd, hml, c3, c4, c5, c6, hmc0]
          rw [hstep]
          exact this
      · rw [if_neg c3] at h
        obtain ⟨hmc, h⟩ := need_bind_ok h
        have hmc0 : ¬ maxChain = 0 := by omega
        by_cases c6 : maxChain - 1 = 0
        · rw [if_pos c6] at h
          cases h
          rcases hfirst with ⟨hf, hd⟩ | ⟨hf, hd⟩ <;> simp [mtBody, hf, hd, hml, c3, c6, hmc0, mtPost]
        · rw [if_neg c6] at h
          have := ih false bestLen (maxChain - 1) best r h
          have hstep : mtBody p plain sp maxLen nice hop0 hop1 dist (none, maxChain, bestLen, best, first) =
              pure (ForInStep.yield (none, maxChain - 1, bestLen, best, false)) := by
            rcases hfirst with ⟨hf, hd⟩ | ⟨hf, hd⟩ <;> simp [mtBody, hf, hd, hml, c3, c6, hmc0]
          rw [hstep]
          exact this

/-- the hop limits of `match_token_offset` (`none`: the strategy never matches) -/
def mtLimits (p : Params) (sp : Nat) : Option (Nat × Nat) :=
  let maxDistToStart := sp - (if p.matchesToStart then 0 else 1)
  let windowBytes := 1 <<< p.windowBits
  if p.veryFar then some (min maxDistToStart windowBytes, min maxDistToStart windowBytes)
  else if p.strategy = 2 ∨ p.strategy = 3 then Option.none
  else if p.strategy = 1 then some (1, 1)
  else
    let maxDist := windowBytes - 262 + 1
    some (min maxDistToStart maxDist, min maxDistToStart (maxDist - 1))

/-- `Chains.matchToken` with its loop named -/
theorem matchToken_eq (p : Params) (plain : Array Nat) (c : Chain) (pos offset prevLen maxDepth : Nat) :
    matchToken p plain c pos offset prevLen maxDepth =
      if p.hashAlg = 0 then .none
      else if min (plain.size - (pos + offset)) 258 < max (prevLen + 1) (max (numHashBytes p) 3) then .none
      else match mtLimits p (pos + offset) with
        | none => .none
        | some (hop0, hop1) =>
            mtPost (Id.run (forIn (iterate p plain c pos offset)
              ((none, maxDepth, prevLen, MatchResult.none, true) : MTState)
              (mtBody p plain (pos + offset) (min (plain.size - (pos + offset)) 258)
                (min p.niceLength (min (plain.size - (pos + offset)) 258)) hop0 hop1))) := by
  unfold matchToken mtLimits
  simp only []
  split
  · rfl
  split
  · rfl
  split
  · rename_i heq
    rw [heq]
  · rename_i hop0 hop1 heq
    rw [heq]
    simp only []
    rw [forIn_congr_body _ _ _ (mtBody p plain (pos + offset) (min (plain.size - (pos + offset)) 258)
        (min p.niceLength (min (plain.size - (pos + offset)) 258)) hop0 hop1) (fun dist s => by
          unfold mtBody
          simp only [])]
    generalize forIn (iterate p plain c pos offset) ((none, maxDepth, prevLen, MatchResult.none, true) : MTState)
      (mtBody p plain (pos + offset) (min (plain.size - (pos + offset)) 258)
        (min p.niceLength (min (plain.size - (pos + offset)) 258)) hop0 hop1) = X
    revert X
    intro (X : MTState)
    obtain ⟨ret, rest⟩ := X
    cases ret <;> rfl

theorem R_bind_ok_unit {β : Type} {x : R Unit} {f : Unit → R β} {b : β} (h : (x >>= f) = .ok b) :
    x = .ok () ∧ f () = .ok b := by
  cases x with
  | error e => cases h
  | ok u => exact ⟨rfl, h⟩

/-- AGREEMENT: whenever the checked `match_token_offset` answers, it answers what the validated
    transcription `Chains.matchToken` answers — the checker follows the same control flow -/
theorem matchTokenC_eq (p : Params) (plain : Array Nat) (c : Chain) (pos offset prevLen maxDepth : Nat)
    (r : MatchResult) (h : matchTokenC true p plain c pos offset prevLen maxDepth = .ok r) :
    r = matchToken p plain c pos offset prevLen maxDepth := by
  rw [matchToken_eq]
  unfold matchTokenC at h
  by_cases h0 : p.hashAlg = 0
  · rw [if_pos h0] at h ⊢; cases h; rfl
  rw [if_neg h0] at h ⊢
  obtain ⟨_, h⟩ := need_bind_ok h
  obtain ⟨_, h⟩ := need_bind_ok h
  obtain ⟨_, h⟩ := need_bind_ok h
  simp only [] at h
  by_cases hml : min (plain.size - (pos + offset)) 258 < max (prevLen + 1) (max (numHashBytes p) 3)
  · rw [if_pos hml] at h ⊢; cases h; rfl
  rw [if_neg hml] at h ⊢
  obtain ⟨_, h⟩ := need_bind_ok h
  have key : ∀ hop0 hop1, (do
        curCharsChk plain pos offset
        iterateChk p plain c pos offset
        matchLoopC true p plain (pos + offset) (min (plain.size - (pos + offset)) 258)
          (min p.niceLength (min (plain.size - (pos + offset)) 258)) hop0 hop1
          (iterateRaw p plain c pos offset) true prevLen maxDepth .none) = .ok r →
      r = mtPost (Id.run (forIn (iterate p plain c pos offset)
              ((none, maxDepth, prevLen, MatchResult.none, true) : MTState)
              (mtBody p plain (pos + offset) (min (plain.size - (pos + offset)) 258)
                (min p.niceLength (min (plain.size - (pos + offset)) 258)) hop0 hop1))) := by
    intro hop0 hop1 hk
    obtain ⟨_, hk⟩ := R_bind_ok_unit hk
    obtain ⟨_, hk⟩ := R_bind_ok_unit hk
    have := matchLoop_agree p plain _ _ _ hop0 hop1 _ _ _ _ _ r hk
    rw [iterateRaw_fst] at this
    exact this.symm
  unfold mtLimits
  simp only []
  by_cases hvf : p.veryFar = true
  · simp only [hvf, if_true, R_ok_bind] at h ⊢
    exact key _ _ h
  · simp only [hvf, Bool.false_eq_true, if_false] at h ⊢
    by_cases hs23 : p.strategy = 2 ∨ p.strategy = 3
    · rw [if_pos hs23] at h ⊢
      simp only [R_ok_bind] at h
      cases h; rfl
    rw [if_neg hs23] at h ⊢
    by_cases hs1 : p.strategy = 1
    · rw [if_pos hs1] at h ⊢
      simp only [R_ok_bind] at h
      exact key 1 1 h
    rw [if_neg hs1] at h ⊢
    simp only [bind_assoc] at h
    obtain ⟨_, h⟩ := need_bind_ok h
    obtain ⟨_, h⟩ := need_bind_ok h
    obtain ⟨_, h⟩ := need_bind_ok h
    simp only [R_ok_bind] at h
    exact key _ _ h

/-- `match_token_offset` under the hypotheses of `matchTokenC_ok`: no panic, and the answer of the
    validated transcription -/
theorem matchTokenC_spec (p : Params) (plain : Array Nat) (c : Chain) (pos offset prevLen maxDepth : Nat)
    (hps : ParamsSafe p) (hoff : offset ≤ 1) (hsz : plain.size < 2147483648)
    (hpos : pos + offset ≤ plain.size) (hp1 : 1 ≤ pos) (hprev : prevLen < 4294967295)
    (hdepth : 1 ≤ maxDepth) (hit : IterSafe c.totalShift pos)
    (ht : TableInv c.t ((pos : Int) - c.totalShift))
    (ht3 : p.hashAlg = 3 → TableInv c.t3 ((pos : Int) - c.totalShift)) :
    matchTokenC true p plain c pos offset prevLen maxDepth = .ok (matchToken p plain c pos offset prevLen maxDepth) := by
  obtain ⟨r, hr⟩ := matchTokenC_ok p plain c pos offset prevLen maxDepth hps hoff hsz hpos hp1 hprev hdepth
    hit ht ht3
  rw [hr, matchTokenC_eq p plain c pos offset prevLen maxDepth r hr]

end Preflate.Proofs
