/-
SIZE OF THE CORRECTION DATA, layer 3 in its coarse form: the NUMBER of operations `encStream` emits for
a valid stream, for ANY predictor:

    ops.length ≤ 4 * totalTokens blocks + 668 * blocks.length + 2

(a token: flag, length correction, distance correction, irregular-258 flag; a block: EOF flag, type,
token count, and for a dynamic header 2 + 2 + 2 for the three counts, 2 per run-length item — at most
320 items — and one per code-length code length — at most 19; the stream end: 2).

Not used by the composition (`corr_size_le` goes through the finer `encStream_cost`, which weighs the
operations of a dynamic header against the bits that header occupied in the input; the count form would
cost a factor of about 668 · 63 per block).
-/
import Preflate.Proofs.CorrBoundPredict
namespace Preflate.Proofs
open Preflate Gen

variable {H : Type}

theorem encRefTail_count (P : Pred H) (plain : Array Nat) (ops0 : List Op) (plen pdist : Nat) (s2 : PState H)
    (len dist : Nat) (irr : Bool) :
    Post AnyFail (fun p => p.1.length ≤ ops0.length + 3)
      (encRefTail P plain ops0 plen pdist s2 len dist irr) := by
  have h3 : (if len = 258 then [Op.mis M_IRREGULAR258 irr] else []).length ≤ 1 := by
    split <;> simp
  have hfin : ∀ (ops2 : List Op), ops2.length = 1 →
      (fun (p : List Op × PState H) => p.1.length ≤ ops0.length + 3)
        (ops0 ++ [Op.corr C_LEN (encDiff plen len)] ++ ops2 ++
          (if len = 258 then [Op.mis M_IRREGULAR258 irr] else []),
        commit P plain s2 (Token.ref len dist irr)) := by
    intro ops2 h2
    simp only [List.length_append, List.length_cons, List.length_nil]
    omega
  unfold encRefTail
  simp only
  split
  · cases calcHops P plain s2 len dist with
    | error e => exact Post.anyErr _
    | ok h => exact .ok _ (hfin _ rfl)
  · split
    · cases calcHops P plain s2 len dist with
      | error e => exact Post.anyErr _
      | ok h => exact .ok _ (hfin _ rfl)
    · exact .ok _ (hfin _ rfl)

theorem encTok_count (P : Pred H) (plain : Array Nat) (s : PState H) (t : Token) :
    Post AnyFail (fun p => p.1.length ≤ 4) (encTok P plain s t) := by
  unfold encTok
  rcases hp : P.predictTok plain s with ⟨pt, pend⟩
  simp only
  cases t with
  | lit b => exact .ok _ (by simp)
  | ref len dist irr =>
    simp only
    refine Post.bind (Q := fun (q : List Op × Nat × Nat × PState H) => q.1.length = 1) ?_
      (fun _ h => h) ?_
    · cases pt with
      | lit =>
        simp only
        cases hr : P.repredictTok plain { s with pending := pend } with
        | error e => exact Post.anyErr _
        | ok ld => exact .ok _ rfl
      | ref l d => exact .ok _ rfl
    · intro ⟨ops0, plen, pdist, s2⟩ h0
      refine Post.mono (encRefTail_count P plain ops0 plen pdist s2 len dist irr) (fun _ h => h) ?_
      intro p h1
      simp only at h0
      omega

theorem encToks_count (P : Pred H) (plain : Array Nat) :
    ∀ (ts : List Token) (s : PState H),
      Post AnyFail (fun p => p.1.length ≤ 4 * ts.length) (encToks P plain s ts) := by
  intro ts
  induction ts with
  | nil => intro s; exact .ok _ (by simp)
  | cons t ts ih =>
    intro s
    rw [encToks]
    refine Post.bind (encTok_count P plain s t) (fun _ h => h) ?_
    intro ⟨a, s1⟩ ha
    refine Post.bind (ih s1) (fun _ h => h) ?_
    intro ⟨b, s2⟩ hb2
    refine .ok _ ?_
    simp only [List.length_append, List.length_cons] at *
    omega

theorem encLdTrees_count : ∀ (items : List RleItem) (syms : List Nat) (prev : Option Nat),
    Post AnyFail (fun ops => ops.length = 2 * items.length) (encLdTrees syms prev items) := by
  intro items
  induction items with
  | nil => intro syms prev; exact .ok _ (by simp)
  | cons it rest ih =>
    intro syms prev
    rw [encLdTrees]
    split
    · exact Post.anyErr _
    · split
      · exact Post.anyErr _
      · simp only
        refine Post.bind (ih (syms.drop (itemSpan it)) _) (fun _ h => h) ?_
        intro r hr
        refine .ok _ ?_
        simp only [List.length_cons]
        omega

theorem encTcLengths_length (tc cl : List Nat) : ∀ (n i : Nat), (encTcLengths tc cl n i).length = n := by
  intro n
  induction n with
  | zero => intro i; simp [encTcLengths]
  | succ n ih => intro i; simp [encTcLengths, ih]

theorem items_length_le_span : ∀ (items : List RleItem), (∀ it ∈ items, Tree.ItemOk it) →
    items.length ≤ (items.map itemSpan).sum := by
  intro items
  induction items with
  | nil => intro _; simp
  | cons it rest ih =>
    intro h
    have h1 := Tree.itemSpan_pos it (h it (List.mem_cons_self ..))
    have h2 := ih (fun it' h' => h it' (List.mem_cons_of_mem _ h'))
    simp only [List.length_cons, List.map_cons, List.sum_cons]
    omega

theorem encTree_count (P : Pred H) (h : Header) (hv : HeaderValid h) (freq : List Nat × List Nat) :
    Post AnyFail (fun ops => ops.length ≤ 665) (encTree P h freq) := by
  unfold encTree
  generalize P.calcBitLengths freq.1 15 = bl0
  generalize P.calcBitLengths freq.2 15 = dl0
  simp only
  generalize (if bl0.length ≠ h.numLiterals then resizeTo bl0 h.numLiterals else bl0) = bl1
  generalize (if dl0.length ≠ h.numDist then resizeTo dl0 h.numDist else dl0) = dl1
  split
  · exact Post.anyErr _
  · refine Post.bind (encLdTrees_count h.items (bl1 ++ dl1) none) (fun _ h => h) ?_
    intro c hc
    refine .ok _ ?_
    have hi := items_length_le_span h.items hv.items_kind
    have hs := hv.items_sum
    have h1 := hv.lit_hi
    have h2 := hv.dist_hi
    have h3 := hv.cl_hi
    simp only [List.length_append, List.length_cons, List.length_nil, encTcLengths_length]
    repeat' split
    all_goals simp only [List.length_cons, List.length_nil]
    all_goals omega

theorem encTokBlock_count (P : Pred H) (plain : Array Nat) (s : PState H) (btn : Nat)
    (ts : List Token) (last : Bool) (tree : R (List Op)) (T : Nat)
    (ht : Post AnyFail (fun ops => ops.length ≤ T) tree) :
    Post AnyFail (fun p => p.1.length ≤ 2 + 4 * ts.length + T)
      (encTokBlock P plain s btn ts last tree) := by
  unfold encTokBlock
  simp only
  split
  · exact Post.anyErr _
  · refine Post.bind (encToks_count P plain ts s) (fun _ h => h) ?_
    intro ⟨tokOps, s1⟩ htok
    refine Post.bind ht (fun _ h => h) ?_
    intro treeOps htree
    refine .ok _ ?_
    simp only [List.length_cons, List.length_append] at htok ⊢
    omega

/-- the part of `ValidBlock` the count needs -/
def BlockHdrValid : Block → Prop
  | .dynamic h _ => HeaderValid h
  | _ => True

theorem encBlock_count (P : Pred H) (plain : Array Nat) (s : PState H) (b : Block)
    (last : Bool) (hv : BlockHdrValid b) :
    Post AnyFail (fun p => p.1.length ≤ 4 * (blockTokens b).length + 667) (encBlock P plain s b last) := by
  cases b with
  | stored pad data => exact .ok _ (by simp)
  | fixed ts =>
    rw [encBlock_fixed]
    refine Post.mono (encTokBlock_count P plain _ _ ts last _ 0 (.ok _ (by simp))) (fun _ h => h) ?_
    intro p hp
    simp only [blockTokens]
    omega
  | dynamic h ts =>
    rw [encBlock_dynamic]
    refine Post.mono (encTokBlock_count P plain _ _ ts last _ _ (encTree_count P h hv _))
      (fun _ h => h) ?_
    intro p hp
    simp only [blockTokens]
    omega

theorem encBlocks_count (P : Pred H) (plain : Array Nat) :
    ∀ (blocks : List Block) (s : PState H), (∀ b ∈ blocks, BlockHdrValid b) →
      Post AnyFail (fun p => p.1.length ≤ 4 * totalTokens blocks + 668 * blocks.length)
        (encBlocks P plain s blocks) := by
  intro blocks
  induction blocks with
  | nil => intro s _; exact .ok _ (by simp [totalTokens])
  | cons b rest ih =>
    intro s hv
    rw [encBlocks]
    simp only
    refine Post.bind (encBlock_count P plain s b rest.isEmpty (hv b (List.mem_cons_self ..)))
      (fun _ h => h) ?_
    intro ⟨a, s1⟩ ha
    refine Post.bind (ih s1 (fun b' h' => hv b' (List.mem_cons_of_mem _ h'))) (fun _ h => h) ?_
    intro ⟨r, s2⟩ hr
    refine .ok _ ?_
    have heof : (if s.eof plain = true then [Op.mis M_EOF true] else []).length ≤ 1 := by
      split <;> simp
    simp only [List.length_append, List.length_cons, totalTokens, List.map_cons, List.sum_cons] at ha hr ⊢
    omega

theorem blocksHdrValid_of_valid (plain : Array Nat) : ∀ (blocks : List Block) (pos : Nat),
    ValidBlocks plain pos blocks → ∀ b ∈ blocks, BlockHdrValid b := by
  intro blocks
  induction blocks with
  | nil => intro _ _ b hb; cases hb
  | cons b0 rest ih =>
    intro pos hv b hb
    obtain ⟨hv0, hvr⟩ := hv
    rcases List.mem_cons.mp hb with rfl | hb
    · cases b with
      | stored pad data => trivial
      | fixed ts => trivial
      | dynamic h ts => exact hv0.2.2
    · exact ih _ hvr b hb

/-- **layer 3, count form, any predictor** -/
theorem encStream_ops_count_le (P : Pred H) (plain : Array Nat) (blocks : List Block) (pad : Nat)
    (hv : StreamValid plain blocks) (ops : List Op) (he : encStream P plain blocks pad = .ok ops) :
    ops.length ≤ 4 * totalTokens blocks + 668 * blocks.length + 2 := by
  obtain ⟨_, hvb, _⟩ := hv
  have h : Post AnyFail (fun ops => ops.length ≤ 4 * totalTokens blocks + 668 * blocks.length + 2)
      (encStream P plain blocks pad) := by
    unfold encStream
    simp only
    refine Post.bind (encBlocks_count P plain blocks ⟨P.init, none, 0, 0⟩
      (blocksHdrValid_of_valid plain blocks 0 hvb)) (fun _ h => h) ?_
    intro ⟨ops, s⟩ hops
    simp only at hops ⊢
    split
    · exact Post.anyErr _
    · refine .ok _ ?_
      simp only [List.length_append, List.length_cons, List.length_nil]
      omega
  rw [he] at h
  have := Post.ok_iff.mp h
  exact this

end Preflate.Proofs
