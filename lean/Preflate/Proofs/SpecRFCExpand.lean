/-
C03 (RFC reading): the two readings of the run-length items of a dynamic header.

`expandItems items 0` is the library's reading (a 16 repeats the last EXPLICIT length),
`SpecRFC.expandRFC items` the RFC's (a 16 repeats the last element of the sequence so far).
`expand_rel`: where the RFC reading is defined, both have the same length, every RFC entry is the
library's entry or 0, and every position where they differ
  * repeats an explicit length found at an EARLIER position on which both readings agree (`src`), and
  * has a neighbour that differs too and holds the same length (`adj`; a repeat makes ≥ 2 copies).
-/
import Preflate.Model.SpecRFC
namespace Preflate.Proofs.RFC
open Preflate SpecRFC

/-- the RFC reading in state-passing form: `last` is the last element of the sequence so far -/
def expandFrom : List RleItem → Option Nat → Option (List Nat)
  | [], _ => some []
  | ⟨k, d⟩ :: rest, last =>
      if k = 0 then (expandFrom rest (some d)).map (d :: ·)
      else if k = 16 then
        match last with
        | none => none
        | some v => (expandFrom rest (some v)).map (List.replicate d v ++ ·)
      else (expandFrom rest (if d = 0 then last else some 0)).map (List.replicate d 0 ++ ·)

theorem getLast?_append_replicate (acc : List Nat) (d v : Nat) :
    (acc ++ List.replicate d v).getLast? = if d = 0 then acc.getLast? else some v := by
  cases d with
  | zero => simp
  | succ d => simp [List.replicate_succ', ← List.append_assoc]

theorem expandAcc_eq (items : List RleItem) : ∀ acc : List Nat,
    expandAcc items acc = (expandFrom items acc.getLast?).map (acc ++ ·) := by
  induction items with
  | nil => intro acc; simp [expandAcc, expandFrom]
  | cons it rest ih =>
    intro acc
    obtain ⟨k, d⟩ := it
    unfold expandAcc expandFrom
    by_cases hk : k = 0
    · simp only [hk, if_true]
      rw [ih, Option.map_map]
      simp only [List.getLast?_append, List.getLast?_singleton, Option.some_or]
      congr 1
      funext x
      simp
    · simp only [hk, if_false]
      by_cases h16 : k = 16
      · simp only [h16, if_true]
        cases hl : acc.getLast? with
        | none => rfl
        | some v =>
          simp only []
          rw [ih, Option.map_map, getLast?_append_replicate, hl]
          have : (if d = 0 then some v else some v) = some v := by split <;> rfl
          rw [this]
          congr 1
          funext x
          simp
      · simp only [h16, if_false]
        rw [ih, Option.map_map, getLast?_append_replicate]
        congr 1
        funext x
        simp

theorem expandRFC_eq (items : List RleItem) : expandRFC items = expandFrom items none := by
  unfold expandRFC
  rw [expandAcc_eq]
  simp only [List.getLast?_nil, List.nil_append]
  cases expandFrom items none <;> rfl

-- ---------------------------------------------------------------------------------------------

theorem getD_rep_append (d a : Nat) (L : List Nat) (i : Nat) :
    (List.replicate d a ++ L).getD i 0 = if i < d then a else L.getD (i - d) 0 := by
  simp only [List.getD_eq_getElem?_getD]
  by_cases h : i < d
  · rw [if_pos h, List.getElem?_append_left (by simpa using h)]
    simp [h]
  · rw [if_neg h, List.getElem?_append_right (by simpa using h)]
    simp

/-- relation between the library's reading `C` and the RFC's reading `R` of a suffix of the items,
    `prev` being the last explicit length before that suffix -/
structure Rel (prev : Nat) (C R : List Nat) : Prop where
  len : R.length = C.length
  pw : ∀ i, R.getD i 0 = C.getD i 0 ∨ R.getD i 0 = 0
  src : ∀ i, R.getD i 0 ≠ C.getD i 0 →
    C.getD i 0 = prev ∨ ∃ e, e < i ∧ R.getD e 0 = C.getD e 0 ∧ C.getD e 0 = C.getD i 0
  adj : ∀ i, R.getD i 0 ≠ C.getD i 0 →
    ∃ p, (p + 1 = i ∨ i + 1 = p) ∧ R.getD p 0 ≠ C.getD p 0 ∧ C.getD p 0 = C.getD i 0

theorem Rel.nil (prev : Nat) : Rel prev [] [] :=
  ⟨rfl, fun _ => Or.inl rfl, fun _ h => absurd rfl h, fun _ h => absurd rfl h⟩

theorem Rel.cons {d : Nat} {C R : List Nat} (h : Rel d C R) (prev : Nat) :
    Rel prev (d :: C) (d :: R) := by
  refine ⟨by simp [h.len], ?_, ?_, ?_⟩
  · intro i
    cases i with
    | zero => left; rfl
    | succ i => simpa using h.pw i
  · intro i hi
    cases i with
    | zero => exact absurd rfl hi
    | succ i =>
      simp only [List.getD_cons_succ] at hi ⊢
      right
      rcases h.src i hi with h0 | ⟨e, he, h1, h2⟩
      · exact ⟨0, by omega, rfl, by simpa using h0.symm⟩
      · exact ⟨e + 1, by omega, by simpa using h1, by simpa using h2⟩
  · intro i hi
    cases i with
    | zero => exact absurd rfl hi
    | succ i =>
      simp only [List.getD_cons_succ] at hi ⊢
      obtain ⟨p, hp, h1, h2⟩ := h.adj i hi
      exact ⟨p + 1, by omega, by simpa using h1, by simpa using h2⟩

theorem Rel.block {prev : Nat} {C R : List Nat} (h : Rel prev C R) (d a b : Nat)
    (hab : a = b ∨ (b = 0 ∧ a = prev ∧ 2 ≤ d)) :
    Rel prev (List.replicate d a ++ C) (List.replicate d b ++ R) := by
  refine ⟨by simp [h.len], ?_, ?_, ?_⟩
  · intro i
    rw [getD_rep_append, getD_rep_append]
    by_cases hi : i < d
    · simp only [hi, if_true]
      rcases hab with rfl | ⟨rfl, _, _⟩
      · left; rfl
      · right; rfl
    · simp only [hi, if_false]
      exact h.pw _
  · intro i hne
    rw [getD_rep_append, getD_rep_append] at hne
    by_cases hi : i < d
    · simp only [hi, if_true] at hne
      rcases hab with rfl | ⟨rfl, rfl, _⟩
      · exact absurd rfl hne
      · left
        rw [getD_rep_append, if_pos hi]
    · simp only [hi, if_false] at hne
      rcases h.src _ hne with h0 | ⟨e, he, h1, h2⟩
      · left
        rw [getD_rep_append, if_neg hi]; exact h0
      · right
        refine ⟨e + d, by omega, ?_, ?_⟩
        · rw [getD_rep_append, getD_rep_append, if_neg (by omega), if_neg (by omega),
            Nat.add_sub_cancel]
          exact h1
        · rw [getD_rep_append, getD_rep_append, if_neg (by omega), if_neg hi, Nat.add_sub_cancel]
          exact h2
  · intro i hne
    rw [getD_rep_append, getD_rep_append] at hne
    by_cases hi : i < d
    · simp only [hi, if_true] at hne
      rcases hab with rfl | ⟨rfl, rfl, h2⟩
      · exact absurd rfl hne
      · by_cases hi1 : i + 1 < d
        · refine ⟨i + 1, by omega, ?_, ?_⟩
          · rw [getD_rep_append, getD_rep_append, if_pos hi1, if_pos hi1]; exact hne
          · rw [getD_rep_append, getD_rep_append, if_pos hi1, if_pos hi]
        · have hi0 : i - 1 < d := by omega
          refine ⟨i - 1, by omega, ?_, ?_⟩
          · rw [getD_rep_append, getD_rep_append, if_pos hi0, if_pos hi0]; exact hne
          · rw [getD_rep_append, getD_rep_append, if_pos hi0, if_pos hi]
    · simp only [hi, if_false] at hne
      obtain ⟨p, hp, h1, h2⟩ := h.adj _ hne
      refine ⟨p + d, by omega, ?_, ?_⟩
      · rw [getD_rep_append, getD_rep_append, if_neg (by omega), if_neg (by omega),
          Nat.add_sub_cancel]
        exact h1
      · rw [getD_rep_append, getD_rep_append, if_neg (by omega), if_neg hi, Nat.add_sub_cancel]
        exact h2

/-- the invariant along the items; `hw`: a repeat item makes at least two copies (the format: 3–6) -/
theorem expandFrom_rel (items : List RleItem) (hw : ∀ it ∈ items, it.kind = 16 → 2 ≤ it.data) :
    ∀ (prev : Nat) (last : Option Nat) (R : List Nat),
      (∀ v, last = some v → v = prev ∨ v = 0) → expandFrom items last = some R →
      Rel prev (expandItems items prev) R := by
  induction items with
  | nil =>
    intro prev last R _ h
    simp only [expandFrom, Option.some.injEq] at h
    subst h
    exact Rel.nil prev
  | cons it rest ih =>
    intro prev last R hst h
    obtain ⟨k, d⟩ := it
    have hw' : ∀ it ∈ rest, it.kind = 16 → 2 ≤ it.data := fun it hit => hw it (List.mem_cons_of_mem _ hit)
    unfold expandFrom at h
    unfold expandItems
    by_cases hk : k = 0
    · simp only [hk, if_true, Option.map_eq_some_iff] at h ⊢
      obtain ⟨R', h1, rfl⟩ := h
      exact (ih hw' d (some d) R' (fun v hv => by simp at hv; exact Or.inl hv.symm) h1).cons prev
    · simp only [hk, if_false] at h ⊢
      by_cases h16 : k = 16
      · simp only [h16, if_true] at h ⊢
        cases last with
        | none => simp at h
        | some v =>
          simp only [Option.map_eq_some_iff] at h
          obtain ⟨R', h1, rfl⟩ := h
          have hd : 2 ≤ d := hw ⟨k, d⟩ (List.mem_cons_self) h16
          refine (ih hw' prev (some v) R' hst h1).block d prev v ?_
          rcases hst v rfl with rfl | rfl
          · left; rfl
          · right; exact ⟨rfl, rfl, hd⟩
      · simp only [h16, if_false, Option.map_eq_some_iff] at h ⊢
        obtain ⟨R', h1, rfl⟩ := h
        refine (ih hw' prev _ R' ?_ h1).block d 0 0 (Or.inl rfl)
        intro v hv
        split at hv
        · exact hst v hv
        · simp at hv; exact Or.inr hv.symm

/-- the two readings of a whole header -/
theorem expand_rel (items : List RleItem) (hw : ∀ it ∈ items, it.kind = 16 → 2 ≤ it.data)
    (R : List Nat) (h : expandRFC items = some R) : Rel 0 (expandItems items 0) R := by
  rw [expandRFC_eq] at h
  exact expandFrom_rel items hw 0 none R (fun v hv => by simp at hv) h

end Preflate.Proofs.RFC
