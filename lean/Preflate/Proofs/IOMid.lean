/- C13 helper lemmas, layer 2: varints, literal copy, IDAT, stream part. -/
import Preflate.Proofs.IOBase
namespace Preflate.Proofs
open Preflate

/-- postcondition of a source-only call whose in-memory counterpart returns `(v, rest)` -/
abbrev SrcPost {α : Type} (s s' : Source) (r : R α) (v : α) (rest : Bytes) : Prop :=
  s'.sched <:+ s.sched ∧ ((r = .ok v ∧ s'.data = rest) ∨ (r = .error .err ∧ ¬ OnlyShort s.sched))

/-- postcondition of a sink-only call whose in-memory counterpart returns `outB` -/
abbrev SnkPost (k k' : Sink) (r : R Unit) (outB : Bytes) : Prop :=
  k'.sched <:+ k.sched ∧
    ((r = .ok () ∧ k'.out = k.out ++ outB) ∨
     (r = .error .err ∧ ¬ OnlyShort k.sched ∧ ∃ p, p <+: outB ∧ k'.out = k.out ++ p))

/-- postcondition of a call using both -/
abbrev FullPost {α : Type} (s s' : Source) (k k' : Sink) (r : R α) (v : α) (rest outB : Bytes) : Prop :=
  s'.sched <:+ s.sched ∧ k'.sched <:+ k.sched ∧
    ((r = .ok v ∧ s'.data = rest ∧ k'.out = k.out ++ outB) ∨
     (r = .error .err ∧ ¬ (OnlyShort s.sched ∧ OnlyShort k.sched) ∧ ∃ p, p <+: outB ∧ k'.out = k.out ++ p))

theorem bind_ok {α β : Type} {x : R α} {f : α → R β} {b : β} (h : (x >>= f) = .ok b) :
    ∃ a, x = .ok a ∧ f a = .ok b := by
  cases x with
  | error e => simp [bind, Except.bind] at h
  | ok a => exact ⟨a, rfl, h⟩

theorem takeExact_ok {n : Nat} {bs d rest : Bytes} (h : takeExact n bs = .ok (d, rest)) :
    n ≤ bs.length ∧ d = bs.take n ∧ rest = bs.drop n := by
  unfold takeExact at h
  split at h
  · simp only [Except.ok.injEq, Prod.mk.injEq] at h
    exact ⟨‹_›, h.1.symm, h.2.symm⟩
  · cases h

/-- sequencing for sink-only calls: `A` was appended, the rest appends `B` -/
theorem snk_seq {k k1 : Sink} {A B : Bytes} {X : R Unit × Sink} (hs1 : k1.sched <:+ k.sched)
    (ho1 : k1.out = k.out ++ A) (h2 : ∃ r k', X = (r, k') ∧ SnkPost k1 k' r B) :
    ∃ r k', X = (r, k') ∧ SnkPost k k' r (A ++ B) := by
  obtain ⟨r, k', e, hs, hc⟩ := h2
  refine ⟨r, k', e, hs.trans hs1, ?_⟩
  rcases hc with ⟨rfl, ho⟩ | ⟨rfl, hb, p, hp, ho⟩
  · exact .inl ⟨rfl, by rw [ho, ho1, List.append_assoc]⟩
  · refine .inr ⟨rfl, bad_of_suffix hs1 hb, A ++ p, (List.prefix_append_right_inj A).2 hp, ?_⟩
    rw [ho, ho1, List.append_assoc]

theorem snk_fail {k k1 : Sink} {A B p : Bytes} (hs1 : k1.sched <:+ k.sched) (hb : ¬ OnlyShort k.sched)
    (hp : p <+: A) (ho : k1.out = k.out ++ p) : SnkPost k k1 (.error .err) (A ++ B) :=
  ⟨hs1, .inr ⟨rfl, hb, p, hp.trans (List.prefix_append A B), ho⟩⟩

-- ---------------------------------------------------------------------------------------------
-- varint

theorem readVarintIO_spec (fuel : Nat) : ∀ (shift acc : Nat) (s : Source) (v : Nat) (rest : Bytes),
    readVarint fuel shift acc s.data = .ok (v, rest) → IoEv.zero ∉ s.sched →
    ∃ r s', readVarintIO fuel shift acc s = (r, s') ∧ SrcPost s s' r v rest := by
  induction fuel with
  | zero => intro _ _ _ _ _ h; simp [readVarint] at h
  | succ fuel ih =>
    intro shift acc s v rest h hz
    obtain ⟨data, sched⟩ := s
    cases data with
    | nil => simp [readVarint] at h
    | cons b bs =>
      simp only [readVarint] at h
      unfold readVarintIO
      obtain ⟨r1, s1, e1, hs1, h1⟩ := readExact_spec 1 ⟨b :: bs, sched⟩ (by simp) hz
      rw [e1]
      rcases h1 with ⟨rfl, hd1⟩ | ⟨rfl, hb1⟩
      · simp only [List.take_succ_cons, List.take_zero, List.drop_succ_cons, List.drop_zero] at hd1 ⊢
        split at h
        · cases h
        · rename_i hshift
          simp only [if_neg hshift]
          split at h
          · rename_i hb
            simp only [if_pos hb]
            simp only [Except.ok.injEq, Prod.mk.injEq] at h
            exact ⟨_, _, rfl, hs1, .inl ⟨by rw [h.1], by rw [hd1, h.2]⟩⟩
          · rename_i hb
            simp only [if_neg hb]
            obtain ⟨r, s', e, hs, hc⟩ := ih _ _ s1 v rest (by rw [hd1]; exact h) (nozero_of_suffix hs1 hz)
            refine ⟨r, s', e, hs.trans hs1, ?_⟩
            rcases hc with hc | ⟨rfl, hb⟩
            · exact .inl hc
            · exact .inr ⟨rfl, bad_of_suffix hs1 hb⟩
      · exact ⟨_, _, rfl, hs1, .inr ⟨rfl, hb1⟩⟩

theorem getVarintIO_spec (s : Source) (v : Nat) (rest : Bytes) (h : getVarint s.data = .ok (v, rest))
    (hz : IoEv.zero ∉ s.sched) : ∃ r s', getVarintIO s = (r, s') ∧ SrcPost s s' r v rest :=
  readVarintIO_spec _ 0 0 s v rest h hz

-- ---------------------------------------------------------------------------------------------
-- literal copy

theorem copyLiteral_spec (fuel : Nat) : ∀ (len : Nat) (s : Source) (k : Sink),
    len ≤ s.data.length → IoEv.zero ∉ s.sched → len < fuel →
    ∃ r s' k', copyLiteral fuel len s k = (r, s', k') ∧
      FullPost s s' k k' r () (s.data.drop len) (s.data.take len) := by
  induction fuel with
  | zero => intro _ _ _ _ _ h; omega
  | succ fuel ih =>
    intro len s k hlen hz hf
    unfold copyLiteral
    by_cases h0 : len = 0
    · subst h0
      exact ⟨_, _, _, by simp, List.suffix_refl _, List.suffix_refl _, .inl ⟨rfl, by simp, by simp⟩⟩
    · simp only [h0, if_false]
      have ha1 : 1 ≤ min Gen.LITERAL_STAGING len := by
        have : Gen.LITERAL_STAGING = 65536 := rfl
        omega
      have hal : min Gen.LITERAL_STAGING len ≤ len := Nat.min_le_right _ _
      generalize min Gen.LITERAL_STAGING len = a at ha1 hal
      obtain ⟨r1, s1, e1, hs1, h1⟩ := readExact_spec a s (by omega) hz
      rw [e1]
      rcases h1 with ⟨rfl, hd1⟩ | ⟨rfl, hb1⟩
      · simp only []
        obtain ⟨r2, k2, e2, hk2, h2⟩ := writeAll_spec (s.data.take a) k
        rw [e2]
        have hsplit : s.data.take len = s.data.take a ++ s1.data.take (len - a) := by
          have : len = a + (len - a) := by omega
          conv => lhs; rw [this, List.take_add]
          rw [hd1]
        rcases h2 with ⟨rfl, ho2⟩ | ⟨rfl, hb2, p, hp, ho2⟩
        · simp only []
          obtain ⟨r, s', k', e, hs, hk, hc⟩ := ih (len - a) s1 k2
            (by rw [hd1, List.length_drop]; omega) (nozero_of_suffix hs1 hz) (by omega)
          refine ⟨r, s', k', e, hs.trans hs1, hk.trans hk2, ?_⟩
          rcases hc with ⟨rfl, hd, ho⟩ | ⟨rfl, hb, p, hp, ho⟩
          · left
            refine ⟨rfl, ?_, ?_⟩
            · rw [hd, hd1, List.drop_drop]; congr 1; omega
            · rw [ho, ho2, hsplit, List.append_assoc]
          · right
            refine ⟨rfl, ?_, s.data.take a ++ p, ?_, ?_⟩
            · intro hh
              exact hb ⟨onlyShort_of_suffix hs1 hh.1, onlyShort_of_suffix hk2 hh.2⟩
            · rw [hsplit]; exact (List.prefix_append_right_inj _).2 hp
            · rw [ho, ho2, List.append_assoc]
        · simp only []
          refine ⟨_, _, _, rfl, hs1, hk2, .inr ⟨rfl, fun hh => hb2 hh.2, p, ?_, ho2⟩⟩
          rw [hsplit]; exact hp.trans (List.prefix_append _ _)
      · simp only []
        exact ⟨_, _, _, rfl, hs1, List.suffix_refl _,
          .inr ⟨rfl, fun hh => hb1 hh.1, [], List.nil_prefix, by simp⟩⟩

-- ---------------------------------------------------------------------------------------------
-- IDAT contents

theorem readSizesIO_spec (fuel : Nat) : ∀ (s : Source) (v : List Nat) (rest : Bytes),
    readSizes fuel s.data = .ok (v, rest) → IoEv.zero ∉ s.sched →
    ∃ r s', readSizesIO fuel s = (r, s') ∧ SrcPost s s' r v rest := by
  induction fuel with
  | zero => intro _ _ _ h; simp [readSizes] at h
  | succ fuel ih =>
    intro s v rest h hz
    unfold readSizes at h
    obtain ⟨⟨n, bs1⟩, hg, h⟩ := bind_ok h
    simp only [] at h
    unfold readSizesIO
    obtain ⟨r1, s1, e1, hs1, h1⟩ := getVarintIO_spec s n bs1 hg hz
    rw [e1]
    rcases h1 with ⟨rfl, hd1⟩ | ⟨rfl, hb1⟩
    · simp only []
      split at h
      · rename_i hn
        simp only [if_pos hn]
        simp only [Except.ok.injEq, Prod.mk.injEq] at h
        exact ⟨_, _, rfl, hs1, .inl ⟨by rw [h.1], by rw [hd1, h.2]⟩⟩
      · rename_i hn
        simp only [if_neg hn]
        obtain ⟨⟨l, bs2⟩, hr, h⟩ := bind_ok h
        simp only [Except.ok.injEq, Prod.mk.injEq] at h
        obtain ⟨r2, s2, e2, hs2, h2⟩ := ih s1 l bs2 (by rw [hd1]; exact hr) (nozero_of_suffix hs1 hz)
        rw [e2]
        rcases h2 with ⟨rfl, hd2⟩ | ⟨rfl, hb2⟩
        · exact ⟨_, _, rfl, hs2.trans hs1, .inl ⟨by rw [h.1], by rw [hd2, h.2]⟩⟩
        · exact ⟨_, _, rfl, hs2.trans hs1, .inr ⟨rfl, bad_of_suffix hs1 hb2⟩⟩
    · exact ⟨_, _, rfl, hs1, .inr ⟨rfl, hb1⟩⟩

theorem readIdatContentsIO_spec (s : Source) (c : IdatContents) (rest : Bytes)
    (h : readIdatContents s.data = .ok (c, rest)) (hz : IoEv.zero ∉ s.sched) :
    ∃ r s', readIdatContentsIO s = (r, s') ∧ SrcPost s s' r c rest := by
  unfold readIdatContents at h
  obtain ⟨⟨sizes, bs1⟩, hg1, h⟩ := bind_ok h
  simp only [] at h
  obtain ⟨⟨hdr, bs2⟩, hg2, h⟩ := bind_ok h
  simp only [] at h
  obtain ⟨⟨ad, bs3⟩, hg3, h⟩ := bind_ok h
  simp only [Except.ok.injEq, Prod.mk.injEq] at h
  obtain ⟨hc, hrest⟩ := h
  obtain ⟨hl2, rfl, rfl⟩ := takeExact_ok hg2
  obtain ⟨hl3, rfl, rfl⟩ := takeExact_ok hg3
  unfold readIdatContentsIO
  obtain ⟨r1, s1, e1, hs1, h1⟩ := readSizesIO_spec _ s sizes bs1 hg1 hz
  rw [e1]
  rcases h1 with ⟨rfl, hd1⟩ | ⟨rfl, hb1⟩
  · simp only []
    have hz1 := nozero_of_suffix hs1 hz
    obtain ⟨r2, s2, e2, hs2, h2⟩ := readExact_spec 2 s1 (by rw [hd1]; exact hl2) hz1
    rw [e2]
    rcases h2 with ⟨rfl, hd2⟩ | ⟨rfl, hb2⟩
    · simp only []
      have hz2 := nozero_of_suffix hs2 hz1
      obtain ⟨r3, s3, e3, hs3, h3⟩ := readExact_spec 4 s2 (by rw [hd2, hd1]; exact hl3) hz2
      rw [e3]
      rcases h3 with ⟨rfl, hd3⟩ | ⟨rfl, hb3⟩
      · simp only []
        refine ⟨_, _, rfl, (hs3.trans hs2).trans hs1, .inl ⟨?_, ?_⟩⟩
        · rw [← hc, hd2, hd1]
        · rw [hd3, hd2, hd1, hrest]
      · exact ⟨_, _, rfl, (hs3.trans hs2).trans hs1,
          .inr ⟨rfl, bad_of_suffix hs1 (bad_of_suffix hs2 hb3)⟩⟩
    · exact ⟨_, _, rfl, hs2.trans hs1, .inr ⟨rfl, bad_of_suffix hs1 hb2⟩⟩
  · exact ⟨_, _, rfl, hs1, .inr ⟨rfl, hb1⟩⟩

theorem idatEmitIO_spec (crc : Bytes → Nat) (contents : Bytes) : ∀ (sizes : List Nat) (index : Nat)
    (k : Sink) (bytes : Bytes), idatEmit crc contents index sizes = .ok bytes →
    ∃ r k', idatEmitIO crc contents index sizes k = (r, k') ∧ SnkPost k k' r bytes := by
  intro sizes
  induction sizes with
  | nil =>
    intro index k bytes h
    simp only [idatEmit, Except.ok.injEq] at h
    subst h
    exact ⟨_, _, by simp [idatEmitIO], List.suffix_refl _, .inl ⟨rfl, by simp⟩⟩
  | cons size rest ih =>
    intro index k bytes h
    unfold idatEmit at h
    split at h
    · cases h
    · rename_i hidx
      obtain ⟨tail, ht, h⟩ := bind_ok h
      simp only [Except.ok.injEq] at h
      subst h
      unfold idatEmitIO
      simp only [List.append_assoc]
      obtain ⟨r1, k1, e1, hs1, h1⟩ := writeAll_spec (be32 size) k
      rw [e1]
      rcases h1 with ⟨rfl, ho1⟩ | ⟨rfl, hb1, p, hp, ho1⟩
      rotate_left
      · exact ⟨_, _, rfl, snk_fail hs1 hb1 hp ho1⟩
      simp only []
      refine snk_seq hs1 ho1 ?_
      obtain ⟨r2, k2, e2, hs2, h2⟩ := writeAll_spec idatTag k1
      rw [e2]
      rcases h2 with ⟨rfl, ho2⟩ | ⟨rfl, hb2, p, hp, ho2⟩
      rotate_left
      · exact ⟨_, _, rfl, snk_fail hs2 hb2 hp ho2⟩
      simp only [if_neg hidx]
      refine snk_seq hs2 ho2 ?_
      obtain ⟨r3, k3, e3, hs3, h3⟩ := writeAll_spec ((contents.drop index).take size) k2
      rw [e3]
      rcases h3 with ⟨rfl, ho3⟩ | ⟨rfl, hb3, p, hp, ho3⟩
      rotate_left
      · exact ⟨_, _, rfl, snk_fail hs3 hb3 hp ho3⟩
      simp only []
      refine snk_seq hs3 ho3 ?_
      obtain ⟨r4, k4, e4, hs4, h4⟩ :=
        writeAll_spec (be32 (crc (idatTag ++ (contents.drop index).take size))) k3
      rw [e4]
      rcases h4 with ⟨rfl, ho4⟩ | ⟨rfl, hb4, p, hp, ho4⟩
      rotate_left
      · exact ⟨_, _, rfl, snk_fail hs4 hb4 hp ho4⟩
      simp only []
      exact snk_seq hs4 ho4 (ih _ k4 tail ht)

theorem recreateIdatIO_spec (crc : Bytes → Nat) (c : IdatContents) (deflate : Bytes) (k : Sink)
    (bytes : Bytes) (h : recreateIdat crc c deflate = .ok bytes) :
    ∃ r k', recreateIdatIO crc c deflate k = (r, k') ∧ SnkPost k k' r bytes := by
  unfold recreateIdat at h
  unfold recreateIdatIO
  split at h
  · cases h
  · rename_i hsum
    simp only [if_neg hsum]
    exact idatEmitIO_spec crc _ _ _ k bytes h

-- ---------------------------------------------------------------------------------------------
-- stream part

theorem readStreamIO_spec (s : Source) (pl cl : Nat) (plain corr bs1 bs2 bs3 bs4 : Bytes)
    (h1 : getVarint s.data = .ok (pl, bs1)) (h2 : takeExact pl bs1 = .ok (plain, bs2))
    (h3 : getVarint bs2 = .ok (cl, bs3)) (h4 : takeExact cl bs3 = .ok (corr, bs4))
    (hz : IoEv.zero ∉ s.sched) :
    ∃ r s', readStreamIO s = (r, s') ∧ SrcPost s s' r (plain, corr) bs4 := by
  obtain ⟨hl2, rfl, rfl⟩ := takeExact_ok h2
  obtain ⟨hl4, rfl, rfl⟩ := takeExact_ok h4
  unfold readStreamIO
  obtain ⟨r1, s1, e1, hs1, c1⟩ := getVarintIO_spec s pl bs1 h1 hz
  rw [e1]
  rcases c1 with ⟨rfl, hd1⟩ | ⟨rfl, hb1⟩
  rotate_left
  · exact ⟨_, _, rfl, hs1, .inr ⟨rfl, hb1⟩⟩
  simp only []
  have hz1 := nozero_of_suffix hs1 hz
  obtain ⟨r2, s2, e2, hs2, c2⟩ := readExact_spec pl s1 (by rw [hd1]; exact hl2) hz1
  rw [e2]
  rcases c2 with ⟨rfl, hd2⟩ | ⟨rfl, hb2⟩
  rotate_left
  · exact ⟨_, _, rfl, hs2.trans hs1, .inr ⟨rfl, bad_of_suffix hs1 hb2⟩⟩
  simp only []
  have hz2 := nozero_of_suffix hs2 hz1
  rw [hd1] at hd2
  obtain ⟨r3, s3, e3, hs3, c3⟩ := getVarintIO_spec s2 cl bs3 (by rw [hd2]; exact h3) hz2
  rw [e3]
  rcases c3 with ⟨rfl, hd3⟩ | ⟨rfl, hb3⟩
  rotate_left
  · exact ⟨_, _, rfl, (hs3.trans hs2).trans hs1, .inr ⟨rfl, bad_of_suffix hs1 (bad_of_suffix hs2 hb3)⟩⟩
  simp only []
  have hz3 := nozero_of_suffix hs3 hz2
  obtain ⟨r4, s4, e4, hs4, c4⟩ := readExact_spec cl s3 (by rw [hd3]; exact hl4) hz3
  rw [e4]
  rcases c4 with ⟨rfl, hd4⟩ | ⟨rfl, hb4⟩
  rotate_left
  · exact ⟨_, _, rfl, ((hs4.trans hs3).trans hs2).trans hs1,
      .inr ⟨rfl, bad_of_suffix hs1 (bad_of_suffix hs2 (bad_of_suffix hs3 hb4))⟩⟩
  simp only []
  refine ⟨_, _, rfl, ((hs4.trans hs3).trans hs2).trans hs1, .inl ⟨?_, ?_⟩⟩
  · rw [hd1, hd3]
  · rw [hd4, hd3]

end Preflate.Proofs
