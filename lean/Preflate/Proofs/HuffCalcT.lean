/-
Main theorems about the total model of `huffman_calc.rs::calc_zlib::calc_bit_lengths`
(`Preflate.HuffCalcT.calcBitLengths`): no panic, no fuel exhaustion, all lengths `≤ max_bits`,
length of the result.

FINDING (precondition `fits`): without `#{non-zero frequencies} ≤ 2 ^ max_bits` the Rust panics,
e.g. 129 symbols of frequency 1 with `max_bits = 7`: the redistribution loop
`while bl_count[bits] == 0 { bits -= 1 }` runs below index 0 (`attempt to subtract with overflow`
with overflow checks, index out of bounds without).  The callers (19 symbols / 7 bits,
≤ 288 symbols / 15 bits) satisfy it.
-/
import Mathlib.Tactic.NormNum
import Preflate.Proofs.HuffCalcTCombine
import Preflate.Proofs.HuffCalcTRedist
import Preflate.Proofs.HuffCalcTScan
namespace Preflate.HuffCalcT

/-- what the callers guarantee -/
structure Pre (f : List Nat) (m : Nat) : Prop where
  /-- at most 288 symbols -/
  len : f.length ≤ 288
  /-- `u16` frequencies -/
  u16 : ∀ x ∈ f, x < 65536
  m1 : 1 ≤ m
  m15 : m ≤ 15
  /-- the used symbols fit into a code of `m` bits (19 ≤ 2^7, 288 ≤ 2^15) -/
  fits : (f.filter (fun x => decide (0 < x))).length ≤ 2 ^ m

/-- length of the result: `max_code + 1`, except that a second entry is pushed when at most one
symbol is used and it is symbol 0 (or none) -/
def resultLength (f : List Nat) : Nat :=
  if (f.filter (fun x => decide (0 < x))).length ≤ 1 ∧ maxCode f = 0 then 2 else maxCode f + 1

theorem leaves0_syms_length (l : List Nat) (idx : Nat) :
    ((scanList l idx).filterMap (·.leaf)).length = (scanList l idx).length := by
  induction l generalizing idx with
  | nil => simp [scanList]
  | cons f rest ih =>
    simp only [scanList]
    split
    · simp [ih]
    · exact ih _

theorem flatMap_leaves_of_leaf (nodes : Array Node) (l : List Node)
    (h : ∀ x ∈ l, x.depth = 0 ∧ ∃ s, x.leaf = some s) :
    l.flatMap (leavesOf nodes) = l.filterMap (·.leaf) := by
  induction l with
  | nil => rfl
  | cons a l ih =>
    obtain ⟨hd, s, hs⟩ := h a (by simp)
    have hnt : NT nodes a (.leaf s) := .leaf hs hd
    rw [List.flatMap_cons, ih (fun x hx => h x (List.mem_cons_of_mem _ hx))]
    simp [leavesOf, treeOf_eq hnt, Tree.leaves, hs]

theorem kraft_eq_wsum (L : List Nat) :
    kraft L = wsum (fun l => if l = 0 then 0 else 2 ^ (255 - l)) L := rfl

/-- the complete specification on the callers' domain -/
theorem calcBitLengths_spec (f : List Nat) (m : Nat) (pre : Pre f m) :
    ∃ l, calcBitLengths f m = .ok l ∧ (∀ x ∈ l, x ≤ m) ∧ l.length = resultLength f := by
  have hlen0 : (leaves0 f).length = (f.filter (fun x => decide (0 < x))).length :=
    scanList_length f 0
  unfold calcBitLengths
  rw [scan_zero]
  simp only [List.size_toArray]
  by_cases hsmall : (leaves0 f).length ≤ 1
  · -- at most one symbol
    rw [if_pos hsmall]
    rw [aset_ok _ _ (by simp)]
    simp only [ok_bind]
    by_cases hmc : maxCode f = 0
    · simp only [hmc, bne_self_eq_false, Bool.false_eq_true, if_false, pure_eq_ok]
      refine ⟨_, rfl, ?_, ?_⟩
      · intro x hx
        have : x = 1 := by simpa using hx
        have := pre.m1
        omega
      · simp [resultLength, hmc, ← hlen0, hsmall]
    · have hne : (maxCode f != 0) = true := by simp [hmc]
      simp only [hne, if_true]
      rw [aset_ok _ _ (by simp)]
      simp only [ok_bind, pure_eq_ok]
      refine ⟨_, rfl, ?_, ?_⟩
      · intro x hx
        rw [Array.toList_setIfInBounds, Array.toList_setIfInBounds, Array.toList_replicate] at hx
        have := pre.m1
        rcases List.mem_or_eq_of_mem_set hx with hx | rfl
        · rcases List.mem_or_eq_of_mem_set hx with hx | rfl
          · have := List.eq_of_mem_replicate hx; omega
          · omega
        · omega
      · simp [resultLength, hmc]
  · -- the general case
    rw [if_neg hsmall]
    have hsz0 : 2 ≤ (leaves0 f).toArray.size := by simp; omega
    -- heapify
    obtain ⟨heap1, hh1, hsz1, hperm1, hord1⟩ :=
      heapify_spec (leaves0 f).toArray ((leaves0 f).length / 2) (by simp; omega)
        (by simpa using heapFrom_half (leaves0 f).toArray)
    simp only [List.size_toArray] at hperm1 hsz1
    -- the invariant
    let syms : List Nat := (leaves0 f).filterMap (·.leaf)
    let W : Nat := ((leaves0 f).map (·.freq)).sum
    have hmem1 : ∀ x ∈ heap1.toList, x ∈ leaves0 f := fun x hx => hperm1.mem_iff.mp hx
    have hleafy : ∀ x ∈ heap1.toList, x.depth = 0 ∧ ∃ s, x.leaf = some s := fun x hx => by
      obtain ⟨h1, _, _, s, h4, _⟩ := scanList_mem f 0 x (hmem1 x hx)
      exact ⟨h1, s, h4⟩
    have inv : Inv syms W heap1 #[] := by
      refine ⟨?_, ?_, ?_, hord1, ?_, ⟨1, ?_⟩⟩
      · intro x hx
        obtain ⟨hd, s, hs⟩ := hleafy x hx
        exact ⟨_, .leaf hs hd⟩
      · rw [flatMap_leaves_of_leaf _ _ hleafy]
        exact hperm1.filterMap _
      · simpa using hperm1.filterMap (·.leaf)
      · exact (hperm1.map (·.freq)).sum_nat
      · intro x hx
        obtain ⟨h1, h2, _, _⟩ := scanList_mem f 0 x (hmem1 x hx)
        refine ⟨h2, h2, by rw [h1]; simpa [fibb] using h2, fun h => by omega⟩
    have hWle : W ≤ 65535 * 288 := by
      have h1 := scanList_sum f 0 65535 (fun x hx => by have := pre.u16 x hx; omega)
      have h2 := pre.len
      have : 65535 * f.length ≤ 65535 * 288 := Nat.mul_le_mul_left _ h2
      exact Nat.le_trans h1 this
    have hWu : W ≤ u32Max := by simp only [u32Max]; omega
    obtain ⟨nodes', root, t, hcomb, out⟩ :=
      combine_spec syms W hWu (leaves0 f).length heap1 #[] inv (by omega) (by omega)
    -- height bound from the Fibonacci invariant
    have hheight : t.height < 50 := by
      rw [out.tree.height]
      apply Nat.lt_of_not_le
      intro hge
      have h1 := fibb_mono hge
      have h2 : 2 ^ 25 ≤ fibb 50 := fibb_pow 25
      have h3 := out.fib
      have : (2 : Nat) ^ 25 = 33554432 := by norm_num
      omega
    have hsyms_nodup : syms.Nodup := scanList_nodup f 0
    have hsyms_le : ∀ s ∈ syms, s ≤ maxCode f := scanList_le_scanMax f 0 0
    have hsyms_len : syms.length = (leaves0 f).length := leaves0_syms_length f 0
    have hleaves_lt : ∀ s ∈ t.leaves, s < (Array.replicate (maxCode f + 1) 0 : Array Nat).size := by
      intro s hs
      have := hsyms_le s (out.leaves.mem_iff.mp hs)
      simp; omega
    have hcr := countRec_spec out.tree 257 (nodes'.size - 1) 0
      (Array.replicate (maxCode f + 1) 0) out.last (by omega) (by omega) hleaves_lt
    -- the written array
    generalize hlens1 : t.write 0 (Array.replicate (maxCode f + 1) 0) = lens1 at hcr
    have hsize1 : lens1.size = maxCode f + 1 := by rw [← hlens1]; simp
    obtain ⟨tl, tr, rfl⟩ : ∃ tl tr, t = .node tl tr := by
      cases out.tree with
      | leaf h1 _ => rw [out.inner] at h1; cases h1
      | node => exact ⟨_, _, rfl⟩
    have hnd : (Tree.node tl tr).leaves.Nodup := out.leaves.nodup_iff.mpr hsyms_nodup
    have hzero : ∀ s ∈ (Tree.node tl tr).leaves,
        s < (Array.replicate (maxCode f + 1) 0 : Array Nat).size ∧
        (Array.replicate (maxCode f + 1) 0 : Array Nat)[s]? = some 0 := by
      intro s hs
      have := hleaves_lt s hs
      refine ⟨this, ?_⟩
      rw [Array.getElem?_eq_some_iff]
      exact ⟨this, by simp⟩
    have hheight' : max tl.height tr.height + 1 < 50 := hheight
    have hk : kraft lens1.toList = 2 ^ 255 := by
      rw [kraft_eq_wsum, ← hlens1, wsum_write _ rfl _ 0 _ hnd hzero]
      rw [Array.toList_replicate, wsum_replicate_zero _ rfl]
      simp only [Tree.dsum]
      rw [dsum_kraft tl 1 (by omega) (by omega), dsum_kraft tr 1 (by omega) (by omega)]
      norm_num
    have hnzeq : (lens1.toList.filter (fun l => decide (0 < l))).length = syms.length := by
      rw [← wsum_count, ← hlens1, wsum_write _ rfl _ 0 _ hnd hzero]
      rw [Array.toList_replicate, wsum_replicate_zero _ rfl]
      simp only [Tree.dsum]
      rw [dsum_count tl 1 (by omega), dsum_count tr 1 (by omega)]
      have := out.leaves.length_eq
      simp only [Tree.leaves, List.length_append] at this
      omega
    have hle : ∀ l ∈ lens1.toList, l ≤ 255 := by
      intro l hl
      obtain ⟨i, hi, hli⟩ := List.mem_iff_getElem.mp hl
      have h1 : lens1[i]? = some l := by
        rw [Array.getElem?_eq_some_iff]; exact ⟨by simpa using hi, by simpa using hli⟩
      rw [← hlens1] at h1
      rcases Tree.write_entry _ _ _ _ _ h1 with h2 | h2
      · have := Array.getElem?_eq_some_iff.mp h2
        obtain ⟨_, h3⟩ := this
        simp at h3; omega
      · simp only [Tree.height] at h2; omega
    have hflat_le : ∀ s ∈ nodes'.toList.filterMap (·.leaf), s < lens1.size := by
      intro s hs
      have := hsyms_le s (out.flat.mem_iff.mp hs)
      omega
    have hflat_len : (nodes'.toList.filterMap (·.leaf)).length = syms.length := out.flat.length_eq
    obtain ⟨bl, ov, hcl, hov0, hovpos⟩ := tail_spec m pre.m1 pre.m15 lens1 nodes'.toList hk hle
      (by rw [hnzeq, hsyms_len, hlen0]; exact pre.fits) hflat_le (by rw [hnzeq, hflat_len])
    -- run the program
    have hnz : (nodes'.size == 0) = false := by
      have := out.size
      rw [beq_eq_false_iff_ne]; omega
    simp only [hh1, ok_bind, hsz1, hcomb, hnz, Bool.false_eq_true, if_false, hcr, hcl]
    have hres : resultLength f = maxCode f + 1 := by
      simp only [resultLength]
      rw [if_neg]
      intro h
      rw [← hlen0] at h
      omega
    by_cases hov : 0 < ov
    · obtain ⟨bl', lens', hred, hrea, hsz', hent⟩ := hovpos hov
      have hgt : ov > 0 := hov
      simp only [hgt, if_true, hred, ok_bind, hrea, pure_eq_ok]
      refine ⟨_, rfl, ?_, by simp [hsz', hsize1, hres]⟩
      intro x hx
      obtain ⟨i, hi, hxi⟩ := List.mem_iff_getElem.mp hx
      have hi' : i < lens'.size := by simpa using hi
      have hgi : lens'[i]? = some x := by
        rw [Array.getElem?_eq_some_iff]; exact ⟨hi', by simpa using hxi⟩
      obtain ⟨hin, hout⟩ := hent i (by omega)
      by_cases hmem : i ∈ nodes'.toList.filterMap (·.leaf)
      · have := (hin hmem).2
        rw [hgi] at this; simpa using this
      · have h1 := hout hmem
        rw [hgi] at h1
        have hnl : i ∉ (Tree.node tl tr).leaves := fun hl =>
          hmem (out.flat.mem_iff.mpr (out.leaves.mem_iff.mp hl))
        rw [← hlens1, Tree.write_not_mem _ _ _ _ hnl] at h1
        have := Array.getElem?_eq_some_iff.mp h1.symm
        obtain ⟨_, h3⟩ := this
        simp at h3; omega
    · have h0 : ov = 0 := by omega
      have hgt : ¬ (ov > 0) := by omega
      simp only [hgt, if_false, pure_eq_ok]
      exact ⟨_, rfl, hov0 h0, by simp [hsize1, hres]⟩

/-! ### the four deliverables -/

theorem calcBitLengths_no_panic (f : List Nat) (m : Nat) (pre : Pre f m) (s : String) :
    calcBitLengths f m ≠ .error (.panic s) := by
  obtain ⟨l, hl, _⟩ := calcBitLengths_spec f m pre
  rw [hl]; intro h; cases h

theorem calcBitLengths_no_fuel (f : List Nat) (m : Nat) (pre : Pre f m) :
    calcBitLengths f m ≠ .error .fuel := by
  obtain ⟨l, hl, _⟩ := calcBitLengths_spec f m pre
  rw [hl]; intro h; cases h

theorem calcBitLengths_bounded (f : List Nat) (m : Nat) (pre : Pre f m) (l : List Nat)
    (h : calcBitLengths f m = .ok l) : ∀ x ∈ l, x ≤ m := by
  obtain ⟨l', hl, hb, _⟩ := calcBitLengths_spec f m pre
  rw [hl] at h; cases h; exact hb

theorem calcBitLengths_length (f : List Nat) (m : Nat) (pre : Pre f m) (l : List Nat)
    (h : calcBitLengths f m = .ok l) : l.length = resultLength f := by
  obtain ⟨l', hl, _, hlen⟩ := calcBitLengths_spec f m pre
  rw [hl] at h; cases h; exact hlen

/-- it always returns (total correctness on the callers' domain) -/
theorem calcBitLengths_ok (f : List Nat) (m : Nat) (pre : Pre f m) :
    ∃ l, calcBitLengths f m = .ok l := by
  obtain ⟨l, hl, _⟩ := calcBitLengths_spec f m pre
  exact ⟨l, hl⟩

/-- the two call sites: code-length alphabet (19 symbols, 7 bits) -/
theorem pre_codelen (f : List Nat) (hlen : f.length ≤ 19) (hu : ∀ x ∈ f, x < 65536) : Pre f 7 where
  len := by omega
  u16 := hu
  m1 := by omega
  m15 := by omega
  fits := by
    have := List.length_filter_le (fun x => decide (0 < x)) f
    have : (2 : Nat) ^ 7 = 128 := by norm_num
    omega

/-- literal/length (≤ 288) and distance (≤ 32) alphabets, 15 bits -/
theorem pre_litdist (f : List Nat) (hlen : f.length ≤ 288) (hu : ∀ x ∈ f, x < 65536) :
    Pre f 15 where
  len := hlen
  u16 := hu
  m1 := by omega
  m15 := by omega
  fits := by
    have := List.length_filter_le (fun x => decide (0 < x)) f
    have : (2 : Nat) ^ 15 = 32768 := by norm_num
    omega

/-- sufficient for `fits`: no more symbols than codes -/
theorem pre_of_length (f : List Nat) (m : Nat) (hlen : f.length ≤ 288) (hu : ∀ x ∈ f, x < 65536)
    (m1 : 1 ≤ m) (m15 : m ≤ 15) (hfit : f.length ≤ 2 ^ m) : Pre f m where
  len := hlen
  u16 := hu
  m1 := m1
  m15 := m15
  fits := Nat.le_trans (List.length_filter_le _ f) hfit

end Preflate.HuffCalcT
