/-
The complete parameter estimator (Model/EstimatorFull.lean: `Est.estimate`, the transcription of
`estimate_preflate_parameters`) only returns parameter vectors inside `EstimatorRange`
(Model/Params.lean) — on block lists that are a valid expansion of the plaintext (`StreamValid`,
what the parser is proved to return). The validity hypothesis is needed for two fields only:
`minLen` (the smallest reference length of the stream) and `maxDist3` (the largest distance of a
length-3 reference); `Counter.estimate_out_of_range_invalid` is a block list with a length-2
reference on which the estimator returns `minLen = 2`.

With that, the public pair theorems of Props/C02.lean hold for the concrete estimator and the
concrete predictor family with NO hypothesis on the estimator left (`public_pair_exact`,
`public_verify_same`).
-/
import Preflate.Model.EstimatorFull
import Preflate.Proofs.Estimator
import Preflate.Proofs.EstimatorFull
import Preflate.Proofs.Stream
import Preflate.Proofs.ChainsBounded
import Preflate.Props.C02
namespace Preflate.Proofs
open Preflate Preflate.Est

/-! ### what the range needs from the tokens (position free) -/

/-- a reference token has a DEFLATE length and distance -/
def RefOK : Token → Prop
  | .lit _ => True
  | .ref len dist _ => 3 ≤ len ∧ len ≤ 258 ∧ dist ≤ 32768

def RefsOK (blocks : List Block) : Prop := ∀ b ∈ blocks, ∀ t ∈ blockTokens b, RefOK t

theorem validToks_refOK (plain : Array Nat) (ts : List Token) :
    ∀ pos, ValidToks plain pos ts → ∀ t ∈ ts, RefOK t := by
  induction ts with
  | nil => intro _ _ t ht; cases ht
  | cons t ts ih =>
    intro pos hv t' ht'
    obtain ⟨h1, h2⟩ := hv
    rcases List.mem_cons.mp ht' with rfl | ht'
    · cases t' with
      | lit b => trivial
      | ref len dist irr => exact ⟨h1.1, h1.2.1, h1.2.2.2.2.1⟩
    · exact ih _ h2 t' ht'

theorem validBlocks_refsOK (plain : Array Nat) (blocks : List Block) :
    ∀ pos, ValidBlocks plain pos blocks → RefsOK blocks := by
  induction blocks with
  | nil => intro _ _ b hb; cases hb
  | cons b bs ih =>
    intro pos hv b' hb'
    obtain ⟨h1, h2⟩ := hv
    rcases List.mem_cons.mp hb' with rfl | hb'
    · cases b' with
      | stored pad data => intro t ht; cases ht
      | fixed ts => exact validToks_refOK plain ts pos h1.1
      | dynamic hd ts => exact validToks_refOK plain ts pos h1.1
    · exact ih _ h2 b' hb'

theorem streamValid_refsOK {plain : Array Nat} {blocks : List Block} (hv : StreamValid plain blocks) :
    RefsOK blocks := validBlocks_refsOK plain blocks 0 hv.2.1

/-! ### `minLen` of `extract_preflate_info` -/

theorem minFold_le (ts : List Token) : ∀ m,
    ts.foldl (fun m t => match t with | .ref l _ _ => min m l | .lit _ => m) m ≤ m := by
  induction ts with
  | nil => intro m; exact Nat.le_refl _
  | cons t ts ih =>
    intro m
    cases t with
    | lit b => exact ih m
    | ref l d irr => exact Nat.le_trans (ih _) (Nat.min_le_left _ _)

theorem minFold_ge (ts : List Token) (hok : ∀ t ∈ ts, RefOK t) : ∀ m, 3 ≤ m →
    3 ≤ ts.foldl (fun m t => match t with | .ref l _ _ => min m l | .lit _ => m) m := by
  induction ts with
  | nil => intro m hm; exact hm
  | cons t ts ih =>
    intro m hm
    have hrest := ih (fun t' ht' => hok t' (List.mem_cons_of_mem _ ht'))
    cases t with
    | lit b => exact hrest m hm
    | ref l d irr =>
      have := hok _ List.mem_cons_self
      exact hrest _ (Nat.le_min.mpr ⟨hm, this.1⟩)

theorem minFold_le_258 (ts : List Token) (hok : ∀ t ∈ ts, RefOK t) (hd : blockMaxDist ts ≠ 0) : ∀ m,
    ts.foldl (fun m t => match t with | .ref l _ _ => min m l | .lit _ => m) m ≤ 258 := by
  induction ts with
  | nil => exact absurd rfl hd
  | cons t ts ih =>
    intro m
    cases t with
    | lit b => exact ih (fun t' ht' => hok t' (List.mem_cons_of_mem _ ht')) hd m
    | ref l d irr =>
      have := (hok _ List.mem_cons_self).2.1
      exact Nat.le_trans (minFold_le ts _) (Nat.le_trans (Nat.min_le_right m l) this)

theorem blockMinLen_ge (ts : List Token) (hok : ∀ t ∈ ts, RefOK t) : 3 ≤ blockMinLen ts :=
  minFold_ge ts hok _ (by omega)

theorem blockMinLen_le (ts : List Token) (hok : ∀ t ∈ ts, RefOK t) (hd : blockMaxDist ts ≠ 0) :
    blockMinLen ts ≤ 258 := minFold_le_258 ts hok hd _

theorem infoStep_minLen_le (i : Info) (b : Block) : (infoStep i b).minLen ≤ i.minLen := by
  cases b with
  | stored pad data => exact Nat.le_refl _
  | fixed ts => exact Nat.min_le_left _ _
  | dynamic hd ts => exact Nat.min_le_left _ _

theorem infoStep_minLen_ge (i : Info) (b : Block) (hok : ∀ t ∈ blockTokens b, RefOK t)
    (hi : 3 ≤ i.minLen) : 3 ≤ (infoStep i b).minLen := by
  cases b with
  | stored pad data => exact hi
  | fixed ts => exact Nat.le_min.mpr ⟨hi, blockMinLen_ge ts hok⟩
  | dynamic hd ts => exact Nat.le_min.mpr ⟨hi, blockMinLen_ge ts hok⟩

theorem infoStep_minLen_258 (i : Info) (b : Block) (hok : ∀ t ∈ blockTokens b, RefOK t)
    (hd : blockMaxDist (blockTokens b) ≠ 0) : (infoStep i b).minLen ≤ 258 := by
  cases b with
  | stored pad data => exact absurd rfl hd
  | fixed ts => exact Nat.le_trans (Nat.min_le_right _ _) (blockMinLen_le ts hok hd)
  | dynamic h ts => exact Nat.le_trans (Nat.min_le_right _ _) (blockMinLen_le ts hok hd)

theorem foldl_infoStep_minLen_le (blocks : List Block) :
    ∀ i : Info, (blocks.foldl infoStep i).minLen ≤ i.minLen := by
  induction blocks with
  | nil => intro i; exact Nat.le_refl _
  | cons b bs ih => intro i; exact Nat.le_trans (ih _) (infoStep_minLen_le i b)

theorem foldl_infoStep_minLen_ge (blocks : List Block) (hok : RefsOK blocks) :
    ∀ i : Info, 3 ≤ i.minLen → 3 ≤ (blocks.foldl infoStep i).minLen := by
  induction blocks with
  | nil => intro i hi; exact hi
  | cons b bs ih =>
    intro i hi
    exact ih (fun b' hb' => hok b' (List.mem_cons_of_mem _ hb')) _
      (infoStep_minLen_ge i b (hok b List.mem_cons_self) hi)

theorem foldl_infoStep_minLen_258 (blocks : List Block) (hok : RefsOK blocks)
    (hex : ∃ b ∈ blocks, blockMaxDist (blockTokens b) ≠ 0) :
    ∀ i : Info, (blocks.foldl infoStep i).minLen ≤ 258 := by
  induction blocks with
  | nil => obtain ⟨b, hb, _⟩ := hex; cases hb
  | cons b bs ih =>
    intro i
    have hok' : RefsOK bs := fun b' hb' => hok b' (List.mem_cons_of_mem _ hb')
    by_cases hd : blockMaxDist (blockTokens b) = 0
    · obtain ⟨b', hb', hd'⟩ := hex
      rcases List.mem_cons.mp hb' with rfl | hb'
      · exact absurd hd hd'
      · exact ih hok' ⟨b', hb', hd'⟩ _
    · exact Nat.le_trans (foldl_infoStep_minLen_le bs _)
        (infoStep_minLen_258 i b (hok b List.mem_cons_self) hd)

/-- on a stream whose references have DEFLATE lengths, and which has a reference at all, the
    smallest reference length is 3..258 -/
theorem extractInfo_minLen (blocks : List Block) (hok : RefsOK blocks)
    (hex : ∃ b ∈ blocks, blockMaxDist (blockTokens b) ≠ 0) :
    3 ≤ (extractInfo blocks).minLen ∧ (extractInfo blocks).minLen ≤ 258 := by
  rw [extractInfo_eq]
  exact ⟨foldl_infoStep_minLen_ge blocks hok _ (by show 3 ≤ 4294967295; omega),
    foldl_infoStep_minLen_258 blocks hok hex _⟩

/-- when `front` does not take the no-dictionary path, some block has a reference -/
theorem dictionary_has_reference (blocks : List Block) (f : Front) (hf : Est.front blocks = .ok f)
    (hnd : f.noDictionary = false) : ∃ b ∈ blocks, blockMaxDist (blockTokens b) ≠ 0 := by
  apply Classical.byContradiction
  intro hne
  have hall : ∀ b ∈ blocks, blockMaxDist (blockTokens b) = 0 := by
    intro b hb
    apply Classical.byContradiction
    intro hd
    exact hne ⟨b, hb, hd⟩
  have := no_references_no_dictionary blocks hall f hf
  rw [hnd] at this
  cases this

/-! ### the candidates keep their hash algorithm -/

/-- the `HashAlgorithm`s `EstimatorRange` allows -/
def GoodHp (hp : Params) : Prop :=
  1 ≤ hp.hashAlg ∧ hp.hashAlg ≤ 7 ∧
  (if hp.hashAlg = 1 then hp.hashShift < 16 ∧ hp.hashMask < 32768 else hp.hashShift = 0 ∧ hp.hashMask = 0)

def CandsOK (cs : List Candidate) : Prop := ∀ c ∈ cs, GoodHp c.hp

theorem candidate_new_hp (a s m : Nat) : (Candidate.new a s m).hp = hashParams a s m := rfl

theorem candidatesFor_ok (minLen : Nat) : CandsOK (candidatesFor minLen) := by
  intro c hc
  unfold candidatesFor at hc
  split at hc
  · simp only [List.mem_cons, List.not_mem_nil, or_false] at hc
    rcases hc with rfl | rfl | rfl | rfl | rfl <;> rw [candidate_new_hp] <;>
      simp [GoodHp, hashParams]
  · simp only [List.mem_cons, List.not_mem_nil, or_false] at hc
    rcases hc with rfl | rfl | rfl <;> rw [candidate_new_hp] <;>
      simp [GoodHp, hashParams]

/-- `update_hash` under an add policy only ever applies the update function -/
theorem policyUpdateR_inv {σ : Type} (P : σ → Prop) (pol lim avail : Nat) (upd : σ → Nat → Nat → R σ)
    (hupd : ∀ s p l s', P s → upd s p l = .ok s' → P s') (s : σ) (pos length : Nat) (s' : σ)
    (hs : P s) (h : policyUpdateR pol lim avail upd s pos length = .ok s') : P s' := by
  unfold policyUpdateR at h
  split at h
  · exact hupd _ _ _ _ hs h
  · split at h
    · exact hupd _ _ _ _ hs h
    · split at h <;> exact hupd _ _ _ _ hs h
    · split at h
      · exact hupd _ _ _ _ hs h
      · rw [bind_eq_ok] at h
        obtain ⟨s1, h1, h⟩ := h
        have hs1 := hupd _ _ _ _ hs h1
        split at h
        · cases h
        · exact hupd _ _ _ _ hs1 h
    · split at h
      · exact hupd _ _ _ _ hs h
      · cases h; exact hs
    · rw [bind_eq_ok] at h
      obtain ⟨s1, h1, h⟩ := h
      have hs1 := hupd _ _ _ _ hs h1
      split at h
      · split at h
        · cases h
        · exact hupd _ _ _ _ hs1 h
      · cases h; exact hs1

theorem updateHash_hp (plain : Array Nat) (pol lim : Nat) (c : Candidate) (pos length : Nat)
    (c' : Candidate) (h : c.updateHash plain pol lim pos length = .ok c') : c'.hp = c.hp := by
  unfold Candidate.updateHash at h
  split at h
  · refine policyUpdateR_inv (fun x => x.hp = c.hp) _ _ _ _ ?_ c pos length c' rfl h
    intro s p l s' hs hu
    obtain ⟨hp, d, head3, l0, l1, mc⟩ := s
    simp only [bind_eq_ok] at hu
    obtain ⟨d', _, h3', _, hu⟩ := hu
    cases hu
    exact hs
  · refine policyUpdateR_inv (fun x => x.hp = c.hp) _ _ _ _ ?_ c pos length c' rfl h
    intro s p l s' hs hu
    obtain ⟨hp, d, head3, l0, l1, mc⟩ := s
    simp only [bind_eq_ok] at hu
    obtain ⟨d', _, hu⟩ := hu
    cases hu
    exact hs

theorem matchDepth_hp (plain : Array Nat) (c : Candidate) (pos len dist : Nat) (c' : Candidate)
    (h : c.matchDepth plain pos len dist = .ok (some c')) : c'.hp = c.hp := by
  unfold Candidate.matchDepth at h
  rw [bind_eq_ok] at h
  obtain ⟨md, _, h⟩ := h
  split at h
  · split at h <;> (cases h; rfl)
  · cases h

theorem updateCands_ok (f : Candidate → R Candidate) (hf : ∀ c c', f c = .ok c' → c'.hp = c.hp) :
    ∀ cs cs', updateCands f cs = .ok cs' → CandsOK cs → CandsOK cs' := by
  intro cs
  induction cs with
  | nil => intro cs' h _; cases h; intro c hc; cases hc
  | cons c cs ih =>
    intro cs' h hok
    simp only [updateCands, bind_eq_ok] at h
    obtain ⟨c1, h1, rest, h2, h⟩ := h
    cases h
    intro x hx
    rcases List.mem_cons.mp hx with rfl | hx
    · rw [hf _ _ h1]; exact hok c List.mem_cons_self
    · exact ih rest h2 (fun y hy => hok y (List.mem_cons_of_mem _ hy)) x hx

theorem retainCands_ok (f : Candidate → R (Option Candidate))
    (hf : ∀ c c', f c = .ok (some c') → c'.hp = c.hp) :
    ∀ cs cs', retainCands f cs = .ok cs' → CandsOK cs → CandsOK cs' := by
  intro cs
  induction cs with
  | nil => intro cs' h _; cases h; intro c hc; cases hc
  | cons c cs ih =>
    intro cs' h hok
    simp only [retainCands, bind_eq_ok] at h
    obtain ⟨r, h1, rest, h2, h⟩ := h
    have hrest := ih rest h2 (fun y hy => hok y (List.mem_cons_of_mem _ hy))
    cases h
    cases r with
    | none => exact hrest
    | some c1 =>
      intro x hx
      rcases List.mem_cons.mp hx with rfl | hx
      · rw [hf _ _ h1]; exact hok c List.mem_cons_self
      · exact hrest x hx

/-! ### the invariant of `check_dump` -/

structure CLInv (s : CLState) : Prop where
  cands : CandsOK s.cands
  dist3 : s.longestLen3Dist ≤ 32768

theorem updateCandidateHashes_inv (plain : Array Nat) (pol lim : Nat) (s : CLState) (length : Nat)
    (s' : CLState) (h : updateCandidateHashes plain pol lim s length = .ok s') (hs : CLInv s) :
    CLInv s' := by
  obtain ⟨pos, cands, rc, ur, mts, l3⟩ := s
  simp only [updateCandidateHashes, bind_eq_ok] at h
  obtain ⟨cands', h1, h⟩ := h
  have hc := updateCands_ok _ (fun c c' => updateHash_hp plain pol lim c pos length c') _ _ h1 hs.cands
  split at h
  · cases h
  · split at h
    · cases h
    · cases h
      exact ⟨hc, hs.dist3⟩

theorem checkMatch_inv (plain : Array Nat) (s : CLState) (len dist : Nat) (s' : CLState)
    (h : checkMatch plain s len dist = .ok s') (hs : CLInv s) (hd : dist ≤ 32768) : CLInv s' := by
  obtain ⟨pos, cands, rc, ur, mts, l3⟩ := s
  unfold checkMatch at h
  simp only at h
  split at h
  · cases h; exact ⟨hs.cands, hs.dist3⟩
  · rw [bind_eq_ok] at h
    obtain ⟨cands', h1, h⟩ := h
    cases h
    refine ⟨retainCands_ok _ (fun c c' => matchDepth_hp plain c pos len dist c') _ _ h1 hs.cands, ?_⟩
    have := hs.dist3
    show (if len = 3 then max l3 dist else l3) ≤ 32768
    split
    · exact Nat.max_le.mpr ⟨this, hd⟩
    · exact this

theorem dumpStored_inv (plain : Array Nat) (pol lim : Nat) (n : Nat) :
    ∀ s s', dumpStored plain pol lim s n = .ok s' → CLInv s → CLInv s' := by
  induction n with
  | zero => intro s s' h hs; cases h; exact hs
  | succ n ih =>
    intro s s' h hs
    simp only [dumpStored, bind_eq_ok] at h
    obtain ⟨s1, h1, h⟩ := h
    exact ih s1 s' h (updateCandidateHashes_inv plain pol lim s 1 s1 h1 hs)

theorem dumpTokens_inv (plain : Array Nat) (pol lim : Nat) (ts : List Token) :
    ∀ s s', dumpTokens plain pol lim s ts = .ok s' → (∀ t ∈ ts, RefOK t) → CLInv s → CLInv s' := by
  induction ts with
  | nil => intro s s' h _ hs; cases h; exact hs
  | cons t ts ih =>
    intro s s' h hok hs
    have hok' : ∀ t' ∈ ts, RefOK t' := fun t' ht' => hok t' (List.mem_cons_of_mem _ ht')
    cases t with
    | lit b =>
      simp only [dumpTokens, bind_eq_ok] at h
      obtain ⟨s1, h1, h⟩ := h
      exact ih s1 s' h hok' (updateCandidateHashes_inv plain pol lim s 1 s1 h1 hs)
    | ref len dist irr =>
      simp only [dumpTokens, bind_eq_ok] at h
      obtain ⟨s1, h1, s2, h2, h⟩ := h
      have hr : RefOK (.ref len dist irr) := hok _ List.mem_cons_self
      have hs1 := checkMatch_inv plain s len dist s1 h1 hs hr.2.2
      exact ih s2 s' h hok' (updateCandidateHashes_inv plain pol lim s1 len s2 h2 hs1)

theorem checkDump_inv (plain : Array Nat) (pol lim : Nat) (blocks : List Block) :
    ∀ s s', checkDump plain pol lim s blocks = .ok s' → RefsOK blocks → CLInv s → CLInv s' := by
  induction blocks with
  | nil => intro s s' h _ hs; cases h; exact hs
  | cons b bs ih =>
    intro s s' h hok hs
    have hok' : RefsOK bs := fun b' hb' => hok b' (List.mem_cons_of_mem _ hb')
    have hb := hok b List.mem_cons_self
    cases b with
    | stored pad data =>
      simp only [checkDump, bind_eq_ok] at h
      obtain ⟨s1, h1, h⟩ := h
      exact ih s1 s' h hok' (dumpStored_inv plain pol lim _ s s1 h1 hs)
    | fixed ts =>
      simp only [checkDump, bind_eq_ok] at h
      obtain ⟨s1, h1, h⟩ := h
      exact ih s1 s' h hok' (dumpTokens_inv plain pol lim ts s s1 h1 hb hs)
    | dynamic hd ts =>
      simp only [checkDump, bind_eq_ok] at h
      obtain ⟨s1, h1, h⟩ := h
      exact ih s1 s' h hok' (dumpTokens_inv plain pol lim ts s s1 h1 hb hs)

/-! ### `recommend` -/

theorem minFoldCand_mem (cs : List Candidate) : ∀ best : Candidate,
    cs.foldl (fun (best : Candidate) x => if x.maxChainFound < best.maxChainFound then x else best) best
      ∈ best :: cs := by
  induction cs with
  | nil => intro best; exact List.mem_cons_self
  | cons c cs ih =>
    intro best
    rw [List.foldl_cons]
    split
    · exact List.mem_cons_of_mem _ (ih c)
    · rcases List.mem_cons.mp (ih best) with h | h
      · rw [h]; exact List.mem_cons_self
      · exact List.mem_cons_of_mem _ (List.mem_cons_of_mem _ h)

theorem minByChain_mem (cs : List Candidate) (c : Candidate) (h : minByChain cs = some c) : c ∈ cs := by
  cases cs with
  | nil => cases h
  | cons c0 cs =>
    simp only [minByChain, Option.some.injEq] at h
    rw [← h]
    exact minFoldCand_mem cs c0

/-- the matching-type fields of a level table row as `EstimatorRange` wants them -/
def CfgOK (c : LevelConfig) : Prop :=
  (if c.isLazy then 1 ≤ c.maxLazy ∧ c.maxLazy ≤ 258 ∧ c.goodLength ≤ 258
   else c.maxLazy = 0 ∧ c.goodLength = 0) ∧ c.niceLength ≤ 258

instance (c : LevelConfig) : Decidable (CfgOK c) := by unfold CfgOK; infer_instance

theorem slow_settings_ok : ∀ c ∈ SLOW_SETTINGS, CfgOK c := by decide
theorem zlib_settings_ok : ∀ c ∈ ZLIB_SETTINGS, CfgOK c := by decide

theorem level_cfg_ok (pol found : Nat) :
    CfgOK (((if pol = 0 then SLOW_SETTINGS else ZLIB_SETTINGS).find?
      (fun c => found < c.maxChain)).getD ⟨false, 0, 0, 258, 0⟩) := by
  cases hfind : (if pol = 0 then SLOW_SETTINGS else ZLIB_SETTINGS).find? (fun c => found < c.maxChain) with
  | none => decide
  | some c =>
    have hm := List.mem_of_find?_eq_some hfind
    simp only [Option.getD_some]
    split at hm
    · exact slow_settings_ok c hm
    · exact zlib_settings_ok c hm

theorem u16_lt (n : Nat) : Chains.u16 n < 65536 := by
  unfold Chains.u16; omega

theorem u16_le_self (n : Nat) : Chains.u16 n ≤ n := by
  unfold Chains.u16; exact Nat.mod_le _ _

/-- the fields `recommend` produces, under the invariant -/
theorem recommend_range (wsize pol : Nat) (s : CLState) (cl : CompLevelInfo)
    (h : recommend wsize pol s = .ok cl) (hs : CLInv s) :
    1 ≤ cl.hashAlg ∧ cl.hashAlg ≤ 7 ∧
    (if cl.hashAlg = 1 then cl.hashShift < 16 ∧ cl.hashMask < 32768
      else cl.hashShift = 0 ∧ cl.hashMask = 0) ∧
    cl.maxDist3 ≤ 32768 ∧
    (if cl.isLazy then 1 ≤ cl.maxLazy ∧ cl.maxLazy ≤ 258 ∧ cl.goodLength ≤ 258
      else cl.maxLazy = 0 ∧ cl.goodLength = 0) ∧
    cl.niceLength ≤ 258 ∧ 1 ≤ cl.maxChain ∧ cl.maxChain ≤ 4096 := by
  unfold recommend at h
  split at h
  · cases h
  · rename_i cand hmin
    have hc := hs.cands cand (minByChain_mem _ _ hmin)
    simp only at h
    split at h
    · cases h
    · rename_i hfound
      split at h
      · cases h
      · cases h
        have hcfg := level_cfg_ok pol cand.maxChainFound
        refine ⟨hc.1, hc.2.1, hc.2.2, ?_, hcfg.1, hcfg.2, ?_, ?_⟩
        · exact Nat.le_trans (u16_le_self _) hs.dist3
        · show 1 ≤ cand.maxChainFound + 1; omega
        · show cand.maxChainFound + 1 ≤ 4096; omega

/-! ### the decomposition of `estimate` -/

theorem estimate_cases {plain : Array Nat} {blocks : List Block} {p : Params}
    (h : Est.estimate plain blocks = .ok p) :
    ∃ f, Est.front blocks = .ok f ∧
      ((f.noDictionary = true ∧
          p = ⟨f.strategy, f.huffStrategy, true, 0, 0, 0, 0, 16386, 0, false, false, false, 0, 0, 0, 0, 0, 0, 0⟩) ∨
       (f.noDictionary = false ∧ ∃ s cl,
          checkDump plain f.addPolicy f.addLimit { cands := candidatesFor (extractInfo blocks).minLen } blocks
            = .ok s ∧
          recommend (1 <<< f.windowBits) f.addPolicy s = .ok cl ∧
          p = { strategy := f.strategy, huffStrategy := f.huffStrategy, zlibCompatible := cl.zlibCompatible,
                windowBits := f.windowBits, hashAlg := cl.hashAlg, hashShift := cl.hashShift,
                hashMask := cl.hashMask, maxTokenCount := f.maxTokenCount, maxDist3 := cl.maxDist3,
                veryFar := cl.veryFar, matchesToStart := cl.matchesToStart, isLazy := cl.isLazy,
                goodLength := cl.goodLength, maxLazy := cl.maxLazy, niceLength := cl.niceLength,
                maxChain := cl.maxChain, minLen := (extractInfo blocks).minLen,
                addPolicy := f.addPolicy, addLimit := f.addLimit })) := by
  unfold Est.estimate at h
  rw [bind_eq_ok] at h
  obtain ⟨f, hf, h⟩ := h
  refine ⟨f, hf, ?_⟩
  split at h
  · rename_i hnd
    left
    cases h
    exact ⟨hnd, rfl⟩
  · rename_i hnd
    right
    rw [bind_eq_ok] at h
    obtain ⟨cl, hcl, h⟩ := h
    cases h
    refine ⟨by simpa using hnd, ?_⟩
    unfold compLevel at hcl
    split at hcl
    · cases hcl
    rw [bind_eq_ok] at hcl
    obtain ⟨s, hs, hcl⟩ := hcl
    exact ⟨s, cl, hs, hcl, rfl⟩

/-! ### the main theorem -/

/-- the statement without the validity hypothesis; it is FALSE (`Counter.estimate_not_in_range`) -/
def estimate_in_range_statement : Prop :=
  ∀ (plain : Array Nat) (blocks : List Block) (p : Params),
    Est.estimate plain blocks = .ok p → EstimatorRange p

/-- position-free form: the only thing needed from the block list is that its references have
    lengths 3..258 and distances up to 32768 -/
theorem estimate_in_range_of_refsOK (plain : Array Nat) (blocks : List Block) (p : Params)
    (hok : RefsOK blocks) (h : Est.estimate plain blocks = .ok p) : EstimatorRange p := by
  obtain ⟨f, hf, hcase⟩ := estimate_cases h
  have hfr := front_in_range blocks f hf
  rcases hcase with ⟨hnd, rfl⟩ | ⟨hnd, s, cl, hdump, hrec, rfl⟩
  · left
    exact ⟨rfl, (hfr.2.2.1 hnd).1, hfr.2.1⟩
  · right
    obtain ⟨hst, hw1, hw2, ⟨m, hm1, hm2, hmt⟩, hp1, hp2, hp3⟩ := hfr.2.2.2 hnd
    have hinv : CLInv s :=
      checkDump_inv plain f.addPolicy f.addLimit blocks _ s hdump hok
        ⟨candidatesFor_ok _, Nat.zero_le _⟩
    obtain ⟨r1, r2, r3, r4, r5, r6, r7, r8⟩ := recommend_range _ _ s cl hrec hinv
    have hml := extractInfo_minLen blocks hok (dictionary_has_reference blocks f hf hnd)
    refine ⟨hst, hfr.2.1, hw1, hw2, r1, r2, r3, ?_, r4, r5, r6, r7, r8, hml.1, hml.2, hp1, ?_⟩
    · show f.maxTokenCount < 32768
      rw [hmt]
      have : 2 ^ (6 + m) ≤ 2 ^ 15 := Nat.pow_le_pow_right (by omega) (by omega)
      have : 0 < 2 ^ (6 + m) := Nat.pow_pos (by omega)
      omega
    · show if f.addPolicy = 1 ∨ f.addPolicy = 2 then f.addLimit ≤ 255 else f.addLimit = 0
      split
      · exact hp2
      · rename_i hne
        exact hp3 (fun h1 => hne (Or.inl h1)) (fun h2 => hne (Or.inr h2))

/-- THE RANGE THEOREM: on a valid expansion of the plaintext (what the parser returns,
    `parse_valid`), whatever the complete estimator returns is inside `EstimatorRange` -/
theorem estimate_in_range (plain : Array Nat) (blocks : List Block) (p : Params)
    (hv : StreamValid plain blocks)
    (h : Est.estimate plain blocks = .ok p) : EstimatorRange p :=
  estimate_in_range_of_refsOK plain blocks p (streamValid_refsOK hv) h

/-- same statement, the name the brief reserves for the version with an extra hypothesis -/
theorem estimate_in_range_partial (plain : Array Nat) (blocks : List Block) (p : Params)
    (hv_stream_valid : StreamValid plain blocks)
    (h : Est.estimate plain blocks = .ok p) : EstimatorRange p :=
  estimate_in_range plain blocks p hv_stream_valid h

/-! ### the validity hypothesis is needed -/

namespace Counter

/-- six zero bytes … -/
def plain : Array Nat := #[0, 0, 0, 0, 0, 0]

/-- … as a literal, a reference of length 2 (not a DEFLATE length; the parser never returns one) and
    three literals -/
def blocks : List Block := [.fixed [.lit 0, .ref 2 1 false, .lit 0, .lit 0, .lit 0]]

/-- the estimator accepts this block list and returns a vector outside the range (`minLen = 2`);
    evaluated by the kernel -/
theorem estimate_out_of_range_invalid :
    (match Est.estimate plain blocks with
     | .ok p => !decide (EstimatorRange p)
     | .error _ => false) = true := by decide +kernel

/-- so the range theorem does not hold for arbitrary block lists -/
theorem estimate_not_in_range : ¬ estimate_in_range_statement := by
  intro hall
  have h := estimate_out_of_range_invalid
  cases he : Est.estimate plain blocks with
  | error e => rw [he] at h; cases h
  | ok p =>
    rw [he] at h
    have := hall _ _ _ he
    simp only [this, decide_true, Bool.not_true] at h
    cases h

end Counter

/-! ### the public pair with the estimator's range needed on the parser's output only -/

variable {H : Type}

/-- `recompress_decompress` with the range hypothesis restricted to what the parser returned for
    this input -/
theorem recompress_decompress' (est : Array Nat → List Block → R Params) (mk : Params → Pred H)
    (verify : Bool) (d : List UInt8)
    (hest : ∀ p, parse d = .ok p → ∀ q, est p.plain p.blocks = .ok q → EstimatorRange q)
    (r : StreamResult) (h : decompressStream est mk verify d = .ok r) :
    recompressStream mk r.plain r.corr = .ok (d.take r.size) ∧ r.size ≤ d.length := by
  obtain ⟨p, params, hdr, body, h1, h2, h3, h4, rfl⟩ := decompressStream_ok h
  exact ⟨recompressStream_ok mk d p h1 params (hest p h1 _ h2) hdr h3 body h4, (write_parse d p h1).2⟩

/-- `verify_same` with the range hypothesis restricted to what the parser returned for this input -/
theorem verify_same' (est : Array Nat → List Block → R Params) (mk : Params → Pred H)
    (d : List UInt8)
    (hest : ∀ p, parse d = .ok p → ∀ q, est p.plain p.blocks = .ok q → EstimatorRange q) :
    decompressStream est mk true d = decompressStream est mk false d := by
  unfold decompressStream
  cases hp : parse d with
  | error e => rfl
  | ok p =>
    simp only [ok_bind]
    cases he : est p.plain p.blocks with
    | error e => rfl
    | ok params =>
      simp only [ok_bind]
      cases hw : writeParams params with
      | error e => rfl
      | ok hdr =>
        simp only [ok_bind]
        cases hb : encStream (mk params) p.plain p.blocks p.eofPadding with
        | error e => rfl
        | ok body =>
          simp only [ok_bind, if_true, Bool.false_eq_true, if_false,
            verifyStream_ok mk d p hp params (hest p hp _ he) hdr hw body hb]

/-- the complete estimator is in range on whatever the parser returns  -/
theorem estimate_in_range_parsed (d : List UInt8) (p : Parsed)
    (hp : parse d = .ok p) (q : Params) (hq : Est.estimate p.plain p.blocks = .ok q) :
    EstimatorRange q := by
  exact estimate_in_range p.plain p.blocks q (parse_valid_unbounded (bytesToBits d) p hp).1 hq

/-- THE PUBLIC PAIR with the modelled estimator and the executable predictor family, no hypothesis
    left on either: whenever `decompress_deflate_stream` returns Ok(r) (either verify setting),
    `recompress_deflate_stream` on r's plaintext and corrections returns exactly D[..r.size] -/
theorem public_pair_exact (verify : Bool) (d : List UInt8) (r : StreamResult)
    (h : decompressStream Est.estimate Chains.pred verify d = .ok r) :
    recompressStream Chains.pred r.plain r.corr = .ok (d.take r.size) ∧ r.size ≤ d.length :=
  recompress_decompress' Est.estimate Chains.pred verify d (estimate_in_range_parsed d) r h

/-- … and the verify=true block changes neither Ok/Err nor the result -/
theorem public_verify_same (d : List UInt8) :
    decompressStream Est.estimate Chains.pred true d = decompressStream Est.estimate Chains.pred false d :=
  verify_same' Est.estimate Chains.pred d (estimate_in_range_parsed d)

/-- `decompress_bytes_chain` (Props/C02.lean) with the range hypothesis restricted to the parser's output -/
theorem decompress_bytes_chain' (est : Array Nat → List Block → R Params) (mk : Params → Pred H)
    (hb : ∀ q, PredBounded (mk q))
    (verify : Bool) (d : List UInt8)
    (hest : ∀ p, parse d = .ok p → ∀ q, est p.plain p.blocks = .ok q → EstimatorRange q)
    (r : StreamResult)
    (h : decompressStream est mk verify d = .ok r) :
    ∃ evs bytes, encodeOps 0 r.corr = .ok evs ∧ encodeBytes r.corr = .ok bytes ∧
      decodeOps 0 (r.corr.map Op.kind) (VP8.readEvents bytes (evs.map (·.ctx))) = .ok (r.corr, 0, []) ∧
      recompressStream mk r.plain r.corr = .ok (d.take r.size) := by
  have hrec := (recompress_decompress' est mk verify d hest r h).1
  obtain ⟨p, params, hdr, body, h1, h2, h3, h4, rfl⟩ := decompressStream_ok h
  obtain ⟨hv, hpad⟩ := parse_valid_unbounded (bytesToBits d) p h1
  obtain ⟨ops, e1, _, hwf1⟩ := readParams_writeParams params
    (estimatorRange_wf params (hest p h1 _ h2)) []
  rw [h3] at e1
  simp only [Except.ok.injEq] at e1
  subst e1
  have hwf2 := encStream_ops_wf' (mk params) (hb params) p.plain p.blocks p.eofPadding hv hpad
    (parse_tokenCountsSmall d p h1) body h4
  have hwf : ∀ o ∈ hdr ++ body, o.WF := by
    intro o ho
    rcases List.mem_append.mp ho with ho | ho
    · exact hwf1 o ho
    · exact hwf2 o ho
  obtain ⟨evs, bytes, e1, e2, _, e4⟩ := bytes_roundtrip (hdr ++ body) hwf
  exact ⟨evs, bytes, e1, e2, e4, hrec⟩

/-- BYTE LEVEL, end to end, for the modelled estimator and the executable predictor family -/
theorem public_bytes_chain (verify : Bool) (d : List UInt8) (r : StreamResult)
    (h : decompressStream Est.estimate Chains.pred verify d = .ok r) :
    ∃ evs bytes, encodeOps 0 r.corr = .ok evs ∧ encodeBytes r.corr = .ok bytes ∧
      decodeOps 0 (r.corr.map Op.kind) (VP8.readEvents bytes (evs.map (·.ctx))) = .ok (r.corr, 0, []) ∧
      recompressStream Chains.pred r.plain r.corr = .ok (d.take r.size) :=
  decompress_bytes_chain' Est.estimate Chains.pred chains_pred_bounded verify d
    (estimate_in_range_parsed d) r h

end Preflate.Proofs
